package control

// C08 correspondence harness: the REAL DnsController (NewDnsController, production-shaped NewCache
// callback) driven through its production entry points
//
//	cacheKey / responseCacheKey / dnsCacheBaseKey
//	NormalizeAndCacheDnsResp_ / UpdateDnsCacheTtlWithKey / UpdateDnsCacheTtl      (insert)
//	LookupDnsRespCache_                                                         (lookup)
//	evictExpiredDnsCache                                                        (janitor body)
//	CloneCacheForReload + RestoreReloadCache, ReuseForReload                    (reload)
//	backgroundRefresh (reject route: only its deferred clean-up runs)           (refresh ended)
//	RemoveDnsRespCache / RemoveDnsRespCacheFamily
//	buildMinHeap / heapifyMin
//
// under testing/synctest (virtual time, nanosecond control of "now" relative to every deadline),
// against the Lean model driver c08drv.  One op per line; see lean/DaeVerif/C08/Main.lean.

import (
	"context"
	"encoding/hex"
	"fmt"
	"net"
	"net/netip"
	"runtime"
	"sort"
	"strings"
	"sync"
	"sync/atomic"
	"testing"
	"testing/synctest"
	"time"

	"github.com/daeuniverse/dae/common/consts"
	"github.com/daeuniverse/dae/config"
	"github.com/daeuniverse/dae/component/dns"
	"github.com/daeuniverse/dae/pkg/config_parser"
	dnsmessage "github.com/miekg/dns"
	"github.com/sirupsen/logrus"
)

const c08Sec = int64(1000000000)

func c08Hex(s string) string {
	if s == "" {
		return "-"
	}
	return hex.EncodeToString([]byte(s))
}

func c08B(b bool) string {
	if b {
		return "1"
	}
	return "0"
}

type c08Fixed struct {
	name string
	ttl  int
	lit  string // the way the number is written in the configuration ("" = decimal): 0x10, 017, 1_0, +7 ...
}

func (f c08Fixed) num() string {
	if f.lit != "" {
		return f.lit
	}
	return fmt.Sprint(f.ttl)
}

type c08Cfg struct {
	opt   bool
	stale int
	max   int
	fixed []c08Fixed // the fixed_domain_ttl lines, in configuration order
}

func (c c08Cfg) fixedStr() string {
	if len(c.fixed) == 0 {
		return "-"
	}
	parts := make([]string, len(c.fixed))
	for i, f := range c.fixed {
		parts[i] = fmt.Sprintf("%s:%d", c08Hex(f.name), f.ttl)
	}
	return strings.Join(parts, ",")
}

// fixedMap goes through the production parser of the fixed_domain_ttl section.
func (c c08Cfg) fixedMap() map[string]int {
	ks := make([]config.KeyableString, len(c.fixed))
	for i, f := range c.fixed {
		ks[i] = config.KeyableString(fmt.Sprintf("%s: %s", f.name, f.num()))
	}
	m, err := ParseFixedDomainTtl(ks)
	if err != nil {
		panic(err)
	}
	return m
}

// fixedFor is the generator's own idea of the table (used only to aim the clock).
func (c c08Cfg) fixedFor(host string) (int, bool) {
	v, ok := 0, false
	for _, f := range c.fixed {
		if strings.EqualFold(strings.TrimSuffix(f.name, "."), strings.TrimSuffix(host, ".")) {
			v, ok = f.ttl, true
		}
	}
	return v, ok
}

func (c c08Cfg) opStr() string {
	return fmt.Sprintf("opt=%s stale=%d max=%d fixed=%s", c08B(c.opt), c.stale, c.max, c.fixedStr())
}

// c08CbFail makes the CacheAccessCallback (BatchUpdateDomainRouting in production) fail
var c08CbFail atomic.Bool

func c08Option(cfg c08Cfg, log *logrus.Logger) *DnsControllerOption {
	return &DnsControllerOption{
		Log: log,
		CacheAccessCallback: func(*DnsCache) error {
			if c08CbFail.Load() {
				return fmt.Errorf("domain routing map update failed")
			}
			return nil
		},
		// the shape of the callback in control_plane.go (dnsControllerOption), minus the routing matcher
		NewCache: func(fqdn string, answers, ns, extra []dnsmessage.RR, deadline time.Time, originalDeadline time.Time) (*DnsCache, error) {
			return &DnsCache{
				NS:               ns,
				Extra:            extra,
				Answer:           answers,
				Deadline:         deadline,
				OriginalDeadline: originalDeadline,
			}, nil
		},
		FixedDomainTtl:     cfg.fixedMap(),
		OptimisticCache:    cfg.opt,
		OptimisticCacheTtl: cfg.stale,
		MaxCacheSize:       cfg.max,
	}
}

// c08World is the implementation side of one history.
type c08World struct {
	c     *DnsController
	log   *logrus.Logger
	st    *VStream
	stats *VStats

	// production-shaped mode (cpStart/cpReload): the control plane of the current generation, its
	// dns{} section, and the instant the janitor goroutine that serves the store was started
	// (0 = the janitor is parked and the histories call its body themselves)
	plane    *ControlPlane
	dnsConf  *config.Dns
	tickBase int64
}

const c08JanitorPeriod = 30 * c08Sec

// sleepUntil advances the virtual clock to t.  When the real janitor goroutine is running, every
// tick on the way is observed: key set before, let the goroutine finish (synctest.Wait), key set
// after — emitted as a `jan` line at the tick's instant.
func (w *c08World) sleepUntil(t int64) {
	if w.tickBase != 0 {
		for {
			now := time.Now().UnixNano()
			k := (now-w.tickBase)/c08JanitorPeriod + 1
			tick := w.tickBase + k*c08JanitorPeriod
			if tick > t {
				break
			}
			before := w.keys()
			c08SleepUntil(tick)
			synctest.Wait()
			after := map[string]bool{}
			for _, key := range w.keys() {
				after[key] = true
			}
			var gone []string
			for _, key := range before {
				if !after[key] {
					gone = append(gone, key)
				}
			}
			w.st.Emit(fmt.Sprintf("jan t=%d ev=%s", tick, c08KeysStr(gone)), "ev="+c08KeysStr(gone))
			w.stats.Inc("op.jan_real_ticker")
			w.stats.Add("janitor.evicted_by_real_ticker", len(gone))
		}
	}
	c08SleepUntil(t)
}

func (w *c08World) cfgObserved() string {
	en, ttl, mx := w.c.currentOptimisticCacheConfig()
	return fmt.Sprintf("opt=%s stale=%d max=%d", c08B(en), ttl, mx)
}

func (w *c08World) newController(cfg c08Cfg) {
	// the real janitor goroutine must not fire on its own here: the history decides when it runs
	dnsCacheJanitorInterval = 24 * 365 * 50 * time.Hour
	if w.c != nil {
		_ = w.c.Close()
	}
	c, err := NewDnsController(nil, c08Option(cfg, w.log))
	if err != nil {
		panic(err)
	}
	w.c = c
}

func (w *c08World) keys() []string {
	var ks []string
	w.c.dnsCache.Range(func(k, _ any) bool {
		ks = append(ks, k.(string))
		return true
	})
	sort.Strings(ks)
	return ks
}

func c08KeysStr(ks []string) string {
	if len(ks) == 0 {
		return "-"
	}
	hs := make([]string, len(ks))
	for i, k := range ks {
		hs[i] = c08Hex(k)
	}
	sort.Strings(hs)
	return strings.Join(hs, ",")
}

func c08SleepUntil(t int64) {
	if d := t - time.Now().UnixNano(); d > 0 {
		time.Sleep(time.Duration(d))
	}
}

// c08Records builds the answer / authority / additional sections of an upstream reply: one answer
// record per element of ttls, each with its OWN TTL (CNAME chains: 3600, 3600, 30 ...); the other
// sections carry TTLs of their own as well (glue) — the cache must not care.
func c08Records(fq string, qtype uint16, ttls []uint32, ans, ns int) (answers, nsec, extra []dnsmessage.RR) {
	other := uint32(77)
	if len(ttls) > 0 {
		other = ttls[0]/2 + 9
	}
	for i, ttl := range ttls {
		id := ans + i
		if qtype == dnsmessage.TypeAAAA {
			ip := net.ParseIP("2001:db8::")
			ip[14], ip[15] = byte(id>>8), byte(id)
			answers = append(answers, &dnsmessage.AAAA{Hdr: dnsmessage.RR_Header{Name: fq, Rrtype: dnsmessage.TypeAAAA, Class: dnsmessage.ClassINET, Ttl: ttl}, AAAA: ip})
		} else {
			answers = append(answers, &dnsmessage.A{Hdr: dnsmessage.RR_Header{Name: fq, Rrtype: dnsmessage.TypeA, Class: dnsmessage.ClassINET, Ttl: ttl}, A: net.IPv4(10, 9, byte(id>>8), byte(id)).To4()})
		}
	}
	if ns == 1 || ns == 4 {
		nsec = append(nsec, &dnsmessage.SOA{Hdr: dnsmessage.RR_Header{Name: "test.", Rrtype: dnsmessage.TypeSOA, Class: dnsmessage.ClassINET, Ttl: other + 1},
			Ns: "ns.test.", Mbox: "h.test.", Serial: 1, Refresh: 2, Retry: 3, Expire: 4, Minttl: 5})
	}
	if ns == 2 { // a record dns.Msg.Pack refuses: prepackResponseBeforeStore fails, the entry is stored without packed bytes
		nsec = append(nsec, &dnsmessage.TXT{Hdr: dnsmessage.RR_Header{Name: "test.", Rrtype: dnsmessage.TypeTXT, Class: dnsmessage.ClassINET, Ttl: other},
			Txt: []string{strings.Repeat("x", 300)}})
	}
	if ns == 3 || ns == 4 { // glue in the additional section, with a long TTL of its own
		extra = append(extra, &dnsmessage.A{Hdr: dnsmessage.RR_Header{Name: "ns.test.", Rrtype: dnsmessage.TypeA, Class: dnsmessage.ClassINET, Ttl: 86400}, A: net.IPv4(192, 0, 2, 53).To4()})
	}
	return
}

// c08Same: n answer records that all carry the same TTL
func c08Same(n int, ttl uint32) []uint32 {
	t := make([]uint32, n)
	for i := range t {
		t[i] = ttl
	}
	return t
}

func c08TTLsStr(ttls []uint32) string {
	if len(ttls) == 0 {
		return "-"
	}
	p := make([]string, len(ttls))
	for i, t := range ttls {
		p[i] = fmt.Sprint(t)
	}
	return strings.Join(p, ",")
}

// c08GenTTLs: the TTLs of the answer records of a generated reply.  The number of records crosses the
// 8-record stack scratch of prepackResponseBeforeStore; the smallest TTL sits first, in the middle or
// last (the entry must live as long as the shortest-lived record, wherever it is).
func c08GenTTLs(r *VRand, stats *VStats, base uint32, n int) []uint32 {
	ttls := c08Same(n, base)
	stats.Inc(fmt.Sprintf("reply.answer_records=%s", map[bool]string{true: "9_or_more", false: fmt.Sprint(n)}[n >= 9]))
	if n < 2 {
		return ttls
	}
	longer := func(t uint32) uint32 {
		if t > 4000000000 {
			return t
		}
		return t*3 + 7 + uint32(r.Intn(50))
	}
	switch r.Intn(5) {
	case 0:
		stats.Inc("reply.all_answers_same_ttl")
	case 1: // the first record is the shortest-lived
		for i := 1; i < n; i++ {
			ttls[i] = longer(base)
		}
		stats.Inc("reply.min_ttl_first")
	case 2: // the last one is
		for i := 0; i < n-1; i++ {
			ttls[i] = longer(base)
		}
		stats.Inc("reply.min_ttl_last")
	case 3: // one in the middle (or the second of two)
		k := 1
		if n > 2 {
			k = r.Range(1, n-2)
		}
		for i := range ttls {
			if i != k {
				ttls[i] = longer(base)
			}
		}
		if k == n-1 {
			stats.Inc("reply.min_ttl_last")
		} else {
			stats.Inc("reply.min_ttl_middle")
		}
	default: // a descending chain: every record shorter-lived than the one before
		for i := range ttls {
			ttls[i] = base + uint32(n-1-i)*uint32(1+r.Intn(40))
			if ttls[i] < base { // wrapped
				ttls[i] = base
			}
		}
		stats.Inc("reply.min_ttl_last")
	}
	return ttls
}

func c08Fqdn(host string) string {
	return dnsmessage.CanonicalName(host)
}

// ins: UpdateDnsCacheTtlWithKey / UpdateDnsCacheTtl
func (w *c08World) ins(t int64, key, host string, qtype uint16, ttl int, ans, n, ns int) {
	w.sleepUntil(t)
	_, ipErr := netip.ParseAddr(strings.TrimSuffix(host, "."))
	op := fmt.Sprintf("ins t=%d key=%s host=%s qtype=%d ttl=%d ans=%d n=%d ns=%d ip=%s cb=%s", t, c08Hex(key), c08Hex(host), qtype, ttl, ans, n, ns, c08B(ipErr == nil), c08B(c08CbFail.Load()))
	out := VRecover(func() string {
		answers, nsec, extra := c08Records(c08Fqdn(host), qtype, c08Same(n, 77), ans, ns)
		var err error
		if key == "" {
			err = w.c.UpdateDnsCacheTtl(host, qtype, answers, nsec, extra, ttl)
		} else {
			err = w.c.UpdateDnsCacheTtlWithKey(key, host, qtype, answers, nsec, extra, ttl)
		}
		if err != nil {
			if strings.Contains(err.Error(), "domain routing map update failed") {
				return "err" // the callback's error is handed to the caller; the entry is published all the same
			}
			return "err:" + err.Error()
		}
		return "ok"
	})
	w.st.Emit(op, out)
}

// insn: NormalizeAndCacheDnsResp_ on an upstream reply (the call dialSend makes); n records, one TTL
func (w *c08World) insn(t int64, key, host string, qtype uint16, rttl uint32, ans, n, ns, rcode int) {
	w.insnMsg(t, key, host, qtype, c08Same(n, rttl), ans, ns, rcode, true, 1, dnsmessage.ClassINET)
}

// insnMsg: resp = the header's QR bit, nq = number of questions (0 or 1), ttls = the answer records' TTLs
func (w *c08World) insnMsg(t int64, key, host string, qtype uint16, ttls []uint32, ans, ns, rcode int, resp bool, nq int, qclass uint16) {
	w.sleepUntil(t)
	_, ipErr := netip.ParseAddr(strings.TrimSuffix(host, "."))
	op := fmt.Sprintf("insn t=%d key=%s host=%s qtype=%d ttls=%s ans=%d ns=%d rcode=%d ip=%s resp=%s nq=%d class=%d", t, c08Hex(key), c08Hex(host), qtype, c08TTLsStr(ttls), ans, ns, rcode, c08B(ipErr == nil), c08B(resp), nq, qclass)
	out := VRecover(func() string {
		answers, nsec, extra := c08Records(c08Fqdn(host), qtype, ttls, ans, ns)
		msg := &dnsmessage.Msg{
			MsgHdr: dnsmessage.MsgHdr{Id: 4242, Response: resp, Rcode: rcode, RecursionDesired: true, RecursionAvailable: true},
			Answer: answers, Ns: nsec, Extra: extra,
		}
		if nq > 0 {
			msg.Question = []dnsmessage.Question{{Name: host, Qtype: qtype, Qclass: qclass}}
		}
		if err := w.c.NormalizeAndCacheDnsResp_(msg, key); err != nil {
			return "err:" + err.Error()
		}
		return "ok"
	})
	w.st.Emit(op, out)
}

type c08Hit struct {
	hit     bool
	line    string
	refresh bool
}

func (w *c08World) lookupRaw(key, qname string, qtype uint16, ign bool) c08Hit {
	msg := new(dnsmessage.Msg)
	msg.SetQuestion(dnsmessage.Fqdn(qname), qtype)
	resp, needRefresh := w.c.LookupDnsRespCache_(msg, key, ign)
	if resp == nil {
		if needRefresh {
			return c08Hit{line: "miss-but-refresh"}
		}
		return c08Hit{line: "miss"}
	}
	var m dnsmessage.Msg
	if err := m.Unpack(resp); err != nil {
		return c08Hit{line: "unpack-error"}
	}
	ans := "-"
	if len(m.Answer) > 0 {
		switch a := m.Answer[0].(type) {
		case *dnsmessage.A:
			ip := a.A.To4()
			ans = fmt.Sprint(int(ip[2])<<8 | int(ip[3]))
		case *dnsmessage.AAAA:
			ip := a.AAAA.To16()
			ans = fmt.Sprint(int(ip[14])<<8 | int(ip[15]))
		default:
			ans = "?"
		}
	}
	ttl := "-"
	first := true
	for _, sec := range [][]dnsmessage.RR{m.Answer, m.Ns, m.Extra} {
		for _, rr := range sec {
			v := fmt.Sprint(rr.Header().Ttl)
			if first {
				ttl, first = v, false
			} else if ttl != v {
				ttl = "mixed"
			}
		}
	}
	if !m.Response || m.Rcode != dnsmessage.RcodeSuccess {
		return c08Hit{hit: true, line: "not-a-success-response"}
	}
	return c08Hit{hit: true, refresh: needRefresh,
		line: fmt.Sprintf("hit ans=%s n=%d ttl=%s rf=%s", ans, len(m.Answer), ttl, c08B(needRefresh))}
}

func (w *c08World) look(t int64, key, qname string, qtype uint16, ign bool) c08Hit {
	w.sleepUntil(t)
	op := fmt.Sprintf("look t=%d key=%s ign=%s", t, c08Hex(key), c08B(ign))
	var h c08Hit
	out := VRecover(func() string {
		h = w.lookupRaw(key, qname, qtype, ign)
		return h.line
	})
	w.st.Emit(op, out)
	return h
}

// clookTTL: g goroutines look the same key up at the same virtual instant; reports the largest and
// smallest TTL any of them was shown
func (w *c08World) clookTTL(t int64, key, qname string, qtype uint16, g int) string {
	w.sleepUntil(t)
	op := fmt.Sprintf("clookttl t=%d key=%s g=%d", t, c08Hex(key), g)
	out := VRecover(func() string {
		ttls := make([]int, g)
		var wg sync.WaitGroup
		for i := 0; i < g; i++ {
			wg.Add(1)
			go func() {
				defer wg.Done()
				ttls[i] = -1
				msg := new(dnsmessage.Msg)
				msg.SetQuestion(dnsmessage.Fqdn(qname), qtype)
				resp, _ := w.c.LookupDnsRespCache_(msg, key, false)
				var m dnsmessage.Msg
				if resp != nil && m.Unpack(resp) == nil && len(m.Answer) > 0 {
					ttls[i] = int(m.Answer[0].Header().Ttl)
				}
			}()
		}
		wg.Wait()
		sort.Ints(ttls)
		return fmt.Sprintf("minttl=%d maxttl=%d", ttls[0], ttls[g-1])
	})
	w.st.Emit(op, out)
	return out
}

// clook: g goroutines look the same key up at the same virtual instant
func (w *c08World) clook(t int64, key, qname string, qtype uint16, g int) {
	w.sleepUntil(t)
	op := fmt.Sprintf("clook t=%d key=%s g=%d", t, c08Hex(key), g)
	out := VRecover(func() string {
		var hits, rf, ready atomic.Int64
		var wg sync.WaitGroup
		for i := 0; i < g; i++ {
			wg.Add(1)
			go func() {
				defer wg.Done()
				// spin barrier: all goroutines leave it within a few nanoseconds of each other
				ready.Add(1)
				for ready.Load() < int64(g) {
					runtime.Gosched()
				}
				h := w.lookupRaw(key, qname, qtype, false)
				if h.hit {
					hits.Add(1)
				}
				if h.refresh {
					rf.Add(1)
				}
			}()
		}
		wg.Wait()
		return fmt.Sprintf("hits=%d rf=%d", hits.Load(), rf.Load())
	})
	w.st.Emit(op, out)
}

func (w *c08World) jan(t int64) []string {
	w.sleepUntil(t)
	before := w.keys()
	var crash string
	out := VRecover(func() string {
		w.c.evictExpiredDnsCache(time.Now())
		return ""
	})
	crash = out
	after := map[string]bool{}
	for _, k := range w.keys() {
		after[k] = true
	}
	var gone []string
	for _, k := range before {
		if !after[k] {
			gone = append(gone, k)
		}
	}
	op := fmt.Sprintf("jan t=%d ev=%s", t, c08KeysStr(gone))
	if crash != "" {
		w.st.Emit(op, crash)
	} else {
		w.st.Emit(op, "ev="+c08KeysStr(gone))
	}
	return gone
}

func (w *c08World) cfg(cfg c08Cfg) {
	out := VRecover(func() string {
		w.newController(cfg)
		return "cfg " + w.cfgObserved()
	})
	w.st.Emit("cfg "+cfg.opStr(), out)
}

// reload: what a reload without controller reuse does — clone the old cache, restore it into the
// controller of the new generation, close the old one.
func (w *c08World) reload(cfg c08Cfg) {
	out := VRecover(func() string {
		entries := w.c.CloneCacheForReload()
		nc, err := NewDnsController(nil, c08Option(cfg, w.log))
		if err != nil {
			return "err:" + err.Error()
		}
		n := nc.RestoreReloadCache(entries, nil, time.Now())
		_ = w.c.Close()
		w.c = nc
		return fmt.Sprintf("reload %s n=%d", w.cfgObserved(), n)
	})
	w.st.Emit("reload "+cfg.opStr(), out)
}

// reconf: ReuseForReload — the store is shared, the facade of the new generation has the new config.
func (w *c08World) reconf(cfg c08Cfg) {
	out := VRecover(func() string {
		nc, err := w.c.ReuseForReload(c08Option(cfg, w.log), nil)
		if err != nil {
			return "err:" + err.Error()
		}
		w.c = nc
		return "reconf " + w.cfgObserved()
	})
	w.st.Emit("reconf "+cfg.opStr(), out)
}

// ---------------------------------------------------------------- production-shaped configuration path

func (c c08Cfg) dnsSection() *config.Dns {
	d := &config.Dns{OptimisticCache: c.opt, OptimisticCacheTtl: c.stale, MaxCacheSize: c.max}
	for _, f := range c.fixed {
		d.FixedDomainTtl = append(d.FixedDomainTtl, config.KeyableString(fmt.Sprintf("%s:%s", f.name, f.num())))
	}
	return d
}

// c08NewPlane is the DNS part of NewControlPlane on a skeletal ControlPlane: the five assignments
// that record the dns{} section (control_plane.go, "/// Dns controller."), then the controller is
// built from the PRODUCTION option builder (*ControlPlane).dnsControllerOption().
func (w *c08World) c08NewPlane(d *config.Dns) (*ControlPlane, error) {
	plane := &ControlPlane{log: w.log}
	plane.ctx, plane.cancel = context.WithCancel(context.Background())
	// c08ProductionRecordDNS = the statements of NewControlPlane between ParseFixedDomainTtl and
	// NewDnsController, regenerated from control_plane.go by translators/c08dnscfg on every run
	opt, err := c08ProductionRecordDNS(plane, d, nil)
	if err != nil {
		return nil, err
	}
	plane.dnsController, err = NewDnsController(nil, opt)
	if err != nil {
		return nil, err
	}
	c08DetachCallbacks(plane.dnsController)
	return plane, nil
}

// c08DetachCallbacks replaces, in the runtime the production code installed, only the callbacks that
// reach into the (absent) eBPF core / routing matcher; behaviour configuration and the
// fixed_domain_ttl table stay exactly as production put them there.
func c08DetachCallbacks(ctl *DnsController) {
	if ctl == nil {
		return
	}
	rt := *ctl.runtimeState.Load()
	rt.cacheAccessCallback, rt.cacheRemoveCallback, rt.cacheDeleteCallback = nil, nil, nil
	rt.newCache = func(fqdn string, answers, ns, extra []dnsmessage.RR, deadline time.Time, originalDeadline time.Time) (*DnsCache, error) {
		return &DnsCache{NS: ns, Extra: extra, Answer: answers, Deadline: deadline, OriginalDeadline: originalDeadline}, nil
	}
	ctl.runtimeState.Store(&rt)
}

func c08SameDns(a, b *config.Dns) bool { // what cmd.dnsConfigEqual decides on, for the fields used here
	if a.OptimisticCache != b.OptimisticCache || a.OptimisticCacheTtl != b.OptimisticCacheTtl ||
		a.MaxCacheSize != b.MaxCacheSize || len(a.FixedDomainTtl) != len(b.FixedDomainTtl) {
		return false
	}
	for i := range a.FixedDomainTtl {
		if a.FixedDomainTtl[i] != b.FixedDomainTtl[i] {
			return false
		}
	}
	return true
}

// cpStart: first start of dae with this dns{} section; the janitor goroutine runs for real.
func (w *c08World) cpStart(cfg c08Cfg) {
	out := VRecover(func() string {
		dnsCacheJanitorInterval = time.Duration(c08JanitorPeriod)
		d := cfg.dnsSection()
		plane, err := w.c08NewPlane(d)
		if err != nil {
			return "err:" + err.Error()
		}
		w.plane, w.dnsConf, w.c = plane, d, plane.dnsController
		w.tickBase = time.Now().UnixNano()
		w.stats.Inc("dnscfg." + c08ProductionRecordDNSMode)
		return "cfg " + w.cfgObserved()
	})
	w.st.Emit("cfg "+cfg.opStr(), out)
}

// cpReload: a reload.  As cmd/reload_manager decides: an unchanged dns{} section reuses the
// controller through (*ControlPlane).ReuseDNSControllerFrom (model: configuration swap on the same
// store — with the SAME configuration); a changed one starts a new controller and replays the
// clone of the old cache (model: reload clone).
func (w *c08World) cpReload(cfg c08Cfg) {
	d := cfg.dnsSection()
	if c08SameDns(d, w.dnsConf) {
		out := VRecover(func() string {
			plane, err := w.c08NewPlane(d)
			if err != nil {
				return "err:" + err.Error()
			}
			prevCtl := w.plane.dnsController
			if !plane.ReuseDNSControllerFrom(w.plane) {
				return "reuse-refused"
			}
			c08DetachCallbacks(prevCtl)
			c08DetachCallbacks(plane.dnsController)
			w.plane.cancel() // the previous generation retires: its lifecycle context ends
			w.plane, w.dnsConf, w.c = plane, d, plane.dnsController
			return "reconf " + w.cfgObserved()
		})
		w.st.Emit("reconf "+cfg.opStr(), out)
		w.stats.Inc("op.cpreload_reuse")
		return
	}
	out := VRecover(func() string {
		clones := w.plane.CloneDnsCache()
		plane, err := w.c08NewPlane(d)
		if err != nil {
			return "err:" + err.Error()
		}
		base := time.Now().UnixNano()
		n := plane.dnsController.RestoreReloadCache(clones, nil, time.Now())
		_ = w.plane.dnsController.Close()
		w.plane.cancel()
		w.plane, w.dnsConf, w.c = plane, d, plane.dnsController
		w.tickBase = base
		return fmt.Sprintf("reload %s n=%d", w.cfgObserved(), n)
	})
	w.st.Emit("reload "+cfg.opStr(), out)
	w.stats.Inc("op.cpreload_new_controller")
}

// selfRestore: what RebuildReloadDatapath does after a failed staged hand-over — the cache is cloned
// and the clones are restored into the SAME live controller (model: reload clone, same configuration).
func (w *c08World) selfRestore(cfg c08Cfg) {
	out := VRecover(func() string {
		clones := w.c.CloneCacheForReload()
		n := w.c.RestoreReloadCache(clones, nil, time.Now())
		return fmt.Sprintf("reload %s n=%d", w.cfgObserved(), n)
	})
	w.st.Emit("reload "+cfg.opStr(), out)
	w.stats.Inc("op.self_restore")
}

func (w *c08World) rdone(t int64, key, qname string, qtype uint16) {
	w.sleepUntil(t)
	out := VRecover(func() string {
		msg := new(dnsmessage.Msg)
		msg.SetQuestion(dnsmessage.Fqdn(qname), qtype)
		// reject route: backgroundRefresh returns before contacting anything; only its deferred
		// "refresh ended" clean-up runs.
		w.c.backgroundRefresh(key, msg, nil, consts.DnsRequestOutboundIndex_Reject, nil)
		return "ok"
	})
	w.st.Emit(fmt.Sprintf("rdone t=%d key=%s", t, c08Hex(key)), out)
}

func (w *c08World) rm(key string) {
	out := VRecover(func() string { w.c.RemoveDnsRespCache(key); return "ok" })
	w.st.Emit("rm key="+c08Hex(key), out)
}

func (w *c08World) rmfam(base string) {
	out := VRecover(func() string { w.c.RemoveDnsRespCacheFamily(base); return "ok" })
	w.st.Emit("rmfam base="+c08Hex(base), out)
}

func (w *c08World) emitKeys() {
	w.st.Emit("keys", "keys="+c08KeysStr(w.keys()))
}

// ---------------------------------------------------------------- key derivation

type c08Route struct {
	kind, detail string
	req          *udpRequest
	idx          consts.DnsRequestOutboundIndex
	up           *dns.Upstream
}

func c08Routes() []c08Route {
	dst4 := netip.MustParseAddrPort("8.8.8.8:53")
	dst6 := netip.MustParseAddrPort("[2001:4860:4860::8888]:53")
	up1 := &dns.Upstream{Scheme: "udp", Hostname: "dns.google", Port: 53}
	up2 := &dns.Upstream{Scheme: "https", Hostname: "1.1.1.1", Port: 443, Path: "/dns-query"}
	up3 := &dns.Upstream{Scheme: "tcp+udp", Hostname: "2400:3200::1", Port: 53}
	return []c08Route{
		{kind: "none"},
		{kind: "asis", idx: consts.DnsRequestOutboundIndex_AsIs},
		{kind: "asisdst", detail: dst4.String(), req: &udpRequest{realDst: dst4}, idx: consts.DnsRequestOutboundIndex_AsIs},
		{kind: "asisdst", detail: dst6.String(), req: &udpRequest{realDst: dst6}, idx: consts.DnsRequestOutboundIndex_AsIs},
		{kind: "reject", idx: consts.DnsRequestOutboundIndex_Reject},
		{kind: "up", detail: up1.String(), up: up1, idx: 0},
		{kind: "up", detail: up2.String(), up: up2, idx: 1},
		{kind: "up", detail: up3.String(), up: up3, idx: 2},
		{kind: "idx", detail: "1", idx: 1},
		{kind: "idx", detail: "37", idx: 37},
	}
}

func (w *c08World) realKey(name string, qtype uint16, r c08Route) string {
	return w.c.responseCacheKey(w.c.cacheKey(name, qtype), r.req, r.idx, r.up)
}

func (w *c08World) keyOp(name string, qtype uint16, r c08Route) string {
	return w.keyOpClass(name, qtype, dnsmessage.ClassINET, r)
}

// keyOpClass: the key HandleWithResponseWriter_ derives for a question (questionCacheKey + scope)
func (w *c08World) keyOpClass(name string, qtype, qclass uint16, r c08Route) string {
	detail := r.detail
	if r.kind != "idx" {
		detail = c08Hex(r.detail)
	}
	var k string
	out := VRecover(func() string {
		base := c08QuestionKey(w.c, dnsmessage.Question{Name: name, Qtype: qtype, Qclass: qclass})
		k = w.c.responseCacheKey(base, r.req, r.idx, r.up)
		return fmt.Sprintf("key=%s base=%s", c08Hex(k), c08Hex(dnsCacheBaseKey(k)))
	})
	w.st.Emit(fmt.Sprintf("key name=%s qtype=%d route=%s detail=%s class=%d", c08Hex(name), qtype, r.kind, detail, qclass), out)
	return k
}

// ---------------------------------------------------------------- generators

var c08BaseNames = []string{"a.test", "b.test", "ddns.example.org", "www.x-y.example.com", "t"}

func c08CaseVariant(r *VRand, s string) string {
	b := []byte(s)
	switch r.Intn(4) {
	case 0:
		return s
	case 1:
		return strings.ToUpper(s)
	case 2:
		for i := range b {
			if r.Bool() && b[i] >= 'a' && b[i] <= 'z' {
				b[i] -= 32
			}
		}
		return string(b)
	default:
		if b[0] >= 'a' && b[0] <= 'z' {
			b[0] -= 32
		}
		return string(b)
	}
}

func c08NameVariant(r *VRand, stats *VStats, base string) string {
	s := c08CaseVariant(r, base)
	if s != base {
		stats.Inc("name.case_variant")
	} else {
		stats.Inc("name.lower")
	}
	if r.Bool() {
		s += "."
		stats.Inc("name.trailing_dot")
	}
	return s
}

func c08RandCfg(r *VRand, stats *VStats) c08Cfg {
	cfg := c08Cfg{opt: r.Bool()}
	cfg.stale = []int{0, 0, 1, 2, 5, 60, 60, 300, 60, 5, 1, 2}[r.Intn(12)]
	cfg.max = []int{0, 0, 0, 1, 2, 3, 5, 0, 2, 3, -1}[r.Intn(11)]
	switch r.Intn(5) {
	case 0:
	case 1:
		cfg.fixed = []c08Fixed{{name: "a.test", ttl: 10}}
	case 2:
		cfg.fixed = []c08Fixed{{name: "a.test.", ttl: 0}, {name: "ddns.example.org", ttl: 3600}}
	case 3:
		cfg.fixed = []c08Fixed{{name: "b.test", ttl: 1}, {name: "DDNS.example.org", ttl: 5}, {name: "T.", ttl: 30}, {name: "B.Test", ttl: 2}, {name: "www.x-y.example.com", ttl: -3}}
	case 4: // the number written the ways strconv.ParseInt(…, 0, …) reads them
		cfg.fixed = []c08Fixed{{"a.test", 15, "017"}, {"ddns.example.org", 16, "0x10"}, {"t", 5, "0b101"}, {"b.test", 7, "+7"}, {"www.x-y.example.com", 10, "1_0"}, {"A.Test", 31, "0X1f"}}
		stats.Inc("cfg.fixed_ttl_written_in_another_base")
	}
	stats.Inc(fmt.Sprintf("cfg.opt=%s,stale%s,max%s,fixed%s", c08B(cfg.opt), c08Cls(cfg.stale), c08Cls(cfg.max), c08Cls(len(cfg.fixed))))
	return cfg
}

func c08Cls(n int) string {
	switch {
	case n == 0:
		return "=0"
	case n < 0:
		return "<0"
	}
	return ">0"
}

// shadow bookkeeping used ONLY to aim the clock at interesting instants (never as an oracle)
type c08Shadow struct {
	key, qname string
	qtype      uint16
	ins        int64 // instant of the insert
	deadline   int64
	pttl       int64 // TTL packed at insert
}

func c08EffStale(cfg c08Cfg) int {
	if cfg.stale == 0 && cfg.max == 0 {
		return 60
	}
	return cfg.stale
}

// c08Instants lists the instants at which the behaviour of some entry changes.
func c08Instants(cfg c08Cfg, sh []c08Shadow) (ts []int64, what []string) {
	add := func(t int64, w string) { ts = append(ts, t); what = append(what, w) }
	for _, s := range sh {
		add(s.deadline, "deadline")
		if st := c08EffStale(cfg); st > 0 {
			add(s.deadline+int64(st)*c08Sec, "window_end")
			add(s.deadline+int64(st)*c08Sec/2, "window_mid")
		} else {
			add(s.deadline+1000*c08Sec, "window_unbounded")
		}
		add(s.ins+c08Sec, "repack_guard")
		// remaining TTL crosses packedTTL-15 / packedTTL-16
		if s.pttl > 16 {
			add(s.deadline-(s.pttl-15)*c08Sec, "slack15")
			add(s.deadline-(s.pttl-16)*c08Sec, "slack16")
			add(s.deadline-(s.pttl-16)*c08Sec+c08Sec, "slack17")
		}
		add(s.deadline-c08Sec, "last_second")
	}
	return
}

func c08NextTime(r *VRand, stats *VStats, now int64, cfg c08Cfg, sh []c08Shadow) int64 {
	switch {
	case r.Chance(0.55):
		ts, what := c08Instants(cfg, sh)
		var cand []int
		for i, t := range ts {
			if t+1 >= now && t-now < 4000*c08Sec {
				cand = append(cand, i)
			}
		}
		if len(cand) > 0 {
			// prefer the nearest ones
			sort.Slice(cand, func(a, b int) bool { return ts[cand[a]] < ts[cand[b]] })
			i := cand[r.Intn(min(len(cand), 4))]
			off := int64(r.Intn(3) - 1)
			t := ts[i] + off
			if t < now {
				t = now
			}
			stats.Inc(fmt.Sprintf("time.%s%+d", what[i], off))
			return t
		}
		fallthrough
	case r.Chance(0.88):
		d := []int64{0, 0, 1, 1000, 1000000, c08Sec - 1, c08Sec, c08Sec + 1, 2 * c08Sec, 7 * c08Sec}[r.Intn(10)]
		stats.Inc("time.small_step")
		return now + d
	default:
		d := int64(r.Range(10, 90)) * c08Sec
		if r.Chance(0.1) {
			d = int64(r.Range(3000, 40000000)) * c08Sec
		}
		stats.Inc("time.jump")
		return now + d
	}
}

func (w *c08World) classify(cfg c08Cfg, sh []c08Shadow, key string, t int64) {
	for _, s := range sh {
		if s.key != key {
			continue
		}
		st := int64(c08EffStale(cfg)) * c08Sec
		var c string
		switch {
		case t < s.deadline-1:
			c = "fresh"
		case t == s.deadline-1:
			c = "fresh_last_ns"
		case t == s.deadline:
			c = "at_deadline"
		case t == s.deadline+1:
			c = "expired_first_ns"
		case st == 0:
			c = "expired_unbounded_window"
		case t < s.deadline+st:
			c = "inside_window"
		case t == s.deadline+st:
			c = "at_window_end"
		case t == s.deadline+st+1:
			c = "window_end_plus_1ns"
		default:
			c = "beyond_window"
		}
		w.stats.Inc("lookup.when." + c)
		return
	}
	w.stats.Inc("lookup.when.no_entry")
}

// c08History runs one random history in its own synctest bubble.
//
// cp = production-shaped mode: configuration travels through the skeletal ControlPlane and the
// production option builder, reloads go through ReuseDNSControllerFrom / CloneDnsCache, and the
// janitor is the real goroutine on its real 30 s ticker (never called by hand).
func c08History(t *testing.T, r *VRand, st *VStream, stats *VStats, log *logrus.Logger, nOps int, cp bool) {
	synctest.Test(t, func(t *testing.T) {
		w := &c08World{log: log, st: st, stats: stats}
		cfg := c08RandCfg(r, stats)
		if cp {
			w.cpStart(cfg)
			stats.Inc("history.production_shaped")
		} else {
			w.cfg(cfg)
			stats.Inc("history.direct")
		}
		defer func() { _ = w.c.Close() }()
		routes := c08Routes()
		// a small universe of (name, qtype, route) so that keys collide on purpose
		type slot struct {
			base  string
			qtype uint16
			route c08Route
		}
		nSlots := r.Range(2, 6)
		slots := make([]slot, nSlots)
		for i := range slots {
			slots[i] = slot{c08BaseNames[r.Intn(len(c08BaseNames))], []uint16{1, 1, 28, 16, 65}[r.Intn(5)], routes[r.Intn(len(routes))]}
		}
		var sh []c08Shadow
		setShadow := func(s c08Shadow) {
			for i := range sh {
				if sh[i].key == s.key {
					sh[i] = s
					return
				}
			}
			sh = append(sh, s)
		}
		now := time.Now().UnixNano()
		ansCounter := r.Intn(1000)
		ignP := 0.08
		if r.Chance(0.15) {
			ignP = 0.3 // a history in which many callers ignore the fixed TTL
			stats.Inc("history.ignore_fixed_ttl_heavy")
		}
		for i := 0; i < nOps; i++ {
			next := c08NextTime(r, stats, now, cfg, sh)
			if cp && next-now > 20*c08JanitorPeriod {
				next = now + 20*c08JanitorPeriod // every tick on the way is a real janitor run: keep them countable
			}
			now = next
			sl := slots[r.Intn(nSlots)]
			name := c08NameVariant(r, stats, sl.base)
			key := w.realKey(name, sl.qtype, sl.route)
			x := r.Intn(100)
			present := false
			w.c.dnsCache.Range(func(k, _ any) bool { present = present || k.(string) == key; return !present })
			if !present && r.Chance(0.6) {
				x = 0 // nothing cached under this key: mostly (re-)insert
			}
			switch {
			case x < 30: // insert
				ansCounter++
				n := []int{1, 1, 1, 2, 3, 0}[r.Intn(6)]
				ns := []int{0, 0, 0, 1, 1, 2, 3, 4}[r.Intn(8)]
				var ttl int64
				host := name
				if r.Bool() {
					rttl := []uint32{0, 1, 2, 5, 14, 15, 16, 17, 18, 30, 31, 32, 33, 47, 60, 120, 300, 3600, 86400, 40000000,
						31535999, 31536000, 31536001, 4294967295}[r.Intn(24)]
					if rttl >= 31535999 && rttl <= 31536001 || rttl == 4294967295 {
						stats.Inc("insert.ttl_at_one_year_clamp_or_uint32_max")
					}
					rcode, resp, nq := 0, true, 1
					switch r.Intn(40) {
					case 0, 1:
						rcode = 3
					case 2:
						rcode = 2
					case 3:
						resp = false
					case 4:
						nq = 0
					}
					qclass := uint16(dnsmessage.ClassINET)
					if r.Chance(0.03) {
						qclass = []uint16{3, 4, 255}[r.Intn(3)] // a reply to a CH / HS / ANY-class question
						stats.Inc("insert.reply_class_not_IN")
					}
					if r.Chance(0.12) {
						n = []int{4, 5, 8, 9, 12}[r.Intn(5)]
					}
					ttls := c08GenTTLs(r, stats, rttl, n)
					w.insnMsg(now, key, host, sl.qtype, ttls, ansCounter, ns, rcode, resp, nq, qclass)
					stats.Inc("op.insn")
					if rcode != 0 || !resp || nq == 0 || qclass != dnsmessage.ClassINET {
						stats.Inc("insert.not_cacheable_reply")
						continue
					}
					ttl = int64(rttl) // c08GenTTLs keeps `rttl` as the smallest
					if n == 0 {
						ttl = 120
					}
					if ttl > 31536000 {
						ttl = 31536000
					}
				} else {
					ttl = []int64{0, 1, 2, 3, 10, 16, 17, 18, 20, 33, 45, 100, 1000, -1}[r.Intn(14)]
					k := key
					if sl.route.kind == "none" && r.Bool() {
						k = "" // UpdateDnsCacheTtl: the controller derives the key itself
						stats.Inc("op.ins_derived_key")
					}
					if r.Chance(0.03) {
						host = "192.0.2.7"
					}
					if !cp && r.Chance(0.04) {
						c08CbFail.Store(true)
						stats.Inc("insert.access_callback_fails")
					}
					w.ins(now, k, host, sl.qtype, int(ttl), ansCounter, n, ns)
					c08CbFail.Store(false)
					stats.Inc("op.ins")
					if host != name {
						continue
					}
				}
				eff := ttl
				if f, ok := cfg.fixedFor(host); ok {
					eff = int64(f)
					stats.Inc("insert.fixed_ttl_applies")
					if host != strings.ToLower(host) {
						stats.Inc("insert.fixed_ttl_applies_mixed_case_question")
					}
				}
				p := eff
				if p < 0 {
					p = 0
				}
				setShadow(c08Shadow{key: key, qname: name, qtype: sl.qtype, ins: now, deadline: now + eff*c08Sec, pttl: p})
			case x < 75: // lookup
				ign := r.Chance(ignP)
				w.classify(cfg, sh, key, now)
				h := w.look(now, key, name, sl.qtype, ign)
				stats.Inc("op.look")
				switch {
				case !h.hit:
					stats.Inc("lookup.result.miss")
				case h.refresh:
					stats.Inc("lookup.result.stale_first_refresh")
				default:
					stats.Inc("lookup.result.hit")
				}
			case x < 79:
				w.clook(now, key, name, sl.qtype, r.Range(2, 16))
				stats.Inc("op.clook")
			case x < 88 && cp:
				// let the real ticker come round: idle for up to two janitor periods
				now += int64(r.Range(3, 65)) * c08Sec
				w.sleepUntil(now)
				w.emitKeys()
				stats.Inc("op.idle_across_ticks")
			case x < 88:
				gone := w.jan(now)
				stats.Inc("op.jan")
				stats.Add("janitor.evicted", len(gone))
			case x < 89:
				w.selfRestore(cfg)
			case x < 90 && cp:
				// ReuseForReload with another configuration (production never does this: it reuses only
				// with an identical dns{}); every background goroutine of the store must follow
				cfg = c08RandCfg(r, stats)
				w.reconf(cfg)
				w.plane.dnsController, w.dnsConf = w.c, cfg.dnsSection()
				stats.Inc("op.reconf_with_real_janitor")
			case x < 93 && cp:
				if r.Bool() {
					cfg = c08RandCfg(r, stats) // dns{} edited: new controller, cache cloned
				}
				w.cpReload(cfg)
			case x < 91:
				cfg = c08RandCfg(r, stats)
				w.reload(cfg)
				stats.Inc("op.reload")
			case x < 93:
				cfg = c08RandCfg(r, stats)
				w.reconf(cfg)
				stats.Inc("op.reconf")
			case x < 96:
				w.rdone(now, key, name, sl.qtype)
				stats.Inc("op.rdone")
			case x < 97:
				w.rm(key)
				stats.Inc("op.rm")
			case x < 98:
				w.rmfam(dnsCacheBaseKey(key))
				stats.Inc("op.rmfam")
			default:
				w.emitKeys()
				stats.Inc("op.keys")
			}
		}
		w.emitKeys()
	})
}

// c08Directed replays fixed scenarios (the boundary instants of one entry, finding #3, LRU order).
func c08Directed(t *testing.T, st *VStream, stats *VStats, log *logrus.Logger) {
	for _, cfg := range []c08Cfg{
		{opt: true, stale: 60}, {opt: true, stale: 0, max: 3}, {opt: false, stale: 60}, {opt: true, stale: 0},
		{opt: false, stale: 0, max: 2}, {opt: true, stale: 2, max: 2, fixed: []c08Fixed{{name: "a.test", ttl: 3}}},
	} {
		for _, ttl := range []int{1, 20, 0} {
			synctest.Test(t, func(t *testing.T) {
				w := &c08World{log: log, st: st, stats: stats}
				w.cfg(cfg)
				defer func() { _ = w.c.Close() }()
				t0 := time.Now().UnixNano()
				key := w.keyOp("A.Test.", 1, c08Routes()[5])
				w.insn(t0, key, "A.Test.", 1, uint32(ttl), 7, 2, 0, 0)
				eff := int64(ttl)
				if f, ok := cfg.fixedFor("A.Test"); ok {
					eff = int64(f)
				}
				d := t0 + eff*c08Sec
				stale := int64(c08EffStale(cfg)) * c08Sec
				for _, at := range []int64{t0, t0 + 1, d - c08Sec, d - 1, d, d + 1, d + 200000000, d + stale - 1, d + stale, d + stale + 1, d + stale + c08Sec} {
					if at < time.Now().UnixNano() {
						continue
					}
					lk := w.realKey("a.test", 1, c08Routes()[5])
					w.look(at, lk, "a.test", 1, false)
					// the same name under another scope / type must not be served from it
					w.look(at, w.realKey("a.test", 28, c08Routes()[5]), "a.test", 28, false)
					w.look(at, w.realKey("a.test", 1, c08Routes()[6]), "a.test", 1, false)
				}
				w.emitKeys()
				stats.Inc("directed.boundary_walk")
			})
		}
	}
	// LRU: five entries touched in a known order, then the limit shrinks
	synctest.Test(t, func(t *testing.T) {
		w := &c08World{log: log, st: st, stats: stats}
		w.cfg(c08Cfg{opt: true, stale: 0, max: 5})
		defer func() { _ = w.c.Close() }()
		t0 := time.Now().UnixNano()
		names := []string{"n0.test", "n1.test", "n2.test", "n3.test", "n4.test", "n5.test", "n6.test"}
		keys := make([]string, len(names))
		for i, n := range names {
			keys[i] = w.realKey(n, 1, c08Routes()[0])
			w.ins(t0+int64(i), keys[i], n, 1, 1000, 100+i, 1, 0)
		}
		for j, i := range []int{3, 0, 5, 1, 6, 2} { // n4 is never looked up
			w.look(t0+c08Sec+int64(j)*1000, keys[i], names[i], 1, false)
		}
		w.jan(t0 + 2*c08Sec)
		w.emitKeys()
		w.reload(c08Cfg{opt: true, stale: 0, max: 2})
		w.jan(t0 + 3*c08Sec)
		w.emitKeys()
		stats.Inc("directed.lru")
	})
}

// c08Findings replays three scenarios whose outcome the check script inspects (see checks/c08.py);
// each is bracketed by `note` lines.  The model mirrors the code on all of them.
func c08Findings(t *testing.T, st *VStream, stats *VStats, log *logrus.Logger) {
	r0 := c08Routes()[0]
	// (a) fixed_domain_ttl and the case of the question name
	synctest.Test(t, func(t *testing.T) {
		w := &c08World{log: log, st: st, stats: stats}
		st.Emit("note fixed-ttl-case begin", "note")
		w.cfg(c08Cfg{opt: false, stale: 60, fixed: []c08Fixed{{name: "ddns.example.org", ttl: 10}}})
		defer func() { _ = w.c.Close() }()
		t0 := time.Now().UnixNano()
		for i, qn := range []string{"ddns.example.org.", "DDNS.Example.org."} {
			key := w.realKey(qn, 1, r0)
			at := t0 + int64(i)*100*c08Sec
			w.insn(at, key, qn, 1, 3600, 50+i, 1, 0, 0) // upstream says 3600 s, the configuration says 10 s
			w.look(at+9*c08Sec, w.realKey("ddns.example.org", 1, r0), "ddns.example.org", 1, false)
			w.look(at+11*c08Sec, w.realKey("ddns.example.org", 1, r0), "ddns.example.org", 1, false)
		}
		st.Emit("note fixed-ttl-case end", "note")
	})
	// (b) LRU order after a background refresh re-inserted the most recently used name
	synctest.Test(t, func(t *testing.T) {
		w := &c08World{log: log, st: st, stats: stats}
		st.Emit("note lru-after-refresh begin", "note")
		w.cfg(c08Cfg{opt: true, stale: 0, max: 1})
		defer func() { _ = w.c.Close() }()
		t0 := time.Now().UnixNano()
		ka, kb := w.realKey("a.test", 1, r0), w.realKey("b.test", 1, r0)
		w.insn(t0, ka, "a.test.", 1, 1, 1, 1, 0, 0)
		w.insn(t0, kb, "b.test.", 1, 1000, 2, 1, 0, 0)
		w.look(t0+1*c08Sec-1, kb, "b.test", 1, false) // b used at +1 s
		w.look(t0+5*c08Sec, ka, "a.test", 1, false)   // a used at +5 s: stale, refresh requested
		w.insn(t0+5*c08Sec+1000, ka, "a.test.", 1, 1000, 3, 1, 0, 0) // the refresh stores the new answer
		w.jan(t0 + 6*c08Sec)                                       // size limit 1: who goes?
		w.emitKeys()
		st.Emit("note lru-after-refresh end", "note")
	})
	// (d) a reload that leaves dns{} unchanged reuses the controller through the production path
	synctest.Test(t, func(t *testing.T) {
		w := &c08World{log: log, st: st, stats: stats}
		st.Emit("note reuse-reload-config begin", "note")
		cfg := c08Cfg{opt: true, stale: 300, max: 50, fixed: []c08Fixed{{name: "ddns.example.org", ttl: 10}}}
		w.cpStart(cfg)
		defer func() { _ = w.c.Close() }()
		t0 := time.Now().UnixNano()
		ka := w.realKey("a.test", 1, r0)
		w.insn(t0, ka, "a.test.", 1, 5, 1, 1, 0, 0)
		w.cpReload(cfg)
		w.cpReload(cfg)
		w.look(t0+100*c08Sec, ka, "a.test", 1, false) // 95 s into the configured 300 s window: still served
		st.Emit("note reuse-reload-config end", "note")
	})
	// (f) a reply whose first record outlives the others: CNAME 3600 s, A 30 s
	synctest.Test(t, func(t *testing.T) {
		w := &c08World{log: log, st: st, stats: stats}
		st.Emit("note shortest-answer-ttl begin", "note")
		w.cfg(c08Cfg{opt: false, stale: 60})
		defer func() { _ = w.c.Close() }()
		t0 := time.Now().UnixNano()
		ka := w.realKey("www.example.com", 1, r0)
		w.insnMsg(t0, ka, "www.example.com.", 1, []uint32{3600, 30}, 40, 0, 0, true, 1, dnsmessage.ClassINET)
		w.look(t0+29*c08Sec, ka, "www.example.com", 1, false)  // both records alive
		w.look(t0+600*c08Sec, ka, "www.example.com", 1, false) // the second record's TTL ran out 570 s ago
		st.Emit("note shortest-answer-ttl end", "note")
	})
	// (g) fixed_domain_ttl written with a trailing dot
	synctest.Test(t, func(t *testing.T) {
		w := &c08World{log: log, st: st, stats: stats}
		st.Emit("note fixed-ttl-trailing-dot begin", "note")
		w.cfg(c08Cfg{opt: false, stale: 60, fixed: []c08Fixed{{name: "ddns.example.org.", ttl: 10}}})
		defer func() { _ = w.c.Close() }()
		t0 := time.Now().UnixNano()
		ka := w.realKey("ddns.example.org", 1, r0)
		w.insn(t0, ka, "ddns.example.org.", 1, 3600, 41, 1, 0, 0)
		w.look(t0+9*c08Sec, ka, "ddns.example.org", 1, false)
		w.look(t0+11*c08Sec, ka, "ddns.example.org", 1, false)
		st.Emit("note fixed-ttl-trailing-dot end", "note")
	})
	// (h) a negative optimistic_cache_ttl is not a configuration
	st.Emit("note negative-window begin", "note")
	for _, cfg := range []c08Cfg{{opt: true, stale: -1}, {opt: false, stale: -60, max: 5}} {
		out := VRecover(func() string {
			c, err := NewDnsController(nil, c08Option(cfg, log))
			if err != nil {
				return "cfg rejected"
			}
			en, ttl, mx := c.currentOptimisticCacheConfig()
			_ = c.Close()
			return fmt.Sprintf("cfg opt=%s stale=%d max=%d", c08B(en), ttl, mx)
		})
		st.Emit("cfgtry "+cfg.opStr(), out)
	}
	st.Emit("note negative-window end", "note")
	// (e) a burst of simultaneous requests for a name nobody asked for in hours
	st.Emit("note concurrent-stale-ttl begin", "note")
	for round := 0; round < 25; round++ {
		synctest.Test(t, func(t *testing.T) {
			w := &c08World{log: log, st: st, stats: stats}
			w.cfg(c08Cfg{opt: true, stale: 60})
			defer func() { _ = w.c.Close() }()
			t0 := time.Now().UnixNano()
			ka := w.realKey("idle.test", 1, r0)
			w.insn(t0, ka, "idle.test.", 1, 86400, 9, 1, 0, 0)
			w.clookTTL(t0+23*3600*c08Sec, ka, "idle.test", 1, 8) // one hour of lifetime left
			w.clookTTL(t0+23*3600*c08Sec+40*c08Sec, ka, "idle.test", 1, 8)
		})
	}
	st.Emit("note concurrent-stale-ttl end", "note")
	// (c) a background refresh that fails while the entry is inside its stale window
	synctest.Test(t, func(t *testing.T) {
		w := &c08World{log: log, st: st, stats: stats}
		st.Emit("note failed-refresh begin", "note")
		w.cfg(c08Cfg{opt: true, stale: 60})
		defer func() { _ = w.c.Close() }()
		t0 := time.Now().UnixNano()
		ka := w.realKey("a.test", 1, r0)
		w.insn(t0, ka, "a.test.", 1, 5, 1, 1, 0, 0)
		w.look(t0+10*c08Sec, ka, "a.test", 1, false) // stale, refresh requested
		w.rdone(t0+11*c08Sec, ka, "a.test", 1)       // the refresh ends without a new answer
		w.look(t0+12*c08Sec, ka, "a.test", 1, false) // still inside the 60 s window: served, next refresh requested
		w.look(t0+13*c08Sec, ka, "a.test", 1, false) // served, that refresh is in flight
		st.Emit("note failed-refresh end", "note")
	})
}

// c08RaceStream: many goroutines hit one freshly expired entry at the same instant; exactly one of
// them may be told to refresh (the CAS on `refreshing`).  One round = one `ins` + one `clook` line.
func c08RaceStream(t *testing.T, st *VStream, stats *VStats, log *logrus.Logger, rounds int) {
	// (1) simultaneous first lookups of a freshly expired entry — in a bubble: instants are virtual,
	// nothing depends on the wall clock
	synctest.Test(t, func(t *testing.T) {
		w := &c08World{log: log, st: st, stats: stats}
		w.cfg(c08Cfg{opt: true, stale: 60})
		defer func() { _ = w.c.Close() }()
		now := time.Now().UnixNano()
		for i := 0; i < rounds; i++ {
			name := fmt.Sprintf("r%d.test", i%50)
			key := w.realKey(name, 1, c08Routes()[0])
			now += c08Sec
			w.ins(now, key, name, 1, 0, i%60000, 1, 0) // TTL 0: expired at once, inside the stale window
			w.clook(now, key, name, 1, 8+i%9)
			stats.Inc("race.rounds")
		}
	})
	// (2) Latch hammer, real parallelism, real time — but nothing in it depends on the wall clock:
	// the entry expired 1000 s before it was stored (a backwards clock step smaller than that changes
	// nothing), the stale window is unbounded (optimistic_cache_ttl 0 with a size limit), the loop is
	// bounded by a time budget, everybody yields, and the result line does not contain instants.
	// Several goroutines look the stale entry up in a loop while the latch is released again and again
	// (what the end of a refresh does): however the lookups interleave, releases = refresh requests.
	loopers := min(6, runtime.GOMAXPROCS(0)-1, runtime.NumCPU()-1)
	if loopers < 2 {
		stats.Inc("race.hammer_skipped_fewer_than_3_cpus")
		st.Emit("hammer skipped=1", "hammer extra_refresh_requests=0")
		return
	}
	w := &c08World{log: log, st: st, stats: stats}
	dnsCacheJanitorInterval = 24 * 365 * 50 * time.Hour
	c, err := NewDnsController(nil, c08Option(c08Cfg{opt: true, stale: 0, max: 1}, log))
	if err != nil {
		panic(err)
	}
	w.c = c
	defer func() { _ = w.c.Close() }()
	name := "hammer.test"
	key := w.realKey(name, 1, c08Routes()[0])
	arms := rounds * 400
	budget := time.Duration(8+rounds/200) * time.Second
	done := 0
	out := VRecover(func() string {
		answers, _, _ := c08Records(c08Fqdn(name), 1, c08Same(1, 77), 77, 0)
		if err := w.c.UpdateDnsCacheTtlWithKey(key, name, 1, answers, nil, nil, -1000); err != nil {
			return "err:" + err.Error()
		}
		msg0 := new(dnsmessage.Msg)
		msg0.SetQuestion(dnsmessage.Fqdn(name), 1)
		if resp, nr := w.c.LookupDnsRespCache_(msg0, key, false); resp == nil || !nr {
			return "first-lookup-not-a-stale-hit-with-refresh"
		}
		v, ok := w.c.dnsCache.Load(key)
		if !ok {
			return "entry-missing"
		}
		entry := v.(*DnsCache)
		var grants atomic.Int64
		var stop atomic.Bool
		var wg sync.WaitGroup
		for g := 0; g < loopers; g++ {
			wg.Add(1)
			go func() {
				defer wg.Done()
				msg := new(dnsmessage.Msg)
				msg.SetQuestion(dnsmessage.Fqdn(name), 1)
				for n := 0; !stop.Load(); n++ {
					if resp, nr := w.c.LookupDnsRespCache_(msg, key, false); resp != nil && nr {
						grants.Add(1)
					}
					if n%64 == 0 {
						runtime.Gosched()
					}
				}
			}()
		}
		deadline := time.Now().Add(budget)
		hard := deadline.Add(3 * budget) // a machine under heavy load gets more time to reach the floor of the check
		stuck := false
	arming:
		for done < arms {
			before := grants.Load()
			entry.MarkRefreshed()
			for spins := 0; grants.Load() == before; spins++ { // somebody takes the latch
				runtime.Gosched()
				if spins%1024 == 1023 && time.Now().After(hard) {
					stuck = grants.Load() == before
					break arming
				}
			}
			done++
			if done%4096 == 0 && time.Now().After(deadline) && (done >= 30000 || time.Now().After(hard)) {
				break
			}
		}
		stop.Store(true)
		wg.Wait()
		released := done
		if stuck {
			released++ // the last release was issued, its grant may or may not have arrived
		}
		// every release was followed by exactly one needRefresh=true  <=>  as many grants as releases
		dup := int(grants.Load()) - done
		if stuck && dup == 1 {
			dup = 0
		}
		_ = released
		return fmt.Sprintf("hammer extra_refresh_requests=%d", dup)
	})
	st.Emit("hammer skipped=0", out)
	stats.Add("race.latch_releases_hammered", done)
	stats.Add("race.hammer_goroutines", loopers)
}


// c08EvictHammer: eviction against insertion, real parallelism.  One key; a writer stores, in turn,
// an answer that expired 1000 s ago (optimistic caching off: the next lookup / janitor pass evicts it)
// and a fresh answer (TTL 1000 s), again and again, while several goroutines look the key up in a tight
// loop and one runs the janitor body in a loop.  An eviction is decided on the object that was loaded
// (`CompareAndDelete(key, loaded)`), so whatever the interleaving the fresh answer just stored is never
// the one that disappears: after every store of a fresh answer the writer must find exactly that answer
// (theorem eviction_removes_only_the_expired_object_it_examined).  Nothing depends on the wall clock
// (margins of 1000 s), the loop is bounded by a time budget, the result line holds no instants.
func c08EvictHammer(st *VStream, stats *VStats, log *logrus.Logger, rounds int) {
	loopers := min(4, runtime.GOMAXPROCS(0)-2, runtime.NumCPU()-2)
	if loopers < 1 {
		stats.Inc("race.evict_hammer_skipped_fewer_than_3_cpus")
		st.Emit("evicthammer skipped=1", "evicthammer lost_fresh_answers=0")
		return
	}
	dnsCacheJanitorInterval = 24 * 365 * 50 * time.Hour
	c, err := NewDnsController(nil, c08Option(c08Cfg{opt: false, stale: 60}, log))
	if err != nil {
		panic(err)
	}
	defer func() { _ = c.Close() }()
	name := "evict.test"
	key := c.cacheKey(name, 1)
	done := 0
	out := VRecover(func() string {
		var stop atomic.Bool
		var wg sync.WaitGroup
		for g := 0; g < loopers; g++ {
			wg.Add(1)
			go func() {
				defer wg.Done()
				msg := new(dnsmessage.Msg)
				msg.SetQuestion(dnsmessage.Fqdn(name), 1)
				for n := 0; !stop.Load(); n++ {
					c.LookupDnsRespCache_(msg, key, false)
					if n%64 == 0 {
						runtime.Gosched()
					}
				}
			}()
		}
		wg.Add(1)
		go func() {
			defer wg.Done()
			for n := 0; !stop.Load(); n++ {
				c.evictExpiredDnsCache(time.Now())
				runtime.Gosched()
			}
		}()
		lost := 0
		deadline := time.Now().Add(time.Duration(6+rounds/400) * time.Second)
		holds := func(id int) bool {
			v, ok := c.dnsCache.Load(key)
			if !ok {
				return false
			}
			e := v.(*DnsCache)
			if len(e.Answer) != 1 {
				return false
			}
			ip := e.Answer[0].(*dnsmessage.A).A.To4()
			return int(ip[2])<<8|int(ip[3]) == id
		}
		for done < rounds {
			id := done % 60000
			old, _, _ := c08Records(c08Fqdn(name), 1, c08Same(1, 77), 60001, 0)
			if err := c.UpdateDnsCacheTtlWithKey(key, name, 1, old, nil, nil, -1000); err != nil {
				return "err:" + err.Error()
			}
			fresh, _, _ := c08Records(c08Fqdn(name), 1, c08Same(1, 77), id, 0)
			if err := c.UpdateDnsCacheTtlWithKey(key, name, 1, fresh, nil, nil, 1000); err != nil {
				return "err:" + err.Error()
			}
			ok := true
			for k := 0; k < 6 && ok; k++ { // an eviction decided on the old object may land a little later
				ok = holds(id)
				runtime.Gosched()
			}
			if !ok {
				lost++
			}
			done++
			if done%512 == 0 && time.Now().After(deadline) {
				break
			}
		}
		stop.Store(true)
		wg.Wait()
		return fmt.Sprintf("evicthammer lost_fresh_answers=%d", lost)
	})
	st.Emit("evicthammer skipped=0", out)
	stats.Add("race.fresh_answers_stored_under_eviction_fire", done)
	stats.Add("race.evict_hammer_goroutines", loopers+1)
}

// c08TornPairProbe MEASURES (it does not judge) how often the lock-free fast path of
// GetPackedResponseWithApproximateTTL pairs the bytes of the previous pre-pack with the TTL value of the
// next one: `packedResponse` and `packedResponseTTL` are two atomics, the fast path loads the pointer
// first and the TTL second, a re-pack stores pointer then TTL in between.  The function takes `now` as
// a parameter, so no clock is involved: all goroutines call it with the same scripted `now`, which
// jumps by an hour per trial (remaining lifetime falls by 3600 s, far beyond the 15 s slack, so exactly
// one of them re-packs).  A returned answer whose TTL exceeds remaining+15 is a torn pair.  Documented
// observation of the design note (not an alarm): the count goes into the evidence.
func c08TornPairProbe(st *VStream, stats *VStats, trials int) {
	loopers := min(5, runtime.GOMAXPROCS(0)-1, runtime.NumCPU()-1)
	if loopers < 2 {
		stats.Inc("race.torn_probe_skipped_fewer_than_3_cpus")
		return
	}
	const qname = "torn.test."
	t0 := time.Unix(1000000000, 0)
	life := int64(trials+10) * 3600
	answers, _, _ := c08Records(qname, 1, c08Same(1, 0), 7, 0)
	e := &DnsCache{Answer: answers, Deadline: t0.Add(time.Duration(life) * time.Second), OriginalDeadline: t0.Add(time.Duration(life) * time.Second)}
	if err := e.prepackResponseBeforeStore(qname, 1, uint32(life), t0); err != nil {
		return
	}
	// where the TTL of the (single) answer record sits in the packed bytes
	b0 := e.GetPackedResponse()
	off := 12 + len(qname) + 1 + 4 + 2 + 2 + 2
	if len(b0) < off+4 || uint32(b0[off])<<24|uint32(b0[off+1])<<16|uint32(b0[off+2])<<8|uint32(b0[off+3]) != uint32(life) {
		stats.Inc("race.torn_probe_offset_unknown")
		return
	}
	var cur atomic.Int64 // the scripted now (unix seconds)
	cur.Store(t0.Unix())
	var stop atomic.Bool
	var torn, calls atomic.Int64
	var wg sync.WaitGroup
	for g := 0; g < loopers; g++ {
		wg.Add(1)
		go func() {
			defer wg.Done()
			for n := 0; !stop.Load(); n++ {
				sec := cur.Load()
				b := e.GetPackedResponseWithApproximateTTL(qname, 1, time.Unix(sec, 0))
				if len(b) >= off+4 {
					shown := int64(uint32(b[off])<<24 | uint32(b[off+1])<<16 | uint32(b[off+2])<<8 | uint32(b[off+3]))
					if left := t0.Unix() + life - sec; shown > left+15 {
						torn.Add(1)
					}
				}
				calls.Add(1)
				if n%256 == 0 {
					runtime.Gosched()
				}
			}
		}()
	}
	deadline := time.Now().Add(4 * time.Second)
	done := 0
	for ; done < trials && time.Now().Before(deadline); done++ {
		cur.Add(3600)
		for k := 0; k < 20; k++ {
			runtime.Gosched()
		}
	}
	stop.Store(true)
	wg.Wait()
	stats.Add("race.torn_probe_trials", done)
	stats.Add("race.torn_probe_calls", int(calls.Load()))
	stats.Add("race.torn_probe_torn_pairs_observed", int(torn.Load()))
}

// ---------------------------------------------------------------- the request path (HandleWithResponseWriter_)

type c08Writer struct {
	msg  *dnsmessage.Msg
	fail bool // the client connection is gone: WriteMsg returns an error
}

func (w *c08Writer) LocalAddr() net.Addr       { return nil }
func (w *c08Writer) RemoteAddr() net.Addr      { return nil }
func (w *c08Writer) TsigStatus() error         { return nil }
func (w *c08Writer) TsigTimersOnly(bool)       {}
func (w *c08Writer) Hijack()                   {}
func (w *c08Writer) Close() error              { return nil }
func (w *c08Writer) Write([]byte) (int, error) { return 0, nil }
func (w *c08Writer) WriteMsg(m *dnsmessage.Msg) error {
	if w.fail {
		return fmt.Errorf("write to client failed")
	}
	w.msg = m.Copy()
	return nil
}

// c08AskSpec scripts what the upstream side does with ONE request (found by the DNS message id, which
// the harness makes unique and equal to the client's source port).
type c08AskSpec struct {
	ttls        []uint32
	ans, ns     int
	rcode       int
	failHop     int  // the k-th upstream exchange of this request fails (0 = none)
	wrongQ      bool // ... by answering another question than the one asked (instead of an error)
	chooserFail bool // no dialer can be chosen: the request fails before anything is sent
}

type c08AskNet struct {
	mu    sync.Mutex
	calls map[uint16]int
	spec  map[uint16]*c08AskSpec
}

func (n *c08AskNet) script(id uint16, s *c08AskSpec) {
	n.mu.Lock()
	n.spec[id] = s
	n.mu.Unlock()
}

func (n *c08AskNet) callsOf(ids []uint16) int {
	n.mu.Lock()
	defer n.mu.Unlock()
	c := 0
	for _, id := range ids {
		c += n.calls[id]
	}
	return c
}

// the upstreams of the request-path histories, by Upstream.String(): the number is added to the answer
// id, so a reply tells which upstream it came from
var c08UpNo = map[string]int{
	"udp://8.8.8.8:53": 0, "udp://8.8.8.8:5353": 1, "udp://[2001:4860:4860::8888]:53": 2,
	"udp://9.9.9.9:53": 3, "https://1.1.1.1:443/dns-query": 4,
}

type c08Fwd struct {
	net  *c08AskNet
	upNo int
}

func (f *c08Fwd) ForwardDNS(ctx context.Context, data []byte) (*dnsmessage.Msg, error) {
	var q dnsmessage.Msg
	if err := q.Unpack(data); err != nil {
		return nil, err
	}
	f.net.mu.Lock()
	f.net.calls[q.Id]++
	hop := f.net.calls[q.Id]
	spec := f.net.spec[q.Id]
	f.net.mu.Unlock()
	time.Sleep(time.Second) // the upstream round trip (virtual time)
	if spec == nil {
		return nil, fmt.Errorf("unscripted request id %d", q.Id)
	}
	m := new(dnsmessage.Msg)
	m.SetReply(&q)
	if spec.failHop == hop {
		if !spec.wrongQ {
			return nil, fmt.Errorf("upstream exchange failed")
		}
		m.Question[0].Name = "other." + m.Question[0].Name // an answer to a question nobody asked
	}
	m.Rcode = spec.rcode
	m.RecursionAvailable = true
	m.Authoritative = true // marks "this is the upstream's own message" (replies packed by the cache never carry AA)
	m.Answer, m.Ns, m.Extra = c08Records(dnsmessage.CanonicalName(q.Question[0].Name), q.Question[0].Qtype, spec.ttls, spec.ans+f.upNo, spec.ns)
	return m, nil
}
func (f *c08Fwd) Close() error { return nil }

// dnsText: the dns{} section as the user writes it; `gen` selects where *.flip.test is routed
// (0: upstream u1, 1: reject, 2: as-is)
func (c c08Cfg) dnsText(gen int) string {
	var b strings.Builder
	b.WriteString("global {}\nrouting { fallback: direct }\ndns {\n")
	fmt.Fprintf(&b, "  optimistic_cache: %v\n  optimistic_cache_ttl: %d\n  max_cache_size: %d\n", c.opt, c.stale, c.max)
	if len(c.fixed) > 0 {
		b.WriteString("  fixed_domain_ttl {\n")
		for _, f := range c.fixed {
			fmt.Fprintf(&b, "    %s: %s\n", f.name, f.num())
		}
		b.WriteString("  }\n")
	}
	b.WriteString("  upstream {\n    u1: 'udp://9.9.9.9:53'\n    u2: 'https://1.1.1.1:443/dns-query'\n  }\n")
	b.WriteString("  routing {\n    request {\n      qname(suffix: rej.test) -> reject\n      qname(suffix: up1.test) -> u1\n      qname(suffix: up2.test) -> u2\n      qname(suffix: redial.test) -> u1\n")
	switch gen {
	case 0:
		b.WriteString("      qname(suffix: flip.test) -> u1\n")
	case 1:
		b.WriteString("      qname(suffix: flip.test) -> reject\n")
	}
	b.WriteString("      fallback: asis\n    }\n    response {\n      upstream(u1) && qname(suffix: redial.test) -> u2\n      qname(suffix: rrej.test) -> reject\n      fallback: accept\n    }\n  }\n}\n")
	return b.String()
}

// c08IntendedRoute: where the dns{} text above sends a question (the harness's statement of the
// configuration it wrote; request routing itself is not C08's matter).  finalUp = Upstream.String() of
// the upstream whose reply is used, hops = upstream exchanges, respReject = response routing drops the
// answer records.
func c08IntendedRoute(name string, gen int, dst netip.AddrPort) (kind, detail, finalUp string, hops int, respReject bool) {
	n := strings.ToLower(strings.TrimSuffix(name, "."))
	has := func(suf string) bool { return n == suf || strings.HasSuffix(n, "."+suf) }
	const u1, u2 = "udp://9.9.9.9:53", "https://1.1.1.1:443/dns-query"
	asis := func() (string, string, string, int, bool) {
		return "asisdst", dst.String(), "udp://" + dst.String(), 1, has("rrej.test")
	}
	switch {
	case has("rej.test"):
		return "reject", "", "", 0, false
	case has("up1.test"):
		return "up", u1, u1, 1, false
	case has("up2.test"):
		return "up", u2, u2, 1, false
	case has("redial.test"):
		return "up", u1, u2, 2, false
	case has("flip.test"):
		switch gen {
		case 0:
			return "up", u1, u1, 1, false
		case 1:
			return "reject", "", "", 0, false
		}
	}
	return asis()
}

var c08AskNames = []string{"a.test", "ddns.example.org", "b.up1.test", "c.up2.test", "d.redial.test", "e.rrej.test", "f.rej.test", "g.flip.test", "g.flip.test"}

// c08AskHistory drives whole requests through HandleWithResponseWriter_.  The dns{} section enters as
// TEXT (config parser → config.New → the statements of NewControlPlane → dnsControllerOption →
// NewDnsController, request/response routing built by dns.New from the same text); upstreams are
// scripted and take 1 s of virtual time per exchange.  Routes: as-is to three resolver addresses (two on
// one IP), two configured upstreams, reject, response routing that re-dials another upstream or drops
// the answers; a name whose route changes with a reload (upstream → reject → as-is).  Faults: the
// exchange fails / answers another question (at the first or at the re-dial hop), no dialer can be
// chosen, the client is gone when the reply is written.  Simultaneous identical requests (singleflight)
// and simultaneous requests that differ only in the resolver address (must not be coalesced).
// Observed: latency, upstream exchanges of this request, whether the reply came from the cache, answer
// id (tells the upstream) / count / TTL.
func c08AskHistory(t *testing.T, r *VRand, st *VStream, stats *VStats, log *logrus.Logger, nOps int) {
	synctest.Test(t, func(t *testing.T) {
		originalFactory := dnsForwarderFactory
		defer func() { dnsForwarderFactory = originalFactory }()
		anet := &c08AskNet{calls: map[uint16]int{}, spec: map[uint16]*c08AskSpec{}}
		dnsForwarderFactory = func(up *dns.Upstream, _ dialArgument, _ *logrus.Logger) (DnsForwarder, error) {
			no, ok := c08UpNo[up.String()]
			if !ok {
				return nil, fmt.Errorf("unexpected upstream %s", up.String())
			}
			return &c08Fwd{net: anet, upNo: no}, nil
		}
		chooser := func(ctx context.Context, req *udpRequest, upstream *dns.Upstream) (*dialArgument, error) {
			anet.mu.Lock()
			spec := anet.spec[req.realSrc.Port()]
			anet.mu.Unlock()
			if spec != nil && spec.chooserFail {
				return nil, fmt.Errorf("no alive dialer")
			}
			target := req.realDst
			if upstream != nil && upstream.Ip46 != nil && upstream.Ip4.IsValid() {
				target = netip.AddrPortFrom(upstream.Ip4, upstream.Port)
			}
			return &dialArgument{l4proto: consts.L4ProtoStr_UDP, ipversion: consts.IpVersionStr_4, bestTarget: target}, nil
		}
		w := &c08World{log: log, st: st, stats: stats}
		cfg := c08RandCfg(r, stats)
		if len(cfg.fixed) > 0 {
			cfg.fixed = append(cfg.fixed, c08Fixed{name: "b.up1.test", ttl: 7}, c08Fixed{name: "G.Flip.Test.", ttl: 20, lit: "0o24"})
		}
		dnsCacheJanitorInterval = 24 * 365 * 50 * time.Hour
		gen := r.Intn(3)
		// build: text → config → (routing, option) → controller
		build := func() (*DnsController, string) {
			sections, err := config_parser.Parse(cfg.dnsText(gen))
			if err != nil {
				return nil, "err:config text: " + err.Error()
			}
			conf, err := config.New(sections)
			if err != nil {
				return nil, "err:config: " + err.Error()
			}
			routing, err := dns.New(&conf.Dns, &dns.NewOption{Logger: log, UpstreamReadyCallback: func(*dns.Upstream) error { return nil }})
			if err != nil {
				return nil, "err:dns routing: " + err.Error()
			}
			plane := &ControlPlane{log: log}
			plane.ctx, plane.cancel = context.WithCancel(context.Background())
			opt, err := c08ProductionRecordDNS(plane, &conf.Dns, routing)
			if err != nil {
				return nil, "err:" + err.Error()
			}
			c, err := NewDnsController(routing, opt)
			if err != nil {
				return nil, "err:" + err.Error()
			}
			c08DetachCallbacks(c)
			rt := *c.runtimeState.Load()
			rt.bestDialerChooser, rt.timeoutExceedCallback = chooser, nil
			c.runtimeState.Store(&rt)
			return c, ""
		}
		out := VRecover(func() string {
			c, e := build()
			if c == nil {
				return e
			}
			w.c = c
			return "cfg " + w.cfgObserved()
		})
		st.Emit("cfg "+cfg.opStr(), out)
		if w.c == nil {
			return
		}
		defer func() { _ = w.c.Close() }()
		stats.Inc("history.request_path")
		stats.Inc("dnscfg.from_text")
		dsts := []netip.AddrPort{netip.MustParseAddrPort("8.8.8.8:53"), netip.MustParseAddrPort("8.8.8.8:5353"), netip.MustParseAddrPort("[2001:4860:4860::8888]:53")}
		nSlots := r.Range(2, 3)
		bases := make([]string, nSlots)
		for i := range bases {
			bases[i] = c08AskNames[r.Intn(len(c08AskNames))]
		}
		if r.Bool() {
			bases[0] = "g.flip.test" // the name whose route changes with every reload of this history
		}
		qtypes := []uint16{[]uint16{1, 28, 16}[r.Intn(3)], []uint16{1, 1, 28, 16}[r.Intn(4)]}
		now := time.Now().UnixNano()
		var sh []c08Shadow
		ansCounter := r.Intn(1000)
		nextID := uint16(2000 + r.Intn(1000))
		// steering only (never an oracle): is there an expired entry under the key this request will use?
		expiredEntry := func(name string, qtype uint16, kind, detail string) bool {
			scope := "asis@" + detail
			if kind == "up" {
				scope = "upstream@" + detail
			}
			v, ok := w.c.dnsCache.Load(dnsmessage.CanonicalName(name) + fmt.Sprint(qtype) + "|" + scope)
			return ok && !v.(*DnsCache).Deadline.After(time.Now())
		}
		// histories with simultaneous identical requests use replies that have answers: a loser of the
		// re-pack race answers through the answers-only fallback, indistinguishable only then
		multi := r.Bool()

		type askReq struct {
			name          string
			qtype, qclass uint16
			dst           netip.AddrPort
			spec          *c08AskSpec
			g             int
			wfail         bool
			// derived
			kind, detail, finalUp string
			hops                  int
			fail                  bool
			ids                   []uint16
			replies               []string
		}
		runOne := func(a *askReq, id uint16) string {
			q := new(dnsmessage.Msg)
			q.SetQuestion(dnsmessage.Fqdn(a.name), a.qtype)
			q.Question[0].Name = dnsmessage.Fqdn(a.name) // keep the asker's letter case
			q.Question[0].Qclass = a.qclass
			q.Id = id
			wr := &c08Writer{fail: a.wfail}
			req := &udpRequest{realSrc: netip.AddrPortFrom(netip.MustParseAddr("192.0.2.10"), id), realDst: a.dst, routingResult: &bpfRoutingResult{}}
			t0 := time.Now()
			err := w.c.HandleWithResponseWriter_(context.Background(), q, req, wr)
			lat := time.Since(t0)
			if err != nil {
				return fmt.Sprintf("lat=%d err=1", lat.Nanoseconds())
			}
			m := wr.msg
			if m == nil {
				return "no-reply"
			}
			ansID := "-"
			if len(m.Answer) > 0 {
				switch rr := m.Answer[0].(type) {
				case *dnsmessage.A:
					ip := rr.A.To4()
					ansID = fmt.Sprint(int(ip[2])<<8 | int(ip[3]))
				case *dnsmessage.AAAA:
					ip := rr.AAAA.To16()
					ansID = fmt.Sprint(int(ip[14])<<8 | int(ip[15]))
				}
			}
			ttl, first := "-", true
			for _, sec := range [][]dnsmessage.RR{m.Answer, m.Ns, m.Extra} {
				for _, rr := range sec {
					v := fmt.Sprint(rr.Header().Ttl)
					if first {
						ttl, first = v, false
					} else if ttl != v {
						ttl = "mixed"
					}
				}
			}
			if m.Authoritative {
				ttl = "up" // not from the cache: the TTLs are the upstream's business
			}
			if m.Id != id {
				return "reply-id-differs"
			}
			if len(m.Question) != 1 || m.Question[0].Qclass != a.qclass || m.Question[0].Qtype != a.qtype {
				return "reply-question-differs"
			}
			return fmt.Sprintf("lat=%d rcode=%d ans=%s n=%d ttl=%s", lat.Nanoseconds(), m.Rcode, ansID, len(m.Answer), ttl)
		}

		for i := 0; i < nOps; i++ {
			next := c08NextTime(r, stats, now, cfg, sh)
			if next-now > 4000*c08Sec {
				next = now + 4000*c08Sec
			}
			now = next
			x := r.Intn(100)
			if x < 7 {
				gone := w.jan(now)
				stats.Add("janitor.evicted", len(gone))
				continue
			}
			if x < 13 {
				// reload with an edited dns{} (routing of *.flip.test changes, maybe the cache settings too):
				// new controller, the clones of the old cache restored into it
				w.sleepUntil(now)
				gen = (gen + 1) % 3
				if r.Chance(0.3) {
					cfg = c08RandCfg(r, stats)
					if len(cfg.fixed) > 0 {
						cfg.fixed = append(cfg.fixed, c08Fixed{name: "b.up1.test", ttl: 7}, c08Fixed{name: "G.Flip.Test.", ttl: 20, lit: "0o24"})
					}
				}
				out := VRecover(func() string {
					clones := w.c.CloneCacheForReload()
					nc, e := build()
					if nc == nil {
						return e
					}
					n := nc.RestoreReloadCache(clones, nil, time.Now())
					_ = w.c.Close()
					w.c = nc
					return fmt.Sprintf("reload %s n=%d", w.cfgObserved(), n)
				})
				st.Emit("reload "+cfg.opStr(), out)
				stats.Inc("ask.reload_with_changed_routing")
				continue
			}
			if x < 17 {
				w.emitKeys()
				continue
			}
			w.sleepUntil(now)
			name := c08NameVariant(r, stats, bases[r.Intn(nSlots)])
			qtype := qtypes[r.Intn(2)]
			qclass := uint16(dnsmessage.ClassINET)
			if r.Chance(0.1) {
				qclass = dnsmessage.ClassCHAOS
				stats.Inc("ask.class_CH")
			}
			// one request, or a group of simultaneous requests that differ only in the resolver address
			nReq := 1
			k0, _, _, _, _ := c08IntendedRoute(name, gen, dsts[0])
			if k0 == "asisdst" && r.Chance(0.15) {
				nReq = r.Range(2, 3)
				stats.Inc("ask.simultaneous_requests_to_different_resolvers")
			}
			perm := []int{0, 1, 2}
			if nReq > 1 || r.Chance(0.2) { // mostly one resolver address, so that entries are asked for again
				for j := 2; j > 0; j-- {
					k := r.Intn(j + 1)
					perm[j], perm[k] = perm[k], perm[j]
				}
			}
			var reqs []*askReq
			maxHops := 1
			for j := 0; j < nReq; j++ {
				ansCounter++
				n := []int{1, 1, 2, 0, 3, 9}[r.Intn(6)]
				if multi && n == 0 {
					n = 1
				}
				base := []uint32{0, 0, 1, 2, 5, 16, 17, 30, 60, 300}[r.Intn(10)]
				a := &askReq{name: name, qtype: qtype, qclass: qclass, dst: dsts[perm[j]], g: 1,
					spec: &c08AskSpec{ttls: c08GenTTLs(r, stats, base, n), ans: (ansCounter % 4000) * 16, ns: []int{0, 0, 1, 3}[r.Intn(4)]}}
				if r.Chance(0.05) {
					a.spec.rcode = 3
				}
				var respReject bool
				a.kind, a.detail, a.finalUp, a.hops, respReject = c08IntendedRoute(name, gen, a.dst)
				stats.Inc("ask.route." + map[bool]string{true: "redial_second_upstream", false: a.kind}[a.hops == 2])
				if respReject {
					stats.Inc("ask.route.response_routing_drops_answers")
				}
				if nReq == 1 && multi && r.Chance(0.25) {
					a.g = r.Range(2, 4) // identical requests at the same instant: singleflight followers
					stats.Inc("ask.simultaneous_identical_requests")
				}
				pFault := 0.12
				if a.kind != "reject" && qclass == dnsmessage.ClassINET && expiredEntry(name, qtype, a.kind, a.detail) {
					pFault = 0.4 // a stale hit is likely: let the refresh it starts meet a fault often
				}
				if a.kind != "reject" && r.Chance(pFault) {
					switch r.Intn(5) {
					case 0:
						a.spec.failHop, a.fail = a.hops, true
						stats.Inc("ask.fault.upstream_exchange_fails")
					case 1:
						a.spec.failHop, a.spec.wrongQ, a.fail = a.hops, true, true
						stats.Inc("ask.fault.upstream_answers_another_question")
					case 2:
						a.spec.chooserFail, a.fail, a.hops = true, true, 0
						stats.Inc("ask.fault.no_dialer")
					case 3:
						if a.hops == 2 { // the first exchange fails: the re-dial never happens
							a.spec.failHop, a.fail, a.hops = 1, true, 1
							stats.Inc("ask.fault.first_of_two_exchanges_fails")
						}
					default:
						if a.g == 1 {
							a.wfail = true
							stats.Inc("ask.fault.client_gone_at_write")
						}
					}
				}
				if a.hops > maxHops {
					maxHops = a.hops
				}
				for k := 0; k < a.g; k++ {
					nextID++
					a.ids = append(a.ids, nextID)
					anet.script(nextID, a.spec)
				}
				reqs = append(reqs, a)
			}
			keysBefore := len(w.keys())
			res := VRecover(func() string {
				var wg sync.WaitGroup
				for _, a := range reqs {
					a.replies = make([]string, a.g)
					for k := 0; k < a.g; k++ {
						wg.Add(1)
						go func() { defer wg.Done(); a.replies[k] = VRecover(func() string { return runOne(a, a.ids[k]) }) }()
					}
				}
				wg.Wait()
				// a refresh started by these requests finishes after its upstream exchange(s)
				c08SleepUntil(now + int64(maxHops)*c08Sec)
				synctest.Wait()
				return ""
			})
			for _, a := range reqs {
				line := res
				if line == "" {
					sort.Strings(a.replies)
					uniq := a.replies[:1]
					for _, x := range a.replies[1:] {
						if x != uniq[len(uniq)-1] {
							uniq = append(uniq, x)
						}
					}
					parts := strings.SplitN(strings.Join(uniq, " | "), " ", 2)
					line = fmt.Sprintf("ask %s fw=%d %s", parts[0], anet.callsOf(a.ids), parts[1])
				}
				ttls := a.spec.ttls
				_, _, _, _, respReject := c08IntendedRoute(a.name, gen, a.dst)
				if respReject {
					ttls = nil // response routing rejects: the answer section is dropped before the reply is cached
				}
				ans := a.spec.ans + c08UpNo[a.finalUp]
				detail := a.detail
				if a.kind != "idx" {
					detail = c08Hex(a.detail)
				}
				op := fmt.Sprintf("ask t=%d name=%s qtype=%d route=%s detail=%s ttls=%s ans=%d ns=%d rcode=%d class=%d g=%d fail=%s hops=%d wfail=%s",
					now, c08Hex(a.name), a.qtype, a.kind, detail, c08TTLsStr(ttls), ans, a.spec.ns, a.spec.rcode, a.qclass, a.g, c08B(a.fail), a.hops, c08B(a.wfail))
				st.Emit(op, line)
				stats.Inc("op.ask")
				switch {
				case a.kind == "reject":
					stats.Inc("ask.rejected")
				case strings.Contains(line, "lat=0 ") && !strings.Contains(line, "err=1"):
					stats.Inc("ask.answered_from_cache_at_once")
					if !strings.Contains(line, "fw=0") {
						stats.Inc("ask.stale_hit_started_refresh")
						if a.fail {
							stats.Inc("ask.refresh_failed")
						}
					}
				default:
					stats.Inc("ask.forwarded")
					if a.fail {
						stats.Inc("ask.forward_failed")
					}
				}
				eff := int64(0)
				if len(ttls) == 0 {
					eff = 120
				} else {
					eff = int64(ttls[0])
					for _, x := range ttls {
						eff = min(eff, int64(x))
					}
				}
				if f, ok := cfg.fixedFor(a.name); ok {
					eff = int64(f)
				}
				if a.kind == "reject" || a.fail {
					continue
				}
				key := a.name + "/" + fmt.Sprint(a.qtype) + "/" + a.detail
				at := now + int64(a.hops)*c08Sec
				found := false
				for j := range sh {
					if sh[j].key == key {
						found = true
						if !strings.Contains(line, "fw=0") {
							sh[j] = c08Shadow{key: key, ins: at, deadline: at + eff*c08Sec, pttl: max(eff, 0)}
						}
					}
				}
				if !found {
					sh = append(sh, c08Shadow{key: key, ins: at, deadline: at + eff*c08Sec, pttl: max(eff, 0)})
				}
			}
			if reqs[0].kind == "reject" {
				if d := keysBefore - len(w.keys()); d > 0 {
					stats.Add("ask.reject_purged_entries", d)
				}
			}
			now += int64(maxHops) * c08Sec
		}
		w.emitKeys()
	})
}

// c08BigLRU: a cache far above its size limit; the victims must be exactly the least recently stored
// (theorem `janitor_evicts_least_recently_used` holds for any size; the histories only reach 7 entries)
func c08BigLRU(t *testing.T, st *VStream, stats *VStats, log *logrus.Logger, n, max int) {
	synctest.Test(t, func(t *testing.T) {
		w := &c08World{log: log, st: st, stats: stats}
		dnsCacheJanitorInterval = 24 * 365 * 50 * time.Hour
		c, err := NewDnsController(nil, c08Option(c08Cfg{opt: true, stale: 0, max: max}, log))
		if err != nil {
			panic(err)
		}
		w.c = c
		defer func() { _ = w.c.Close() }()
		out := VRecover(func() string {
			order := make([]string, n)
			for i := 0; i < n; i++ {
				name := fmt.Sprintf("n%d.big.test", i)
				key := w.c.cacheKey(name, 1)
				answers, _, _ := c08Records(c08Fqdn(name), 1, c08Same(1, 77), i%60000, 0)
				if err := w.c.UpdateDnsCacheTtlWithKey(key, name, 1, answers, nil, nil, 100000); err != nil {
					return "err:" + err.Error()
				}
				order[i] = key
				time.Sleep(time.Nanosecond) // distinct instants: the order of use is total
			}
			// use an early third again, in reverse: they become the most recent
			for i := n/3 - 1; i >= 0; i-- {
				msg := new(dnsmessage.Msg)
				msg.SetQuestion(fmt.Sprintf("n%d.big.test.", i), 1)
				w.c.LookupDnsRespCache_(msg, order[i], false)
				time.Sleep(time.Nanosecond)
			}
			w.c.evictExpiredDnsCache(time.Now())
			// recency order, oldest first: n/3 .. n-1 (by insert), then n/3-1 .. 0 (by lookup)
			rec := append(append([]string{}, order[n/3:]...), func() []string {
				x := make([]string, 0, n/3)
				for i := n/3 - 1; i >= 0; i-- {
					x = append(x, order[i])
				}
				return x
			}()...)
			left := map[string]bool{}
			for _, k := range w.keys() {
				left[k] = true
			}
			wrong := 0
			for i, k := range rec {
				if (i >= n-max) != left[k] {
					wrong++
				}
			}
			return fmt.Sprintf("biglru left=%d wrongly_kept_or_evicted=%d", len(left), wrong)
		})
		st.Emit(fmt.Sprintf("biglru n=%d max=%d", n, max), out)
		stats.Add("lru.big_cache_entries", n)
	})
}

func c08HeapStream(r *VRand, st *VStream, stats *VStats, n int) {
	for it := 0; it < n; it++ {
		sz := r.Intn(14)
		if r.Chance(0.3) {
			sz = r.Range(12, 70)
		}
		es := make([]cacheEntry, sz)
		span := []int{1, 2, 3, 10, 1000}[r.Intn(5)]
		for i := range es {
			es[i] = cacheEntry{key: fmt.Sprintf("k%d", i), lastAccess: int64(r.Intn(span))}
			if r.Chance(0.1) {
				es[i].lastAccess = -int64(r.Intn(5))
			}
		}
		toks := func(es []cacheEntry) string {
			p := make([]string, len(es))
			for i, e := range es {
				p[i] = fmt.Sprintf("%s:%d", e.key, e.lastAccess)
			}
			return strings.Join(p, " ")
		}
		in := toks(es)
		if it%2 == 0 || sz == 0 {
			cp := append([]cacheEntry(nil), es...)
			out := VRecover(func() string { buildMinHeap(cp); return "h=" + toks(cp) })
			st.Emit(strings.TrimSpace("heap "+in), out)
			stats.Inc("heap.build")
		} else {
			cp := append([]cacheEntry(nil), es...)
			nn := r.Intn(sz + 1)
			i := r.Intn(sz)
			out := VRecover(func() string { heapifyMin(cp, i, nn); return "h=" + toks(cp) })
			st.Emit(fmt.Sprintf("sift %d %d %s", i, nn, in), out)
			stats.Inc("heap.sift")
		}
	}
}

func c08KeyStream(r *VRand, w *c08World, n int) {
	routes := c08Routes()
	odd := []string{"", ".", "a|b.test", "x\\.", "x\\\\.", "UPPER.CASE.", "mixed.Case.Example", "1.2.3.4", "a.test1", "xn--bcher-kva.example", "a..b"}
	for i := 0; i < n; i++ {
		var name string
		if r.Chance(0.3) {
			name = odd[r.Intn(len(odd))]
			w.stats.Inc("key.odd_name")
		} else {
			name = c08NameVariant(r, w.stats, c08BaseNames[r.Intn(len(c08BaseNames))])
		}
		qt := []uint16{1, 2, 5, 12, 15, 16, 28, 33, 65, 255, 0, 65535, 11, 128}[r.Intn(14)]
		cls := []uint16{1, 1, 1, 3, 4, 255, 0, 254}[r.Intn(8)]
		if cls != 1 {
			w.stats.Inc("key.class_not_IN")
		}
		w.keyOpClass(name, qt, cls, routes[r.Intn(len(routes))])
		w.stats.Inc("op.key")
	}
	// every query type once (the table of pre-computed type strings must not merge two types)
	for qt := 0; qt < 65536; qt++ {
		w.keyOpClass("t.test", uint16(qt), dnsmessage.ClassINET, routes[0])
	}
	w.stats.Add("key.all_qtypes", 65536)
	// upstreams that differ in one component only are different scopes (the scope string is computed
	// here from the components, not taken from Upstream.String())
	type upc struct {
		scheme, host, path string
		port               uint16
	}
	base := upc{"https", "dns.example.net", "/abc", 443}
	for _, v := range []upc{{"https", "dns.example.net", "/def", 443}, {"https", "dns.example.net", "/abc", 8443},
		{"h3", "dns.example.net", "/abc", 443}, {"https", "dns2.example.net", "/abc", 443}, {"https", "dns.example.net", "", 443}} {
		mk := func(u upc) (*dns.Upstream, string) {
			return &dns.Upstream{Scheme: dns.UpstreamScheme(u.scheme), Hostname: u.host, Port: u.port, Path: u.path},
				fmt.Sprintf("%s://%s%s", u.scheme, net.JoinHostPort(u.host, fmt.Sprint(u.port)), u.path)
		}
		for _, u := range []upc{base, v} {
			up, want := mk(u)
			w.keyOpClass("a.test", 1, dnsmessage.ClassINET, c08Route{kind: "up", detail: want, up: up, idx: 1})
			w.stats.Inc("key.upstream_component_variants")
		}
	}
}

func TestVerifC08(t *testing.T) {
	r := NewVRand(VSeed())
	stats := NewVStats()
	st := VOpenStream("c08")
	defer func() { st.Close(); stats.Write("c08") }()
	log := logrus.New()
	log.SetLevel(logrus.PanicLevel)

	// the real janitor goroutine must not fire on its own: the histories decide when it runs
	dnsCacheJanitorInterval = 24 * 365 * 50 * time.Hour

	nAsk := VEnvInt("C08_ASK", 80)
	if VThorough() {
		nAsk = VEnvInt("C08_ASK", 1500)
	}
	nHist, nOps, nHeap, nKeys, nRace := VEnvInt("C08_HIST", 250), 60, 600, 400, VEnvInt("C08_RACE", 300)
	if VThorough() {
		nHist, nOps, nHeap, nKeys, nRace = VEnvInt("C08_HIST", 8000), 140, 6000, 4000, VEnvInt("C08_RACE", 4000)
	}

	synctest.Test(t, func(t *testing.T) {
		w := &c08World{log: log, st: st, stats: stats}
		w.cfg(c08Cfg{})
		defer func() { _ = w.c.Close() }()
		c08KeyStream(r.Fork(), w, nKeys)
	})
	c08HeapStream(r.Fork(), st, stats, nHeap)
	c08Directed(t, st, stats, log)
	c08BigLRU(t, st, stats, log, 9000, 4000)
	c08Findings(t, st, stats, log)
	c08RaceStream(t, st, stats, log, nRace)
	c08EvictHammer(st, stats, log, nRace*40)
	c08TornPairProbe(st, stats, nRace*10)
	for i := 0; i < nHist; i++ {
		n := nOps
		if i%10 == 0 {
			n = nOps * 3
		}
		c08History(t, r.Fork(), st, stats, log, n, i%4 == 3)
	}
	for i := 0; i < nAsk; i++ {
		c08AskHistory(t, r.Fork(), st, stats, log, 40)
	}
	st.Emit("cov", "cov") // the model driver answers with its branch counters (ignored by the diff)
}
