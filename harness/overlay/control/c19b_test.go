package control

// C19 correspondence harness, part 2 (called from TestVerifC19):
//
//   ctor*     every helper constructor of a shared key type that the translator found (generated
//             registry c19GenCtors*, see checks/c19.py write_ctor_registry) on generated inputs
//   uhist/ukseen/utrack/uadopt/urelease
//             the production paths that retain / transfer / delete conn_state_map keys
//             (UdpEndpoint.TrackUdpConnStateTuplePair, adoptGeneration, releaseTrackedUdpConnState ->
//             controlPlaneCore.ReleaseUdpConnStateTuples -> udpConnStateTracker -> BpfMapBatchDelete) on a
//             real BPF HASH map whose entries were created under the KERNEL's key bytes
//   rlookup   controlPlaneCore.RetrieveRoutingResult on real conn_state / routing_handoff maps whose
//             entries were created under the kernel's key bytes
//   msimg     all 24 bytes of the match_set every RoutingMatcherBuilder.add* encoder appends
//
// "The kernel's key bytes" are produced here by c19KernelKey (memset 0, v4-mapped addresses, ports in
// network order, l4proto, zero padding) and handed to the native build of tproxy.c through the flow
// file (`kflow` lines): checks/c19.py requires get_tuples / copy_reversed_tuples to give the same bytes.

import (
	"context"
	"encoding/binary"
	"encoding/hex"
	"errors"
	"fmt"
	"io"
	"net/netip"
	"os"
	"sort"
	"strings"
	"testing"
	"unsafe"

	"github.com/cilium/ebpf"
	"github.com/daeuniverse/dae/common/consts"
	"github.com/daeuniverse/dae/component/routing"
	"github.com/daeuniverse/dae/pkg/config_parser"
	"github.com/sirupsen/logrus"
)

// registry of helper constructors, filled by the generated file zz_verif_c19ctors_test.go
type c19CtorAP struct {
	name string
	f    func(src, dst netip.AddrPort, proto uint8) []byte
}
type c19CtorKK struct {
	name string
	f    func(img []byte) []byte
}
type c19CtorPfx struct {
	name string
	f    func(p netip.Prefix) []byte
}

func c19KeyBytes(k bpfTuplesKey) []byte {
	return append([]byte(nil), unsafe.Slice((*byte)(unsafe.Pointer(&k)), unsafe.Sizeof(k))...)
}

func c19KeyFromBytes(img []byte) bpfTuplesKey {
	var k bpfTuplesKey
	copy(unsafe.Slice((*byte)(unsafe.Pointer(&k)), unsafe.Sizeof(k)), img)
	return k
}

func c19LpmBytes(k _bpfLpmKey) []byte {
	return append([]byte(nil), unsafe.Slice((*byte)(unsafe.Pointer(&k)), unsafe.Sizeof(k))...)
}

// c19KernelKey: struct tuples_key as get_tuples() leaves it for a packet of family fam (raw address
// bytes as they are in the IP header).
func c19KernelKey(v4 bool, s, d []byte, sp, dp uint16, proto uint8) [40]byte {
	var k [40]byte
	put := func(off int, a []byte) {
		if v4 {
			k[off+10], k[off+11] = 0xff, 0xff
			copy(k[off+12:], a)
		} else {
			copy(k[off:], a)
		}
	}
	put(0, s)
	put(16, d)
	binary.BigEndian.PutUint16(k[32:], sp)
	binary.BigEndian.PutUint16(k[34:], dp)
	k[36] = proto
	return k
}

type c19Flow struct {
	v4       bool
	s, d     []byte // raw
	sp, dp   uint16
	src, dst netip.AddrPort // a Go form of the peers
}

func c19GenFlow(r *VRand, stats *VStats, class string) c19Flow {
	var f c19Flow
	form := r.Intn(6)
	switch form {
	case 0, 1: // IPv4, Is4
		a, b := c19V4(r), c19V4(r)
		f.v4, f.s, f.d = true, a[:], b[:]
		f.src, f.dst = netip.AddrPortFrom(netip.AddrFrom4(a), 0), netip.AddrPortFrom(netip.AddrFrom4(b), 0)
		stats.Inc(class + ".v4.is4")
	case 2, 3: // IPv4 through a dual-stack socket (v4-mapped), possibly mixed
		a, b := c19V4(r), c19V4(r)
		var a16, b16 [16]byte
		a16[10], a16[11], b16[10], b16[11] = 0xff, 0xff, 0xff, 0xff
		copy(a16[12:], a[:])
		copy(b16[12:], b[:])
		f.v4, f.s, f.d = true, a[:], b[:]
		sa, da := netip.AddrFrom16(a16), netip.AddrFrom16(b16)
		if r.Chance(0.3) {
			sa = netip.AddrFrom4(a)
			stats.Inc(class + ".v4.mixedforms")
		}
		f.src, f.dst = netip.AddrPortFrom(sa, 0), netip.AddrPortFrom(da, 0)
		stats.Inc(class + ".v4.mapped")
	default:
		a, b := c19V6(r), c19V6(r)
		f.s, f.d = a[:], b[:]
		sa, da := netip.AddrFrom16(a), netip.AddrFrom16(b)
		if r.Chance(0.15) {
			sa = sa.WithZone("eth0")
		}
		f.src, f.dst = netip.AddrPortFrom(sa, 0), netip.AddrPortFrom(da, 0)
		stats.Inc(class + ".v6")
	}
	f.sp, f.dp = c19Port(r), c19Port(r)
	f.src = netip.AddrPortFrom(f.src.Addr(), f.sp)
	f.dst = netip.AddrPortFrom(f.dst.Addr(), f.dp)
	return f
}

func (f c19Flow) fam() string {
	if f.v4 {
		return "v4"
	}
	return "v6"
}

// a literal IPv6 packet can carry ::ffff:a.b.c.d; the control plane's netip form of it converges to
// IPv4 and so does the kernel key (same 16 bytes): the logical family for the C side stays v6
func c19Discard() *logrus.Logger {
	l := logrus.New()
	l.SetOutput(io.Discard)
	return l
}

func c19Extra(t *testing.T, r *VRand, stats *VStats, stream *VStream, flows *os.File, real bool, e string, scale int) {
	c19CtorStream(t, r, stats, real, e, scale, flows)
	c19MatchSetImages(t, r, stats, stream, flows, e, scale)
	if real {
		c19UdpTrack(t, r, stats, stream, flows, e, scale)
		c19RouteLookup(t, r, stats, stream, flows, e, scale)
	}
}

// ---------------------------------------------------------------------------------------- ctor stream
// Own stream (c19ctor_<variant>): the model answers with the CANDIDATE derivations the kernel has; the
// check accepts a helper iff one candidate fits all of its lines (checks/c19.py ctor_verdicts).
func c19CtorStream(t *testing.T, r *VRand, stats *VStats, real bool, e string, scale int, flows *os.File) {
	variant := "stub"
	if real {
		variant = "real"
	}
	st := VOpenStream("c19ctor_" + variant)
	defer st.Close()
	n := 150 * scale
	for _, c := range c19GenCtorsAP {
		for i := 0; i < n; i++ {
			f := c19GenFlow(r, stats, "ctor.ap")
			proto := c19Protos[r.Intn(len(c19Protos))]
			out := VRecover(func() string { return hex.EncodeToString(c.f(f.src, f.dst, proto)) })
			st.Emit(fmt.Sprintf("ctorap %s %s %s %d %s %d %d", c.name, e, c19AddrTok(f.src.Addr()), f.sp, c19AddrTok(f.dst.Addr()), f.dp, proto), out)
			stats.Inc("ctor.ap")
		}
		stats.Inc("ctor.functions")
	}
	for _, c := range c19GenCtorsKK {
		for i := 0; i < n; i++ {
			var img []byte
			if i%4 == 3 { // arbitrary member values, padding clear (what a Go value of the type can hold)
				img = make([]byte, 40)
				for j := 0; j < 37; j++ {
					img[j] = byte(r.U64())
				}
				stats.Inc("ctor.kk.random-image")
			} else {
				f := c19GenFlow(r, stats, "ctor.kk")
				proto := []uint8{17, 17, 6, 1, 0, 255}[r.Intn(6)]
				k := c19KernelKey(f.v4, f.s, f.d, f.sp, f.dp, proto)
				img = k[:]
				fmt.Fprintf(flows, "kflow %s %s %s %d %d %d %s -\n", f.fam(), hex.EncodeToString(f.s), hex.EncodeToString(f.d), f.sp, f.dp, proto, hex.EncodeToString(img))
			}
			out := VRecover(func() string { return hex.EncodeToString(c.f(img)) })
			st.Emit(fmt.Sprintf("ctorkk %s %s", c.name, hex.EncodeToString(img)), out)
			stats.Inc("ctor.kk")
		}
		stats.Inc("ctor.functions")
	}
	for _, c := range c19GenCtorsPfx {
		for i := 0; i < n; i++ {
			var a netip.Addr
			if r.Bool() {
				a = netip.AddrFrom4(c19V4(r))
			} else {
				a = netip.AddrFrom16(c19V6(r))
			}
			bits := a.BitLen()
			switch r.Intn(3) {
			case 0:
				bits = r.Intn(a.BitLen() + 1)
			case 1:
				cands := []int{0, 1, 7, 8, 9, 31, 32}
				bits = cands[r.Intn(len(cands))]
			}
			p := netip.PrefixFrom(a, bits)
			out := VRecover(func() string { return hex.EncodeToString(c.f(p)) })
			st.Emit(fmt.Sprintf("ctorpfx %s %s %s/%d", c.name, e, c19AddrTok(a), bits), out)
			stats.Inc("ctor.pfx")
		}
		stats.Inc("ctor.functions")
	}
}

// ---------------------------------------------------------------------------------------- match_set images
func c19MatchSetImages(t *testing.T, r *VRand, stats *VStats, stream *VStream, flows *os.File, e string, scale int) {
	msHex := func(ms bpfMatchSet) string { return c19MemBytes(unsafe.Pointer(&ms), unsafe.Sizeof(ms)) }
	obNames := []string{"direct", "block", "g2", "g7", "g200"}
	obIds := map[string]uint8{"direct": 0, "block": 1, "g2": 2, "g7": 7, "g200": 200}
	marks := []uint32{0, 1, 0x11223344, 0xffffffff, 0x80000000, 0x000000ff}
	encs := []string{"addDomain", "addIp", "addSourceIp", "addPort", "addSourcePort", "addL4Proto", "addIpVersion", "addSourceMac", "addProcessName", "addDscp", "addFallback"}
	mtName := map[string]string{"addDomain": "MatchType_DomainSet", "addIp": "MatchType_IpSet", "addSourceIp": "MatchType_SourceIpSet",
		"addPort": "MatchType_Port", "addSourcePort": "MatchType_SourcePort", "addL4Proto": "MatchType_L4Proto", "addIpVersion": "MatchType_IpVersion",
		"addSourceMac": "MatchType_Mac", "addProcessName": "MatchType_ProcessName", "addDscp": "MatchType_Dscp", "addFallback": "MatchType_Fallback"}
	b := c19Builder()
	fresh := 0
	for i := 0; i < 66*scale; i++ {
		enc := encs[i%len(encs)]
		if fresh == 0 || r.Chance(0.1) {
			b = c19Builder() // mostly ONE builder across many rules, as production has (set indices grow, de-duplication applies)
			fresh = 1
		}
		not := r.Bool()
		obn := obNames[r.Intn(len(obNames))]
		ob := &routing.Outbound{Name: obn, Mark: marks[r.Intn(len(marks))], Must: r.Bool()}
		if r.Chance(0.3) {
			ob.Mark = uint32(r.U64())
		}
		fn := &config_parser.Function{Not: not}
		val := "none"
		view, viewVal := "-", "-"
		var err error
		before := len(b.rules)
		switch enc {
		case "addDomain":
			err = b.addDomain(fn, "suffix", []string{"example.org"}, ob)
		case "addIp", "addSourceIp":
			var pf []netip.Prefix
			for k := 0; k < 1+r.Intn(3); k++ {
				var a netip.Addr
				if r.Bool() {
					a = netip.AddrFrom4(c19V4(r))
				} else {
					a = netip.AddrFrom16(c19V6(r))
				}
				pf = append(pf, netip.PrefixFrom(a, r.Intn(a.BitLen()+1)).Masked())
			}
			if r.Chance(0.25) && len(b.simulatedLpmTries) > 0 { // the same set again: de-duplicated onto the earlier trie
				pf = append([]netip.Prefix(nil), b.simulatedLpmTries[r.Intn(len(b.simulatedLpmTries))]...)
				stats.Inc("msimg.dedup-candidate")
			}
			if enc == "addIp" {
				err = b.addIp(fn, pf, ob)
			} else {
				err = b.addSourceIp(fn, pf, ob)
			}
			// the index the rule carries must be that of the trie holding ITS set (whatever the numbering /
			// de-duplication policy): read it back from the image and look at that trie
			want := canonicalizePrefixes(append([]netip.Prefix(nil), pf...))
			ti := -1
			if err == nil && len(b.rules) == before+1 {
				got := int(binary.LittleEndian.Uint32(b.rules[len(b.rules)-1].Value[:4]))
				if got < len(b.simulatedLpmTries) && prefixesEqual(b.simulatedLpmTries[got], want) {
					ti = got
				} else {
					err = fmt.Errorf("rule carries set index %d but that trie does not hold the rule's prefixes", got)
				}
			}
			val = fmt.Sprintf("idx:%d", ti)
			view, viewVal = "index", fmt.Sprint(ti)
		case "addPort", "addSourcePort":
			a, c := c19Port(r), c19Port(r)
			if enc == "addPort" {
				err = b.addPort(fn, [][2]uint16{{a, c}}, ob)
			} else {
				err = b.addSourcePort(fn, [][2]uint16{{a, c}}, ob)
			}
			val = fmt.Sprintf("pr:%d-%d", a, c)
			view, viewVal = "port_range", fmt.Sprintf("%d-%d", a, c)
		case "addL4Proto":
			v := []int{1, 2, 3, 0, 255, 128}[r.Intn(6)]
			err = b.addL4Proto(fn, consts.L4ProtoType(v), ob)
			val = fmt.Sprintf("byte:%d", v)
			view, viewVal = "l4proto_type", fmt.Sprint(v)
		case "addIpVersion":
			v := []int{1, 2, 3, 0, 255, 64}[r.Intn(6)]
			err = b.addIpVersion(fn, consts.IpVersionType(v), ob)
			val = fmt.Sprintf("byte:%d", v)
			view, viewVal = "ip_version", fmt.Sprint(v)
		case "addSourceMac":
			var mac [6]byte
			for k := range mac {
				mac[k] = byte(r.U64())
			}
			fn.Not = false // a negated mac() rule appends the zero MAC too; the index is what matters here
			not = false
			err = b.addSourceMac(fn, [][6]byte{mac}, ob)
			ti := len(b.simulatedLpmTries) - 1
			val = fmt.Sprintf("idx:%d", ti)
			view, viewVal = "index", fmt.Sprint(ti)
		case "addProcessName":
			var pn [consts.TaskCommLen]byte
			nm := []string{"curl", "systemd-resolve", "a", "fifteen-chars-xx", ""}[r.Intn(5)]
			copy(pn[:], nm)
			if r.Chance(0.3) {
				for k := range pn {
					pn[k] = byte(r.U64())
				}
			}
			err = b.addProcessName(fn, [][consts.TaskCommLen]byte{pn}, ob)
			val = "pname:" + hex.EncodeToString(pn[:])
			view, viewVal = "__value", hex.EncodeToString(pn[:])
		case "addDscp":
			v := uint8(r.U64())
			err = b.addDscp(fn, []uint8{v}, ob)
			val = fmt.Sprintf("byte:%d", v)
			view, viewVal = "dscp", fmt.Sprint(v)
		case "addFallback":
			not = false // a fallback rule has no inversion flag
			// fallback takes its outbound from the config expression: name | name(mark: N, must)
			ff := &config_parser.Function{Name: obn}
			if ob.Mark != 0 || r.Bool() {
				ff.Params = append(ff.Params, &config_parser.Param{Key: consts.OutboundParam_Mark, Val: fmt.Sprint(ob.Mark)})
			}
			if ob.Must {
				ff.Params = append(ff.Params, &config_parser.Param{Val: "must"})
			}
			var spec any = ff
			if len(ff.Params) == 0 && r.Bool() {
				spec = obn
			}
			err = b.addFallback(spec)
		}
		op := fmt.Sprintf("msimg %s %s %s not=%d ob=%d must=%d mark=%d %s", e, enc, mtName[enc], c19B2i(not), obIds[obn], c19B2i(ob.Must), ob.Mark, val)
		if err != nil || len(b.rules) != before+1 {
			stream.Emit(op, fmt.Sprintf("error:%v rules+%d", err, len(b.rules)-before))
			continue
		}
		ms := b.rules[len(b.rules)-1]
		stream.Emit(op, msHex(ms))
		fmt.Fprintf(flows, "matchset2 %s %s %s %d %d %d %d %s\n", view, viewVal, mtName[enc], c19B2i(not), obIds[obn], c19B2i(ob.Must), ob.Mark, msHex(ms))
		stats.Inc("msimg")
		stats.Inc("msimg." + enc)
		if len(b.rules) > 12 {
			stats.Inc("msimg.builder-with-many-rules")
		}
	}
}

func c19B2i(b bool) int {
	if b {
		return 1
	}
	return 0
}

// ---------------------------------------------------------------------------------------- conn_state key lifecycle
type c19KeyTab struct {
	ids map[[40]byte]int
}

func (kt *c19KeyTab) label(k [40]byte) string {
	if id, ok := kt.ids[k]; ok {
		return fmt.Sprint(id)
	}
	return "x" + hex.EncodeToString(k[:])
}

func c19SortedLabels(ls []string) string {
	sort.Strings(ls)
	if len(ls) == 0 {
		return "-"
	}
	return strings.Join(ls, ",")
}

func c19DumpKeys(m *ebpf.Map, kt *c19KeyTab) (string, error) {
	var ls []string
	it := m.Iterate()
	var k [40]byte
	var v [8]byte
	for it.Next(&k, &v) {
		ls = append(ls, kt.label(k))
	}
	if err := it.Err(); err != nil {
		return "", err
	}
	return c19SortedLabels(ls), nil
}

func c19UdpTrack(t *testing.T, r *VRand, stats *VStats, stream *VStream, flows *os.File, e string, scale int) {
	nh := 40 * scale
	for h := 0; h < nh; h++ {
		m, err := ebpf.NewMap(&ebpf.MapSpec{Name: "c19_cs", Type: ebpf.Hash, KeySize: 40, ValueSize: 8, MaxEntries: 1024})
		if err != nil {
			stream.Emit("uhist 1 0", "cannot-create-bpf-hash-map:"+err.Error())
			return
		}
		// generations: 0 and 1 loaded over the same bpfObjects (one shared tracker), 2 over its own
		// objects (own tracker) — all see the same conn_state_map, as after a reload that keeps the map
		trackerOf := []int{0, 0, 1}
		if r.Chance(0.3) {
			trackerOf = []int{0, 1, 2}
		}
		objs := map[int]*bpfObjects{}
		var cores []*controlPlaneCore
		for _, ti := range trackerOf {
			if objs[ti] == nil {
				objs[ti] = &bpfObjects{bpfMaps: bpfMaps{ConnStateMap: m}}
			}
			c := &controlPlaneCore{log: c19Discard(), closed: context.Background(), outboundId2Name: map[uint8]string{}}
			c.bpf.Store(objs[ti])
			cores = append(cores, c)
		}
		// option: kernel batch delete API vs. one Delete per key (kernels < 5.6); both are production paths
		initBatchDeleteFeatureFlags()
		savedSim := SimulateBatchDelete
		if r.Chance(0.35) {
			SimulateBatchDelete = !SimulateBatchDelete
		}
		if SimulateBatchDelete {
			stats.Inc("udptrack.option.delete-each")
		} else {
			stats.Inc("udptrack.option.batch-delete")
		}
		neps := 1 + r.Intn(3)
		eps := make([]*UdpEndpoint, neps)
		srcs := make([]c19Flow, neps)
		for i := range eps {
			srcs[i] = c19GenFlow(r, stats, "udptrack.endpoint")
			if i > 0 && r.Chance(0.3) { // two endpoints of the same client address (different route scope): shared keys
				srcs[i] = srcs[i-1]
				stats.Inc("udptrack.shared-source")
			}
			eps[i] = &UdpEndpoint{poolKey: UdpEndpointKey{Src: srcs[i].src}, udpConnStateOwner: cores[0], log: c19Discard()}
		}
		tos := make([]string, len(trackerOf))
		for i, v := range trackerOf {
			tos[i] = fmt.Sprint(v)
		}
		stream.Emit(fmt.Sprintf("uhist %d %s", neps, strings.Join(tos, ",")), "ok")
		stats.Inc("udptrack.histories")
		kt := &c19KeyTab{ids: map[[40]byte]int{}}
		seen := func(k [40]byte) {
			if _, ok := kt.ids[k]; !ok {
				kt.ids[k] = len(kt.ids)
			}
			out := VRecover(func() string {
				if err := m.Update(&k, uint64(1), ebpf.UpdateAny); err != nil {
					return "update-error:" + err.Error()
				}
				ks, err := c19DumpKeys(m, kt)
				if err != nil {
					return "dump-error:" + err.Error()
				}
				return "kernel=" + ks
			})
			stream.Emit(fmt.Sprintf("ukseen %d %s", kt.ids[k], hex.EncodeToString(k[:])), out)
			stats.Inc("udptrack.kernel-entry")
		}
		state := func(i int) string {
			var held []string
			eps[i].udpConnStateMu.Lock()
			for k := range eps[i].udpConnStateTuples {
				var raw [40]byte
				copy(raw[:], c19KeyBytes(k))
				held = append(held, kt.label(raw))
			}
			eps[i].udpConnStateMu.Unlock()
			ks, err := c19DumpKeys(m, kt)
			if err != nil {
				return "dump-error:" + err.Error()
			}
			return "held=" + c19SortedLabels(held) + " kernel=" + ks
		}
		var tracked []c19Flow
		nops := 6 + r.Intn(14)
		released := 0
		for o := 0; o < nops; o++ {
			i := r.Intn(neps)
			c := r.Intn(10)
			if o == nops-1 || (o > nops/2 && c < 3) {
				c = 9
			}
			switch {
			case c < 6: // a UDP flow of this endpoint's client is relayed: the kernel has created its entries
				f := c19GenFlow(r, stats, "udptrack.flow")
				// same client (source) as the endpoint, new peer; family follows the endpoint's
				s := srcs[i]
				if f.v4 != s.v4 {
					f = s
					f.d, f.dp = s.d, c19Port(r)
					f.dst = netip.AddrPortFrom(s.dst.Addr(), f.dp)
					stats.Inc("udptrack.flow.peer-reused")
				}
				f.s, f.sp, f.src = s.s, s.sp, s.src
				if len(tracked) > 0 && r.Chance(0.2) {
					f = tracked[r.Intn(len(tracked))] // the same pair again (every packet of the flow calls Track)
					stats.Inc("udptrack.flow.repeated")
				}
				if r.Chance(0.05) {
					f.d, f.dp, f.dst = f.s, f.sp, f.src // src == dst: forward and reply key coincide
					stats.Inc("udptrack.flow.self")
				}
				fwd := c19KernelKey(f.v4, f.s, f.d, f.sp, f.dp, 17)
				rev := c19KernelKey(f.v4, f.d, f.s, f.dp, f.sp, 17)
				fmt.Fprintf(flows, "kflow %s %s %s %d %d 17 %s %s\n", f.fam(), hex.EncodeToString(f.s), hex.EncodeToString(f.d), f.sp, f.dp, hex.EncodeToString(fwd[:]), hex.EncodeToString(rev[:]))
				if !r.Chance(0.15) {
					seen(fwd)
					seen(rev)
					// entries of OTHER logical entities that differ in one member: must survive every release
					d0, d6 := fwd, rev
					d0[36], d6[36] = 0, 6
					seen(d6)
					if r.Bool() {
						seen(d0)
						r0 := rev
						r0[36] = 0
						seen(r0)
					}
					stats.Inc("udptrack.flow.kernel-has-entries")
				} else {
					stats.Inc("udptrack.flow.kernel-has-no-entry")
				}
				out := VRecover(func() string {
					eps[i].TrackUdpConnStateTuplePair(f.src, f.dst)
					return state(i)
				})
				stream.Emit(fmt.Sprintf("utrack %d %s %s %d %s %d", i, e, c19AddrTok(f.src.Addr()), f.sp, c19AddrTok(f.dst.Addr()), f.dp), out)
				tracked = append(tracked, f)
				stats.Inc("udptrack.track")
				if f.v4 {
					if f.src.Addr().Is4In6() || f.dst.Addr().Is4In6() {
						stats.Inc("udptrack.track.v4mapped")
					} else {
						stats.Inc("udptrack.track.v4")
					}
				} else {
					stats.Inc("udptrack.track.v6")
				}
			case c < 8: // reload: the endpoint is adopted by another generation
				g := r.Intn(len(cores))
				out := VRecover(func() string {
					eps[i].adoptGeneration(cores[g], nil)
					return state(i)
				})
				stream.Emit(fmt.Sprintf("uadopt %d %d", i, g), out)
				stats.Inc("udptrack.adopt")
			case c == 8 && len(tracked) > 0: // the kernel sees the flow again (re-creates an entry)
				f := tracked[r.Intn(len(tracked))]
				seen(c19KernelKey(f.v4, f.s, f.d, f.sp, f.dp, 17))
				stats.Inc("udptrack.reseen")
			default:
				out := VRecover(func() string {
					eps[i].releaseTrackedUdpConnState()
					return state(i)
				})
				stream.Emit(fmt.Sprintf("urelease %d", i), out)
				stats.Inc("udptrack.release")
				released++
			}
		}
		// fault injection (some histories): from here on the map rejects deletions (BPF_MAP_FREEZE), so every
		// BpfMapBatchDelete of the teardown fails: the entries stay, the trackers forget the keys all the same
		if r.Chance(0.2) {
			out := VRecover(func() string {
				if err := m.Freeze(); err != nil {
					return "freeze-error:" + err.Error()
				}
				ks, err := c19DumpKeys(m, kt)
				if err != nil {
					return "dump-error:" + err.Error()
				}
				return "kernel=" + ks
			})
			stream.Emit("ufreeze", out)
			stats.Inc("udptrack.fault.delete-fails")
		}
		// teardown of everything that is still open: afterwards no tracked flow may have an entry left
		for i := range eps {
			out := VRecover(func() string {
				eps[i].releaseTrackedUdpConnState()
				return state(i)
			})
			stream.Emit(fmt.Sprintf("urelease %d", i), out)
			stats.Inc("udptrack.release")
		}
		for _, c := range cores {
			if tr := c.udpConnStateTracker.Load(); tr != nil {
				releaseSharedUdpConnStateTracker(c.bpf.Load(), tr)
			}
		}
		_ = m.Close()
		SimulateBatchDelete = savedSim
	}
}

// ---------------------------------------------------------------------------------------- RetrieveRoutingResult
func c19RouteLookup(t *testing.T, r *VRand, stats *VStats, stream *VStream, flows *os.File, e string, scale int) {
	csSize := binary.Size(bpfConnState{})
	hoSize := binary.Size(bpfRoutingHandoffEntry{})
	if csSize <= 0 || hoSize <= 0 {
		stream.Emit("rlookup-setup", fmt.Sprintf("binary.Size conn_state=%d handoff=%d", csSize, hoSize))
		return
	}
	cs, err := ebpf.NewMap(&ebpf.MapSpec{Name: "c19_cs2", Type: ebpf.Hash, KeySize: 40, ValueSize: uint32(csSize), MaxEntries: 4096})
	if err != nil {
		stream.Emit("rlookup-setup", "cannot-create-bpf-hash-map:"+err.Error())
		return
	}
	defer cs.Close()
	ho, err := ebpf.NewMap(&ebpf.MapSpec{Name: "c19_ho", Type: ebpf.Hash, KeySize: 40, ValueSize: uint32(hoSize), MaxEntries: 4096})
	if err != nil {
		stream.Emit("rlookup-setup", "cannot-create-bpf-hash-map:"+err.Error())
		return
	}
	defer ho.Close()
	core := &controlPlaneCore{log: c19Discard(), closed: context.Background(), outboundId2Name: map[uint8]string{}}
	core.bpf.Store(&bpfObjects{bpfMaps: bpfMaps{ConnStateMap: cs, RoutingHandoffMap: ho}})
	pack := func(v any) []byte {
		buf := make([]byte, binary.Size(v))
		if _, err := binary.Encode(buf, binary.NativeEndian, v); err != nil {
			t.Fatal(err)
		}
		return buf
	}
	for i := 0; i < 240*scale; i++ {
		f := c19GenFlow(r, stats, "rlookup")
		proto := []uint8{6, 17, 6, 17, 6, 17, 1, 58, 0}[r.Intn(9)]
		mark := uint32(0x10000 + i)
		where := []string{"conn", "conn", "handoff", "none", "conn-other-proto", "conn-reversed", "conn-no-routing"}[r.Intn(7)]
		kproto := proto
		ks, kd, ksp, kdp := f.s, f.d, f.sp, f.dp
		switch where {
		case "conn-other-proto":
			kproto = proto ^ 23 // 6 <-> 17; others: a different protocol number
		case "conn-reversed":
			ks, kd, ksp, kdp = f.d, f.s, f.dp, f.sp
		}
		key := c19KernelKey(f.v4, ks, kd, ksp, kdp, kproto)
		fmt.Fprintf(flows, "kflow %s %s %s %d %d %d %s -\n", f.fam(), hex.EncodeToString(ks), hex.EncodeToString(kd), ksp, kdp, kproto, hex.EncodeToString(key[:]))
		selfRev := where == "conn-reversed" && string(ks) == string(kd) && ksp == kdp
		out := VRecover(func() string {
			switch where {
			case "handoff":
				now, err := monotonicNowNano()
				if err != nil {
					return "clock-error:" + err.Error()
				}
				var ent bpfRoutingHandoffEntry
				ent.LastSeenNs = now
				ent.Result.Mark = mark
				if err := ho.Update(key[:], pack(ent), ebpf.UpdateAny); err != nil {
					return "update-error:" + err.Error()
				}
			case "none":
			default:
				var st bpfConnState
				st.Meta.Data.Mark = mark
				st.Meta.Data.HasRouting = 1
				if where == "conn-no-routing" {
					st.Meta.Data.HasRouting = 0
				}
				if err := cs.Update(key[:], pack(st), ebpf.UpdateAny); err != nil {
					return "update-error:" + err.Error()
				}
			}
			res, err := core.RetrieveRoutingResult(f.src, f.dst, proto)
			// leave the maps empty for the next op
			_ = cs.Delete(key[:])
			_ = ho.Delete(key[:])
			if err != nil {
				if errors.Is(err, ebpf.ErrKeyNotExist) {
					return "notfound"
				}
				return "error:" + err.Error()
			}
			if res.Mark != mark {
				return fmt.Sprintf("found-wrong-entry mark=%d", res.Mark)
			}
			return "found"
		})
		w := where
		if selfRev {
			w = "conn" // src == dst: the reversed key IS the key
		}
		stream.Emit(fmt.Sprintf("rlookup %s %d", w, proto), out)
		stats.Inc("rlookup")
		stats.Inc("rlookup." + where)
	}
}
