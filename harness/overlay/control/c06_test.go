package control

// C06 correspondence harness, control side: the REAL ControlPlane.handlePkt on one UDP flow with a
// fake outbound (every datagram written to the endpoint is recorded).  Flights of QUIC Initial
// datagrams come from the independent encoders/generators of c06_gen_test.go (instantiated for
// this package by checks/c06.py).  The Lean model `Flow.run` answers the same `pkt` op lines:
// what is forwarded after each datagram, what is still held back, the sniffed domain.

import (
	"context"
	stderrors "errors"
	"fmt"
	"hash/fnv"
	"io"
	"net/netip"
	"os"
	"strings"
	"sync"
	"syscall"
	"testing"
	"time"

	"github.com/daeuniverse/dae/common/consts"
	ob "github.com/daeuniverse/dae/component/outbound"
	componentdialer "github.com/daeuniverse/dae/component/outbound/dialer"
	D "github.com/daeuniverse/outbound/dialer"
	"github.com/daeuniverse/outbound/netproxy"
	"github.com/sirupsen/logrus"
)

type c06UdpConn struct {
	mu      sync.Mutex
	writes  [][]byte
	closeCh chan struct{}
	once    sync.Once
}

func (c *c06UdpConn) Read(_ []byte) (int, error)  { return 0, io.EOF }
func (c *c06UdpConn) Write(_ []byte) (int, error) { return 0, netproxy.UnsupportedTunnelTypeError }
func (c *c06UdpConn) ReadFrom(p []byte) (int, netip.AddrPort, error) {
	<-c.closeCh
	return 0, netip.AddrPort{}, io.EOF
}
func (c *c06UdpConn) WriteTo(b []byte, _ string) (int, error) {
	c.mu.Lock()
	c.writes = append(c.writes, append([]byte(nil), b...))
	c.mu.Unlock()
	return len(b), nil
}
func (c *c06UdpConn) Close() error                       { c.once.Do(func() { close(c.closeCh) }); return nil }
func (c *c06UdpConn) SetDeadline(_ time.Time) error      { return nil }
func (c *c06UdpConn) SetReadDeadline(_ time.Time) error  { return nil }
func (c *c06UdpConn) SetWriteDeadline(_ time.Time) error { return nil }

type c06Dialer struct{ conn netproxy.Conn }

// number of dials that fail (with an error the endpoint pool does not cache) before dials succeed
var c06DialFails int

func (d *c06Dialer) DialContext(context.Context, string, string) (netproxy.Conn, error) {
	if c06DialFails > 0 {
		c06DialFails--
		return nil, fmt.Errorf("c06: dial: %w", syscall.ENOBUFS)
	}
	return d.conn, nil
}

func c06ControlPlane(conn netproxy.Conn) *ControlPlane {
	logger := logrus.New()
	logger.SetOutput(io.Discard)
	gopt := &componentdialer.GlobalOption{Log: logger, CheckInterval: time.Second}
	d := componentdialer.NewDialer(&c06Dialer{conn}, gopt, componentdialer.InstanceOption{DisableCheck: true},
		&componentdialer.Property{Property: D.Property{Name: "c06", Address: "proxy.example:443", Protocol: "c06"}})
	group := ob.NewDialerGroup(gopt, "fixed-c06", []*componentdialer.Dialer{d}, []*componentdialer.Annotation{{}},
		ob.DialerSelectionPolicy{Policy: consts.DialerSelectionPolicy_Fixed, FixedIndex: 0},
		func(bool, *componentdialer.NetworkType, bool) {})
	outbounds := make([]*ob.DialerGroup, int(consts.OutboundUserDefinedMin)+1)
	outbounds[consts.OutboundUserDefinedMin] = group
	return &ControlPlane{
		log:                         logger,
		controlPlaneGenerationState: controlPlaneGenerationState{outbounds: outbounds},
	}
}

func c06Fnv(b []byte) uint32 {
	h := fnv.New32a()
	_, _ = h.Write(b)
	return h.Sum32()
}

// one flow: handle the datagrams in order, record what reaches the outbound after each
func c06RunFlow(qc *c06QuicCase) (op, out string) { return c06RunFlowNoise(qc, nil) }

// noise: datagrams of OTHER flows (different source ports) handled between the datagrams of the flow
// under test, so that pooled buffers are handed back and drawn again while datagrams are withheld.
func c06RunFlowNoise(qc *c06QuicCase, noise [][]byte) (op, out string) {
	var os_ []string
	for _, se := range qc.oracle {
		if se.dead {
			continue
		}
		os_ = append(os_, fmt.Sprintf("%d:%d:%d:%s:%s", se.start, se.pnOff, se.stop, c06Hex(se.dcid), c06Hex(se.plain)))
	}
	orc := "-"
	if len(os_) > 0 {
		orc = strings.Join(os_, ",")
	}
	var ds []string
	for _, d := range qc.datagrams {
		ds = append(ds, c06Hex(d))
	}
	op = "pkt " + orc + " " + strings.Join(ds, ",")

	oldUdp, oldAny, oldSn, oldFailed := DefaultUdpEndpointPool, DefaultAnyfromPool, DefaultPacketSnifferSessionMgr, getFailedQuicDcidCache()
	DefaultUdpEndpointPool = NewUdpEndpointPool()
	DefaultPacketSnifferSessionMgr = NewPacketSnifferPool()
	DefaultPacketSnifferSessionMgr.Close() // stops the wall-clock janitor (5 s TTL); the pool stays usable
	SetFailedQuicDcidCache(newFailedQuicDcidCache(failedQuicDcidCacheShardCount))
	defer func() {
		DefaultUdpEndpointPool.Reset()
		DefaultUdpEndpointPool = oldUdp
		DefaultAnyfromPool = oldAny
		DefaultPacketSnifferSessionMgr.Close()
		DefaultPacketSnifferSessionMgr = oldSn
		SetFailedQuicDcidCache(oldFailed)
	}()

	conn := &c06UdpConn{closeCh: make(chan struct{})}
	cp := c06ControlPlane(conn)
	src := netip.MustParseAddrPort("192.168.89.3:42687")
	dst := netip.MustParseAddrPort("52.199.194.44:443")
	routingResult := &bpfRoutingResult{Outbound: uint8(consts.OutboundUserDefinedMin)}

	out = VRecover(func() string {
		var steps []string
		seen := 0
		noiseSet := map[string]bool{}
		for k, nd := range noise {
			noiseSet[string(nd)] = true
			_ = k
		}
		handle := func(from netip.AddrPort, d []byte) error {
			// the ingress buffer is pooled: it is overwritten as soon as handlePkt returns
			data := append([]byte(nil), d...)
			fd := ClassifyUdpFlow(from, dst, data)
			if fd.IsQuicInitial {
				fd = fd.EnsureSnifferSession()
			}
			rr := *routingResult
			err := cp.handlePkt(nil, data, from, dst, &rr, fd, false)
			for i := range data {
				data[i] = 0x5a
			}
			return err
		}
		for i, d := range qc.datagrams {
			if err := handle(src, d); err != nil && !stderrors.Is(err, syscall.ENOBUFS) {
				return "handlePkt-error:" + strings.ReplaceAll(err.Error(), " ", "_")
			}
			if i < len(noise) {
				other := netip.AddrPortFrom(src.Addr(), uint16(50000+i))
				if err := handle(other, noise[i]); err != nil {
					return "handlePkt-error(noise):" + strings.ReplaceAll(err.Error(), " ", "_")
				}
			}
			conn.mu.Lock()
			var now [][]byte
			for _, w := range conn.writes[seen:] {
				if !noiseSet[string(w)] {
					now = append(now, w)
				}
			}
			seen = len(conn.writes)
			conn.mu.Unlock()
			if len(now) == 0 {
				steps = append(steps, "-")
				continue
			}
			var p []string
			for _, w := range now {
				p = append(p, fmt.Sprintf("%d:%d", len(w), c06Fnv(w)))
			}
			steps = append(steps, strings.Join(p, ","))
		}
		// what is still buffered in sniffer sessions, and the endpoint's sniffed domain
		held := 0
		DefaultPacketSnifferSessionMgr.pool.Range(func(k, v any) bool {
			if k.(PacketSnifferKey).LAddr != src {
				return true
			}
			ps := v.(*PacketSniffer)
			ps.Mu.Lock()
			if n := len(ps.Data()); n > 1 {
				held += n - 1
			}
			ps.Mu.Unlock()
			return true
		})
		dom := ""
		for i := range udpEndpointCreateShardCount {
			shard := &DefaultUdpEndpointPool.shards[i]
			shard.mu.RLock()
			for key, ue := range shard.pool {
				if key.Src == src && ue.SniffedDomain != "" {
					dom = ue.SniffedDomain
				}
			}
			shard.mu.RUnlock()
		}
		return strings.Join(steps, " ") + fmt.Sprintf(" held=%d dom=%s", held, c06Hex([]byte(dom)))
	})
	return op, out
}

func TestVerifC06Flow(t *testing.T) {
	g := &c06Gen{r: NewVRand(VSeed() + 77), stats: NewVStats()}
	st := VOpenStream("c06flow")
	defer st.Close()
	viol, _ := os.Create(VOutDir() + "/c06flow.viol")
	defer viol.Close()
	n := 200
	if VThorough() {
		n = 5000
	}
	n = VEnvInt("C06_FLOWS", n)
	for i := 0; i < n; i++ {
		hc := g.hello()
		for hc.class == "nonascii" {
			hc = g.hello()
		}
		version := uint32(c06QuicV1)
		if g.r.Intn(4) == 0 {
			version = c06QuicV2
		}
		qc := g.quicCase(hc.h.Handshake(), version)
		if g.r.Chance(0.15) { // a large hello the way clients send it: 6-15 datagrams of 1200 bytes
			hc = g.bigHello(6000)
			qc = g.quicCaseManyDatagrams(hc.h.Handshake(), version)
			g.stats.Inc("flow.many_datagrams")
		}
		// handlePkt keys the sniffer session by DCID: keep it in the cacheable range
		short := false
		for _, se := range qc.oracle {
			if len(se.dcid) == 0 || len(se.dcid) > 20 {
				short = true
			}
		}
		if short {
			i--
			continue
		}
		kind := "plain"
		switch g.r.Intn(10) {
		case 0, 1:
			g.quicCorruptFrom(qc, 50) // connection ids intact: still the same QUIC connection
			kind = "corrupt"
		case 2: // retransmission of the first datagram at the end
			c06AppendDatagram(qc, qc.datagrams[0], qc.oracle, 0)
			kind = "retransmit"
		case 4, 5: // a datagram that is not a QUIC Initial right after the first one
			if len(qc.datagrams) >= 2 { // after 1 .. n-1 datagrams of the flight (several may be held by then)
				at := g.r.Range(1, len(qc.datagrams)-1)
				junk := append([]byte{0x40 | byte(g.r.Intn(64))}, g.bytes(g.r.Range(20, 60))...)
				qc.datagrams = append(qc.datagrams[:at:at], append([][]byte{junk}, qc.datagrams[at:]...)...)
				kind = "short_header_between"
				if at >= 2 {
					g.stats.Inc("flow.non_initial_after_two_or_more")
				}
			}
		case 3: // a datagram that is not a QUIC Initial after everything else
			qc.datagrams = append(qc.datagrams, append([]byte{0x40 | byte(g.r.Intn(64))}, g.bytes(g.r.Range(20, 60))...))
			kind = "short_header_after"
		}
		if qc.hasClose {
			kind = "close_frame"
		}
		var noise [][]byte
		if g.r.Chance(0.4) { // other flows in between: incomplete Initials that are held too (pool churn)
			for k := 0; k < len(qc.datagrams); k++ {
				nq := g.quicCase(g.hello().h.Handshake(), c06QuicV1)
				noise = append(noise, nq.datagrams[0])
			}
			g.stats.Inc("flow.with_noise_flows")
		}
		op, out := c06RunFlowNoise(qc, noise)
		st.Emit(op, out)
		g.stats.Inc("flow." + kind)
		g.stats.Inc(fmt.Sprintf("flow.datagrams.%d", len(qc.datagrams)))
		if strings.HasPrefix(out, "crash:") || strings.HasPrefix(out, "handlePkt-error") {
			fmt.Fprintf(viol, "handlePkt failed: %s\n", out)
			continue
		}
		// property-level oracle: everything forwarded, in ingress order, nothing altered, once the
		// whole ClientHello has arrived
		if kind == "plain" || kind == "retransmit" || kind == "short_header_after" || kind == "short_header_between" {
			var got []string
			for _, s := range strings.Fields(out) {
				if strings.HasPrefix(s, "held=") || strings.HasPrefix(s, "dom=") || s == "-" {
					continue
				}
				got = append(got, strings.Split(s, ",")...)
			}
			var want []string
			for _, d := range qc.datagrams {
				want = append(want, fmt.Sprintf("%d:%d", len(d), c06Fnv(d)))
			}
			if strings.Join(got, " ") != strings.Join(want, " ") {
				fmt.Fprintf(viol, "datagrams reaching the outbound differ from the ingress sequence (%s): got [%s] want [%s] answer: %.200s\n", kind, strings.Join(got, " "), strings.Join(want, " "), out)
			}
			// (a non-Initial datagram in the middle of the flight ends sniffing for the flow: no domain then)
			if kind != "short_header_between" && hc.expect != "?" && hc.expect != "nf" && hc.expect != "na" && c06FlowField(out, "dom") != c06Hex([]byte(hc.expect)) {
				fmt.Fprintf(viol, "flow's sniffed domain is %s, the ClientHello carries %s (%s)\n", c06FlowField(out, "dom"), c06Hex([]byte(hc.expect)), hc.class)
			}
		}
	}
	// Two QUIC connections (different DCIDs) opening on one 4-tuple, datagrams interleaved. No model
	// behind this stream (the flow model has one session): only the property itself — every datagram
	// reaches the outbound exactly once, each connection's datagrams in their ingress order.
	flatten := func(out string) []string {
		var got []string
		for _, s := range strings.Fields(out) {
			if strings.HasPrefix(s, "held=") || strings.HasPrefix(s, "dom=") || s == "-" {
				continue
			}
			got = append(got, strings.Split(s, ",")...)
		}
		return got
	}
	key := func(d []byte) string { return fmt.Sprintf("%d:%d", len(d), c06Fnv(d)) }
	// every datagram exactly once, each session's datagrams in their ingress order
	exactlyOnceInOrder := func(got []string, sessions [][][]byte) string {
		count := map[string]int{}
		for _, x := range got {
			count[x]++
		}
		total := 0
		for _, sess := range sessions {
			last := -1
			for _, d := range sess {
				total++
				k := key(d)
				if count[k] != 1 {
					return fmt.Sprintf("datagram %s reached the outbound %d times", k, count[k])
				}
				pos := 0
				for p, x := range got {
					if x == k {
						pos = p
					}
				}
				if pos < last {
					return fmt.Sprintf("datagram %s overtook an earlier one of its connection", k)
				}
				last = pos
			}
		}
		if len(got) != total {
			return fmt.Sprintf("%d datagrams written, %d received", len(got), total)
		}
		return ""
	}
	m := n / 4
	for i := 0; i < m; i++ {
		var qa, qb *c06QuicCase
		for tries := 0; tries < 50; tries++ {
			if g.r.Chance(0.3) {
				qa = g.quicCaseManyDatagrams(g.bigHello(3000).h.Handshake(), c06QuicV1)
			} else {
				qa = g.quicCase(g.hello().h.Handshake(), c06QuicV1)
			}
			qb = g.quicCase(g.hello().h.Handshake(), c06QuicV1)
			if len(qa.datagrams) >= 2 && len(qa.oracle[0].dcid) >= 8 && len(qb.oracle[0].dcid) >= 8 && !qa.hasClose && !qb.hasClose {
				break
			}
		}
		if len(qa.datagrams) < 2 {
			continue
		}
		// interleave: the first k datagrams of A, then B's datagrams, then the rest of A
		k := g.r.Range(1, len(qa.datagrams)-1)
		if k >= 2 {
			g.stats.Inc("flow.two_connections_two_or_more_held")
		}
		junk := append([]byte{0x40 | byte(g.r.Intn(64))}, g.bytes(g.r.Range(20, 60))...)
		mix := &c06QuicCase{}
		mix.datagrams = append(mix.datagrams, qa.datagrams[:k]...)
		mix.datagrams = append(mix.datagrams, qb.datagrams...)
		mix.datagrams = append(mix.datagrams, qa.datagrams[k:]...)
		// a connection whose first Initial was consumed earlier may legitimately still be waiting at
		// the end; a closing datagram that is not a QUIC Initial must flush whatever is held
		mix.datagrams = append(mix.datagrams, junk)
		_, out := c06RunFlowNoise(mix, nil)
		g.stats.Inc("flow.two_connections")
		problem := exactlyOnceInOrder(flatten(out), [][][]byte{qa.datagrams, qb.datagrams, {junk}})
		if problem != "" || strings.HasPrefix(out, "crash:") || c06FlowField(out, "held") != "0" {
			fmt.Fprintf(viol, "two QUIC connections on one 4-tuple: %s (held=%s): %.300s\n", problem, c06FlowField(out, "held"), out)
		}
	}
	// Dial failures (an error the endpoint pool does not cache) and undecryptable Initials: the
	// branches of handlePkt that leave the sniff early.  No model behind this stream; the property:
	// what reaches the outbound is a subsequence of what came in - nothing twice, nothing overtaken.
	for i := 0; i < m; i++ {
		qc := g.quicCase(g.hello().h.Handshake(), c06QuicV1)
		if len(qc.oracle[0].dcid) < 8 || qc.hasClose {
			i--
			continue
		}
		kind := "dial_failure.valid_flight"
		if g.r.Chance(0.5) { // an Initial-shaped datagram that does not authenticate, retransmitted
			// (a retransmitted Initial is a new packet: same connection ids, different bytes)
			var bads [][]byte
			for k := g.r.Range(2, 3); k > 0; k-- {
				bad := append([]byte(nil), qc.datagrams[0]...)
				bad[len(bad)-1] ^= 0x55
				bad[len(bad)-2] = byte(k)
				bads = append(bads, bad)
			}
			qc = &c06QuicCase{datagrams: bads}
			kind = "dial_failure.undecryptable_retransmitted"
		} else if g.r.Chance(0.5) {
			qc.datagrams = append(qc.datagrams, qc.datagrams[0])
		}
		c06DialFails = g.r.Range(1, 2)
		_, out := c06RunFlowNoise(qc, nil)
		c06DialFails = 0
		g.stats.Inc("flow." + kind)
		got := flatten(out)
		// subsequence test with multiplicities (retransmissions are equal byte strings)
		p := 0
		ok := !strings.HasPrefix(out, "crash:") && !strings.HasPrefix(out, "handlePkt-error")
		for _, x := range got {
			for p < len(qc.datagrams) && key(qc.datagrams[p]) != x {
				p++
			}
			if p == len(qc.datagrams) {
				ok = false
				break
			}
			p++
		}
		if !ok {
			fmt.Fprintf(viol, "%s: the outbound received [%s], which is not a subsequence of the %d datagrams that came in (a datagram twice, or overtaken): %.300s\n", kind, strings.Join(got, " "), len(qc.datagrams), out)
		}
	}
	g.stats.Write("c06flow")
}

func c06FlowField(out, key string) string {
	for _, f := range strings.Fields(out) {
		if strings.HasPrefix(f, key+"=") {
			return f[len(key)+1:]
		}
	}
	return ""
}

// append a copy of datagram `d` (taken from position `from` of the case) with its oracle entries
func c06AppendDatagram(qc *c06QuicCase, d []byte, oracle []*c06Sealed, from int) {
	start := 0
	for i := 0; i < from; i++ {
		start += len(qc.datagrams[i])
	}
	total := 0
	for _, x := range qc.datagrams {
		total += len(x)
	}
	for _, se := range oracle {
		if se.start >= start && se.start < start+len(d) {
			cp := *se
			cp.start = total + (se.start - start)
			qc.oracle = append(qc.oracle, &cp)
		}
	}
	qc.datagrams = append(qc.datagrams, d)
}
