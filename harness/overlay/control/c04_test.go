package control

// C04 correspondence harness (traffic routing, DNS request routing, DNS response routing).
//
// For every generated rule list the REAL optimizer pipeline of the backend is run
// (control_plane.go / dns.go), the normalised program is compiled by the REAL builder and evaluated
// by the REAL matcher on generated packets / questions.  The Lean driver c04drv gets the rules as
// written, the geodata tables and — per packet — the truth value of every single value ("atom"),
// obtained from the real matcher on a one-value program, and answers with
//   opt=  the program its model of the pipeline produces        (compared with the real AST)
//   dec=  the decision of its model of the compiled program      (compared with the real decision)
//   spec= first match over the rules as written                  (compared with a brute-force
//                                                                  evaluator written here; and
//                                                                  dec must equal spec)
// Grammar: see lean/DaeVerif/C04/Main.lean.

import (
	"encoding/json"
	"fmt"
	"go/ast"
	"go/parser"
	"go/token"
	"net/netip"
	"os"
	"path/filepath"
	"reflect"
	"strings"
	"testing"
	"unsafe"

	"github.com/daeuniverse/dae/common/assets"
	"github.com/daeuniverse/dae/common/consts"
	"github.com/daeuniverse/dae/component/dns"
	"github.com/daeuniverse/dae/component/routing"
	"github.com/daeuniverse/dae/component/routing/domain_matcher"
	"github.com/daeuniverse/dae/config"
	"github.com/daeuniverse/dae/pkg/config_parser"
	"github.com/daeuniverse/dae/pkg/geodata"
	"github.com/sirupsen/logrus"
	"google.golang.org/protobuf/proto"
)

type c04Rule = config_parser.RoutingRule
type c04Func = config_parser.Function
type c04Param = config_parser.Param

// ---------------------------------------------------------------- serialisation

func c04Tok(s string) string {
	if s == "" {
		return "~"
	}
	return s
}

func c04SerFunc(sb *strings.Builder, f *c04Func) {
	neg := "0"
	if f.Not {
		neg = "1"
	}
	fmt.Fprintf(sb, "%s %s %d", c04Tok(f.Name), neg, len(f.Params))
	for _, p := range f.Params {
		sb.WriteString(" " + c04Tok(p.Key) + " " + c04Tok(p.Val))
	}
}

func c04SerProg(rules []*c04Rule) string {
	var sb strings.Builder
	fmt.Fprintf(&sb, "%d", len(rules))
	for _, r := range rules {
		fmt.Fprintf(&sb, " %d", len(r.AndFunctions))
		for _, f := range r.AndFunctions {
			sb.WriteString(" ")
			c04SerFunc(&sb, f)
		}
		sb.WriteString(" ")
		c04SerFunc(&sb, &r.Outbound)
	}
	return sb.String()
}

func c04Text(rules []*c04Rule) []string {
	out := make([]string, len(rules))
	for i, r := range rules {
		var fs []string
		for _, f := range r.AndFunctions {
			var ps []string
			for _, p := range f.Params {
				ps = append(ps, p.String(false, true))
			}
			n := ""
			if f.Not {
				n = "!"
			}
			fs = append(fs, n+f.Name+"("+strings.Join(ps, ", ")+")")
		}
		var ps []string
		for _, p := range r.Outbound.Params {
			ps = append(ps, p.String(false, false))
		}
		o := r.Outbound.Name
		if len(ps) > 0 {
			o += "(" + strings.Join(ps, ", ") + ")"
		}
		out[i] = strings.Join(fs, " && ") + " -> " + o
	}
	return out
}

// ---------------------------------------------------------------- backends

type c04Packet struct {
	// traffic
	src, dst     netip.Addr
	sport, dport uint16
	l4           consts.L4ProtoType
	domain       string
	pname        string
	dscp         uint8
	mac          [6]byte
	// dns
	qname    string
	qtype    uint16
	ips      []netip.Addr
	upstream uint8
}

func (p *c04Packet) String(kind string) string {
	switch kind {
	case "traffic":
		l4 := "tcp"
		if p.l4 == consts.L4ProtoType_UDP {
			l4 = "udp"
		}
		return fmt.Sprintf("%s %v:%d -> %v:%d domain=%q pname=%q dscp=%d mac=%x", l4, p.src, p.sport, p.dst, p.dport, p.domain, p.pname, p.dscp, p.mac)
	case "dnsreq":
		return fmt.Sprintf("qname=%q qtype=%d", p.qname, p.qtype)
	default:
		return fmt.Sprintf("qname=%q qtype=%d ips=%v upstream=%d", p.qname, p.qtype, p.ips, p.upstream)
	}
}

type c04Env struct {
	log      *logrus.Logger
	lf       *assets.LocationFinder
	traffic  map[string]uint8
	upstream map[string]uint8
	// caches
	expand    map[string][]*c04Param // "" value = nil slice with ok flag in expandOk
	expOk     map[string]bool
	atomM     map[string]any
	stats     *VStats
	stages    map[string][]string
	dnsNew    bool // dns.New is usable as the production constructor
	bulk      map[c04Atom]c04BulkRef
	sharedDat *routing.DatReaderOptimizer
	// cache key -> the spelling of the reference under which the long-lived optimizer was first asked for it
	sharedFirst map[string]string
}

// What a production call site looks like, read from the source of the repo under test (go/ast):
// the optimizer types in order, any field set on an optimizer literal other than Logger /
// LocationFinder (an option the harness-built optimizers would not have), and whether the "glue"
// is the expected one: the optimizers are inline `&pkg.Type{…}` literals, the first two arguments are
// `<x>.Rules, <x>.Fallback` of one and the same value, and (traffic only, where the constructor cannot be
// run) the normalised program is not written to or handed to anything but logging between the
// normalising call and the builder call.
type c04Site struct {
	names  []string
	fields []string
	glue   string
}

func c04ExprStr(e ast.Expr) string {
	switch x := e.(type) {
	case *ast.Ident:
		return x.Name
	case *ast.SelectorExpr:
		return c04ExprStr(x.X) + "." + x.Sel.Name
	}
	return "?"
}

func c04CallName(call *ast.CallExpr) string {
	switch fn := call.Fun.(type) {
	case *ast.SelectorExpr:
		return fn.Sel.Name
	case *ast.Ident:
		return fn.Name
	}
	return ""
}

func c04ReadSite(file, callee, builder string) c04Site {
	repo := os.Getenv("VERIF_REPO")
	if repo == "" {
		repo = "/repo"
	}
	site := c04Site{glue: "ok"}
	f, err := parser.ParseFile(token.NewFileSet(), filepath.Join(repo, file), nil, 0)
	if err != nil {
		site.glue = "source-not-parsed"
		return site
	}
	var theCall *ast.CallExpr
	var body *ast.BlockStmt
	ast.Inspect(f, func(n ast.Node) bool {
		if fd, ok := n.(*ast.FuncDecl); ok && fd.Body != nil && theCall == nil {
			ast.Inspect(fd.Body, func(m ast.Node) bool {
				if call, ok := m.(*ast.CallExpr); ok && theCall == nil && c04CallName(call) == callee && len(call.Args) > 2 {
					theCall, body = call, fd.Body
				}
				return true
			})
		}
		return true
	})
	if theCall == nil {
		site.glue = "call-not-found"
		return site
	}
	// first two arguments: <x>.Rules, <x>.Fallback
	a0, ok0 := theCall.Args[0].(*ast.SelectorExpr)
	a1, ok1 := theCall.Args[1].(*ast.SelectorExpr)
	if !ok0 || !ok1 || a0.Sel.Name != "Rules" || a1.Sel.Name != "Fallback" || c04ExprStr(a0.X) != c04ExprStr(a1.X) {
		site.glue = "rules-and-fallback-not-of-one-value"
	}
	optArgs := theCall.Args[2:]
	if id, ok := theCall.Args[len(theCall.Args)-1].(*ast.Ident); ok && theCall.Ellipsis.IsValid() && len(theCall.Args) == 3 {
		// `optimizers...`: a slice variable defined in the same function by a composite literal
		ast.Inspect(body, func(n ast.Node) bool {
			if as, ok := n.(*ast.AssignStmt); ok && len(as.Lhs) == 1 && len(as.Rhs) == 1 && c04ExprStr(as.Lhs[0]) == id.Name {
				if cl, ok := as.Rhs[0].(*ast.CompositeLit); ok {
					optArgs = cl.Elts
				}
			}
			return true
		})
	}
	for _, a := range optArgs {
		u, ok := a.(*ast.UnaryExpr)
		var cl *ast.CompositeLit
		if ok {
			cl, ok = u.X.(*ast.CompositeLit)
		}
		if !ok {
			site.glue = "optimizer-not-an-inline-literal"
			continue
		}
		name := c04ExprStr(cl.Type)
		if i := strings.LastIndex(name, "."); i >= 0 {
			name = name[i+1:]
		}
		site.names = append(site.names, name)
		for _, el := range cl.Elts {
			if kv, ok := el.(*ast.KeyValueExpr); ok {
				k := c04ExprStr(kv.Key)
				if k != "Logger" && k != "LocationFinder" {
					site.fields = append(site.fields, name+"."+k)
				}
			} else {
				site.fields = append(site.fields, name+".<positional>")
			}
		}
	}
	// the value whose Rules/Fallback are normalised must not be written, nor handed to anything, anywhere in
	// the function BEFORE the normalising call (a rewrite of the rule list there changes first match)
	if ok0 {
		x := c04ExprStr(a0.X)
		touches := func(e ast.Expr) bool {
			if u, ok := e.(*ast.UnaryExpr); ok {
				e = u.X
			}
			s := c04ExprStr(e)
			return s == x || strings.HasPrefix(s, x+".")
		}
		ast.Inspect(body, func(n ast.Node) bool {
			if n == nil {
				return true
			}
			if n.Pos() >= theCall.Pos() {
				return false
			}
			switch v := n.(type) {
			case *ast.AssignStmt:
				for _, l := range v.Lhs {
					if touches(l) {
						site.glue = "rule-list-written-before-normalising"
					}
				}
			case *ast.CallExpr:
				if v.End() <= theCall.Pos() {
					for _, a := range v.Args {
						if touches(a) {
							site.glue = "rule-list-handed-to-" + c04CallName(v) + "-before-normalising"
						}
					}
				}
			}
			return true
		})
	}
	if builder == "" || site.glue != "ok" {
		return site
	}
	// traffic: statements between the normalising call and the builder call must leave the program alone
	progVar := ""
	var stmts []ast.Stmt
	ast.Inspect(body, func(n ast.Node) bool {
		if blk, ok := n.(*ast.BlockStmt); ok && stmts == nil {
			for _, st := range blk.List {
				if as, ok := st.(*ast.AssignStmt); ok && len(as.Rhs) == 1 && as.Rhs[0] == ast.Expr(theCall) && len(as.Lhs) > 0 {
					progVar = c04ExprStr(as.Lhs[0])
					stmts = blk.List
				}
			}
		}
		return true
	})
	if progVar == "" {
		site.glue = "normalised-program-not-assigned-to-a-variable"
		return site
	}
	mentions := func(e ast.Expr) bool {
		s := c04ExprStr(e)
		return s == progVar || strings.HasPrefix(s, progVar+".")
	}
	state := 0 // 0 before the normalising call, 1 between, 2 after the builder call
	for _, st := range stmts {
		if state == 0 {
			if as, ok := st.(*ast.AssignStmt); ok && len(as.Rhs) == 1 && as.Rhs[0] == ast.Expr(theCall) {
				state = 1
			}
			continue
		}
		if state == 2 {
			break
		}
		ast.Inspect(st, func(n ast.Node) bool {
			switch x := n.(type) {
			case *ast.AssignStmt:
				for _, l := range x.Lhs {
					if mentions(l) {
						site.glue = "normalised-program-written-before-build"
					}
				}
			case *ast.IncDecStmt:
				if mentions(x.X) {
					site.glue = "normalised-program-written-before-build"
				}
			case *ast.CallExpr:
				if c04CallName(x) == builder {
					state = 2
					found := false
					for _, a := range x.Args {
						if c04ExprStr(a) == progVar {
							found = true
						}
					}
					if !found {
						site.glue = "builder-not-given-the-normalised-program"
					}
					return false
				}
				base := ""
				if sel, ok := x.Fun.(*ast.SelectorExpr); ok {
					base = c04ExprStr(sel.X)
				}
				for _, a := range x.Args {
					if u, ok := a.(*ast.UnaryExpr); ok {
						a = u.X
					}
					if mentions(a) && base != "log" && base != "debugBuilder" && base != "fmt" {
						site.glue = "normalised-program-handed-to-" + c04CallName(x) + "-before-build"
					}
				}
			}
			return true
		})
	}
	if state != 2 {
		site.glue = "builder-call-not-found-after-normalising"
	}
	return site
}

func (s c04Site) String() string {
	f := "none"
	if len(s.fields) > 0 {
		f = strings.Join(s.fields, ",")
	}
	return "pipeline=" + strings.Join(s.names, ",") + " fields=" + f + " glue=" + s.glue
}

// the stage list the harness runs: the one found in the source when it is made of known optimizers,
// otherwise the documented one (the difference is then reported through the `pipeline` line).
func c04UsableStages(found []string, kind string) []string {
	def := []string{"DatReaderOptimizer", "MergeAndSortRulesOptimizer", "DeduplicateParamsOptimizer"}
	if kind == "traffic" {
		def = append([]string{"AliasOptimizer"}, def...)
	}
	if len(found) == 0 {
		return def
	}
	for _, n := range found {
		switch n {
		case "AliasOptimizer", "DatReaderOptimizer", "MergeAndSortRulesOptimizer", "DeduplicateParamsOptimizer":
		default:
			return def
		}
	}
	return found
}

// The DNS matchers as production builds them: the REAL dns.New (upstream parsing, both optimizer
// chains, SplitRequestRules, both builders) on a config.Dns holding the rule list; the two matchers
// are read out of the returned object.  The other direction gets a different fallback so that a
// mix-up of the two rule lists / fallbacks changes decisions.
func (e *c04Env) dnsProduction(kind string, rules []*c04Rule, fb string) (m *c04Matcher, usable bool) {
	other := "cf"
	if fb == "cf" {
		other = "alidns"
	}
	cfg := &config.Dns{Upstream: []config.KeyableString{"alidns:udp://223.5.5.5:53", "googledns:udp://8.8.8.8:53", "cf:udp://1.1.1.1:53"}}
	if kind == "dnsreq" {
		cfg.Routing.Request.Rules, cfg.Routing.Request.Fallback, cfg.Routing.Response.Fallback = rules, fb, other
	} else {
		cfg.Routing.Response.Rules, cfg.Routing.Response.Fallback, cfg.Routing.Request.Fallback = rules, fb, other
	}
	s, err := dns.New(cfg, &dns.NewOption{Logger: e.log, LocationFinder: e.lf})
	if err != nil || s == nil {
		return nil, true
	}
	v := reflect.ValueOf(s).Elem()
	fq, fs := v.FieldByName("reqMatcher"), v.FieldByName("respMatcher")
	if !fq.IsValid() || !fs.IsValid() || fq.Type() != reflect.TypeOf((*dns.RequestMatcher)(nil)) || fs.Type() != reflect.TypeOf((*dns.ResponseMatcher)(nil)) {
		return nil, false
	}
	m = &c04Matcher{kind: kind}
	m.rq = *(**dns.RequestMatcher)(unsafe.Pointer(fq.UnsafeAddr()))
	m.rs = *(**dns.ResponseMatcher)(unsafe.Pointer(fs.UnsafeAddr()))
	return m, true
}

func (e *c04Env) mkOptimizers(names []string) []routing.RulesOptimizer {
	var out []routing.RulesOptimizer
	for _, n := range names {
		switch n {
		case "AliasOptimizer":
			out = append(out, &routing.AliasOptimizer{})
		case "DatReaderOptimizer":
			out = append(out, &routing.DatReaderOptimizer{Logger: e.log, LocationFinder: e.lf})
		case "MergeAndSortRulesOptimizer":
			out = append(out, &routing.MergeAndSortRulesOptimizer{})
		case "DeduplicateParamsOptimizer":
			out = append(out, &routing.DeduplicateParamsOptimizer{})
		}
	}
	return out
}

// the pipeline of the backend, in the order the production call site lists it.
func (e *c04Env) optimizers(kind string) []routing.RulesOptimizer {
	if kind == "traffic" {
		// the very expressions NewControlPlane passes to NewNormalizedProgram, regenerated from
		// control_plane.go as Go code by translators/optchain (ctx.optchain_overlay) and compiled in
		return c01ProductionOptimizers(e.log, e.lf)
	}
	return e.mkOptimizers(e.stages[kind])
}

func (e *c04Env) expandOnly(kind string) []routing.RulesOptimizer {
	if kind == "traffic" {
		return e.mkOptimizers([]string{"AliasOptimizer", "DatReaderOptimizer"})
	}
	return e.mkOptimizers([]string{"DatReaderOptimizer"})
}

// what an outbound decides, through the real ParseOutbound and the backend's name table.
// returns label tokens ("F id mark must" | "M") and ok=false if the real code rejects it.
func (e *c04Env) label(kind string, o *c04Func) (string, bool) {
	ob, err := routing.ParseOutbound(o)
	if err != nil {
		return "", false
	}
	switch kind {
	case "traffic":
		if ob.Name == consts.OutboundMustRules.String() {
			return "M", true
		}
		id, ok := e.traffic[ob.Name]
		if !ok {
			return "", false
		}
		m := 0
		if ob.Must {
			m = 1
		}
		return fmt.Sprintf("F %d %d %d", id, ob.Mark, m), true
	case "dnsreq":
		switch ob.Name {
		case "asis":
			return fmt.Sprintf("F %d 0 0", consts.DnsRequestOutboundIndex_AsIs), true
		case "reject":
			return fmt.Sprintf("F %d 0 0", consts.DnsRequestOutboundIndex_Reject), true
		}
	default:
		switch ob.Name {
		case "accept":
			return fmt.Sprintf("F %d 0 0", consts.DnsResponseOutboundIndex_Accept), true
		case "reject":
			return fmt.Sprintf("F %d 0 0", consts.DnsResponseOutboundIndex_Reject), true
		}
	}
	id, ok := e.upstream[ob.Name]
	if !ok {
		return "", false
	}
	return fmt.Sprintf("F %d 0 0", id), true
}

type c04Matcher struct {
	kind string
	t    *RoutingMatcher
	rq   *dns.RequestMatcher
	rs   *dns.ResponseMatcher
}

func c04Addr16(a netip.Addr) [16]byte { return a.As16() }

func (m *c04Matcher) decide(p *c04Packet) string {
	return VRecover(func() string {
		switch m.kind {
		case "traffic":
			var mac [16]byte
			copy(mac[10:], p.mac[:])
			var pn [16]byte
			copy(pn[:], p.pname)
			ipv := consts.IpVersion_4
			if !p.dst.Is4() && !p.dst.Is4In6() {
				ipv = consts.IpVersion_6
			}
			ob, mark, must, err := m.t.Match(c04Addr16(p.src), c04Addr16(p.dst), p.sport, p.dport, ipv, p.l4, p.domain, pn, p.dscp, mac)
			if err != nil {
				return "matcherr"
			}
			mu := 0
			if must {
				mu = 1
			}
			return fmt.Sprintf("%d.%d.%d", ob, mark, mu)
		case "dnsreq":
			up, err := m.rq.Match(p.qname, p.qtype)
			if err != nil {
				return "matcherr"
			}
			return fmt.Sprintf("%d.0.0", up)
		default:
			up, err := m.rs.Match(p.qname, p.qtype, p.ips, consts.DnsRequestOutboundIndex(p.upstream))
			if err != nil {
				return "matcherr"
			}
			return fmt.Sprintf("%d.0.0", up)
		}
	})
}

// compile a NORMALISED program with the real builder of the backend.
func (e *c04Env) compile(kind string, rules []*c04Rule, fb config.FunctionOrString, opts []routing.RulesOptimizer) (m *c04Matcher, normalised []*c04Rule, split string, stage string) {
	split = "-"
	switch kind {
	case "traffic":
		prog, err := routing.NewNormalizedProgram(rules, fb, opts...)
		if err != nil {
			return nil, nil, split, "opt"
		}
		normalised = prog.Rules
		b, err := NewRoutingMatcherBuilderFromProgram(e.log, prog, e.traffic, nil)
		if err != nil {
			return nil, normalised, split, "build"
		}
		t, err := b.BuildUserspace()
		if err != nil {
			return nil, normalised, split, "build"
		}
		return &c04Matcher{kind: kind, t: t}, normalised, split, ""
	case "dnsreq":
		// the normalised rules before SplitRequestRules: the same real optimizers, run once more
		var err error
		if len(opts) > 0 {
			normalised, err = routing.ApplyRulesOptimizers(rules, opts...)
		} else {
			normalised = routing.DeepCloneRules(rules)
		}
		if err != nil {
			return nil, nil, "err", "opt"
		}
		prog, err := dns.NewNormalizedRequestRoutingProgram(rules, fb, opts...)
		if err != nil {
			return nil, normalised, "err", "split"
		}
		split = fmt.Sprint(len(prog.Rules))
		b, err := dns.NewRequestMatcherBuilderFromProgram(e.log, prog, e.upstream)
		if err != nil {
			return nil, normalised, split, "build"
		}
		rq, err := b.Build()
		if err != nil {
			return nil, normalised, split, "build"
		}
		return &c04Matcher{kind: kind, rq: rq}, normalised, split, ""
	default:
		prog, err := routing.NewNormalizedProgram(rules, fb, opts...)
		if err != nil {
			return nil, nil, split, "opt"
		}
		normalised = prog.Rules
		b, err := dns.NewResponseMatcherBuilderFromProgram(e.log, prog, e.upstream)
		if err != nil {
			return nil, normalised, split, "build"
		}
		rs, err := b.Build()
		if err != nil {
			return nil, normalised, split, "build"
		}
		return &c04Matcher{kind: kind, rs: rs}, normalised, split, ""
	}
}

// ---------------------------------------------------------------- the configuration loader

func c04RenderFunc(f *c04Func, quote bool) string {
	var ps []string
	for _, p := range f.Params {
		v := p.Val
		if quote {
			v = "'" + v + "'"
		}
		if p.Key != "" {
			v = p.Key + ": " + v
		}
		ps = append(ps, v)
	}
	n := ""
	if f.Not {
		n = "!"
	}
	if len(ps) == 0 && !quote {
		return n + f.Name
	}
	return n + f.Name + "(" + strings.Join(ps, ", ") + ")"
}

func c04RenderConfig(rules []*c04Rule, fb string) string {
	var sb strings.Builder
	sb.WriteString("global {}\nrouting {\n")
	for _, r := range rules {
		var fs []string
		for _, f := range r.AndFunctions {
			fs = append(fs, c04RenderFunc(f, true))
		}
		sb.WriteString("  " + strings.Join(fs, " && ") + " -> " + c04RenderFunc(&r.Outbound, false) + "\n")
	}
	sb.WriteString("  fallback: " + fb + "\n}\n")
	return sb.String()
}

// written rules -> config text -> REAL parser -> REAL config.New; ok=false if the text does not
// parse back to exactly the written rules (then the program is not used).
func (e *c04Env) throughConfig(written []*c04Rule, fb string) ([]*c04Rule, config.FunctionOrString, bool) {
	secs, err := config_parser.Parse(c04RenderConfig(written, fb))
	if err != nil {
		return nil, nil, false
	}
	var parsed []*c04Rule
	for _, s := range secs {
		if s.Name != "routing" {
			continue
		}
		for _, it := range s.Items {
			if r, ok := it.Value.(*c04Rule); ok {
				parsed = append(parsed, r)
			}
		}
	}
	if c04SerProg(parsed) != c04SerProg(written) {
		return nil, nil, false
	}
	cfg, err := config.New(secs)
	if err != nil {
		return nil, nil, false
	}
	return cfg.Routing.Rules, cfg.Routing.Fallback, true
}

// the stage list of the backend with ONE long-lived DatReaderOptimizer (cache kept across rule lists)
func (e *c04Env) sharedChain(kind string) []routing.RulesOptimizer {
	if e.sharedDat == nil {
		e.sharedDat = &routing.DatReaderOptimizer{Logger: e.log, LocationFinder: e.lf}
	}
	var out []routing.RulesOptimizer
	for _, n := range e.stages[kind] {
		switch n {
		case "AliasOptimizer":
			out = append(out, &routing.AliasOptimizer{})
		case "DatReaderOptimizer":
			out = append(out, e.sharedDat)
		case "MergeAndSortRulesOptimizer":
			out = append(out, &routing.MergeAndSortRulesOptimizer{})
		case "DeduplicateParamsOptimizer":
			out = append(out, &routing.DeduplicateParamsOptimizer{})
		}
	}
	return out
}

// ---------------------------------------------------------------- atoms

type c04Atom struct{ name, key, val string }

func c04One(name, key, val, out string) []*c04Rule {
	return []*c04Rule{{
		AndFunctions: []*c04Func{{Name: name, Params: []*c04Param{{Key: key, Val: val}}}},
		Outbound:     c04Func{Name: out},
	}}
}

// truth of one value for one packet, by the real builder + matcher on the one-value program.
// Scale programs have thousands of domain values; building one matcher per value would dominate the
// run.  Their domain atoms are evaluated in bulk by the same leaf matcher the builders use
// (domain_matcher.AhocorasickSlimtrie), one match set per value, 1000 values per matcher.
type c04BulkRef struct {
	m   *domain_matcher.AhocorasickSlimtrie
	bit int
}

func c04IsDomainAtom(a c04Atom) bool {
	if a.name != "domain" && a.name != "qname" {
		return false
	}
	switch a.key {
	case "suffix", "full", "keyword", "regex":
		return true
	}
	return false
}

func (e *c04Env) prepareBulk(atoms []c04Atom) {
	var todo []c04Atom
	for _, a := range atoms {
		if c04IsDomainAtom(a) {
			if _, ok := e.bulk[c04Atom{"", a.key, a.val}]; !ok {
				todo = append(todo, a)
			}
		}
	}
	for len(todo) > 0 {
		n := len(todo)
		if n > 1000 {
			n = 1000
		}
		m := domain_matcher.NewAhocorasickSlimtrie(e.log, consts.MaxMatchSetLen)
		for i, a := range todo[:n] {
			m.AddSet(i, []string{a.val}, consts.RoutingDomainKey(a.key))
			e.bulk[c04Atom{"", a.key, a.val}] = c04BulkRef{m, i}
		}
		if err := m.Build(); err != nil {
			panic(err)
		}
		todo = todo[n:]
	}
}

func (e *c04Env) truth(kind string, a c04Atom, p *c04Packet) (bool, bool) {
	if ref, ok := e.bulk[c04Atom{"", a.key, a.val}]; ok && c04IsDomainAtom(a) {
		name := p.domain
		if kind != "traffic" {
			name = p.qname
		}
		if name == "" { // the matchers do not consult the domain sets for an empty name
			return false, true
		}
		bm := ref.m.MatchDomainBitmap(name)
		return bm != nil && (bm[ref.bit/32]>>(ref.bit%32))&1 == 1, true
	}
	ck := kind + "\x00" + a.name + "\x00" + a.key + "\x00" + a.val
	mv, ok := e.atomM[ck]
	if !ok {
		hit, fb := "proxy", config.FunctionOrString("direct")
		if kind == "dnsreq" {
			hit, fb = "alidns", "asis"
		} else if kind == "dnsresp" {
			hit, fb = "alidns", "accept"
		}
		m, _, _, stage := e.compile(kind, c04One(a.name, a.key, a.val, hit), fb, nil)
		if stage != "" {
			e.atomM[ck] = nil
			return false, false
		}
		e.atomM[ck] = m
		mv = m
	}
	if mv == nil {
		return false, false
	}
	d := mv.(*c04Matcher).decide(p)
	switch kind {
	case "traffic":
		return d == "2.0.0", true
	default:
		return d == "0.0.0", true
	}
}

// ---------------------------------------------------------------- geodata

// What the generated .dat files contain, kept in memory: the expansion tables handed to the model
// are computed from THIS (the documented meaning of geosite:/geoip:/ext: references), not from the
// optimizer under test.
type c04SiteEntry struct {
	typ   geodata.Domain_Type
	val   string
	attrs []string
}

var (
	c04SiteTruth = map[string]map[string][]c04SiteEntry{} // file -> CODE -> entries
	c04IpTruth   = map[string]map[string][]string{}       // file -> CODE -> prefixes
)

func c04Remember(file string, msg proto.Message) {
	switch l := msg.(type) {
	case *geodata.GeoSiteList:
		c04SiteTruth[file] = map[string][]c04SiteEntry{}
		for _, e := range l.Entry {
			es := []c04SiteEntry{}
			for _, d := range e.Domain {
				var attrs []string
				for _, a := range d.Attribute {
					attrs = append(attrs, a.Key)
				}
				es = append(es, c04SiteEntry{d.Type, d.Value, attrs})
			}
			if _, dup := c04SiteTruth[file][strings.ToUpper(e.CountryCode)]; !dup { // the first entry of a code wins
				c04SiteTruth[file][strings.ToUpper(e.CountryCode)] = es
			}
		}
	case *geodata.GeoIPList:
		c04IpTruth[file] = map[string][]string{}
		for _, e := range l.Entry {
			ps := []string{}
			for _, c := range e.Cidr {
				a, _ := netip.AddrFromSlice(c.Ip)
				ps = append(ps, netip.PrefixFrom(a, int(c.Prefix)).String())
			}
			if e.InverseMatch {
				continue // "not support inverse match yet": a load error, like an unknown code
			}
			if _, dup := c04IpTruth[file][strings.ToUpper(e.CountryCode)]; !dup {
				c04IpTruth[file][strings.ToUpper(e.CountryCode)] = ps
			}
		}
	}
}

// the documented expansion of a reference: all entries of the (case-insensitive) code, for
// `code@attr` only those carrying the attribute; full/domain/plain/regex entries become
// full/suffix/keyword/regex values; CIDRs become plain values.
func c04ExpectedExpansion(kind, file, code string) ([]*c04Param, bool) {
	file = strings.TrimSuffix(file, ".dat")
	switch kind {
	case "site":
		code, attr, _ := strings.Cut(code, "@")
		es, ok := c04SiteTruth[file][strings.ToUpper(code)]
		if !ok {
			return nil, false
		}
		out := []*c04Param{}
		for _, e := range es {
			if attr != "" {
				hit := false
				for _, a := range e.attrs {
					if strings.EqualFold(a, attr) {
						hit = true
					}
				}
				if !hit {
					continue
				}
			}
			key := map[geodata.Domain_Type]string{geodata.Domain_Full: "full", geodata.Domain_RootDomain: "suffix", geodata.Domain_Plain: "keyword", geodata.Domain_Regex: "regex"}[e.typ]
			out = append(out, &c04Param{Key: key, Val: e.val})
		}
		return out, true
	case "ip":
		ps, ok := c04IpTruth[file][strings.ToUpper(code)]
		if !ok {
			return nil, false
		}
		out := []*c04Param{}
		for _, p := range ps {
			out = append(out, &c04Param{Val: p})
		}
		return out, true
	}
	return nil, false
}

func c04WriteGeo(dir string) error {
	dom := func(t geodata.Domain_Type, v string, attrs ...string) *geodata.Domain {
		d := &geodata.Domain{Type: t, Value: v}
		for _, a := range attrs {
			d.Attribute = append(d.Attribute, &geodata.Domain_Attribute{Key: a})
		}
		return d
	}
	site := &geodata.GeoSiteList{Entry: []*geodata.GeoSite{
		{CountryCode: "ONE", Domain: []*geodata.Domain{dom(geodata.Domain_Full, "a.com")}},
		{CountryCode: "MIX", Domain: []*geodata.Domain{
			dom(geodata.Domain_RootDomain, "a.com", "x"), dom(geodata.Domain_Plain, "goo"),
			dom(geodata.Domain_Regex, "^x\\..*$"), dom(geodata.Domain_Full, "b.a.com", "x", "y"), dom(geodata.Domain_RootDomain, "x.org")}},
		{CountryCode: "EMPTY"},
		{CountryCode: "ATTR", Domain: []*geodata.Domain{dom(geodata.Domain_RootDomain, "b.com", "x"), dom(geodata.Domain_Full, "c.com")}},
		{CountryCode: "DUP", Domain: []*geodata.Domain{dom(geodata.Domain_RootDomain, "a.com"), dom(geodata.Domain_RootDomain, "a.com"), dom(geodata.Domain_Plain, "goo")}},
		{CountryCode: "BOTH", Domain: []*geodata.Domain{dom(geodata.Domain_Full, "c.com")}},
		// attributes in a prefix relation: @ad, @ads, @ads-cn must each select exactly their own entries
		{CountryCode: "ADS", Domain: []*geodata.Domain{dom(geodata.Domain_Full, "a.com", "ad"), dom(geodata.Domain_RootDomain, "b.com", "ads"),
			dom(geodata.Domain_Plain, "goo", "ads-cn"), dom(geodata.Domain_Full, "x.org", "ads", "ad")}},
		// a code that has a later code as a proper prefix
		{CountryCode: "PRE2", Domain: []*geodata.Domain{dom(geodata.Domain_Full, "c.com")}},
		{CountryCode: "PRE", Domain: []*geodata.Domain{dom(geodata.Domain_RootDomain, "x.org")}},
		// the same code twice in one file: the first entry wins
		{CountryCode: "TWICE", Domain: []*geodata.Domain{dom(geodata.Domain_Full, "a.com")}},
		{CountryCode: "TWICE", Domain: []*geodata.Domain{dom(geodata.Domain_Full, "x.org")}},
	}}
	// two large categories (scale stream): overlapping, with exact duplicates
	big, big2 := &geodata.GeoSite{CountryCode: "BIG"}, &geodata.GeoSite{CountryCode: "BIG2"}
	for i := 0; i < 3000; i++ {
		big.Domain = append(big.Domain, dom(geodata.Domain_RootDomain, fmt.Sprintf("d%04d.big.example", i)))
		if i%500 == 0 {
			big.Domain = append(big.Domain, dom(geodata.Domain_RootDomain, fmt.Sprintf("d%04d.big.example", i)), dom(geodata.Domain_Full, fmt.Sprintf("d%04d.big.example", i)))
		}
	}
	for i := 2500; i < 4000; i++ {
		big2.Domain = append(big2.Domain, dom(geodata.Domain_RootDomain, fmt.Sprintf("d%04d.big.example", i)))
	}
	site.Entry = append(site.Entry, big, big2)
	// extra.dat reuses codes of geosite.dat with DIFFERENT content (a cache key that forgets the file would mix them)
	extra := &geodata.GeoSiteList{Entry: []*geodata.GeoSite{
		{CountryCode: "E1", Domain: []*geodata.Domain{dom(geodata.Domain_RootDomain, "x.org"), dom(geodata.Domain_Full, "www.a.com")}},
		{CountryCode: "E0"},
		{CountryCode: "MIX", Domain: []*geodata.Domain{dom(geodata.Domain_Full, "zzz.net")}},
		{CountryCode: "ONE", Domain: []*geodata.Domain{dom(geodata.Domain_RootDomain, "b.com")}},
		{CountryCode: "EMPTY", Domain: []*geodata.Domain{dom(geodata.Domain_Plain, "xyz")}},
	}}
	cidr := func(s string) *geodata.CIDR {
		p := netip.MustParsePrefix(s)
		return &geodata.CIDR{Ip: p.Addr().AsSlice(), Prefix: uint32(p.Bits())}
	}
	ip := &geodata.GeoIPList{Entry: []*geodata.GeoIP{
		{CountryCode: "V4", Cidr: []*geodata.CIDR{cidr("10.0.0.0/8"), cidr("1.1.1.0/24")}},
		{CountryCode: "V6", Cidr: []*geodata.CIDR{cidr("2001:db8::/32")}},
		{CountryCode: "MIXIP", Cidr: []*geodata.CIDR{cidr("fd00::/8"), cidr("192.168.0.0/16"), cidr("10.1.0.0/16")}},
		{CountryCode: "EMPTYIP"},
		{CountryCode: "BOTH", Cidr: []*geodata.CIDR{cidr("192.169.0.0/16")}}, // also a geosite code
		{CountryCode: "INV", InverseMatch: true, Cidr: []*geodata.CIDR{cidr("10.0.0.0/8")}},
	}}
	extraip := &geodata.GeoIPList{Entry: []*geodata.GeoIP{
		{CountryCode: "P1", Cidr: []*geodata.CIDR{cidr("1.1.1.1/32"), cidr("::1/128")}},
		{CountryCode: "V4", Cidr: []*geodata.CIDR{cidr("8.8.8.0/24")}}, // same code as in geoip.dat, other content
	}}
	// a file whose name differs from extra.dat in letter case only, with different content for the same codes
	extraUpper := &geodata.GeoSiteList{Entry: []*geodata.GeoSite{
		{CountryCode: "MIX", Domain: []*geodata.Domain{dom(geodata.Domain_Full, "goog.le")}},
		{CountryCode: "E1", Domain: []*geodata.Domain{dom(geodata.Domain_RootDomain, "b.com")}},
	}}
	for name, msg := range map[string]proto.Message{"geosite.dat": site, "extra.dat": extra, "Extra.dat": extraUpper, "geoip.dat": ip, "extraip.dat": extraip} {
		c04Remember(strings.TrimSuffix(name, ".dat"), msg)
		b, err := proto.Marshal(msg)
		if err != nil {
			return err
		}
		if err := os.WriteFile(filepath.Join(dir, name), b, 0o644); err != nil {
			return err
		}
	}
	return nil
}

// which geodata table entry a parameter refers to: geosite:/geoip: name the standard files, ext: names
// "file:code" and is a site list for domain/qname and an ip list for ip.
func c04GeoRef(fname string, p *c04Param) (kind, file, code string, isRef bool) {
	switch p.Key {
	case "geosite":
		return "site", "geosite", p.Val, true
	case "geoip":
		return "ip", "geoip", p.Val, true
	case "ext":
		f, c, ok := strings.Cut(p.Val, ":")
		if !ok {
			return "", "", "", false
		}
		switch fname {
		case "domain", "qname":
			return "site", f, c, true
		case "ip":
			return "ip", f, c, true
		}
		return "bad", f, c, true
	}
	return "", "", "", false
}

func c04SameParams(a, b []*c04Param) bool {
	if len(a) != len(b) {
		return false
	}
	for i := range a {
		if a[i].Key != b[i].Key || a[i].Val != b[i].Val {
			return false
		}
	}
	return true
}

func (e *c04Env) probeExpand(fname string, p *c04Param) ([]*c04Param, bool) {
	ck := fname + "\x00" + p.Key + "\x00" + p.Val
	if ok, seen := e.expOk[ck]; seen {
		return e.expand[ck], ok
	}
	rules := []*c04Rule{{AndFunctions: []*c04Func{{Name: fname, Params: []*c04Param{{Key: p.Key, Val: p.Val}}}}, Outbound: c04Func{Name: "proxy"}}}
	out, err := (&routing.DatReaderOptimizer{Logger: e.log, LocationFinder: e.lf}).Optimize(rules)
	if err != nil {
		e.expOk[ck] = false
		return nil, false
	}
	e.expand[ck] = out[0].AndFunctions[0].Params
	e.expOk[ck] = true
	return e.expand[ck], true
}

// ---------------------------------------------------------------- brute-force first match (independent of Lean)

func c04Spec(kind string, E []*c04Rule, truth map[c04Atom]bool, labels map[*c04Rule]string, fb string) string {
	must := false
	for _, r := range E {
		all := true
		for _, f := range r.AndFunctions {
			any := false
			for _, p := range f.Params {
				if truth[c04Atom{f.Name, p.Key, p.Val}] {
					any = true
				}
			}
			if any == f.Not {
				all = false
				break
			}
		}
		if !all {
			continue
		}
		l := labels[r]
		if l == "M" {
			must = true
			continue
		}
		return c04Dec(l, must)
	}
	return c04Dec(fb, must)
}

func c04Dec(label string, sticky bool) string {
	var id, mark, must int
	fmt.Sscanf(label, "F %d %d %d", &id, &mark, &must)
	if sticky {
		must = 1
	}
	return fmt.Sprintf("%d.%d.%d", id, mark, must)
}

// ---------------------------------------------------------------- generators

var (
	c04Suffix  = []string{"a.com", "b.a.com", "x.org", "com", "goo.net", "b.com"}
	c04Full    = []string{"a.com", "www.a.com", "x.org", "b.a.com", "c.com"}
	c04Keyword = []string{"goo", "a.c", "xyz", "org"}
	c04Regex   = []string{"^a\\..*$", "^.*\\.org$", "oo", "^x\\..*$"}
	c04Sites   = []string{"one", "mix", "empty", "attr", "attr@x", "attr@nosuch", "mix@x", "mix@y", "dup", "ONE", "both", "twice", "mix", "ads@ad", "ads@ads", "ads@ads-cn", "ads@AD", "ads", "pre", "pre2", "PRE"}
	c04ExtSite = []string{"extra:e1", "extra:e0", "extra.dat:E1", "extra:mix", "extra:one", "extra:empty", "extra:MIX", "Extra:mix", "Extra:e1", "Extra.dat:MIX", "extra:e1", "extra:mix"}
	c04Cidrs   = []string{"10.0.0.0/8", "10.1.0.0/16", "1.1.1.1", "1.1.1.0/24", "192.168.0.0/16", "2001:db8::/32", "::1", "fd00::/8", "0.0.0.0/0", "a:b::c", "b::c"}
	c04GeoIps  = []string{"v4", "v6", "mixip", "emptyip", "V4", "both"}
	c04ExtIp   = []string{"extraip:p1", "extraip:v4", "extraip:V4"}
	c04Ports   = []string{"80", "443", "1000-2000", "0-65535", "8080", "1-1023", "80-80", "2000"}
	c04Macs    = []string{"02:00:00:00:00:01", "02:00:00:00:00:02"}
	c04Pnames  = []string{"curl", "sshd", "verylongprocessname1234"}
	c04Dscps   = []string{"0", "8", "46", "0x2e"}
	c04Qtypes  = []string{"a", "aaaa", "cname", "28", "https", "A", "1"}
	c04Ups     = []string{"alidns", "googledns", "cf"}

	c04Groups = []string{"proxy", "direct", "block", "other", "proxy", "direct", "us_proxy", "my_group", "tunnel", "sg", "mustang", "_x"}

	c04Domains = []string{"", "a.com", "www.a.com", "b.a.com", "xa.com", "x.org", "goo.net", "goog.le", "c.com", "b.com", "x.b.com", "a.co", "x.a.org", "zzz.net", "d0000.big.example", "x.d2999.big.example", "h007.example", "www.h399.example", "d3999.big.example", "d4000.big.example"}
	c04Addrs   = []string{"10.0.0.1", "10.1.2.3", "10.2.77.9", "10.3.200.1", "11.0.0.0", "1.1.1.1", "1.1.1.2", "1.1.2.1", "192.168.1.1", "192.169.0.0", "192.169.3.4", "8.8.8.8", "8.8.9.8", "2001:db8::1", "2001:db9::1", "::1", "::2", "fd00::5", "fe00::5", "b::c", "a:b::c"}
	c04PortNum = []uint16{0, 1, 79, 80, 81, 443, 999, 1000, 1023, 1024, 2000, 2001, 8080, 65535}
)

func c04Pick(r *VRand, s []string) string { return s[r.Intn(len(s))] }

// one parameter for function `name` (user-level name, may be an alias).
func c04GenParam(r *VRand, kind, name string) *c04Param {
	if r.Chance(0.012) { // configuration-error classes of the dat stage / the builders (whole program fails)
		switch r.Intn(6) {
		case 0:
			if r.Bool() {
				return &c04Param{Key: "ext", Val: "nosuchfile:one"} // a file that does not exist: must be an error, not another file's list
			}
			return &c04Param{Key: "ext", Val: "nocolon"} // ext without ':code'
		case 1:
			if name != "domain" && name != "qname" && name != "dip" && name != "ip" {
				return &c04Param{Key: "ext", Val: "extra:e1"} // ext in a function that has no external lists
			}
		case 2:
			return &c04Param{Key: "geoip", Val: "inv"} // inverse-match list
		case 3:
			if name == "dip" || name == "ip" || name == "sip" || name == "dport" || name == "port" {
				return &c04Param{Key: "geosite", Val: "one"} // domain list in an address / port function
			}
		case 4:
			if name == "domain" || name == "qname" {
				return &c04Param{Key: "geoip", Val: "v4"} // address list in a domain function
			}
		case 5:
			if name == "qname" {
				return &c04Param{Key: "contains", Val: "goo"} // alias key where there is no alias stage
			}
		}
	}
	switch name {
	case "domain", "qname":
		k := r.Intn(100)
		aliasKeys := name == "domain" // DNS pipelines have no alias stage: qname needs canonical keys
		switch {
		case k < 22:
			if aliasKeys && r.Chance(0.5) {
				return &c04Param{Key: c04Pick(r, []string{"", "domain"}), Val: c04Pick(r, c04Suffix)}
			}
			return &c04Param{Key: "suffix", Val: c04Pick(r, c04Suffix)}
		case k < 40:
			return &c04Param{Key: "full", Val: c04Pick(r, c04Full)}
		case k < 58:
			if aliasKeys && r.Chance(0.5) {
				return &c04Param{Key: "contains", Val: c04Pick(r, c04Keyword)}
			}
			return &c04Param{Key: "keyword", Val: c04Pick(r, c04Keyword)}
		case k < 68:
			return &c04Param{Key: "regex", Val: c04Pick(r, c04Regex)}
		case k < 92:
			if r.Chance(0.03) {
				return &c04Param{Key: "geosite", Val: "nosuchcode"} // load error: the whole pipeline fails
			}
			return &c04Param{Key: "geosite", Val: c04Pick(r, c04Sites)}
		default:
			return &c04Param{Key: "ext", Val: c04Pick(r, c04ExtSite)}
		}
	case "dip", "ip", "sip":
		k := r.Intn(100)
		switch {
		case k < 65:
			return &c04Param{Key: "", Val: c04Pick(r, c04Cidrs)}
		case k < 90:
			return &c04Param{Key: "geoip", Val: c04Pick(r, c04GeoIps)}
		case k < 95 && name != "sip":
			return &c04Param{Key: "ext", Val: c04Pick(r, c04ExtIp)}
		default:
			return &c04Param{Key: c04Pick(r, []string{"a", "k"}), Val: c04Pick(r, c04Cidrs)} // a key on an ip value: its own key group
		}
	case "dport", "port", "sport":
		if r.Chance(0.05) {
			return &c04Param{Key: "k", Val: c04Pick(r, c04Ports)}
		}
		return &c04Param{Val: c04Pick(r, c04Ports)}
	case "l4proto":
		return &c04Param{Val: c04Pick(r, []string{"tcp", "udp", "tcp", "udp", "sctp"})} // unknown values are ignored by the mask
	case "ipversion":
		return &c04Param{Val: c04Pick(r, []string{"4", "6", "4", "6", "5"})}
	case "mac":
		return &c04Param{Val: c04Pick(r, c04Macs)}
	case "pname":
		return &c04Param{Val: c04Pick(r, c04Pnames)}
	case "dscp":
		return &c04Param{Val: c04Pick(r, c04Dscps)}
	case "qtype":
		return &c04Param{Val: c04Pick(r, c04Qtypes)}
	case "upstream":
		return &c04Param{Val: c04Pick(r, c04Ups)}
	}
	panic("c04GenParam: " + name)
}

func c04FuncNames(kind string) []string {
	switch kind {
	case "traffic":
		return []string{"domain", "domain", "dip", "ip", "sip", "dport", "port", "dport", "sport", "l4proto", "ipversion", "mac", "pname", "dscp"}
	case "dnsreq":
		return []string{"qname", "qname", "qtype"}
	default:
		return []string{"qname", "qtype", "ip", "upstream", "qname"}
	}
}

func c04GenFunc(r *VRand, kind, name string, neg bool) *c04Func {
	f := &c04Func{Name: name, Not: neg}
	n := 1 + r.Intn(3)
	if r.Chance(0.15) {
		n = 4 + r.Intn(4)
	}
	for i := 0; i < n; i++ {
		p := c04GenParam(r, kind, name)
		f.Params = append(f.Params, p)
		if r.Chance(0.2) { // exact repeat (what dedup removes)
			f.Params = append(f.Params, &c04Param{Key: p.Key, Val: p.Val})
		}
	}
	return f
}

func c04GenOutbound(r *VRand, kind string) c04Func {
	switch kind {
	case "traffic":
		o := c04Func{Name: c04Pick(r, c04Groups)}
		if r.Chance(0.06) {
			return c04Func{Name: "must_rules"}
		}
		if r.Chance(0.15) { // the must_ shorthand, also on group names that begin with m/u/s/t/_
			return c04Func{Name: "must_" + o.Name}
		}
		if r.Chance(0.04) { // more than five parameters (Function.String prints only five)
			o.Params = []*c04Param{{Val: "must"}, {Val: "must"}, {Val: "must"}, {Val: "must"}, {Val: "must"}, {Key: "mark", Val: c04Pick(r, []string{"1", "2"})}}
			return o
		}
		switch r.Intn(10) {
		case 0:
			o.Params = []*c04Param{{Val: "must"}}
		case 1:
			o.Params = []*c04Param{{Key: "mark", Val: c04Pick(r, []string{"1", "2", "0x10"})}}
		case 2:
			o.Params = []*c04Param{{Val: "must"}, {Key: "mark", Val: c04Pick(r, []string{"1", "2"})}}
		case 3:
			o.Params = []*c04Param{{Key: "mark", Val: c04Pick(r, []string{"1", "2"})}, {Val: "must"}}
		}
		return o
	case "dnsreq":
		o := c04Func{Name: c04Pick(r, []string{"alidns", "googledns", "cf", "asis", "reject"})}
		if r.Chance(0.1) { // parameters are parsed and ignored by the DNS builders, but they make outbounds differ
			o.Params = []*c04Param{{Key: "mark", Val: c04Pick(r, []string{"1", "2"})}}
		}
		return o
	default:
		o := c04Func{Name: c04Pick(r, []string{"alidns", "googledns", "cf", "accept", "reject"})}
		if r.Chance(0.1) {
			o.Params = []*c04Param{{Key: "mark", Val: c04Pick(r, []string{"1", "2"})}}
		}
		return o
	}
}

// near-miss of an outbound: structurally different (so it must NOT be merged).
func c04Vary(r *VRand, kind string, o c04Func) c04Func {
	if kind != "traffic" {
		n := c04Func{Name: o.Name}
		if len(o.Params) == 0 {
			n.Params = []*c04Param{{Key: "mark", Val: "3"}} // same upstream, written differently
		}
		return n
	}
	if o.Name == "must_rules" {
		return c04GenOutbound(r, kind)
	}
	n := c04Func{Name: o.Name}
	if len(o.Params) == 6 { // differ in the sixth parameter only
		n = c04CloneOut(o)
		n.Params[5].Val = c04Pick(r, []string{"3", "4"})
		return n
	}
	switch r.Intn(4) {
	case 0: // differ only in the mark
		n.Params = []*c04Param{{Key: "mark", Val: c04Pick(r, []string{"3", "4"})}}
	case 1: // must added
		n.Params = append([]*c04Param{{Val: "must"}}, o.Params...)
	case 2: // six parameters, differing in the sixth only (Function.String would print them alike)
		n.Params = []*c04Param{{Val: "must"}, {Val: "must"}, {Val: "must"}, {Val: "must"}, {Val: "must"}, {Key: "mark", Val: c04Pick(r, []string{"1", "2", "3"})}}
	default:
		return c04GenOutbound(r, kind)
	}
	return n
}

func c04CloneOut(o c04Func) c04Func {
	n := c04Func{Name: o.Name, Not: o.Not}
	for _, p := range o.Params {
		n.Params = append(n.Params, &c04Param{Key: p.Key, Val: p.Val})
	}
	return n
}

// neighbour-heavy rule lists: runs of 1..5 rules sharing function name (or its alias), negation and
// (mostly) outbound.
func c04GenProg(r *VRand, kind string, st *VStats) []*c04Rule {
	var rules []*c04Rule
	names := c04FuncNames(kind)
	nRuns := 1 + r.Intn(4)
	for run := 0; run < nRuns; run++ {
		name := c04Pick(r, names)
		neg := r.Chance(0.2)
		out := c04GenOutbound(r, kind)
		runLen := 1 + r.Intn(5)
		if r.Chance(0.3) {
			runLen = 1
		}
		for i := 0; i < runLen; i++ {
			rule := &c04Rule{}
			n := name
			if kind == "traffic" && r.Chance(0.3) { // alias twin: dport/port, dip/ip
				switch name {
				case "dport":
					n = "port"
				case "port":
					n = "dport"
				case "dip":
					n = "ip"
				case "ip":
					n = "dip"
				}
			}
			ng := neg
			if r.Chance(0.1) {
				ng = !ng
			}
			rule.AndFunctions = append(rule.AndFunctions, c04GenFunc(r, kind, n, ng))
			if r.Chance(0.25) { // multi-function rule (never merged; its functions get sorted)
				k := 1 + r.Intn(2)
				for j := 0; j < k; j++ {
					rule.AndFunctions = append(rule.AndFunctions, c04GenFunc(r, kind, c04Pick(r, names), r.Chance(0.25)))
				}
				if r.Chance(0.5) { // put the run's function last so sorting moves it
					fs := rule.AndFunctions
					fs[0], fs[len(fs)-1] = fs[len(fs)-1], fs[0]
				}
			}
			rule.Outbound = c04CloneOut(out)
			if r.Chance(0.15) {
				rule.Outbound = c04Vary(r, kind, out)
				st.Inc("gen.outbound_nearmiss")
			}
			rules = append(rules, rule)
		}
	}
	return rules
}

// scale: 100-250 rules, runs of 30-60 neighbours sharing function and outbound, values from a large
// space (so that merged functions carry hundreds of values), now and then a 3000-entry category.
func c04GenBigProg(r *VRand, kind string) []*c04Rule {
	n := 100 + r.Intn(151)
	var rules []*c04Rule
	nBigRefs := 0
	for len(rules) < n {
		var name string
		switch kind {
		case "traffic":
			name = c04Pick(r, []string{"domain", "dip", "sip", "domain"})
		case "dnsreq":
			name = "qname"
		default:
			name = c04Pick(r, []string{"qname", "ip"})
		}
		out := c04GenOutbound(r, kind)
		if out.Name == "must_rules" {
			out = c04Func{Name: "proxy"}
		}
		neg := r.Chance(0.1)
		runLen := 30 + r.Intn(31)
		for i := 0; i < runLen && len(rules) < n; i++ {
			f := &c04Func{Name: name, Not: neg}
			k := 1 + r.Intn(3)
			for j := 0; j < k; j++ {
				switch name {
				case "domain", "qname":
					switch {
					case nBigRefs < 3 && r.Chance(0.03):
						nBigRefs++
						f.Params = append(f.Params, &c04Param{Key: "geosite", Val: c04Pick(r, []string{"big", "big2"})})
					case r.Chance(0.5):
						f.Params = append(f.Params, &c04Param{Key: "suffix", Val: fmt.Sprintf("d%04d.big.example", r.Intn(4200))})
					default:
						f.Params = append(f.Params, &c04Param{Key: c04Pick(r, []string{"full", "keyword", "suffix"}), Val: fmt.Sprintf("h%03d.example", r.Intn(400))})
					}
				default:
					f.Params = append(f.Params, &c04Param{Val: fmt.Sprintf("10.%d.%d.0/24", r.Intn(4), r.Intn(256))})
				}
			}
			rule := &c04Rule{AndFunctions: []*c04Func{f}, Outbound: c04CloneOut(out)}
			if r.Chance(0.05) { // break the run
				rule.Outbound = c04Vary(r, kind, out)
			}
			rules = append(rules, rule)
		}
	}
	return rules
}

// Two different address sets whose canonical lists hash alike under hashLpmSet (the hash runs over an
// undelimited stream of (prefix length, address bytes): {v4, v6} and {v6, v4} cut from the same 22 bytes;
// construction as in the C12 harness) used alternately by ip/sip rules: drives the collision branch of
// addIp/addSourceIp.  Returns the rules, packets aimed at the four prefixes, and whether the pair collides.
func c04GenCollisionProg(r *VRand) ([]*c04Rule, []*c04Packet, bool) {
	var b [22]byte
	for i := range b {
		b[i] = byte(r.U64())
	}
	b[0] = byte(r.Intn(32))
	b[17] = b[0] + 1 + byte(r.Intn(int(32-b[0])))
	b[5] = b[0] + byte(r.Intn(int(129-int(b[0]))))
	var a4, b4 [4]byte
	var a16, b16 [16]byte
	copy(a4[:], b[1:5])
	copy(a16[:], b[6:22])
	copy(b16[:], b[1:17])
	copy(b4[:], b[18:22])
	A := []netip.Prefix{netip.PrefixFrom(netip.AddrFrom4(a4), int(b[0])), netip.PrefixFrom(netip.AddrFrom16(a16), int(b[5]))}
	B := []netip.Prefix{netip.PrefixFrom(netip.AddrFrom16(b16), int(b[0])), netip.PrefixFrom(netip.AddrFrom4(b4), int(b[17]))}
	collide := hashLpmSet(canonicalizePrefixes(A)) == hashLpmSet(canonicalizePrefixes(B)) && !prefixesEqual(canonicalizePrefixes(A), canonicalizePrefixes(B))
	mk := func(name string, set []netip.Prefix, neg bool, out string, extra ...*c04Func) *c04Rule {
		f := &c04Func{Name: name, Not: neg}
		for _, p := range set {
			f.Params = append(f.Params, &c04Param{Val: p.String()})
		}
		return &c04Rule{AndFunctions: append([]*c04Func{f}, extra...), Outbound: c04Func{Name: out}}
	}
	port := func(v string) *c04Func { return &c04Func{Name: "dport", Params: []*c04Param{{Val: v}}} }
	rules := []*c04Rule{
		mk("dip", A, false, "proxy", port("80")),
		mk("sip", B, false, "block", port("443")),
		mk("dip", B, false, "other", port("8080")),
		mk("sip", A, r.Chance(0.3), "us_proxy", port("80")),
		mk("dip", []netip.Prefix{B[1], B[0]}, false, "my_group"),
		mk("dip", A, false, "tunnel"),
	}
	var pkts []*c04Packet
	addrs := []netip.Addr{netip.AddrFrom4(a4), netip.AddrFrom4(b4), netip.AddrFrom16(a16), netip.AddrFrom16(b16), netip.MustParseAddr("9.9.9.9")}
	for _, d := range addrs {
		for _, sa := range []netip.Addr{addrs[r.Intn(len(addrs))], addrs[4]} {
			for _, dp := range []uint16{80, 443, 8080, 81} {
				pkts = append(pkts, &c04Packet{src: sa, dst: d, sport: 1000, dport: dp, l4: consts.L4ProtoType_TCP, mac: [6]byte{2, 0, 0, 0, 0, 1}, qname: "a.com", qtype: 1})
			}
		}
	}
	return rules, pkts, collide
}

// long lists (worker pool of DatReaderOptimizer, result placement by index): n rules, most of them with a
// geodata reference, short runs so that many rules survive merging.
func c04GenLongProg(r *VRand, kind string, n int) []*c04Rule {
	var rules []*c04Rule
	for len(rules) < n {
		var f *c04Func
		switch kind {
		case "traffic":
			switch r.Intn(3) {
			case 0:
				f = &c04Func{Name: "domain", Params: []*c04Param{{Key: "geosite", Val: c04Pick(r, []string{"one", "mix", "attr@x", "dup", "twice", "both"})}, {Key: "suffix", Val: fmt.Sprintf("h%03d.example", r.Intn(400))}}}
			case 1:
				f = &c04Func{Name: "dip", Params: []*c04Param{{Key: "geoip", Val: c04Pick(r, []string{"v4", "v6", "mixip", "both"})}, {Val: fmt.Sprintf("10.%d.%d.0/24", r.Intn(4), r.Intn(256))}}}
			default:
				f = &c04Func{Name: "domain", Params: []*c04Param{{Key: "ext", Val: c04Pick(r, []string{"extra:e1", "extra:mix", "extra:one"})}, {Key: "full", Val: fmt.Sprintf("h%03d.example", r.Intn(400))}}}
			}
		default:
			f = &c04Func{Name: "qname", Params: []*c04Param{{Key: "geosite", Val: c04Pick(r, []string{"one", "mix", "attr@x", "dup", "twice"})}, {Key: "suffix", Val: fmt.Sprintf("h%03d.example", r.Intn(400))}}}
		}
		f.Not = r.Chance(0.3) // negated rules are never merged: the list stays long
		out := c04GenOutbound(r, kind)
		if out.Name == "must_rules" {
			out = c04Func{Name: "proxy"}
		}
		rules = append(rules, &c04Rule{AndFunctions: []*c04Func{f}, Outbound: out})
	}
	return rules
}

func c04GenPacket(r *VRand, kind string) *c04Packet {
	p := &c04Packet{}
	p.dst = netip.MustParseAddr(c04Pick(r, c04Addrs))
	p.src = netip.MustParseAddr(c04Pick(r, c04Addrs))
	p.dport = c04PortNum[r.Intn(len(c04PortNum))]
	p.sport = c04PortNum[r.Intn(len(c04PortNum))]
	p.l4 = consts.L4ProtoType_TCP
	if r.Bool() {
		p.l4 = consts.L4ProtoType_UDP
	}
	p.domain = c04Pick(r, c04Domains)
	p.pname = c04Pick(r, []string{"", "curl", "sshd", "verylongprocessn", "bash"})
	p.dscp = []uint8{0, 8, 46, 1}[r.Intn(4)]
	p.mac = [][6]byte{{2, 0, 0, 0, 0, 1}, {2, 0, 0, 0, 0, 2}, {2, 0, 0, 0, 0, 3}}[r.Intn(3)]
	p.qname = c04Pick(r, c04Domains[1:])
	if kind == "dnsreq" && r.Chance(0.05) {
		p.qname = ""
	}
	p.qtype = []uint16{1, 28, 5, 65, 16}[r.Intn(5)]
	n := r.Intn(3)
	for i := 0; i < n; i++ {
		p.ips = append(p.ips, netip.MustParseAddr(c04Pick(r, c04Addrs)))
	}
	p.upstream = []uint8{0, 1, 2, uint8(consts.DnsRequestOutboundIndex_AsIs)}[r.Intn(4)]
	return p
}

// ---------------------------------------------------------------- one program → ops

type c04Descr struct {
	Kind    string   `json:"kind"`
	Backend string   `json:"backend,omitempty"`
	Tag     string   `json:"tag,omitempty"`
	Text    []string `json:"text,omitempty"`
	Fb      string   `json:"fallback,omitempty"`
	Merged  int      `json:"merged,omitempty"`
	Deduped int      `json:"deduped,omitempty"`
	Changed bool     `json:"changed,omitempty"`
	Pkt     string   `json:"pkt,omitempty"`
}

type c04Out struct {
	st    *VStream
	descr *os.File
}

func (o *c04Out) emit(op, impl string, d c04Descr) {
	o.st.Emit(op, impl)
	b, _ := json.Marshal(d)
	o.descr.Write(append(b, '\n'))
}

func c04CountParams(rules []*c04Rule) int {
	n := 0
	for _, r := range rules {
		for _, f := range r.AndFunctions {
			n += len(f.Params)
		}
	}
	return n
}

func (e *c04Env) runProgram(o *c04Out, r *VRand, kind, tag string, rules []*c04Rule, fb string, packets []*c04Packet, nRandomPackets int) {
	st := e.stats
	backend, cat, alias := "scan", "dns", "0"
	switch kind {
	case "traffic":
		alias = "1"
	case "dnsreq":
		backend = "scansplit"
	}
	// Traffic rules reach the call site through the configuration loader: the rules as written are
	// rendered as a config file and go through the REAL config_parser.Parse + config.New (which
	// rewrites the must_ shorthand on rule outbounds and on the fallback).  `written` is what the model
	// gets; `rules` / `fbFOS` is what production would hand to NewNormalizedProgram.
	written := rules
	fbFOS := config.FunctionOrString(fb)
	if kind == "traffic" {
		real, realFb, ok := e.throughConfig(written, fb)
		if !ok {
			st.Inc("traffic.config_roundtrip_failed")
			return
		}
		st.Inc("traffic.rules_through_real_config.New")
		rules, fbFOS = real, realFb
		for _, w := range written {
			if strings.HasPrefix(w.Outbound.Name, "must_") && w.Outbound.Name != "must_rules" {
				st.Inc("gen.must_shorthand_outbounds")
			}
		}
		if strings.HasPrefix(fb, "must_") {
			st.Inc("gen.must_shorthand_fallbacks")
		}
	}
	fbFunc, err := config.ParseFunctionOrString(fbFOS)
	if err != nil {
		panic("bad fallback " + fb)
	}
	fbLabel, ok := e.label(kind, fbFunc)
	if !ok {
		panic("bad fallback " + fb)
	}
	// labels of every outbound (real ParseOutbound); a program with an outbound the real code rejects
	// is not interesting here (both sides fail to build): skip it.
	var labelToks []string
	seenOut := map[string]bool{}
	for _, rule := range rules {
		l, ok := e.label(kind, &rule.Outbound)
		if !ok {
			st.Inc(kind + ".skipped_bad_outbound")
			return
		}
		var sb strings.Builder
		c04SerFunc(&sb, &rule.Outbound)
		if !seenOut[sb.String()] {
			seenOut[sb.String()] = true
			labelToks = append(labelToks, sb.String()+" "+l)
		}
	}
	{
		var sb strings.Builder
		c04SerFunc(&sb, fbFunc)
		if !seenOut[sb.String()] {
			seenOut[sb.String()] = true
			labelToks = append(labelToks, sb.String()+" "+fbLabel)
		}
	}
	// geodata references → table entries (content from the real DatReaderOptimizer)
	var geoToks []string
	seenGeo := map[string]bool{}
	geoRefs := 0
	// fault position: which rules hold a reference whose load fails (the whole list must then be refused, wherever
	// the failing reference sits and whatever the other workers are doing meanwhile), which hold one that loads
	failRule, okRule := map[int]bool{}, map[int]bool{}
	for ri, rule := range rules {
		for _, f := range rule.AndFunctions {
			fname := f.Name
			if kind == "traffic" {
				switch fname {
				case "dport":
					fname = "port"
				case "dip":
					fname = "ip"
				}
			}
			for _, p := range f.Params {
				gk, file, code, isRef := c04GeoRef(fname, p)
				if p.Key == "ext" && (!isRef || gk == "bad") {
					failRule[ri] = true
				}
				if !isRef || gk == "bad" {
					continue
				}
				if _, lok := c04ExpectedExpansion(gk, file, code); lok {
					okRule[ri] = true
				} else {
					failRule[ri] = true
				}
				id := gk + " " + c04Tok(file) + " " + c04Tok(code)
				geoRefs++
				if seenGeo[id] {
					continue
				}
				seenGeo[id] = true
				ps, ok := c04ExpectedExpansion(gk, file, code)
				if rp, rok := e.probeExpand(fname, p); (rok == ok && (!ok || c04SameParams(rp, ps))) || (ok && len(ps) == 0 && !rok) {
					// (an expansion to nothing is an error of the real dat stage, an empty list in the table)
					st.Inc("geodata.real_expansion_equals_documented")
				} else {
					st.Inc("geodata.real_expansion_DIFFERS_from_documented")
				}
				if !ok {
					geoToks = append(geoToks, id+" !")
					st.Inc("gen.geodata_load_error")
					continue
				}
				var sb strings.Builder
				fmt.Fprintf(&sb, "%s %d", id, len(ps))
				for _, q := range ps {
					sb.WriteString(" " + c04Tok(q.Key) + " " + c04Tok(q.Val))
				}
				geoToks = append(geoToks, sb.String())
				if len(ps) == 0 {
					st.Inc("gen.geodata_empty_expansion")
				}
			}
		}
	}
	// the program as expanded by the real alias + dat stages: atoms and the brute-force spec
	E, errE := routing.ApplyRulesOptimizers(rules, e.expandOnly(kind)...)
	var atoms []c04Atom
	if errE == nil {
		seen := map[c04Atom]bool{}
		for _, rule := range E {
			for _, f := range rule.AndFunctions {
				for _, p := range f.Params {
					a := c04Atom{f.Name, p.Key, p.Val}
					if !seen[a] {
						seen[a] = true
						atoms = append(atoms, a)
					}
				}
			}
		}
	}
	var atomToks []string
	for _, a := range atoms {
		atomToks = append(atomToks, c04Tok(a.name)+" "+c04Tok(a.key)+" "+c04Tok(a.val))
	}
	// real pipeline + real builder
	m, normalised, split, stage := e.compile(kind, rules, fbFOS, e.optimizers(kind))
	opt := "err"
	if stage != "opt" {
		opt = c04SerProg(normalised)
	}
	// DNS kinds: the matcher that decides is the one the production constructor dns.New builds
	if kind != "traffic" && e.dnsNew {
		pm, usable := e.dnsProduction(kind, rules, fb)
		if usable {
			m = pm
			st.Inc(kind + ".matcher_from_real_dns.New")
		} else {
			e.dnsNew = false
			st.Inc("dns.New_NOT_usable_fell_back_to_builders")
		}
	}
	// the program after alias/dat only, compiled by the real builder as well (direct differential)
	mRaw, _, _, _ := e.compile(kind, rules, fbFOS, e.expandOnly(kind))
	d := c04Descr{Kind: "P", Backend: kind, Tag: tag, Text: c04Text(rules), Fb: fb}
	if stage != "opt" {
		d.Merged = len(rules) - len(normalised)
		if errE == nil {
			d.Deduped = c04CountParams(E) - c04CountParams(normalised)
			d.Changed = c04SerProg(E) != opt
		}
	}
	var fbw strings.Builder
	c04SerFunc(&fbw, &c04Func{Name: fb})
	op := fmt.Sprintf("P %s %s %s G %d %s L %d %s FB %s FBW %s MX %d A %d %s GN 0 %s", backend, cat, alias,
		len(geoToks), strings.Join(geoToks, " "), len(labelToks), strings.Join(labelToks, " "),
		strings.TrimPrefix(fbLabel, "F "), fbw.String(), consts.MaxMatchSetLen, len(atoms), strings.Join(atomToks, " "), c04SerProg(written))
	op = strings.Join(strings.Fields(op), " ")
	d.Text = c04Text(written)
	o.emit(op, "opt="+opt+" split="+split+" fb="+c04Dec(fbLabel, false), d)
	// A DatReaderOptimizer that has already served other rule lists (its cache filled by that HISTORY): the program as
	// the long-lived real instance normalises it, against the model optimizer that carries its own cache
	// (`datOptC`) through the same history.  Both must equal what a fresh optimizer produces.
	if (tag == "gen" && r.Chance(0.25)) || tag == "fault-history" {
		shared := "err"
		if got, err := routing.ApplyRulesOptimizers(rules, e.sharedChain(kind)...); err == nil {
			shared = c04SerProg(got)
		} else {
			st.Inc("sharedcache.programs_ending_in_an_error")
		}
		if shared != opt && tag == "fault-history" {
			st.Inc("sharedcache.fault_history.stale_entry_served_after_the_file_is_gone")
		} else if shared != opt {
			st.Inc("sharedcache.result_DIFFERS_from_fresh_optimizer")
		}
		o.emit(fmt.Sprintf("sharedcache %d", st.C["sharedcache.checks"]), "opt="+shared+" split=-", c04Descr{Kind: "shared", Backend: kind, Text: c04Text(written), Fb: fb})
		st.Inc("sharedcache.checks")
		// which cache keys this history has seen under which spelling (code in another letter case, file with
		// and without .dat): a hit on an entry stored under a different spelling is the interesting case
		for id := range seenGeo {
			f := strings.Fields(id)
			key := f[0] + " " + strings.TrimSuffix(f[1], ".dat") + ".dat:" + strings.ToLower(f[2])
			if first, ok := e.sharedFirst[key]; !ok {
				e.sharedFirst[key] = id // (stored only if the load succeeds; an approximation good enough for a counter)
			} else if first == id {
				st.Inc("sharedcache.hit_on_entry_stored_under_the_same_spelling")
			} else {
				st.Inc("sharedcache.hit_on_entry_stored_under_another_spelling")
			}
		}
	}
	if len(failRule) > 0 && tag == "gen" {
		first, last, later := len(rules), -1, false
		for i := range failRule {
			if i < first {
				first = i
			}
			if i > last {
				last = i
			}
		}
		for i := range okRule {
			if i > first {
				later = true
			}
		}
		switch {
		case len(rules) == 1:
			st.Inc("fault.load_error_in_the_only_rule")
		case first == 0:
			st.Inc("fault.load_error_in_the_first_rule")
		case first == len(rules)-1:
			st.Inc("fault.load_error_in_the_last_rule")
		default:
			st.Inc("fault.load_error_in_a_middle_rule")
		}
		if later {
			st.Inc("fault.load_error_with_loadable_references_in_later_rules")
		}
		if opt != "err" {
			st.Inc("fault.load_error_but_real_pipeline_SUCCEEDED")
		}
	}
	// within ONE rule list (production: one fresh optimizer per list, its workers sharing the cache): references
	// with the same cache key, spelled alike or differently
	{
		spell := map[string]map[string]bool{}
		for id := range seenGeo {
			f := strings.Fields(id)
			key := f[0] + " " + strings.TrimSuffix(f[1], ".dat") + ".dat:" + strings.ToLower(f[2])
			if spell[key] == nil {
				spell[key] = map[string]bool{}
			}
			spell[key][id] = true
		}
		for _, v := range spell {
			if len(v) > 1 {
				st.Inc("gen.one_list_same_cache_key_in_two_spellings")
				break
			}
		}
		if geoRefs > len(seenGeo) {
			st.Inc("gen.one_list_same_reference_twice")
		}
	}
	st.Inc(kind + ".programs")
	if tag == "gen" {
		st.Add(kind+".rules", len(rules))
		if d.Merged > 0 {
			st.Inc(kind + ".programs_with_merge")
		}
		if d.Deduped > 0 {
			st.Inc(kind + ".programs_with_dedup")
		}
		if d.Changed {
			st.Inc(kind + ".programs_changed_by_normalisation")
		}
		// adjacent negated singleton pair with same name and outbound: the class of fix 89b7b19
		for i := 0; i+1 < len(rules); i++ {
			a, b := rules[i], rules[i+1]
			if len(a.AndFunctions) == 1 && len(b.AndFunctions) == 1 && a.AndFunctions[0].Not && b.AndFunctions[0].Not &&
				c04SerProg([]*c04Rule{{Outbound: a.Outbound}}) == c04SerProg([]*c04Rule{{Outbound: b.Outbound}}) {
				st.Inc(kind + ".programs_with_negated_neighbours")
				break
			}
		}
	}
	switch stage {
	case "opt":
		st.Inc(kind + ".stage_opt_error")
		return
	case "split":
		st.Inc(kind + ".stage_split_error")
	case "build":
		st.Inc(kind + ".stage_build_error")
	}
	if errE != nil {
		return
	}
	labels := map[*c04Rule]string{}
	for _, rule := range E {
		l, _ := e.label(kind, &rule.Outbound)
		labels[rule] = l
	}
	if tag == "scale" || tag == "long" {
		e.prepareBulk(atoms)
	}
	pkts := append([]*c04Packet(nil), packets...)
	for i := 0; i < nRandomPackets; i++ {
		pkts = append(pkts, c04GenPacket(r, kind))
	}
	for _, p := range pkts {
		truth := map[c04Atom]bool{}
		bits := make([]byte, len(atoms))
		bad := false
		for i, a := range atoms {
			t, ok := e.truth(kind, a, p)
			if !ok {
				bad = true
				break
			}
			truth[a] = t
			bits[i] = '0'
			if t {
				bits[i] = '1'
			}
		}
		if bad {
			st.Inc(kind + ".skipped_atom_build_error")
			return
		}
		bs := string(bits)
		if bs == "" {
			bs = "-"
		}
		dec := "err"
		if m != nil {
			dec = m.decide(p)
		}
		raw := "err"
		if mRaw != nil {
			raw = mRaw.decide(p)
		}
		spec := c04Spec(kind, E, truth, labels, fbLabel)
		o.emit("q "+bs+" -", "dec="+dec+" spec="+spec+" raw="+raw, c04Descr{Kind: "q", Pkt: p.String(kind)})
		st.Inc(kind + ".evaluations")
		if dec == "err" {
			st.Inc(kind + ".decision.build_error")
		} else if dec == c04Dec(fbLabel, false) || dec == c04Dec(fbLabel, true) {
			st.Inc(kind + ".decision.fallback_or_same_as_fallback")
		} else {
			st.Inc(kind + ".decision.rule")
		}
	}
}

// ---------------------------------------------------------------- witnesses (replayed first, always)

func c04Parse(t *testing.T, body string) []*c04Rule {
	secs, err := config_parser.Parse("routing {\n" + body + "\n}\n")
	if err != nil {
		t.Fatalf("witness does not parse: %q: %v", body, err)
	}
	var rules []*c04Rule
	for _, s := range secs {
		for _, it := range s.Items {
			if r, ok := it.Value.(*c04Rule); ok {
				rules = append(rules, r)
			}
		}
	}
	return rules
}

func c04Pkt(dst string, dport uint16, domain string) *c04Packet {
	return &c04Packet{src: netip.MustParseAddr("192.168.1.1"), dst: netip.MustParseAddr(dst), sport: 1000, dport: dport,
		l4: consts.L4ProtoType_TCP, domain: domain, mac: [6]byte{2, 0, 0, 0, 0, 1}, qname: domain, qtype: 1}
}

type c04Witness struct {
	kind, tag, body, fb string
	pkts                []*c04Packet
}

func c04Witnesses() []c04Witness {
	tp := []*c04Packet{c04Pkt("2.2.2.2", 80, "a.com"), c04Pkt("2.2.2.2", 443, "a.com"), c04Pkt("1.1.1.1", 81, "x.com"), c04Pkt("1.1.1.1", 80, ""), c04Pkt("b::c", 80, ""), c04Pkt("a:b::c", 443, "")}
	q := func(name string, qt uint16) *c04Packet {
		return &c04Packet{qname: name, qtype: qt, ips: []netip.Addr{netip.MustParseAddr("1.1.1.1")}, dst: netip.MustParseAddr("1.1.1.1"), src: netip.MustParseAddr("1.1.1.1")}
	}
	qp := []*c04Packet{q("a.com", 1), q("a.com", 28), q("x.org", 5), q("zzz.net", 1)}
	return []c04Witness{
		// fix 89b7b19: negated neighbours must not be merged
		{"traffic", "c04-merge-negated", "!dport(80) -> proxy\n!dport(443) -> proxy\ndport(80) -> direct", "block", tp},
		{"dnsreq", "c04-merge-negated", "!qtype(a) -> alidns\n!qtype(aaaa) -> alidns\nqtype(a) -> googledns", "asis", qp},
		{"dnsresp", "c04-merge-negated", "!qtype(a) -> alidns\n!qtype(aaaa) -> alidns\nqtype(a) -> reject", "accept", qp},
		// fix 7a61f47: a function left without parameters is a build error
		{"traffic", "c04-empty-geodata-expansion", "dport(80) && domain(geosite:empty) -> proxy\ndip(1.1.1.1) -> block", "direct", tp},
		{"traffic", "c04-empty-geodata-expansion", "!domain(geosite:empty) -> proxy\ndip(1.1.1.1) -> block", "direct", tp},
		{"traffic", "c04-empty-geodata-expansion", "dport(80) && domain(geosite:attr@nosuch) -> proxy\ndip(1.1.1.1) -> block", "direct", tp},
		{"traffic", "c04-empty-geodata-expansion", "domain(suffix: a.com) && dip(geoip:emptyip) -> proxy\ndport(80) -> block", "direct", tp},
		{"dnsreq", "c04-empty-geodata-expansion", "qtype(a) && qname(geosite:empty) -> alidns\nqtype(aaaa) -> googledns", "asis", qp},
		{"dnsresp", "c04-empty-geodata-expansion", "qname(geosite:empty) && qtype(a) -> reject\nip(1.1.1.1) -> alidns", "accept", qp},
		// fix aac4d7a: outbounds are compared structurally
		{"traffic", "c04-outbound-key-truncated", "dport(80) -> proxy(must, must, must, must, must, mark: 1)\ndport(443) -> proxy(must, must, must, must, must, mark: 2)", "direct", tp},
		// fix fd3d399: dedup keys on the (key, value) pair
		{"traffic", "c04-dedup-key-collision", "dip('a:b::c', a: 'b::c') -> proxy", "direct", tp},
		// fix c4a0556: an expansion to nothing is a configuration error already at the dat stage
		{"traffic", "c04-selector-empty-expansion-catchall", "domain(geosite:empty) -> proxy\ndomain(suffix: a.com) -> proxy", "direct", tp},
		{"dnsreq", "c04-selector-empty-expansion-catchall", "qname(geosite:attr@nosuch, geosite:empty) -> alidns", "asis", qp},
		// the empty rule list
		{"traffic", "empty-rule-list", "", "proxy", tp},
		{"dnsreq", "empty-rule-list", "", "alidns", qp},
		{"dnsresp", "empty-rule-list", "", "reject", qp},
		// geodata codes that exist in two files / as two kinds with different content
		{"traffic", "geodata-colliding-codes", "domain(geosite:mix, ext:'extra:mix') -> proxy\ndomain(ext:'extra:one') && dip(geoip:both) -> block\ndomain(geosite:both, geosite:twice) -> other\ndip(geoip:v4, ext:'extraip:v4') -> block", "direct",
			append(append([]*c04Packet{}, tp...), c04Pkt("8.8.8.8", 80, "zzz.net"), c04Pkt("192.169.3.4", 80, "x.b.com"), c04Pkt("10.0.0.1", 80, "c.com"), c04Pkt("2.2.2.2", 80, "x.org"))},
		// behaviour that must stay: merging of plain neighbours, alias twins, geodata + literal duplicates
		{"traffic", "keep-merge", "dport(80) -> proxy\nport(443, 80) -> proxy\ndport(8080) -> direct", "block", tp},
		{"traffic", "keep-dedup", "domain(geosite:dup, suffix: a.com, a.com, keyword: goo) && dport(80, 80) -> proxy", "direct", tp},
		{"traffic", "keep-must-rules", "dport(80) -> must_rules\ndport(80) -> must_rules\ndomain(a.com) -> proxy", "direct", tp},
	}
}

// ---------------------------------------------------------------- test entry

func TestVerifC04(t *testing.T) {
	r := NewVRand(VSeed())
	stats := NewVStats()
	st := VOpenStream("c04")
	descr, err := os.Create(filepath.Join(VOutDir(), "c04.descr"))
	if err != nil {
		t.Fatal(err)
	}
	out := &c04Out{st: st, descr: descr}
	defer func() { st.Close(); descr.Close(); stats.Write("c04") }()

	geoDir := filepath.Join(VOutDir(), "c04geo")
	if err := os.MkdirAll(geoDir, 0o755); err != nil {
		t.Fatal(err)
	}
	if err := c04WriteGeo(geoDir); err != nil {
		t.Fatal(err)
	}
	os.Unsetenv("DAE_LOCATION_ASSET")
	log := logrus.New()
	log.SetLevel(logrus.PanicLevel)
	env := &c04Env{
		log:         log,
		lf:          assets.NewLocationFinder([]string{geoDir}),
		traffic:     map[string]uint8{"direct": uint8(consts.OutboundDirect), "block": uint8(consts.OutboundBlock), "proxy": 2, "other": 3, "us_proxy": 4, "my_group": 5, "tunnel": 6, "sg": 7, "mustang": 8, "_x": 9},
		upstream:    map[string]uint8{"alidns": 0, "googledns": 1, "cf": 2},
		expand:      map[string][]*c04Param{},
		expOk:       map[string]bool{},
		atomM:       map[string]any{},
		stats:       stats,
		bulk:        map[c04Atom]c04BulkRef{},
		sharedFirst: map[string]string{},
	}

	// the production call sites: optimizer lists (the harness runs the stages in THAT order), options,
	// glue.  DNS request/response decisions additionally come from the real dns.New.
	sites := map[string]c04Site{
		"traffic": c04ReadSite("control/control_plane.go", "NewNormalizedProgram", "NewRoutingMatcherBuilderFromProgram"),
		"dnsreq":  c04ReadSite("component/dns/dns.go", "NewNormalizedRequestRoutingProgram", ""),
		"dnsresp": c04ReadSite("component/dns/dns.go", "NewNormalizedProgram", ""),
	}
	env.stages = map[string][]string{}
	env.dnsNew = true
	for _, k := range []string{"traffic", "dnsreq", "dnsresp"} {
		env.stages[k] = c04UsableStages(sites[k].names, k)
		out.emit("pipeline "+k+" "+c04Tok(strings.Join(sites[k].names, ",")), sites[k].String(),
			c04Descr{Kind: "pipeline", Backend: k, Text: sites[k].names})
	}

	// the parser guarantees the model's input assumption: no function without parameters, no rule
	// without a function
	for _, bad := range []string{"dport() -> proxy", "-> proxy", "sub() -> alidns"} {
		if _, err := config_parser.Parse("routing {\n" + bad + "\n}\n"); err == nil {
			out.emit("parser-accepts "+strings.ReplaceAll(bad, " ", "_"), "unexpected", c04Descr{Kind: "x", Text: []string{bad}})
		} else {
			stats.Inc("parser.rejects_empty_forms")
		}
	}

	for _, w := range c04Witnesses() {
		env.runProgram(out, r, w.kind, w.tag, c04Parse(t, w.body), w.fb, w.pkts, 4)
	}

	// scale stream: long rule lists with long mergeable runs and two large geosite categories
	nBig := map[string]int{"traffic": 3, "dnsreq": 1, "dnsresp": 1}
	if VThorough() {
		nBig = map[string]int{"traffic": 12, "dnsreq": 5, "dnsresp": 5}
	}
	for _, kind := range []string{"traffic", "dnsreq", "dnsresp"} {
		fb := map[string]string{"traffic": "direct", "dnsreq": "asis", "dnsresp": "accept"}[kind]
		for i := 0; i < nBig[kind]; i++ {
			rules := c04GenBigProg(r, kind)
			stats.Add("scale.rules", len(rules))
			env.runProgram(out, r, kind, "scale", rules, fb, nil, 3)
		}
	}

	// fix 299ec77: the geodata cache keeps the file name as written.  Deterministic witness: ONE optimizer
	// instance first expands ext:'Extra:mix', then ext:'extra:mix' (another file, other content).
	{
		a := c04Parse(t, "domain(ext:'Extra:mix') -> proxy")
		b := c04Parse(t, "domain(ext:'extra:mix') -> proxy")
		chain := env.sharedChain("traffic")
		_, _ = routing.ApplyRulesOptimizers(a, chain...)
		got, err1 := routing.ApplyRulesOptimizers(b, chain...)
		want, err2 := routing.ApplyRulesOptimizers(b, env.optimizers("traffic")...)
		same := "differs"
		if err1 == nil && err2 == nil && c04SerProg(got) == c04SerProg(want) {
			same = "same"
		}
		out.emit("sharedcache witness", "shared="+same, c04Descr{Kind: "shared", Backend: "traffic", Tag: "c04-geodata-cache-key-folds-file-name",
			Text: []string{"domain(ext:'Extra:mix') -> proxy  (expanded first by the same optimizer instance)", "domain(ext:'extra:mix') -> proxy"}})
	}

	// constructed FNV collisions of two different address sets
	nColl := 12
	if VThorough() {
		nColl = 120
	}
	for i := 0; i < nColl; i++ {
		rules, pkts, collide := c04GenCollisionProg(r)
		if collide {
			stats.Inc("lpm.constructed_hash_collisions")
		}
		env.runProgram(out, r, "traffic", "lpm-collision", rules, "direct", pkts, 2)
	}
	// long lists: DatReaderOptimizer's worker pool on 300-1000 rules with geodata references
	longs := []struct {
		kind string
		n    int
	}{{"traffic", 330}}
	if VThorough() {
		longs = nil
		for _, k := range []string{"traffic", "dnsreq", "dnsresp"} {
			for _, n := range []int{300, 513, 777, 1000} {
				longs = append(longs, struct {
					kind string
					n    int
				}{k, n + r.Intn(7)})
			}
		}
	}
	for _, l := range longs {
		fb := map[string]string{"traffic": "direct", "dnsreq": "asis", "dnsresp": "accept"}[l.kind]
		rules := c04GenLongProg(r, l.kind, l.n)
		stats.Add("long.rules", len(rules))
		stats.Inc("long.programs")
		env.runProgram(out, r, l.kind, "long", rules, fb, nil, 3)
	}

	nProg := map[string]int{"traffic": 700, "dnsreq": 300, "dnsresp": 300}
	nPkt := 8
	if VThorough() {
		nProg = map[string]int{"traffic": 9000, "dnsreq": 3500, "dnsresp": 3500}
		nPkt = 12
	}
	kinds := []string{"traffic", "dnsreq", "dnsresp"}
	for _, kind := range kinds {
		fbs := map[string][]string{"traffic": {"direct", "block", "proxy", "must_proxy", "us_proxy", "must_us_proxy", "must_tunnel", "must_my_group"}, "dnsreq": {"asis", "alidns", "reject"}, "dnsresp": {"accept", "reject", "googledns"}}[kind]
		for i := 0; i < nProg[kind]; i++ {
			rules := c04GenProg(r, kind, stats)
			env.runProgram(out, r, kind, "gen", rules, c04Pick(r, fbs), nil, nPkt)
			if i < 2 {
				stats.Sample(kind + ": " + strings.Join(c04Text(rules), " ; "))
			}
		}
	}
	// Fault history of ONE long-lived optimizer (the shared instance of the stream above, its cache full by now):
	//  1. ext:'late:one' while late.dat does not exist            -> error, and the error must not be remembered
	//  2. the file appears                                          -> the same rule list now loads
	//  3. the file disappears again                                 -> a fresh optimizer fails, the long-lived one
	//                                                                  still serves its entry (exactly what `datOptC` predicts)
	{
		prog := func() []*c04Rule {
			return c04Parse(t, "domain(ext:'late:one', suffix: zzz.net) -> proxy\ndomain(geosite:mix) && dport(80) -> block")
		}
		late := filepath.Join(geoDir, "late.dat")
		forget := func() {
			for k := range env.expOk {
				if strings.Contains(k, "late:") {
					delete(env.expOk, k)
					delete(env.expand, k)
				}
			}
		}
		pk := []*c04Packet{c04Pkt("2.2.2.2", 80, "b.com"), c04Pkt("2.2.2.2", 80, "zzz.net"), c04Pkt("2.2.2.2", 80, "a.com")}
		env.runProgram(out, r, "traffic", "fault-history", prog(), "direct", pk, 0)
		lateList := &geodata.GeoSiteList{Entry: []*geodata.GeoSite{{CountryCode: "ONE", Domain: []*geodata.Domain{{Type: geodata.Domain_RootDomain, Value: "b.com"}}}}}
		b, err := proto.Marshal(lateList)
		if err != nil {
			t.Fatal(err)
		}
		if err := os.WriteFile(late, b, 0o644); err != nil {
			t.Fatal(err)
		}
		c04Remember("late", lateList)
		forget()
		env.runProgram(out, r, "traffic", "fault-history", prog(), "direct", pk, 0)
		os.Remove(late)
		delete(c04SiteTruth, "late")
		forget()
		env.runProgram(out, r, "traffic", "fault-history", prog(), "direct", pk, 0)
		stats.Inc("sharedcache.fault_history.runs")
	}
	stats.Add("ops", st.N)
}
