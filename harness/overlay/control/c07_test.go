package control

// C07 correspondence harness, controller level: the REAL dae config parser, the REAL dns.New
// (production optimizer chain), the REAL DnsController (HandleWithResponseWriter_ → singleflight
// → handleWithResponseWriter_ → dialSend → ResponseSelect → cache) with fake upstream forwarders
// (dnsForwarderFactory is a package variable) and a capturing response writer — against the Lean
// model driver c07drv (`cfg` / `ask` lines, see lean/DaeVerif/C07/Main.lean).
//
// Observed per client message: which upstream got a query, in order; the reply (answer records
// and rcode) or the error class; the response-cache keys and contents afterwards.

import (
	"context"
	"encoding/hex"
	"errors"
	"fmt"
	"net"
	"net/netip"
	"net/url"
	"sort"
	"strings"
	"sync"
	"testing"
	"time"

	"github.com/daeuniverse/dae/common/consts"
	"github.com/daeuniverse/dae/common/netutils"
	componentdns "github.com/daeuniverse/dae/component/dns"
	dnsmessage "github.com/miekg/dns"
	"github.com/sirupsen/logrus"
)

type c07Writer struct {
	mu  sync.Mutex
	msg *dnsmessage.Msg
}

func (w *c07Writer) LocalAddr() net.Addr       { return nil }
func (w *c07Writer) RemoteAddr() net.Addr      { return nil }
func (w *c07Writer) TsigStatus() error         { return nil }
func (w *c07Writer) TsigTimersOnly(bool)       {}
func (w *c07Writer) Hijack()                   {}
func (w *c07Writer) Close() error              { return nil }
func (w *c07Writer) Write([]byte) (int, error) { return 0, nil }
func (w *c07Writer) WriteMsg(msg *dnsmessage.Msg) error {
	w.mu.Lock()
	defer w.mu.Unlock()
	w.msg = msg.Copy()
	return nil
}

// one record of a fake answer
type c07Rec struct {
	kind string // "A", "AAAA", "O"
	addr netip.Addr
}

func (r c07Rec) tok() string {
	switch r.kind {
	case "A0":
		return "A0"
	case "A":
		b := r.addr.As4()
		return "A:" + hex.EncodeToString(b[:])
	case "AAAA":
		b := r.addr.As16()
		return "AAAA:" + hex.EncodeToString(b[:])
	}
	return "O"
}

func c07RecsTok(l []c07Rec) string {
	if len(l) == 0 {
		return "-"
	}
	var t []string
	for _, r := range l {
		t = append(t, r.tok())
	}
	return strings.Join(t, "+")
}

func c07RRs(name string, recs []c07Rec) []dnsmessage.RR { return c07RRsTTL(name, recs, 300) }

func c07RRsTTL(name string, recs []c07Rec, ttl uint32) []dnsmessage.RR {
	var rrs []dnsmessage.RR
	owner := dnsmessage.CanonicalName(name)
	for _, r := range recs {
		switch r.kind {
		case "A0": // an A record without address bytes (rdlength 0)
			rrs = append(rrs, &dnsmessage.A{Hdr: dnsmessage.RR_Header{Name: owner, Rrtype: dnsmessage.TypeA, Class: dnsmessage.ClassINET, Ttl: ttl}})
		case "A":
			b := r.addr.As4()
			rrs = append(rrs, &dnsmessage.A{Hdr: dnsmessage.RR_Header{Name: owner, Rrtype: dnsmessage.TypeA, Class: dnsmessage.ClassINET, Ttl: ttl}, A: net.IP(b[:])})
		case "AAAA":
			b := r.addr.As16()
			rrs = append(rrs, &dnsmessage.AAAA{Hdr: dnsmessage.RR_Header{Name: owner, Rrtype: dnsmessage.TypeAAAA, Class: dnsmessage.ClassINET, Ttl: ttl}, AAAA: net.IP(b[:])})
		default:
			rrs = append(rrs, &dnsmessage.CNAME{Hdr: dnsmessage.RR_Header{Name: owner, Rrtype: dnsmessage.TypeCNAME, Class: dnsmessage.ClassINET, Ttl: ttl}, Target: "alias.test."})
		}
	}
	return rrs
}

func c07RecsOfRRs(rrs []dnsmessage.RR) string {
	var l []c07Rec
	for _, rr := range rrs {
		switch b := rr.(type) {
		case *dnsmessage.A:
			if len(b.A) == 0 {
				l = append(l, c07Rec{kind: "A0"})
				continue
			}
			a, _ := netip.AddrFromSlice(b.A.To4())
			l = append(l, c07Rec{"A", a})
		case *dnsmessage.AAAA:
			a, _ := netip.AddrFromSlice(b.AAAA.To16())
			l = append(l, c07Rec{"AAAA", netip.AddrFrom16(a.As16())})
		default:
			l = append(l, c07Rec{kind: "O"})
		}
	}
	return c07RecsTok(l)
}

// fake upstream answer
type c07Ans struct {
	fail     bool
	notResp  bool     // message without the response bit
	servfail bool     // rcode SERVFAIL
	qv       string   // question section: E echo, U upper-cased echo, N none, D a different name, T another type, C class CH
	recs     []c07Rec // ANSWER section
	ns       []c07Rec // AUTHORITY section (never routed)
	extra    []c07Rec // ADDITIONAL section (glue; never routed)
	ttl0     bool     // answer records carry TTL 0: stored already expired
}

func (a c07Ans) tok() string {
	if a.fail {
		return "F"
	}
	fl := "r"
	if a.notResp {
		fl = "q"
	}
	if a.servfail {
		fl += "e"
	} else {
		fl += "s"
	}
	if a.ttl0 {
		fl += "z"
	}
	return fl + "/" + a.qv + "/" + c07RecsTok(a.recs) + "/" + c07RecsTok(a.ns) + "/" + c07RecsTok(a.extra)
}

// one level of the behaviour table: the EFFECTIVE answer of the upstream at that recursion level and,
// for a tcp+udp upstream, whether the first (UDP) attempt fails so that the answer arrives through the
// same-request TCP fallback of forwardWithFallback.
type c07Level struct {
	eff      c07Ans
	udpFails bool
}

// the behaviour table of the current `ask` and what the fake forwarders record
type c07Cur struct {
	mu          sync.Mutex
	table       map[string]c07Level // "<depth>.<up>"  (up = "a" for whatever as-is resolver)
	trace       []string            // identity (bound at creation) of the forwarder that carried each level's query
	expect      *dnsmessage.Question
	fwdDiffers  bool // some forwarded query did not carry the client's question
	fallbackUse int
	// pair mode: two clients in flight at once; every forward waits until both have arrived (or 3 s)
	prefMode bool
	prefRecs func(qt uint16) []c07Rec
	pair     bool
	arrivals int
	release  chan struct{}
	pairRecs []c07Rec
	// gate mode: several clients in flight at once, each upstream answers every level alike; traces per question name
	gateMode  bool
	gateAns   map[string]c07Ans
	gateTrace map[string][]string
}

var c07Current *c07Cur

type c07Fwd struct {
	up       string // u<k> | a<d> | ?...
	fallback bool   // created for the TCP copy of a tcp+udp upstream
}

func (f *c07Fwd) Close() error { return nil }
func (f *c07Fwd) ForwardDNS(ctx context.Context, data []byte) (*dnsmessage.Msg, error) {
	cur := c07Current
	var q dnsmessage.Msg
	uerr := q.Unpack(data)
	if cur.prefMode {
		if uerr != nil || len(q.Question) != 1 {
			return nil, errC07Forward
		}
		m := new(dnsmessage.Msg)
		m.SetReply(&q)
		m.Answer = c07RRs(q.Question[0].Name, cur.prefRecs(q.Question[0].Qtype))
		return m, nil
	}
	if cur.gateMode {
		if uerr != nil || len(q.Question) != 1 {
			return nil, errC07Forward
		}
		name := q.Question[0].Name
		cur.mu.Lock()
		cur.gateTrace[name] = append(cur.gateTrace[name], f.up)
		a, ok := cur.gateAns[f.up]
		cur.mu.Unlock()
		if !ok || a.fail {
			return nil, errC07Forward
		}
		m := new(dnsmessage.Msg)
		m.SetReply(&q)
		m.Answer = c07RRs(name, a.recs)
		return m, nil
	}
	if cur.pair {
		cur.mu.Lock()
		cur.trace = append(cur.trace, f.up)
		cur.arrivals++
		if cur.arrivals == 2 {
			close(cur.release)
		}
		cur.mu.Unlock()
		select {
		case <-cur.release:
		case <-time.After(3 * time.Second): // the other client never arrived: the two were coalesced
		}
		if uerr != nil {
			return nil, errC07Forward
		}
		m := new(dnsmessage.Msg)
		m.SetReply(&q)
		m.Answer = c07RRs(q.Question[0].Name, cur.pairRecs)
		return m, nil
	}
	cur.mu.Lock()
	var depth int
	if f.fallback {
		depth = len(cur.trace) - 1 // second attempt of the same level
		cur.fallbackUse++
	} else {
		depth = len(cur.trace)
		cur.trace = append(cur.trace, f.up)
	}
	key := f.up
	if strings.HasPrefix(key, "a") {
		key = "a"
	}
	lv, ok := cur.table[fmt.Sprintf("%d.%s", depth, key)]
	// the question sent upstream must be the client's (name bytes, type, class)
	if uerr == nil {
		switch {
		case cur.expect == nil && len(q.Question) != 0:
			cur.fwdDiffers = true
		case cur.expect != nil && (len(q.Question) != 1 || q.Question[0] != *cur.expect):
			cur.fwdDiffers = true
		}
	}
	cur.mu.Unlock()
	if uerr != nil {
		return nil, fmt.Errorf("c07 fake upstream: cannot unpack the query: %w", uerr)
	}
	if !ok || lv.eff.fail || (lv.udpFails && !f.fallback) {
		return nil, errC07Forward
	}
	a := lv.eff
	m := new(dnsmessage.Msg)
	m.SetReply(&q)
	name := ""
	if len(q.Question) > 0 {
		name = q.Question[0].Name
	}
	if len(m.Question) > 0 {
		switch a.qv {
		case "U":
			m.Question[0].Name = strings.ToUpper(m.Question[0].Name)
		case "D":
			m.Question[0].Name = "evil.test."
		case "T":
			m.Question[0].Qtype++
		case "C": // another class than asked
			if m.Question[0].Qclass == dnsmessage.ClassCHAOS {
				m.Question[0].Qclass = dnsmessage.ClassINET
			} else {
				m.Question[0].Qclass = dnsmessage.ClassCHAOS
			}
		}
	}
	if a.qv == "N" {
		m.Question = nil
	}
	if a.notResp {
		m.Response = false
	}
	if a.servfail {
		m.Rcode = dnsmessage.RcodeServerFailure
	}
	ttl := uint32(300)
	if a.ttl0 {
		ttl = 0
	}
	m.Answer = c07RRsTTL(name, a.recs, ttl)
	m.Ns = c07RRs(name, a.ns)
	m.Extra = c07RRs(name, a.extra)
	return m, nil
}

var errC07Forward = fmt.Errorf("c07 fake upstream: forward failed")

// The upstreams of the current configuration: URL text, the *Upstream the real code derives from
// it (for cache keys) and the identity token u<k>.  Several upstreams may share scheme, address and
// port and differ only in path or host name.
type c07UpDef struct {
	url string
	up  *componentdns.Upstream
}

var c07Ups []c07UpDef

// identity of a forwarder, BOUND AT CREATION (dnsForwarderFactory) from upstream.String().
// The as-is resolver is the client's own destination 9.9.9.<d>: identity a<d>.  The TCP copy that
// forwardWithFallback's second attempt at a tcp+udp upstream is recognised in the factory by its TCP dial argument.
func c07Ident(upstreamString string) (string, bool) {
	for k, d := range c07Ups {
		if d.up != nil && d.up.String() == upstreamString {
			return fmt.Sprintf("u%d", k), false
		}
	}
	if strings.HasPrefix(upstreamString, "udp://9.9.9.") {
		return "a" + strings.TrimSuffix(strings.TrimPrefix(upstreamString, "udp://9.9.9."), ":53"), false
	}
	return "?" + upstreamString, false
}

var c07HostIPs = map[string]string{}

// upstream sets: some fully distinct, some sharing scheme + ip:port and differing only in the URL
// path (https / h3) or only in the host name (tls / quic / udp / tcp through the bootstrap resolver).
func c07GenUpstreams(r *VRand, nUp int, stats *VStats) []string {
	var urls []string
	type group struct {
		scheme string
		ip     string
		n      int
	}
	var groups []group
	for k := 0; k < nUp; k++ {
		if len(groups) > 0 && r.Chance(0.55) {
			g := &groups[r.Intn(len(groups))]
			g.n++
			switch g.scheme {
			case "https", "h3":
				if r.Bool() {
					urls = append(urls, fmt.Sprintf("%s://%s/profile-%d", g.scheme, g.ip, k))
					stats.Inc("upstream.shares-address.differs-in-path")
				} else {
					h := fmt.Sprintf("doh%d.test", k)
					c07HostIPs[h] = g.ip
					urls = append(urls, fmt.Sprintf("%s://%s/dns-query", g.scheme, h))
					stats.Inc("upstream.shares-address.differs-in-hostname")
				}
			default:
				h := fmt.Sprintf("res%d.test", k)
				c07HostIPs[h] = g.ip
				urls = append(urls, fmt.Sprintf("%s://%s", g.scheme, h))
				stats.Inc("upstream.shares-address.differs-in-hostname")
			}
			continue
		}
		if r.Chance(0.07) {
			// a host name the bootstrap resolver cannot resolve: GetUpstream fails whenever this upstream is selected
			urls = append(urls, fmt.Sprintf("tls://dead%d.invalid", k))
			stats.Inc("upstream.does-not-resolve")
			continue
		}
		scheme := []string{"udp", "tcp+udp", "https", "https", "tls", "h3", "quic", "tcp", "tcp+udp", "udp"}[r.Intn(10)]
		ip := fmt.Sprintf("192.0.2.%d", len(groups)+1)
		groups = append(groups, group{scheme, ip, 1})
		if (scheme == "https" || scheme == "h3") && r.Bool() {
			urls = append(urls, fmt.Sprintf("%s://%s/profile-%d", scheme, ip, k))
		} else {
			urls = append(urls, fmt.Sprintf("%s://%s", scheme, ip))
		}
		stats.Inc("upstream.own-address")
	}
	return urls
}

func c07ResolveHost(ctx context.Context, host string, network string) (*netutils.Ip46, error, error) {
	ip, ok := c07HostIPs[host]
	if !ok {
		return nil, fmt.Errorf("c07: unknown host %v", host), fmt.Errorf("c07: unknown host %v", host)
	}
	return &netutils.Ip46{Ip4: netip.MustParseAddr(ip)}, nil, fmt.Errorf("no AAAA")
}

func c07MakeUpDefs(urls []string) ([]c07UpDef, error) {
	var defs []c07UpDef
	for _, raw := range urls {
		u, err := url.Parse(raw)
		if err != nil {
			return nil, err
		}
		up, err := componentdns.NewUpstream(context.Background(), u, "udp", c07ResolveHost)
		if err != nil {
			up = nil // a host that does not resolve: GetUpstream fails for this upstream
		}
		defs = append(defs, c07UpDef{raw, up})
	}
	return defs, nil
}

// DIAGNOSTIC classification of an error (printed after " | ", never a violation by itself: the
// property does not speak about error texts).  Sentinels where the code has them, substrings otherwise.
func c07ErrClass(err error) string {
	s := err.Error()
	switch {
	case errors.Is(err, ErrDNSResponseQuestionMismatch):
		return "questionmismatch"
	case errors.Is(err, errC07Forward):
		return "forwardfail"
	case strings.Contains(s, "failed to init dns upstream"):
		return "upstreaminit"
	case strings.Contains(s, "too deep DNS lookup"):
		return "toodeep"
	case strings.Contains(s, "DNS request expected"):
		return "notrequest"
	case strings.Contains(s, "DNS response expected"):
		return "notresponse"
	case strings.Contains(s, "bad upstream index"):
		return "badupstream"
	case strings.Contains(s, "qName cannot be empty"), strings.Contains(s, "no match set hit"):
		return "routefail"
	}
	return "other"
}

// "a.com.1|upstream@udp://10.0.0.2:53" → "a.com./1/u1" (the name may itself contain `|`)
func c07KeyTok(key string) string {
	cut := -1
	for _, sep := range []string{"|upstream@", "|asis@"} {
		if i := strings.LastIndex(key, sep); i > cut {
			cut = i
		}
	}
	if cut < 0 {
		return "?" + key
	}
	base, scope := key[:cut], key[cut+1:]
	i := strings.LastIndexByte(base, '.')
	name, qt := base[:i+1], base[i+1:]
	sc := "?" + scope
	switch {
	case strings.HasPrefix(scope, "upstream@"):
		sc, _ = c07Ident(strings.TrimPrefix(scope, "upstream@"))
	case strings.HasPrefix(scope, "asis@9.9.9."):
		sc = "a" + strings.TrimSuffix(strings.TrimPrefix(scope, "asis@9.9.9."), ":53")
	}
	return name + "/" + qt + "/" + sc
}

func c07DumpCache(c *DnsController) string {
	var l []string
	c.dnsCache.Range(func(k, v any) bool {
		cache := v.(*DnsCache)
		l = append(l, c07KeyTok(k.(string))+"="+c07RecsOfRRs(cache.Answer))
		return true
	})
	sort.Strings(l)
	return strings.Join(l, ";")
}

func c07NewController(t *testing.T, routing *componentdns.Dns, optimistic bool, prefer ...int) *DnsController {
	ctrl, err := NewDnsController(routing, c07CtrlOption(optimistic, prefer...))
	if err != nil {
		t.Fatalf("NewDnsController: %v", err)
	}
	return ctrl
}

func c07CtrlOption(optimistic bool, prefer ...int) *DnsControllerOption {
	log := c07Quiet()
	ipPrefer := 0
	if len(prefer) > 0 {
		ipPrefer = prefer[0]
	}
	return &DnsControllerOption{
		IpVersionPrefer:     ipPrefer,
		OptimisticCache:     optimistic,
		OptimisticCacheTtl:  60,
		Log:                 log,
		LifecycleContext:    context.Background(),
		CacheAccessCallback: func(*DnsCache) error { return nil },
		CacheRemoveCallback: func(*DnsCache) error { return nil },
		NewCache: func(fqdn string, answers, ns, extra []dnsmessage.RR, deadline, originalDeadline time.Time) (*DnsCache, error) {
			return &DnsCache{Answer: answers, NS: ns, Extra: extra, Deadline: deadline, OriginalDeadline: originalDeadline}, nil
		},
		BestDialerChooser: func(ctx context.Context, req *udpRequest, upstream *componentdns.Upstream) (*dialArgument, error) {
			ip := upstream.Ip4
			if !ip.IsValid() {
				ip = upstream.Ip6
			}
			l4 := consts.L4ProtoStr_UDP
			if upstream.Scheme == componentdns.UpstreamScheme_TCP {
				l4 = consts.L4ProtoStr_TCP // also the TCP copy forwardWithFallback makes of a tcp+udp upstream
			}
			return &dialArgument{l4proto: l4, ipversion: consts.IpVersionStr_4, bestTarget: netip.AddrPortFrom(ip, upstream.Port)}, nil
		},
	}
}

// the query types for which cacheKey has a pre-computed string (white-box), with their neighbours
var c07KeyTypes = func() []uint16 {
	var l []uint16
	for t := range qtypeStrCache {
		l = append(l, t, t+1, t-1)
	}
	sort.Slice(l, func(i, j int) bool { return l[i] < l[j] })
	return l
}()

type c07Stale struct {
	key string
	e   *DnsCache
}

// response rule lists that make answers bounce between upstreams
func c07BouncyResp(r *VRand, nUp int, stats *VStats) []c07Rule {
	var rules []c07Rule
	n := r.Range(1, 4)
	for i := 0; i < n; i++ {
		var f c07Func
		switch r.Intn(4) {
		case 0, 1:
			f = c07Func{name: "upstream", params: []c07Param{{"", fmt.Sprintf("u%d", r.Intn(nUp)), ""}}}
			f.params[0].op = f.params[0].val
		case 2:
			p := c07Prefixes[r.Intn(len(c07Prefixes))]
			f = c07Func{name: "ip", not: r.Chance(0.3), params: []c07Param{{"", p, c07PfxOp(p)}}}
		default:
			f = c07Func{name: "upstream", params: []c07Param{{"", "reject", "reject"}}} // = answered by as-is
		}
		rules = append(rules, c07Rule{funcs: []c07Func{f}, out: fmt.Sprintf("u%d", r.Intn(nUp))})
	}
	stats.Inc("cfg.bouncy-response-rules")
	return rules
}

func c07GenRecs(r *VRand, stats *VStats) []c07Rec {
	var recs []c07Rec
	for _, ip := range c07Ips(r, stats) {
		if ip.Is4() {
			recs = append(recs, c07Rec{"A", ip})
		} else {
			recs = append(recs, c07Rec{"AAAA", ip})
		}
	}
	if r.Chance(0.3) {
		i := r.Intn(len(recs) + 1)
		recs = append(recs[:i], append([]c07Rec{{kind: "O"}}, recs[i:]...)...)
	}
	if r.Chance(0.04) {
		i := r.Intn(len(recs) + 1)
		recs = append(recs[:i], append([]c07Rec{{kind: "A0"}}, recs[i:]...)...) // an A record without address
		stats.Inc("answer.a-record-without-address")
	}
	return recs
}

func c07GenAns(r *VRand, stats *VStats) c07Ans {
	var a c07Ans
	if r.Chance(0.08) {
		a.fail = true
		return a
	}
	a.qv = "E"
	switch r.Intn(24) {
	case 0, 1:
		a.qv = "U"
	case 2:
		a.qv = "N"
	case 3:
		a.qv = "D"
	case 4:
		a.qv = "T"
	case 5:
		a.qv = "C"
	}
	a.notResp = r.Chance(0.03)
	a.servfail = r.Chance(0.08)
	a.recs = c07GenRecs(r, stats)
	// glue / authority records: addresses a response rule must NOT see
	if r.Chance(0.3) {
		a.extra = c07GenRecs(r, stats)
		stats.Inc("answer.additional-section-filled")
	}
	if r.Chance(0.15) {
		a.ns = c07GenRecs(r, stats)
		stats.Inc("answer.authority-section-filled")
	}
	return a
}

func TestVerifC07Controller(t *testing.T) {
	r := NewVRand(VSeed() + 7)
	stats := NewVStats()
	st := VOpenStream("c07c")
	defer st.Close()

	originalFactory := dnsForwarderFactory
	defer func() { dnsForwarderFactory = originalFactory }()
	dnsForwarderFactory = func(upstream *componentdns.Upstream, dialArg dialArgument, _ *logrus.Logger) (DnsForwarder, error) {
		stats.Inc("forwarder.created")
		id, _ := c07Ident(upstream.String())
		// ... and it includes the ADDRESS ACTUALLY DIALLED (the chooser derives it from upstream.Ip46 as the
		// production chooser does): an as-is forwarder is named after the resolver it dials, a configured
		// upstream dialled at another address than its own is marked.
		if strings.HasPrefix(id, "a") {
			if t := dialArg.bestTarget.String(); strings.HasPrefix(t, "9.9.9.") && strings.HasSuffix(t, ":53") {
				id = "a" + strings.TrimSuffix(strings.TrimPrefix(t, "9.9.9."), ":53")
			} else {
				id = "a@" + t
			}
		} else if strings.HasPrefix(id, "u") {
			for k, d := range c07Ups {
				if d.up != nil && fmt.Sprintf("u%d", k) == id {
					want := d.up.Ip4
					if !want.IsValid() {
						want = d.up.Ip6
					}
					if dialArg.bestTarget != netip.AddrPortFrom(want, d.up.Port) {
						id += "@" + dialArg.bestTarget.String()
					}
				}
			}
		}
		fb := upstream.Scheme == componentdns.UpstreamScheme_TCP_UDP && dialArg.l4proto == consts.L4ProtoStr_TCP
		return &c07Fwd{up: id, fallback: fb}, nil // identity bound NOW, not when called
	}

	// the production UDP path (Handle_ with a nil response writer, replies re-injected with sendPkt from the
	// client's destination): pooled "any-from" sockets registered for 9.9.9.<d>:53 are really bound to
	// loopback, the client is a loopback socket.
	oldPool := DefaultAnyfromPool
	DefaultAnyfromPool = &AnyfromPool{}
	for i := range DefaultAnyfromPool.shards {
		DefaultAnyfromPool.shards[i].pool = make(map[netip.AddrPort]*Anyfrom, 4)
	}
	defer func() { DefaultAnyfromPool = oldPool }()
	listen := func() *net.UDPConn {
		c, err := net.ListenUDP("udp4", &net.UDPAddr{IP: net.IPv4(127, 0, 0, 1), Port: 0})
		if err != nil {
			fmt.Println("C07-ENVIRONMENT: loopback UDP sockets are not available (" + err.Error() + "); the nil-writer path cannot be exercised")
			t.Fatalf("loopback socket: %v", err)
		}
		return c
	}
	clientConn, listenerConn := listen(), listen()
	defer clientConn.Close()
	defer listenerConn.Close()
	for d := 1; d <= 2; d++ {
		rc := listen()
		defer rc.Close()
		af := &Anyfrom{UDPConn: rc, ttl: AnyfromTimeout}
		af.RefreshTtl()
		addr := netip.MustParseAddrPort(fmt.Sprintf("9.9.9.%d:53", d))
		shard := DefaultAnyfromPool.shardFor(addr)
		shard.mu.Lock()
		shard.pool[addr] = af
		shard.mu.Unlock()
	}
	clientAddr := clientConn.LocalAddr().(*net.UDPAddr).AddrPort()

	nCfg, perCfg, maxRules := 300, 12, 5
	if VThorough() {
		nCfg, perCfg, maxRules = 4000, 16, 8
	}
	nCfg = VEnvInt("C07_NCFG_CTL", nCfg)
	// the re-ask limit of the code under test (the model takes it from here, not from a literal)
	st.Emit(fmt.Sprintf("depth %d", MaxDnsLookupDepth), "ok")
	for ci := 0; ci < nCfg; ci++ {
		nUp := []int{0, 1, 2, 2, 3, 3, 4}[r.Intn(7)]
		if r.Chance(0.03) {
			nUp = []int{12, 40, 100}[r.Intn(3)] // many upstreams
			if VThorough() && r.Chance(0.2) {
				nUp = 251 // the most dns.New accepts
			}
			stats.Inc("cfg.many-upstreams")
		}
		optimistic := r.Chance(0.25)
		reqRules := c07GenRules(r, nUp, false, maxRules, stats)
		var respRules []c07Rule
		if nUp > 0 && r.Chance(0.3) {
			respRules = c07BouncyResp(r, nUp, stats)
			if r.Bool() {
				respRules = append(respRules, c07GenRules(r, nUp, true, 2, stats)...)
			}
		} else {
			respRules = c07GenRules(r, nUp, true, maxRules, stats)
		}
		reqFb := c07Out(r, nUp, false)
		respFb := c07Out(r, nUp, true)
		urls := c07GenUpstreams(r, nUp, stats)
		text := c07ConfigText(nUp, urls, reqRules, reqFb, respRules, respFb)
		dnsCfg, err := c07ParseConfig(text)
		if err != nil {
			t.Fatalf("generated config does not parse: %v\n%s", err, text)
		}
		// the last definition is a phantom upstream that is NOT configured (cache scope of a stranger)
		defs, err := c07MakeUpDefs(append(append([]string{}, urls...), "udp://10.0.0.250:53"))
		if err != nil {
			t.Fatalf("upstream definitions: %v", err)
		}
		c07Ups = defs
		var deadToks []string
		for k := 0; k < nUp; k++ {
			if defs[k].up == nil {
				deadToks = append(deadToks, fmt.Sprintf("u%d", k))
			}
		}
		cfgOp := fmt.Sprintf("cfg %d %s %s %s %s urls:%s dead:%s opt:%s", nUp, reqFb, c07RenderOp(reqRules), respFb, c07RenderOp(respRules),
			strings.Join(urls, ","), strings.Join(deadToks, ","), c07B(optimistic))
		routing, err := componentdns.New(dnsCfg, &componentdns.NewOption{
			Logger:                  c07Quiet(),
			UpstreamReadyCallback:   func(*componentdns.Upstream) error { return nil },
			UpstreamResolverNetwork: "udp",
			UpstreamHostResolver:    c07ResolveHost,
		})
		if err != nil {
			st.Emit(cfgOp, "builderr")
			continue
		}
		st.Emit(cfgOp, "ok")
		stats.Inc("cfg")
		if ci < 2 {
			stats.Sample(cfgOp)
		}
		// ONE controller per scenario: its forwarder cache AND its response cache live across the asks
		// (the model threads the cache through the scenario), so which cached forwarder carries a query
		// depends on the forwarder cache key, and what an ask stored is what a later ask is served.
		// ip_version_prefer: answers of the non-preferred family are held back for a moment, never changed
		ipPrefer := 0
		pp := 0.08
		if VThorough() {
			pp = 0.02
		}
		if r.Chance(pp) {
			ipPrefer = []int{4, 6}[r.Intn(2)]
			stats.Inc("cfg.ip-version-prefer")
		}
		ctrl := c07NewController(t, routing, optimistic, ipPrefer)
		if optimistic {
			stats.Inc("cfg.optimistic-cache")
		}

		names := c07Names(r, reqRules, perCfg, stats)
		type asked struct {
			name string
			qt   uint16
		}
		var earlier []asked
		var staleEntries []c07Stale
		// a reload in the middle of the scenario: the controller adopts a new generation's rule lists through the
		// production hand-over (ReuseForReload: same store — response cache, forwarders — new runtime); the
		// upstream list stays, so cache scopes keep their meaning
		reloadAt := -1
		if r.Chance(0.3) {
			reloadAt = r.Range(1, perCfg-1)
		}
		for ai := 0; ai < perCfg; ai++ {
			if ai == reloadAt {
				reqRules = c07GenRules(r, nUp, false, maxRules, stats)
				if nUp > 0 && r.Chance(0.3) {
					respRules = c07BouncyResp(r, nUp, stats)
				} else {
					respRules = c07GenRules(r, nUp, true, maxRules, stats)
				}
				reqFb = c07Out(r, nUp, false)
				respFb = c07Out(r, nUp, true)
				text2 := c07ConfigText(nUp, urls, reqRules, reqFb, respRules, respFb)
				reOp := fmt.Sprintf("recfg %d %s %s %s %s", nUp, reqFb, c07RenderOp(reqRules), respFb, c07RenderOp(respRules))
				var routing2 *componentdns.Dns
				dnsCfg2, err := c07ParseConfig(text2)
				if err == nil {
					routing2, err = componentdns.New(dnsCfg2, &componentdns.NewOption{
						Logger:                  c07Quiet(),
						UpstreamReadyCallback:   func(*componentdns.Upstream) error { return nil },
						UpstreamResolverNetwork: "udp",
						UpstreamHostResolver:    c07ResolveHost,
					})
				}
				if err != nil {
					st.Emit(reOp, "builderr") // the new generation is refused: the old one keeps running
					stats.Inc("reload.refused")
				} else {
					next, rerr := ctrl.ReuseForReload(c07CtrlOption(optimistic, ipPrefer), routing2)
					if rerr != nil || next == nil {
						t.Fatalf("ReuseForReload: %v", rerr)
					}
					if r.Chance(0.7) {
						ctrl = next // the replacement generation's facade
						stats.Inc("reload.asks-through-new-facade")
					} else {
						stats.Inc("reload.asks-through-old-facade") // the retiring generation's facade follows the new runtime too
					}
					st.Emit(reOp, "ok")
					stats.Inc("op.recfg")
					for _, n := range c07Names(r, reqRules, 4, stats) {
						names[r.Intn(len(names))] = n // some names aimed at the new rules
					}
				}
			}
			// names as they come off the wire: fully qualified, any case
			name := strings.TrimRight(names[ai], ".") + "."
			if strings.Contains(name, "..") || strings.HasPrefix(name, ".") && name != "." {
				name = c07RandCase(r, c07Domain(r)) + "."
			}
			qt := c07Qtype(r, reqRules)
			if len(earlier) > 0 && r.Chance(0.35) {
				// ask an earlier question of the scenario again (store → hit round trips)
				e := earlier[r.Intn(len(earlier))]
				name, qt = e.name, e.qt
				if r.Chance(0.3) {
					name = c07RandCase(r, strings.ToLower(name))
				}
				stats.Inc("ask.repeats-earlier-question")
			}
			switch {
			case ipPrefer != 0 && r.Chance(0.7):
				qt = []uint16{dnsmessage.TypeA, dnsmessage.TypeAAAA}[r.Intn(2)]
			case r.Chance(0.12):
				// every type with a pre-computed cache-key string, and its neighbours
				qt = c07KeyTypes[r.Intn(len(c07KeyTypes))]
				stats.Inc("ask.qtype-from-key-table")
			case r.Chance(0.04):
				qt = uint16(r.Intn(65536))
			}
			earlier = append(earlier, asked{name, qt})
			dst := r.Range(1, 2)
			qclass := uint16(dnsmessage.ClassINET)
			switch r.Intn(12) {
			case 0:
				qclass = dnsmessage.ClassCHAOS
				stats.Inc("ask.class-other-than-IN")
			case 1:
				qclass = dnsmessage.ClassANY
				stats.Inc("ask.class-other-than-IN")
			}
			isResp := r.Chance(0.03)
			noq := r.Chance(0.04)
			if noq {
				name, qt, qclass = "", 0, dnsmessage.ClassINET // what the controller uses for a message without question
			} else {
				// the name as it comes OFF THE WIRE: miekg's presentation form after Pack/Unpack (`@` arrives as `\@`)
				probe := new(dnsmessage.Msg)
				probe.Question = []dnsmessage.Question{{Name: name, Qtype: qt, Qclass: qclass}}
				var wire dnsmessage.Msg
				if b, err := probe.Pack(); err != nil || wire.Unpack(b) != nil || len(wire.Question) != 1 {
					name = "pack-failed.test."
				} else {
					name = wire.Question[0].Name
				}
			}
			_, ipErr := netip.ParseAddr(strings.TrimSuffix(name, "."))
			isIP := ipErr == nil && !noq

			// upstream behaviour table
			cur := &c07Cur{table: map[string]c07Level{}}
			ups := []string{"a"}
			for k := 0; k < nUp; k++ {
				ups = append(ups, fmt.Sprintf("u%d", k))
			}
			var ansToks []string
			for ui, up := range ups {
				base := c07GenAns(r, stats)
				tcpudp := ui > 0 && c07Ups[ui-1].up != nil && c07Ups[ui-1].up.Scheme == componentdns.UpstreamScheme_TCP_UDP
				for d := 0; d <= MaxDnsLookupDepth; d++ {
					a := base
					if r.Chance(0.15) {
						a = c07GenAns(r, stats)
					}
					if !optimistic && !a.fail && r.Chance(0.05) {
						a.ttl0 = true // (with the optimistic cache an expired entry would be a stale one: C08's subject)
						stats.Inc("answer.ttl-0")
					}
					if r.Chance(0.03) {
						continue // no entry: the upstream does not answer
					}
					lv := c07Level{eff: a}
					if tcpudp && r.Chance(0.5) {
						lv.udpFails = true // the answer arrives through the TCP fallback of the same level
						stats.Inc("answer.tcp+udp-first-attempt-fails")
					}
					cur.table[fmt.Sprintf("%d.%s", d, up)] = lv
					ansToks = append(ansToks, fmt.Sprintf("%d.%s=%s", d, up, a.tok()))
				}
			}

			c07Current = cur

			// seed the response cache through the production insert path
			var seedToks []string
			for i := range staleEntries { // a re-seeded or refreshed key is no longer the object we made stale
				if v, ok := ctrl.dnsCache.Load(staleEntries[i].key); !ok || v.(*DnsCache) != staleEntries[i].e {
					staleEntries[i].e = nil
				}
			}
			seedP := 0.4
			if optimistic {
				seedP = 0.85
			}
			if r.Chance(seedP) && !isIP { // (an IP-literal name is never stored: not seedable)
				ns := r.Range(1, 3)
				if optimistic {
					ns = r.Range(2, 5)
				}
				for i := 0; i < ns; i++ {
					sel := []string{"s", "s", "s", "s", "o", "t"}[r.Intn(6)]
					sname, sqt := name, qt
					switch sel {
					case "o":
						sname = "other.test."
					case "t":
						sqt = qt + 1 // uint16: 65535 wraps to 0, as in the driver
					}
					var scTok, key string
					baseKey := ctrl.cacheKey(sname, sqt)
					if r.Bool() {
						d := r.Range(1, 3)
						if r.Chance(0.6) {
							d = dst // the resolver this client addresses
						}
						scTok = fmt.Sprintf("a%d", d)
						req := &udpRequest{realDst: netip.MustParseAddrPort(fmt.Sprintf("9.9.9.%d:53", d))}
						key = ctrl.responseCacheKey(baseKey, req, consts.DnsRequestOutboundIndex_AsIs, nil)
					} else {
						k := r.Intn(nUp + 1)
						if c07Ups[k].up == nil {
							continue // an upstream that never initialises has no cache scope
						}
						scTok = fmt.Sprintf("u%d", k)
						key = ctrl.responseCacheKey(baseKey, nil, consts.DnsRequestOutboundIndex(k), c07Ups[k].up)
					}
					recs := c07GenAns(r, stats).recs
					if err := ctrl.UpdateDnsCacheTtlWithKey(key, sname, sqt, c07RRs(sname, recs), nil, nil, 300); err != nil {
						t.Fatalf("seed: %v", err)
					}
					staleTok := ""
					if optimistic && !noq && r.Chance(0.5) {
						// expired one second ago, inside the 60 s stale window: served stale + refreshed in the background
						if v, ok := ctrl.dnsCache.Load(key); ok {
							e := v.(*DnsCache)
							e.Deadline = time.Now().Add(-time.Second)
							e.deadlineNano.Store(e.Deadline.UnixNano())
							staleTok = "/S"
							staleEntries = append(staleEntries, c07Stale{key, e})
							stats.Inc("ask.seeded-stale-entry")
						}
					}
					seedToks = append(seedToks, sel+"/"+scTok+"/"+c07RecsTok(recs)+staleTok)
					stats.Inc("ask.seeded-cache-entry." + sel)
				}
			}

			msg := new(dnsmessage.Msg)
			msg.Id = uint16(r.Intn(65536))
			msg.RecursionDesired = true
			if !noq {
				msg.Question = []dnsmessage.Question{{Name: name, Qtype: qt, Qclass: qclass}}
				cur.expect = &dnsmessage.Question{Name: name, Qtype: qt, Qclass: qclass}
			} else {
				stats.Inc("ask.no-question")
			}
			msg.Response = isResp
			if isResp {
				stats.Inc("ask.response-bit-set")
			}
			req := &udpRequest{
				realSrc:       netip.MustParseAddrPort("192.0.2.10:41000"),
				realDst:       netip.MustParseAddrPort(fmt.Sprintf("9.9.9.%d:53", dst)),
				routingResult: &bpfRoutingResult{},
			}
			twoQ := !noq && r.Chance(0.04)
			if twoQ {
				// QDCOUNT 2: refused (FORMERR) before routing — the second question must not ride along
				msg.Question = append(msg.Question, dnsmessage.Question{Name: strings.ToLower(c07Domain(r)) + ".", Qtype: qt, Qclass: dnsmessage.ClassINET})
				stats.Inc("ask.two-questions")
			}
			w := &c07Writer{}
			nilWriter := !noq && r.Chance(0.1) // Handle_ as udp.go calls it: no response writer, reply sent as a packet
			if nilWriter {
				req.realSrc, req.src, req.lConn = clientAddr, clientAddr, listenerConn
				stats.Inc("ask.nil-writer-udp-path")
			}
			hq := "q"
			if noq {
				hq = "noq"
			}
			if twoQ {
				hq = "q2"
			}
			op := fmt.Sprintf("ask %d %s %s n:%s %d %s ip:%s cl:%d seed:%s ans:%s", dst, c07B(isResp), hq, name, qt, c07Rx(name),
				c07B(isIP), qclass, strings.Join(seedToks, ","), strings.Join(ansToks, ","))
			out := VRecover(func() string {
				ctx, cancel := context.WithTimeout(context.Background(), 5*time.Second)
				defer cancel()
				var err error
				if nilWriter {
					// nothing of an earlier ask may be left in the socket
					for {
						_ = clientConn.SetReadDeadline(time.Now().Add(time.Millisecond))
						if _, _, derr := clientConn.ReadFromUDPAddrPort(make([]byte, 65535)); derr != nil {
							break
						}
					}
					err = ctrl.Handle_(ctx, msg, req)
					if err == nil {
						// the reply packet was written to the loopback socket before Handle_ returned
						buf := make([]byte, 65535)
						_ = clientConn.SetReadDeadline(time.Now().Add(20 * time.Second))
						if n, _, rerr := clientConn.ReadFromUDPAddrPort(buf); rerr == nil {
							var m dnsmessage.Msg
							if m.Unpack(buf[:n]) == nil {
								w.msg = &m
							}
						}
					}
				} else {
					err = ctrl.HandleWithResponseWriter_(ctx, msg, req, w)
				}
				// a stale hit started a background refresh: wait until it has finished (entry replaced, or the
				// single-refresh latch released) — bounded, and only ever waits for a goroutine that is running
				for _, se := range staleEntries {
					if se.e == nil || !se.e.IsRefreshing() {
						continue
					}
					stats.Inc("ask.background-refresh")
					for i := 0; i < 100000; i++ {
						v, ok := ctrl.dnsCache.Load(se.key)
						if !ok || v.(*DnsCache) != se.e || !se.e.IsRefreshing() {
							break
						}
						time.Sleep(200 * time.Microsecond)
					}
				}
				cur.mu.Lock()
				trace := strings.Join(cur.trace, ",")
				stats.Inc(fmt.Sprintf("ask.upstream-queries.%d", len(cur.trace)))
				if cur.fallbackUse > 0 {
					stats.Inc("ask.tcp-fallback-used")
				}
				differs := cur.fwdDiffers
				cur.mu.Unlock()
				reply, errc := "", "-"
				switch {
				case err != nil:
					reply = "err"
					errc = c07ErrClass(err)
					stats.Inc("ask.reply.err:" + errc)
				case w.msg == nil:
					reply = "none"
				default:
					rc := "ok"
					if w.msg.Rcode != dnsmessage.RcodeSuccess {
						rc = "fail"
					}
					reply = "ans:" + rc + ":" + c07RecsOfRRs(w.msg.Answer)
					if w.msg.Id != msg.Id {
						reply += " wrong-id"
					}
					if len(w.msg.Answer) == 0 {
						stats.Inc("ask.reply.empty-answer")
					} else {
						stats.Inc("ask.reply.answers")
					}
				}
				if differs {
					reply += " forwarded-question-differs"
				}
				// after " | ": diagnostics (cache contents, error class) — compared, but not a violation
				return fmt.Sprintf("trace=%s reply=%s | cache=%s err=%s", trace, reply, c07DumpCache(ctrl), errc)
			})
			st.Emit(op, out)
			stats.Inc("op.ask")
			if ci < 2 && ai < 2 {
				stats.Sample(op)
			}
		}
		_ = ctrl.Close()
	}

	// ---- two clients in flight at once (singleflight): same question, routed as-is, different resolvers.
	// Every fake forward waits until both clients' queries have arrived (3 s at most), so a coalesced pair
	// shows as ONE query.  Each client must be resolved at its own resolver.
	nPair := 12
	if VThorough() {
		nPair = 80
	}
	for pi := 0; pi < nPair; pi++ {
		text := c07ConfigText(0, nil, nil, "asis", nil, "accept")
		dnsCfg, err := c07ParseConfig(text)
		if err != nil {
			t.Fatalf("pair config: %v", err)
		}
		routing, err := componentdns.New(dnsCfg, &componentdns.NewOption{Logger: c07Quiet(),
			UpstreamReadyCallback: func(*componentdns.Upstream) error { return nil }})
		if err != nil {
			t.Fatalf("pair config: %v", err)
		}
		c07Ups = nil
		st.Emit("cfg 0 asis - accept - urls: dead: opt:0", "ok")
		ctrl := c07NewController(t, routing, false)
		for k := 0; k < 3; k++ {
			name := strings.ToLower(c07Domain(r)) + "."
			qt := []uint16{1, 28, 16}[r.Intn(3)]
			recs := c07GenRecs(r, stats)
			cur := &c07Cur{pair: true, release: make(chan struct{}), pairRecs: recs}
			c07Current = cur
			var wg sync.WaitGroup
			replies := make([]string, 2)
			for ci := 0; ci < 2; ci++ {
				wg.Add(1)
				go func(ci int) {
					defer wg.Done()
					msg := new(dnsmessage.Msg)
					msg.Id = uint16(100 + ci)
					msg.Question = []dnsmessage.Question{{Name: name, Qtype: qt, Qclass: dnsmessage.ClassINET}}
					req := &udpRequest{
						realSrc:       netip.MustParseAddrPort(fmt.Sprintf("192.0.2.%d:41000", 10+ci)),
						realDst:       netip.MustParseAddrPort(fmt.Sprintf("9.9.9.%d:53", ci+1)),
						routingResult: &bpfRoutingResult{},
					}
					w := &c07Writer{}
					ctx, cancel := context.WithTimeout(context.Background(), 20*time.Second)
					defer cancel()
					if err := ctrl.HandleWithResponseWriter_(ctx, msg, req, w); err != nil || w.msg == nil {
						replies[ci] = "err"
						return
					}
					replies[ci] = "ans:ok:" + c07RecsOfRRs(w.msg.Answer)
				}(ci)
			}
			wg.Wait()
			sort.Strings(cur.trace)
			st.Emit(fmt.Sprintf("pair n:%s %d %s %s", name, qt, c07Rx(name), c07RecsTok(recs)),
				fmt.Sprintf("asked=%s r1=%s r2=%s", strings.Join(cur.trace, ","), replies[0], replies[1]))
			stats.Inc("op.pair")
		}
		_ = ctrl.Close()
	}

	// ---- a question arrives while the FIRST INITIALISATION of its upstream is still inside the upstream-ready
	// callback (production: ControlPlane.dnsUpstreamReadyCallback blocks until the control plane is ready).
	// Client 1 is held inside the callback; client 2 (another name, same upstream) is started and the harness
	// waits until it has either entered the callback too or been answered — no timing involved; then the gate
	// opens.  Both answers come from the configured upstream and must be routed by the upstream(...) rules.
	nGate := 30
	if VThorough() {
		nGate = 300
	}
	for gi := 0; gi < VEnvInt("C07_NGATE", nGate); gi++ {
		nUp := r.Range(1, 3)
		k := r.Intn(nUp)
		uk := fmt.Sprintf("u%d", k)
		lead := c07Rule{out: []string{"reject", "reject", "accept", fmt.Sprintf("u%d", r.Intn(nUp))}[r.Intn(4)]}
		lead.funcs = append(lead.funcs, c07Func{name: "upstream", params: []c07Param{{"", uk, uk}}})
		respRules := append([]c07Rule{lead}, c07GenRules(r, nUp, true, 2, stats)...)
		respFb := []string{"accept", "reject"}[r.Intn(2)]
		var urls []string
		for i := 0; i < nUp; i++ {
			urls = append(urls, fmt.Sprintf("udp://10.0.0.%d:53", i+1))
		}
		text := c07ConfigText(nUp, urls, nil, uk, respRules, respFb)
		dnsCfg, err := c07ParseConfig(text)
		if err != nil {
			t.Fatalf("gate config: %v\n%s", err, text)
		}
		defs, err := c07MakeUpDefs(urls)
		if err != nil {
			t.Fatalf("gate upstream definitions: %v", err)
		}
		c07Ups = defs
		entered := make(chan struct{}, 64)
		gate := make(chan struct{})
		routing, err := componentdns.New(dnsCfg, &componentdns.NewOption{Logger: c07Quiet(),
			UpstreamReadyCallback: func(*componentdns.Upstream) error {
				entered <- struct{}{}
				<-gate
				return nil
			}})
		cfgOp := fmt.Sprintf("cfg %d %s - %s %s urls:%s dead: opt:0", nUp, uk, respFb, c07RenderOp(respRules), strings.Join(urls, ","))
		if err != nil {
			st.Emit(cfgOp, "builderr")
			continue
		}
		st.Emit(cfgOp, "ok")
		ctrl := c07NewController(t, routing, false)
		cur := &c07Cur{gateMode: true, gateAns: map[string]c07Ans{}, gateTrace: map[string][]string{}}
		var ansToks []string
		for i := 0; i < nUp; i++ {
			a := c07Ans{qv: "E", recs: c07GenRecs(r, stats)}
			if r.Chance(0.1) {
				a = c07Ans{fail: true}
			}
			cur.gateAns[fmt.Sprintf("u%d", i)] = a
			for d := 0; d <= MaxDnsLookupDepth; d++ {
				ansToks = append(ansToks, fmt.Sprintf("%d.u%d=%s", d, i, a.tok()))
			}
		}
		c07Current = cur
		names := []string{"gate-one." + strings.ToLower(c07Domain(r)) + ".", "gate-two." + strings.ToLower(c07Domain(r)) + "."}
		qt := []uint16{1, 28, 16}[r.Intn(3)]
		type gres struct {
			ci    int
			reply string
			errc  string
		}
		done := make(chan gres, 4)
		ask := func(ci int) {
			msg := new(dnsmessage.Msg)
			msg.Id = uint16(300 + ci)
			msg.Question = []dnsmessage.Question{{Name: names[ci], Qtype: qt, Qclass: dnsmessage.ClassINET}}
			req := &udpRequest{realSrc: netip.MustParseAddrPort(fmt.Sprintf("192.0.2.%d:41000", 10+ci)),
				realDst: netip.MustParseAddrPort("9.9.9.1:53"), routingResult: &bpfRoutingResult{}}
			w := &c07Writer{}
			ctx, cancel := context.WithTimeout(context.Background(), 300*time.Second)
			defer cancel()
			err := ctrl.HandleWithResponseWriter_(ctx, msg, req, w)
			switch {
			case err != nil:
				done <- gres{ci, "err", c07ErrClass(err)}
			case w.msg == nil:
				done <- gres{ci, "none", "-"}
			default:
				rc := "ok"
				if w.msg.Rcode != dnsmessage.RcodeSuccess {
					rc = "fail"
				}
				done <- gres{ci, "ans:" + rc + ":" + c07RecsOfRRs(w.msg.Answer), "-"}
			}
		}
		results := map[int]gres{}
		waitOne := func(what string) bool { // true: a caller entered the ready callback; false: a client finished
			select {
			case <-entered:
				return true
			case g := <-done:
				results[g.ci] = g
				return false
			case <-time.After(120 * time.Second):
				t.Fatalf("C07-GATE-HARNESS: %s: neither inside the upstream-ready callback nor answered within 120 s", what)
			}
			return false
		}
		go ask(0)
		if waitOne("client 1") {
			stats.Inc("gate.first-client-held-in-ready-callback")
		}
		go ask(1)
		if waitOne("client 2") {
			stats.Inc("gate.second-client-initialises-on-its-own")
		} else {
			stats.Inc("gate.a-client-answered-while-the-gate-was-closed")
		}
		close(gate)
		for len(results) < 2 {
			select {
			case g := <-done:
				results[g.ci] = g
			case <-time.After(120 * time.Second):
				t.Fatalf("C07-GATE-HARNESS: clients did not finish within 120 s after the gate opened")
			}
		}
		dump := c07DumpCache(ctrl)
		for ci := 0; ci < 2; ci++ {
			// the model threads the cache: after the first line it holds client 1's entries only
			var mine []string
			for _, e := range strings.Split(dump, ";") {
				if e != "" && (ci == 1 || strings.HasPrefix(e, names[0])) {
					mine = append(mine, e)
				}
			}
			cur.mu.Lock()
			trace := strings.Join(cur.gateTrace[names[ci]], ",")
			cur.mu.Unlock()
			op := fmt.Sprintf("ask 1 0 q n:%s %d %s ip:0 cl:1 seed: ans:%s", names[ci], qt, c07Rx(names[ci]), strings.Join(ansToks, ","))
			st.Emit(op, fmt.Sprintf("trace=%s reply=%s | cache=%s err=%s", trace, results[ci].reply, strings.Join(mine, ";"), results[ci].errc))
			stats.Inc("op.ask")
			stats.Inc("op.gate-ask")
		}
		_ = ctrl.Close()
	}

	// ---- ip_version_prefer: a non-preferred answer that is waiting when the preferred one arrives must still be
	// relayed unchanged (the wait only delays it).  The non-preferred question is asked first in a goroutine;
	// as soon as its wait is registered (white-box, bounded poll) the preferred question is asked.
	nPref := 10
	if VThorough() {
		nPref = 40
	}
	for pi := 0; pi < nPref; pi++ {
		text := c07ConfigText(0, nil, nil, "asis", nil, "accept")
		dnsCfg, err := c07ParseConfig(text)
		if err != nil {
			t.Fatalf("pref config: %v", err)
		}
		routing, err := componentdns.New(dnsCfg, &componentdns.NewOption{Logger: c07Quiet(),
			UpstreamReadyCallback: func(*componentdns.Upstream) error { return nil }})
		if err != nil {
			t.Fatalf("pref config: %v", err)
		}
		c07Ups = nil
		st.Emit("cfg 0 asis - accept - urls: dead: opt:0", "ok")
		prefer := []int{4, 6}[r.Intn(2)]
		ctrl := c07NewController(t, routing, false, prefer)
		name := strings.ToLower(c07Domain(r)) + "."
		prefQt, otherQt := uint16(dnsmessage.TypeA), uint16(dnsmessage.TypeAAAA)
		if prefer == 6 {
			prefQt, otherQt = otherQt, prefQt
		}
		recsOf := func(qt uint16) []c07Rec {
			if qt == dnsmessage.TypeA {
				return []c07Rec{{"A", netip.MustParseAddr("10.1.2.3")}, {"A", netip.MustParseAddr("192.168.1.1")}}
			}
			return []c07Rec{{"AAAA", netip.MustParseAddr("2001:db8::1")}}
		}
		cur := &c07Cur{prefMode: true, prefRecs: recsOf}
		c07Current = cur
		ask := func(qt uint16, dst int) string {
			msg := new(dnsmessage.Msg)
			msg.Id = uint16(200 + qt)
			msg.Question = []dnsmessage.Question{{Name: name, Qtype: qt, Qclass: dnsmessage.ClassINET}}
			req := &udpRequest{realSrc: netip.MustParseAddrPort("192.0.2.10:41000"),
				realDst: netip.MustParseAddrPort(fmt.Sprintf("9.9.9.%d:53", dst)), routingResult: &bpfRoutingResult{}}
			w := &c07Writer{}
			ctx, cancel := context.WithTimeout(context.Background(), 20*time.Second)
			defer cancel()
			if err := ctrl.HandleWithResponseWriter_(ctx, msg, req, w); err != nil || w.msg == nil {
				return "err"
			}
			return "ans:ok:" + c07RecsOfRRs(w.msg.Answer)
		}
		done := make(chan string, 1)
		go func() { done <- ask(otherQt, 1) }()
		for i := 0; i < 25000; i++ { // until the non-preferred answer is waiting (or has already gone out)
			ctrl.prefWaitRegistry.mu.RLock()
			n := len(ctrl.prefWaitRegistry.waits)
			ctrl.prefWaitRegistry.mu.RUnlock()
			if n > 0 || len(done) > 0 {
				break
			}
			time.Sleep(200 * time.Microsecond)
		}
		r2 := ask(prefQt, 1)
		r1 := <-done
		st.Emit(fmt.Sprintf("pref n:%s %d %d %s %s %s", name, otherQt, prefQt, c07Rx(name), c07RecsTok(recsOf(otherQt)), c07RecsTok(recsOf(prefQt))),
			fmt.Sprintf("r1=%s r2=%s", r1, r2))
		stats.Inc("op.pref")
		_ = ctrl.Close()
	}
	stats.Write("c07c")
}

func c07B(b bool) string {
	if b {
		return "1"
	}
	return "0"
}
