package control

// C13 correspondence harness — part 5: UDP ingress, from the listener socket to the per-flow task queues.
//
// Stream c13_ing runs PRODUCTION's ingress statements of (*ControlPlane).Serve — regenerated from the
// current control_plane.go by translators/c13disp into c13GenBatchLoop (the batch-read loop) and
// c13GenProcessPacket (the processPacket closure: original destination from the control message, address
// convergence, ClassifyUdpFlow, EnsureSnifferSession, the three-way dispatch) — on the production
// udpIngressBatchReader (real constructor, fake batch socket) in front of a real UdpTaskPool, inside a
// synctest bubble.  Only the BODY of the packet task (routing + handlePkt: stream c13_hp) is replaced: it
// records which goroutine ran it (the convoy of which queue, or a goroutine of its own), reads the
// datagram's id back from the buffer it was handed, and parks on a gate when the script says the task is
// slow, so that backlogs (up to beyond the 128-slot channel) build up behind it while the reader keeps
// reading.  Between two batches the reader lets some parked tasks go and sometimes lets the idle GC run.
//
// The Lean driver evaluates DaeVerif.C13.Ingress.Spec on the same lines: flow key = converged (source,
// original destination), ordered flows run under their own key's queue in arrival order, direct-dispatch
// ports run on goroutines of their own, every datagram's task runs exactly once.

import (
	"context"
	"encoding/binary"
	"fmt"
	"io"
	"net"
	"net/netip"
	"sort"
	"sync"
	"syscall"
	"testing"
	"testing/synctest"
	"time"
	"unsafe"

	"github.com/daeuniverse/outbound/pool"
	"github.com/sirupsen/logrus"
	"golang.org/x/net/ipv6"
	"golang.org/x/sys/unix"
)

type c13IngDgram struct {
	id      int
	src     *net.UDPAddr   // as the socket reports the peer (16-byte IP = IPv4-mapped form)
	dst     netip.AddrPort // as the control message carries the original destination
	dstV6   bool           // control message is IPV6_ORIGDSTADDR (else IP_ORIGDSTADDR)
	quic    bool
	slow    bool
	noAddr  bool // the socket reports no peer address: Take drops the datagram
	preCmsg bool // an unrelated control message precedes the original-destination one
}

type c13IngRec struct {
	runs int
	key  UdpFlowKey
	by   string
}

type c13IngEnv struct {
	mu        sync.Mutex
	r         *VRand
	stats     *VStats
	convoyKey map[int64]UdpFlowKey // goroutine id -> key of the queue whose convoy it is
	convoysOf map[UdpFlowKey]map[int64]bool
	recs      map[int]*c13IngRec
	order     map[UdpFlowKey][]int // queue key -> ids in the order their tasks started
	direct    []int
	gates     map[int]chan struct{}
	parked    []int
	maxOvf    int32
	holdAll   bool // burst sequences: nothing is released while the reader is reading
}

func (e *c13IngEnv) hook(name string, args ...any) {
	if name != "convoy.loopTop" || len(args) == 0 {
		return
	}
	q, ok := args[0].(*UdpTaskQueue)
	if !ok {
		return
	}
	gid := c13Goid()
	e.mu.Lock()
	if _, known := e.convoyKey[gid]; !known {
		e.convoyKey[gid] = q.key
		if e.convoysOf[q.key] == nil {
			e.convoysOf[q.key] = map[int64]bool{}
		}
		e.convoysOf[q.key][gid] = true
	}
	if n := q.overflowLen.Load(); n > e.maxOvf {
		e.maxOvf = n
	}
	e.mu.Unlock()
}

func c13IngPayload(id int, quic bool) []byte {
	if quic {
		return []byte{0xC0, 0, 0, 0, 1, 8, byte(id >> 8), byte(id), 3, 4, 5, 6, 7, 8, 0}
	}
	return []byte{0x01, byte(id >> 8), byte(id), 0xAA, 0xBB, byte(id) ^ 0x5A}
}

func c13IngDecode(b []byte) int {
	switch {
	case len(b) == 15 && b[0] == 0xC0:
		return int(b[6])<<8 | int(b[7])
	case len(b) == 6 && b[0] == 0x01 && b[5] == b[2]^0x5A:
		return int(b[1])<<8 | int(b[2])
	}
	return -1
}

// the packet task's body (stands for routing + handlePkt)
func (e *c13IngEnv) body(fd UdpFlowDecision, convergeSrc, realDst netip.AddrPort, pktBuf pool.PB) {
	defer pktBuf.Put() // production: `defer data.Put()`
	id := c13IngDecode(pktBuf)
	gid := c13Goid()
	e.mu.Lock()
	rec := e.recs[id]
	if rec == nil {
		rec = &c13IngRec{}
		e.recs[id] = rec
	}
	rec.runs++
	rec.key = fd.Key
	if k, ok := e.convoyKey[gid]; ok {
		rec.by = c13ApShow(k.Src) + "|" + c13ApShow(k.Dst)
		e.order[k] = append(e.order[k], id)
	} else {
		rec.by = "direct"
		e.direct = append(e.direct, id)
	}
	if convergeSrc != fd.Key.Src || realDst != fd.Key.Dst {
		rec.by += " key-differs-from-addresses"
	}
	gate := e.gates[id]
	if gate != nil {
		e.parked = append(e.parked, id)
	}
	e.mu.Unlock()
	if gate != nil {
		<-gate
	}
}

// release lets n parked tasks go (all of them when n < 0)
func (e *c13IngEnv) release(n int) int {
	e.mu.Lock()
	defer e.mu.Unlock()
	done := 0
	for len(e.parked) > 0 && (n < 0 || done < n) {
		i := 0
		if n >= 0 {
			i = e.r.Intn(len(e.parked))
		}
		id := e.parked[i]
		e.parked = append(e.parked[:i], e.parked[i+1:]...)
		close(e.gates[id])
		delete(e.gates, id)
		done++
	}
	return done
}

func c13Cmsg(level, typ int, data []byte) []byte {
	ptr := int(unsafe.Sizeof(uintptr(0)))
	hdr := ptr + 8
	l := hdr + len(data)
	b := make([]byte, (l+ptr-1)&^(ptr-1))
	if ptr == 8 {
		binary.NativeEndian.PutUint64(b, uint64(l))
	} else {
		binary.NativeEndian.PutUint32(b, uint32(l))
	}
	binary.NativeEndian.PutUint32(b[ptr:], uint32(int32(level)))
	binary.NativeEndian.PutUint32(b[ptr+4:], uint32(int32(typ)))
	copy(b[hdr:], data)
	return b
}

func c13OrigDstCmsg(d c13IngDgram) []byte {
	var out []byte
	if d.preCmsg {
		out = append(out, c13Cmsg(syscall.SOL_IP, syscall.IP_TOS, []byte{0x10})...)
	}
	if d.dstV6 {
		sa := make([]byte, unix.SizeofSockaddrInet6)
		binary.NativeEndian.PutUint16(sa, unix.AF_INET6)
		binary.BigEndian.PutUint16(sa[2:], d.dst.Port())
		a := d.dst.Addr().As16()
		copy(sa[8:24], a[:])
		return append(out, c13Cmsg(syscall.SOL_IPV6, unix.IPV6_RECVORIGDSTADDR, sa)...)
	}
	sa := make([]byte, unix.SizeofSockaddrInet4)
	binary.NativeEndian.PutUint16(sa, unix.AF_INET)
	binary.BigEndian.PutUint16(sa[2:], d.dst.Port())
	a := d.dst.Addr().As4()
	copy(sa[4:8], a[:])
	return append(out, c13Cmsg(syscall.SOL_IP, syscall.IP_RECVORIGDSTADDR, sa)...)
}

type c13IngSock struct {
	env     *c13IngEnv
	pending []c13IngDgram
	batches int
}

func (f *c13IngSock) ReadBatch(msgs []ipv6.Message, _ int) (int, error) {
	e := f.env
	// between two batches: some slow tasks finish, sometimes every queue goes idle long enough to be collected
	if f.batches > 0 && e.holdAll {
		synctest.Wait()
	} else if f.batches > 0 {
		switch x := e.r.Intn(10); {
		case x < 4:
			if e.release(1+e.r.Intn(3)) > 0 {
				e.stats.Inc("ing.between.released")
			}
			synctest.Wait()
		case x < 5:
			e.release(-1)
			synctest.Wait()
			time.Sleep(UdpTaskPoolAgingTime*2 + time.Millisecond)
			synctest.Wait()
			e.stats.Inc("ing.between.idlePeriod")
		case x < 7:
			synctest.Wait()
		}
	}
	f.batches++
	if len(f.pending) == 0 {
		return 0, net.ErrClosed
	}
	n := 1 + e.r.Intn(len(msgs))
	if n > len(f.pending) {
		n = len(f.pending)
	}
	for i := 0; i < n; i++ {
		d := f.pending[i]
		msgs[i].N = copy(msgs[i].Buffers[0], c13IngPayload(d.id, d.quic))
		if d.noAddr {
			msgs[i].Addr = nil
		} else {
			msgs[i].Addr = d.src
		}
		msgs[i].NN = copy(msgs[i].OOB, c13OrigDstCmsg(d))
	}
	f.pending = f.pending[n:]
	e.stats.Inc(fmt.Sprintf("ing.batch.size.%d", n))
	return n, nil
}

func c13IngPeer(r *VRand, i int, port uint16) *net.UDPAddr {
	switch i % 3 {
	case 0:
		ip := net.IPv4(10, 9, 0, byte(1+i/3))
		if r.Bool() {
			return &net.UDPAddr{IP: ip.To4(), Port: int(port)} // 4-byte form: AddrPort() is an IPv4 address
		}
		return &net.UDPAddr{IP: ip, Port: int(port)} // 16-byte form: AddrPort() is IPv4-mapped IPv6
	case 1:
		return &net.UDPAddr{IP: net.IPv4(192, 168, 7, byte(1+i/3)).To4(), Port: int(port)}
	default:
		return &net.UDPAddr{IP: net.ParseIP(fmt.Sprintf("fd00::%d", 1+i/3)), Port: int(port)}
	}
}

func c13RunIng(t *testing.T, stats *VStats) {
	s := VOpenStream("c13_ing")
	defer s.Close()
	stats.Sample("ing: " + c13GenIngressMode)
	r := NewVRand(VSeed() + 909)
	logger := logrus.New()
	logger.SetOutput(io.Discard)
	nseq := 120
	if VThorough() {
		nseq = 2500
	}
	nseq = VEnvInt("VERIF_C13_ING_SEQS", nseq)
	srcPorts := []uint16{40000, 40001, 53, 5060, 5061, 443, 3478}
	dstPorts := []uint16{443, 8443, 27015, 53, 52, 54, 5004, 5003, 5030, 5060, 5061, 3478, 3477, 3479, 80}
	s.Emit("ing consts "+c13DirectPortRanges(), "ok")
	for seq := 0; seq < nseq; seq++ {
		rr := r.Fork()
		// the sequence's flows
		type flow struct {
			peer int
			sp   uint16
			dst  netip.AddrPort
			v6   bool
		}
		nflows := 1 + rr.Intn(4)
		var flows []flow
		for i := 0; i < nflows; i++ {
			fl := flow{peer: rr.Intn(6), sp: srcPorts[rr.Intn(2)]}
			if rr.Chance(0.25) {
				fl.sp = srcPorts[rr.Intn(len(srcPorts))]
			}
			dp := dstPorts[rr.Intn(len(dstPorts))]
			if rr.Chance(0.4) {
				dp = dstPorts[rr.Intn(3)]
			}
			switch rr.Intn(4) {
			case 0:
				fl.dst = netip.AddrPortFrom(netip.AddrFrom4([4]byte{52, 1, 1, byte(1 + rr.Intn(2))}), dp)
			case 1: // IPv4 destination delivered through the IPv6 control message in its mapped form
				fl.dst, fl.v6 = netip.AddrPortFrom(netip.AddrFrom16(netip.AddrFrom4([4]byte{52, 1, 1, byte(1 + rr.Intn(2))}).As16()), dp), true
			case 2:
				fl.dst, fl.v6 = netip.AddrPortFrom(netip.MustParseAddr(fmt.Sprintf("2001:db8::%d", 1+rr.Intn(2))), dp), true
			default:
				fl.dst = netip.AddrPortFrom(netip.AddrFrom4([4]byte{52, 1, 1, 1}), dp)
			}
			flows = append(flows, fl)
		}
		// the datagrams: ordinary traffic, or a burst of one flow past the channel capacity behind a slow task
		var dgrams []c13IngDgram
		burst := rr.Chance(0.15)
		if burst {
			// the burst flow is an ordered one (no direct-dispatch port on either side)
			flows[0].sp = srcPorts[rr.Intn(2)]
			flows[0].dst = netip.AddrPortFrom(flows[0].dst.Addr(), dstPorts[rr.Intn(3)])
		}
		total := 4 + rr.Intn(40)
		burstLeft := 0
		if burst {
			// the first task of flow 0 is slow; behind it 127 .. 154 more tasks of that flow arrive: the channel
			// (128 slots) one short of full, exactly full, one / two / three / many tasks in the overflow list
			burstLeft = UdpTaskQueueLength + []int{-1, 0, 1, 2, 3, 26}[rr.Intn(6)]
			total = 1 + burstLeft + rr.Intn(6)
			stats.Inc("ing.seq.burst")
		}
		for i := 0; i < total; i++ {
			fl := flows[rr.Intn(len(flows))]
			if burst {
				if i == 0 || total-i <= burstLeft || (burstLeft > 0 && rr.Chance(0.9)) {
					fl = flows[0]
					if i > 0 {
						burstLeft--
					}
				} else if len(flows) > 1 {
					fl = flows[1+rr.Intn(len(flows)-1)]
				}
			}
			d := c13IngDgram{id: i, src: c13IngPeer(rr, fl.peer, fl.sp), dst: fl.dst, dstV6: fl.v6, quic: rr.Chance(0.2),
				slow: rr.Chance(0.3) || (burst && i == 0), preCmsg: rr.Chance(0.2)}
			dgrams = append(dgrams, d)
		}
		// a datagram without peer address now and then (dropped by Take; it carries an id nobody expects)
		if rr.Chance(0.2) {
			at := rr.Intn(len(dgrams) + 1)
			x := c13IngDgram{id: 60000, src: nil, dst: flows[0].dst, dstV6: flows[0].v6, noAddr: true}
			dgrams = append(dgrams[:at], append([]c13IngDgram{x}, dgrams[at:]...)...)
			stats.Inc("ing.dgram.noPeerAddress")
		}
		size := 0
		if rr.Chance(0.5) {
			size = 1 + rr.Intn(8)
		}
		env := &c13IngEnv{r: rr.Fork(), stats: stats, convoyKey: map[int64]UdpFlowKey{}, convoysOf: map[UdpFlowKey]map[int64]bool{},
			recs: map[int]*c13IngRec{}, order: map[UdpFlowKey][]int{}, gates: map[int]chan struct{}{}, holdAll: burst}
		noSocket := false
		synctest.Test(t, func(t *testing.T) {
			oldPool, oldSniff := DefaultUdpTaskPool, DefaultPacketSnifferSessionMgr
			DefaultUdpTaskPool = NewUdpTaskPool()
			DefaultPacketSnifferSessionMgr = NewPacketSnifferPool()
			verifYieldHook = env.hook
			defer func() {
				verifYieldHook = nil
				DefaultUdpTaskPool.Close()
				DefaultPacketSnifferSessionMgr.Close()
				synctest.Wait()
				DefaultUdpTaskPool, DefaultPacketSnifferSessionMgr = oldPool, oldSniff
			}()
			for _, d := range dgrams {
				if d.slow && !d.noAddr {
					env.gates[d.id] = make(chan struct{})
				}
			}
			var rd *udpIngressBatchReader
			if conn, err := net.ListenUDP("udp", &net.UDPAddr{IP: net.IPv4(127, 0, 0, 1)}); err == nil {
				rd = newUDPIngressBatchReader(conn, size) // the real constructor; only the socket is replaced
				conn.Close()
			}
			if rd == nil {
				noSocket = true
				return
			}
			sock := &c13IngSock{env: env, pending: append([]c13IngDgram(nil), dgrams...)}
			rd.pc = sock
			ctx, cancel := context.WithCancel(context.Background())
			defer cancel()
			cp := &ControlPlane{log: logger, ctx: ctx}
			// the reader goroutine of Serve: production's batch loop around production's processPacket
			c13GenBatchLoop(cp, rd, func(pktBuf pool.PB, src netip.AddrPort, oob []byte) {
				c13GenProcessPacket(cp, nil, env.body, pktBuf, src, oob)
			})
			rd.Close()
			// the socket is closed; let every task finish
			for i := 0; i < 100000; i++ {
				synctest.Wait()
				if env.release(-1) == 0 {
					break
				}
			}
			synctest.Wait()
			time.Sleep(UdpTaskPoolAgingTime*3 + time.Millisecond) // idle GC: every convoy exits
			synctest.Wait()
		})
		if noSocket {
			stats.Inc("ib.noSocket")
			return
		}
		// ---- report
		s.Emit("ing reset", "ok")
		flowsSeen := map[UdpFlowKey]bool{}
		for _, d := range dgrams {
			if d.noAddr {
				continue
			}
			rec := env.recs[d.id]
			out := "key=? by=never runs=0"
			if rec != nil {
				out = fmt.Sprintf("key=%s|%s by=%s runs=%d", c13ApShow(rec.key.Src), c13ApShow(rec.key.Dst), rec.by, rec.runs)
				if rec.by == "direct" {
					stats.Inc("ing.dgram.direct")
				} else {
					stats.Inc("ing.dgram.ordered")
					flowsSeen[rec.key] = true
				}
			}
			raw := d.src.AddrPort()
			if raw.Addr().Is4In6() {
				stats.Inc("ing.dgram.peerMapped")
			}
			if d.dst.Addr().Is4In6() {
				stats.Inc("ing.dgram.dstMapped")
			}
			if d.quic {
				stats.Inc("ing.dgram.quicLike")
			}
			if d.slow {
				stats.Inc("ing.dgram.slowTask")
			}
			s.Emit(fmt.Sprintf("ing dgram %d %s %s", d.id, c13ApTok(raw), c13ApTok(d.dst)), out)
		}
		if rec := env.recs[60000]; rec != nil {
			s.Emit("ing dgram 60000 - -", fmt.Sprintf("a datagram without peer address was dispatched: by=%s runs=%d", rec.by, rec.runs))
		}
		if rec := env.recs[-1]; rec != nil {
			s.Emit("ing dgram -1 - -", fmt.Sprintf("a task was handed a buffer that is not its datagram's: runs=%d", rec.runs))
		}
		keys := make([]UdpFlowKey, 0, len(env.order))
		for k := range env.order {
			keys = append(keys, k)
		}
		for k := range flowsSeen {
			if _, ok := env.order[k]; !ok {
				keys = append(keys, k)
			}
		}
		sort.Slice(keys, func(i, j int) bool {
			return c13ApTok(keys[i].Src)+" "+c13ApTok(keys[i].Dst) < c13ApTok(keys[j].Src)+" "+c13ApTok(keys[j].Dst)
		})
		for _, k := range keys {
			s.Emit(fmt.Sprintf("ing log %s %s", c13ApTok(k.Src), c13ApTok(k.Dst)), c13JoinInts(env.order[k]))
			stats.Inc("ing.flow")
			if len(env.convoysOf[k]) > 1 {
				stats.Inc("ing.flow.queueRecreatedAfterIdleGC")
			}
			if len(env.order[k]) >= UdpTaskQueueLength {
				stats.Inc("ing.flow.128orMoreTasks")
			}
		}
		dl := append([]int(nil), env.direct...)
		sort.Ints(dl)
		s.Emit("ing direct", c13JoinInts(dl))
		if env.maxOvf > 0 {
			stats.Inc("ing.seq.overflowReached")
		}
		stats.Max("ing.maxOverflowLen", int(env.maxOvf))
		stats.Inc("ing.seq")
	}
	stats.Add("ing.ops", s.N)
}
