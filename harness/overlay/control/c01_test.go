package control

// C01 correspondence harness: generated routing sections are rendered as dae config text, parsed by
// the real config_parser + config.New (which applies patchMustOutbound), compiled by the real
// NewRoutingMatcherBuilder / BuildUserspace, and evaluated by the real ControlPlane.Route /
// RoutingMatcher.Match on packets generated FROM the rules (boundary values of every range, prefix,
// MAC, pname, DSCP, domain).  The Lean driver (c01drv) receives the generator's TYPED program — what
// the user meant — and the packet, and answers with the proved first-match decision.

import (
	"encoding/binary"
	"encoding/hex"
	"fmt"
	"github.com/daeuniverse/dae/common/assets"
	"net/netip"
	"regexp"
	"strings"
	"testing"

	"github.com/daeuniverse/dae/common/consts"
	"github.com/daeuniverse/dae/component/routing"
	"github.com/daeuniverse/dae/config"
	"github.com/daeuniverse/dae/pkg/config_parser"
	"github.com/sirupsen/logrus"
)

type c01Val struct {
	text string // as written in the config
	tok  string // typed token for the model
	// typed payloads used to derive boundary packets
	pfx    netip.Prefix
	lo, hi int
	mac    [6]byte
	pname  string
	dscp   int
	lit    string
	pat    string
}
type c01Group struct {
	key  string
	vals []c01Val
	dom  int // oracle index for domain groups
}
type c01Cond struct {
	fn     string
	neg    bool
	groups []c01Group
}
type c01Rule struct {
	conds     []c01Cond
	outName   string
	outId     int
	mark      uint32
	must      bool
	mustRules bool
	style     int // how must is written: 0 none, 1 "must_" prefix, 2 "(must)" param
}
type c01Prog struct {
	ipPool            [][]c01Val // address sets already used by a dip/sip condition of this program
	exotic            bool       // carries a literal outside the property's alphabet (l4proto icmp, ipversion 5, inverted port range, dscp > 63)
	aimFrom           int        // > 0: packets are mostly aimed at rules[aimFrom:] (large programs: the late rules)
	rules             []c01Rule
	fbName            string
	fbId              int
	fbMark            uint32
	fbMust            bool
	fbStyle           int
	domGroups         []*c01Group // in program order
	text, modelTokens string
}

// outbound ids as NewControlPlane assigns them: position in [direct, block, groups…]; production allows
// ids 0..OutboundUserDefinedMax (0xFB).  Rules use a boundary-biased subset of them.
var c01Outs = func() []string {
	o := []string{"direct", "block"}
	// group names as users write them: among them names that begin with letters of "must_" (the
	// `must_` prefix of an outbound must be removed as a prefix, not as a set of characters), names
	// that contain "must", and names that look like the reserved words
	stems := []string{"g", "us_", "steam", "m", "t", "_", "su", "mustang", "must", "tt_s", "direct_", "block"}
	for i := 2; i <= int(consts.OutboundUserDefinedMax); i++ {
		o = append(o, fmt.Sprintf("%s%d", stems[i%len(stems)], i))
	}
	return o
}()
var c01OutIds = []int{0, 1, 2, 3, 4, 5, 6, 7, 127, 128, 250, int(consts.OutboundUserDefinedMax)}
var c01Labels = []string{"example", "test", "cdn", "a", "b1", "foo-bar", "x_y", "mail", "com", "org", "net", "co", "uk"}

func c01RandDomain(r *VRand) string {
	n := 1 + r.Intn(4)
	parts := make([]string, n)
	for i := range parts {
		parts[i] = c01Labels[r.Intn(len(c01Labels))]
	}
	return strings.Join(parts, ".")
}

func c01GenCond(r *VRand, stats *VStats, p *c01Prog) c01Cond {
	fns := []string{"dip", "sip", "dport", "sport", "l4proto", "ipversion", "mac", "pname", "dscp", "domain"}
	fn := fns[r.Intn(len(fns))]
	c := c01Cond{fn: fn, neg: r.Chance(0.3)}
	stats.Inc("cond." + fn)
	if c.neg {
		stats.Inc("cond.negated")
	}
	nv := 1 + r.Intn(4)
	if r.Chance(0.5) {
		nv = 1
	} else if r.Chance(0.25) {
		// long value lists: `Function.String` elides everything after the fifth parameter, hash keys and
		// caches built from a rendered call must not confuse two lists that agree on their first values
		nv = []int{5, 6, 7, 9, 12, 40}[r.Intn(6)]
		stats.Inc("cond.long_value_list")
	}
	g := c01Group{}
	switch fn {
	case "dip", "sip":
		var longSets [][]c01Val
		for _, set := range p.ipPool {
			if len(set) > 5 {
				longSets = append(longSets, set)
			}
		}
		if (len(longSets) > 0 && r.Chance(0.35)) || (len(p.ipPool) > 0 && r.Chance(0.1)) {
			// near twin of an earlier set: all values but one are the same (same length, and for a long
			// list usually the same first values in text and in canonical order) — it must get its
			// own LPM slot
			base := p.ipPool[r.Intn(len(p.ipPool))]
			if len(longSets) > 0 {
				base = longSets[r.Intn(len(longSets))]
			}
			g.vals = append([]c01Val(nil), base...)
			pf := c12RandPrefix(r, NewVStats())
			if r.Bool() {
				pf = netip.PrefixFrom(netip.AddrFrom4([4]byte{10, byte(r.Intn(2)), byte(r.Intn(4)), byte(1 + r.Intn(250))}), 32)
			}
			g.vals[r.Intn(len(g.vals))] = c01Val{text: "'" + pf.String() + "'", tok: c12Tok(pf), pfx: pf}
			stats.Inc("cond.ip_set_near_twin")
			if len(g.vals) > 5 {
				stats.Inc("cond.ip_set_near_twin.long")
			}
			defer func() { p.ipPool = append(p.ipPool, append([]c01Val(nil), c.groups[0].vals...)) }()
			break
		}
		if len(p.ipPool) > 0 && r.Chance(0.3) {
			// The same address set again, under the same or the OTHER direction: the builder shares one
			// LPM slot between identical canonical sets whatever the match type, while the lookups use
			// the destination for dip and the source for sip.
			g.vals = append([]c01Val(nil), p.ipPool[r.Intn(len(p.ipPool))]...)
			if r.Bool() && len(g.vals) > 1 {
				g.vals[0], g.vals[len(g.vals)-1] = g.vals[len(g.vals)-1], g.vals[0] // same set, other order
			}
			stats.Inc("cond.ip_set_reused")
			break
		}
		defer func() { p.ipPool = append(p.ipPool, append([]c01Val(nil), c.groups[0].vals...)) }()
		for i := 0; i < nv; i++ {
			pf := c12RandPrefix(r, NewVStats())
			if r.Chance(0.5) { // small clustered v4 space so that packets hit
				var b [4]byte
				b[0] = byte(10 + r.Intn(2))
				b[1] = byte(r.Intn(2))
				b[2] = byte(r.Intn(4))
				bits := []int{8, 15, 16, 24, 30, 32, 0}[r.Intn(7)]
				pf = netip.PrefixFrom(netip.AddrFrom4(b), bits)
			}
			txt := pf.String()
			if pf.Bits() == pf.Addr().BitLen() && r.Chance(0.5) {
				txt = pf.Addr().String() // bare address = host route
			}
			g.vals = append(g.vals, c01Val{text: "'" + txt + "'", tok: c12Tok(pf), pfx: pf})
		}
	case "dport", "sport":
		for i := 0; i < nv; i++ {
			lo := []int{0, 1, 53, 80, 443, 1024, 65535, r.Intn(65536)}[r.Intn(8)]
			hi := lo
			txt := fmt.Sprint(lo)
			if r.Chance(0.5) {
				hi = lo + []int{0, 1, 10, 1000, 65535}[r.Intn(5)]
				if hi > 65535 {
					hi = 65535
				}
				if r.Chance(0.05) && lo > 0 { // inverted range: never matches
					hi = lo - 1
					p.exotic = true
				}
				txt = fmt.Sprintf("%d-%d", lo, hi)
			}
			g.vals = append(g.vals, c01Val{text: txt, tok: fmt.Sprintf("%d-%d", lo, hi), lo: lo, hi: hi})
		}
	case "l4proto":
		for i := 0; i < nv; i++ {
			lit := []string{"tcp", "udp", "tcp", "udp", "icmp"}[r.Intn(5)]
			bit := map[string]int{"tcp": 1, "udp": 2, "icmp": 0}[lit]
			p.exotic = p.exotic || lit == "icmp"
			g.vals = append(g.vals, c01Val{text: lit, tok: fmt.Sprint(bit), lit: lit})
		}
	case "ipversion":
		for i := 0; i < nv; i++ {
			lit := []string{"4", "6", "4", "6", "5"}[r.Intn(5)]
			bit := map[string]int{"4": 1, "6": 2, "5": 0}[lit]
			p.exotic = p.exotic || lit == "5"
			g.vals = append(g.vals, c01Val{text: lit, tok: fmt.Sprint(bit), lit: lit})
		}
	case "mac":
		for i := 0; i < nv; i++ {
			var m [6]byte
			switch r.Intn(4) {
			case 0:
				m = [6]byte{0x02, 0x42, 0xac, 0x11, 0x00, byte(r.Intn(3))}
			case 1:
				m = [6]byte{0xff, 0xff, 0xff, 0xff, 0xff, 0xff}
			default:
				binary.BigEndian.PutUint32(m[2:], uint32(r.U64()))
				m[0] = byte(r.Intn(256))
			}
			if r.Chance(0.03) {
				m = [6]byte{} // zero MAC listed explicitly
			}
			txt := fmt.Sprintf("%02x:%02x:%02x:%02x:%02x:%02x", m[0], m[1], m[2], m[3], m[4], m[5])
			if r.Chance(0.3) {
				txt = strings.ToUpper(txt)
			}
			g.vals = append(g.vals, c01Val{text: "'" + txt + "'", tok: hex.EncodeToString(m[:]), mac: m})
		}
	case "pname":
		for i := 0; i < nv; i++ {
			base := []string{"curl", "NetworkManager", "systemd-resolved", "exactly16bytes_x", "seventeen_bytes_x", "a", "chrome", ""}[r.Intn(8)]
			if base == "" {
				stats.Inc("cond.pname.empty_name")
			} else if r.Chance(0.2) {
				base = base + strings.Repeat("z", r.Intn(20))
			}
			g.vals = append(g.vals, c01Val{text: "'" + base + "'", tok: hex.EncodeToString([]byte(base)), pname: base})
		}
	case "dscp":
		for i := 0; i < nv; i++ {
			v := []int{0, 1, 4, 8, 46, 63, 255}[r.Intn(7)]
			p.exotic = p.exotic || v > 63
			txt := fmt.Sprint(v)
			if r.Chance(0.3) {
				txt = fmt.Sprintf("0x%x", v)
			}
			g.vals = append(g.vals, c01Val{text: txt, tok: fmt.Sprint(v), dscp: v})
		}
	case "domain":
		// several keys, interleaved → key groups in first-appearance order
		keys := []string{"suffix", "full", "keyword", "regex"}
		var order []string
		byKey := map[string]*c01Group{}
		for i := 0; i < nv; i++ {
			k := keys[r.Intn(len(keys))]
			var pat string
			switch k {
			case "regex":
				// among them expressions that match the EMPTY string: a packet without a domain must still
				// satisfy no domain condition
				pat = []string{`^a\.`, `cdn[0-9]*\.`, `(foo|bar)-`, `\.uk$`, `.*`, `^$`, `^[a-z.]*$`}[r.Intn(7)]
				if pat == `.*` || pat == `^$` || pat == `^[a-z.]*$` {
					stats.Inc("domain.regex_matching_empty_name")
				}
			case "keyword":
				pat = c01Labels[r.Intn(len(c01Labels))]
			default:
				pat = c01RandDomain(r)
			}
			if _, ok := byKey[k]; !ok {
				order = append(order, k)
				byKey[k] = &c01Group{key: k}
			}
			kt := k + ": "
			if k == "suffix" {
				kt = []string{"suffix: ", "domain: ", ""}[r.Intn(3)]
			} else if k == "keyword" {
				kt = []string{"keyword: ", "contains: "}[r.Intn(2)]
			}
			byKey[k].vals = append(byKey[k].vals, c01Val{text: kt + "'" + pat + "'", pat: pat})
			stats.Inc("domain.key." + k)
		}
		// text order = generation order (interleaved): rebuild from a second pass
		var txt []c01Val
		_ = txt
		for _, k := range order {
			gg := *byKey[k]
			gg.dom = len(p.domGroups)
			c.groups = append(c.groups, gg)
			p.domGroups = append(p.domGroups, &c.groups[len(c.groups)-1])
		}
		if len(order) > 1 {
			stats.Inc("domain.multikey")
		}
		return c
	}
	c.groups = []c01Group{g}
	return c
}

func c01CondText(c *c01Cond, r *VRand) string {
	var vals []string
	if c.fn == "domain" && len(c.groups) > 1 {
		// interleave the groups' params round-robin: first appearance order is preserved
		idx := make([]int, len(c.groups))
		for {
			progressed := false
			for gi := range c.groups {
				if idx[gi] < len(c.groups[gi].vals) {
					vals = append(vals, c.groups[gi].vals[idx[gi]].text)
					idx[gi]++
					progressed = true
				}
			}
			if !progressed {
				break
			}
		}
	} else {
		for _, g := range c.groups {
			for _, v := range g.vals {
				vals = append(vals, v.text)
			}
		}
	}
	fn := c.fn
	if (fn == "dip" || fn == "dport") && r.Chance(0.3) {
		fn = map[string]string{"dip": "ip", "dport": "port"}[fn]
	}
	s := fn + "(" + strings.Join(vals, ", ") + ")"
	if c.neg {
		s = "!" + s
	}
	return s
}

func c01CondTokens(c *c01Cond) string {
	var sb strings.Builder
	neg := 0
	if c.neg {
		neg = 1
	}
	fmt.Fprintf(&sb, "C %s %d %d", c.fn, neg, len(c.groups))
	for _, g := range c.groups {
		if c.fn == "domain" {
			fmt.Fprintf(&sb, " G 1 %d", g.dom)
			continue
		}
		fmt.Fprintf(&sb, " G %d", len(g.vals))
		for _, v := range g.vals {
			t := v.tok
			if t == "" {
				t = "-"
			}
			sb.WriteString(" " + t)
		}
	}
	return sb.String()
}

func c01OutText(name string, mark uint32, must bool, style int) string {
	var params []string
	n := name
	if must {
		if style == 1 {
			n = "must_" + name
		} else {
			params = append(params, "must")
		}
	}
	if mark != 0 {
		if mark%2 == 0 {
			params = append(params, fmt.Sprintf("mark: 0x%x", mark))
		} else {
			params = append(params, fmt.Sprintf("mark: %d", mark))
		}
	}
	if len(params) > 0 {
		if style == 2 && len(params) == 2 { // either order
			params[0], params[1] = params[1], params[0]
		}
		return n + "(" + strings.Join(params, ", ") + ")"
	}
	return n
}

func c01GenProg(r *VRand, stats *VStats, maxRules int) *c01Prog {
	return c01GenProgN(r, stats, r.Intn(maxRules+1), 0, c01Large{})
}

// c01Large: shape of a large program. target > 0: the number of filler rules is chosen so that the
// program lowers to exactly `target` match sets, fallback included (`filler` is then ignored);
// everyLpm: every filler rule carries an address set of its own (hundreds of LPM slots).
type c01Large struct {
	target   int
	everyLpm bool
}

// c01CondSets: match sets one condition lowers to (Model.compileBody): one per value for port / pname /
// dscp, one per key group for the others.
func c01CondSets(c *c01Cond) int {
	n := 0
	for gi := range c.groups {
		switch c.fn {
		case "dport", "sport", "pname", "dscp":
			n += len(c.groups[gi].vals)
		default:
			n++
		}
	}
	return n
}

// c01GenProgN: `filler` two-condition rules that (almost) no generated packet satisfies — each is two
// match sets, a third of them with an LPM set of its own — followed by n ordinary random rules.
func c01GenProgN(r *VRand, stats *VStats, n int, filler int, lg c01Large) *c01Prog {
	p := &c01Prog{}
	large := filler > 0 || lg.target > 0
	randOut := func() (string, int, uint32, bool, int) {
		id := c01OutIds[r.Intn(len(c01OutIds))]
		var mark uint32
		if r.Chance(0.4) {
			mark = []uint32{1, 0x800, 0xffffffff, uint32(r.U64())}[r.Intn(4)]
		}
		must := r.Chance(0.25)
		return c01Outs[id], id, mark, must, 1 + r.Intn(2)
	}
	for i := 0; i < n; i++ {
		var ru c01Rule
		nc := 1 + r.Intn(3)
		if r.Chance(0.15) {
			nc = 4 + r.Intn(3)
		}
		if large && nc < 2 {
			nc = 2 // no single-condition rules in large programs: neighbours must not be merged (below)
		}
		for j := 0; j < nc; j++ {
			c := c01GenCond(r, stats, p)
			if large {
				// Large programs probe the match-set limit, so the number of match sets the model derives
				// from the typed program must be the number the builder emits: no rule merging (every rule
				// has >= 2 conditions) and no textually repeated value (DeduplicateParamsOptimizer drops it).
				for gi := range c.groups {
					seen := map[string]bool{}
					var vs []c01Val
					for _, v := range c.groups[gi].vals {
						if !seen[v.text] {
							seen[v.text] = true
							vs = append(vs, v)
						}
					}
					c.groups[gi].vals = vs
				}
			}
			ru.conds = append(ru.conds, c)
		}
		if r.Chance(0.12) {
			ru.mustRules = true
			stats.Inc("rule.must_rules")
		} else {
			ru.outName, ru.outId, ru.mark, ru.must, ru.style = randOut()
		}
		p.rules = append(p.rules, ru)
	}
	// the filler rules come first in the program, but their number may depend on what the ordinary
	// rules lower to (exact target)
	ordinary := p.rules
	p.rules = nil
	odd := false
	if lg.target > 0 {
		sets := 1 // the fallback
		for i := range ordinary {
			for j := range ordinary[i].conds {
				sets += c01CondSets(&ordinary[i].conds[j])
			}
		}
		filler = (lg.target - sets) / 2
		odd = (lg.target-sets)%2 == 1
		if filler < 1 {
			filler, odd = 1, false
		}
	}
	for i := 0; i < filler; i++ {
		var ru c01Rule
		port := 10000 + i
		c2 := c01Cond{fn: "dport", groups: []c01Group{{vals: []c01Val{{text: fmt.Sprint(port), tok: fmt.Sprintf("%d-%d", port, port), lo: port, hi: port}}}}}
		var c1 c01Cond
		if i%3 == 0 || lg.everyLpm {
			pf := netip.PrefixFrom(netip.AddrFrom4([4]byte{172, 16 + byte(i>>16), byte(i >> 8), byte(i)}), 32)
			c1 = c01Cond{fn: "sip", groups: []c01Group{{vals: []c01Val{{text: "'" + pf.Addr().String() + "'", tok: c12Tok(pf), pfx: pf}}}}}
		} else {
			d := i % 64
			c1 = c01Cond{fn: "dscp", groups: []c01Group{{vals: []c01Val{{text: fmt.Sprint(d), tok: fmt.Sprint(d), dscp: d}}}}}
		}
		ru.conds = []c01Cond{c1, c2}
		if i == 0 && odd {
			ru.conds = append(ru.conds, c01Cond{fn: "l4proto", groups: []c01Group{{vals: []c01Val{{text: "tcp", tok: "1", lit: "tcp"}}}}})
		}
		ru.outName, ru.outId, ru.mark, ru.must, ru.style = randOut()
		p.rules = append(p.rules, ru)
	}
	if filler > 0 {
		p.aimFrom = filler
	}
	p.rules = append(p.rules, ordinary...)
	// pointers into conds moved when rules were appended: recompute domGroups
	p.domGroups = nil
	for i := range p.rules {
		for j := range p.rules[i].conds {
			c := &p.rules[i].conds[j]
			if c.fn == "domain" {
				for k := range c.groups {
					c.groups[k].dom = len(p.domGroups)
					p.domGroups = append(p.domGroups, &c.groups[k])
				}
			}
		}
	}
	p.fbName, p.fbId, p.fbMark, p.fbMust, p.fbStyle = randOut()
	var tb, mb strings.Builder
	tb.WriteString("global {}\nrouting {\n")
	fm := 0
	if p.fbMust {
		fm = 1
	}
	fmt.Fprintf(&mb, "prog %d %d %d %d", p.fbId, p.fbMark, fm, len(p.rules))
	for i := range p.rules {
		ru := &p.rules[i]
		var cs []string
		for j := range ru.conds {
			cs = append(cs, c01CondText(&ru.conds[j], r))
		}
		if ru.mustRules {
			tb.WriteString("  " + strings.Join(cs, " && ") + " -> must_rules\n")
			fmt.Fprintf(&mb, " R M %d", len(ru.conds))
		} else {
			tb.WriteString("  " + strings.Join(cs, " && ") + " -> " + c01OutText(ru.outName, ru.mark, ru.must, ru.style) + "\n")
			m := 0
			if ru.must {
				m = 1
			}
			fmt.Fprintf(&mb, " R F %d %d %d %d", ru.outId, ru.mark, m, len(ru.conds))
		}
		for j := range ru.conds {
			mb.WriteString(" " + c01CondTokens(&ru.conds[j]))
		}
	}
	tb.WriteString("  fallback: " + c01OutText(p.fbName, p.fbMark, p.fbMust, p.fbStyle) + "\n}\n")
	// domain key groups with their real patterns, for the composed C01∘C11 model path
	fmt.Fprintf(&mb, " D %d", len(p.domGroups))
	rxId := 0
	for _, g := range p.domGroups {
		fmt.Fprintf(&mb, " %s %d", g.key, len(g.vals))
		for vi := range g.vals {
			if g.key == "regex" {
				g.vals[vi].lo = rxId // reuse the int field as the regex id
				fmt.Fprintf(&mb, " %d", rxId)
				rxId++
			} else {
				fmt.Fprintf(&mb, " %s", hex.EncodeToString([]byte(g.vals[vi].pat)))
			}
		}
	}
	p.text = tb.String()
	p.modelTokens = mb.String()
	return p
}

// reference meaning of a domain key group (the documented pattern kinds; lower-case names only here,
// case / trailing dot are C11's subject)
func c01DomainGroupHolds(g *c01Group, d string) bool {
	if d == "" {
		return false
	}
	for _, v := range g.vals {
		switch g.key {
		case "full":
			if d == v.pat {
				return true
			}
		case "suffix":
			if d == v.pat || strings.HasSuffix(d, "."+v.pat) {
				return true
			}
		case "keyword":
			if strings.Contains(d, v.pat) {
				return true
			}
		case "regex":
			if ok, _ := regexp.MatchString(v.pat, d); ok {
				return true
			}
		}
	}
	return false
}

type c01Pkt struct {
	src, dst     netip.Addr
	sport, dport uint16
	l4           consts.L4ProtoType
	domain       string
	pname        [16]byte
	dscp         uint8
	mac          [6]byte
}

// c01GenPkt builds a packet aimed at rule `target` (each of its conditions is satisfied with high
// probability, at a boundary value when there is one), other fields from pools of the program.
func c01GenPkt(r *VRand, p *c01Prog, stats *VStats) c01Pkt {
	var k c01Pkt
	k.src = c12RandAddr(r)
	k.dst = c12RandAddr(r)
	k.sport = uint16(r.U64())
	k.dport = []uint16{53, 80, 443, uint16(r.U64())}[r.Intn(4)]
	k.l4 = []consts.L4ProtoType{consts.L4ProtoType_TCP, consts.L4ProtoType_UDP}[r.Intn(2)]
	if r.Chance(0.5) {
		k.domain = c01RandDomain(r)
	}
	if r.Chance(0.6) {
		copy(k.pname[:], []string{"curl", "NetworkManager", "systemd-resolve", "exactly16bytes_x", "seventeen_bytes_", "a", "chrome", "b"}[r.Intn(8)])
	}
	k.dscp = []uint8{0, 1, 4, 8, 46, 63, 255}[r.Intn(7)]
	if r.Chance(0.7) {
		k.mac = [6]byte{0x02, 0x42, 0xac, 0x11, 0x00, byte(r.Intn(3))}
	}
	if len(p.rules) == 0 {
		return k
	}
	ru := &p.rules[r.Intn(len(p.rules))]
	if p.aimFrom > 0 && p.aimFrom < len(p.rules) && r.Chance(0.85) {
		ru = &p.rules[p.aimFrom+r.Intn(len(p.rules)-p.aimFrom)]
	}
	for ci := range ru.conds {
		c := &ru.conds[ci]
		if !r.Chance(0.85) {
			continue
		}
		g := &c.groups[r.Intn(len(c.groups))]
		v := g.vals[r.Intn(len(g.vals))]
		switch c.fn {
		case "dip", "sip":
			probes := c12Probes(r, v.pfx)
			a := probes[r.Intn(len(probes))]
			if a.Is4In6() && r.Chance(0.7) {
				a = a.Unmap()
			}
			if c.fn == "dip" {
				k.dst = a
			} else {
				k.src = a
			}
		case "dport", "sport":
			cand := []int{v.lo, v.hi, v.lo - 1, v.hi + 1, (v.lo + v.hi) / 2}
			x := cand[r.Intn(len(cand))]
			if x < 0 {
				x = 0
			}
			if x > 65535 {
				x = 65535
			}
			if c.fn == "dport" {
				k.dport = uint16(x)
			} else {
				k.sport = uint16(x)
			}
		case "l4proto":
			if v.lit == "udp" {
				k.l4 = consts.L4ProtoType_UDP
			} else if v.lit == "tcp" {
				k.l4 = consts.L4ProtoType_TCP
			}
		case "mac":
			k.mac = v.mac
			if r.Chance(0.25) {
				k.mac[r.Intn(6)] ^= byte(1 << uint(r.Intn(8))) // one bit off, in any of the six bytes
				stats.Inc("pkt.mac_one_bit_off")
			}
			if r.Chance(0.15) {
				k.mac = [6]byte{}
				stats.Inc("pkt.zero_mac_vs_mac_rule")
			}
		case "pname":
			k.pname = [16]byte{}
			copy(k.pname[:], v.pname)
			if r.Chance(0.15) {
				k.pname = [16]byte{}
			}
			if r.Chance(0.1) && len(v.pname) > 1 {
				k.pname = [16]byte{}
				copy(k.pname[:], v.pname[:len(v.pname)-1])
			}
			if r.Chance(0.12) && len(v.pname) < 16 { // the rule's name is a proper prefix of the process name
				k.pname = [16]byte{}
				copy(k.pname[:], v.pname+"x")
				stats.Inc("pkt.pname_extends_rule_name")
			}
		case "dscp":
			k.dscp = uint8(v.dscp)
		case "domain":
			switch g.key {
			case "full":
				k.domain = v.pat
			case "suffix":
				k.domain = []string{v.pat, "www." + v.pat, "x" + v.pat, "a.b." + v.pat}[r.Intn(4)]
			case "keyword":
				k.domain = "x" + v.pat + "y.com"
			case "regex":
				k.domain = []string{"a.cdn7.foo-x.uk", "cdn.example.com", "bar-1.org", "za.b"}[r.Intn(4)]
			}
			if r.Chance(0.1) {
				k.domain = ""
			}
		}
	}
	return k
}

func TestVerifC01(t *testing.T) {
	r := NewVRand(VSeed())
	stats := NewVStats()
	st := VOpenStream("c01")
	defer func() { st.Close(); stats.Write("c01") }()
	log := logrus.New()
	log.SetLevel(logrus.PanicLevel)

	nProg, nPkt, maxRules, nLarge := 250, 60, 12, 5
	if VThorough() {
		nProg, nPkt, maxRules, nLarge = 2500, 80, 40, 24
	}
	locationFinder := assets.NewLocationFinder(nil)
	stats.Sample("production optimizer chain (regenerated from control_plane.go): " + strings.Join(c01ProductionOptimizerExprs, " ; "))
	name2id := map[string]uint8{}
	for i, n := range c01Outs {
		name2id[n] = uint8(i)
	}
	// the match-set limit is the code's (`consts.MaxMatchSetLen`, a variable settable at link time)
	limit := consts.MaxMatchSetLen
	st.Emit(fmt.Sprintf("limit %d", limit), fmt.Sprintf("limit=%d", limit))
	for pi := 0; pi < nProg; pi++ {
		mr := maxRules
		if pi%10 == 0 {
			mr = 2
		}
		var p *c01Prog
		if pi < nLarge {
			// "up to the match-set limit": ≈ 2 match sets per filler rule, so the ordinary rules at the
			// end (domain / ip / mac sets among them) sit just below, across and just above position 1024
			switch pi {
			case 0: // exactly at the limit: accepted
				p = c01GenProgN(r, stats, 12+r.Intn(12), 0, c01Large{target: limit})
				stats.Inc("prog.target_exactly_at_limit")
			case 1: // one match set more: refused
				p = c01GenProgN(r, stats, 12+r.Intn(12), 0, c01Large{target: limit + 1})
				stats.Inc("prog.target_one_above_limit")
			case 2: // every filler rule with an address set of its own: far more than 256 LPM slots
				p = c01GenProgN(r, stats, 12+r.Intn(12), 0, c01Large{target: limit - r.Intn(40), everyLpm: true})
				stats.Inc("prog.every_rule_own_lpm_set")
			default:
				p = c01GenProgN(r, stats, 12+r.Intn(12), limit*[]int{300, 380, 420, 440, 460, 470, 480, 490, 495, 500}[r.Intn(10)]/1024, c01Large{})
			}
			stats.Inc("prog.large")
		} else {
			p = c01GenProg(r, stats, mr)
			if len(p.rules) == 0 && r.Chance(0.85) { // keep the empty program rare
				p = c01GenProg(r, stats, 3)
			}
		}
		if pi < 2 {
			stats.Sample(p.text)
		}
		var matcher *RoutingMatcher
		nsets := 0
		buildOut := VRecover(func() string {
			sections, err := config_parser.Parse(p.text)
			if err != nil {
				return "err:parse:" + err.Error()
			}
			conf, err := config.New(sections)
			if err != nil {
				if p.aimFrom > 0 {
					return "err:build" // wherever the size of a large program is refused, it is the limit's refusal
				}
				return "err:config:" + err.Error()
			}
			// the production pipeline of NewControlPlane: the optimizer list is regenerated from
			// control_plane.go by translators/optchain on every run (geodata expansion is C04's subject:
			// no geosite/geoip reference is generated here, so the reader opens no file)
			program, err := routing.NewNormalizedProgram(conf.Routing.Rules, conf.Routing.Fallback,
				c01ProductionOptimizers(log, locationFinder)...)
			if err != nil {
				if p.aimFrom > 0 {
					return "err:build"
				}
				return "err:optimizers:" + err.Error()
			}
			b, err := NewRoutingMatcherBuilderFromProgram(log, program, name2id, nil)
			if err != nil {
				if p.aimFrom > 0 {
					return "err:build" // large program: the model predicts exactly when (more than MaxMatchSetLen match sets)
				}
				return "err:builder:" + err.Error()
			}
			m, err := b.BuildUserspace()
			if err != nil {
				return "err:build" // the model predicts this one: a domain set beyond the match-set limit
			}
			matcher = m
			nsets = len(m.compiledMatches)
			return "ok"
		})
		if matcher == nil && p.exotic && (strings.HasPrefix(buildOut, "err:config:") || strings.HasPrefix(buildOut, "err:optimizers:") || strings.HasPrefix(buildOut, "err:builder:")) {
			// a literal outside the property's alphabet was refused with a clean configuration error:
			// the property does not speak about such programs
			stats.Inc("prog.exotic_literal_rejected")
			continue
		}
		st.Emit(p.modelTokens, buildOut)
		stats.Add("rules", len(p.rules))
		stats.Add("matchsets", nsets)
		stats.Max("max_matchsets", nsets)
		if p.exotic {
			stats.Inc("prog.exotic_literal_accepted")
		}
		if pi < nLarge && pi <= 2 {
			// the directed large programs: what was aimed at was reached (the verdict is the model's)
			switch {
			case pi == 0 && buildOut == "ok" && nsets == limit:
				stats.Inc("prog.accepted_with_exactly_limit_match_sets")
			case pi == 1 && buildOut == "err:build":
				stats.Inc("prog.refused_with_limit_plus_one_match_sets")
			case pi == 2 && buildOut == "ok":
				stats.Max("prog.max_lpm_sets_in_one_program", p.aimFrom)
			}
		}
		if matcher == nil {
			stats.Inc("prog.build_failed")
			if buildOut == "err:build" {
				stats.Inc("prog.rejected_beyond_match_set_limit")
			}
			continue
		}
		if len(p.rules) == 0 {
			stats.Inc("prog.empty")
		}
		cp := &ControlPlane{}
		cp.routingMatcher = matcher
		for k := 0; k < nPkt; k++ {
			pk := c01GenPkt(r, p, stats)
			src16, dst16 := pk.src.As16(), pk.dst.As16()
			var mac16 [16]byte
			copy(mac16[10:], pk.mac[:])
			dom := "-"
			if len(p.domGroups) > 0 {
				var sb strings.Builder
				for _, g := range p.domGroups {
					if c01DomainGroupHolds(g, pk.domain) {
						sb.WriteByte('1')
					} else {
						sb.WriteByte('0')
					}
				}
				dom = sb.String()
			}
			ipver := 2
			if pk.dst.Is4() || pk.dst.Is4In6() {
				ipver = 1
			}
			viaRoute := r.Chance(0.8)
			if !viaRoute && r.Chance(0.3) {
				ipver = 3 - ipver // Match called directly with the other version bit
			}
			if pk.domain == "" {
				for _, g := range p.domGroups {
					if g.key == "regex" {
						for _, v := range g.vals {
							if ok, _ := regexp.MatchString(v.pat, ""); ok {
								stats.Inc("pkt.no_domain_vs_regex_matching_empty_string")
							}
						}
					}
				}
			}
			nameTok, rxTok := "-", "-"
			if pk.domain != "" && len(p.domGroups) > 0 {
				nameTok = hex.EncodeToString([]byte(pk.domain))
				var hits []string
				for _, g := range p.domGroups {
					if g.key != "regex" {
						continue
					}
					for _, v := range g.vals {
						if ok, _ := regexp.MatchString(v.pat, pk.domain); ok {
							hits = append(hits, fmt.Sprint(v.lo))
						}
					}
				}
				if len(hits) > 0 {
					rxTok = strings.Join(hits, ",")
				}
				stats.Inc("pkt.with_name_composed_path")
			}
			op := fmt.Sprintf("pkt %s %s %d %d %d %d %s %d %s %s N %s %s",
				hex.EncodeToString(src16[:]), hex.EncodeToString(dst16[:]), pk.sport, pk.dport, ipver, int(pk.l4),
				hex.EncodeToString(pk.pname[:]), pk.dscp, hex.EncodeToString(mac16[:]), dom, nameTok, rxTok)
			if viaRoute {
				// the raw arguments of Route: the model does the marshalling (As16, IP version from the
				// destination, MAC into the 16-byte form) — Model.pktOfRoute
				is4 := func(a netip.Addr) int {
					if a.Is4() {
						return 1
					}
					return 0
				}
				op = fmt.Sprintf("rpkt %d %s %d %s %d %d %d %s %d %s %s N %s %s",
					is4(pk.src), hex.EncodeToString(pk.src.AsSlice()), is4(pk.dst), hex.EncodeToString(pk.dst.AsSlice()),
					pk.sport, pk.dport, int(pk.l4), hex.EncodeToString(pk.pname[:]), pk.dscp, hex.EncodeToString(pk.mac[:]),
					dom, nameTok, rxTok)
				stats.Inc("pkt.via_Route_raw_args")
			} else {
				stats.Inc("pkt.via_Match_direct")
			}
			out := VRecover(func() string {
				var ob consts.OutboundIndex
				var mark uint32
				var must bool
				var err error
				if viaRoute {
					rr := &bpfRoutingResult{Mac: pk.mac, Pname: pk.pname, Dscp: pk.dscp}
					ob, mark, must, err = cp.Route(netip.AddrPortFrom(pk.src, pk.sport), netip.AddrPortFrom(pk.dst, pk.dport), pk.domain, pk.l4, rr)
				} else {
					ob, mark, must, err = matcher.Match(src16, dst16, pk.sport, pk.dport, consts.IpVersionType(ipver), pk.l4, pk.domain, pk.pname, pk.dscp, mac16)
				}
				if err != nil {
					return "err"
				}
				m := 0
				if must {
					m = 1
				}
				stats.Inc(fmt.Sprintf("result.out%d", ob))
				if must {
					stats.Inc("result.must")
				}
				if mark != 0 {
					stats.Inc("result.marked")
				}
				return fmt.Sprintf("out=%d mark=%d must=%d", ob, mark, m)
			})
			st.Emit(op, out)
		}
	}
	stats.Add("ops", st.N)
}
