package control

// C01 correspondence harness: generated routing sections are rendered as dae config text, parsed by
// the real config_parser + config.New (which applies patchMustOutbound), compiled by the real
// NewRoutingMatcherBuilder / BuildUserspace, and evaluated by the real ControlPlane.Route /
// RoutingMatcher.Match on packets generated FROM the rules (boundary values of every range, prefix,
// MAC, pname, DSCP, domain).  The Lean driver (c01drv) receives the generator's TYPED program — what
// the user meant — and the packet, and answers with the proved first-match decision.

import (
	"encoding/binary"
	"encoding/hex"
	"fmt"
	"github.com/daeuniverse/dae/common/assets"
	"net/netip"
	"regexp"
	"sort"
	"strings"
	"sync"
	"testing"

	"github.com/daeuniverse/dae/common/consts"
	"github.com/daeuniverse/dae/component/routing"
	"github.com/daeuniverse/dae/config"
	"github.com/daeuniverse/dae/pkg/config_parser"
	"github.com/sirupsen/logrus"
)

type c01Val struct {
	text string // as written in the config
	tok  string // typed token for the model
	ttok string // the value AS TEXT for the model (`T?<hex>`): the model parses it itself (Text.lean)
	// typed payloads used to derive boundary packets
	pfx    netip.Prefix
	lo, hi int
	mac    [6]byte
	pname  string
	dscp   int
	lit    string
	pat    string
}
type c01Group struct {
	key  string
	vals []c01Val
	dom  int // oracle index for domain groups
}
type c01Cond struct {
	fn     string
	neg    bool
	groups []c01Group
}
type c01Rule struct {
	conds     []c01Cond
	outName   string
	outId     int
	mark      uint32
	must      bool
	mustRules bool
	style     int // how must is written: 0 none, 1 "must_" prefix, 2 "(must)" param
}
type c01Prog struct {
	ipPool            [][]c01Val // address sets already used by a dip/sip condition of this program
	large             bool       // probes the match-set limit: no refusable values (the verdict must be the limit's)
	invalid           bool       // carries a value / outbound the real parser functions must refuse (the model says err:builder)
	exotic            bool       // carries a literal outside the property's alphabet (l4proto icmp, ipversion 5, inverted port range, dscp > 63)
	aimFrom           int        // > 0: packets are mostly aimed at rules[aimFrom:] (large programs: the late rules)
	rules             []c01Rule
	fbName            string
	fbId              int
	fbMark            uint32
	fbMust            bool
	fbStyle           int
	domGroups         []*c01Group // in program order
	text, modelTokens string
}

// outbound ids as NewControlPlane assigns them: position in [direct, block, groups…]; production allows
// ids 0..OutboundUserDefinedMax (0xFB).  Rules use a boundary-biased subset of them.
var c01Outs = func() []string {
	o := []string{"direct", "block"}
	// group names as users write them: among them names that begin with letters of "must_" (the
	// `must_` prefix of an outbound must be removed as a prefix, not as a set of characters), names
	// that contain "must", and names that look like the reserved words
	stems := []string{"g", "us_", "steam", "m", "t", "_", "su", "mustang", "must", "tt_s", "direct_", "block"}
	for i := 2; i <= int(consts.OutboundUserDefinedMax); i++ {
		o = append(o, fmt.Sprintf("%s%d", stems[i%len(stems)], i))
	}
	return o
}()

// (the largest table NewControlPlane accepts has OutboundUserDefinedMax names: ids 0 .. OutboundUserDefinedMax-1)
var c01OutIds = []int{0, 1, 2, 3, 4, 5, 6, 7, 127, 128, int(consts.OutboundUserDefinedMax) - 2, int(consts.OutboundUserDefinedMax) - 1}
var c01Labels = []string{"example", "test", "cdn", "a", "b1", "foo-bar", "x_y", "mail", "com", "org", "net", "co", "uk"}

// c01X: the extended generator classes.  Off by default: other properties' harnesses (C02) reuse
// c01GenProg / c01GenPkt and must keep their distribution; TestVerifC01 switches them on.
var c01X struct {
	on bool
}

// c01AssignIds: NewControlPlane's group-table statements, regenerated from control_plane.go by
// translators/c01ids (set by c01_ext_test.go, which only the C01 check compiles in).
var c01AssignIds func(names []string) (map[string]uint8, error)

func c01Hex(s string) string {
	if s == "" {
		return "-"
	}
	return hex.EncodeToString([]byte(s))
}

// c01Quote: a value is written bare when the lexer takes it as one token anyway, quoted otherwise
func c01Quote(r *VRand, s string) string {
	if s == "" || strings.ContainsAny(s, " ,()'\"") || r.Chance(0.2) {
		return "'" + s + "'"
	}
	return s
}

// c01NumForm: a number in one of the notations strconv.ParseUint(s, 0, …) reads
func c01NumForm(r *VRand, v uint64, stats *VStats) string {
	switch r.Intn(9) {
	case 0:
		stats.Inc("num.hex")
		return fmt.Sprintf("0x%x", v)
	case 1:
		stats.Inc("num.HEX")
		return fmt.Sprintf("0X%X", v)
	case 2:
		stats.Inc("num.octal_leading_zero")
		return fmt.Sprintf("0%o", v)
	case 3:
		stats.Inc("num.octal_0o")
		return fmt.Sprintf("0o%o", v)
	case 4:
		stats.Inc("num.binary")
		return fmt.Sprintf("0b%b", v)
	case 5:
		d := fmt.Sprint(v)
		if len(d) >= 2 {
			stats.Inc("num.underscore")
			return d[:1] + "_" + d[1:]
		}
		return d
	case 6:
		stats.Inc("num.hex_underscore")
		return fmt.Sprintf("0x_%x", v)
	default:
		return fmt.Sprint(v)
	}
}

// c01BadNum: texts ParseUint(s, 0, bits) refuses
func c01BadNum(r *VRand, bits int) string {
	over := "4294967296"
	if bits == 8 {
		over = "256"
	}
	return []string{over, "0x", "0b", "08", "8_", "_8", "1__0", "-1", "+1", "abc", "", "0x1g", "1e3"}[r.Intn(13)]
}

func c01RandDomain(r *VRand) string {
	n := 1 + r.Intn(4)
	parts := make([]string, n)
	for i := range parts {
		parts[i] = c01Labels[r.Intn(len(c01Labels))]
	}
	return strings.Join(parts, ".")
}

func c01GenCond(r *VRand, stats *VStats, p *c01Prog) c01Cond {
	fns := []string{"dip", "sip", "dport", "sport", "l4proto", "ipversion", "mac", "pname", "dscp", "domain"}
	fn := fns[r.Intn(len(fns))]
	c := c01Cond{fn: fn, neg: r.Chance(0.3)}
	stats.Inc("cond." + fn)
	if c.neg {
		stats.Inc("cond.negated")
	}
	nv := 1 + r.Intn(4)
	if r.Chance(0.5) {
		nv = 1
	} else if r.Chance(0.25) {
		// long value lists: `Function.String` elides everything after the fifth parameter, hash keys and
		// caches built from a rendered call must not confuse two lists that agree on their first values
		nv = []int{5, 6, 7, 9, 12, 40}[r.Intn(6)]
		stats.Inc("cond.long_value_list")
	}
	g := c01Group{}
	switch fn {
	case "dip", "sip":
		var longSets [][]c01Val
		for _, set := range p.ipPool {
			if len(set) > 5 {
				longSets = append(longSets, set)
			}
		}
		if (len(longSets) > 0 && r.Chance(0.35)) || (len(p.ipPool) > 0 && r.Chance(0.1)) {
			// near twin of an earlier set: all values but one are the same (same length, and for a long
			// list usually the same first values in text and in canonical order) — it must get its
			// own LPM slot
			base := p.ipPool[r.Intn(len(p.ipPool))]
			if len(longSets) > 0 {
				base = longSets[r.Intn(len(longSets))]
			}
			g.vals = append([]c01Val(nil), base...)
			pf := c12RandPrefix(r, NewVStats())
			if r.Bool() {
				pf = netip.PrefixFrom(netip.AddrFrom4([4]byte{10, byte(r.Intn(2)), byte(r.Intn(4)), byte(1 + r.Intn(250))}), 32)
			}
			g.vals[r.Intn(len(g.vals))] = c01Val{text: "'" + pf.String() + "'", tok: c12Tok(pf), pfx: pf}
			stats.Inc("cond.ip_set_near_twin")
			if len(g.vals) > 5 {
				stats.Inc("cond.ip_set_near_twin.long")
			}
			defer func() { p.ipPool = append(p.ipPool, append([]c01Val(nil), c.groups[0].vals...)) }()
			break
		}
		if len(p.ipPool) > 0 && r.Chance(0.3) {
			// The same address set again, under the same or the OTHER direction: the builder shares one
			// LPM slot between identical canonical sets whatever the match type, while the lookups use
			// the destination for dip and the source for sip.
			g.vals = append([]c01Val(nil), p.ipPool[r.Intn(len(p.ipPool))]...)
			if r.Bool() && len(g.vals) > 1 {
				g.vals[0], g.vals[len(g.vals)-1] = g.vals[len(g.vals)-1], g.vals[0] // same set, other order
			}
			stats.Inc("cond.ip_set_reused")
			break
		}
		defer func() { p.ipPool = append(p.ipPool, append([]c01Val(nil), c.groups[0].vals...)) }()
		for i := 0; i < nv; i++ {
			pf := c12RandPrefix(r, NewVStats())
			if r.Chance(0.5) { // small clustered v4 space so that packets hit
				var b [4]byte
				b[0] = byte(10 + r.Intn(2))
				b[1] = byte(r.Intn(2))
				b[2] = byte(r.Intn(4))
				bits := []int{8, 15, 16, 24, 30, 32, 0}[r.Intn(7)]
				pf = netip.PrefixFrom(netip.AddrFrom4(b), bits)
			}
			txt := pf.String()
			if pf.Bits() == pf.Addr().BitLen() && r.Chance(0.5) {
				txt = pf.Addr().String() // bare address = host route
			}
			g.vals = append(g.vals, c01Val{text: "'" + txt + "'", tok: c12Tok(pf), pfx: pf})
		}
	case "dport", "sport":
		for i := 0; i < nv; i++ {
			lo := []int{0, 1, 53, 80, 443, 1024, 65535, r.Intn(65536)}[r.Intn(8)]
			hi := lo
			txt := fmt.Sprint(lo)
			if r.Chance(0.5) {
				hi = lo + []int{0, 1, 10, 1000, 65535}[r.Intn(5)]
				if hi > 65535 {
					hi = 65535
				}
				if r.Chance(0.05) && lo > 0 { // inverted range: never matches
					hi = lo - 1
					p.exotic = true
				}
				txt = fmt.Sprintf("%d-%d", lo, hi)
			}
			v := c01Val{text: txt, tok: fmt.Sprintf("%d-%d", lo, hi), lo: lo, hi: hi}
			if c01X.on {
				raw := txt
				if r.Chance(0.2) {
					// other spellings of the same range: leading zeros (decimal, not octal), a plus sign
					one := func(x int) string {
						return []string{"%d", "%05d", "+%d", "0%d", "%d"}[r.Intn(5)]
					}
					if hi == lo && !strings.Contains(txt, "-") {
						raw = fmt.Sprintf(one(lo), lo)
					} else {
						raw = fmt.Sprintf(one(lo), lo) + "-" + fmt.Sprintf(one(hi), hi)
					}
					stats.Inc("val.port_other_spelling")
				}
				if !p.large && r.Chance(0.003) {
					raw = []string{"80-", "-80", "65536", "0x50", "8_0", "80-90-100", "", "80 ", "1-65536", "http", "80--1"}[r.Intn(11)]
					p.invalid = true
					stats.Inc("val.port_invalid")
				}
				v.text = c01Quote(r, raw)
				v.ttok = "TP" + c01Hex(raw)
			}
			g.vals = append(g.vals, v)
		}
	case "l4proto":
		for i := 0; i < nv; i++ {
			lit := []string{"tcp", "udp", "tcp", "udp", "icmp"}[r.Intn(5)]
			bit := map[string]int{"tcp": 1, "udp": 2, "icmp": 0}[lit]
			p.exotic = p.exotic || lit == "icmp"
			v := c01Val{text: lit, tok: fmt.Sprint(bit), lit: lit}
			if c01X.on {
				v.ttok = "TL" + c01Hex(v.lit)
			}
			g.vals = append(g.vals, v)
		}
	case "ipversion":
		for i := 0; i < nv; i++ {
			lit := []string{"4", "6", "4", "6", "5"}[r.Intn(5)]
			bit := map[string]int{"4": 1, "6": 2, "5": 0}[lit]
			p.exotic = p.exotic || lit == "5"
			v := c01Val{text: lit, tok: fmt.Sprint(bit), lit: lit}
			if c01X.on {
				v.ttok = "TV" + c01Hex(v.lit)
			}
			g.vals = append(g.vals, v)
		}
	case "mac":
		for i := 0; i < nv; i++ {
			var m [6]byte
			switch r.Intn(4) {
			case 0:
				m = [6]byte{0x02, 0x42, 0xac, 0x11, 0x00, byte(r.Intn(3))}
			case 1:
				m = [6]byte{0xff, 0xff, 0xff, 0xff, 0xff, 0xff}
			default:
				binary.BigEndian.PutUint32(m[2:], uint32(r.U64()))
				m[0] = byte(r.Intn(256))
			}
			if r.Chance(0.03) {
				m = [6]byte{} // zero MAC listed explicitly
			}
			txt := fmt.Sprintf("%02x:%02x:%02x:%02x:%02x:%02x", m[0], m[1], m[2], m[3], m[4], m[5])
			if r.Chance(0.3) {
				txt = strings.ToUpper(txt)
			}
			v := c01Val{text: "'" + txt + "'", tok: hex.EncodeToString(m[:]), mac: m}
			if c01X.on {
				if r.Chance(0.3) { // mixed case, digit by digit
					b := []byte(txt)
					for i := range b {
						if r.Bool() {
							b[i] = strings.ToUpper(string(b[i]))[0]
						}
					}
					txt = string(b)
				}
				if !p.large && r.Chance(0.003) {
					txt = []string{"2:42:ac:11:0:2", "02-42-ac-11-00-02", "02:42:ac:11:00:02:03", "02:42:ac:11:00", "0242.ac11.0002", "02:42:ac:11:00:0g", "", "02:42:ac:11:00:002"}[r.Intn(8)]
					p.invalid = true
					stats.Inc("val.mac_invalid")
				}
				v.text = "'" + txt + "'"
				v.ttok = "TM" + c01Hex(txt)
			}
			g.vals = append(g.vals, v)
		}
	case "pname":
		for i := 0; i < nv; i++ {
			base := []string{"curl", "NetworkManager", "systemd-resolved", "exactly16bytes_x", "seventeen_bytes_x", "a", "chrome", ""}[r.Intn(8)]
			if base == "" {
				stats.Inc("cond.pname.empty_name")
			} else if r.Chance(0.2) {
				base = base + strings.Repeat("z", r.Intn(20))
			}
			g.vals = append(g.vals, c01Val{text: "'" + base + "'", tok: hex.EncodeToString([]byte(base)), pname: base})
		}
	case "dscp":
		for i := 0; i < nv; i++ {
			v := []int{0, 1, 4, 8, 46, 63, 255}[r.Intn(7)]
			p.exotic = p.exotic || v > 63
			txt := fmt.Sprint(v)
			if r.Chance(0.3) {
				txt = fmt.Sprintf("0x%x", v)
			}
			val := c01Val{text: txt, tok: fmt.Sprint(v), dscp: v}
			if c01X.on {
				raw := c01NumForm(r, uint64(v), stats)
				if !p.large && r.Chance(0.003) {
					raw = c01BadNum(r, 8)
					p.invalid = true
					stats.Inc("val.dscp_invalid")
				}
				val.text = c01Quote(r, raw)
				val.ttok = "TD" + c01Hex(raw)
			}
			g.vals = append(g.vals, val)
		}
	case "domain":
		// several keys, interleaved → key groups in first-appearance order
		keys := []string{"suffix", "full", "keyword", "regex"}
		var order []string
		byKey := map[string]*c01Group{}
		for i := 0; i < nv; i++ {
			k := keys[r.Intn(len(keys))]
			var pat string
			switch k {
			case "regex":
				// among them expressions that match the EMPTY string: a packet without a domain must still
				// satisfy no domain condition
				pat = []string{`^a\.`, `cdn[0-9]*\.`, `(foo|bar)-`, `\.uk$`, `.*`, `^$`, `^[a-z.]*$`}[r.Intn(7)]
				if pat == `.*` || pat == `^$` || pat == `^[a-z.]*$` {
					stats.Inc("domain.regex_matching_empty_name")
				}
			case "keyword":
				pat = c01Labels[r.Intn(len(c01Labels))]
			default:
				pat = c01RandDomain(r)
			}
			if _, ok := byKey[k]; !ok {
				order = append(order, k)
				byKey[k] = &c01Group{key: k}
			}
			kt := k + ": "
			if k == "suffix" {
				kt = []string{"suffix: ", "domain: ", ""}[r.Intn(3)]
			} else if k == "keyword" {
				kt = []string{"keyword: ", "contains: "}[r.Intn(2)]
			}
			byKey[k].vals = append(byKey[k].vals, c01Val{text: kt + "'" + pat + "'", pat: pat})
			stats.Inc("domain.key." + k)
		}
		// text order = generation order (interleaved): rebuild from a second pass
		var txt []c01Val
		_ = txt
		for _, k := range order {
			gg := *byKey[k]
			gg.dom = len(p.domGroups)
			c.groups = append(c.groups, gg)
			p.domGroups = append(p.domGroups, &c.groups[len(c.groups)-1])
		}
		if len(order) > 1 {
			stats.Inc("domain.multikey")
		}
		return c
	}
	c.groups = []c01Group{g}
	return c
}

func c01CondText(c *c01Cond, r *VRand) string {
	var vals []string
	if c.fn == "domain" && len(c.groups) > 1 {
		// interleave the groups' params round-robin: first appearance order is preserved
		idx := make([]int, len(c.groups))
		for {
			progressed := false
			for gi := range c.groups {
				if idx[gi] < len(c.groups[gi].vals) {
					vals = append(vals, c.groups[gi].vals[idx[gi]].text)
					idx[gi]++
					progressed = true
				}
			}
			if !progressed {
				break
			}
		}
	} else {
		for _, g := range c.groups {
			for _, v := range g.vals {
				vals = append(vals, v.text)
			}
		}
	}
	fn := c.fn
	if (fn == "dip" || fn == "dport") && r.Chance(0.3) {
		fn = map[string]string{"dip": "ip", "dport": "port"}[fn]
	}
	s := fn + "(" + strings.Join(vals, ", ") + ")"
	if c.neg {
		s = "!" + s
	}
	return s
}

func c01CondTokens(c *c01Cond) string {
	var sb strings.Builder
	neg := 0
	if c.neg {
		neg = 1
	}
	fmt.Fprintf(&sb, "C %s %d %d", c.fn, neg, len(c.groups))
	for _, g := range c.groups {
		if c.fn == "domain" {
			fmt.Fprintf(&sb, " G 1 %d", g.dom)
			continue
		}
		fmt.Fprintf(&sb, " G %d", len(g.vals))
		for _, v := range g.vals {
			t := v.tok
			if t == "" {
				t = "-"
			}
			if c01X.on && v.ttok != "" {
				t = v.ttok
			}
			sb.WriteString(" " + t)
		}
	}
	return sb.String()
}

func c01OutText(name string, mark uint32, must bool, style int) string {
	var params []string
	n := name
	if must {
		if style == 1 {
			n = "must_" + name
		} else {
			params = append(params, "must")
		}
	}
	if mark != 0 {
		if mark%2 == 0 {
			params = append(params, fmt.Sprintf("mark: 0x%x", mark))
		} else {
			params = append(params, fmt.Sprintf("mark: %d", mark))
		}
	}
	if len(params) > 0 {
		if style == 2 && len(params) == 2 { // either order
			params[0], params[1] = params[1], params[0]
		}
		return n + "(" + strings.Join(params, ", ") + ")"
	}
	return n
}

// c01OutX: the outbound of a rule (or the fallback) as users may write it — `must_` prefix and / or the
// word `must`, several `mark:` parameters (the last one counts), every number notation, any parameter
// order — together with the structured form for the model (`<namehex> <np> {<keyhex> <valhex>}`, which
// Outbound.lean patches and parses itself).  `name == ""`: a `must_rules` line.
func c01OutX(r *VRand, stats *VStats, p *c01Prog, name string, mark uint32, must bool, style int) (text, tokens string) {
	type kv struct{ k, v string }
	var params []kv
	written := name
	if name == "" {
		written = "must_rules"
		if r.Chance(0.1) { // parameters on must_rules are read and have no effect
			params = append(params, []kv{{"", "must"}, {"mark", "7"}}[r.Intn(2)])
			stats.Inc("out.must_rules_with_params")
		}
	} else {
		if must {
			switch {
			case style == 1 && r.Chance(0.15):
				written = "must_" + name
				params = append(params, kv{"", "must"}) // both spellings at once
				stats.Inc("out.must_prefix_and_word")
			case style == 1:
				written = "must_" + name
			default:
				params = append(params, kv{"", "must"})
				if r.Chance(0.1) {
					params = append(params, kv{"", "must"})
					stats.Inc("out.must_twice")
				}
			}
		}
		if mark != 0 || r.Chance(0.05) {
			if r.Chance(0.2) { // an earlier mark that is overridden
				params = append(params, kv{"mark", c01NumForm(r, uint64(r.U64()%1000+1), stats)})
				stats.Inc("out.mark_overridden")
			}
			params = append(params, kv{"mark", c01NumForm(r, uint64(mark), stats)})
			if mark == 0 {
				stats.Inc("out.mark_zero_written")
			}
		}
		// any order, as long as the marks keep theirs
		if len(params) > 1 && r.Bool() {
			var marks, others []kv
			for _, q := range params {
				if q.k == "mark" {
					marks = append(marks, q)
				} else {
					others = append(others, q)
				}
			}
			params = append(append([]kv(nil), marks...), others...)
		}
		if !p.large && r.Chance(0.004) {
			bad := []kv{{"", "Must"}, {"", "may"}, {"mark", c01BadNum(r, 32)}, {"must", "1"}, {"fwmark", "1"}, {"", ""}}[r.Intn(6)]
			params = append(params, kv{})
			at := r.Intn(len(params))
			copy(params[at+1:], params[at:])
			params[at] = bad
			p.invalid = true
			stats.Inc("out.invalid_param")
		}
		if !p.large && r.Chance(0.003) {
			written = []string{"nosuchgroup", "must_must_" + name, "Direct", name + "_"}[r.Intn(4)]
			p.invalid = true
			stats.Inc("out.unknown_group")
		}
	}
	var tp, tk []string
	for _, q := range params {
		val := q.v
		if val == "" || r.Chance(0.15) {
			val = "'" + val + "'"
		}
		if q.k == "" {
			tp = append(tp, val)
		} else {
			tp = append(tp, q.k+[]string{": ", ":", " : "}[r.Intn(3)]+val)
		}
		tk = append(tk, c01Hex(q.k)+" "+c01Hex(q.v))
	}
	text = written
	if len(tp) > 0 {
		text += "(" + strings.Join(tp, ", ") + ")"
	}
	tokens = fmt.Sprintf("%s %d", c01Hex(written), len(params))
	if len(tk) > 0 {
		tokens += " " + strings.Join(tk, " ")
	}
	return
}

func c01GenProg(r *VRand, stats *VStats, maxRules int) *c01Prog {
	return c01GenProgN(r, stats, r.Intn(maxRules+1), 0, c01Large{})
}

// c01Large: shape of a large program. target > 0: the number of filler rules is chosen so that the
// program lowers to exactly `target` match sets, fallback included (`filler` is then ignored);
// everyLpm: every filler rule carries an address set of its own (hundreds of LPM slots).
type c01Large struct {
	target   int
	everyLpm bool
}

// c01CondSets: match sets one condition lowers to (Model.compileBody): one per value for port / pname /
// dscp, one per key group for the others.
func c01CondSets(c *c01Cond) int {
	n := 0
	for gi := range c.groups {
		switch c.fn {
		case "dport", "sport", "pname", "dscp":
			n += len(c.groups[gi].vals)
		default:
			n++
		}
	}
	return n
}

// c01GenProgN: `filler` two-condition rules that (almost) no generated packet satisfies — each is two
// match sets, a third of them with an LPM set of its own — followed by n ordinary random rules.
func c01GenProgN(r *VRand, stats *VStats, n int, filler int, lg c01Large) *c01Prog {
	large := filler > 0 || lg.target > 0
	p := &c01Prog{large: large}
	randOut := func() (string, int, uint32, bool, int) {
		id := c01OutIds[r.Intn(len(c01OutIds))]
		var mark uint32
		if r.Chance(0.4) {
			mark = []uint32{1, 0x800, 0xffffffff, uint32(r.U64())}[r.Intn(4)]
		}
		must := r.Chance(0.25)
		return c01Outs[id], id, mark, must, 1 + r.Intn(2)
	}
	for i := 0; i < n; i++ {
		var ru c01Rule
		nc := 1 + r.Intn(3)
		if r.Chance(0.15) {
			nc = 4 + r.Intn(3)
		}
		if large && nc < 2 {
			nc = 2 // no single-condition rules in large programs: neighbours must not be merged (below)
		}
		for j := 0; j < nc; j++ {
			c := c01GenCond(r, stats, p)
			if large {
				// Large programs probe the match-set limit, so the number of match sets the model derives
				// from the typed program must be the number the builder emits: no rule merging (every rule
				// has >= 2 conditions) and no textually repeated value (DeduplicateParamsOptimizer drops it).
				for gi := range c.groups {
					seen := map[string]bool{}
					var vs []c01Val
					for _, v := range c.groups[gi].vals {
						val := strings.Trim(v.text, "'") // the value itself: `80` and `'80'` are one parameter
						if !seen[val] {
							seen[val] = true
							vs = append(vs, v)
						}
					}
					c.groups[gi].vals = vs
				}
			}
			ru.conds = append(ru.conds, c)
		}
		if r.Chance(0.12) {
			ru.mustRules = true
			stats.Inc("rule.must_rules")
		} else {
			ru.outName, ru.outId, ru.mark, ru.must, ru.style = randOut()
		}
		p.rules = append(p.rules, ru)
	}
	// the filler rules come first in the program, but their number may depend on what the ordinary
	// rules lower to (exact target)
	ordinary := p.rules
	p.rules = nil
	odd := false
	if lg.target > 0 {
		sets := 1 // the fallback
		for i := range ordinary {
			for j := range ordinary[i].conds {
				sets += c01CondSets(&ordinary[i].conds[j])
			}
		}
		filler = (lg.target - sets) / 2
		odd = (lg.target-sets)%2 == 1
		if filler < 1 {
			filler, odd = 1, false
		}
	}
	for i := 0; i < filler; i++ {
		var ru c01Rule
		port := 10000 + i
		c2 := c01Cond{fn: "dport", groups: []c01Group{{vals: []c01Val{{text: fmt.Sprint(port), tok: fmt.Sprintf("%d-%d", port, port), lo: port, hi: port}}}}}
		var c1 c01Cond
		if i%3 == 0 || lg.everyLpm {
			pf := netip.PrefixFrom(netip.AddrFrom4([4]byte{172, 16 + byte(i>>16), byte(i >> 8), byte(i)}), 32)
			c1 = c01Cond{fn: "sip", groups: []c01Group{{vals: []c01Val{{text: "'" + pf.Addr().String() + "'", tok: c12Tok(pf), pfx: pf}}}}}
		} else {
			d := i % 64
			c1 = c01Cond{fn: "dscp", groups: []c01Group{{vals: []c01Val{{text: fmt.Sprint(d), tok: fmt.Sprint(d), dscp: d}}}}}
		}
		ru.conds = []c01Cond{c1, c2}
		if i == 0 && odd {
			ru.conds = append(ru.conds, c01Cond{fn: "l4proto", groups: []c01Group{{vals: []c01Val{{text: "tcp", tok: "1", lit: "tcp"}}}}})
		}
		ru.outName, ru.outId, ru.mark, ru.must, ru.style = randOut()
		p.rules = append(p.rules, ru)
	}
	if filler > 0 {
		p.aimFrom = filler
	}
	p.rules = append(p.rules, ordinary...)
	// pointers into conds moved when rules were appended: recompute domGroups
	p.domGroups = nil
	for i := range p.rules {
		for j := range p.rules[i].conds {
			c := &p.rules[i].conds[j]
			if c.fn == "domain" {
				for k := range c.groups {
					c.groups[k].dom = len(p.domGroups)
					p.domGroups = append(p.domGroups, &c.groups[k])
				}
			}
		}
	}
	p.fbName, p.fbId, p.fbMark, p.fbMust, p.fbStyle = randOut()
	var tb, mb strings.Builder
	tb.WriteString("global {}\nrouting {\n")
	fm := 0
	if p.fbMust {
		fm = 1
	}
	fmt.Fprintf(&mb, "prog %d %d %d %d", p.fbId, p.fbMark, fm, len(p.rules))
	var outToks []string // the outbounds as written, rules then fallback (section `O` of the prog line)
	for i := range p.rules {
		ru := &p.rules[i]
		var cs []string
		for j := range ru.conds {
			cs = append(cs, c01CondText(&ru.conds[j], r))
		}
		if ru.mustRules {
			ot := "must_rules"
			if c01X.on {
				var tk string
				ot, tk = c01OutX(r, stats, p, "", 0, false, 0)
				outToks = append(outToks, tk)
			}
			tb.WriteString("  " + strings.Join(cs, " && ") + " -> " + ot + "\n")
			fmt.Fprintf(&mb, " R M %d", len(ru.conds))
		} else {
			ot := ""
			if c01X.on {
				var tk string
				ot, tk = c01OutX(r, stats, p, ru.outName, ru.mark, ru.must, ru.style)
				outToks = append(outToks, tk)
			} else {
				ot = c01OutText(ru.outName, ru.mark, ru.must, ru.style)
			}
			tb.WriteString("  " + strings.Join(cs, " && ") + " -> " + ot + "\n")
			m := 0
			if ru.must {
				m = 1
			}
			fmt.Fprintf(&mb, " R F %d %d %d %d", ru.outId, ru.mark, m, len(ru.conds))
		}
		for j := range ru.conds {
			mb.WriteString(" " + c01CondTokens(&ru.conds[j]))
		}
	}
	if c01X.on {
		ot, tk := c01OutX(r, stats, p, p.fbName, p.fbMark, p.fbMust, p.fbStyle)
		outToks = append(outToks, tk)
		tb.WriteString("  fallback: " + ot + "\n}\n")
	} else {
		tb.WriteString("  fallback: " + c01OutText(p.fbName, p.fbMark, p.fbMust, p.fbStyle) + "\n}\n")
	}
	// domain key groups with their real patterns, for the composed C01∘C11 model path
	fmt.Fprintf(&mb, " D %d", len(p.domGroups))
	rxId := 0
	for _, g := range p.domGroups {
		fmt.Fprintf(&mb, " %s %d", g.key, len(g.vals))
		for vi := range g.vals {
			if g.key == "regex" {
				g.vals[vi].lo = rxId // reuse the int field as the regex id
				fmt.Fprintf(&mb, " %d", rxId)
				rxId++
			} else {
				fmt.Fprintf(&mb, " %s", hex.EncodeToString([]byte(g.vals[vi].pat)))
			}
		}
	}
	if c01X.on {
		fmt.Fprintf(&mb, " O %d %s", len(outToks), strings.Join(outToks, " "))
	}
	p.text = tb.String()
	p.modelTokens = mb.String()
	return p
}

// reference meaning of a domain key group (the documented pattern kinds; lower-case names only here,
// case / trailing dot are C11's subject)
func c01DomainGroupHolds(g *c01Group, d string) bool {
	if d == "" {
		return false
	}
	for _, v := range g.vals {
		switch g.key {
		case "full":
			if d == v.pat {
				return true
			}
		case "suffix":
			if d == v.pat || strings.HasSuffix(d, "."+v.pat) {
				return true
			}
		case "keyword":
			if strings.Contains(d, v.pat) {
				return true
			}
		case "regex":
			if ok, _ := regexp.MatchString(v.pat, d); ok {
				return true
			}
		}
	}
	return false
}

type c01Pkt struct {
	src, dst     netip.Addr
	sport, dport uint16
	l4           consts.L4ProtoType
	domain       string
	pname        [16]byte
	dscp         uint8
	mac          [6]byte
}

// c01GenPkt builds a packet aimed at rule `target` (each of its conditions is satisfied with high
// probability, at a boundary value when there is one), other fields from pools of the program.
func c01GenPkt(r *VRand, p *c01Prog, stats *VStats) c01Pkt {
	var k c01Pkt
	k.src = c12RandAddr(r)
	k.dst = c12RandAddr(r)
	k.sport = uint16(r.U64())
	k.dport = []uint16{53, 80, 443, uint16(r.U64())}[r.Intn(4)]
	k.l4 = []consts.L4ProtoType{consts.L4ProtoType_TCP, consts.L4ProtoType_UDP}[r.Intn(2)]
	if r.Chance(0.5) {
		k.domain = c01RandDomain(r)
	}
	if r.Chance(0.6) {
		copy(k.pname[:], []string{"curl", "NetworkManager", "systemd-resolve", "exactly16bytes_x", "seventeen_bytes_", "a", "chrome", "b"}[r.Intn(8)])
	}
	k.dscp = []uint8{0, 1, 4, 8, 46, 63, 255}[r.Intn(7)]
	if r.Chance(0.7) {
		k.mac = [6]byte{0x02, 0x42, 0xac, 0x11, 0x00, byte(r.Intn(3))}
	}
	if len(p.rules) == 0 {
		return k
	}
	ru := &p.rules[r.Intn(len(p.rules))]
	if p.aimFrom > 0 && p.aimFrom < len(p.rules) && r.Chance(0.85) {
		ru = &p.rules[p.aimFrom+r.Intn(len(p.rules)-p.aimFrom)]
	}
	for ci := range ru.conds {
		c := &ru.conds[ci]
		if !r.Chance(0.85) {
			continue
		}
		g := &c.groups[r.Intn(len(c.groups))]
		v := g.vals[r.Intn(len(g.vals))]
		switch c.fn {
		case "dip", "sip":
			probes := c12Probes(r, v.pfx)
			a := probes[r.Intn(len(probes))]
			if a.Is4In6() && r.Chance(0.7) {
				a = a.Unmap()
			}
			if c.fn == "dip" {
				k.dst = a
			} else {
				k.src = a
			}
		case "dport", "sport":
			cand := []int{v.lo, v.hi, v.lo - 1, v.hi + 1, (v.lo + v.hi) / 2}
			x := cand[r.Intn(len(cand))]
			if x < 0 {
				x = 0
			}
			if x > 65535 {
				x = 65535
			}
			if c.fn == "dport" {
				k.dport = uint16(x)
			} else {
				k.sport = uint16(x)
			}
		case "l4proto":
			if v.lit == "udp" {
				k.l4 = consts.L4ProtoType_UDP
			} else if v.lit == "tcp" {
				k.l4 = consts.L4ProtoType_TCP
			}
		case "mac":
			k.mac = v.mac
			if r.Chance(0.25) {
				k.mac[r.Intn(6)] ^= byte(1 << uint(r.Intn(8))) // one bit off, in any of the six bytes
				stats.Inc("pkt.mac_one_bit_off")
			}
			if r.Chance(0.15) {
				k.mac = [6]byte{}
				stats.Inc("pkt.zero_mac_vs_mac_rule")
			}
		case "pname":
			k.pname = [16]byte{}
			copy(k.pname[:], v.pname)
			if r.Chance(0.15) {
				k.pname = [16]byte{}
			}
			if r.Chance(0.1) && len(v.pname) > 1 {
				k.pname = [16]byte{}
				copy(k.pname[:], v.pname[:len(v.pname)-1])
			}
			if r.Chance(0.12) && len(v.pname) < 16 { // the rule's name is a proper prefix of the process name
				k.pname = [16]byte{}
				copy(k.pname[:], v.pname+"x")
				stats.Inc("pkt.pname_extends_rule_name")
			}
		case "dscp":
			k.dscp = uint8(v.dscp)
		case "domain":
			switch g.key {
			case "full":
				k.domain = v.pat
			case "suffix":
				k.domain = []string{v.pat, "www." + v.pat, "x" + v.pat, "a.b." + v.pat}[r.Intn(4)]
			case "keyword":
				k.domain = "x" + v.pat + "y.com"
			case "regex":
				k.domain = []string{"a.cdn7.foo-x.uk", "cdn.example.com", "bar-1.org", "za.b"}[r.Intn(4)]
			}
			if r.Chance(0.1) {
				k.domain = ""
			}
		}
	}
	return k
}

// c01Call: one evaluation — the packet, how it is sent (through Route or straight to Match, possibly with
// the "wrong" version bit), and the operation line for the model.
type c01Call struct {
	pk       c01Pkt
	viaRoute bool
	ipver    int
	op       string
}

func c01MakeCall(r *VRand, p *c01Prog, pk c01Pkt, stats *VStats) c01Call {
	src16, dst16 := pk.src.As16(), pk.dst.As16()
	var mac16 [16]byte
	copy(mac16[10:], pk.mac[:])
	dom := "-"
	if len(p.domGroups) > 0 {
		var sb strings.Builder
		for _, g := range p.domGroups {
			if c01DomainGroupHolds(g, pk.domain) {
				sb.WriteByte('1')
			} else {
				sb.WriteByte('0')
			}
		}
		dom = sb.String()
	}
	ipver := 2
	if pk.dst.Is4() || pk.dst.Is4In6() {
		ipver = 1
	}
	viaRoute := r.Chance(0.8)
	if !viaRoute && r.Chance(0.3) {
		ipver = 3 - ipver // Match called directly with the other version bit
	}
	if pk.domain == "" {
		for _, g := range p.domGroups {
			if g.key == "regex" {
				for _, v := range g.vals {
					if ok, _ := regexp.MatchString(v.pat, ""); ok {
						stats.Inc("pkt.no_domain_vs_regex_matching_empty_string")
					}
				}
			}
		}
	}
	nameTok, rxTok := "-", "-"
	if pk.domain != "" && len(p.domGroups) > 0 {
		nameTok = hex.EncodeToString([]byte(pk.domain))
		var hits []string
		for _, g := range p.domGroups {
			if g.key != "regex" {
				continue
			}
			for _, v := range g.vals {
				if ok, _ := regexp.MatchString(v.pat, pk.domain); ok {
					hits = append(hits, fmt.Sprint(v.lo))
				}
			}
		}
		if len(hits) > 0 {
			rxTok = strings.Join(hits, ",")
		}
		stats.Inc("pkt.with_name_composed_path")
	}
	op := fmt.Sprintf("pkt %s %s %d %d %d %d %s %d %s %s N %s %s",
		hex.EncodeToString(src16[:]), hex.EncodeToString(dst16[:]), pk.sport, pk.dport, ipver, int(pk.l4),
		hex.EncodeToString(pk.pname[:]), pk.dscp, hex.EncodeToString(mac16[:]), dom, nameTok, rxTok)
	if viaRoute {
		// the raw arguments of Route: the model does the marshalling (As16, IP version from the
		// destination, MAC into the 16-byte form) — Model.pktOfRoute
		is4 := func(a netip.Addr) int {
			if a.Is4() {
				return 1
			}
			return 0
		}
		op = fmt.Sprintf("rpkt %d %s %d %s %d %d %d %s %d %s %s N %s %s",
			is4(pk.src), hex.EncodeToString(pk.src.AsSlice()), is4(pk.dst), hex.EncodeToString(pk.dst.AsSlice()),
			pk.sport, pk.dport, int(pk.l4), hex.EncodeToString(pk.pname[:]), pk.dscp, hex.EncodeToString(pk.mac[:]),
			dom, nameTok, rxTok)
		stats.Inc("pkt.via_Route_raw_args")
	} else {
		stats.Inc("pkt.via_Match_direct")
	}
	return c01Call{pk: pk, viaRoute: viaRoute, ipver: ipver, op: op}
}

// c01Exec: the real decision (ControlPlane.Route / RoutingMatcher.Match of the matcher in cp).
func c01Exec(cp *ControlPlane, c *c01Call, stats *VStats) string {
	pk := c.pk
	return VRecover(func() string {
		var ob consts.OutboundIndex
		var mark uint32
		var must bool
		var err error
		if c.viaRoute {
			rr := &bpfRoutingResult{Mac: pk.mac, Pname: pk.pname, Dscp: pk.dscp}
			ob, mark, must, err = cp.Route(netip.AddrPortFrom(pk.src, pk.sport), netip.AddrPortFrom(pk.dst, pk.dport), pk.domain, pk.l4, rr)
		} else {
			src16, dst16 := pk.src.As16(), pk.dst.As16()
			var mac16 [16]byte
			copy(mac16[10:], pk.mac[:])
			ob, mark, must, err = cp.routingMatcher.Match(src16, dst16, pk.sport, pk.dport, consts.IpVersionType(c.ipver), pk.l4, pk.domain, pk.pname, pk.dscp, mac16)
		}
		if err != nil {
			return "err"
		}
		m := 0
		if must {
			m = 1
		}
		stats.Inc(fmt.Sprintf("result.out%d", ob))
		if must {
			stats.Inc("result.must")
		}
		if mark != 0 {
			stats.Inc("result.marked")
		}
		return fmt.Sprintf("out=%d mark=%d must=%d", ob, mark, m)
	})
}

// c01LpmSets: for every ip / sip / mac match set of the builder, in order, the prefix set found at ITS
// lpmIndex in the slot table — in a normal form (sorted unique `<16 address bytes>/<length in the 128-bit
// space>`), so that only the set matters, not how it is stored.
func c01LpmSets(b *RoutingMatcherBuilder) string {
	var parts []string
	for _, c := range b.compiledRules {
		kind := ""
		switch c.matchType {
		case consts.MatchType_IpSet:
			kind = "d"
		case consts.MatchType_SourceIpSet:
			kind = "s"
		case consts.MatchType_Mac:
			kind = "m"
		default:
			continue
		}
		if int(c.lpmIndex) >= len(b.simulatedLpmTries) {
			parts = append(parts, kind+":bad-index")
			continue
		}
		var items []string
		seen := map[string]bool{}
		for _, pf := range b.simulatedLpmTries[c.lpmIndex] {
			a := pf.Masked().Addr().As16() // only the network bits matter
			n := pf.Bits()
			if pf.Addr().Is4() {
				n += 96
			}
			it := fmt.Sprintf("%s/%d", hex.EncodeToString(a[:]), n)
			if !seen[it] {
				seen[it] = true
				items = append(items, it)
			}
		}
		sort.Slice(items, func(i, j int) bool {
			ai, aj := items[i][:32], items[j][:32]
			if ai != aj {
				return ai < aj
			}
			var ni, nj int
			fmt.Sscanf(items[i][33:], "%d", &ni)
			fmt.Sscanf(items[j][33:], "%d", &nj)
			return ni < nj
		})
		parts = append(parts, kind+":"+strings.Join(items, ","))
	}
	// the optimizers may reorder the conditions of a rule: compare the program's sets as a multiset
	sort.Strings(parts)
	return fmt.Sprintf("n=%d %s", len(parts), strings.Join(parts, ";"))
}

func TestVerifC01(t *testing.T) {
	r := NewVRand(VSeed())
	stats := NewVStats()
	st := VOpenStream("c01")
	defer func() { st.Close(); stats.Write("c01") }()
	log := logrus.New()
	log.SetLevel(logrus.PanicLevel)

	nProg, nPkt, maxRules, nLarge := 250, 60, 12, 5
	if VThorough() {
		nProg, nPkt, maxRules, nLarge = 2500, 80, 40, 24
	}
	locationFinder := assets.NewLocationFinder(nil)
	stats.Sample("production optimizer chain (regenerated from control_plane.go): " + strings.Join(c01ProductionOptimizerExprs, " ; "))
	c01X.on = true
	defer func() { c01X.on = false }()
	// the group table: the largest one NewControlPlane accepts, built by NewControlPlane's own statements
	// (regenerated from control_plane.go by translators/c01ids) when the check supplies them
	tableNames := c01Outs[:int(consts.OutboundUserDefinedMax)]
	name2id := map[string]uint8{}
	if c01AssignIds != nil {
		m, err := c01AssignIds(tableNames)
		if err != nil {
			t.Fatalf("the production group-table statements refuse %d outbounds: %v", len(tableNames), err)
		}
		name2id = m
		stats.Inc("table.built_by_production_statements")
	} else {
		for i, n := range tableNames {
			name2id[n] = uint8(i)
		}
	}
	{
		var hx []string
		for _, n := range tableNames {
			hx = append(hx, c01Hex(n))
		}
		st.Emit(fmt.Sprintf("outs %d %s", len(tableNames), strings.Join(hx, " ")), fmt.Sprintf("outs=%d", len(tableNames)))
	}
	var lastOk struct { // the last accepted program: the generation that keeps serving while the next is built
		p *c01Prog
		m *RoutingMatcher
	}
	// the match-set limit is the code's (`consts.MaxMatchSetLen`, a variable settable at link time)
	limit := consts.MaxMatchSetLen
	st.Emit(fmt.Sprintf("limit %d", limit), fmt.Sprintf("limit=%d", limit))
	for pi := 0; pi < nProg; pi++ {
		mr := maxRules
		if pi%10 == 0 {
			mr = 2
		}
		var p *c01Prog
		if pi < nLarge {
			// "up to the match-set limit": ≈ 2 match sets per filler rule, so the ordinary rules at the
			// end (domain / ip / mac sets among them) sit just below, across and just above position 1024
			switch pi {
			case 0: // exactly at the limit: accepted
				p = c01GenProgN(r, stats, 12+r.Intn(12), 0, c01Large{target: limit})
				stats.Inc("prog.target_exactly_at_limit")
			case 1: // one match set more: refused
				p = c01GenProgN(r, stats, 12+r.Intn(12), 0, c01Large{target: limit + 1})
				stats.Inc("prog.target_one_above_limit")
			case 2: // every filler rule with an address set of its own: far more than 256 LPM slots
				p = c01GenProgN(r, stats, 12+r.Intn(12), 0, c01Large{target: limit - r.Intn(40), everyLpm: true})
				stats.Inc("prog.every_rule_own_lpm_set")
			default:
				p = c01GenProgN(r, stats, 12+r.Intn(12), limit*[]int{300, 380, 420, 440, 460, 470, 480, 490, 495, 500}[r.Intn(10)]/1024, c01Large{})
			}
			stats.Inc("prog.large")
		} else {
			p = c01GenProg(r, stats, mr)
			if len(p.rules) == 0 && r.Chance(0.85) { // keep the empty program rare
				p = c01GenProg(r, stats, 3)
			}
		}
		if pi < 2 {
			stats.Sample(p.text)
		}
		var matcher *RoutingMatcher
		nsets := 0
		lpmSets := ""
		prev := lastOk
		buildOut := VRecover(func() string {
			sections, err := config_parser.Parse(p.text)
			if err != nil {
				return "err:parse:" + err.Error()
			}
			conf, err := config.New(sections)
			if err != nil {
				if p.aimFrom > 0 {
					return "err:build" // wherever the size of a large program is refused, it is the limit's refusal
				}
				return "err:config:" + err.Error()
			}
			// the production pipeline of NewControlPlane: the optimizer list is regenerated from
			// control_plane.go by translators/optchain on every run (geodata expansion is C04's subject:
			// no geosite/geoip reference is generated here, so the reader opens no file)
			program, err := routing.NewNormalizedProgram(conf.Routing.Rules, conf.Routing.Fallback,
				c01ProductionOptimizers(log, locationFinder)...)
			if err != nil {
				if p.aimFrom > 0 {
					return "err:build"
				}
				return "err:optimizers:" + err.Error()
			}
			b, err := NewRoutingMatcherBuilderFromProgram(log, program, name2id, nil)
			if err != nil {
				if p.aimFrom > 0 {
					return "err:build" // large program: the model predicts exactly when (more than MaxMatchSetLen match sets)
				}
				if p.exotic && !p.invalid {
					return "err:builder:" + err.Error()
				}
				stats.Sample("builder refused: " + err.Error())
				return "err:builder" // the model predicts this one: a value or an outbound the parser functions refuse
			}
			lpmSets = c01LpmSets(b)
			m, err := b.BuildUserspace()
			if err != nil {
				return "err:build" // the model predicts this one: a domain set beyond the match-set limit
			}
			matcher = m
			nsets = len(m.compiledMatches)
			return "ok"
		})
		if matcher == nil && p.exotic && (strings.HasPrefix(buildOut, "err:config:") || strings.HasPrefix(buildOut, "err:optimizers:") || strings.HasPrefix(buildOut, "err:builder:")) {
			// a literal outside the property's alphabet was refused with a clean configuration error:
			// the property does not speak about such programs
			stats.Inc("prog.exotic_literal_rejected")
			stats.Inc("prog.exotic_literal_rejected." + strings.SplitN(buildOut, ":", 3)[1])
			if stats.C["prog.exotic_literal_rejected"] <= 3 {
				stats.Sample("refused (literal outside the property's alphabet): " + buildOut)
			}
			continue
		}
		if p.invalid && matcher != nil {
			// The code accepted a value / outbound that today's parser functions refuse.  The property
			// speaks about well-formed programs only: a more lenient reading of an ill-formed one is not
			// a wrong routing decision.  Not compared; counted (0 on the tree this check was written for).
			stats.Inc("prog.refusable_value_or_outbound_ACCEPTED (not compared)")
			continue
		}
		st.Emit(p.modelTokens, buildOut)
		if p.invalid {
			stats.Inc("prog.with_refusable_value_or_outbound")
			if buildOut == "err:builder" {
				stats.Inc("prog.refused_for_value_or_outbound")
			}
		}
		stats.Add("rules", len(p.rules))
		stats.Add("matchsets", nsets)
		stats.Max("max_matchsets", nsets)
		if p.exotic {
			stats.Inc("prog.exotic_literal_accepted")
		}
		if pi < nLarge && pi <= 2 {
			// the directed large programs: what was aimed at was reached (the verdict is the model's)
			switch {
			case pi == 0 && buildOut == "ok" && nsets == limit:
				stats.Inc("prog.accepted_with_exactly_limit_match_sets")
			case pi == 1 && buildOut == "err:build":
				stats.Inc("prog.refused_with_limit_plus_one_match_sets")
			case pi == 2 && buildOut == "ok":
				stats.Max("prog.max_lpm_sets_in_one_program", p.aimFrom)
			}
		}
		if matcher == nil {
			stats.Inc("prog.build_failed")
			if buildOut == "err:build" {
				stats.Inc("prog.rejected_beyond_match_set_limit")
			}
			continue
		}
		if len(p.rules) == 0 {
			stats.Inc("prog.empty")
		}
		cp := &ControlPlane{}
		cp.routingMatcher = matcher
		if lpmSets != "" {
			// the prefix set every LPM match set reads THROUGH ITS INDEX (b.simulatedLpmTries[compiled.lpmIndex]),
			// against the model's slot table (LpmIndex.lean, real FNV hash)
			st.Emit("lpmsets", lpmSets)
			stats.Inc("prog.lpm_slots_compared")
		}
		calls := make([]c01Call, 0, nPkt)
		for k := 0; k < nPkt; k++ {
			c := c01MakeCall(r, p, c01GenPkt(r, p, stats), stats)
			calls = append(calls, c)
			st.Emit(c.op, c01Exec(cp, &c, stats))
		}
		if pi%3 == 1 && len(calls) > 0 {
			// the same matcher used by several goroutines at once (production: one goroutine per connection /
			// datagram): every goroutine evaluates ALL the packets, each in its own rotation; the answer
			// recorded for packet k is goroutine k%4's.  No timing: the results are joined with a WaitGroup.
			const G = 4
			res := make([][]string, G)
			var wg sync.WaitGroup
			quiet := NewVStats()
			for g := 0; g < G; g++ {
				res[g] = make([]string, len(calls))
				wg.Add(1)
				go func(g int) {
					defer wg.Done()
					for i := range calls {
						k := (i + g*13) % len(calls)
						if g%2 == 1 {
							k = (len(calls) - 1 - i + g*13) % len(calls)
						}
						c := calls[k]
						res[g][k] = c01Exec(cp, &c, quiet)
					}
				}(g)
			}
			wg.Wait()
			for k := range calls {
				if res[k%G][k] == "" {
					res[k%G][k] = "not-evaluated"
				}
				st.Emit(calls[k].op, res[k%G][k])
				stats.Inc("pkt.concurrent_replay")
			}
		}
		if prev.m != nil && r.Chance(0.6) {
			// two generations alive at once: the previous program's matcher keeps answering by ITS rules while
			// (and after) the next one was built in the same process
			st.Emit("swap", "swapped")
			pcp := &ControlPlane{}
			pcp.routingMatcher = prev.m
			for k := 0; k < 6; k++ {
				c := c01MakeCall(r, prev.p, c01GenPkt(r, prev.p, stats), stats)
				st.Emit(c.op, c01Exec(pcp, &c, stats))
				stats.Inc("pkt.on_previous_generation")
			}
			st.Emit("swap", "swapped")
		}
		lastOk.p, lastOk.m = p, matcher
	}
	stats.Add("ops", st.N)
}
