package control

// C06 correspondence harness, control side, part 2: the REAL ControlPlane.handlePkt on one UDP flow
// *family* — several QUIC connections (own DCIDs, sometimes one DCID with two source connection ids)
// opening on one 4-tuple, their datagrams interleaved, datagrams that are not QUIC Initials in
// between, retransmissions, undecryptable Initials — with faults injected at chosen steps: the dial
// of a step fails (an error the endpoint pool does not cache), a write to the endpoint fails once or
// twice (the endpoint is torn down and rebuilt inside the same call).  The Lean model `Fam.run`
// (lean/DaeVerif/C06/Family.lean) answers the same `fam` op lines.

import (
	"context"
	"encoding/hex"
	"fmt"
	"io"
	"net/netip"
	"os"
	"sort"
	"strings"
	"sync"
	"syscall"
	"testing"
	"time"

	"github.com/daeuniverse/dae/common/consts"
	ob "github.com/daeuniverse/dae/component/outbound"
	componentdialer "github.com/daeuniverse/dae/component/outbound/dialer"
	D "github.com/daeuniverse/outbound/dialer"
	"github.com/daeuniverse/outbound/netproxy"
	"github.com/sirupsen/logrus"
)

// what reaches the outbound, shared by every connection the dialer hands out
type c06FamRecorder struct {
	mu         sync.Mutex
	writes     [][]byte
	failWrites int // n writes fail (with a "normal close" error: the dialer is not penalised) ...
	skipWrites int // ... after this many successful writes of the step
	failDials  int // the next n dials fail (ENOBUFS: not cached by the endpoint pool)
	dials      int
}

type c06FamConn struct {
	rec     *c06FamRecorder
	closeCh chan struct{}
	once    sync.Once
}

func (c *c06FamConn) Read(_ []byte) (int, error)  { return 0, io.EOF }
func (c *c06FamConn) Write(_ []byte) (int, error) { return 0, netproxy.UnsupportedTunnelTypeError }
func (c *c06FamConn) ReadFrom(p []byte) (int, netip.AddrPort, error) {
	<-c.closeCh
	return 0, netip.AddrPort{}, io.EOF
}
func (c *c06FamConn) WriteTo(b []byte, _ string) (int, error) {
	c.rec.mu.Lock()
	defer c.rec.mu.Unlock()
	if c.rec.failWrites > 0 {
		if c.rec.skipWrites > 0 {
			c.rec.skipWrites--
		} else {
			c.rec.failWrites--
			return 0, io.EOF
		}
	}
	c.rec.writes = append(c.rec.writes, append([]byte(nil), b...))
	return len(b), nil
}
func (c *c06FamConn) Close() error                       { c.once.Do(func() { close(c.closeCh) }); return nil }
func (c *c06FamConn) SetDeadline(_ time.Time) error      { return nil }
func (c *c06FamConn) SetReadDeadline(_ time.Time) error  { return nil }
func (c *c06FamConn) SetWriteDeadline(_ time.Time) error { return nil }

type c06FamDialer struct{ rec *c06FamRecorder }

func (d *c06FamDialer) DialContext(context.Context, string, string) (netproxy.Conn, error) {
	d.rec.mu.Lock()
	defer d.rec.mu.Unlock()
	d.rec.dials++
	if d.rec.failDials > 0 {
		d.rec.failDials--
		return nil, fmt.Errorf("c06: dial: %w", syscall.ENOBUFS)
	}
	return &c06FamConn{rec: d.rec, closeCh: make(chan struct{})}, nil
}

func c06FamControlPlane(nd netproxy.Dialer) *ControlPlane {
	logger := logrus.New()
	logger.SetOutput(io.Discard)
	gopt := &componentdialer.GlobalOption{Log: logger, CheckInterval: time.Second}
	d := componentdialer.NewDialer(nd, gopt, componentdialer.InstanceOption{DisableCheck: true},
		&componentdialer.Property{Property: D.Property{Name: "c06", Address: "proxy.example:443", Protocol: "c06"}})
	group := ob.NewDialerGroup(gopt, "fixed-c06", []*componentdialer.Dialer{d}, []*componentdialer.Annotation{{}},
		ob.DialerSelectionPolicy{Policy: consts.DialerSelectionPolicy_Fixed, FixedIndex: 0},
		func(bool, *componentdialer.NetworkType, bool) {})
	outbounds := make([]*ob.DialerGroup, int(consts.OutboundUserDefinedMin)+1)
	outbounds[consts.OutboundUserDefinedMin] = group
	return &ControlPlane{
		log:                         logger,
		controlPlaneGenerationState: controlPlaneGenerationState{outbounds: outbounds},
	}
}

type c06FamStep struct {
	data       []byte
	seals      []*c06Sealed // start relative to the datagram; dead entries already removed
	dialFails  bool
	writeFails int
	writeSkip  int // the failing writes come after this many successful writes of the step
	conn       int // index of the connection the datagram belongs to (-1: not a QUIC Initial)
}

var (
	c06FamSrc = netip.MustParseAddrPort("192.168.89.3:42687")
	c06FamDst = netip.MustParseAddrPort("52.199.194.44:443")
)

// connection key of a datagram as the real code derives it (canonical order of a step's writes)
func c06FamKey(d []byte) string {
	k := NewPacketSnifferKey(c06FamSrc, c06FamDst, d)
	if k.DCIDLen == 0 {
		return "-"
	}
	return hex.EncodeToString(k.DCID[:k.DCIDLen])
}

// the datagrams of a case with the AEAD answers of each, relative to the datagram
func c06FamSteps(qc *c06QuicCase, conn int) []*c06FamStep {
	starts := make([]int, len(qc.datagrams)+1)
	for k, d := range qc.datagrams {
		starts[k+1] = starts[k] + len(d)
	}
	var out []*c06FamStep
	for k, d := range qc.datagrams {
		st := &c06FamStep{data: d, conn: conn}
		for _, se := range qc.oracle {
			if !se.dead && se.start >= starts[k] && se.start < starts[k+1] {
				cp := *se
				cp.start = se.start - starts[k]
				st.seals = append(st.seals, &cp)
			}
		}
		out = append(out, st)
	}
	return out
}

// handle the history; what reached the outbound after each step (canonical order), what is held,
// the endpoint's domain; slow = the run took too long for the time-based parts of the model
func c06RunFam(steps []*c06FamStep) (op, out string, perStep [][][]byte, slow bool) {
	var toks []string
	for _, s := range steps {
		var ss []string
		for _, se := range s.seals {
			ss = append(ss, fmt.Sprintf("%d:%d:%d:%s:%s", se.start, se.pnOff, se.stop, c06Hex(se.dcid), c06Hex(se.plain)))
		}
		sl := "-"
		if len(ss) > 0 {
			sl = strings.Join(ss, ",")
		}
		df := "0"
		if s.dialFails {
			df = "1"
		}
		toks = append(toks, c06Hex(s.data)+"/"+df+"/"+sl)
	}
	op = "fam " + strings.Join(toks, " ")

	oldUdp, oldAny, oldSn, oldFailed := DefaultUdpEndpointPool, DefaultAnyfromPool, DefaultPacketSnifferSessionMgr, getFailedQuicDcidCache()
	DefaultUdpEndpointPool = NewUdpEndpointPool()
	DefaultPacketSnifferSessionMgr = NewPacketSnifferPool()
	DefaultPacketSnifferSessionMgr.Close() // stops the wall-clock janitor (5 s TTL); the pool stays usable
	SetFailedQuicDcidCache(newFailedQuicDcidCache(failedQuicDcidCacheShardCount))
	defer func() {
		DefaultUdpEndpointPool.Reset()
		DefaultUdpEndpointPool = oldUdp
		DefaultAnyfromPool = oldAny
		DefaultPacketSnifferSessionMgr.Close()
		DefaultPacketSnifferSessionMgr = oldSn
		SetFailedQuicDcidCache(oldFailed)
	}()

	rec := &c06FamRecorder{}
	cp := c06FamControlPlane(&c06FamDialer{rec})
	routingResult := &bpfRoutingResult{Outbound: uint8(consts.OutboundUserDefinedMin)}
	t0 := time.Now()
	out = VRecover(func() string {
		var outs []string
		seen := 0
		for _, s := range steps {
			// the ingress buffer is pooled: it is overwritten as soon as handlePkt returns
			data := append([]byte(nil), s.data...)
			fd := ClassifyUdpFlow(c06FamSrc, c06FamDst, data)
			if fd.IsQuicInitial {
				fd = fd.EnsureSnifferSession()
			}
			rr := *routingResult
			rec.mu.Lock()
			rec.failDials, rec.failWrites, rec.skipWrites = 0, s.writeFails, s.writeSkip
			if s.dialFails {
				rec.failDials = 1
			}
			rec.mu.Unlock()
			err := cp.handlePkt(nil, data, c06FamSrc, c06FamDst, &rr, fd, false)
			for i := range data {
				data[i] = 0x5a
			}
			if err != nil && !strings.Contains(err.Error(), syscall.ENOBUFS.Error()) {
				return "handlePkt-error:" + strings.ReplaceAll(err.Error(), " ", "_")
			}
			rec.mu.Lock()
			now := append([][]byte(nil), rec.writes[seen:]...)
			seen = len(rec.writes)
			rec.failDials, rec.failWrites, rec.skipWrites = 0, 0, 0
			rec.mu.Unlock()
			perStep = append(perStep, now)
			if len(now) == 0 {
				outs = append(outs, "-")
				continue
			}
			srt := append([][]byte(nil), now...)
			sort.SliceStable(srt, func(i, j int) bool { return c06FamKey(srt[i]) < c06FamKey(srt[j]) })
			var p []string
			for _, w := range srt {
				p = append(p, fmt.Sprintf("%d:%d", len(w), c06Fnv(w)))
			}
			outs = append(outs, strings.Join(p, ","))
		}
		held := 0
		DefaultPacketSnifferSessionMgr.pool.Range(func(k, v any) bool {
			ps := v.(*PacketSniffer)
			ps.Mu.Lock()
			if n := len(ps.Data()); n > 1 {
				held += n - 1
			}
			ps.Mu.Unlock()
			return true
		})
		dom := ""
		for i := range udpEndpointCreateShardCount {
			shard := &DefaultUdpEndpointPool.shards[i]
			shard.mu.RLock()
			for key, ue := range shard.pool {
				if key.Src == c06FamSrc && ue.SniffedDomain != "" {
					dom = ue.SniffedDomain
				}
			}
			shard.mu.RUnlock()
		}
		return strings.Join(outs, " ") + fmt.Sprintf(" held=%d dom=%s # dials=%d", held, c06Hex([]byte(dom)), rec.dials)
	})
	slow = time.Since(t0) > 400*time.Millisecond
	return op, out, perStep, slow
}

// the property itself, applied to what the implementation did: per connection key, what was written
// is a subsequence of what came in (nothing twice, nothing overtaken); without dial failures every
// datagram was written or is still held; a step that wrote something leaves nothing held
func c06FamOracle(steps []*c06FamStep, perStep [][][]byte, out string) string {
	if strings.HasPrefix(out, "crash:") || strings.HasPrefix(out, "handlePkt-error") {
		return "handlePkt failed: " + out
	}
	in := map[string][]string{}
	total, anyDialFail := 0, false
	for _, s := range steps {
		k := c06FamKey(s.data)
		in[k] = append(in[k], fmt.Sprintf("%d:%d", len(s.data), c06Fnv(s.data)))
		total++
		anyDialFail = anyDialFail || s.dialFails
	}
	got := map[string][]string{}
	written := 0
	for _, ws := range perStep {
		for _, w := range ws {
			k := c06FamKey(w)
			got[k] = append(got[k], fmt.Sprintf("%d:%d", len(w), c06Fnv(w)))
			written++
		}
	}
	for k, ws := range got {
		p := 0
		for _, x := range ws {
			for p < len(in[k]) && in[k][p] != x {
				p++
			}
			if p == len(in[k]) {
				return fmt.Sprintf("connection %s: the outbound received %v, not a subsequence of the ingress %v (a datagram twice, altered or overtaken)", k, ws, in[k])
			}
			p++
		}
	}
	held := 0
	fmt.Sscanf(c06FlowField(out, "held"), "%d", &held)
	if !anyDialFail && written+held != total {
		return fmt.Sprintf("%d datagrams came in, %d were written and %d are held (no dial failed)", total, written, held)
	}
	if n := len(perStep); n > 0 && len(perStep[n-1]) > 0 && held != 0 {
		return fmt.Sprintf("the last step wrote %d datagrams and %d are still held", len(perStep[n-1]), held)
	}
	return ""
}

func TestVerifC06Fam(t *testing.T) {
	g := &c06Gen{r: NewVRand(VSeed() + 4242), stats: NewVStats()}
	st := VOpenStream("c06fam")
	defer st.Close()
	viol, _ := os.Create(VOutDir() + "/c06fam.viol")
	defer viol.Close()
	known, _ := os.Create(VOutDir() + "/c06fam.known")
	defer known.Close()
	n := 160
	if VThorough() {
		n = 4000
	}
	n = VEnvInt("C06_FAMS", n)

	junk := func() *c06FamStep {
		return &c06FamStep{data: append([]byte{0x40 | byte(g.r.Intn(64))}, g.bytes(g.r.Range(20, 60))...), conn: -1}
	}
	// one connection's flight (DCID in the cacheable range 1..20 unless `dcid` is given)
	multi := false // only flights of two or more datagrams
	flight := func(conn int, dcid, scid []byte, noSni bool) ([]*c06FamStep, *c06HelloCase) {
		for {
			hc := g.hello()
			if hc.class == "nonascii" || (noSni && hc.expect != "nf") {
				continue
			}
			version := uint32(c06QuicV1)
			if g.r.Intn(4) == 0 {
				version = c06QuicV2
			}
			g.forceDcid, g.forceScid = dcid, scid
			uncacheable := false
			if dcid == nil && g.r.Chance(0.12) { // a DCID the session pool cannot key by: length 0 or more than 20
				g.forceDcid = g.bytes([]int{0, 0, 21, 24}[g.r.Intn(4)])
				uncacheable = true
			}
			var qc *c06QuicCase
			if g.r.Chance(0.12) && !noSni {
				hc = g.bigHello(3000)
				qc = g.quicCaseManyDatagrams(hc.h.Handshake(), version)
			} else {
				qc = g.quicCase(hc.h.Handshake(), version)
			}
			g.forceDcid, g.forceScid = nil, nil
			if n := len(qc.oracle[0].dcid); (!uncacheable && (n == 0 || n > 20)) || qc.hasClose || (multi && len(qc.datagrams) < 2) {
				continue
			}
			if uncacheable {
				g.stats.Inc("fam.conn.uncacheable_dcid")
			}
			switch g.r.Intn(8) {
			case 0:
				g.quicCorruptFrom(qc, 50) // connection ids intact: same session, does not authenticate
				g.stats.Inc("fam.conn.corrupt")
			case 1:
				c06AppendDatagram(qc, qc.datagrams[0], qc.oracle, 0)
				g.stats.Inc("fam.conn.retransmit")
			}
			return c06FamSteps(qc, conn), hc
		}
	}
	// random merge that keeps each connection's order; `blocky` finishes runs of one connection
	merge := func(fl [][]*c06FamStep) []*c06FamStep {
		var out []*c06FamStep
		idx := make([]int, len(fl))
		cur := -1
		for {
			var live []int
			for c := range fl {
				if idx[c] < len(fl[c]) {
					live = append(live, c)
				}
			}
			if len(live) == 0 {
				return out
			}
			if cur < 0 || idx[cur] >= len(fl[cur]) || g.r.Chance(0.45) {
				cur = live[g.r.Intn(len(live))]
			}
			out = append(out, fl[cur][idx[cur]])
			idx[cur]++
		}
	}

	emitted := 0
	for i := 0; i < n; i++ {
		var steps []*c06FamStep
		kind := ""
		switch k := g.r.Intn(20); {
		case k < 10: // 1..3 connections interleaved
			nc := []int{1, 2, 2, 2, 3, 3, 4}[g.r.Intn(7)]
			multi = g.r.Bool()
			var fl [][]*c06FamStep
			for c := 0; c < nc; c++ {
				f, _ := flight(c, nil, nil, false)
				fl = append(fl, f)
			}
			multi = false
			steps = merge(fl)
			kind = fmt.Sprintf("connections.%d", nc)
		case k < 12: // one DCID, two source connection ids (two fingerprints under one session key)
			dcid := g.bytes(8)
			a, _ := flight(0, dcid, g.bytes(8), false)
			b, _ := flight(1, dcid, g.bytes(5), false)
			steps = merge([][]*c06FamStep{a, b})
			kind = "same_dcid_two_scids"
		case k < 14: // a connection without SNI completes (endpoint without a domain), then another one opens
			a, _ := flight(0, nil, nil, true)
			b, _ := flight(1, nil, nil, false)
			steps = append(append(steps, a...), b...)
			if g.r.Bool() {
				c, _ := flight(2, nil, nil, false)
				steps = append(steps, c...)
			}
			kind = "domainless_endpoint_then_other_connection"
		case k < 16: // no-SNI hello retransmitted while every dial fails: the no-SNI streak and the bypass
			a, _ := flight(0, nil, nil, true)
			fails := g.r.Range(3, 6)
			for r := 0; r < 7; r++ {
				for _, s := range a {
					cp := *s
					cp.dialFails = r < fails
					steps = append(steps, &cp)
				}
			}
			kind = "nosni_streak_under_dial_failures"
		case k < 18: // undecryptable Initials retransmitted under dial failures, then a healthy connection
			a, _ := flight(0, nil, nil, false)
			bad := *a[0]
			bad.data = append([]byte(nil), bad.data...)
			at := len(bad.data) - 1 // last byte of the first packet's AEAD tag
			if len(bad.seals) > 0 {
				at = bad.seals[0].start + bad.seals[0].stop - 1
			}
			bad.data[at] ^= 0x55
			var keep []*c06Sealed
			for _, se := range bad.seals {
				if !(at >= se.start && at < se.start+se.stop) {
					keep = append(keep, se)
				}
			}
			bad.seals = keep
			fails := g.r.Range(1, 4)
			for r := 0; r < 5; r++ {
				cp := bad
				cp.data = append([]byte(nil), bad.data...)
				cp.data[at-1] = byte(r) // a retransmission is a new packet (still inside the same tag)
				cp.dialFails = r < fails
				steps = append(steps, &cp)
				if r == 2 && g.r.Bool() {
					steps = append(steps, a...)
				}
			}
			b, _ := flight(1, nil, nil, false)
			steps = append(steps, b...)
			kind = "undecryptable_under_dial_failures"
		default: // held datagrams, then the completing step's dial fails, then retransmission
			a, _ := flight(0, nil, nil, false)
			for _, s := range a {
				cp := *s
				steps = append(steps, &cp)
			}
			steps[len(steps)-1].dialFails = true
			for _, s := range a {
				cp := *s
				steps = append(steps, &cp)
			}
			kind = "dial_fails_at_completion_then_retransmit"
		}
		// datagrams that are not QUIC Initials, anywhere
		for k := g.r.Intn(3); k > 0; k-- {
			at := g.r.Intn(len(steps) + 1)
			steps = append(steps[:at:at], append([]*c06FamStep{junk()}, steps[at:]...)...)
			g.stats.Inc("fam.junk_inserted")
		}
		if g.r.Chance(0.7) { // close the history with one (flushes whatever is still held)
			steps = append(steps, junk())
		}
		// faults
		for k, s := range steps {
			if !strings.HasPrefix(kind, "nosni") && !strings.HasPrefix(kind, "undecryptable") && g.r.Chance(0.1) {
				cp := *s
				cp.dialFails = true
				steps[k] = &cp
			}
			// (never together with a failing dial: the re-dial after the failed write would be the one that fails)
			if !steps[k].dialFails && g.r.Chance(0.08) {
				cp := *steps[k]
				cp.writeFails = g.r.Range(1, 2)
				cp.writeSkip = []int{0, 0, 1, 1, 2, 3, 5}[g.r.Intn(7)] // fail the k-th write of the payload, not only the first
				steps[k] = &cp
				g.stats.Inc("fam.write_failure_injected")
				if cp.writeSkip > 0 {
					g.stats.Inc("fam.write_failure_after_earlier_writes")
				}
			}
		}
		if len(steps) > 40 {
			steps = steps[:40]
		}
		op, out, perStep, slow := c06RunFam(steps)
		if slow { // the model's "for the rest of the history" would not describe this run
			g.stats.Inc("fam.discarded_slow")
			continue
		}
		st.Emit(op, out)
		emitted++
		g.stats.Inc("fam." + kind)
		nd := 0
		for _, s := range steps {
			if s.dialFails {
				nd++
			}
		}
		if nd > 0 {
			g.stats.Inc("fam.with_dial_failures")
		}
		g.stats.Inc(fmt.Sprintf("fam.steps.%d0s", len(steps)/10))
		if strings.Contains(out, "held=0") == false {
			g.stats.Inc("fam.ends_with_held")
		}
		if p := c06FamOracle(steps, perStep, out); p != "" {
			fmt.Fprintf(viol, "flow family (%s): %s  answer: %.300s\n", kind, p, out)
		}
	}
	g.stats.Add("fam.emitted", emitted)

	// Directed scenario (implementation only, no model behind it): a QUIC Initial whose DCID is not
	// "cacheable" (length 0) is withheld, then a datagram that is not a QUIC Initial is forwarded.
	for tries, found := 0, 0; tries < 4000 && found < 6; tries++ {
		g.forceDcid = []byte{}
		qc := g.quicCase(g.hello().h.Handshake(), c06QuicV1)
		g.forceDcid = nil
		if len(qc.datagrams) < 2 || qc.hasClose {
			continue
		}
		steps := c06FamSteps(qc, 0)[:1]
		steps = append(steps, junk())
		_, out, perStep, _ := c06RunFam(steps)
		if len(perStep) != 2 || len(perStep[0]) != 0 {
			continue // the first Initial was not withheld (the hello fits in it)
		}
		found++
		g.stats.Inc("fam.directed_uncacheable_dcid")
		if c06FlowField(out, "held") != "0" || len(perStep[1]) != 2 {
			fmt.Fprintf(known, "c06-udp-withheld-stranded-uncacheable-dcid Initial with a zero-length DCID (%d B) withheld, then a %d-byte datagram that is not a QUIC Initial: the outbound received %d datagram(s), the Initial is still held (held=%s) and is dropped when its session expires\n",
				len(steps[0].data), len(steps[1].data), len(perStep[1]), c06FlowField(out, "held"))
		}
	}
	g.stats.Write("c06fam")
}
