package control

// C14, control-plane half: executes the REAL region of control.NewControlPlane that builds the node
// pool and the groups — from `dialerSet := outbound.NewDialerSetFromLinksContext(…)` to the end of
// `for _, group := range groups { … }` (policy, FilterAndAnnotate, debug listing, group override
// option + clone loop, NewDialerGroup) — extracted verbatim from /repo's CURRENT control_plane.go by
// checks/c14.py into c14RealGroupRegion (zz_verif_c14_region.go), and compares pool, members,
// annotations and fixed(i) with the Lean model (same `grp` op as the package-outbound harness).
//
// Pools are written as node links (`socks5://127.0.0.1:<port>#<escaped name>`) under subscription
// tags, so the real NewDialerSetFromLinksContext decides pool order, names and tag association; the
// harness reads them back (read-only accessors of c14_access.go) and checks them against what it
// wrote.  Generators etc. come from c14_gen_test.go (instantiated for this package by the check).

import (
	"fmt"
	"net/url"
	"os"
	"path/filepath"
	"sort"
	"strings"
	"testing"

	"github.com/daeuniverse/dae/common/consts"
	"github.com/daeuniverse/dae/component/outbound"
	"github.com/daeuniverse/dae/component/outbound/dialer"
	"github.com/daeuniverse/dae/config"
	"github.com/sirupsen/logrus"
)

var c14CtlLog = func() *logrus.Logger {
	l := logrus.New()
	l.SetLevel(logrus.PanicLevel)
	l.SetOutput(os.Stderr)
	return l
}()

var c14CtlNetTypes = []*dialer.NetworkType{
	{L4Proto: consts.L4ProtoStr_TCP, IpVersion: consts.IpVersionStr_4},
	{L4Proto: consts.L4ProtoStr_TCP, IpVersion: consts.IpVersionStr_6},
	{L4Proto: consts.L4ProtoStr_UDP, IpVersion: consts.IpVersionStr_4, IsDns: true, UdpHealthDomain: dialer.UdpHealthDomainDns},
	{L4Proto: consts.L4ProtoStr_UDP, IpVersion: consts.IpVersionStr_6, IsDns: true, UdpHealthDomain: dialer.UdpHealthDomainDns},
	{L4Proto: consts.L4ProtoStr_UDP, IpVersion: consts.IpVersionStr_4, UdpHealthDomain: dialer.UdpHealthDomainData},
	{L4Proto: consts.L4ProtoStr_UDP, IpVersion: consts.IpVersionStr_6, UdpHealthDomain: dialer.UdpHealthDomainData},
	{L4Proto: consts.L4ProtoStr_TCP, IpVersion: consts.IpVersionStr_4, IsDns: true},
}

func c14CtlFixedSel(grp *outbound.DialerGroup, index func(*dialer.Dialer) (int, bool)) string {
	one := func(d *dialer.Dialer, err error) string {
		switch {
		case err == nil:
			if idx, ok := index(d); ok {
				return fmt.Sprint(idx)
			}
			return "?"
		case strings.Contains(err.Error(), "out of range"):
			return "range"
		case strings.Contains(err.Error(), "no dialer in this group"):
			return "empty"
		}
		return "err:" + c14x(err.Error())
	}
	var excluded *dialer.Dialer
	if len(grp.Dialers) > 0 {
		excluded = grp.Dialers[0]
	}
	seen := map[string]bool{}
	var order []string
	for _, nt := range c14CtlNetTypes {
		for _, strict := range []bool{false, true} {
			d, _, err := grp.Select(nt, strict)
			a := one(d, err)
			d, _, err = grp.SelectWithExclusion(nt, strict, excluded)
			b := one(d, err)
			for _, x := range []string{a, b} {
				if !seen[x] {
					seen[x] = true
					order = append(order, x)
				}
			}
		}
	}
	if len(order) == 1 {
		return order[0]
	}
	return "DISAGREE(" + strings.Join(order, "|") + ")"
}

type c14Link struct {
	link string
	node c14Node
}

func TestVerifC14Ctl(t *testing.T) {
	r := NewVRand(VSeed() + 7777)
	stats := NewVStats()
	st := VOpenStream("c14ctl")
	side, err := os.Create(filepath.Join(VOutDir(), "c14ctl.side"))
	if err != nil {
		t.Fatal(err)
	}
	defer func() { st.Close(); side.Close(); stats.Write("c14ctl") }()
	c14LargeBoost = 45 // 6 % large pools here: 65..600 nodes through the real constructor and loop

	port := 0
	run := func(nodes []c14Node, d *c14Def, forceDirect bool) {
		g, global, via, parserChanged := c14Obtain(r, d, forceDirect, stats)
		g.Name = "g"
		option := dialer.NewGlobalOption(global, c14CtlLog)

		// the pool as subscriptions: tag -> links, unique link per node
		tagToNodeList := map[string][]string{}
		want := map[string]c14Node{} // link -> what was written
		for _, n := range nodes {
			port = port%60000 + 1
			link := fmt.Sprintf("socks5://127.0.0.1:%d#%s", 1024+port, url.PathEscape(n.Name))
			tagToNodeList[n.Tag] = append(tagToNodeList[n.Tag], link)
			want[link] = n
		}
		extra := ""
		if r.Chance(0.15) { // a link no dialer can be made of: skipped by the real constructor
			tg := c14Pick(r, c14Tags)
			k := 0
			if len(tagToNodeList[tg]) > 0 {
				k = r.Intn(len(tagToNodeList[tg]) + 1)
			}
			l := append([]string{}, tagToNodeList[tg][:k]...)
			l = append(l, "garbage://not-a-node")
			tagToNodeList[tg] = append(l, tagToNodeList[tg][k:]...)
			extra = " unparsable_link"
			stats.Inc("pool.with_unparsable_link")
		}
		if len(tagToNodeList) >= 2 {
			stats.Inc("pool.subscriptions_2_plus")
		}

		res, lerr := func() (res *c14Region, err error) {
			defer func() {
				if rec := recover(); rec != nil {
					err = fmt.Errorf("crash:%v", rec)
				}
			}()
			return c14RealGroupRegion(option, tagToNodeList, []config.Group{*g}, global, c14CtlLog)
		}()
		defer func() {
			if res != nil {
				for _, og := range res.Outbounds {
					if og != nil {
						_ = og.Close()
					}
				}
				for i := len(res.DeferFuncs) - 1; i >= 0; i-- {
					_ = res.DeferFuncs[i]()
				}
			}
		}()

		// read the pool back: order, names, tags as the REAL constructor made them
		var pool []c14Node
		index := map[*dialer.Dialer]int{}
		byLink := map[string]int{}
		poolOK := "ok"
		if res != nil && res.DialerSet != nil {
			ds := res.DialerSet.VerifC14Dialers()
			perTag := map[string][]string{}
			for i, dd := range ds {
				tag, ok := res.DialerSet.VerifC14Tag(dd)
				if !ok {
					poolOK = "node-without-tag"
				}
				pool = append(pool, c14Node{Name: dd.Property().Name, Tag: tag})
				index[dd] = i
				byLink[dd.Property().Link+"\x00"+tag] = i
				w, known := want[dd.Property().Link]
				switch {
				case !known:
					poolOK = "unknown-link:" + c14x(dd.Property().Link)
				case w.Name != dd.Property().Name:
					poolOK = "name:" + c14x(w.Name) + "/" + c14x(dd.Property().Name)
				case w.Tag != tag:
					poolOK = "tag:" + c14x(w.Tag) + "/" + c14x(tag)
				}
				perTag[tag] = append(perTag[tag], dd.Property().Link)
			}
			if len(ds) != len(nodes) && poolOK == "ok" {
				poolOK = fmt.Sprintf("size:%d/%d", len(nodes), len(ds))
			}
			// inside one subscription the order is the order written
			for tag, got := range perTag {
				var exp []string
				for _, l := range tagToNodeList[tag] {
					if _, ok := want[l]; ok {
						exp = append(exp, l)
					}
				}
				if strings.Join(exp, "\n") != strings.Join(got, "\n") && poolOK == "ok" {
					poolOK = "order-within-subscription"
				}
			}
		} else {
			pool = nodes
			poolOK = "no-pool"
		}

		var body, pb strings.Builder
		o := c14BodyTok(&body, pool, g)
		valid := c14Valid(o, g)
		c14PolicyTok(&pb, g.Policy)

		out := ""
		switch {
		case lerr != nil && strings.HasPrefix(lerr.Error(), "crash:"):
			out = lerr.Error()
		case lerr != nil:
			m := lerr.Error()
			// control_plane wraps: `failed to create group g: <policy error>` / `failed to create group "g": <filter error>`
			switch {
			case strings.HasPrefix(m, "failed to create group g: "):
				out = "perr " + c14PolicyErr(fmt.Errorf("%s", strings.TrimPrefix(m, "failed to create group g: ")))
			case strings.HasPrefix(m, `failed to create group "g": `):
				out = "ferr " + c14FilterErr(fmt.Errorf("%s", strings.TrimPrefix(m, `failed to create group "g": `)))
			default:
				out = "gerr other " + c14x(m)
			}
		case len(res.Outbounds) != 3:
			out = fmt.Sprintf("groups:%d", len(res.Outbounds)-2)
		default:
			grp := res.Outbounds[2]
			an := grp.VerifC14Annotations()
			cloned := 0
			idxOf := func(dd *dialer.Dialer) (int, bool) {
				if i, ok := index[dd]; ok {
					return i, true
				}
				// a clone made by the override loop: identified by (link, subscription tag)
				i, ok := byLink[dd.Property().Link+"\x00"+dd.Property().SubscriptionTag]
				return i, ok
			}
			members := "-"
			if len(grp.Dialers) != len(an) {
				members = fmt.Sprintf("annolen-mismatch:%d/%d", len(grp.Dialers), len(an))
			} else if len(grp.Dialers) > 0 {
				parts := make([]string, 0, len(grp.Dialers))
				for i, dd := range grp.Dialers {
					if _, same := index[dd]; !same {
						cloned++
					}
					idx, ok := idxOf(dd)
					switch {
					case !ok:
						parts = append(parts, "?")
					case an[i] == nil:
						parts = append(parts, fmt.Sprintf("%d:nil", idx))
					case dd.Property().Name != pool[idx].Name:
						parts = append(parts, fmt.Sprintf("%d:renamed", idx))
					default:
						parts = append(parts, fmt.Sprintf("%d:%d", idx, int64(an[i].AddLatency)))
					}
				}
				members = strings.Join(parts, ",")
			}
			if cloned > 0 {
				stats.Inc("group.members_are_override_clones")
			}
			pol := string(grp.GetSelectionPolicy())
			sel := "-"
			if grp.GetSelectionPolicy() == consts.DialerSelectionPolicy_Fixed {
				sel = c14CtlFixedSel(grp, idxOf)
				// the index is not exposed; it is observable through the selection. The model line
				// prints fixed:<i>; print the same from the parsed policy (the real parser of it
				// already ran inside the region).
				if p, err := outbound.NewDialerSelectionPolicyFromGroupParam(g); err == nil {
					pol = fmt.Sprintf("fixed:%d", p.FixedIndex)
				}
			}
			out = fmt.Sprintf("ok pol=%s members=%s sel=%s", pol, members, sel)
		}
		st.Emit("grp"+pb.String()+body.String(), out)
		pc := "-"
		if parserChanged != "" {
			pc = c14x(parserChanged)
		}
		fmt.Fprintf(side, "grp valid=%v lenient=%v pool=%s nodes=%d over=%d via=%s parserchanged=%s%s\n", valid, c14LenientPolicy(g.Policy), poolOK, len(pool), d.Over, via, pc, extra)
		c14GroupStats(stats, out)
		if d.Over != 0 && strings.HasPrefix(out, "ok ") {
			stats.Inc("discrim.override_group_built")
			if !strings.Contains(out, "members=- ") {
				stats.Inc("discrim.override_group_built_nonempty")
			}
		}
		if strings.HasPrefix(out, "ok ") && len(pool) > 64 {
			stats.Inc("discrim.large_pool_group_built")
		}
		if strings.HasPrefix(out, "ok ") && len(tagToNodeList) >= 2 {
			stats.Inc("discrim.multi_subscription_group_built")
		}
		_ = sort.Strings
	}

	dn, dd := c14Directed()
	for _, d := range dd {
		run(dn, d, false)
	}
	nPools := 260
	if VThorough() {
		nPools = 2600
	}
	for pi := 0; pi < nPools; pi++ {
		nodes := c14GenPool(r, stats)
		nd := 2 + r.Intn(4)
		if len(nodes) > 64 {
			nd = 2
		}
		for k := 0; k < nd; k++ {
			d := c14GenDef(r, nodes, stats)
			if len(nodes) > 64 && k == 0 {
				for len(d.Lines) < 2 {
					d = c14GenDef(r, nodes, stats)
				}
				d.Over |= 8
			}
			run(nodes, d, r.Chance(0.15))
		}
	}
}
