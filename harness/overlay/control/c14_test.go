package control

// C14, control-plane half: executes the REAL outbound region of control.NewControlPlane — from the
// construction of `direct`/`block` through `dialerSet := outbound.NewDialerSetFromLinksContext(…)`,
// `for _, group := range groups { … }` (policy, FilterAndAnnotate, debug listing, group override
// option + clone loop, NewDialerGroup), the alive-transition registration, the outbound-count limit
// and the name -> id table — extracted verbatim from /repo's CURRENT control_plane.go by
// checks/c14.py into c14RealGroupRegion (zz_verif_c14_region.go), and compares pool, members,
// annotations, effective latency offsets, fixed(i) and the name table with the Lean model (op `cfg`).
// Production-shaped histories: reload sequences (the same groups over a subscription that changed by
// one edit, the previous generation still open while the next is built), the same node offered by two
// subscriptions, configurations at and just beyond the outbound limit.
//
// Pools are written as node links (`socks5://127.0.0.1:<port>#<escaped name>`) under subscription
// tags, so the real NewDialerSetFromLinksContext decides pool order, names and tag association; the
// harness reads them back (read-only accessors of c14_access.go) and checks them against what it
// wrote.  Generators etc. come from c14_gen_test.go (instantiated for this package by the check).

import (
	"fmt"
	"io"
	"net/url"
	"os"
	"path/filepath"
	"sort"
	"strings"
	"testing"

	"github.com/daeuniverse/dae/common/consts"
	"github.com/daeuniverse/dae/component/outbound"
	"github.com/daeuniverse/dae/component/outbound/dialer"
	"github.com/daeuniverse/dae/config"
	"github.com/sirupsen/logrus"
)

var c14CtlLog = func() *logrus.Logger {
	l := logrus.New()
	l.SetLevel(logrus.PanicLevel)
	l.SetOutput(os.Stderr)
	return l
}()

// the region has a `log.IsLevelEnabled(logrus.DebugLevel)` arm (the member listing): half of the ops
// run with a Debug-level logger that writes nowhere, so that this arm is executed too
var c14CtlDebugLog = func() *logrus.Logger {
	l := logrus.New()
	l.SetLevel(logrus.DebugLevel)
	l.SetOutput(io.Discard)
	return l
}()

var c14CtlNetTypes = []*dialer.NetworkType{
	{L4Proto: consts.L4ProtoStr_TCP, IpVersion: consts.IpVersionStr_4},
	{L4Proto: consts.L4ProtoStr_TCP, IpVersion: consts.IpVersionStr_6},
	{L4Proto: consts.L4ProtoStr_UDP, IpVersion: consts.IpVersionStr_4, IsDns: true, UdpHealthDomain: dialer.UdpHealthDomainDns},
	{L4Proto: consts.L4ProtoStr_UDP, IpVersion: consts.IpVersionStr_6, IsDns: true, UdpHealthDomain: dialer.UdpHealthDomainDns},
	{L4Proto: consts.L4ProtoStr_UDP, IpVersion: consts.IpVersionStr_4, UdpHealthDomain: dialer.UdpHealthDomainData},
	{L4Proto: consts.L4ProtoStr_UDP, IpVersion: consts.IpVersionStr_6, UdpHealthDomain: dialer.UdpHealthDomainData},
	{L4Proto: consts.L4ProtoStr_TCP, IpVersion: consts.IpVersionStr_4, IsDns: true},
}

func c14CtlFixedSel(grp *outbound.DialerGroup, fixedIndex int, haveIndex bool, index func(*dialer.Dialer) (int, bool)) string {
	// an error is classified by the SITUATION (index and group size are known), not by its wording
	one := func(d *dialer.Dialer, err error) string {
		switch {
		case err == nil:
			if idx, ok := index(d); ok {
				return fmt.Sprint(idx)
			}
			return "?"
		case len(grp.Dialers) == 0:
			return "empty"
		case haveIndex && (fixedIndex < 0 || fixedIndex >= len(grp.Dialers)):
			return "range"
		}
		return "err:" + c14x(err.Error())
	}
	var excluded *dialer.Dialer
	if len(grp.Dialers) > 0 {
		excluded = grp.Dialers[0]
	}
	seen := map[string]bool{}
	var order []string
	for _, nt := range c14CtlNetTypes {
		for _, strict := range []bool{false, true} {
			d, _, err := grp.Select(nt, strict)
			a := one(d, err)
			d, _, err = grp.SelectWithExclusion(nt, strict, excluded)
			b := one(d, err)
			for _, x := range []string{a, b} {
				if !seen[x] {
					seen[x] = true
					order = append(order, x)
				}
			}
		}
	}
	if len(order) == 1 {
		return order[0]
	}
	return "DISAGREE(" + strings.Join(order, "|") + ")"
}

type c14Link struct {
	link string
	node c14Node
}

func TestVerifC14Ctl(t *testing.T) {
	r := NewVRand(VSeed() + 7777)
	stats := NewVStats()
	st := VOpenStream("c14ctl")
	side, err := os.Create(filepath.Join(VOutDir(), "c14ctl.side"))
	if err != nil {
		t.Fatal(err)
	}
	defer func() { st.Close(); side.Close(); stats.Write("c14ctl") }()
	c14LargeBoost = 45 // 6 % large pools here: 65..600 nodes through the real constructor and loop

	port := 0
	var lastBags []string // per group: the members the definition meant over the pool of the previous call
	// run builds one configuration; the returned function closes what was built (a reload sequence
	// keeps the previous generation open until the next one exists, as the real reload does)
	run := func(nodes []c14Node, defs []*c14Def, names []string, forceDirect bool, kind string) (closer func()) {
		// the real config.Group of every definition (through the real parser when expressible)
		var gs []*config.Group
		var global *config.Global
		via, parserChanged, over := "direct", "", 0
		for k, d := range defs {
			g, gl, v, pc := c14Obtain(r, d, forceDirect, stats)
			g.Name = fmt.Sprintf("g%d", k)
			if k < len(names) {
				g.Name = names[k]
			}
			gs = append(gs, g)
			if k == 0 {
				global = gl
			}
			if v == "parser" {
				via = v
			}
			if pc != "" {
				parserChanged = pc
			}
			over |= d.Over
		}
		lg, logLevel := c14CtlLog, "panic"
		if r.Bool() {
			lg, logLevel = c14CtlDebugLog, "debug"
			stats.Inc("gen.region_run_at_debug_level")
		} else {
			stats.Inc("gen.region_run_at_panic_level")
		}
		option := dialer.NewGlobalOption(global, lg)
		if over != 0 {
			stats.Inc("gen.call_with_override_group")
		}
		if len(defs) >= 2 {
			stats.Inc("gen.call_with_2_plus_groups")
		}
		if len(nodes) > 64 {
			stats.Inc("gen.call_with_large_pool")
		}

		// the pool as subscriptions: tag -> links, unique link per node
		tagToNodeList := map[string][]string{}
		want := map[string]c14Node{} // link + NUL + tag -> what was written
		linkOfName := map[string]string{}
		sameLink := false
		for _, n := range nodes {
			link := ""
			// the SAME link under another subscription (a node offered by two subscriptions)
			if prev, ok := linkOfName[n.Name]; ok && r.Chance(0.5) {
				if _, used := want[prev+"\x00"+n.Tag]; !used {
					link, sameLink = prev, true
				}
			}
			if link == "" {
				port = port%60000 + 1
				link = fmt.Sprintf("socks5://127.0.0.1:%d#%s", 1024+port, url.PathEscape(n.Name))
				linkOfName[n.Name] = link
			}
			tagToNodeList[n.Tag] = append(tagToNodeList[n.Tag], link)
			want[link+"\x00"+n.Tag] = n
		}
		if sameLink {
			stats.Inc("pool.same_link_in_two_subscriptions")
		}
		extra := ""
		if r.Chance(0.15) { // a link no dialer can be made of: skipped by the real constructor
			tg := c14Pick(r, c14Tags)
			k := 0
			if len(tagToNodeList[tg]) > 0 {
				k = r.Intn(len(tagToNodeList[tg]) + 1)
			}
			l := append([]string{}, tagToNodeList[tg][:k]...)
			l = append(l, "garbage://not-a-node")
			tagToNodeList[tg] = append(l, tagToNodeList[tg][k:]...)
			extra = " unparsable_link"
			stats.Inc("pool.with_unparsable_link")
		}
		if len(tagToNodeList) >= 2 {
			stats.Inc("pool.subscriptions_2_plus")
		}

		groups := make([]config.Group, 0, len(gs))
		for _, g := range gs {
			groups = append(groups, *g)
		}
		res, lerr := func() (res *c14Region, err error) {
			defer func() {
				if rec := recover(); rec != nil {
					err = fmt.Errorf("crash:%v", rec)
				}
			}()
			return c14RealGroupRegion(option, tagToNodeList, groups, global, lg)
		}()
		closer = func() {
			if res != nil {
				for k, og := range res.Outbounds {
					if og != nil {
						_ = og.Close()
						if k < 2 { // direct / block: their single dialer is not in deferFuncs
							for _, dd := range og.Dialers {
								_ = dd.Close()
							}
						}
					}
				}
				for i := len(res.DeferFuncs) - 1; i >= 0; i-- {
					_ = res.DeferFuncs[i]()
				}
			}
		}

		// read the pool back AFTER the whole loop ran: order, names, tags as the real code left them
		var pool []c14Node
		index := map[*dialer.Dialer]int{}
		byLink := map[string]int{}
		poolOK := "ok"
		if res != nil && res.DialerSet != nil {
			ds := res.DialerSet.VerifC14Dialers()
			perTag := map[string][]string{}
			for i, dd := range ds {
				tag, ok := res.DialerSet.VerifC14Tag(dd)
				if !ok {
					poolOK = "node-without-tag"
				}
				pool = append(pool, c14Node{Name: dd.Property().Name, Tag: tag})
				index[dd] = i
				byLink[dd.Property().Link+"\x00"+tag] = i
				w, known := want[dd.Property().Link+"\x00"+tag]
				if !ok {
					w, known = want[dd.Property().Link+"\x00"+dd.Property().SubscriptionTag]
				}
				switch {
				case !known:
					poolOK = "unknown-link:" + c14x(dd.Property().Link)
				case w.Name != dd.Property().Name:
					poolOK = "name:" + c14x(w.Name) + "/" + c14x(dd.Property().Name)
				case w.Tag != tag && ok:
					poolOK = "tag:" + c14x(w.Tag) + "/" + c14x(tag)
				}
				perTag[tag] = append(perTag[tag], dd.Property().Link)
			}
			if len(ds) != len(nodes) && poolOK == "ok" {
				poolOK = fmt.Sprintf("size:%d/%d", len(nodes), len(ds))
			}
			for tag, got := range perTag { // inside one subscription the order is the order written
				var exp []string
				for _, l := range tagToNodeList[tag] {
					if _, ok := want[l+"\x00"+tag]; ok {
						exp = append(exp, l)
					}
				}
				if strings.Join(exp, "\n") != strings.Join(got, "\n") {
					// order ACROSS subscriptions is map order already; order inside one is not part of the
					// statement either (the pool is the quantified input): recorded, not enforced
					stats.Inc("pool.order_inside_a_subscription_differs_from_written")
				}
			}
		} else {
			pool = nodes
			poolOK = "no-pool"
		}
		// the op's pool: what was WRITTEN, in the order the constructor chose (if the real code lost
		// or changed a tag/name afterwards, the pool check above reports it, and the members of the
		// later groups are still compared against the meaning over the written pool)
		for i := range pool {
			if res != nil && res.DialerSet != nil {
				dd := res.DialerSet.VerifC14Dialers()[i]
				if w, ok := want[dd.Property().Link+"\x00"+pool[i].Tag]; ok {
					pool[i] = w
				} else if w, ok := want[dd.Property().Link+"\x00"+dd.Property().SubscriptionTag]; ok {
					pool[i] = w
				}
			}
		}

		var body strings.Builder
		o := c14CfgTok(&body, pool, gs)
		valid, lenient, kwsubtag, structonly := true, false, true, false
		for _, g := range gs {
			valid = valid && c14Valid(o, g)
			lenient = lenient || c14LenientPolicy(g.Policy)
			kwsubtag = kwsubtag && (c14Valid(o, g) || c14OnlyKeywordOnSubtag(o, g))
			structonly = structonly || c14StructOnly(g)
		}
		kwsubtag = kwsubtag && !valid
		if valid && kind == "after-unfiltered-override" {
			// would the later subtag groups come out differently if the tags were lost? (oracle side only)
			lost := make([]c14Node, len(pool))
			for i, n := range pool {
				lost[i] = c14Node{Name: n.Name}
			}
			for _, g := range gs[1:] {
				if c14SpecEval(o, lost, g).Members != c14SpecEval(o, pool, g).Members {
					stats.Inc("discrim.subtag_group_after_unfiltered_override_group_sees_tags")
					if logLevel == "debug" {
						stats.Inc("discrim.subtag_group_after_unfiltered_override_group_sees_tags_at_debug_level")
					}
					break
				}
			}
		}

		// Go-side oracle for the outbound table: names (direct, block, then the groups) must be pairwise
		// distinct and there may be at most OutboundUserDefinedMax outbounds
		namesState := "ok"
		seenName := map[string]bool{"direct": true, "block": true}
		for _, g := range gs {
			if seenName[g.Name] {
				namesState = "dup"
			}
			seenName[g.Name] = true
		}
		if 2+len(gs) > int(consts.OutboundUserDefinedMax) {
			namesState = "toomany"
		}
		// what the definitions mean over this pool, as multisets: did the subscription update change it?
		if strings.HasPrefix(kind, "reload") && valid {
			var bags []string
			for _, g := range gs {
				bags = append(bags, c14MemberBag(o, pool, g))
			}
			if kind == "reload-next" && len(lastBags) == len(bags) {
				changed := false
				for k := range bags {
					changed = changed || bags[k] != lastBags[k]
				}
				if changed {
					stats.Inc("discrim.reload_pool_edit_changes_members")
				} else {
					stats.Inc("reload.pool_edit_leaves_members_unchanged")
				}
			}
			lastBags = bags
		}

		out, ids := "", "-"
		idsPermuted := false
		switch {
		case lerr != nil && strings.HasPrefix(lerr.Error(), "crash:"):
			out = lerr.Error()
		case lerr != nil:
			m := lerr.Error()
			// control_plane wraps: `failed to create group NAME: <policy error>` / `failed to create group "NAME": <filter error>`
			out = "gerr other " + c14x(m)
			switch {
			case m == "too many outbounds":
				out = fmt.Sprintf("gerr toomany %d", 2+len(gs))
			case strings.HasPrefix(m, "duplicated outbound name: "):
				out = "gerr dup " + c14x(strings.TrimPrefix(m, "duplicated outbound name: "))
			default:
				for _, g := range gs {
					if pre := `failed to create group "` + g.Name + `": `; strings.HasPrefix(m, pre) {
						out = "ferr " + c14FilterErr(fmt.Errorf("%s", m[len(pre):]))
						break
					}
					if pre := "failed to create group " + g.Name + ": "; strings.HasPrefix(m, pre) {
						out = "perr " + c14PolicyErr(fmt.Errorf("%s", m[len(pre):]))
						break
					}
				}
			}
		case len(res.Outbounds) != 2+len(gs):
			out = fmt.Sprintf("groups:%d", len(res.Outbounds)-2)
		default:
			var parts []string
			for k, g := range gs {
				// the group a routing rule naming it would reach: through the name table (equal to position
				// 2+k in this code; a self-consistent other id assignment would not change any selection)
				pos := 2 + k
				if id, ok := res.Name2Id[g.Name]; ok && namesState == "ok" && int(id) < len(res.Outbounds) {
					pos = int(id)
				}
				grp := res.Outbounds[pos]
				an := grp.VerifC14Annotations()
				cloned := 0
				idxOf := func(dd *dialer.Dialer) (int, bool) {
					if i, ok := index[dd]; ok {
						return i, true
					}
					// a clone made by the override loop: identified by (link, subscription tag) …
					if i, ok := byLink[dd.Property().Link+"\x00"+dd.Property().SubscriptionTag]; ok {
						return i, true
					}
					// … or, if a clone no longer carries its link, by a unique (name, tag) in the pool
					found, n := -1, 0
					for i, pn := range pool {
						if pn.Name == dd.Property().Name && pn.Tag == dd.Property().SubscriptionTag {
							found, n = i, n+1
						}
					}
					return found, n == 1
				}
				members := "-"
				if len(grp.Dialers) != len(an) {
					members = fmt.Sprintf("annolen-mismatch:%d/%d", len(grp.Dialers), len(an))
				} else if len(grp.Dialers) > 0 {
					ms := make([]string, 0, len(grp.Dialers))
					for i, dd := range grp.Dialers {
						if _, same := index[dd]; !same {
							cloned++
						}
						idx, ok := idxOf(dd)
						switch {
						case !ok:
							ms = append(ms, "?")
						case an[i] == nil:
							ms = append(ms, fmt.Sprintf("%d:nil", idx))
						case dd.Property().Name != pool[idx].Name:
							ms = append(ms, fmt.Sprintf("%d:renamed", idx))
						default:
							ms = append(ms, fmt.Sprintf("%d:%d", idx, int64(an[i].AddLatency)))
						}
					}
					members = strings.Join(ms, ",")
				}
				if cloned > 0 {
					stats.Inc("group.members_are_override_clones")
				}
				if grp.Name != g.Name {
					members = "wrong-group-name"
				}
				pol := string(grp.GetSelectionPolicy())
				sel := "-"
				if grp.GetSelectionPolicy() == consts.DialerSelectionPolicy_Fixed {
					// the index is not exposed; the model line prints fixed:<i>: print the same from the parsed policy
					fi, have := 0, false
					if p, err := outbound.NewDialerSelectionPolicyFromGroupParam(g); err == nil {
						pol = fmt.Sprintf("fixed:%d", p.FixedIndex)
						fi, have = p.FixedIndex, true
					}
					sel = c14CtlFixedSel(grp, fi, have, idxOf)
				}
				off := c14Offsets(grp.VerifC14AliveSets(), grp.Dialers, idxOf)
				if cloned > 0 && off != "none" && off != "-" {
					stats.Inc("discrim.override_clone_group_with_offset_table")
				}
				parts = append(parts, fmt.Sprintf("pol=%s members=%s sel=%s off=%s", pol, members, sel, off))
			}
			// the outbound table: name -> id as the region left it, in id order; the reverse table and the
			// group actually stored under that id must agree
			type ni struct {
				name string
				id   int
			}
			var tbl []ni
			for nm, id := range res.Name2Id {
				tbl = append(tbl, ni{nm, int(id)})
			}
			sort.Slice(tbl, func(a, b int) bool {
				if tbl[a].id != tbl[b].id {
					return tbl[a].id < tbl[b].id
				}
				return tbl[a].name < tbl[b].name
			})
			var idl, expl []string
			consistent := len(res.Id2Name) == len(res.Name2Id) && len(tbl) == 2+len(gs)
			for p, e := range tbl {
				x := fmt.Sprintf("%s:%d", c14x(e.name), e.id)
				if rev, ok := res.Id2Name[uint8(e.id)]; !ok || rev != e.name {
					x += "!id2name"
					consistent = false
				}
				if e.id >= len(res.Outbounds) || res.Outbounds[e.id].Name != e.name {
					x += "!outbound"
					consistent = false
				}
				consistent = consistent && e.id == p
				idl = append(idl, x)
			}
			if len(res.Id2Name) != len(res.Name2Id) {
				idl = append(idl, fmt.Sprintf("!id2name-size:%d", len(res.Id2Name)))
			}
			expl = append(expl, c14x("direct")+":0", c14x("block")+":1")
			for k, g := range gs {
				expl = append(expl, fmt.Sprintf("%s:%d", c14x(g.Name), 2+k))
			}
			consistent = consistent && res.Name2Id["direct"] == 0 && res.Name2Id["block"] == 1
			if consistent && strings.Join(idl, ",") != strings.Join(expl, ",") {
				// a bijection name <-> id <-> stored group with direct = 0 and block = 1, only not in
				// configuration order: no selection depends on it — printed as the model prints it, noted
				idsPermuted = true
				idl = expl
			}
			parts = append(parts, "ids="+strings.Join(idl, ","))
			out = "ok " + strings.Join(parts, " | ")
			// every outbound is wired to its own id: 0 (direct), 1 (block), 2, 3, … in configuration order
			ids = "ok"
			if len(res.CallbackIDs) != 2+len(gs) {
				ids = fmt.Sprintf("count:%d", len(res.CallbackIDs))
			}
			for k, id := range res.CallbackIDs {
				if int(id) != k {
					ids = fmt.Sprintf("id%d=%d", k, id)
				}
			}
			// every distinct dialer of the configuration got exactly one alive-transition callback
			distinctDialers := map[*dialer.Dialer]bool{}
			for _, og := range res.Outbounds {
				for _, dd := range og.Dialers {
					distinctDialers[dd] = true
				}
			}
			if res.Transition != len(distinctDialers) {
				stats.Inc("NOTE.transition_callbacks_differ_from_distinct_dialers")
			}
		}
		st.Emit("cfg"+body.String(), out)
		pc := "-"
		if parserChanged != "" {
			pc = c14x(parserChanged)
		}
		fmt.Fprintf(side, "cfg valid=%v lenient=%v pool=%s nodes=%d groups=%d over=%d via=%s ids=%s parserchanged=%s kind=%s kwsubtag=%v structonly=%v log=%s names=%s idsperm=%v%s\n", valid, lenient, poolOK, len(pool), len(gs), over, via, ids, pc, kind, kwsubtag, structonly, logLevel, namesState, idsPermuted, extra)
		for _, one := range strings.Split(strings.TrimPrefix(out, "ok "), " | ") {
			if strings.HasPrefix(out, "ok ") {
				c14GroupStats(stats, "ok "+one)
			}
		}
		if !strings.HasPrefix(out, "ok ") {
			c14GroupStats(stats, out)
		}
		stats.Inc("names." + namesState)
		if strings.HasPrefix(out, "ok ") {
			if over != 0 {
				stats.Inc("discrim.override_group_built")
				if strings.Contains(out, "members=0:") || strings.Contains(out, "members=1:") || strings.Contains(out, ",") {
					stats.Inc("discrim.override_group_built_nonempty")
				}
			}
			if len(pool) > 64 {
				stats.Inc("discrim.large_pool_group_built")
			}
			if len(tagToNodeList) >= 2 {
				stats.Inc("discrim.multi_subscription_group_built")
			}
			if len(gs) >= 2 {
				stats.Inc("discrim.sequence_of_2_plus_groups_built")
			}
			if sameLink {
				stats.Inc("discrim.config_built_with_same_link_in_two_subscriptions")
			}
		}
		return closer
	}

	// a definition that builds (valid filter + valid policy), for sequences
	goodDef := func(nodes []c14Node) *c14Def {
		for try := 0; ; try++ {
			d := c14GenDef(r, nodes, stats)
			g := c14Direct(d)
			var b strings.Builder
			o := c14BodyTok(&b, nodes, g)
			if _, err := outbound.NewDialerSelectionPolicyFromGroupParam(g); (err == nil && c14Valid(o, g)) || try > 8 {
				return d
			}
		}
	}
	// subtag-filtered group over this pool
	subtagDef := func(nodes []c14Node) *c14Def {
		tag := c14Pick(r, c14Tags)
		if len(nodes) > 0 {
			tag = nodes[r.Intn(len(nodes))].Tag
		}
		f := c14Func{Name: "subtag", Not: r.Chance(0.3), Params: []c14Param{{Val: tag}}}
		if r.Chance(0.3) {
			f.Params = []c14Param{{Key: "regex", Val: "^" + c14QuoteMeta(strings.ToValidUTF8(tag, "")) + "$"}}
		}
		d := &c14Def{Lines: [][]c14Func{{f}}, Annos: [][]c14Param{c14GenAnno(r, 0, stats)}, Policy: c14Pick(r, []string{"min", "random", "min_avg10"})}
		if r.Chance(0.4) {
			d.Lines[0] = append(d.Lines[0], c14Func{Name: "name", Params: []c14Param{{Key: "keyword", Val: ""}}})
		}
		if r.Chance(0.3) {
			d.Policy = []c14Func{{Name: "fixed", Params: []c14Param{{Val: fmt.Sprint(r.Intn(3))}}}}
		}
		return d
	}

	dn, dd := c14Directed()
	for _, d := range dd {
		run(dn, []*c14Def{d}, nil, false, "single")()
	}

	// group names: mostly the plain g0, g1, …; sometimes a name used twice, a reserved name, odd names
	genNames := func(n int) []string {
		names := make([]string, n)
		for k := range names {
			names[k] = fmt.Sprintf("g%d", k)
		}
		if n == 0 || !r.Chance(0.25) {
			return names
		}
		k := r.Intn(n)
		switch x := r.Intn(10); {
		case x < 3 && n >= 2: // the same name twice
			j := r.Intn(n)
			for j == k {
				j = r.Intn(n)
			}
			names[k] = names[j]
			stats.Inc("names.gen_duplicate")
		case x < 5:
			names[k] = c14Pick(r, []string{"direct", "block"})
			stats.Inc("names.gen_reserved")
		default: // distinct but odd: case variants of reserved names, empty, blanks, non-ASCII, a near-twin of another group
			names[k] = c14Pick(r, []string{"Direct", "BLOCK", "", " g0", "g0 ", "组", "direct ", "g\x00", fmt.Sprintf("g%d", n), "G0", "must_rules"})
			stats.Inc("names.gen_odd_but_distinct")
		}
		return names
	}

	// the outbound limit: OutboundUserDefinedMax outbounds incl. direct and block, i.e. at most
	// OutboundUserDefinedMax-2 groups — exactly at, one beyond, a few around
	{
		max := int(consts.OutboundUserDefinedMax) - 2
		nodes := []c14Node{{Name: "hk-1", Tag: "my_sub"}, {Name: "sg-2", Tag: "sub2"}, {Name: "us-3", Tag: "my_sub"}}
		for li, n := range []int{max, max, max + 1, max - 1 - r.Intn(3), max + 2 + r.Intn(6)} {
			defs := make([]*c14Def, n)
			for k := range defs {
				switch {
				case k%40 == 7:
					defs[k] = &c14Def{Policy: "min", Lines: [][]c14Func{{{Name: "subtag", Params: []c14Param{{Val: "my_sub"}}}}}, Annos: [][]c14Param{{{Key: "add_latency", Val: "3ms"}}}}
				case k%2 == 0:
					defs[k] = &c14Def{Policy: []c14Func{{Name: "fixed", Params: []c14Param{{Val: "1"}}}}}
				default:
					defs[k] = &c14Def{Policy: []c14Func{{Name: "fixed", Params: []c14Param{{Val: "0"}}}}, Lines: [][]c14Func{{{Name: "name", Params: []c14Param{{Key: "keyword", Val: "-"}}}}}, Annos: [][]c14Param{nil}}
				}
			}
			names := genNames(0)
			if li == 1 { // at the limit AND a duplicate among the last names
				names = make([]string, n)
				for k := range names {
					names[k] = fmt.Sprintf("g%d", k)
				}
				names[n-1] = names[n-2]
			}
			switch {
			case li == 1:
				stats.Inc("limit.groups_exactly_at_outbound_limit_with_duplicate_name")
			case n == max:
				stats.Inc("limit.groups_exactly_at_outbound_limit")
			case n == max+1:
				stats.Inc("limit.groups_one_beyond_outbound_limit")
			case n < max:
				stats.Inc("limit.groups_just_below_outbound_limit")
			default:
				stats.Inc("limit.groups_beyond_outbound_limit")
			}
			run(nodes, defs, names, true, "limit")()
		}
	}

	nPools := 260
	if VThorough() {
		nPools = 2600
	}
	for pi := 0; pi < nPools; pi++ {
		nodes := c14GenPool(r, stats)
		nd := 2 + r.Intn(4)
		if len(nodes) > 64 {
			nd = 2
		}
		for k := 0; k < nd; k++ {
			switch x := r.Intn(100); {
			case x < 15: // an unfiltered group WITH a check override first, then groups filtering by subtag
				first := &c14Def{Policy: c14Pick(r, []string{"min", "random", "min_moving_avg"}), Over: 1 + r.Intn(31)}
				defs := []*c14Def{first}
				for j := 1 + r.Intn(3); j > 0; j-- {
					defs = append(defs, subtagDef(nodes))
				}
				stats.Inc("seq.unfiltered_override_group_then_subtag_groups")
				run(nodes, defs, nil, r.Chance(0.15), "after-unfiltered-override")()
			case x < 40: // a sequence of groups, mostly all buildable
				var defs []*c14Def
				for j := 2 + r.Intn(3); j > 0; j-- {
					if r.Chance(0.9) {
						defs = append(defs, goodDef(nodes))
					} else {
						defs = append(defs, c14GenDef(r, nodes, stats))
					}
				}
				// near twins: a group that repeats the previous group's filter with ONE difference (most often
				// the annotation) — both must come out by their own definition
				for j := 1; j < len(defs); j++ {
					if r.Chance(0.35) {
						defs[j] = c14Twin(r, defs[j-1], stats)
						stats.Inc("seq.group_is_near_twin_of_previous_group")
					}
				}
				stats.Inc("seq.several_groups")
				run(nodes, defs, genNames(len(defs)), r.Chance(0.15), "sequence")()
			case x < 52 && len(nodes) <= 64: // a RELOAD history: the same groups, the subscriptions change by one edit per step;
				// the previous generation is closed only after the next one has been built
				var defs []*c14Def
				for j := 1 + r.Intn(3); j > 0; j-- {
					if r.Chance(0.5) {
						defs = append(defs, subtagDef(nodes))
					} else {
						defs = append(defs, goodDef(nodes))
					}
				}
				names := genNames(len(defs))
				direct := r.Chance(0.15)
				cur := nodes
				prev := run(cur, defs, names, direct, "reload-first")
				stats.Inc("reload.histories")
				for step := 2 + r.Intn(3); step > 0; step-- {
					var edit string
					cur, edit = c14MutatePool(r, cur)
					stats.Inc("reload.step." + edit)
					next := run(cur, defs, names, direct, "reload-next")
					prev() // the old generation goes away after the new one exists
					prev = next
				}
				prev()
			default:
				d := c14GenDef(r, nodes, stats)
				if len(nodes) > 64 && k == 0 {
					for len(d.Lines) < 2 {
						d = c14GenDef(r, nodes, stats)
					}
					d.Over |= 8
				}
				run(nodes, []*c14Def{d}, genNames(1), r.Chance(0.15), "single")()
			}
		}
	}
}
