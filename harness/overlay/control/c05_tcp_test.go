package control

// C05 correspondence harness, part 2: one directional copy of the REAL defaultRelayCopyEngine
// (tryRelayGatherWrite: TakeRelaySegments / TIOCINQ body read / writev or net.Buffers, continuation
// copy, relayFastCopy = splice, relayCopyLoop) over real loopback TCP sockets and over white-box
// wrapper states (prefixedConn with an offset, bufioConn with a partly discarded buffer), against
// the Lean model (`copy` ops).  What the destination peer received and whether Copy returned nil are
// compared; real TCP re-segments the stream at will, which the model's answer does not depend on
// (theorem relay_identity).

import (
	"bufio"
	"bytes"
	"context"
	"fmt"
	"io"
	"net"
	"strings"
	"sync"
	"sync/atomic"
	"testing"
	"time"

	"github.com/daeuniverse/dae/component/sniffing"
	"golang.org/x/sys/unix"
)

// c05Opaque hides the concrete type (and UnderlyingConn) of a conn: the engine cannot unwrap it.
type c05Opaque struct{ net.Conn }

func c05TCPPair(t *testing.T) (a, b *net.TCPConn) {
	ln, err := net.Listen("tcp", "127.0.0.1:0")
	if err != nil {
		t.Fatalf("C05 needs a working loopback interface (cannot listen on 127.0.0.1): %v", err)
	}
	defer ln.Close()
	ch := make(chan net.Conn, 1)
	go func() {
		c, _ := ln.Accept()
		ch <- c
	}()
	c1, err := net.Dial("tcp", ln.Addr().String())
	if err != nil {
		t.Fatal(err)
	}
	c2 := <-ch
	if c2 == nil {
		t.Fatal("accept failed")
	}
	return c1.(*net.TCPConn), c2.(*net.TCPConn)
}

func c05Inq(c *net.TCPConn) int {
	rc, err := c.SyscallConn()
	if err != nil {
		return -1
	}
	n := -1
	_ = rc.Control(func(fd uintptr) { n, _ = unix.IoctlGetInt(int(fd), unix.TIOCINQ) })
	return n
}

func c05WaitInq(c *net.TCPConn, want int) bool {
	for i := 0; i < 2000; i++ {
		if c05Inq(c) >= want {
			return true
		}
		time.Sleep(time.Millisecond)
	}
	return false
}

type c05CopyCase struct {
	stack    string // plain | pre | buf
	content  []byte // what the wrapper holds when Copy starts
	skipped  int    // prefix offset / discarded bytes (white-box state that precedes `content`)
	chunks   []c05Chunk
	eof      bool
	srcTCP   bool
	dstTCP   bool
	pending  bool
	useRec   bool
	srcPlain bool // src is the in-memory conn (exact segment boundaries, RST possible)
	lwt      bool // in-memory src: the last segment is returned together with EOF / the error
	chunked  bool // call relayChunkedSpliceCopy (the fallback when no splice pipe can be had) directly
	halfWv   bool // the first writev of the gather write is cut short (relayAdvanceSegments must resume)
	capOn    bool // the destination fails after accepting wcap bytes (the failing write is partial)
	wcap     int
	// observed by relayGatherWriteTestHook
	obsGather  bool
	obsBodyLen int
}

func (c *c05CopyCase) op() string {
	st := "plain"
	switch c.stack {
	case "pre":
		st = "pre:" + c05Lit(c.content).tok()
	case "buf":
		st = "buf:" + c05Lit(c.content).tok()
	case "snf":
		st = "snf:" + c05Lit(c.content).tok() + ":0"
	}
	toks := make([]string, len(c.chunks))
	for i, ch := range c.chunks {
		toks[i] = ch.tok()
	}
	cs := "-"
	if len(toks) > 0 {
		cs = strings.Join(toks, ",")
	}
	term := "err"
	if c.eof {
		term = "eof"
	}
	if c.lwt {
		term += "+"
	}
	// the pending bit is what was OBSERVED (the gather path really read a body), not what was intended
	op := fmt.Sprintf("copy %s %s%s%s %s %s", st, c05B(c.srcTCP), c05B(c.dstTCP), c05B(c.obsBodyLen > 0), term, cs)
	if c.capOn {
		op += fmt.Sprintf(" cap=%d", c.wcap)
	}
	return op
}

// c05CapConn: a destination whose peer stops accepting data after `left` more bytes — the write that exceeds them
// is partial and fails.  Opaque to the engine (cannot be unwrapped to a TCP socket).
type c05CapConn struct {
	net.Conn
	left int
}

func (c *c05CapConn) Write(p []byte) (int, error) {
	if len(p) > c.left {
		// transient (one shot): correct code never writes again after a write error; code that swallows the error
		// or retries shows a gap / a duplicate
		n := c.left
		c.left = 1 << 40
		if n > 0 {
			if m, err := c.Conn.Write(p[:n]); err != nil {
				return m, err
			}
		}
		return n, &net.OpError{Op: "write", Net: "tcp", Err: unix.EPIPE}
	}
	c.left -= len(p)
	return c.Conn.Write(p)
}

func c05RunCopy(t *testing.T, c *c05CopyCase) string {
	// ---- destination
	dstPeerT, dstRelayT := c05TCPPair(t)
	defer dstPeerT.Close()
	defer dstRelayT.Close()
	var dst net.Conn = dstRelayT
	if !c.dstTCP {
		dst = c05Opaque{dstRelayT}
		if c.capOn {
			dst = &c05CapConn{Conn: dstRelayT, left: c.wcap}
		}
	}
	var got []byte
	var wg sync.WaitGroup
	wg.Add(1)
	go func() {
		defer wg.Done()
		got, _ = io.ReadAll(dstPeerT)
	}()

	// ---- source
	var srcBase net.Conn
	var sideTCP *net.TCPConn
	var writeFrom, writeOne func(i int)
	skippedBytes := c05GenBytes(200, c.skipped)
	first := append(append([]byte(nil), skippedBytes...), c.content...)
	if c.srcPlain {
		w := &c05World{t0: time.Now()}
		peer, side := c05Pair(w, "peer", "src")
		side.local = &net.TCPAddr{IP: net.IPv4(127, 0, 0, 1), Port: 1}
		side.remote = &net.TCPAddr{IP: net.IPv4(127, 0, 0, 1), Port: 2}
		srcBase = side
		side.rd.lastWithTerm = c.lwt
		if c.stack == "buf" || c.stack == "snf" {
			_, _ = peer.Write(first)
		}
		writeOne = func(i int) { _, _ = peer.Write(c.chunks[i].bytes()) }
		writeFrom = func(i int) {
			for _, ch := range c.chunks[i:] {
				_, _ = peer.Write(ch.bytes())
			}
			if c.eof {
				_ = peer.CloseWrite()
			} else {
				peer.Reset()
			}
		}
	} else {
		peer, side := c05TCPPair(t)
		defer peer.Close()
		defer side.Close()
		sideTCP = side
		srcBase = side
		if !c.srcTCP {
			srcBase = c05Opaque{side}
		}
		if c.stack == "buf" || c.stack == "snf" {
			_, _ = peer.Write(first)
			if !c05WaitInq(side, len(first)) {
				return "harness:inq-timeout"
			}
		}
		writeOne = func(i int) { _, _ = peer.Write(c.chunks[i].bytes()) }
		writeFrom = func(i int) {
			for j, ch := range c.chunks[i:] {
				_, _ = peer.Write(ch.bytes())
				if j%3 == 2 {
					time.Sleep(200 * time.Microsecond)
				}
			}
			_ = peer.CloseWrite()
		}
	}
	var src net.Conn
	switch c.stack {
	case "plain":
		src = srcBase
	case "pre":
		src = &prefixedConn{Conn: srcBase, prefix: first, off: c.skipped}
	case "buf":
		br := bufio.NewReader(srcBase)
		if len(first) > 0 {
			if _, err := br.Peek(len(first)); err != nil {
				return "harness:peek:" + err.Error()
			}
			if _, err := br.Discard(c.skipped); err != nil {
				return "harness:discard"
			}
		}
		if br.Buffered() != len(c.content) {
			return fmt.Sprintf("harness:buffered=%d want %d", br.Buffered(), len(c.content))
		}
		src = &bufioConn{Conn: srcBase, reader: br}
	case "snf":
		// the production wiring for sniffable traffic: prefetch (16 bytes), ConnSniffer over the
		// prefixedConn, SniffTcp with the whole request already queued
		probe, _, ready, err := prefetchForTcpSniff(srcBase, 60*time.Second, tcpSniffPrefetchBytes)
		if err != nil || !ready {
			return "harness:prefetch"
		}
		sn := sniffing.NewConnSniffer(probe, 60*time.Second)
		defer func() { _ = sn.Close() }()
		if _, err := sn.SniffTcp(); err != nil {
			return "harness:sniff:" + err.Error()
		}
		src = sn
	}
	switch {
	case c.srcPlain:
		writeFrom(0) // the in-memory conn never blocks: everything is queued before Copy starts
	case c.pending && len(c.chunks) > 0 && c.chunks[0].len <= 65536:
		// the first segment is queued before Copy starts (TIOCINQ > 0 when the gather path asks)
		writeOne(0)
		c05WaitInq(sideTCP, 1)
		go writeFrom(1)
	default:
		go func() {
			time.Sleep(5 * time.Millisecond)
			writeFrom(0)
		}()
	}
	var rec atomic.Int64
	var record func(int64)
	if c.useRec {
		record = func(n int64) { rec.Add(n) }
	}
	var n int64
	var err error
	// observe the branch actually taken
	relayGatherWriteTestHookMu.Lock()
	relayGatherWriteTestHook = func(prefixLen, bodyLen int) { c.obsGather, c.obsBodyLen = true, bodyLen }
	relayGatherWriteTestHookMu.Unlock()
	defer func() {
		relayGatherWriteTestHookMu.Lock()
		relayGatherWriteTestHook = nil
		relayGatherWriteTestHookMu.Unlock()
	}()
	if c.halfWv || (c.capOn && c.dstTCP) {
		orig := relayWritevFunc
		calls := 0
		left := c.wcap
		relayWritevFunc = func(fd int, iovs [][]byte) (int, error) {
			calls++
			total := 0
			for _, v := range iovs {
				total += len(v)
			}
			want := total
			if c.halfWv && calls == 1 && total >= 2 {
				want = total / 2 // the kernel takes only half: relayAdvanceSegments must resume
			}
			failing := false
			if c.capOn && c.dstTCP && want > left {
				want, failing = left, true // the socket accepts `left` more bytes, then fails
			}
			n := 0
			if want > 0 {
				var cut [][]byte
				w := want
				for _, v := range iovs {
					if w == 0 {
						break
					}
					if len(v) > w {
						v = v[:w]
					}
					cut = append(cut, v)
					w -= len(v)
				}
				var err error
				n, err = orig(fd, cut)
				if err != nil {
					return n, err
				}
			}
			left -= n
			if failing && n == want {
				left = 1 << 40 // transient, see c05CapConn
				return n, unix.EPIPE
			}
			return n, nil
		}
		defer func() { relayWritevFunc = orig }()
	}
	out := c05Watchdog(func() string {
		return VRecover(func() string {
			if c.chunked {
				n, err = relayChunkedSpliceCopy(context.Background(), dstRelayT, sideTCP, record)
			} else {
				n, err = defaultRelayCopyEngine{}.Copy(context.Background(), dst, src, record)
			}
			return ""
		})
	}, func() {
		_ = dstRelayT.Close()
		_ = srcBase.Close()
	})
	_ = dstRelayT.CloseWrite()
	wg.Wait()
	if out != "" {
		return out
	}
	extra := ""
	if int(n) != len(got) {
		extra = fmt.Sprintf(" written=%d-but-received=%d", n, len(got))
	}
	if c.useRec && rec.Load() != n {
		extra += fmt.Sprintf(" recorded=%d-but-written=%d", rec.Load(), n)
	}
	return fmt.Sprintf("out=%s ok=%s%s", c05Digest(got), c05B(err == nil), extra)
}

func c05GenCopyCase(r *VRand, stats *VStats) *c05CopyCase {
	c := &c05CopyCase{eof: true, useRec: r.Bool()}
	c.stack = []string{"plain", "pre", "pre", "buf", "buf", "snf", "snf"}[r.Intn(7)]
	switch r.Intn(4) {
	case 0:
		c.srcPlain = true
		c.eof = !r.Chance(0.3)
	default:
		c.srcTCP = !r.Chance(0.25)
	}
	c.dstTCP = !r.Chance(0.3)
	c.pending = r.Bool()
	if c.stack != "plain" {
		switch r.Intn(6) {
		case 0:
			c.content = nil // wrapper already drained
		case 1:
			c.content = c05GenBytes(r.Intn(256), 1)
		case 2:
			c.content = c05GenBytes(r.Intn(256), 16)
		case 3:
			c.content = c05GenBytes(r.Intn(256), r.Range(4000, 4090))
		default:
			c.content = c05GenBytes(r.Intn(256), r.Range(1, 600))
		}
		if r.Chance(0.4) {
			c.skipped = r.Range(1, 40)
		}
		if c.stack == "buf" && len(c.content)+c.skipped > 4096 {
			c.skipped = 0
		}
		if c.stack == "buf" && len(c.content) == 0 {
			c.skipped = 0
		}
	}
	if c.stack == "snf" {
		// a complete request / hello, so that the sniffers answer at once
		c.skipped = 0
		if r.Bool() {
			c.content = []byte("GET /index.html HTTP/1.1\r\nHost: www.example.com\r\nUser-Agent: x\r\n\r\n")
		} else {
			c.content = c05ClientHello(r, "tls.example.com", 300)
		}
	}
	nch := r.Intn(6)
	for i := 0; i < nch; i++ {
		var l int
		switch r.Intn(7) {
		case 0:
			l = r.Range(32760, 32776)
		case 1:
			l = r.Range(262100, 262200)
		case 2:
			l = r.Range(60000, 140000)
		case 3:
			l = 1
		default:
			l = r.Range(1, 3000)
		}
		c.chunks = append(c.chunks, c05Chunk{gen: true, seed: r.Intn(256), len: l})
	}
	if c.srcPlain && len(c.chunks) > 0 && r.Chance(0.5) {
		c.lwt = true
		stats.Inc("copy.last-segment-with-end")
	}
	if c.dstTCP && len(c.content) > 1 && r.Chance(0.3) {
		c.halfWv = true
		stats.Inc("copy.first-writev-cut-short")
	}
	if r.Chance(0.3) {
		// a destination that fails after a number of bytes: boundary-heavy around the buffered prefix and the end
		total := len(c.content)
		for _, ch := range c.chunks {
			total += ch.len
		}
		switch {
		case c.dstTCP && len(c.content) > 0:
			// real TCP destination: only the gather write can be made to fail (through relayWritevFunc)
			c.capOn, c.wcap = true, r.Intn(len(c.content))
			stats.Inc("copy.dst-fails.tcp-writev")
		case !c.dstTCP:
			c.capOn = true
			switch r.Intn(8) {
			case 0:
				c.wcap = 0
			case 1:
				c.wcap = max(len(c.content)-1, 0)
			case 2:
				c.wcap = len(c.content)
			case 3:
				c.wcap = len(c.content) + 1
			case 4:
				c.wcap = max(total-1, 0)
			case 5:
				c.wcap = total
			default:
				c.wcap = r.Intn(total + 2)
			}
			stats.Inc("copy.dst-fails.opaque")
			if c.wcap >= total {
				stats.Inc("copy.dst-fails.limit-not-reached")
			}
		}
	}
	if r.Chance(0.06) {
		// the chunked-splice fallback, streams around its 256 KiB accounting chunk
		*c = c05CopyCase{stack: "plain", eof: true, srcTCP: true, dstTCP: true, useRec: r.Bool(), chunked: true}
		for _, l := range [][]int{{262143}, {262144}, {262145}, {262144, 262144}, {524289}, {1}, {100000, 162144, 1}}[r.Intn(7)] {
			c.chunks = append(c.chunks, c05Chunk{gen: true, seed: r.Intn(256), len: l})
		}
		stats.Inc("copy.chunked-splice-direct")
	}
	stats.Inc("copy.stack." + c.stack)
	stats.Inc(fmt.Sprintf("copy.env.src%s.dst%s.pending%s", map[bool]string{true: "mem", false: c05B(c.srcTCP)}[c.srcPlain], c05B(c.dstTCP), c05B(c.pending)))
	if len(c.content) == 0 {
		stats.Inc("copy.nothing-buffered")
	}
	if !c.eof {
		stats.Inc("copy.ends-with-reset")
	}
	return c
}

func TestVerifC05Tcp(t *testing.T) {
	r := NewVRand(VSeed() + 77)
	st := VOpenStream("c05tcp")
	defer st.Close()
	stats := NewVStats()
	n := 300
	if VThorough() {
		n = 6000
	}
	for i := 0; i < n && !c05Hung.Load(); i++ {
		if i%12 == 9 {
			st.Emit("oracle tcp-source-ends-with-rst", c05RunSrcReset(t, r))
			stats.Inc("copy.tcp-source-reset")
		}
		if i%300 == 7 {
			st.Emit("oracle grace-period-on-real-sockets", c05RunGraceReal(t, r))
			stats.Inc("copy.grace-on-real-sockets")
		}
		if i%12 == 5 {
			// a destination that resets mid-transfer (bytes are left in the splice pipe), then a clean
			// TCP-to-TCP splice copy in the same process: it must not start with another connection's bytes
			fail := c05RunDstFailure(t, r)
			st.Emit("oracle dst-reset-mid-transfer", fail)
			stats.Inc("copy.dst-reset-mid-transfer")
			if strings.Contains(fail, "hang:") {
				break // every further copy would stall the same way
			}
			clean := &c05CopyCase{stack: "plain", eof: true, srcTCP: true, dstTCP: true, useRec: true,
				chunks: []c05Chunk{{gen: true, seed: r.Intn(256), len: r.Range(1000, 300000)}}}
			impl := c05RunCopy(t, clean)
			st.Emit(clean.op(), impl)
		}
		c := c05GenCopyCase(r, stats)
		impl := c05RunCopy(t, c)
		op := c.op()
		if strings.HasPrefix(impl, "harness:") {
			stats.Inc("discard." + impl)
			continue
		}
		if c.obsGather {
			stats.Inc("observed.gather-write")
			if c.obsBodyLen > 0 {
				stats.Inc("observed.gather-write-with-body")
			}
		}
		st.Emit(op, impl)
		if strings.Contains(impl, "hang:") {
			break
		}
		if i < 3 {
			stats.Sample(op + " => " + impl)
		}
	}
	stats.Add("copy.dst-reset-mid-transfer.copy-did-not-fail(inconclusive)", c05DstFailureInconclusive)
	stats.Add("copy.grace-on-real-sockets.harness-too-slow(inconclusive)", c05GraceInconclusive)
	stats.Write("c05tcp")
}

// c05RunDstFailure: TCP-to-TCP relay copy of 4 MiB whose destination peer reads a little and then
// resets.  Copy must fail, and what the peer got must be a prefix of what was sent.
func c05RunDstFailure(t *testing.T, r *VRand) string {
	srcPeer, srcSide := c05TCPPair(t)
	dstPeer, dstSide := c05TCPPair(t)
	defer srcPeer.Close()
	defer srcSide.Close()
	defer dstSide.Close()
	// the source keeps sending until the relay gives up (no assumption on socket-buffer sysctls: whatever the
	// buffers absorb, the copy cannot complete before the destination's reset reaches it)
	seed := r.Intn(256)
	block := c05GenBytes(seed, 251*256) // the generator's period: the stream is block repeated
	stop := make(chan struct{})
	var sent atomic.Int64
	go func() {
		for {
			select {
			case <-stop:
				return
			default:
			}
			_ = srcPeer.SetWriteDeadline(time.Now().Add(time.Second))
			n, err := srcPeer.Write(block)
			sent.Add(int64(n))
			if err != nil && n == 0 {
				if ne, ok := err.(net.Error); !ok || !ne.Timeout() {
					return
				}
			}
			if n%len(block) != 0 {
				return // a partial write would break the period; the relay has failed by then
			}
		}
	}()
	defer close(stop)
	gotCh := make(chan []byte, 1)
	go func() {
		buf := make([]byte, r.Range(1, 70000))
		n, _ := io.ReadFull(dstPeer, buf)
		_ = dstPeer.SetLinger(0)
		_ = dstPeer.Close()
		gotCh <- buf[:n]
	}()
	var rec atomic.Int64
	var err error
	if hang := c05Watchdog(func() string {
		_, err = defaultRelayCopyEngine{}.Copy(context.Background(), dstSide, srcSide, func(n int64) { rec.Add(n) })
		return ""
	}, func() {
		_ = dstSide.Close()
		_ = srcSide.Close()
	}); hang != "" {
		return "bad:" + hang
	}
	got := <-gotCh
	// Only what the property says is asserted: whatever the destination received is a prefix, in order, of
	// what was sent.  Whether Copy reports the peer's reset depends on how much the kernel buffers absorbed
	// before the RST was seen — a copy that "succeeded" is legal TCP and only counted (inconclusive for the
	// pipe-hygiene follow-up, which needs a write that failed with bytes left in the splice pipe).
	if !c05IsPrefixOfPeriodic(got, block) {
		return "bad:destination-got-bytes-that-were-not-sent-in-this-order"
	}
	if err == nil {
		c05DstFailureInconclusive++
	}
	return "ok"
}

var c05DstFailureInconclusive, c05GraceInconclusive int

// c05Watchdog runs f; a copy that has not returned after two minutes of wall clock (every case moves at
// most a few MiB over loopback) is reported as a hang instead of stalling the whole check: the conns are
// closed to free the goroutine.
// set by the first hang: the stream stops there (every further copy would cost another two minutes)
var c05Hung atomic.Bool

func c05Watchdog(f func() string, unblock func()) string {
	done := make(chan string, 1)
	go func() { done <- f() }()
	select {
	case out := <-done:
		return out
	case <-time.After(2 * time.Minute):
		c05Hung.Store(true)
		unblock()
		select {
		case <-done:
		case <-time.After(10 * time.Second):
		}
		return "hang:the-copy-did-not-return-within-2-minutes"
	}
}

func c05IsPrefixOfPeriodic(got, block []byte) bool {
	for i, b := range got {
		if b != block[i%len(block)] {
			return false
		}
	}
	return true
}

// c05RunSrcReset: a TCP source that ends with RST (SO_LINGER 0) instead of FIN.  Whatever path the engine
// takes (splice with/without accounting, gather body read, buffered loop), Copy must report an error — a
// reset is not a clean end of stream — and the destination must have received a prefix of what was sent.
func c05RunSrcReset(t *testing.T, r *VRand) string {
	srcPeer, srcSide := c05TCPPair(t)
	dstPeer, dstSide := c05TCPPair(t)
	defer srcSide.Close()
	defer dstSide.Close()
	defer dstPeer.Close()
	payload := c05GenBytes(r.Intn(256), []int{0, 1, 700, 40000, 300000}[r.Intn(5)])
	var src net.Conn = srcSide
	switch r.Intn(3) {
	case 1:
		src = &prefixedConn{Conn: srcSide, prefix: []byte("PREFIX-16-BYTES."), off: 0}
		payload = append([]byte("PREFIX-16-BYTES."), payload...)
		_, _ = srcPeer.Write(payload[16:])
	default:
		_, _ = srcPeer.Write(payload)
	}
	var record func(int64)
	if r.Bool() {
		record = func(int64) {}
	}
	gotCh := make(chan []byte, 1)
	go func() {
		b, _ := io.ReadAll(dstPeer)
		gotCh <- b
	}()
	go func() {
		time.Sleep(time.Duration(r.Intn(3)) * time.Millisecond)
		_ = srcPeer.SetLinger(0)
		_ = srcPeer.Close()
	}()
	var err error
	if hang := c05Watchdog(func() string {
		_, err = defaultRelayCopyEngine{}.Copy(context.Background(), dstSide, src, record)
		return ""
	}, func() {
		_ = dstSide.Close()
		_ = srcSide.Close()
	}); hang != "" {
		return "bad:" + hang
	}
	_ = dstSide.CloseWrite()
	got := <-gotCh
	switch {
	case err == nil:
		return "bad:a-reset-of-the-source-was-reported-as-a-clean-end-of-stream"
	case !bytes.HasPrefix(payload, got):
		return "bad:destination-got-bytes-that-were-not-sent-in-this-order"
	}
	return "ok"
}

// c05RunGraceReal: relayCore over REAL sockets with a short white-box grace period.  The client half-closes,
// the upstream answers inside the grace period and then stays silent without closing: the answer must reach
// the client and the relay must end by itself (the grace deadline has to interrupt a read blocked on a real
// socket, whatever copy path that direction is on).
func c05RunGraceReal(t *testing.T, r *VRand) string {
	client, left := c05TCPPair(t)
	upstream, right := c05TCPPair(t)
	defer client.Close()
	defer upstream.Close()
	var rec func(int64)
	if r.Bool() {
		rec = func(int64) {}
	}
	core := newRelayCore(left, right, defaultRelayCopyEngine{}, rec, rec)
	const grace = 3 * time.Second
	core.halfCloseTimeout = grace
	_, _ = client.Write([]byte("request"))
	t0 := time.Now()
	_ = client.CloseWrite()
	var answeredAfter atomic.Int64
	go func() {
		_ = upstream.SetReadDeadline(time.Now().Add(2 * time.Minute))
		_, _ = io.ReadAll(upstream) // until the client's FIN has been passed on
		_, _ = upstream.Write([]byte("inside-the-grace-period"))
		answeredAfter.Store(int64(time.Since(t0)))
		// …and never closes
	}()
	clCh := make(chan []byte, 1)
	go func() {
		_ = client.SetReadDeadline(time.Now().Add(3 * time.Minute))
		b, _ := io.ReadAll(client)
		clCh <- b
	}()
	if hang := c05Watchdog(func() string {
		_ = core.run(context.Background())
		return ""
	}, func() {
		_ = left.Close()
		_ = right.Close()
	}); hang != "" {
		return "bad:the-relay-did-not-end-after-the-grace-period:" + hang
	}
	_ = left.Close()
	_ = right.Close()
	got := <-clCh
	if d := time.Duration(answeredAfter.Load()); d == 0 || d > grace/2 {
		// a loaded machine delayed the harness's own upstream past half of the grace period: whether the answer
		// still made it says nothing about the code
		c05GraceInconclusive++
		return "ok"
	}
	if string(got) != "inside-the-grace-period" {
		return fmt.Sprintf("bad:client-got-%q-after-its-half-close", got)
	}
	return "ok"
}
