package control

// C05 correspondence harness, part 5: whole connections through the REAL ControlPlane.handleConn over
// REAL loopback TCP sockets (client socket, upstream socket), real time.  This is where the production
// wiring meets the TCP-only engine branches: the detection bufio.Reader created by handleConn itself
// (its size!) followed by TakeRelayPrefix + TIOCINQ body read + writev, ConnSniffer/prefixedConn over a
// *net.TCPConn unwrapped for splice in both directions, and client bytes that arrive WHILE the
// upstream is being dialled (pending in the socket when the relay starts).
//
// Only bytes are compared (no timing): what the upstream received and what the client received, each
// against the model's `copy` answer for the wrapper handleConn must have built (theorem relay_identity
// says that answer is the client's / upstream's stream).  Detection outcomes are chosen so that no
// probe has to wait for a timeout.  A panic inside handleConn is recovered and reported as `crash:`.

import (
	"context"
	"fmt"
	"io"
	"net"
	"strings"
	"sync"
	"sync/atomic"
	"testing"
	"time"

	"github.com/daeuniverse/outbound/netproxy"
)

// c05PortConn makes an accepted loopback conn report the destination port under test while staying
// transparent for unwrapRelayTCPConn (the harness cannot bind :53/:80 reliably).
type c05PortConn struct {
	*net.TCPConn
	port int
}

func (c *c05PortConn) LocalAddr() net.Addr {
	a := *(c.TCPConn.LocalAddr().(*net.TCPAddr))
	a.IP = net.IPv4(93, 184, 216, 34)
	a.Port = c.port
	return &a
}
func (c *c05PortConn) UnderlyingConn() net.Conn { return c.TCPConn }

type c05E2ECase struct {
	port    int
	kind    string
	seg1    []byte   // first client segment, completely queued before handleConn starts
	during  []byte   // sent while the upstream is being dialled (nil: nothing)
	after   [][]byte // sent after the relay has started
	upData  [][]byte // what the upstream answers once the client has half-closed
	stack   string   // the wrapper handleConn must build: plain | buf | pre | snf
	held    int      // how many bytes of seg1 that wrapper holds
	bodyLen int      // observed by relayGatherWriteTestHook
	upEarly bool     // the upstream sends its data at once, while the client is still sending (both directions busy)
}

func c05HexChunks(cs [][]byte) string {
	var toks []string
	for _, c := range cs {
		if len(c) > 0 {
			toks = append(toks, c05Lit(c).tok())
		}
	}
	if len(toks) == 0 {
		return "-"
	}
	return strings.Join(toks, ",")
}

func (c *c05E2ECase) ops() (string, string) {
	st := "plain"
	switch c.stack {
	case "buf":
		st = "buf:" + c05Lit(c.seg1[:c.held]).tok()
	case "pre":
		st = "pre:" + c05Lit(c.seg1[:c.held]).tok()
	case "snf":
		st = "snf:" + c05Lit(c.seg1[:c.held]).tok() + ":0"
	}
	chunks := [][]byte{c.seg1[c.held:], c.during}
	chunks = append(chunks, c.after...)
	return fmt.Sprintf("copy %s 11%s eof %s", st, c05B(c.bodyLen > 0), c05HexChunks(chunks)),
		fmt.Sprintf("copy plain 110 eof %s", c05HexChunks(c.upData))
}

func c05RunE2E(t *testing.T, cp *ControlPlane, ud *c05Dialer, c *c05E2ECase) (string, string) {
	upLn, err := net.Listen("tcp", "127.0.0.1:0")
	if err != nil {
		t.Fatalf("C05 needs a working loopback interface (cannot listen on 127.0.0.1): %v", err)
	}
	defer upLn.Close()
	var upGot []byte
	var stalled atomic.Bool
	var wg sync.WaitGroup
	wg.Add(1)
	go func() {
		defer wg.Done()
		uc, err := upLn.Accept()
		if err != nil {
			return
		}
		defer uc.Close()
		_ = uc.SetDeadline(time.Now().Add(3 * time.Minute))
		var wdone sync.WaitGroup
		if c.upEarly {
			wdone.Add(1)
			go func() {
				defer wdone.Done()
				for _, d := range c.upData {
					_, _ = uc.Write(d)
				}
			}()
		}
		upGot, _ = io.ReadAll(uc) // until the client's half-close has been passed on
		sawEOF := time.Now()
		if !c.upEarly {
			for _, d := range c.upData {
				_, _ = uc.Write(d)
			}
		}
		wdone.Wait()
		_ = uc.(*net.TCPConn).CloseWrite()
		// the relay's 10 s grace period (real seconds here) started when it read the client's FIN: if this
		// process was stalled for seconds in between, the answer may have been cut — not the code's fault
		if time.Since(sawEOF) > 4*time.Second {
			stalled.Store(true)
		}
	}()
	client, accepted := c05TCPPair(t)
	defer client.Close()
	lConn := &c05PortConn{TCPConn: accepted, port: c.port}

	if len(c.seg1) > 0 {
		_, _ = client.Write(c.seg1)
		if !c05WaitInq(accepted, len(c.seg1)) {
			return "harness:seg1-not-queued", ""
		}
	}
	dialed := false
	dialDone := make(chan struct{}) // closed once the bytes sent "during the dial" are on the wire
	var dialOnce sync.Once
	ud.mu.Lock()
	ud.dial = func(string) (netproxy.Conn, error) {
		dialed = true
		defer dialOnce.Do(func() { close(dialDone) })
		if len(c.during) > 0 {
			// the client keeps sending while dae dials: pending in the socket when the relay starts
			before := c05Inq(accepted)
			_, _ = client.Write(c.during)
			c05WaitInq(accepted, before+len(c.during))
		}
		uc, err := net.Dial("tcp", upLn.Addr().String())
		if err != nil {
			return nil, err
		}
		return uc.(*net.TCPConn), nil
	}
	ud.mu.Unlock()
	cp.sniffingTimeout = 2 * time.Second
	cp.clearAllTcpSniffNegative()

	relayGatherWriteTestHookMu.Lock()
	relayGatherWriteTestHook = func(prefixLen, bodyLen int) {
		if prefixLen > 0 && c.bodyLen == 0 {
			c.bodyLen = bodyLen
		}
	}
	relayGatherWriteTestHookMu.Unlock()
	defer func() {
		relayGatherWriteTestHookMu.Lock()
		relayGatherWriteTestHook = nil
		relayGatherWriteTestHookMu.Unlock()
	}()

	var clGot []byte
	wg.Add(1)
	go func() {
		defer wg.Done()
		<-dialDone // keep the client's bytes in script order: seg1, during-dial, after
		time.Sleep(time.Millisecond)
		for _, a := range c.after {
			_, _ = client.Write(a)
			time.Sleep(300 * time.Microsecond)
		}
		_ = client.CloseWrite()
		_ = client.SetReadDeadline(time.Now().Add(60 * time.Second))
		clGot, _ = io.ReadAll(client)
	}()
	var herr error
	out := c05Watchdog(func() string {
		return VRecover(func() string {
			herr = cp.handleConn(context.Background(), lConn)
			return ""
		})
	}, func() {
		_ = accepted.Close()
		_ = client.Close()
		_ = upLn.Close()
	})
	dialOnce.Do(func() { close(dialDone) })
	if out != "" {
		// a panic in the connection handler (production has no recover there: the daemon would die)
		_ = accepted.Close()
		_ = client.Close()
		_ = upLn.Close()
		wg.Wait()
		return out, out
	}
	if !dialed {
		// the front handled the connection itself (e.g. the bytes happened to be a well-formed DNS query)
		_ = upLn.Close()
		_ = accepted.Close()
		wg.Wait()
		return "harness:no-dial", ""
	}
	wg.Wait()
	if stalled.Load() {
		return "harness:process-stalled-for-seconds", ""
	}
	return fmt.Sprintf("out=%s ok=%s", c05Digest(upGot), c05B(herr == nil)),
		fmt.Sprintf("out=%s ok=1", c05Digest(clGot))
}

func c05GenE2E(r *VRand, stats *VStats) *c05E2ECase {
	c := &c05E2ECase{}
	host := c05NextHost()
	tail := func(n int) []byte { return c05GenBytes(r.Intn(256), n) }
	switch r.Intn(10) {
	case 0, 1:
		// port 53, declared length < 12: not DNS at once, everything read so far stays in the bufio reader
		c.port, c.kind, c.stack = 53, "p53-short-len", "buf"
		c.seg1 = append([]byte{0, byte(r.Intn(12))}, tail(r.Range(0, 600))...)
	case 2:
		// port 53, a DNS *response* frame followed by an opaque stream
		c.port, c.kind, c.stack = 53, "p53-response", "buf"
		c.seg1 = append(c05DnsFrame(r, true, "example.org"), tail(r.Range(0, 300))...)
	case 3:
		// port 53, length prefix 0xFFFF / 0xFFFE / … : 2+len exceeds (or, in uint16, wraps below) the reader
		// size; with >= 4096 bytes already queued Peek fails at once with ErrBufferFull: not DNS
		c.port, c.kind, c.stack = 53, "p53-len-wraps", "buf"
		pfx := [][]byte{{0xff, 0xff}, {0xff, 0xfe}, {0xff, 0xfd}, {0xff, 0xfc}, {0x10, 0x00}, {0x0f, 0xff}, {0x80, 0x00}}[r.Intn(7)]
		c.seg1 = append(append([]byte{}, pfx...), tail(r.Range(4094, 6000))...)
	case 4:
		// port 53, plausible length but the frame does not unpack
		c.port, c.kind, c.stack = 53, "p53-garbage", "buf"
		l := r.Range(12, 60)
		c.seg1 = append(append([]byte{0, byte(l)}, c05GenBytes(0xff-r.Intn(20), l)...), tail(r.Range(0, 200))...)
	case 5:
		c.port, c.kind, c.stack = 22, "p22-plain", "plain"
		c.seg1 = tail(r.Range(1, 900))
	case 6:
		// sniffable port, prefix that is neither HTTP nor TLS: prefixedConn with the 16 prefetched bytes
		c.port, c.kind, c.stack = 80, "p80-unlikely", "pre"
		c.seg1 = append([]byte("SSH-2.0-OpenSSH_9.6\r\n"), tail(r.Range(0, 400))...)
	case 7, 8:
		c.port, c.kind, c.stack = 80, "p80-http", "snf"
		c.seg1 = []byte("GET /" + host + " HTTP/1.1\r\nHost: " + host + "\r\nUser-Agent: x\r\n\r\n")
	default:
		c.port, c.kind, c.stack = 443, "p443-tls", "snf"
		c.seg1 = c05ClientHello(r, host, 300)
	}
	switch c.stack {
	case "buf":
		c.held = min(len(c.seg1), 4096)
	case "pre":
		c.held = min(len(c.seg1), tcpSniffPrefetchBytes)
	case "snf":
		c.held = len(c.seg1)
	}
	if r.Chance(0.75) {
		c.during = tail([]int{1, 300, 4097, 33000}[r.Intn(4)] + r.Intn(50))
		stats.Inc("e2e.bytes-arrive-during-dial")
	}
	for i, n := 0, r.Intn(3); i < n; i++ {
		c.after = append(c.after, tail([]int{1, 700, 32769, 70000}[r.Intn(4)]+r.Intn(20)))
	}
	for i, n := 0, r.Intn(3); i < n; i++ {
		c.upData = append(c.upData, tail([]int{1, 700, 40000}[r.Intn(3)]+r.Intn(20)))
	}
	if len(c.upData) > 0 && r.Bool() {
		c.upEarly = true
		stats.Inc("e2e.both-directions-busy")
	}
	stats.Inc("e2e." + c.kind)
	return c
}

func TestVerifC05E2E(t *testing.T) {
	r := NewVRand(VSeed() + 515)
	st := VOpenStream("c05e2e")
	defer st.Close()
	stats := NewVStats()
	ud := &c05Dialer{}
	cp := c05ControlPlane(t, ud)
	n := 150
	if VThorough() {
		n = 2500
	}
	for i := 0; i < n && !c05Hung.Load(); i++ {
		c := c05GenE2E(r, stats)
		up, cl := c05RunE2E(t, cp, ud, c)
		if strings.HasPrefix(up, "harness:") {
			stats.Inc("discard." + up)
			continue
		}
		opUp, opCl := c.ops()
		if c.bodyLen > 0 {
			stats.Inc("e2e.observed.gather-write-with-body")
		}
		st.Emit(opUp, up)
		st.Emit(opCl, cl)
		if i < 2 {
			stats.Sample(c.kind + ": " + opUp[:min(len(opUp), 200)] + " => " + up)
		}
		if strings.Contains(up, "hang:") {
			break
		}
	}
	stats.Write("c05e2e")
}
