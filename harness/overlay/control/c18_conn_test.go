package control

// C18 harness, part 2: helpers for the `conn` ops — whole connections through the REAL
// ControlPlane.handleConn inside the synctest bubble: an in-memory client connection (net.Pipe, which
// synctest treats as durably blocking) that reports TCP addresses, the kernel's conn_state_map as a REAL
// kernel hash map (bpf(2) works in this sandbox; without it only the "routing tuple missing" case runs
// and the check ends NO-EVIDENCE on the floor), HTTP/1 request heads and TLS ClientHellos carrying a
// given Host / server_name value, and the REAL stream sniffer run on the same bytes (the harness's
// prediction of the sniffed name, used only to ask the REAL Route for the routing oracle).

import (
	"bytes"
	"encoding/binary"
	"net"
	"net/netip"
	"time"
	"unsafe"

	"github.com/cilium/ebpf"
	"github.com/daeuniverse/dae/component/sniffing"
)

type c18PipeConn struct {
	net.Conn
	local, remote *net.TCPAddr
}

func (c *c18PipeConn) LocalAddr() net.Addr  { return c.local }
func (c *c18PipeConn) RemoteAddr() net.Addr { return c.remote }

func c18TCPAddr(ap netip.AddrPort, mapped bool) *net.TCPAddr {
	a := ap.Addr()
	if a.Is4() && !mapped {
		b := a.As4()
		return &net.TCPAddr{IP: net.IP(b[:]), Port: int(ap.Port())}
	}
	b := a.As16() // an IPv4 address in its 16-byte (IPv4-mapped) form when `mapped`
	return &net.TCPAddr{IP: net.IP(b[:]), Port: int(ap.Port())}
}

// the kernel's conn_state_map.  Under the dae_stub_ebpf build tag the stand-in type bpfConnState lacks the
// trailing padding of the bpf2go type, and cilium/ebpf refuses to unmarshal a 56-byte value into it; the
// harness's map therefore holds values of exactly the size that type encodes to (struct layout vs the kernel
// is C19's subject, not this check's).
func c18NewConnStateMap() *ebpf.Map {
	vs := binary.Size(bpfConnState{})
	if vs <= 0 {
		vs = int(unsafe.Sizeof(bpfConnState{}))
	}
	m, err := ebpf.NewMap(&ebpf.MapSpec{Type: ebpf.Hash, KeySize: uint32(unsafe.Sizeof(bpfTuplesKey{})),
		ValueSize: uint32(vs), MaxEntries: 64})
	if err != nil {
		return nil
	}
	return m
}

// what the kernel stored for the flow
type c18Tuple struct {
	outbound uint8
	mark     uint32
	dscp     uint8
	mac      [6]uint8
	pname    [16]uint8
}

func c18PutTuple(m *ebpf.Map, src, dst netip.AddrPort, t c18Tuple) error {
	key := bpfTuplesKeyFromAddrPorts(src, dst, 6 /* IPPROTO_TCP */)
	var v bpfConnState
	v.Meta.Data.Mark = t.mark
	v.Meta.Data.Outbound = t.outbound
	v.Meta.Data.Dscp = t.dscp
	v.Meta.Data.HasRouting = 1
	v.Mac = t.mac
	v.Pname = t.pname
	return m.Put(&key, &v)
}

func c18DelTuple(m *ebpf.Map, src, dst netip.AddrPort) {
	key := bpfTuplesKeyFromAddrPorts(src, dst, 6)
	_ = m.Delete(&key)
}

// one HTTP/1 request head carrying `Host: <raw>` (hasHost=false: no Host header at all)
func c18HTTPHead(method string, hasHost bool, raw string) []byte {
	var b bytes.Buffer
	b.WriteString(method + " /index.html HTTP/1.1\r\n")
	b.WriteString("User-Agent: c18\r\n")
	if hasHost {
		b.WriteString("Host: " + raw + "\r\n")
	}
	b.WriteString("Accept: */*\r\n\r\n")
	return b.Bytes()
}

// a TLS 1.2-style ClientHello record whose server_name extension carries `raw` (hasSNI=false: the
// hello has a supported_groups extension only)
func c18ClientHello(hasSNI bool, raw string, seed byte) []byte {
	var ext bytes.Buffer
	put16 := func(w *bytes.Buffer, v int) { _ = binary.Write(w, binary.BigEndian, uint16(v)) }
	// supported_groups first, so that the server_name extension is not the first one
	put16(&ext, 0x000a)
	put16(&ext, 4)
	put16(&ext, 2)
	put16(&ext, 0x001d)
	if hasSNI {
		put16(&ext, 0)            // server_name
		put16(&ext, len(raw)+5)   // extension length
		put16(&ext, len(raw)+3)   // server_name_list length
		ext.WriteByte(0)          // host_name
		put16(&ext, len(raw))
		ext.WriteString(raw)
	}
	// ec_point_formats after it
	put16(&ext, 0x000b)
	put16(&ext, 2)
	ext.WriteByte(1)
	ext.WriteByte(0)

	var hs bytes.Buffer
	hs.Write([]byte{0x03, 0x03})
	for i := 0; i < 32; i++ {
		hs.WriteByte(seed + byte(i))
	}
	hs.WriteByte(0) // session id
	put16(&hs, 4)   // cipher suites
	put16(&hs, 0x1301)
	put16(&hs, 0xc02f)
	hs.WriteByte(1) // compression methods
	hs.WriteByte(0)
	put16(&hs, ext.Len())
	hs.Write(ext.Bytes())

	var rec bytes.Buffer
	rec.Write([]byte{0x16, 0x03, 0x01})
	put16(&rec, hs.Len()+4)
	rec.WriteByte(0x01)
	rec.Write([]byte{byte(hs.Len() >> 16), byte(hs.Len() >> 8), byte(hs.Len())})
	rec.Write(hs.Bytes())
	return rec.Bytes()
}

// the REAL stream sniffer on the bytes the client is going to send: ("", false) = any sniffing error
func c18SniffBytes(payload []byte) (string, bool) {
	if len(payload) == 0 {
		return "", false
	}
	s := sniffing.NewStreamSniffer(bytes.NewReader(payload), time.Second)
	defer func() { _ = s.Close() }()
	d, err := s.SniffTcp()
	if err != nil {
		return "", false
	}
	return d, true
}
