package control

// C19 correspondence harness (package control, white-box via -overlay).  Runs in two variants:
//   * real-build variant (no dae_stub_ebpf tag, synthetic bpf2go file): production cidrToBpfLpmKey,
//     bpfPortRange.Encode, hand-written bpfRoutingResult/_bpfLpmKey + the bpf_stub.go declarations;
//   * stub build (tag dae_stub_ebpf): the types exactly as the stub build compiles them.
// It prints, for the REAL code / REAL types:
//   golayout  unsafe/reflect layout of every bpf* data struct (validates translators/c19_go)
//   godec     random byte images reinterpreted through the real Go struct types
//   tuples    memory image of bpfTuplesKeyFromAddrPorts(src, dst, proto)
//   conn      outboundConnectivityMapKey
//   lpm       memory image of cidrToBpfLpmKey            (real-build variant only)
//   domkey    memory image of Ipv6ByteSliceToUint32Array(ip.As16())
//   htons, portrange, goconst
// and a flow file (logical flows + the Go key) that checks/c19.py replays against the native C
// build of tproxy.c.  One op per line; the Lean driver c19drv answers the same ops from the model.

import (
	"encoding/binary"
	"context"
	"encoding/hex"
	"fmt"
	"io"
	"net"
	"net/netip"
	"os"
	"path/filepath"
	"reflect"
	"runtime"
	"strings"
	"testing"
	"unsafe"

	"github.com/cilium/ebpf"
	"github.com/cilium/ebpf/rlimit"
	"github.com/daeuniverse/dae/common"
	"github.com/daeuniverse/dae/common/consts"
	"github.com/daeuniverse/dae/component/outbound/dialer"
	"github.com/daeuniverse/dae/component/routing"
	"github.com/daeuniverse/dae/pkg/config_parser"
	dnsmessage "github.com/miekg/dns"
	"github.com/sirupsen/logrus"
)

// c19ArrayDump reads a whole ARRAY map of uint32 values (batch lookup, per-key lookups as fallback).
func c19ArrayDump(m *ebpf.Map, n int) ([]uint32, error) {
	vals := make([]uint32, n)
	keys := make([]uint32, n)
	var cursor ebpf.MapBatchCursor
	got, err := m.BatchLookup(&cursor, keys, vals, nil)
	if got == n {
		out := make([]uint32, n)
		for i := 0; i < n; i++ {
			if int(keys[i]) < n {
				out[keys[i]] = vals[i]
			}
		}
		return out, nil
	}
	_ = err
	for i := 0; i < n; i++ {
		k := uint32(i)
		if err := m.Lookup(&k, &vals[i]); err != nil {
			return nil, err
		}
	}
	return vals, nil
}

// c19Builder: an empty RoutingMatcherBuilder whose real add* encoders are then called directly.
func c19Builder() *RoutingMatcherBuilder {
	log := logrus.New()
	log.SetOutput(io.Discard)
	return &RoutingMatcherBuilder{
		log:                 log,
		outboundName2Id:     map[string]uint8{"direct": 0, "block": 1, "g2": 2, "g7": 7, "g200": 200},
		lpmDedup:            make(map[uint64]lpmDedupEntry),
		referencedOutbounds: make(map[string]struct{}),
	}
}

// c19DomainKey: the domain_routing_map key the production path computes for an address learnt from a
// DNS answer: buildDomainRoutingOwnerSnapshot(cache) -> snapshot.ips (extractIPsFromDnsCache, As16,
// Ipv6ByteSliceToUint32Array).  ok=false when the production code stores no key (unspecified address).
func c19DomainKey(a netip.Addr, as16Slice bool) (string, bool, error) {
	var rr dnsmessage.RR
	if a.Is4() {
		ip := net.IP(a.AsSlice())
		if as16Slice {
			ip = ip.To16()
		}
		rr = &dnsmessage.A{Hdr: dnsmessage.RR_Header{Name: "x.", Rrtype: dnsmessage.TypeA, Class: dnsmessage.ClassINET}, A: ip}
	} else {
		rr = &dnsmessage.AAAA{Hdr: dnsmessage.RR_Header{Name: "x.", Rrtype: dnsmessage.TypeAAAA, Class: dnsmessage.ClassINET}, AAAA: net.IP(a.AsSlice())}
	}
	bitmap := make([]uint32, len(bpfDomainRouting{}.Bitmap))
	bitmap[0] = 1
	snap, err := buildDomainRoutingOwnerSnapshot(&DnsCache{DomainBitmap: bitmap, Answer: []dnsmessage.RR{rr}})
	if err != nil {
		return "", false, err
	}
	if len(snap.ips) != 1 {
		return "", false, nil
	}
	for k := range snap.ips {
		return c19MemBytes(unsafe.Pointer(&k), unsafe.Sizeof(k)), true, nil
	}
	return "", false, nil
}

type c19Type struct {
	name string
	v    any // pointer to a zero value
}

func c19IsRealVariant() bool {
	k := cidrToBpfLpmKey(netip.MustParsePrefix("1.2.3.4/32"))
	return k.PrefixLen != 0
}

func c19Types(real bool) []c19Type {
	ts := []c19Type{
		{"stub.bpfDaeParam", &bpfDaeParam{}}, {"stub.bpfDomainRouting", &bpfDomainRouting{}},
		{"stub.bpfMatchSet", &bpfMatchSet{}}, {"stub.bpfPidPname", &bpfPidPname{}},
		{"stub.bpfPortRange", &bpfPortRange{}}, {"stub.bpfRedirectEntry", &bpfRedirectEntry{}},
		{"stub.bpfRedirectTuple", &bpfRedirectTuple{}}, {"stub.bpfRoutingHandoffEntry", &bpfRoutingHandoffEntry{}},
		{"stub.bpfTuplesKey", &bpfTuplesKey{}}, {"stub.bpfConnState", &bpfConnState{}},
		{"stub.bpfDaeEvent", &bpfDaeEvent{}},
	}
	if real {
		ts = append(ts, c19Type{"real.bpfRoutingResult", &bpfRoutingResult{}}, c19Type{"real._bpfLpmKey", &_bpfLpmKey{}},
			c19Type{"real.bpfIfParams", &bpfIfParams{}})
	} else {
		ts = append(ts, c19Type{"stub.bpfRoutingResult", &bpfRoutingResult{}}, c19Type{"stub._bpfLpmKey", &_bpfLpmKey{}},
			c19Type{"stub.bpfIfParams", &bpfIfParams{}})
	}
	return ts
}

type c19Leaf struct {
	path              string
	off, esize, count uintptr
	cls               string
	blank             bool
	kind              reflect.Kind
}

func c19Cls(k reflect.Kind) string {
	switch k {
	case reflect.Bool:
		return "bool"
	case reflect.Int8, reflect.Int16, reflect.Int32, reflect.Int64:
		return "sint"
	case reflect.Uint8, reflect.Uint16, reflect.Uint32, reflect.Uint64:
		return "uint"
	}
	return "other"
}

// c19Flatten mirrors translators/c19_go (independently implemented on reflect): scalar/array leaves,
// nested structs flattened, `_` fields named `_#<index>`, zero-size members dropped.
// packed = encoding/binary layout.
func c19Flatten(t reflect.Type, base uintptr, prefix string, blank, packed bool, out *[]c19Leaf) uintptr {
	cur := base
	for i := 0; i < t.NumField(); i++ {
		f := t.Field(i)
		off := base + f.Offset
		if packed {
			off = cur
		}
		name := f.Name
		isBlank := blank || name == "_"
		if name == "_" {
			name = fmt.Sprintf("_#%d", i)
		}
		sz := c19Emit(f.Type, off, prefix+name, isBlank, packed, out)
		cur = off + sz
	}
	if packed {
		return cur - base
	}
	return t.Size()
}

func c19PackedSize(t reflect.Type) uintptr {
	switch t.Kind() {
	case reflect.Array:
		return uintptr(t.Len()) * c19PackedSize(t.Elem())
	case reflect.Struct:
		var s uintptr
		for i := 0; i < t.NumField(); i++ {
			s += c19PackedSize(t.Field(i).Type)
		}
		return s
	}
	return t.Size()
}

func c19Emit(t reflect.Type, off uintptr, path string, blank, packed bool, out *[]c19Leaf) uintptr {
	size := t.Size()
	if packed {
		size = c19PackedSize(t)
	}
	switch t.Kind() {
	case reflect.Struct:
		c19Flatten(t, off, path+".", blank, packed, out)
	case reflect.Array:
		count := uintptr(t.Len())
		et := t.Elem()
		for et.Kind() == reflect.Array {
			count *= uintptr(et.Len())
			et = et.Elem()
		}
		es := et.Size()
		if es*count > 0 {
			*out = append(*out, c19Leaf{path, off, es, count, c19Cls(et.Kind()), blank, et.Kind()})
		}
	default:
		if size > 0 {
			*out = append(*out, c19Leaf{path, off, size, 1, c19Cls(t.Kind()), blank, t.Kind()})
		}
	}
	return size
}

func c19RecStr(t reflect.Type, packed bool) string {
	var leaves []c19Leaf
	psize := c19Flatten(t, 0, "", false, packed, &leaves)
	size, align := t.Size(), uintptr(t.Align())
	if packed {
		size, align = psize, 1
	}
	parts := make([]string, len(leaves))
	for i, l := range leaves {
		b := "0"
		if l.blank {
			b = "1"
		}
		parts[i] = fmt.Sprintf("%s:%d:%d:%d:%s:%s", l.path, l.off, l.esize, l.count, l.cls, b)
	}
	return fmt.Sprintf("size=%d align=%d leaves=%s", size, align, strings.Join(parts, ","))
}

func c19Endian() string {
	x := uint16(1)
	if *(*byte)(unsafe.Pointer(&x)) == 1 {
		return "le"
	}
	return "be"
}

// c19Decode copies img over the memory of a fresh value of type t and prints every non-blank leaf as
// the Go program reads it (through typed loads, not through byte arithmetic).
func c19Decode(t reflect.Type, img []byte) string {
	pv := reflect.New(t)
	mem := unsafe.Slice((*byte)(pv.UnsafePointer()), t.Size())
	copy(mem, img)
	var leaves []c19Leaf
	c19Flatten(t, 0, "", false, false, &leaves)
	var parts []string
	base := pv.UnsafePointer()
	for _, l := range leaves {
		if l.blank {
			continue
		}
		vals := make([]string, l.count)
		for i := uintptr(0); i < l.count; i++ {
			p := unsafe.Add(base, l.off+i*l.esize)
			var v uint64
			switch l.kind {
			case reflect.Bool:
				if *(*bool)(p) {
					v = 1
				}
			case reflect.Uint8:
				v = uint64(*(*uint8)(p))
			case reflect.Int8:
				v = uint64(uint8(*(*int8)(p)))
			case reflect.Uint16:
				v = uint64(*(*uint16)(p))
			case reflect.Int16:
				v = uint64(uint16(*(*int16)(p)))
			case reflect.Uint32:
				v = uint64(*(*uint32)(p))
			case reflect.Int32:
				v = uint64(uint32(*(*int32)(p)))
			case reflect.Uint64:
				v = *(*uint64)(p)
			case reflect.Int64:
				v = uint64(*(*int64)(p))
			}
			vals[i] = fmt.Sprint(v)
		}
		parts = append(parts, l.path+"="+strings.Join(vals, "|"))
	}
	return strings.Join(parts, ";")
}

func c19Image(r *VRand, t reflect.Type, mode int) []byte {
	img := make([]byte, t.Size())
	switch mode {
	case 0: // zero
	case 1:
		for i := range img {
			img[i] = 0xff
		}
	case 2:
		for i := range img {
			img[i] = byte(i + 1)
		}
	case 3: // one field lit
		if len(img) > 0 {
			img[r.Intn(len(img))] = byte(1 + r.Intn(255))
		}
	default:
		for i := range img {
			img[i] = byte(r.U64())
		}
	}
	// bools must hold 0 or 1 to be valid Go values
	var leaves []c19Leaf
	c19Flatten(t, 0, "", false, false, &leaves)
	for _, l := range leaves {
		if l.kind == reflect.Bool {
			for i := uintptr(0); i < l.count; i++ {
				img[l.off+i] &= 1
			}
		}
	}
	return img
}

func c19MemBytes(p unsafe.Pointer, n uintptr) string {
	return hex.EncodeToString(unsafe.Slice((*byte)(p), n))
}

func c19AddrTok(a netip.Addr) string {
	if a.Is4() {
		b := a.As4()
		return "4:" + hex.EncodeToString(b[:])
	}
	b := a.As16()
	return "6:" + hex.EncodeToString(b[:])
}

var c19Ports = []uint16{0, 1, 53, 80, 443, 255, 256, 0x1234, 0x3500, 0xff00, 0x00ff, 32768, 65535}
var c19Protos = []uint8{6, 17, 6, 17, 6, 17, 1, 58, 0, 255}

func c19Port(r *VRand) uint16 {
	if r.Chance(0.6) {
		return c19Ports[r.Intn(len(c19Ports))]
	}
	return uint16(r.U64())
}

func c19V4(r *VRand) [4]byte {
	switch r.Intn(8) {
	case 0:
		return [4]byte{}
	case 1:
		return [4]byte{255, 255, 255, 255}
	case 2:
		return [4]byte{127, 0, 0, 1}
	case 3:
		return [4]byte{10, 0, 0, byte(r.Intn(3))}
	case 4:
		return [4]byte{0, 0, 255, 255}
	default:
		var b [4]byte
		binary.BigEndian.PutUint32(b[:], uint32(r.U64()))
		return b
	}
}

func c19V6(r *VRand) [16]byte {
	var b [16]byte
	switch r.Intn(8) {
	case 0: // ::
	case 1:
		b[15] = 1
	case 2:
		for i := range b {
			b[i] = 0xff
		}
	case 3: // v4-mapped written as IPv6 (also what an IPv6 packet could literally carry)
		b[10], b[11] = 0xff, 0xff
		v := c19V4(r)
		copy(b[12:], v[:])
	case 4: // almost v4-mapped
		b[10], b[11] = 0xff, 0xfe
		b[15] = byte(r.U64())
	case 5:
		copy(b[:], []byte{0x20, 0x01, 0x0d, 0xb8})
		b[15] = byte(r.U64())
	default:
		binary.BigEndian.PutUint64(b[:8], r.U64())
		binary.BigEndian.PutUint64(b[8:], r.U64())
	}
	return b
}

func TestVerifC19(t *testing.T) {
	r := NewVRand(VSeed())
	stats := NewVStats()
	real := c19IsRealVariant()
	variant := "stub"
	if real {
		variant = "real"
	}
	stream := VOpenStream("c19go_" + variant)
	defer stream.Close()
	arch := runtime.GOARCH
	e := c19Endian()
	scale := 1
	if VThorough() {
		scale = 20
	}

	// ---- layouts of the real Go types
	for _, ty := range c19Types(real) {
		rt := reflect.TypeOf(ty.v).Elem()
		stream.Emit(fmt.Sprintf("golayout %s %s", arch, ty.name), c19RecStr(rt, false))
		ps := c19RecStr(rt, true)
		if bs := binary.Size(reflect.New(rt).Interface()); bs != int(c19PackedSize(rt)) {
			ps += fmt.Sprintf(" binary.Size=%d", bs)
		}
		stream.Emit(fmt.Sprintf("golayout packed %s", ty.name), ps)
		stats.Inc("golayout")
		n := 6 + 10*scale
		for i := 0; i < n; i++ {
			mode := i
			if i >= 4 {
				mode = 3 + r.Intn(2)
			}
			img := c19Image(r, rt, mode)
			out := VRecover(func() string { return c19Decode(rt, img) })
			stream.Emit(fmt.Sprintf("godec %s %s %s %s", arch, e, ty.name, hex.EncodeToString(img)), out)
			stats.Inc(fmt.Sprintf("godec.mode%d", mode))
		}
	}

	// ---- flow tuples
	flows, err := os.Create(filepath.Join(VOutDir(), "c19flows_"+variant+".txt"))
	if err != nil {
		t.Fatal(err)
	}
	defer flows.Close()
	nflows := 600 * scale
	for i := 0; i < nflows; i++ {
		var src, dst netip.Addr
		fam := "v6"
		var rs, rd []byte
		form := r.Intn(5)
		switch form {
		case 0, 1: // IPv4 as Is4
			a, b := c19V4(r), c19V4(r)
			src, dst = netip.AddrFrom4(a), netip.AddrFrom4(b)
			fam, rs, rd = "v4", a[:], b[:]
			stats.Inc("flow.v4.is4")
		case 2: // IPv4 peers as IPv4-mapped IPv6 (dual-stack socket)
			a, b := c19V4(r), c19V4(r)
			var a16, b16 [16]byte
			a16[10], a16[11], b16[10], b16[11] = 0xff, 0xff, 0xff, 0xff
			copy(a16[12:], a[:])
			copy(b16[12:], b[:])
			src, dst = netip.AddrFrom16(a16), netip.AddrFrom16(b16)
			if r.Chance(0.3) { // mixed forms of the same family
				src = netip.AddrFrom4(a)
				stats.Inc("flow.v4.mixedforms")
			}
			fam, rs, rd = "v4", a[:], b[:]
			stats.Inc("flow.v4.mapped")
		default:
			a, b := c19V6(r), c19V6(r)
			src, dst = netip.AddrFrom16(a), netip.AddrFrom16(b)
			if r.Chance(0.15) {
				src = src.WithZone("eth0")
				stats.Inc("flow.v6.zone")
			}
			rs, rd = a[:], b[:]
			stats.Inc("flow.v6")
			if src.Is4In6() || dst.Is4In6() {
				stats.Inc("flow.v6.literal-v4mapped")
			}
		}
		sp, dp := c19Port(r), c19Port(r)
		proto := c19Protos[r.Intn(len(c19Protos))]
		if sp == 53 || dp == 53 {
			stats.Inc("flow.port53")
		}
		if sp == 0 || dp == 0 || sp == 65535 || dp == 65535 {
			stats.Inc("flow.port-boundary")
		}
		stats.Inc(fmt.Sprintf("flow.proto%d", proto))
		var keyHex, revHex string
		out := VRecover(func() string {
			k := bpfTuplesKeyFromAddrPorts(netip.AddrPortFrom(src, sp), netip.AddrPortFrom(dst, dp), proto)
			keyHex = c19MemBytes(unsafe.Pointer(&k), unsafe.Sizeof(k))
			return keyHex
		})
		stream.Emit(fmt.Sprintf("tuples %s %s %d %s %d %d", e, c19AddrTok(src), sp, c19AddrTok(dst), dp, proto), out)
		// the reply-direction key, as udp_endpoint_pool.go builds it
		rk := bpfTuplesKeyFromAddrPorts(netip.AddrPortFrom(dst, dp), netip.AddrPortFrom(src, sp), proto)
		revHex = c19MemBytes(unsafe.Pointer(&rk), unsafe.Sizeof(rk))
		stream.Emit(fmt.Sprintf("tuples %s %s %d %s %d %d", e, c19AddrTok(dst), dp, c19AddrTok(src), sp, proto), revHex)
		fmt.Fprintf(flows, "flow %s %s %s %d %d %d %s %s\n", fam, hex.EncodeToString(rs), hex.EncodeToString(rd), sp, dp, proto, keyHex, revHex)
		if i < 3 {
			stats.Sample(fmt.Sprintf("tuples %s %s %d %s %d %d -> %s", e, c19AddrTok(src), sp, c19AddrTok(dst), dp, proto, out))
		}
		// domain-routing key of the destination through the PRODUCTION path (DNS answer -> snapshot key)
		ip6 := dst.As16()
		arr := common.Ipv6ByteSliceToUint32Array(ip6[:])
		stream.Emit(fmt.Sprintf("u32arr %s %s", e, hex.EncodeToString(ip6[:])), fmt.Sprintf("%d %d %d %d", arr[0], arr[1], arr[2], arr[3]))
		if dk, ok, err := c19DomainKey(dst.WithZone(""), r.Bool()); err != nil {
			stream.Emit(fmt.Sprintf("domkey %s %s", e, c19AddrTok(dst)), "error:"+err.Error())
		} else if ok {
			stream.Emit(fmt.Sprintf("domkey %s %s", e, c19AddrTok(dst)), dk)
			fmt.Fprintf(flows, "dom %s %s %s\n", fam, hex.EncodeToString(rd), dk)
			stats.Inc("domkey.production")
		} else {
			stats.Inc("domkey.skipped-unspecified")
		}
		if real {
			bits := dst.BitLen()
			switch r.Intn(4) {
			case 0:
				bits = 0
			case 1:
				bits = r.Intn(dst.BitLen() + 1)
			case 2: // around the byte / word / +96 boundaries
				cands := []int{1, 7, 8, 9, 31, 32, 33, 63, 64, 65, 95, 96, 97, 127}
				bits = cands[r.Intn(len(cands))]
				if bits > dst.BitLen() {
					bits = dst.BitLen() - 1
				}
				stats.Inc("lpm.boundary-length")
			}
			pfx := netip.PrefixFrom(dst.WithZone(""), bits)
			k := cidrToBpfLpmKey(pfx)
			kh := c19MemBytes(unsafe.Pointer(&k), unsafe.Sizeof(k))
			stream.Emit(fmt.Sprintf("lpm %s %s/%d", e, c19AddrTok(dst), bits), kh)
			stats.Inc("lpm")
			if bits == dst.BitLen() {
				fmt.Fprintf(flows, "lpmhost %s %s %s\n", fam, hex.EncodeToString(rd), kh)
				stats.Inc("lpm.host")
			}
		}
	}

	// ---- match_set values through the REAL encoders (add*, rewriteKernRulesWithRingLpmIndex)
	{
		fn := &config_parser.Function{}
		ob := &routing.Outbound{Name: "g7", Mark: 0x11223344}
		msHex := func(ms bpfMatchSet) string { return c19MemBytes(unsafe.Pointer(&ms), unsafe.Sizeof(ms)) }
		last := func(b *RoutingMatcherBuilder) bpfMatchSet { return b.rules[len(b.rules)-1] }
		for v := 0; v < 256; v++ {
			if v > 8 && !VThorough() && v%17 != 0 && v != 255 {
				continue
			}
			b := c19Builder()
			if err := b.addL4Proto(fn, consts.L4ProtoType(v), ob); err != nil {
				t.Fatal(err)
			}
			ms := last(b)
			stream.Emit(fmt.Sprintf("byteval %d", v), hex.EncodeToString(ms.Value[:]))
			fmt.Fprintf(flows, "matchset l4proto_type %d %d %s\n", v, uint8(consts.MatchType_L4Proto), msHex(ms))
			b = c19Builder()
			if err := b.addIpVersion(fn, consts.IpVersionType(v), ob); err != nil {
				t.Fatal(err)
			}
			ms = last(b)
			stream.Emit(fmt.Sprintf("byteval %d", v), hex.EncodeToString(ms.Value[:]))
			fmt.Fprintf(flows, "matchset ip_version %d %d %s\n", v, uint8(consts.MatchType_IpVersion), msHex(ms))
			b = c19Builder()
			if err := b.addDscp(fn, []uint8{uint8(v)}, ob); err != nil {
				t.Fatal(err)
			}
			ms = last(b)
			stream.Emit(fmt.Sprintf("byteval %d", v), hex.EncodeToString(ms.Value[:]))
			fmt.Fprintf(flows, "matchset dscp %d %d %s\n", v, uint8(consts.MatchType_Dscp), msHex(ms))
			stats.Add("matchset.byteval", 3)
		}
		// LPM set indices: the k-th mac() set gets index k; then the ring rewrite
		b := c19Builder()
		nsets := 40
		ruleIdx := make([]int, 0, nsets) // trie index carried by the k-th rule
		for k := 0; k < nsets; k++ {
			var mac [6]byte
			for i := range mac {
				mac[i] = byte(r.U64())
			}
			if k%7 == 0 {
				mac = [6]byte{0xff, 0xff, 0xff, 0xff, 0xff, 0xff}
			}
			if err := b.addSourceMac(fn, [][6]byte{mac}, ob); err != nil {
				t.Fatal(err)
			}
			ms := last(b)
			// the index the rule must carry is that of the trie the set was stored in (whatever the
			// builder's numbering / de-duplication policy is)
			ti := len(b.simulatedLpmTries) - 1
			ruleIdx = append(ruleIdx, ti)
			stream.Emit(fmt.Sprintf("setidx %d", ti), hex.EncodeToString(ms.Value[:]))
			fmt.Fprintf(flows, "matchset index %d %d %s\n", ti, uint8(consts.MatchType_Mac), msHex(ms))
			stats.Inc("matchset.setidx")
			if real {
				pfx := b.simulatedLpmTries[len(b.simulatedLpmTries)-1][0]
				key := cidrToBpfLpmKey(pfx)
				kh := c19MemBytes(unsafe.Pointer(&key), unsafe.Sizeof(key))
				stream.Emit(fmt.Sprintf("macaddr %s %s", e, hex.EncodeToString(mac[:])), kh)
				fmt.Fprintf(flows, "mackey %s %s\n", hex.EncodeToString(mac[:]), kh)
				stats.Inc("matchset.mackey")
			}
		}
		for i := 0; i < 60*scale; i++ {
			old := r.Intn(nsets + 3)
			start := uint32(r.Intn(2 * consts.MaxMatchSetLen))
			if r.Chance(0.2) {
				start = uint32(consts.MaxMatchSetLen - 1 - r.Intn(3))
			}
			count := uint32(nsets)
			if r.Chance(0.2) {
				count = uint32(r.Intn(nsets + 1))
			}
			out := "error"
			rules := append([]bpfMatchSet(nil), b.rules...)
			if old < nsets {
				if kr, err := rewriteKernRulesWithRingLpmIndex(rules[old:old+1], start, count); err == nil {
					out = hex.EncodeToString(kr[0].Value[:])
					fmt.Fprintf(flows, "matchset index %d %d %s\n", (start+uint32(ruleIdx[old]))%uint32(consts.MaxMatchSetLen), uint8(consts.MatchType_Mac), msHex(kr[0]))
				}
				stream.Emit(fmt.Sprintf("ring %d %d %d", ruleIdx[old], start, count), out)
				stats.Inc("matchset.ring")
			}
		}
		for i := 0; i < 40*scale; i++ {
			a, c := c19Port(r), c19Port(r)
			bb := c19Builder()
			if err := bb.addPort(fn, [][2]uint16{{a, c}}, ob); err != nil {
				t.Fatal(err)
			}
			ms := last(bb)
			if real {
				stream.Emit(fmt.Sprintf("portrange %d %d", a, c), hex.EncodeToString(ms.Value[:]))
				fmt.Fprintf(flows, "matchset port_range %d-%d %d %s\n", a, c, uint8(consts.MatchType_Port), msHex(ms))
				stats.Inc("matchset.port")
			}
		}
	}

	// ---- connectivity slots: every outbound id x every network type (exhaustive)
	l4s := []consts.L4ProtoStr{consts.L4ProtoStr_TCP, consts.L4ProtoStr_UDP, "x"}
	ips := []consts.IpVersionStr{consts.IpVersionStr_4, consts.IpVersionStr_6, ""}
	doms := []dialer.UdpHealthDomain{dialer.UdpHealthDomainUnset, dialer.UdpHealthDomainDns, dialer.UdpHealthDomainData}
	domName := map[dialer.UdpHealthDomain]string{dialer.UdpHealthDomainUnset: "unset", dialer.UdpHealthDomainDns: "dns", dialer.UdpHealthDomainData: "data"}
	for ob := 0; ob < 256; ob++ {
		for _, l4 := range l4s {
			for _, ip := range ips {
				for _, d := range doms {
					nt := &dialer.NetworkType{L4Proto: l4, IpVersion: ip, UdpHealthDomain: d, IsDns: r.Bool()}
					out := VRecover(func() string { return fmt.Sprint(outboundConnectivityMapKey(uint8(ob), nt)) })
					ipn := string(ip)
					if ipn == "" {
						ipn = "other"
					}
					l4n := string(l4)
					if l4n == "x" {
						l4n = "other"
					}
					stream.Emit(fmt.Sprintf("conn %d %s %s %s", ob, l4n, ipn, domName[d]), out)
					fmt.Fprintf(flows, "conn %d %s %s %s %s\n", ob, l4n, ipn, domName[d], out)
					stats.Inc("conn")
				}
			}
		}
	}

	// ---- the port-53 constant the janitor compares key.Sport / key.Dport with (a package-level var)
	stream.Emit("dnsport "+e, fmt.Sprint(dnsPortNetworkOrder))
	_ = rlimit.RemoveMemlock() // kernels < 5.11 account BPF maps against RLIMIT_MEMLOCK

	// ---- the WRITE SITE of outbound_connectivity_map: the real closure returned by
	// outboundAliveChangeCallback, run against a real BPF ARRAY map with the geometry declared in
	// tproxy.c, for every outbound id x every network type; the slot it writes is read back from the map.
	{
		const nslots = 1536
		m, err := ebpf.NewMap(&ebpf.MapSpec{Name: "c19_conn", Type: ebpf.Array, KeySize: 4, ValueSize: 4, MaxEntries: nslots})
		if err != nil {
			// no silent skip: the stream then differs from the model and the check reports it
			stream.Emit("connwrite 0 tcp 4 unset", "cannot-create-bpf-array-map:"+err.Error())
		} else {
			log := logrus.New()
			log.SetOutput(io.Discard)
			core := &controlPlaneCore{log: log, closed: context.Background(), outboundId2Name: map[uint8]string{}}
			core.bpf.Store(&bpfObjects{bpfMaps: bpfMaps{OutboundConnectivityMap: m}})
			for ob := 0; ob < 256; ob++ {
				cb := core.outboundAliveChangeCallback(uint8(ob), false)
				for _, l4 := range l4s {
					for _, ip := range ips {
						for _, d := range doms {
							nt := &dialer.NetworkType{L4Proto: l4, IpVersion: ip, UdpHealthDomain: d, IsDns: r.Bool()}
							out := VRecover(func() string {
								cb(true, nt, r.Bool())
								vals, err := c19ArrayDump(m, nslots)
								if err != nil {
									return "dump-error:" + err.Error()
								}
								var hit []string
								for k, v := range vals {
									if v != 0 {
										hit = append(hit, fmt.Sprint(k))
									}
								}
								cb(false, nt, false) // writes 0 into the same slot again
								if len(hit) == 0 {
									return "nothing-written"
								}
								return strings.Join(hit, ",")
							})
							ipn := string(ip)
							if ipn == "" {
								ipn = "other"
							}
							l4n := string(l4)
							if l4n == "x" {
								l4n = "other"
							}
							stream.Emit(fmt.Sprintf("connwrite %d %s %s %s", ob, l4n, ipn, domName[d]), out)
							fmt.Fprintf(flows, "connw %d %s %s %s %s\n", ob, l4n, ipn, domName[d], out)
							stats.Inc("connwrite")
						}
					}
				}
			}
			// the map must be all zero again (every write was undone through the same slot)
			if vals, err := c19ArrayDump(m, nslots); err == nil {
				left := 0
				for _, v := range vals {
					if v != 0 {
						left++
					}
				}
				stream.Emit("connwrite-residue", fmt.Sprint(left))
			}
			_ = m.Close()
		}
	}

	// ---- the WRITE SITE of domain_routing_map (real variant: BpfMapBatchUpdate is production code):
	// domainRoutingTracker.syncOwner on a real HASH map; the entry must be found under the 16 address
	// bytes in network order, which is the key the kernel looks up (memcpy of the destination).
	if real {
		m, err := ebpf.NewMap(&ebpf.MapSpec{Name: "c19_dom", Type: ebpf.Hash, KeySize: 16, ValueSize: uint32(unsafe.Sizeof(bpfDomainRouting{})), MaxEntries: 4096})
		if err != nil {
			stream.Emit("domsync 4:01020304", "cannot-create-bpf-hash-map:"+err.Error())
		} else {
			tr := newDomainRoutingTracker()
			for i := 0; i < 120*scale; i++ {
				var a netip.Addr
				if r.Bool() {
					a = netip.AddrFrom4(c19V4(r))
				} else {
					a = netip.AddrFrom16(c19V6(r))
				}
				if a.IsUnspecified() {
					continue
				}
				var rr dnsmessage.RR
				if a.Is4() {
					rr = &dnsmessage.A{Hdr: dnsmessage.RR_Header{Name: "x.", Rrtype: dnsmessage.TypeA, Class: dnsmessage.ClassINET}, A: net.IP(a.AsSlice())}
				} else {
					rr = &dnsmessage.AAAA{Hdr: dnsmessage.RR_Header{Name: "x.", Rrtype: dnsmessage.TypeAAAA, Class: dnsmessage.ClassINET}, AAAA: net.IP(a.AsSlice())}
				}
				bitmap := make([]uint32, len(bpfDomainRouting{}.Bitmap))
				bitmap[i%len(bitmap)] = 1 << uint(i%32)
				out := VRecover(func() string {
					snap, err := buildDomainRoutingOwnerSnapshot(&DnsCache{DomainBitmap: bitmap, Answer: []dnsmessage.RR{rr}})
					if err != nil {
						return "snapshot-error:" + err.Error()
					}
					if err := tr.syncOwner(m, fmt.Sprintf("owner-%d", i), snap); err != nil {
						return "sync-error:" + err.Error()
					}
					raw := a.As16() // what the kernel memcpy's from the packet (v4: ::ffff:a.b.c.d)
					var val bpfDomainRouting
					if err := m.Lookup(&raw, &val); err != nil {
						return "not-found-under-kernel-key"
					}
					if val.Bitmap[i%len(bitmap)]&(1<<uint(i%32)) == 0 {
						return "found-without-bit"
					}
					return "found"
				})
				stream.Emit("domsync "+c19AddrTok(a), out)
				stats.Inc("domsync")
			}
			_ = m.Close()
		}
	}

	// ---- Htons, port ranges
	for _, p := range c19Ports {
		stream.Emit(fmt.Sprintf("htons %s %d", e, p), fmt.Sprint(common.Htons(p)))
	}
	for i := 0; i < 200*scale; i++ {
		p := uint16(r.U64())
		stream.Emit(fmt.Sprintf("htons %s %d", e, p), fmt.Sprint(common.Htons(p)))
		stats.Inc("htons")
	}
	if real {
		for i := 0; i < 100*scale; i++ {
			a, b := c19Port(r), c19Port(r)
			enc := bpfPortRange{PortStart: a, PortEnd: b}.Encode()
			stream.Emit(fmt.Sprintf("portrange %d %d", a, b), hex.EncodeToString(enc[:]))
			fmt.Fprintf(flows, "portrange %d %d %s\n", a, b, hex.EncodeToString(enc[:]))
			stats.Inc("portrange")
		}
	}

	// ---- constants as the compiler sees them (validates the go/types evaluation of the translator)
	gc := map[string]int64{
		"consts.TaskCommLen": consts.TaskCommLen, "consts.MaxMatchSetLen": int64(consts.MaxMatchSetLen),
		"consts.TproxyMark": int64(consts.TproxyMark), "consts.ZeroKey": int64(consts.ZeroKey),
		"consts.OneKey": int64(consts.OneKey), "consts.TwoKey": int64(consts.TwoKey),
		"consts.IPPROTO_TCP": int64(consts.IPPROTO_TCP), "consts.IPPROTO_UDP": int64(consts.IPPROTO_UDP),
		"consts.LinkHdrLen_Ethernet": int64(consts.LinkHdrLen_Ethernet),
		"consts.MatchType_DomainSet": int64(consts.MatchType_DomainSet), "consts.MatchType_IpSet": int64(consts.MatchType_IpSet),
		"consts.MatchType_SourceIpSet": int64(consts.MatchType_SourceIpSet), "consts.MatchType_Port": int64(consts.MatchType_Port),
		"consts.MatchType_SourcePort": int64(consts.MatchType_SourcePort), "consts.MatchType_L4Proto": int64(consts.MatchType_L4Proto),
		"consts.MatchType_IpVersion": int64(consts.MatchType_IpVersion), "consts.MatchType_Mac": int64(consts.MatchType_Mac),
		"consts.MatchType_ProcessName": int64(consts.MatchType_ProcessName), "consts.MatchType_Dscp": int64(consts.MatchType_Dscp),
		"consts.MatchType_Fallback": int64(consts.MatchType_Fallback), "consts.MatchType_MustRules": int64(consts.MatchType_MustRules),
		"consts.OutboundDirect": int64(consts.OutboundDirect), "consts.OutboundBlock": int64(consts.OutboundBlock),
		"consts.OutboundMustRules": int64(consts.OutboundMustRules), "consts.OutboundControlPlaneRouting": int64(consts.OutboundControlPlaneRouting),
		"consts.OutboundLogicalOr": int64(consts.OutboundLogicalOr), "consts.OutboundLogicalAnd": int64(consts.OutboundLogicalAnd),
		"consts.OutboundLogicalMask": int64(consts.OutboundLogicalMask), "consts.OutboundUserDefinedMin": int64(consts.OutboundUserDefinedMin),
		"consts.OutboundUserDefinedMax": int64(consts.OutboundUserDefinedMax),
		"consts.L4ProtoType_TCP": int64(consts.L4ProtoType_TCP), "consts.L4ProtoType_UDP": int64(consts.L4ProtoType_UDP),
		"consts.L4ProtoType_X": int64(consts.L4ProtoType_X), "consts.L4ProtoType_TCP_UDP": int64(consts.L4ProtoType_TCP_UDP),
		"consts.IpVersion_4": int64(consts.IpVersion_4), "consts.IpVersion_6": int64(consts.IpVersion_6), "consts.IpVersion_X": int64(consts.IpVersion_X),
		"control.outboundConnectivitySlotsPerDomain": int64(outboundConnectivitySlotsPerDomain), "control.outboundConnectivitySlotsPerOutbound": int64(outboundConnectivitySlotsPerOutbound),
		"control.outboundConnectivityDomainTCP": int64(outboundConnectivityDomainTCP), "control.outboundConnectivityDomainDnsUDP": int64(outboundConnectivityDomainDnsUDP),
		"control.outboundConnectivityDomainDataUDP": int64(outboundConnectivityDomainDataUDP),
		"control.defaultConnStateMapMaxEntries": int64(defaultConnStateMapMaxEntries), "control.fastSockPlaceholderMaxEntries": int64(fastSockPlaceholderMaxEntries),
	}
	names := make([]string, 0, len(gc))
	for k := range gc {
		names = append(names, k)
	}
	// deterministic order
	for i := 0; i < len(names); i++ {
		for j := i + 1; j < len(names); j++ {
			if names[j] < names[i] {
				names[i], names[j] = names[j], names[i]
			}
		}
	}
	for _, k := range names {
		stream.Emit("goconst "+k, fmt.Sprint(gc[k]))
		stats.Inc("goconst")
	}
	// ---- part 2 (c19b_test.go): helper constructors, conn_state key lifecycle, routing-result lookups, match_set images
	c19Extra(t, r, stats, stream, flows, real, e, scale)
	stats.Write("c19go_" + variant)
}
