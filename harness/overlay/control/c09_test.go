package control

// C09 correspondence harness (no hooks needed): the REAL code of
//
//	DoUDP.ForwardDNS + udpConnPool                                   (stream c09udp)
//	cachedDnsForwarder.beginUse/endUse/retire/closeNow, retireCachedDnsForwarder,
//	evictIdleDnsForwarders, getOrCreateDnsForwarder                  (stream c09fwd, call granularity)
//	HandleWithResponseWriter_ → sf.Do → resolveForSingleflight → handleWithResponseWriter_ →
//	dialSend → forwardWithFallback → forwardWithDialArg, NormalizeAndCacheDnsResp_,
//	LookupDnsRespCache_, writeCachedResponse, sendDnsErrorResponse_   (stream c09ctl)
//
// driven by scripted fake upstreams (answer late / twice / other id / other question / truncated /
// never / fail → TCP fallback) against the Lean model driver c09drv.  One op per line; the grammar
// is documented in lean/DaeVerif/C09/Main.lean.  The fine-grained interleavings of the forwarder
// entry and of the pipelined connection are replayed in c09_sched_test.go (build tag verif).

import (
	"context"
	"encoding/binary"
	"errors"
	"fmt"
	"net"
	"net/netip"
	"os"
	"reflect"
	"sort"
	"strings"
	"sync"
	"sync/atomic"
	"testing"
	"testing/synctest"
	"time"

	"github.com/daeuniverse/dae/common/consts"
	componentdns "github.com/daeuniverse/dae/component/dns"
	"github.com/daeuniverse/dae/config"
	"github.com/daeuniverse/dae/pkg/config_parser"
	"github.com/daeuniverse/outbound/netproxy"
	dnsmessage "github.com/miekg/dns"
	"github.com/sirupsen/logrus"
)

func c09B(b bool) string {
	if b {
		return "1"
	}
	return "0"
}

func c09Quiet() *logrus.Logger {
	l := logrus.New()
	l.SetLevel(logrus.PanicLevel)
	l.SetOutput(os.Stderr)
	return l
}

// ------------------------------------------------------------------------------------------
// names / questions / answers as tokens

var c09Suffix = map[string]string{"a": "a.test.", "r": "rej.test.", "u": "u.test.", "t": "t.test.", "b": "b.test."}

var c09RouteCode = map[string]int{"a": 0, "r": 1, "u": 2, "t": 3, "b": 4}

// c09NameTok: the model's canonical-name token of the name with number n under the given route
// (the route is part of the name: it selects the suffix).
func c09NameTok(n int, route string) int { return c09RouteCode[route]*100 + n%100 }

// c09Name renders name token tok (or a plain number with an explicit route) with spelling variant sp
// (bit i set = i-th letter upper-cased).
func c09Name(n, sp int, route string) string {
	if n >= 100 {
		for k, v := range c09RouteCode {
			if v == n/100 {
				route = k
			}
		}
		n %= 100
	}
	s := []byte(fmt.Sprintf("n%d.%s", n, c09Suffix[route]))
	k := 0
	for i := range s {
		if s[i] >= 'a' && s[i] <= 'z' {
			if sp&(1<<k) != 0 {
				s[i] -= 32
			}
			k++
		}
	}
	return string(s)
}

// c09ParseName: inverse of c09Name (name token, spelling token).
func c09ParseName(name string) (n, sp int, ok bool) {
	k := 0
	lower := []byte(name)
	for i := range lower {
		c := lower[i]
		if c >= 'A' && c <= 'Z' {
			sp |= 1 << k
			lower[i] = c + 32
			k++
		} else if c >= 'a' && c <= 'z' {
			k++
		}
	}
	if _, err := fmt.Sscanf(string(lower), "n%d.", &n); err != nil {
		return 0, 0, false
	}
	for r, suf := range c09Suffix {
		if strings.HasSuffix(string(lower), fmt.Sprintf("n%d.%s", n, suf)) && string(lower) == fmt.Sprintf("n%d.%s", n, suf) {
			return c09RouteCode[r]*100 + n, sp, true
		}
	}
	return 0, 0, false
}

func c09AnswerRR(name string, qtype uint16, ans int) dnsmessage.RR {
	if qtype == dnsmessage.TypeAAAA {
		ip := net.ParseIP("2001:db8::")
		ip[14], ip[15] = byte(ans>>8), byte(ans)
		return &dnsmessage.AAAA{Hdr: dnsmessage.RR_Header{Name: name, Rrtype: dnsmessage.TypeAAAA, Class: dnsmessage.ClassINET, Ttl: 3600}, AAAA: ip}
	}
	if qtype != dnsmessage.TypeA {
		// any other type: the payload token travels in a TXT record (the controller does not look at RR types)
		return &dnsmessage.TXT{Hdr: dnsmessage.RR_Header{Name: name, Rrtype: dnsmessage.TypeTXT, Class: dnsmessage.ClassINET, Ttl: 3600}, Txt: []string{fmt.Sprintf("t%d", ans)}}
	}
	return &dnsmessage.A{Hdr: dnsmessage.RR_Header{Name: name, Rrtype: dnsmessage.TypeA, Class: dnsmessage.ClassINET, Ttl: 3600}, A: net.IPv4(10, 9, byte(ans>>8), byte(ans)).To4()}
}

// c09Qtypes: A, AAAA, and types whose decimal renderings sit next to each other in the cache key
// (SVCB 64 / HTTPS 65), TXT, CNAME.
var c09QtypePairs = [][2]int{{1, 28}, {1, 28}, {1, 28}, {64, 65}, {64, 65}, {16, 5}, {1, 65}, {28, 64}}

func c09OtherQtype(r *VRand, qt int) int {
	all := []int{1, 28, 16, 5, 64, 65}
	for {
		if o := all[r.Intn(len(all))]; o != qt {
			return o
		}
	}
}

func c09AnsToken(rrs []dnsmessage.RR) int {
	if len(rrs) == 0 {
		return 0
	}
	first := rrs[0]
	for _, rr := range rrs { // a CNAME chain in front of the records asked for is not the payload
		if _, ok := rr.(*dnsmessage.CNAME); !ok {
			first = rr
			break
		}
	}
	switch r := first.(type) {
	case *dnsmessage.A:
		ip := r.A.To4()
		return int(ip[2])<<8 | int(ip[3])
	case *dnsmessage.AAAA:
		return int(r.AAAA[14])<<8 | int(r.AAAA[15])
	case *dnsmessage.TXT:
		var n int
		if len(r.Txt) == 1 {
			if _, err := fmt.Sscanf(r.Txt[0], "t%d", &n); err == nil {
				return n
			}
		}
	}
	return -1
}

func c09QTok(qs []dnsmessage.Question) string {
	if len(qs) == 0 {
		return "-"
	}
	n, sp, ok := c09ParseName(qs[0].Name)
	if !ok {
		return "?" + qs[0].Name
	}
	if qs[0].Qclass != dnsmessage.ClassINET {
		return fmt.Sprintf("%d.%d.%d.%d", n, sp, qs[0].Qtype, qs[0].Qclass)
	}
	return fmt.Sprintf("%d.%d.%d", n, sp, qs[0].Qtype)
}

// c09QStr renders a question token (class omitted when IN).
func c09QStr(n, sp, qt, cls int) string {
	if cls != 1 && cls != 0 {
		return fmt.Sprintf("%d.%d.%d.%d", n, sp, qt, cls)
	}
	return fmt.Sprintf("%d.%d.%d", n, sp, qt)
}

// ------------------------------------------------------------------------------------------
// stream c09udp: DoUDP.ForwardDNS over a scripted socket

type c09Timeout struct{}

func (c09Timeout) Error() string   { return "i/o timeout" }
func (c09Timeout) Timeout() bool   { return true }
func (c09Timeout) Temporary() bool { return true }

type c09UdpConn struct {
	mu      sync.Mutex
	queue   [][]byte // nil entry = timeout event; entry {0xEE} with len 1 and flag = io error
	kinds   []string
	closed  bool
	reads   int
	writeOk bool
	written [][]byte
}

func (c *c09UdpConn) Read(b []byte) (int, error) {
	c.mu.Lock()
	defer c.mu.Unlock()
	c.reads++
	if c.closed {
		return 0, net.ErrClosed
	}
	if len(c.queue) == 0 {
		return 0, c09Timeout{}
	}
	k, p := c.kinds[0], c.queue[0]
	c.kinds, c.queue = c.kinds[1:], c.queue[1:]
	switch k {
	case "to":
		return 0, c09Timeout{}
	case "io":
		return 0, errors.New("connection refused")
	}
	return copy(b, p), nil
}
func (c *c09UdpConn) Write(b []byte) (int, error) {
	c.mu.Lock()
	defer c.mu.Unlock()
	if !c.writeOk {
		return 0, errors.New("write failed")
	}
	c.written = append(c.written, append([]byte(nil), b...))
	return len(b), nil
}
func (c *c09UdpConn) Close() error {
	c.mu.Lock()
	c.closed = true
	c.mu.Unlock()
	return nil
}
func (c *c09UdpConn) SetDeadline(time.Time) error      { return nil }
func (c *c09UdpConn) SetReadDeadline(time.Time) error  { return nil }
func (c *c09UdpConn) SetWriteDeadline(time.Time) error { return nil }

func c09Dgram(id int, q int, tc bool, tag int) []byte {
	m := new(dnsmessage.Msg)
	name := fmt.Sprintf("q%d.test.", q)
	m.SetQuestion(name, dnsmessage.TypeA)
	m.Id = uint16(id)
	m.Response = true
	m.Truncated = tc
	m.Answer = []dnsmessage.RR{c09AnswerRR(name, dnsmessage.TypeA, tag)}
	b, err := m.Pack()
	if err != nil {
		panic(err)
	}
	return b
}

type c09UdpWorld struct {
	d    *DoUDP
	cur  *c09UdpConn
	gen  int
	st   *VStream
	stat *VStats
}

func newC09UdpWorld(st *VStream, stat *VStats) *c09UdpWorld {
	w := &c09UdpWorld{st: st, stat: stat}
	w.d = &DoUDP{
		dialArgument: dialArgument{l4proto: consts.L4ProtoStr_UDP, ipversion: consts.IpVersionStr_4, bestTarget: netip.MustParseAddrPort("10.0.0.1:53")},
		profile:      UdpLifecycleProfile{Kind: UdpLifecycleKindDnsTransactional, PooledConnIdleTTL: time.Hour},
	}
	w.d.pool = newUdpConnPool(dnsUdpPoolMaxIdle, dnsUdpPoolMaxActive, func(ctx context.Context) (netproxy.Conn, error) {
		w.gen++
		w.cur = &c09UdpConn{writeOk: true}
		return w.cur, nil
	})
	w.d.pool.maxIdleTime = time.Hour
	return w
}

func (w *c09UdpWorld) live() bool { return w.cur != nil && !w.cur.closed }

func (w *c09UdpWorld) push(ev string) {
	op := "U push " + ev
	if w.live() {
		f := strings.Split(ev, ":")
		switch f[0] {
		case "short":
			w.cur.queue = append(w.cur.queue, []byte{0x7})
			w.cur.kinds = append(w.cur.kinds, "d")
		case "to", "io":
			w.cur.queue = append(w.cur.queue, nil)
			w.cur.kinds = append(w.cur.kinds, f[0])
		case "d":
			var id int
			fmt.Sscan(f[1], &id)
			if f[2] == "bad" {
				w.cur.queue = append(w.cur.queue, []byte{byte(id >> 8), byte(id), 0xff, 0xff, 0xff})
			} else {
				var q, tag int
				fmt.Sscan(f[2], &q)
				fmt.Sscan(f[4], &tag)
				w.cur.queue = append(w.cur.queue, c09Dgram(id, q, f[3] == "1", tag))
			}
			w.cur.kinds = append(w.cur.kinds, "d")
		}
	}
	n := 0
	if w.live() {
		n = len(w.cur.queue)
	}
	w.st.Emit(op, fmt.Sprintf("queued=%d", n))
}

func (w *c09UdpWorld) fwd(orig int, dot, writeOk bool) {
	op := fmt.Sprintf("U fwd %d %s %s", orig, c09B(dot), c09B(writeOk))
	out := VRecover(func() string {
		w.d.profile.DiscardPooledConnOnTimeout = dot
		if w.live() {
			w.cur.writeOk = writeOk
			w.cur.reads = 0
		}
		// a fresh socket is dialled inside ForwardDNS: arm its write behaviour through the dialer
		prevDial := w.d.pool.dialer
		w.d.pool.dialer = func(ctx context.Context) (netproxy.Conn, error) {
			c, err := prevDial(ctx)
			w.cur.writeOk = writeOk
			return c, err
		}
		req := new(dnsmessage.Msg)
		req.SetQuestion("q0.test.", dnsmessage.TypeA)
		req.Id = uint16(orig)
		data, _ := req.Pack()
		msg, err := w.d.ForwardDNS(context.Background(), data)
		w.d.pool.dialer = prevDial
		conn := w.cur
		var res string
		switch {
		case err == nil:
			var qn int
			fmt.Sscanf(msg.Question[0].Name, "q%d.test.", &qn)
			res = fmt.Sprintf("ok:%d:%d:%d", msg.Id, qn, c09AnsToken(msg.Answer))
			w.stat.Inc("udp.ok")
		case errors.Is(err, ErrDNSTruncated):
			var qn int
			fmt.Sscanf(msg.Question[0].Name, "q%d.test.", &qn)
			res = fmt.Sprintf("trunc:%d:%d:%d", msg.Id, qn, c09AnsToken(msg.Answer))
			w.stat.Inc("udp.truncated")
		case strings.Contains(err.Error(), "write failed"):
			res = "write-err"
			w.stat.Inc("udp.write-err")
		case strings.Contains(err.Error(), "i/o timeout"):
			res = "timeout"
			w.stat.Inc("udp.timeout")
		case strings.Contains(err.Error(), "connection refused"):
			res = "ioerr"
			w.stat.Inc("udp.ioerr")
		default:
			// too many stale / too many malformed / unpack error: the socket is given up (no sentinel errors
			// exist for these; their wording is not compared)
			res = "gave-up"
			w.stat.Inc("udp.gave-up")
		}
		kept := !conn.closed && len(w.d.pool.idleConns) == 1
		left := 0
		if kept {
			left = len(conn.queue)
		}
		return fmt.Sprintf("out=%s kept=%s reads=%d gen=%d left=%d", res, c09B(kept), conn.reads, w.gen, left)
	})
	w.st.Emit(op, out)
}

func c09GenUdpEv(r *VRand, ids []int, stat *VStats) string {
	switch r.Intn(12) {
	case 0:
		stat.Inc("udp.ev.short")
		return "short"
	case 1:
		stat.Inc("udp.ev.timeout")
		return "to"
	case 2:
		if r.Chance(0.3) {
			stat.Inc("udp.ev.ioerr")
			return "io"
		}
		fallthrough
	case 3:
		stat.Inc("udp.ev.malformed")
		return fmt.Sprintf("d:%d:bad", ids[r.Intn(len(ids))])
	default:
		stat.Inc("udp.ev.dgram")
		tc := r.Chance(0.12)
		return fmt.Sprintf("d:%d:%d:%s:%d", ids[r.Intn(len(ids))], r.Intn(4), c09B(tc), 1+r.Intn(500))
	}
}

func TestVerifC09Udp(t *testing.T) {
	st := VOpenStream("c09udp")
	defer st.Close()
	stat := NewVStats()
	r := NewVRand(VSeed())
	hist := 3000
	if VThorough() {
		hist = 100000
	}
	for h := 0; h < hist; h++ {
		w := newC09UdpWorld(st, stat)
		st.Emit("U reset", "ok")
		// few distinct IDs so that collisions (a late answer carrying the next request's ID) are common
		ids := []int{r.Intn(65536), r.Intn(65536), 0, 65535}
		if r.Chance(0.5) {
			ids = ids[:2]
		}
		nops := 3 + r.Intn(14)
		flood := r.Chance(0.15)
		for i := 0; i < nops; i++ {
			switch {
			case flood && i == 1:
				// boundary: exactly 8 / 9 stale datagrams before the right one
				k := 7 + r.Intn(3)
				for j := 0; j < k; j++ {
					if r.Chance(0.3) {
						w.push("short")
					} else {
						w.push(fmt.Sprintf("d:%d:%d:0:%d", ids[0]^1, r.Intn(4), 1+r.Intn(500)))
					}
				}
				w.push(fmt.Sprintf("d:%d:1:0:77", ids[0]))
				stat.Inc(fmt.Sprintf("udp.flood.%d", k))
				w.fwd(ids[0], r.Bool(), true)
			case r.Chance(0.35):
				w.push(c09GenUdpEv(r, ids, stat))
			default:
				// one exchange: some stale events (late answers of earlier borrowers, noise), then usually the
				// answer to this request, then the call
				orig := ids[r.Intn(len(ids))]
				for k := r.Intn(4); k > 0; k-- {
					w.push(c09GenUdpEv(r, ids, stat))
				}
				if r.Chance(0.7) {
					w.push(fmt.Sprintf("d:%d:%d:%s:%d", orig, r.Intn(4), c09B(r.Chance(0.1)), 1+r.Intn(500)))
					stat.Inc("udp.ev.answer")
					if r.Chance(0.15) { // answered twice
						w.push(fmt.Sprintf("d:%d:%d:0:%d", orig, r.Intn(4), 1+r.Intn(500)))
						stat.Inc("udp.ev.duplicate")
					}
				}
				w.fwd(orig, r.Chance(0.4), !r.Chance(0.05))
			}
		}
	}
	stat.Write("c09udp")
}

// ------------------------------------------------------------------------------------------
// stream c09fwd: the forwarder cache entry at call granularity

type c09CountFwd struct {
	closed     atomic.Int32
	afterClose atomic.Int32
	calls      atomic.Int32
}

func (f *c09CountFwd) ForwardDNS(ctx context.Context, data []byte) (*dnsmessage.Msg, error) {
	f.calls.Add(1)
	if f.closed.Load() > 0 {
		f.afterClose.Add(1)
	}
	return &dnsmessage.Msg{}, nil
}
func (f *c09CountFwd) Close() error { f.closed.Add(1); return nil }

type c09FwdWorld struct {
	c     *DnsController
	key   dnsForwarderKey
	entry *cachedDnsForwarder
	fwd   *c09CountFwd
	busy  []bool
}

func newC09FwdWorld(n int) *c09FwdWorld {
	c := &DnsController{dnsControllerStore: &dnsControllerStore{prefWaitRegistry: newPreferenceWaitRegistry()}}
	c.log = c09Quiet()
	c.dnsForwarderIdleTTL = time.Millisecond
	w := &c09FwdWorld{c: c, fwd: &c09CountFwd{}, busy: make([]bool, n)}
	w.key = dnsForwarderKey{upstream: "dns.example:53", l4proto: consts.L4ProtoStr_UDP}
	w.entry = newCachedDnsForwarder(w.fwd, time.Now())
	c.dnsForwarderCache.Store(w.key, w.entry)
	return w
}

func (w *c09FwdWorld) obs(pc string) string {
	_, in := w.c.dnsForwarderCache.Load(w.key)
	nb := 0
	for _, b := range w.busy {
		if b {
			nb++
		}
	}
	return fmt.Sprintf("pc=%s if=%d ret=%s cl=%d ic=%s bad=%d busy=%d", pc, w.entry.inFlight.Load(), c09B(w.entry.retired.Load()),
		w.fwd.closed.Load(), c09B(in), w.fwd.afterClose.Load(), nb)
}

func TestVerifC09Fwd(t *testing.T) {
	st := VOpenStream("c09fwd")
	defer st.Close()
	stat := NewVStats()
	r := NewVRand(VSeed() + 11)
	hist := 4000
	if VThorough() {
		hist = 120000
	}
	for h := 0; h < hist; h++ {
		n := 1 + r.Intn(4)
		w := newC09FwdWorld(n)
		st.Emit(fmt.Sprintf("F reset %d recheck 1", n), w.obs("idle"))
		nops := 2 + r.Intn(16)
		pRetire := 0.05 + 0.3*float64(r.Intn(3))/2
		for i := 0; i < nops; i++ {
			tt := r.Intn(n)
			if w.busy[tt] {
				if r.Chance(0.35) {
					stat.Inc("fwd.op.forward")
					out := VRecover(func() string {
						_, _ = w.entry.forwarder.ForwardDNS(context.Background(), nil)
						return w.obs("busy")
					})
					st.Emit(fmt.Sprintf("F fwd %d", tt), out)
					continue
				}
				stat.Inc("fwd.op.end")
				w.busy[tt] = false
				st.Emit(fmt.Sprintf("F call end %d", tt), w.obs("e1"))
				out := VRecover(func() string { w.entry.endUse(); return w.obs("idle") })
				st.Emit(fmt.Sprintf("F finish %d", tt), out)
				continue
			}
			x := r.Chance(pRetire)
			switch {
			case !x:
				stat.Inc("fwd.op.begin")
				st.Emit(fmt.Sprintf("F call begin %d", tt), w.obs("b1"))
				out := VRecover(func() string {
					ok := w.entry.beginUse()
					w.busy[tt] = ok
					if ok {
						stat.Inc("fwd.begin.true")
						return w.obs("busy")
					}
					stat.Inc("fwd.begin.false")
					return w.obs("idle")
				})
				st.Emit(fmt.Sprintf("F finish %d", tt), out)
			default:
				kind := []string{"retire", "retirec", "evict"}[r.Intn(3)]
				stat.Inc("fwd.op." + kind)
				first := map[string]string{"retire": "r1", "retirec": "c1", "evict": "v1"}[kind]
				st.Emit(fmt.Sprintf("F call %s %d", kind, tt), w.obs(first))
				out := VRecover(func() string {
					switch kind {
					case "retire":
						_ = w.entry.retire()
					case "retirec":
						w.c.retireCachedDnsForwarder(w.key, w.entry)
					case "evict":
						w.entry.lastUsedNano.Store(1) // idle for ever: the model's evictor always finds the entry idle
						w.c.evictIdleDnsForwarders(time.Now())
					}
					return w.obs("idle")
				})
				st.Emit(fmt.Sprintf("F finish %d", tt), out)
			}
		}
		// drain: everybody ends; then the entry must be closed iff it was retired
		for tt := range w.busy {
			if w.busy[tt] {
				w.busy[tt] = false
				st.Emit(fmt.Sprintf("F call end %d", tt), w.obs("e1"))
				out := VRecover(func() string { w.entry.endUse(); return w.obs("idle") })
				st.Emit(fmt.Sprintf("F finish %d", tt), out)
			}
		}
		if w.entry.retired.Load() {
			stat.Inc("fwd.hist.retired")
		} else {
			stat.Inc("fwd.hist.not-retired")
		}
	}
	stat.Write("c09fwd")
}

// ------------------------------------------------------------------------------------------
// stream c09ctl: the controller with scripted fake forwarders, under virtual time

const c09DnsConfig = `global {}
dns {
  upstream {
    uu: 'udp://10.0.0.1:53'
    ut: 'tcp://10.0.0.2:53'
    ub: 'tcp+udp://10.0.0.3:53'
  }
  routing {
    request {
      qname(suffix: rej.test) -> reject
      qname(suffix: u.test) -> uu
      qname(suffix: t.test) -> ut
      qname(suffix: b.test) -> ub
      fallback: asis
    }
    response {
      fallback: accept
    }
  }
}
routing { fallback: direct }
`

// c09DnsConfigRR: the same request routing, plus response routing that re-asks another upstream / rejects by the
// address in the answer (the answer token sits in the last two bytes of the A / AAAA record; the Lean driver's
// `routeOf` is the same table): 768.. -> reject, 512..767 -> ut (tcp), 384..511 -> ub (tcp+udp), else accept.
var c09DnsConfigRR = strings.Replace(c09DnsConfig, `      fallback: accept
    }`, `      ip(10.9.3.0/24, '2001:db8::300/120') -> reject
      ip(10.9.2.0/24, '2001:db8::200/120') -> ut
      ip(10.9.1.128/25, '2001:db8::180/121') -> ub
      fallback: accept
    }`, 1)

// c09Writer is the client's dnsmessage.ResponseWriter.  Like a real one it serialises the message it is
// handed — but not before every other writer that has been handed a message in the same step has
// been entered too (gate): all coalesced waiters of a flight have then patched "their" message, and
// whatever they share shows in what each of them packs.
type c09Writer struct {
	mu      sync.Mutex
	msg     *dnsmessage.Msg
	n       int
	gate    chan struct{} // nil: serialise at once
	entered atomic.Bool
	passed  bool
}

func (w *c09Writer) LocalAddr() net.Addr       { return nil }
func (w *c09Writer) RemoteAddr() net.Addr      { return nil }
func (w *c09Writer) TsigStatus() error         { return nil }
func (w *c09Writer) TsigTimersOnly(bool)       {}
func (w *c09Writer) Hijack()                   {}
func (w *c09Writer) Close() error              { return nil }
func (w *c09Writer) Write([]byte) (int, error) { return 0, nil }
func (w *c09Writer) WriteMsg(m *dnsmessage.Msg) error {
	if w.gate != nil {
		w.entered.Store(true)
		<-w.gate
	}
	w.mu.Lock()
	// what a real writer does: serialise
	b, err := m.Pack()
	if err == nil {
		w.msg = new(dnsmessage.Msg)
		err = w.msg.Unpack(b)
	}
	w.n++
	w.mu.Unlock()
	return err
}

type c09Att struct {
	fail    bool
	timeout bool // never answers: the forwarder returns when its context ends
	id      int
	q       string // "-" or name.spell.qtype
	resp    bool
	rcode   int
	tc      bool
	ans     int
	ttl0    bool // the answer record has TTL 0 (stored, but expired at the very next lookup)
	many    int  // number of answer records (0 = one): 90 A records pack to more than 1024 bytes
	cname   bool // the answer section starts with a CNAME record (the usual shape of an answer to an A question)
}

func (a c09Att) tok() string {
	if a.fail {
		return "fail"
	}
	t := fmt.Sprintf("m:%d:%s:%s:%d:%s:%d", a.id, a.q, c09B(a.resp), a.rcode, c09B(a.tc), a.ans)
	if a.ttl0 {
		t += ":1"
	}
	return t
}

type c09Call struct {
	dead    bool // the exchange was started with a context that had already ended
	fbLeg   bool // the TCP leg of a tcp+udp upstream: the fallback of the same dialSend level
	l4      consts.L4ProtoStr
	data    []byte
	release chan c09Att
}

// c09ScriptFwd is the fake DnsForwarder.  Besides answering by script it watches its own lifecycle as the
// controller's forwardWithDialArg / retire / evict / reset drive it: Close() while one of its exchanges is
// blocked, an exchange entered after Close(), more than one Close().
type c09ScriptFwd struct {
	w      *c09CtlWorld
	l4     consts.L4ProtoStr
	scheme componentdns.UpstreamScheme // of the upstream the controller created this forwarder for

	inFlight          atomic.Int32
	closes            atomic.Int32
	closedUnderUse    atomic.Int32
	enteredAfterClose atomic.Int32
}

func (f *c09ScriptFwd) ForwardDNS(ctx context.Context, data []byte) (*dnsmessage.Msg, error) {
	if f.closes.Load() > 0 {
		f.enteredAfterClose.Add(1)
	}
	f.inFlight.Add(1)
	defer f.inFlight.Add(-1)
	call := &c09Call{l4: f.l4, data: append([]byte(nil), data...), release: make(chan c09Att, 1), dead: ctx.Err() != nil,
		fbLeg: f.scheme == componentdns.UpstreamScheme_TCP_UDP && f.l4 == consts.L4ProtoStr_TCP}
	f.w.mu.Lock()
	f.w.calls = append(f.w.calls, call)
	ch := f.w.callCh
	f.w.mu.Unlock()
	if ch != nil {
		ch <- call
	}
	var a c09Att
	select {
	case a = <-call.release:
	case <-ctx.Done():
		// like a real transport, the exchange ends when its context is CANCELLED (the resolution's owner went away,
		// the controller is closing).  A mere deadline is left to the script (`never answers`): the harness's own
		// virtual-time sleeps must not expire the exchanges of other flights.
		if !call.dead && errors.Is(ctx.Err(), context.Canceled) {
			return nil, ctx.Err()
		}
		a = <-call.release
	}
	if call.dead {
		// entered with a context that is already over (e.g. the TCP fallback after the flight's 5 s ran out on the
		// UDP leg): a transport fails such an exchange; the harness records the attempt as `fail`
		return nil, ctx.Err()
	}
	if a.timeout {
		<-ctx.Done()
		return nil, ctx.Err()
	}
	if a.fail {
		return nil, errors.New("connection reset by peer")
	}
	var req dnsmessage.Msg
	_ = req.Unpack(data)
	m := new(dnsmessage.Msg)
	m.Id = uint16(a.id)
	m.Response = a.resp
	m.Rcode = a.rcode
	m.Truncated = a.tc
	m.RecursionAvailable = true
	if a.q != "-" {
		var n, sp, qt int
		cls := 1
		if strings.Count(a.q, ".") == 3 {
			fmt.Sscanf(a.q, "%d.%d.%d.%d", &n, &sp, &qt, &cls)
		} else {
			fmt.Sscanf(a.q, "%d.%d.%d", &n, &sp, &qt)
		}
		name := c09Name(n, sp, f.w.routeOfReq(&req))
		m.Question = []dnsmessage.Question{{Name: name, Qtype: uint16(qt), Qclass: uint16(cls)}}
		if a.ans != 0 {
			m.Answer = []dnsmessage.RR{c09AnswerRR(dnsmessage.CanonicalName(name), uint16(qt), a.ans)}
			m.Answer[0].Header().Class = uint16(cls)
			if a.ttl0 {
				m.Answer[0].Header().Ttl = 0
			}
			if a.cname {
				alias := "alias." + dnsmessage.CanonicalName(name)
				m.Answer = []dnsmessage.RR{
					&dnsmessage.CNAME{Hdr: dnsmessage.RR_Header{Name: dnsmessage.CanonicalName(name), Rrtype: dnsmessage.TypeCNAME, Class: uint16(cls), Ttl: 3600}, Target: alias},
					c09AnswerRR(alias, uint16(qt), a.ans),
				}
				m.Answer[1].Header().Class = uint16(cls)
			}
			for k := 1; k < a.many; k++ {
				m.Answer = append(m.Answer, c09AnswerRR(dnsmessage.CanonicalName(name), uint16(qt), a.ans+k))
			}
		}
	}
	if a.tc && f.l4 == consts.L4ProtoStr_UDP {
		// the contract of DoUDP.ForwardDNS (tied in stream c09udp): TC=1 comes back with ErrDNSTruncated
		return m, ErrDNSTruncated
	}
	return m, nil
}
func (f *c09ScriptFwd) Close() error {
	f.closes.Add(1)
	if f.inFlight.Load() > 0 {
		f.closedUnderUse.Add(1)
	}
	return nil
}

type c09Client struct {
	id    int
	n     int
	sp    int
	qtype int
	route string // a r u t b
	cls   int    // DNS class of the question (1 IN, 3 CH, 255 ANY)
	nq    int    // number of questions in the query (1; 0 and 2 are refused with FORMERR)
	dst   int    // realDst index (scope of as-is answers)
	w     *c09Writer
	ctx   context.Context // the client's own request context
	leave context.CancelFunc
	gone  bool
	done  chan error
	fin   bool
	rep   bool
	err   error
}

func (c *c09Client) scope() int {
	switch c.route {
	case "u":
		return 10
	case "t":
		return 11
	case "b":
		return 12
	case "r":
		return 20
	}
	return c.dst
}
func (c *c09Client) tok() string {
	rt := "f"
	if c.route == "r" {
		rt = "r"
	}
	t := fmt.Sprintf("%d:%d:%d:%d:%d:%s", c.id, c09NameTok(c.n, c.route), c.sp, c.qtype, c.scope(), rt)
	if c.nq != 1 {
		return t + fmt.Sprintf(":%d:%d", c.cls, c.nq)
	}
	if c.cls != 1 {
		t += fmt.Sprintf(":%d", c.cls)
	}
	return t
}
func (c *c09Client) scheme() string {
	switch c.route {
	case "t":
		return "tcp"
	case "b":
		return "tcpudp"
	}
	return "udp"
}

type c09Refresh struct {
	client int
	call   int
}

type c09CtlWorld struct {
	fwds    []*c09ScriptFwd
	callCh  chan *c09Call // when non-nil every upstream exchange that starts is announced here (real-time tests)
	ctrl    *DnsController
	mu      sync.Mutex
	calls   []*c09Call
	clients []*c09Client
	st      *VStream
	stat    *VStats
}

func (w *c09CtlWorld) routeOfReq(req *dnsmessage.Msg) string {
	if len(req.Question) == 0 {
		return "a"
	}
	l := strings.ToLower(req.Question[0].Name)
	for k, s := range c09Suffix {
		if strings.HasSuffix(l, "."+s) {
			return k
		}
	}
	return "a"
}

var c09Dsts = []string{"8.8.8.8:53", "1.1.1.1:53", "9.9.9.9:53"}

func newC09CtlWorld(st *VStream, stat *VStats, routing *componentdns.Dns, optimistic bool) *c09CtlWorld {
	w := &c09CtlWorld{st: st, stat: stat}
	log := c09Quiet()
	ctrl, err := NewDnsController(routing, &DnsControllerOption{
		Log: log, LifecycleContext: context.Background(),
		OptimisticCache: optimistic, OptimisticCacheTtl: 0, MaxCacheSize: 1000,
		CacheAccessCallback: func(*DnsCache) error { return nil },
		CacheRemoveCallback: func(*DnsCache) error { return nil },
		NewCache: func(fqdn string, answers, ns, extra []dnsmessage.RR, deadline, originalDeadline time.Time) (*DnsCache, error) {
			return &DnsCache{Answer: answers, NS: ns, Extra: extra, Deadline: deadline, OriginalDeadline: originalDeadline}, nil
		},
		BestDialerChooser: func(ctx context.Context, req *udpRequest, upstream *componentdns.Upstream) (*dialArgument, error) {
			l4 := consts.L4ProtoStr_UDP
			if upstream != nil && upstream.Scheme == componentdns.UpstreamScheme_TCP {
				l4 = consts.L4ProtoStr_TCP
			}
			target := req.realDst
			if upstream != nil && upstream.Ip46 != nil && upstream.Ip46.Ip4.IsValid() {
				target = netip.AddrPortFrom(upstream.Ip46.Ip4, upstream.Port)
			}
			return &dialArgument{l4proto: l4, ipversion: consts.IpVersionStr_4, bestTarget: target}, nil
		},
	})
	if err != nil {
		panic(err)
	}
	w.ctrl = ctrl
	return w
}

func c09Routing() *componentdns.Dns { return c09RoutingOf(c09DnsConfig) }

func c09RoutingOf(cfg string) *componentdns.Dns {
	sections, err := config_parser.Parse(cfg)
	if err != nil {
		panic(err)
	}
	conf, err := config.New(sections)
	if err != nil {
		panic(err)
	}
	routing, err := componentdns.New(&conf.Dns, &componentdns.NewOption{Logger: c09Quiet(), UpstreamReadyCallback: func(*componentdns.Upstream) error { return nil }})
	if err != nil {
		panic(err)
	}
	return routing
}

// settle: run the real code until every goroutine is blocked; writers that have been entered are then
// let through together (in a seeded order), and so on until nothing moves.
func (w *c09CtlWorld) settle(r *VRand) {
	for {
		synctest.Wait()
		var ready []*c09Writer
		for _, c := range w.clients {
			if c.w.gate != nil && c.w.entered.Load() && !c.w.passed {
				ready = append(ready, c.w)
			}
		}
		if len(ready) == 0 {
			return
		}
		if len(ready) > 1 {
			w.stat.Inc("ctl.writers.rendezvous")
			w.stat.Add("ctl.writers.rendezvous.size", len(ready))
		}
		for len(ready) > 0 {
			i := r.Intn(len(ready))
			ready[i].passed = true
			close(ready[i].gate)
			ready = append(ready[:i], ready[i+1:]...)
		}
	}
}

func (w *c09CtlWorld) ncalls() int {
	w.mu.Lock()
	defer w.mu.Unlock()
	return len(w.calls)
}

// resolutions = upstream exchanges started by distinct singleflight leaders: a TCP fallback attempt
// belongs to the resolution of the UDP attempt before it.
func (w *c09CtlWorld) entryStr(key string, c *DnsCache) string {
	base, scope, _ := strings.Cut(key, "|")
	// base = canonical fqdn + decimal qtype
	i := strings.LastIndex(base, ".")
	name, qt := base[:i+1], base[i+1:]
	n, _, _ := c09ParseName(name)
	sc := -1
	switch {
	case strings.HasPrefix(scope, "asis@"):
		for j, d := range c09Dsts {
			if scope == "asis@"+d {
				sc = j
			}
		}
	case strings.Contains(scope, "tcp+udp://10.0.0.3"):
		sc = 12
	case strings.Contains(scope, "udp://10.0.0.1"):
		sc = 10
	case strings.Contains(scope, "tcp://10.0.0.2"):
		sc = 11
	}
	eq := "?"
	if p := c.GetPackedResponse(); p != nil {
		var m dnsmessage.Msg
		if m.Unpack(p) == nil {
			eq = c09QTok(m.Question)
		}
	}
	return fmt.Sprintf("%d.%s.%d>%s/%d", n, qt, sc, eq, c09AnsToken(c.Answer))
}

func (w *c09CtlWorld) cacheStr() string {
	var l []string
	w.ctrl.dnsCache.Range(func(k, v any) bool {
		l = append(l, w.entryStr(k.(string), v.(*DnsCache)))
		return true
	})
	if len(l) == 0 {
		return "-"
	}
	sort.Strings(l)
	return strings.Join(l, ",")
}

func (w *c09CtlWorld) outcome(c *c09Client) string {
	if !c.fin {
		return "-"
	}
	if c.err != nil {
		switch {
		case errors.Is(c.err, ErrDNSTruncated):
			return "error:truncated"
		case c09ErrMismatch != nil && errors.Is(c.err, c09ErrMismatch):
			// the sentinel comes from a generated shim (nil when /repo has no such sentinel, i.e. b94e062 reverted)
			return "error:mismatch"
		case errors.Is(c.err, ErrDNSQueryConcurrencyLimitExceeded) && c.w.msg != nil:
			// REFUSED was written, the sentinel error only tells the caller not to answer again
		default:
			return "error:upstream"
		}
	}
	m := c.w.msg
	if m == nil {
		return "nothing-written"
	}
	if c.w.n != 1 {
		return fmt.Sprintf("written-%d-times", c.w.n)
	}
	return fmt.Sprintf("wrote:id=%d,q=%s,rc=%d,tc=%s,ans=%d", m.Id, c09QTok(m.Question), m.Rcode, c09B(m.Truncated), c09AnsToken(m.Answer))
}

// poll collects finished clients (non-blocking).
func (w *c09CtlWorld) poll() {
	for _, c := range w.clients {
		if c.fin {
			continue
		}
		select {
		case err := <-c.done:
			c.fin, c.err = true, err
		default:
		}
	}
}

func (w *c09CtlWorld) start(c *c09Client) {
	if c.ctx == nil {
		c.ctx, c.leave = context.WithCancel(context.Background())
	}
	q := new(dnsmessage.Msg)
	q.SetQuestion(c09Name(c.n, c.sp, c.route), uint16(c.qtype))
	q.Question[0].Qclass = uint16(c.cls)
	switch {
	case c.nq == 0:
		q.Question = nil
	case c.nq > 1:
		q.Question = append(q.Question, dnsmessage.Question{Name: c09Name(c.n+1, 0, c.route), Qtype: uint16(c.qtype), Qclass: uint16(c.cls)})
	}
	q.Id = uint16(c.id)
	req := &udpRequest{realSrc: netip.MustParseAddrPort("192.0.2.10:41000"), realDst: netip.MustParseAddrPort(c09Dsts[c.dst]), routingResult: &bpfRoutingResult{}}
	go func() {
		var err error
		func() {
			defer func() {
				if r := recover(); r != nil {
					err = fmt.Errorf("crash:%v", r)
				}
			}()
			err = w.ctrl.HandleWithResponseWriter_(c.ctx, q, req, c.w)
		}()
		c.done <- err
	}()
}

func c09GenAtt(r *VRand, c *c09Client, stat *VStats, pool []int, optimistic bool, rr bool) c09Att {
	switch r.Intn(16) {
	case 0:
		stat.Inc("ctl.att.fail")
		return c09Att{fail: true}
	case 1:
		stat.Inc("ctl.att.never-answers")
		return c09Att{fail: true, timeout: true}
	}
	nt := c09NameTok(c.n, c.route)
	a := c09Att{id: c.id, q: c09QStr(nt, c.sp, c.qtype, c.cls), resp: true, ans: 1 + r.Intn(900)}
	stat.Inc("ctl.att.msg")
	if rr && r.Chance(0.6) {
		// an address response routing has a rule for: re-ask ut (tcp) / re-ask ub (tcp+udp) / reject
		switch r.Intn(20) {
		case 0, 1, 2, 3, 4, 5, 6, 7:
			a.ans = 512 + r.Intn(256)
			stat.Inc("ctl.att.rr-range.next-tcp")
		case 8, 9, 10, 11, 12:
			a.ans = 384 + r.Intn(128)
			stat.Inc("ctl.att.rr-range.next-tcpudp")
		case 13, 14: // the edges of the prefixes
			a.ans = []int{383, 384, 511, 512, 767, 768}[r.Intn(6)]
			stat.Inc("ctl.att.rr-range.edge")
		default:
			a.ans = 768 + r.Intn(133)
			stat.Inc("ctl.att.rr-range.reject")
		}
	}
	if r.Chance(0.25) { // other ID (transport-level ID need not be the client's)
		a.id = r.Intn(65536)
		stat.Inc("ctl.att.other-id")
	}
	switch r.Intn(12) {
	case 0: // other name
		a.q = c09QStr(c09NameTok(pool[r.Intn(len(pool))], c.route), r.Intn(4), c.qtype, c.cls)
		stat.Inc("ctl.att.other-name-maybe")
	case 1: // other type
		a.q = c09QStr(nt, c.sp, c09OtherQtype(r, c.qtype), c.cls)
		stat.Inc("ctl.att.other-type")
	case 2:
		a.q = "-"
		stat.Inc("ctl.att.no-question")
	case 3, 4: // same question, other spelling
		a.q = c09QStr(nt, r.Intn(8), c.qtype, c.cls)
		stat.Inc("ctl.att.other-case")
	case 5: // same name and type, other class
		a.q = c09QStr(nt, c.sp, c.qtype, []int{1, 3, 255}[(map[int]int{1: 0, 3: 1, 255: 2}[c.cls]+1+r.Intn(2))%3])
		stat.Inc("ctl.att.other-class")
	}
	if r.Chance(0.12) {
		a.tc = true
		stat.Inc("ctl.att.tc")
	}
	if r.Chance(0.12) {
		a.rcode = []int{2, 3, 5}[r.Intn(3)]
		a.ans = 0
		stat.Inc("ctl.att.rcode")
	}
	if r.Chance(0.08) {
		a.ans = 0
		stat.Inc("ctl.att.empty")
	}
	if r.Chance(0.05) {
		a.resp = false
		stat.Inc("ctl.att.qr-clear")
	}
	if a.ans != 0 && !a.ttl0 && r.Chance(0.12) {
		a.cname = true
		stat.Inc("ctl.att.cname-first")
	}
	if !optimistic && a.ans != 0 && a.rcode == 0 && !a.cname && r.Chance(0.1) {
		a.ttl0 = true
		stat.Inc("ctl.att.ttl0")
	}
	return a
}

// exchange drives one dialSend of the real code (a flight's resolution or a background refresh) from its first
// blocked upstream call on: every further call that appears is given the next scripted attempt - the TCP leg of
// a tcp+udp upstream the second attempt of the same level (forwardWithFallback), any other call the first
// attempt of the next level (response routing re-asked another upstream: dialSend called itself).  An attempt
// entered with a context that is already over is recorded as `fail` (a transport fails such an exchange).
// Returns the number of upstream exchanges the real code issued and the number of levels it reached.
func (w *c09CtlWorld) exchange(r *VRand, first *c09Call, atts *[6]c09Att) (issued, levels int) {
	level, idx := 0, 0
	call := first
	for {
		if call.dead {
			atts[idx] = c09Att{fail: true}
		}
		a := atts[idx]
		nBefore := w.ncalls()
		call.release <- a
		issued++
		if a.timeout {
			time.Sleep(consts.DefaultDialTimeout + time.Second)
		}
		w.settle(r)
		if w.ncalls() <= nBefore {
			return issued, level + 1
		}
		w.mu.Lock()
		next := w.calls[len(w.calls)-1]
		w.mu.Unlock()
		switch {
		case next.fbLeg && idx%2 == 0:
			idx = 2*level + 1
			w.stat.Inc("ctl.fallback.tcp-attempt")
		case level < 2:
			level++
			idx = 2 * level
		default:
			// a fourth level: MaxDnsLookupDepth does not hold; the exchange count shows it to the model
			w.stat.Inc("ctl.rr.beyond-depth")
			next.release <- c09Att{fail: true}
			w.settle(r)
			return issued + 1, level + 2
		}
		call = next
	}
}

func c09AttToks(atts *[6]c09Att) string {
	var l []string
	for _, a := range atts {
		l = append(l, a.tok())
	}
	return strings.Join(l, " ")
}

func c09RunCtlScenario(r *VRand, st *VStream, stat *VStats, routing, routingRR *componentdns.Dns) {
	old := dnsForwarderFactory
	defer func() { dnsForwarderFactory = old }()
	optimistic := r.Chance(0.35)
	// response routing with rules (re-ask another upstream / reject by the answer's address) in 30 % of the scenarios
	rr := r.Chance(0.3)
	rrTok := "0"
	if rr {
		routing = routingRR
		rrTok = "1"
		stat.Inc("ctl.scenario.response-routing")
	}
	// queries that do not carry exactly one question, among ordinary ones
	malformed := r.Chance(0.04)
	if malformed {
		stat.Inc("ctl.scenario.malformed-queries")
	}
	if optimistic {
		stat.Inc("ctl.scenario.optimistic-cache")
	}
	w := newC09CtlWorld(st, stat, routing, optimistic)
	defer w.ctrl.Close()
	w.ctrl.concurrencyLimiter = make(chan struct{}, 64)
	dnsForwarderFactory = func(up *componentdns.Upstream, da dialArgument, _ *logrus.Logger) (DnsForwarder, error) {
		f := &c09ScriptFwd{w: w, l4: da.l4proto}
		if up != nil {
			f.scheme = up.Scheme
		}
		w.mu.Lock()
		w.fwds = append(w.fwds, f)
		w.mu.Unlock()
		return f, nil
	}
	// clients: few names / types / ids so that coalescing and collisions are the norm
	nc := 2 + r.Intn(6)
	if optimistic {
		nc = 4 + r.Intn(7)
	}
	names := []int{1 + r.Intn(3), 4 + r.Intn(3)}
	ids := []int{r.Intn(65536), r.Intn(65536)}
	routes := []string{"a", "a", "u", "t", "b", "b", "r"}
	route := routes[r.Intn(len(routes))]
	mixRoutes := r.Chance(0.25)
	qtypes := c09QtypePairs[r.Intn(len(c09QtypePairs))]
	if rr && r.Chance(0.8) {
		qtypes = [2]int{1, 28} // the rules look at addresses
	}
	stat.Inc(fmt.Sprintf("ctl.scenario.qtypes.%d+%d", qtypes[0], qtypes[1]))
	// k >= 2 identical questions (different IDs and spellings) in flight together, answered with something
	// that is NOT kept in the cache: every waiter then takes the post-flight "shared message" branch
	coalesce := !optimistic && r.Chance(0.3)
	if coalesce {
		mixRoutes = false
		if route == "r" {
			route = "a"
		}
		if nc < 3 {
			nc = 3
		}
		stat.Inc("ctl.scenario.coalesce-uncached")
	}
	// TTL drift: one question, spelt differently by every client, asked again 20 s (virtual) after it was cached:
	// the hit re-packs the entry with the spelling of the request at hand (`respell` in the model)
	drift := !optimistic && !coalesce && r.Chance(0.05)
	if drift {
		mixRoutes = false
		if route == "r" {
			route = "a"
		}
		if nc < 3 {
			nc = 3
		}
		stat.Inc("ctl.scenario.ttl-drift")
	}
	driftNext := false
	var toks []string
	for i := 0; i < nc; i++ {
		c := &c09Client{id: ids[r.Intn(2)], n: names[r.Intn(2)], sp: r.Intn(8), qtype: qtypes[[]int{0, 0, 0, 1}[r.Intn(4)]], route: route, dst: 0, cls: []int{1, 1, 1, 1, 1, 1, 1, 3, 3, 255}[r.Intn(10)], nq: 1,
			w: &c09Writer{gate: make(chan struct{})}, done: make(chan error, 1)}
		if r.Chance(0.6) || optimistic && r.Chance(0.6) {
			c.n = names[0] // mostly the same question
			c.qtype = qtypes[0]
		}
		if mixRoutes {
			c.route = routes[r.Intn(len(routes))]
		}
		if c.route == "a" && r.Chance(0.3) {
			c.dst = 1 + r.Intn(2)
		}
		if coalesce {
			c.id, c.n, c.qtype, c.route, c.dst = (ids[0]+i*7919)%65536, names[0], qtypes[0], route, 0
			if i > 0 && r.Chance(0.85) {
				c.cls = w.clients[0].cls // mostly the same class too; a few of another class must NOT be coalesced
			}
		}
		if drift {
			c.n, c.qtype, c.route, c.dst, c.cls, c.sp = names[0], qtypes[0], route, 0, 1, 1+i%7
		}
		if malformed && r.Chance(0.5) {
			c.nq = []int{0, 2, 2}[r.Intn(3)]
			stat.Inc(fmt.Sprintf("ctl.client.questions=%d", c.nq))
		}
		stat.Inc(fmt.Sprintf("ctl.client.class%d", c.cls))
		w.clients = append(w.clients, c)
		toks = append(toks, c.tok())
	}
	st.Emit("C reset 1 "+strings.Join(toks, " "), fmt.Sprintf("clients=%d", nc))
	stat.Add("ctl.clients", nc)

	type flight struct {
		leader *c09Client
		first  int // index of its first upstream call
		done   bool
	}
	var flights []*flight
	var refreshes []*c09Refresh
	ageNext := false
	arrived := 0
	emit := func(op, prefix string, c *c09Client, pc string) {
		st.Emit(op, fmt.Sprintf("%spc=%s out=%s calls=%d cache=%s", prefix, pc, w.outcome(c), len(flights), w.cacheStr()))
	}
	waitersOf := func() []*c09Client {
		var l []*c09Client
		for _, c := range w.clients[:arrived] {
			if !c.fin {
				l = append(l, c)
			}
		}
		return l
	}
	steps := 0
	for (arrived < nc || len(waitersOf()) > 0) && steps < 60 {
		steps++
		running := []*flight{}
		for _, f := range flights {
			if !f.done {
				running = append(running, f)
			}
		}
		doArrive := arrived < nc && !driftNext && (len(running) == 0 || !drift && r.Chance(0.6) || coalesce && r.Chance(0.9))
		switch {
		case doArrive:
			c := w.clients[arrived]
			idx := arrived
			arrived++
			if r.Chance(0.06) {
				// concurrency limiter full
				inflight := len(w.ctrl.concurrencyLimiter)
				for i := inflight; i < cap(w.ctrl.concurrencyLimiter); i++ {
					w.ctrl.concurrencyLimiter <- struct{}{}
				}
				w.start(c)
				w.settle(r)
				for i := inflight; i < cap(w.ctrl.concurrencyLimiter); i++ {
					<-w.ctrl.concurrencyLimiter
				}
				w.poll()
				c.rep = true
				stat.Inc("ctl.op.refuse")
				emit(fmt.Sprintf("C refuse %d", idx), "", c, "done")
				continue
			}
			before := w.ncalls()
			keyPrefix := fmt.Sprintf("%d.%d.%d>", c09NameTok(c.n, c.route), c.qtype, c.scope())
			spellOf := func() int {
				for _, e := range strings.Split(w.cacheStr(), ",") {
					if strings.HasPrefix(e, keyPrefix) {
						var n, sp, qt int
						fmt.Sscanf(strings.TrimPrefix(e, keyPrefix), "%d.%d.%d/", &n, &sp, &qt)
						return sp
					}
				}
				return -1
			}
			spBefore := spellOf()
			w.start(c)
			w.settle(r)
			w.poll()
			if spAfter := spellOf(); c.fin && spBefore >= 0 && spAfter >= 0 && spAfter != spBefore {
				// the hit re-packed the entry (TTL drift > 15 s of virtual time) with this request's qname
				stat.Inc("ctl.op.respell")
				st.Emit(fmt.Sprintf("C respell %d %d %d %d", c09NameTok(c.n, c.route), c.qtype, c.scope(), spAfter),
					fmt.Sprintf("pc=none out=- calls=%d cache=%s", len(flights), w.cacheStr()))
			}
			if c.fin {
				c.rep = true
				stat.Inc("ctl.arrive.answered-at-once")
				if w.ncalls() > before {
					// a stale entry was served: backgroundRefresh is now blocked in its upstream exchange
					refreshes = append(refreshes, &c09Refresh{client: idx, call: before})
					stat.Inc("ctl.arrive.stale-served")
				}
				emit(fmt.Sprintf("C arrive %d", idx), "", c, "done")
				continue
			}
			if c.nq != 1 {
				// not refused at once: the query went on to an upstream (the FORMERR guard does not cover it).  Let the
				// upstream answer some question, and show what the client gets and what lands in the cache.
				emit(fmt.Sprintf("C arrive %d", idx), "", c, "direct")
				if w.ncalls() > before {
					w.mu.Lock()
					call := w.calls[before]
					w.mu.Unlock()
					call.release <- c09Att{id: c.id, q: c09QStr(c09NameTok(5, c.route), 0, 1, 1), resp: true, ans: 33}
					w.settle(r)
					w.poll()
				}
				c.rep = true
				stat.Inc("ctl.op.malformed-not-refused")
				emit(fmt.Sprintf("C malformed %d", idx), "", c, "done")
				continue
			}
			// cache miss: the first lookup, then sf.Do (the real code runs through both)
			emit(fmt.Sprintf("C arrive %d", idx), "", c, "missed")
			pc := "waiting"
			if w.ncalls() > before {
				flights = append(flights, &flight{leader: c, first: before})
				pc = fmt.Sprintf("leading:%d", len(flights)-1)
				stat.Inc("ctl.arrive.leader")
			} else {
				stat.Inc("ctl.arrive.follower")
			}
			emit(fmt.Sprintf("C join %d", idx), "", c, pc)
		case driftNext && arrived < nc:
			driftNext = false
			time.Sleep(20 * time.Second) // more than the 15 s re-pack threshold; not an event of the model
			w.settle(r)
			stat.Inc("ctl.op.ttl-drift")
		case optimistic && arrived > 0 && arrived < nc && w.cacheStr() != "-" && (ageNext || r.Chance(0.3)):
			ageNext = false
			// every cached answer becomes stale (2 h of virtual time); not an event of the model
			time.Sleep(2 * time.Hour)
			w.settle(r)
			stat.Inc("ctl.op.age")
		case len(refreshes) > 0 && r.Chance(0.7):
			rf := refreshes[0]
			refreshes = refreshes[1:]
			c := w.clients[rf.client]
			pool := []int{names[0], names[1], 9}
			var atts [6]c09Att
			for k := range atts {
				atts[k] = c09GenAtt(r, c, stat, pool, optimistic, rr)
			}
			w.mu.Lock()
			call := w.calls[rf.call]
			w.mu.Unlock()
			issued, levels := w.exchange(r, call, &atts)
			stat.Inc(fmt.Sprintf("ctl.refresh.levels=%d", levels))
			// a refresh that did not produce a fresh entry makes the deferred clean-up drop the stale one
			want := fmt.Sprintf("%d.%d.%d>", c09NameTok(c.n, c.route), c.qtype, c.scope())
			ev := "1"
			for _, e := range strings.Split(w.cacheStr(), ",") {
				if strings.HasPrefix(e, want) {
					ev = "0"
				}
			}
			stat.Inc("ctl.op.refresh.evicted=" + ev)
			st.Emit(fmt.Sprintf("C refresh %d %s %s %s %s", rf.client, c.scheme(), rrTok, ev, c09AttToks(&atts)),
				fmt.Sprintf("xch=%d pc=none out=- calls=%d cache=%s", issued, len(flights), w.cacheStr()))
		case len(running) > 0 && r.Chance(0.14):
			// a client goes away (its own request context is cancelled) while its singleflight group is in flight: the
			// leader of a running resolution, or a follower blocked in sf.Do.  The shared resolution must go on and
			// everybody else must be served its result.
			var leaders, followers []int
			for i, c := range w.clients[:arrived] {
				if c.fin || c.gone || c.nq != 1 {
					continue
				}
				isLeader := false
				for _, f := range running {
					if f.leader == c {
						isLeader = true
					}
				}
				if isLeader {
					leaders = append(leaders, i)
				} else {
					followers = append(followers, i)
				}
			}
			pick := leaders
			kind := "leader"
			if len(followers) > 0 && (len(leaders) == 0 || r.Chance(0.4)) {
				pick, kind = followers, "follower"
			}
			if len(pick) == 0 {
				continue
			}
			gi := pick[r.Intn(len(pick))]
			gc := w.clients[gi]
			pc := "waiting"
			for fi, f := range flights {
				if f.leader == gc && !f.done {
					pc = fmt.Sprintf("leading:%d", fi)
				}
			}
			nWaiting := 0
			for _, c := range w.clients[:arrived] {
				if !c.fin && c != gc {
					nWaiting++
				}
			}
			gc.gone = true
			gc.leave()
			w.settle(r)
			w.poll()
			var others []string
			for i, c := range w.clients[:arrived] {
				if c.fin && !c.rep && c != gc {
					others = append(others, fmt.Sprintf("%d:%s", i, strings.SplitN(w.outcome(c), ",", 2)[0]))
				}
			}
			of := "-"
			if len(others) > 0 {
				of = strings.Join(others, "+")
			}
			stat.Inc("ctl.op.gone." + kind)
			if nWaiting > 0 {
				stat.Inc("ctl.op.gone." + kind + ".with-live-waiters")
			}
			emit(fmt.Sprintf("C gone %d", gi), "others-finished="+of+" ", gc, pc)
		case len(running) > 0 && r.Chance(0.15):
			// the forwarder cache is disturbed while upstream exchanges are blocked inside forwardWithDialArg:
			// failure-path retire, idle eviction, reload reset.  No event of the Ctl model; the fake forwarders
			// watch what happens to them (closed under an exchange / used after close / closed twice).
			switch r.Intn(3) {
			case 0:
				// (keys sorted: the seed, not the map order, decides which forwarders are retired)
				type kv struct {
					k dnsForwarderKey
					e *cachedDnsForwarder
				}
				var kvs []kv
				w.ctrl.dnsForwarderCache.Range(func(k, v any) bool {
					if e, ok := v.(*cachedDnsForwarder); ok {
						kvs = append(kvs, kv{k.(dnsForwarderKey), e})
					}
					return true
				})
				sort.Slice(kvs, func(i, j int) bool {
					return fmt.Sprint(kvs[i].k) < fmt.Sprint(kvs[j].k)
				})
				for _, x := range kvs {
					if r.Chance(0.7) {
						w.ctrl.retireCachedDnsForwarder(x.k, x.e)
					}
				}
				stat.Inc("ctl.fwdlife.retire-while-blocked")
			case 1:
				w.ctrl.dnsForwarderCache.Range(func(k, v any) bool {
					if e, ok := v.(*cachedDnsForwarder); ok {
						e.lastUsedNano.Store(1)
					}
					return true
				})
				w.ctrl.dnsForwarderIdleTTL = time.Millisecond
				w.ctrl.evictIdleDnsForwarders(time.Now())
				stat.Inc("ctl.fwdlife.evict-while-blocked")
			default:
				_ = w.ctrl.ResetDnsForwarders()
				stat.Inc("ctl.fwdlife.reset-while-blocked")
			}
			w.settle(r)
		case len(running) > 0 && r.Chance(0.1):
			// drop a cache entry (janitor / LRU / explicit removal)
			c := w.clients[r.Intn(arrived)]
			want := fmt.Sprintf("%d.%d.%d>", c09NameTok(c.n, c.route), c.qtype, c.scope())
			w.ctrl.dnsCache.Range(func(k, v any) bool {
				if strings.HasPrefix(w.entryStr(k.(string), v.(*DnsCache)), want) {
					w.ctrl.RemoveDnsRespCache(k.(string))
					stat.Inc("ctl.evict.hit")
				}
				return true
			})
			stat.Inc("ctl.op.evict")
			st.Emit(fmt.Sprintf("C evict %d %d %d", c09NameTok(c.n, c.route), c.qtype, c.scope()),
				fmt.Sprintf("pc=none out=- calls=%d cache=%s", len(flights), w.cacheStr()))
		case len(running) > 0:
			f := running[r.Intn(len(running))]
			fi := 0
			for i, g := range flights {
				if g == f {
					fi = i
				}
			}
			pool := []int{names[0], names[1], 9}
			var atts [6]c09Att
			for k := range atts {
				atts[k] = c09GenAtt(r, f.leader, stat, pool, optimistic, rr)
			}
			a1 := atts[0]
			if coalesce && r.Chance(0.85) {
				l := f.leader
				a1 = c09Att{id: l.id, q: c09QStr(c09NameTok(l.n, l.route), r.Intn(8), l.qtype, l.cls), resp: true}
				switch r.Intn(4) {
				case 0:
					a1.rcode = 3 // NXDOMAIN
				case 1:
					a1.rcode = 2 // SERVFAIL
				case 2:
					a1.rcode = 5 // REFUSED
				default:
					a1.ans, a1.ttl0 = 1+r.Intn(900), true // NOERROR, TTL 0
				}
				stat.Inc(fmt.Sprintf("ctl.coalesce.uncached.rcode%d", a1.rcode))
			}
			if drift && fi == 0 {
				l := f.leader
				a1 = c09Att{id: l.id, q: c09QStr(c09NameTok(l.n, l.route), l.sp, l.qtype, l.cls), resp: true, ans: 1 + r.Intn(380)}
				driftNext = true
			}
			if optimistic && fi == 0 && r.Chance(0.8) {
				// a well-behaved first answer, so that there is something to go stale
				l := f.leader
				a1 = c09Att{id: l.id, q: c09QStr(c09NameTok(l.n, l.route), l.sp, l.qtype, l.cls), resp: true, ans: 1 + r.Intn(380)}
				ageNext = true
			}
			atts[0] = a1
			w.mu.Lock()
			call := w.calls[f.first]
			w.mu.Unlock()
			issued, levels := w.exchange(r, call, &atts)
			if rr {
				stat.Inc(fmt.Sprintf("ctl.rr.resolve.levels=%d", levels))
			}
			f.done = true
			w.poll()
			res := "?"
			// the leader's outcome tells what the resolution returned
			lo := w.outcome(f.leader)
			switch {
			case strings.HasPrefix(lo, "error:"):
				res = "err:" + strings.TrimPrefix(lo, "error:")
			case strings.HasPrefix(lo, "wrote:"):
				res = fmt.Sprintf("ok:id=%d", f.leader.id)
			default:
				res = lo
			}
			stat.Inc("ctl.resolve." + strings.SplitN(res, ":id", 2)[0])
			// the model's resolve step leaves the leader blocked in sf.Do ("waiting"); the real leader has
			// already gone on: its outcome is reported by the wake op that follows
			if rr && levels > 1 && strings.HasPrefix(lo, "wrote:") {
				stat.Inc("ctl.rr.reasked-and-answered")
			}
			if rr && levels == 3 && res == "err:upstream" {
				// the third level is the last one dialSend asks (MaxDnsLookupDepth): failed there, or re-asked once more
				stat.Inc("ctl.rr.third-level-failed-or-too-deep")
			}
			st.Emit(fmt.Sprintf("C resolve %d %s %s %s", fi, f.leader.scheme(), rrTok, c09AttToks(&atts)),
				fmt.Sprintf("res=%s xch=%d pc=waiting out=- calls=%d cache=%s", res, issued, len(flights), w.cacheStr()))
			for i, c := range w.clients[:arrived] {
				if c.fin && !c.rep {
					c.rep = true
					emit(fmt.Sprintf("C wake %d", i), "", c, "done")
					if c != f.leader {
						stat.Inc("ctl.wake.follower")
					}
				}
			}
		}
	}
	// never leave a goroutine blocked inside the bubble
	for tries := 0; tries < 20; tries++ {
		w.mu.Lock()
		for _, cl := range w.calls {
			select {
			case cl.release <- c09Att{fail: true}:
			default:
			}
		}
		w.mu.Unlock()
		w.settle(r)
		w.poll()
	}
	for _, c := range w.clients {
		if c.fin {
			stat.Inc("ctl.client.answered")
		}
	}
	w.checkFwdLife(st, stat, "scenario")
}

// checkFwdLife: lifecycle of every forwarder the controller created in this world (all exchanges are over).
func (w *c09CtlWorld) checkFwdLife(st *VStream, stat *VStats, label string) {
	cached := map[DnsForwarder]bool{}
	w.ctrl.dnsForwarderCache.Range(func(_, v any) bool {
		if e, ok := v.(*cachedDnsForwarder); ok {
			cached[e.forwarder] = true
		}
		return true
	})
	w.mu.Lock()
	fwds := append([]*c09ScriptFwd(nil), w.fwds...)
	w.mu.Unlock()
	for i, f := range fwds {
		bad := ""
		switch {
		case f.closedUnderUse.Load() > 0:
			bad = "closed while one of its upstream exchanges was in flight"
		case f.enteredAfterClose.Load() > 0:
			bad = "an upstream exchange was started on it after Close()"
		case f.closes.Load() > 1:
			bad = fmt.Sprintf("closed %d times", f.closes.Load())
		case !cached[f] && f.inFlight.Load() == 0 && f.closes.Load() == 0:
			bad = "dropped from the forwarder cache and idle, but never closed"
		}
		if bad != "" {
			st.Emit(fmt.Sprintf("C fwdlife %s: forwarder %d of %d (%s): %s", label, i, len(fwds), f.l4, strings.ReplaceAll(bad, " ", "_")), "violated")
		}
		stat.Inc("ctl.fwdlife.forwarders-checked")
		if f.closes.Load() == 1 {
			stat.Inc("ctl.fwdlife.closed-once")
		}
	}
}

func TestVerifC09Ctl(t *testing.T) {
	st := VOpenStream("c09ctl")
	defer st.Close()
	stat := NewVStats()
	r := NewVRand(VSeed() + 29)
	routing := c09Routing()
	routingRR := c09RoutingOf(c09DnsConfigRR)
	n := 2000
	if VThorough() {
		n = 70000
	}
	for i := 0; i < n; i++ {
		rr := r.Fork()
		synctest.Test(t, func(t *testing.T) {
			c09RunCtlScenario(rr, st, stat, routing, routingRR)
		})
	}
	// the error replies the callers of Handle_ build (udp.go, tcp.go, dns_listener.go, control_plane.go)
	c := &DnsController{dnsControllerStore: &dnsControllerStore{prefWaitRegistry: newPreferenceWaitRegistry()}}
	c.log = c09Quiet()
	for i := 0; i < 60; i++ {
		q := new(dnsmessage.Msg)
		n, sp, qt, id := 1+r.Intn(9), r.Intn(8), []int{1, 28}[r.Intn(2)], r.Intn(65536)
		q.SetQuestion(c09Name(n, sp, "a"), uint16(qt))
		q.Id = uint16(id)
		wr := &c09Writer{}
		var err error
		kind := "servfail"
		if i%2 == 0 {
			err = c.sendDnsErrorResponse_(q, dnsmessage.RcodeServerFailure, "x", nil, wr)
		} else {
			kind = "truncated"
			err = c.sendDnsTruncatedResponse_(q, nil, wr)
		}
		got := "err"
		if err == nil && wr.msg != nil {
			got = fmt.Sprintf("id=%d,q=%s", wr.msg.Id, c09QTok(wr.msg.Question))
		}
		want := fmt.Sprintf("id=%d,q=%d.%d.%d", id, n, sp, qt)
		if got != want {
			st.Emit(fmt.Sprintf("C errreply %s %s", kind, want), got)
		}
		stat.Inc("ctl.errreply." + kind)
	}
	c09UdpPath(r, st, stat, routing)
	c09CreationRace(r, st, stat, routing)
	stat.Write("c09ctl")
}

// c09CreationRace: k goroutines meet a cold forwarder-cache key inside getOrCreateDnsForwarder (the factory is held
// until all of them are in it), so one LoadOrStore wins and the others take the "another goroutine won the race"
// branch; every one of them then runs its exchange through the real forwardWithDialArg.  The fake forwarders
// watch their own lifecycle (closed under an exchange / used after Close / closed twice / leaked).  Real time,
// channel synchronisation only; a round whose goroutines are not scheduled within the budget is skipped.
func c09CreationRace(r *VRand, st *VStream, stat *VStats, routing *componentdns.Dns) {
	rounds := 40
	if VThorough() {
		rounds = 400
	}
	oldFactory := dnsForwarderFactory
	defer func() { dnsForwarderFactory = oldFactory }()
	for round := 0; round < rounds; round++ {
		w := newC09CtlWorld(st, stat, routing, false)
		callCh := make(chan *c09Call, 64)
		w.callCh = callCh
		k := 2 + r.Intn(3)
		entered, goCh := make(chan struct{}, k), make(chan struct{})
		dnsForwarderFactory = func(up *componentdns.Upstream, da dialArgument, _ *logrus.Logger) (DnsForwarder, error) {
			f := &c09ScriptFwd{w: w, l4: da.l4proto}
			w.mu.Lock()
			w.fwds = append(w.fwds, f)
			w.mu.Unlock()
			entered <- struct{}{}
			<-goCh
			return f, nil
		}
		up := &componentdns.Upstream{Scheme: componentdns.UpstreamScheme_UDP, Hostname: "10.9.9.9", Port: 53}
		da := &dialArgument{l4proto: consts.L4ProtoStr_UDP, ipversion: consts.IpVersionStr_4, bestTarget: netip.MustParseAddrPort("10.9.9.9:53")}
		q := new(dnsmessage.Msg)
		q.SetQuestion("race.test.", dnsmessage.TypeA)
		data, _ := q.Pack()
		done := make(chan error, k)
		for i := 0; i < k; i++ {
			go func() {
				_, err := w.ctrl.forwardWithDialArg(context.Background(), up, da, data)
				done <- err
			}()
		}
		ok := true
		wait := func(ch <-chan struct{}) bool {
			select {
			case <-ch:
				return true
			case <-time.After(c09RealBudget):
				return false
			}
		}
		for i := 0; i < k && ok; i++ {
			ok = wait(entered)
		}
		close(goCh) // all k are past the cache miss and hold a forwarder of their own: let LoadOrStore decide
		var calls []*c09Call
		for i := 0; i < k && ok; i++ {
			select {
			case c := <-callCh:
				calls = append(calls, c)
			case <-time.After(c09RealBudget):
				ok = false
			}
		}
		for _, c := range calls { // every exchange is now in flight: answer them
			c.release <- c09Att{id: 1, q: "-", resp: true}
		}
		for i := 0; i < k && ok; i++ {
			select {
			case <-done:
			case <-time.After(c09RealBudget):
				ok = false
			}
		}
		if !ok {
			stat.Inc("ctl.fwdlife.creation-race.abandoned")
			go func() { _ = w.ctrl.Close() }()
			continue
		}
		_ = w.ctrl.ResetDnsForwarders() // retire what is cached: now every forwarder created must have been closed, once
		w.checkFwdLife(st, stat, fmt.Sprintf("creation-race round %d, %d goroutines", round, k))
		stat.Inc("ctl.fwdlife.creation-race.rounds-completed")
		_ = w.ctrl.Close()
	}
}

// c09RealBudget bounds the waits of the real-time (non-synctest) part on events the real code signals.
// Its expiry is never evidence about the property: the round is counted as inconclusive.
var c09RealBudget = c09BudgetFromEnv()

// c09BudgetFromEnv: 90 s, or VERIF_C09_BUDGET_MS (only used to test that an expired budget is reported as
// inconclusive and never as a violation).
func c09BudgetFromEnv() time.Duration {
	if ms := VEnvInt("VERIF_C09_BUDGET_MS", 0); ms > 0 && os.Getenv("VERIF_C09_SELFTEST") == "1" {
		return time.Duration(ms) * time.Millisecond
	}
	return 90 * time.Second
}

// c09UdpPath: the packet-send path (no ResponseWriter: Handle_ packs and sends through sendPkt).  k
// clients with their own loopback sockets ask the same question under different IDs and spellings while
// the upstream answer is withheld; the answer is alternately cacheable and not (NXDOMAIN), so both
// writeCachedResponse's byte patch and the per-waiter Pack+patch of the shared message are exercised.
// Real time, real sockets; a line is emitted only for a wrong reply.
func c09UdpPath(r *VRand, st *VStream, stat *VStats, routing *componentdns.Dns) {
	rounds := 300
	if VThorough() {
		rounds = 1500
	}
	oldFactory, oldPool := dnsForwarderFactory, DefaultAnyfromPool
	pool := &AnyfromPool{}
	for i := range anyfromPoolShardCount {
		pool.shards[i].pool = make(map[netip.AddrPort]*Anyfrom, 16)
	}
	DefaultAnyfromPool = pool
	defer func() { dnsForwarderFactory, DefaultAnyfromPool = oldFactory, oldPool }()
	listen := func() *net.UDPConn {
		c, err := net.ListenUDP("udp4", &net.UDPAddr{IP: net.IPv4(127, 0, 0, 1)})
		if err != nil {
			panic(err)
		}
		return c
	}
	replyConn, listenerConn := listen(), listen()
	defer replyConn.Close()
	defer listenerConn.Close()
	replyAddr := replyConn.LocalAddr().(*net.UDPAddr).AddrPort()
	af := &Anyfrom{UDPConn: replyConn, ttl: AnyfromTimeout}
	af.RefreshTtl()
	shard := pool.shardFor(replyAddr)
	shard.mu.Lock()
	shard.pool[replyAddr] = af
	shard.mu.Unlock()

	var w *c09CtlWorld
	var callCh chan *c09Call
	closeWorld := func() {
		if w != nil {
			old := w
			go func() { _ = old.ctrl.Close() }() // goroutines of an abandoned round may still sit in it
		}
	}
	newWorld := func() {
		closeWorld()
		nw := newC09CtlWorld(st, stat, routing, false)
		ch := make(chan *c09Call, 4096)
		nw.callCh = ch
		dnsForwarderFactory = func(up *componentdns.Upstream, da dialArgument, _ *logrus.Logger) (DnsForwarder, error) {
			return &c09ScriptFwd{w: nw, l4: da.l4proto}, nil
		}
		w, callCh = nw, ch
	}
	newWorld()
	defer closeWorld()
	attempt, whys := 0, []string{}
	for round := 0; round < rounds; round++ {
		k := 2 + r.Intn(5)
		crowd := round%2 == 0
		if crowd {
			// a crowd: nothing can hold the waiters between "patch" and "send" on this path, so overlap is
			// sought by numbers
			k = 40 + r.Intn(40)
		}
		n := 30 + round%60
		uncached := crowd || round%4 == 1
		type cl struct {
			conn *net.UDPConn
			id   int
			sp   int
			err  chan error
		}
		var cls []*cl
		w.ctrl.dnsCache.Range(func(k, _ any) bool { // names repeat across rounds: start every round cold
			w.ctrl.RemoveDnsRespCache(k.(string))
			return true
		})
		nBefore := w.ncalls()
		ans := c09Att{resp: true, ans: 1 + r.Intn(900)}
		if uncached {
			ans.rcode, ans.ans = 3, 0
		}
		inconclusive := ""
		var first *c09Call
		for i := 0; i < k && inconclusive == ""; i++ {
			c := &cl{conn: listen(), id: (1000*round + 37*i + 5 + 9973*attempt) % 65536, sp: r.Intn(8), err: make(chan error, 1)}
			cls = append(cls, c)
			q := new(dnsmessage.Msg)
			q.SetQuestion(c09Name(n, c.sp, "a"), dnsmessage.TypeA)
			q.Id = uint16(c.id)
			src := c.conn.LocalAddr().(*net.UDPAddr).AddrPort()
			req := &udpRequest{realSrc: src, realDst: replyAddr, src: src, lConn: listenerConn, routingResult: &bpfRoutingResult{}}
			go func() { c.err <- w.ctrl.Handle_(context.Background(), q, req) }()
			if i == 0 { // the leader is inside its upstream exchange (announced by the fake forwarder) before the others start
				select {
				case first = <-callCh:
				case <-time.After(c09RealBudget):
					inconclusive = "the leader did not reach its upstream exchange within the budget"
				}
			}
		}
		if inconclusive == "" {
			time.Sleep(15 * time.Millisecond) // lets the followers reach sf.Do; only affects how many are coalesced
			ans.id, ans.q = cls[0].id, fmt.Sprintf("%d.%d.%d", n, cls[0].sp, 1)
			// answer the leader, and whoever arrives late enough to start an exchange of its own (a follower
			// that had not reached sf.Do when the flight ended): every client gets an answer whatever the timing
			stop, stopped := make(chan struct{}), make(chan struct{})
			go func() {
				defer close(stopped)
				first.release <- ans
				for {
					select {
					case c := <-callCh:
						c.release <- ans
					case <-stop:
						return
					}
				}
			}()
			for i, c := range cls {
				want := fmt.Sprintf("id=%d,name=%d,qtype=1", c.id, n)
				// Handle_ sends the reply before it returns: wait for the return (real synchronisation), then read
				select {
				case <-c.err:
				case <-time.After(c09RealBudget):
					inconclusive = fmt.Sprintf("Handle_ of waiter %d of %d did not return within the budget (%d had returned)", i, k, i)
				}
				if inconclusive != "" {
					break
				}
				got := ""
				buf := make([]byte, 2048)
				_ = c.conn.SetReadDeadline(time.Now().Add(20 * time.Second))
				if m, _, err := c.conn.ReadFromUDPAddrPort(buf); err == nil {
					var msg dnsmessage.Msg
					if msg.Unpack(buf[:m]) == nil && len(msg.Question) == 1 {
						nn, _, _ := c09ParseName(msg.Question[0].Name)
						got = fmt.Sprintf("id=%d,name=%d,qtype=%d", msg.Id, nn, msg.Question[0].Qtype)
					} else {
						got = "unparsable"
					}
				}
				switch {
				case got == "":
					// no datagram: nothing was observed (loopback drop, error return) - not a statement about the reply
					stat.Inc("ctl.udppath.no-datagram")
				default:
					stat.Inc("ctl.udppath.datagrams-checked")
					if got != want {
						st.Emit(fmt.Sprintf("C udppath round=%d waiter=%d of %d uncached=%v want %s", round, i, k, uncached, want), got)
					}
				}
				stat.Inc(fmt.Sprintf("ctl.udppath.reply.uncached=%v", uncached))
			}
			close(stop)
			<-stopped
		}
		for _, c := range cls {
			c.conn.Close()
		}
		if inconclusive != "" {
			// goroutines of this round may still be blocked in the controller: retry the round on a fresh one.
			// Three attempts stopping at the same point = the real code does not progress there (a hang is a
			// definite observation); otherwise the machine is not scheduling us: stop, "no evidence".
			stat.Inc("ctl.udppath.abandoned-attempt")
			whys = append(whys, inconclusive)
			attempt++
			if attempt < 3 {
				newWorld()
				round--
				continue
			}
			if whys[0] == whys[1] && whys[1] == whys[2] {
				stat.Inc("ctl.udppath.hang")
				st.Emit(fmt.Sprintf("H hang udppath round=%d k=%d uncached=%v %s", round, k, uncached, strings.ReplaceAll(inconclusive, " ", "_")),
					"hang: three attempts of the same round stopped at the same point")
			} else {
				stat.Inc("ctl.udppath.inconclusive-unrecovered")
			}
			stat.Add("ctl.udppath.rounds-not-run", rounds-round)
			break
		}
		if attempt > 0 {
			stat.Inc("ctl.udppath.recovered-by-retry")
		}
		attempt, whys = 0, whys[:0]
		stat.Inc("ctl.udppath.rounds-completed")
		stat.Add("ctl.udppath.coalesced", w.ncalls()-nBefore)
	}

	// ---- oversized cached replies (> 1024 bytes: the branch of writeCachedResponse that cannot use the pooled
	// buffer), hit by several clients at once.  The handlers are parked between "ID patched" and "sent" by
	// holding the write lock of the reply-socket pool shard: sendPkt's lookup takes its read lock.  The number
	// of readers queued on the RWMutex is read from the mutex itself, so the release does not depend on timing
	// (if that fails, a plain pause is used: it only affects how many handlers overlap, never what is reported).
	bigRounds := 40
	if VThorough() {
		bigRounds = 300
	}
	pendingReaders := func() int {
		defer func() { _ = recover() }()
		v := reflect.ValueOf(&shard.mu).Elem().FieldByName("readerCount")
		if v.Kind() == reflect.Struct {
			v = v.Field(v.NumField() - 1) // atomic.Int32{_ noCopy; v int32}
		}
		n := v.Int()
		if n < 0 {
			n += 1 << 30 // rwmutexMaxReaders: a writer holds or waits for the lock
		}
		return int(n)
	}
	for round := 0; round < bigRounds; round++ {
		n := 60 + round%30
		w.ctrl.dnsCache.Range(func(k, _ any) bool {
			w.ctrl.RemoveDnsRespCache(k.(string))
			return true
		})
		ask := func(conn *net.UDPConn, id, sp int) chan error {
			q := new(dnsmessage.Msg)
			q.SetQuestion(c09Name(n, sp, "a"), dnsmessage.TypeA)
			q.Id = uint16(id)
			src := conn.LocalAddr().(*net.UDPAddr).AddrPort()
			req := &udpRequest{realSrc: src, realDst: replyAddr, src: src, lConn: listenerConn, routingResult: &bpfRoutingResult{}}
			ch := make(chan error, 1)
			go func() { ch <- w.ctrl.Handle_(context.Background(), q, req) }()
			return ch
		}
		read := func(conn *net.UDPConn) string {
			buf := make([]byte, 16384)
			_ = conn.SetReadDeadline(time.Now().Add(20 * time.Second))
			m, _, err := conn.ReadFromUDPAddrPort(buf)
			if err != nil {
				return ""
			}
			var msg dnsmessage.Msg
			if msg.Unpack(buf[:m]) != nil || len(msg.Question) != 1 {
				return "unparsable"
			}
			nn, _, _ := c09ParseName(msg.Question[0].Name)
			return fmt.Sprintf("id=%d,name=%d,qtype=%d,answers=%d", msg.Id, nn, msg.Question[0].Qtype, len(msg.Answer))
		}
		// 1. prime: one client, the upstream answers with 90 records
		prime := listen()
		errc := ask(prime, 7, 0)
		var first *c09Call
		select {
		case first = <-callCh:
		case <-time.After(c09RealBudget):
		}
		if first == nil {
			stat.Inc("ctl.udppath.big.abandoned")
			prime.Close()
			newWorld()
			continue
		}
		first.release <- c09Att{id: 7, q: fmt.Sprintf("%d.0.1", n), resp: true, ans: 1 + r.Intn(500), many: 90}
		select {
		case <-errc:
		case <-time.After(c09RealBudget):
		}
		_ = read(prime)
		prime.Close()
		// the packet path caches asynchronously after sending: wait until the packed entry is there
		packed := 0
		for waited := time.Duration(0); waited < c09RealBudget && packed == 0; waited += time.Millisecond {
			w.ctrl.dnsCache.Range(func(_, v any) bool {
				if p := v.(*DnsCache).GetPackedResponse(); len(p) > 0 {
					packed = len(p)
				}
				return true
			})
			if packed == 0 {
				time.Sleep(time.Millisecond)
			}
		}
		if packed <= 1024 {
			stat.Inc("ctl.udppath.big.not-oversized")
			continue
		}
		// 2. k clients hit the entry while the shard is write-locked
		k := 2 + r.Intn(5)
		type bc struct {
			conn *net.UDPConn
			id   int
			errc chan error
		}
		var bcs []*bc
		shard.mu.Lock()
		for i := 0; i < k; i++ {
			c := &bc{conn: listen(), id: (4000*round + 211*i + 9) % 65536}
			c.errc = ask(c.conn, c.id, r.Intn(8))
			bcs = append(bcs, c)
		}
		queued := 0
		for waited := time.Duration(0); waited < 5*time.Second; waited += time.Millisecond {
			if queued = pendingReaders(); queued >= k {
				break
			}
			time.Sleep(time.Millisecond)
		}
		shard.mu.Unlock()
		stat.Add("ctl.udppath.big.parked-before-send", queued)
		for i, c := range bcs {
			select {
			case <-c.errc:
			case <-time.After(c09RealBudget):
			}
			want := fmt.Sprintf("id=%d,name=%d,qtype=1,answers=90", c.id, n)
			got := read(c.conn)
			switch {
			case got == "":
				stat.Inc("ctl.udppath.no-datagram")
			default:
				stat.Inc("ctl.udppath.big.datagrams-checked")
				if got != want {
					st.Emit(fmt.Sprintf("C udppath oversized-cached round=%d waiter=%d of %d packed=%dB want %s", round, i, k, packed, want), got)
				}
			}
			stat.Inc("ctl.udppath.big.reply")
			c.conn.Close()
		}
		stat.Inc("ctl.udppath.big.rounds-completed")
	}
}

var _ = binary.BigEndian
