//go:build verif

package control

// C08 schedule replay (needs the verif-tagged yield points `dnscache.*`, design_notes/C08.hooks.patch):
// real goroutines run the real LookupDnsRespCache_, UpdateDnsCacheTtlWithKey, the deferred clean-up of
// backgroundRefresh and evictExpiredDnsCache on ONE cache key; a scheduler parks every managed goroutine
// at every yield point and releases exactly one at a time, following a seeded random schedule.  A
// released segment contains exactly one shared-memory action of the code (sync.Map Load / Store /
// CompareAndDelete on the key, CompareAndSwap / Load / Store on the entry's `refreshing` flag) = one step
// of the transition system of lean/DaeVerif/C08/Conc.lean (`cstep i`).  After every step the thread's
// position / result and the shared state (which answer is stored under the key, its flag) are compared.
//
// Nothing depends on the wall clock: entries are fresh (+1 000 000 s), stale (-10 s with a stale window
// of 100 000 s, or unbounded) or dead (-1 000 000 s); a machine that does not schedule the goroutines
// makes a history INCONCLUSIVE (counted, exit 2 when there are too many), never a mismatch.

import (
	"bytes"
	"fmt"
	"runtime"
	"strconv"
	"strings"
	"sync"
	"testing"
	"time"

	"github.com/daeuniverse/dae/common/consts"
	dnsmessage "github.com/miekg/dns"
	"github.com/sirupsen/logrus"
)

func c08Goid() int64 {
	var buf [64]byte
	n := runtime.Stack(buf[:], false)
	f := bytes.Fields(buf[:n])
	id, _ := strconv.ParseInt(string(f[1]), 10, 64)
	return id
}

type c08Ev struct {
	t  int
	at string // yield name, or "ret:<value>"
}

type c08Sched struct {
	mu     sync.Mutex
	names  map[int64]int // goroutine id -> logical thread
	parked map[int]chan struct{}
	event  chan c08Ev
}

func newC08Sched() *c08Sched {
	return &c08Sched{names: map[int64]int{}, parked: map[int]chan struct{}{}, event: make(chan c08Ev, 64)}
}

func (h *c08Sched) hook(name string, args ...any) {
	if !strings.HasPrefix(name, "dnscache.") {
		return
	}
	h.mu.Lock()
	t, ok := h.names[c08Goid()]
	if !ok {
		h.mu.Unlock()
		return
	}
	ch := make(chan struct{})
	h.parked[t] = ch
	h.mu.Unlock()
	h.event <- c08Ev{t, name}
	<-ch
}

func (h *c08Sched) spawn(t int, f func() string) {
	started := make(chan struct{})
	go func() {
		id := c08Goid()
		h.mu.Lock()
		h.names[id] = t
		h.mu.Unlock()
		close(started)
		ret := VRecover(f)
		h.mu.Lock()
		delete(h.names, id)
		h.mu.Unlock()
		h.event <- c08Ev{t, "ret:" + ret}
	}()
	<-started
}

func (h *c08Sched) release(t int) {
	h.mu.Lock()
	ch := h.parked[t]
	delete(h.parked, t)
	h.mu.Unlock()
	if ch != nil {
		close(ch)
	}
}

func (h *c08Sched) releaseAll() {
	h.mu.Lock()
	for t, ch := range h.parked {
		close(ch)
		delete(h.parked, t)
	}
	h.mu.Unlock()
}

// next event of thread t (the only thread running), or ok=false when the machine did not get to it
func (h *c08Sched) wait(t int, budget time.Duration) (c08Ev, bool) {
	select {
	case ev := <-h.event:
		return ev, ev.t == t
	case <-time.After(budget):
		return c08Ev{}, false
	}
}

var c08YieldState = map[string]string{
	"dnscache.lookup.start": "start", "dnscache.lookup.afterLoad": "loaded",
	"dnscache.insert.beforeStore": "start",
	"dnscache.rdone.start":        "start", "dnscache.rdone.afterLoad": "loaded", "dnscache.rdone.beforeMark": "sawtrue",
	"dnscache.janitor.start": "start", "dnscache.janitor.afterLoad": "loaded",
}

func TestVerifC08Sched(t *testing.T) {
	r := NewVRand(VSeed() ^ 0xC08)
	stats := NewVStats()
	st := VOpenStream("c08sched")
	defer func() { st.Close(); stats.Write("c08sched") }()
	log := logrus.New()
	log.SetLevel(logrus.PanicLevel)
	dnsCacheJanitorInterval = 24 * 365 * 50 * time.Hour
	budget := time.Duration(VEnvInt("C08_SCHED_BUDGET_S", 30)) * time.Second

	nHist := VEnvInt("C08_SCHED", 2000)
	if VThorough() {
		nHist = VEnvInt("C08_SCHED", 12000)
	}
	const name, key = "sched.test", "sched.test.1"
	inconclusive := 0
	for hi := 0; hi < nHist && inconclusive < 5; hi++ {
		cfg := []c08Cfg{{opt: true, stale: 100000}, {opt: false, stale: 100000}, {opt: true, stale: 0, max: 50}, {opt: true, stale: 100000}}[r.Intn(4)]
		c, err := NewDnsController(nil, c08Option(cfg, log))
		if err != nil {
			t.Fatal(err)
		}
		h := newC08Sched()
		verifYieldHook = h.hook
		nTh := r.Range(2, 7)
		specs := make([]string, nTh)
		funcs := make([]func() string, nTh)
		ansBase := r.Intn(50000)
		for i := 0; i < nTh; i++ {
			x := r.Intn(10)
			if i == 0 && r.Chance(0.7) {
				x = 9 // mostly start with something in the cache
			}
			switch {
			case x < 4:
				specs[i] = "L"
				funcs[i] = func() string {
					msg := new(dnsmessage.Msg)
					msg.SetQuestion(dnsmessage.Fqdn(name), 1)
					resp, nr := c.LookupDnsRespCache_(msg, key, false)
					if resp == nil {
						return "miss"
					}
					var m dnsmessage.Msg
					if m.Unpack(resp) != nil || len(m.Answer) != 1 {
						return "unreadable"
					}
					ip := m.Answer[0].(*dnsmessage.A).A.To4()
					return fmt.Sprintf("hit:%d:%s", int(ip[2])<<8|int(ip[3]), c08B(nr))
				}
				stats.Inc("sched.thread.lookup")
			case x < 6:
				specs[i] = "R"
				funcs[i] = func() string {
					msg := new(dnsmessage.Msg)
					msg.SetQuestion(dnsmessage.Fqdn(name), 1)
					c.backgroundRefresh(key, msg, nil, consts.DnsRequestOutboundIndex_Reject, nil)
					return ""
				}
				stats.Inc("sched.thread.refresh_cleanup")
			case x < 7:
				specs[i] = "J"
				funcs[i] = func() string { c.evictExpiredDnsCache(time.Now()); return "" }
				stats.Inc("sched.thread.janitor")
			default:
				ttl := []int{1000000, -10, -10, -1000000}[r.Intn(4)]
				ans := ansBase + i
				specs[i] = fmt.Sprintf("I:%d:%d", ttl, ans)
				funcs[i] = func() string {
					answers, _, _ := c08Records(c08Fqdn(name), 1, c08Same(1, 77), ans, 0)
					if err := c.UpdateDnsCacheTtlWithKey(key, name, 1, answers, nil, nil, ttl); err != nil {
						return "err"
					}
					return ""
				}
				stats.Inc(fmt.Sprintf("sched.thread.insert_%s", map[int]string{1000000: "fresh", -10: "stale", -1000000: "dead"}[ttl]))
			}
		}
		st.Emit(fmt.Sprintf("cinit %s th=%s", cfg.opStr(), strings.Join(specs, ",")), fmt.Sprintf("cinit n=%d", nTh))
		// every thread runs up to its first yield point (no shared-memory action before it)
		state := make([]string, nTh)
		ok := true
		for i := 0; i < nTh && ok; i++ {
			h.spawn(i, funcs[i])
			ev, good := h.wait(i, budget)
			if !good || c08YieldState[ev.at] != "start" {
				ok = false
				break
			}
			state[i] = "start"
		}
		steps := 0
		for ok {
			var live []int
			for i, s := range state {
				if !strings.HasPrefix(s, "done") {
					live = append(live, i)
				}
			}
			if len(live) == 0 {
				break
			}
			i := live[r.Intn(len(live))]
			if r.Chance(0.25) && len(live) > 1 { // bias towards finishing what was begun last / letting one run
				i = live[len(live)-1]
			}
			h.release(i)
			ev, good := h.wait(i, budget)
			if !good {
				ok = false
				break
			}
			if strings.HasPrefix(ev.at, "ret:") {
				state[i] = "done"
				if v := strings.TrimPrefix(ev.at, "ret:"); v != "" {
					state[i] = "done:" + v
				}
			} else if s, known := c08YieldState[ev.at]; known {
				state[i] = s
			} else {
				state[i] = "at:" + ev.at
			}
			slot, flag := "-", "-"
			if v, present := c.dnsCache.Load(key); present {
				e := v.(*DnsCache)
				ip := e.Answer[0].(*dnsmessage.A).A.To4()
				slot, flag = fmt.Sprint(int(ip[2])<<8|int(ip[3])), c08B(e.refreshing.Load())
			}
			st.Emit(fmt.Sprintf("cstep %d", i), fmt.Sprintf("t=%d at=%s slot=%s flag=%s", i, state[i], slot, flag))
			steps++
		}
		verifYieldHook = nil
		h.releaseAll()
		_ = c.Close()
		if !ok {
			inconclusive++
			stats.Inc("sched.inconclusive_history")
			continue
		}
		stats.Inc("sched.histories")
		stats.Add("sched.steps", steps)
		stats.Inc(fmt.Sprintf("sched.cfg.opt=%s,stale=%d,max=%d", c08B(cfg.opt), cfg.stale, cfg.max))
	}
}
