package control

// C18 correspondence harness: the REAL ChooseDialTarget / chooseProxyDialer / routeDial,
// DnsController knowledge bookkeeping (UpdateDnsCacheTtl[WithKey], RemoveDnsRespCache,
// HasDnsKnowledge), real-domain caches + probe (probeAndUpdateRealDomain through the
// stubbable resolver variable), isIPLikeDomain, sniffing.NormalizeDomain, OutboundIndex.IsReserved
// and the stdlib pieces the model mirrors (net.SplitHostPort/JoinHostPort, netip.ParseAddr,
// netip.AddrPort.String, dns.CanonicalName) — against the Lean driver c18drv.
//
// One op per line, strings hex-encoded ("-" = empty).  The driver is stateful; the stateful ops run
// inside a testing/synctest bubble so that time.Now() is virtual and the asynchronous probe
// goroutine can be awaited deterministically (synctest.Wait).
//
//   reset | mode <m> | boot <n> | adv <ns> | dns <host> <qtype> <ttl ns> <key|-> | rm <key> | evict <key>
//   rmf <basekey> | reload | close | dnsresp <resp> <hasq> <rcodeok> <qname> <qtype> <ttl|-> <key|->
//   has <name> <4|6> | look <name> | cdt <ob> <dst> <name> <ans>* | cdt2 … (second call while the probe is in flight)
//   evicted <key>* (what one real evictExpiredDnsCache run removed) | cfg <dial_mode value|absent> (real config parse)
//   dial <ob> <dst> <name> <rt> <nOut> <failfirst> <ans>*   (TCP routeDial; UDP never uses this target, see note)
//   norm|pa|shp|iplike|canon <s> | jhp <h> <p> | ap <dst> | resv <n>
//   tun <sniff thr> <sniff ttl ns> <excluded ports> <so_mark> <tuple retry ns>   (tunables read from the running code)
//   cdth <ob> <dst> <name> (ChooseDialTarget, the resolvers of <name> do not answer yet) | rel <name> <ans>* | relx <name>
//   gen <mode> <nboot> <reuse|restore> (a new ControlPlane generation) | negclean (cleanupNegativeCaches) | sneg <dst> <meta>
//   conn <kernel outbound|-> <local addr> <payload kind> <host value> <sniff timeout ns> <rt0> <rt1> <rm0> <rm1> <nOut> <fail> <meta> <ans>*
//        (a whole connection through the REAL handleConn) | connend <ns>
//   dns/dnsresp/reload … f1|f2   (fault injection: NewCache hook fails / cache-access callback fails)

import (
	"context"
	"encoding/hex"
	"errors"
	"fmt"
	"io"
	"net"
	"net/netip"
	"os"
	"sort"
	"strconv"
	"strings"
	"sync"
	"syscall"
	"testing"
	"testing/synctest"
	"time"

	"github.com/bits-and-blooms/bloom/v3"
	"github.com/cilium/ebpf"
	"github.com/daeuniverse/dae/common/consts"
	"github.com/daeuniverse/dae/common/netutils"
	"github.com/daeuniverse/dae/component/outbound"
	componentdialer "github.com/daeuniverse/dae/component/outbound/dialer"
	"github.com/daeuniverse/dae/component/sniffing"
	"github.com/daeuniverse/dae/config"
	"github.com/daeuniverse/dae/pkg/config_parser"
	"github.com/daeuniverse/outbound/netproxy"
	dnsmessage "github.com/miekg/dns"
	"github.com/sirupsen/logrus"
)

func c18Hex(s string) string {
	if s == "" {
		return "-"
	}
	return hex.EncodeToString([]byte(s))
}

func c18Bool(b bool) string {
	if b {
		return "1"
	}
	return "0"
}

func c18DstTok(d netip.AddrPort) string {
	if d.Addr().Is4() {
		b := d.Addr().As4()
		return fmt.Sprintf("4:%s:%d", hex.EncodeToString(b[:]), d.Port())
	}
	b := d.Addr().As16()
	return fmt.Sprintf("6:%s:%d", hex.EncodeToString(b[:]), d.Port())
}

// ---------------------------------------------------------------- fake node dialer

type c18Conn struct{}

func (c18Conn) Read([]byte) (int, error)         { return 0, io.EOF }
func (c18Conn) Write(b []byte) (int, error)      { return len(b), nil }
func (c18Conn) Close() error                     { return nil }
func (c18Conn) SetDeadline(time.Time) error      { return nil }
func (c18Conn) SetReadDeadline(time.Time) error  { return nil }
func (c18Conn) SetWriteDeadline(time.Time) error { return nil }

// records the address the control plane sends to the proxy node.
type c18RecDialer struct {
	mu       sync.Mutex
	tag      int
	log      *[]string
	failNext *int // shared by all node dialers: the next dial fails (1 = ENETUNREACH, 2 = ECONNREFUSED, 3 = i/o timeout)
	at       *[]time.Time
	ok       *bool // set when a dial succeeded
}

func (d *c18RecDialer) DialContext(_ context.Context, network, addr string) (netproxy.Conn, error) {
	d.mu.Lock()
	mark := "?"
	if mn, err := netproxy.ParseMagicNetwork(network); err == nil {
		mark = strconv.FormatUint(uint64(mn.Mark), 10)
	}
	*d.log = append(*d.log, fmt.Sprintf("%d|%s|%s", d.tag, mark, addr))
	if d.at != nil {
		*d.at = append(*d.at, time.Now())
	}
	fail := *d.failNext
	*d.failNext = 0
	d.mu.Unlock()
	if fail != 0 {
		// let the probe started by this attempt finish before routeDial goes on (determinism)
		synctest.Wait()
		switch fail {
		case 1: // forces the dialer unavailable; routeDial retries once
			return nil, &net.OpError{Op: "dial", Net: network, Err: os.NewSyscallError("connect", syscall.ENETUNREACH)}
		case 2:
			return nil, &net.OpError{Op: "dial", Net: network, Err: os.NewSyscallError("connect", syscall.ECONNREFUSED)}
		default:
			return nil, &net.OpError{Op: "dial", Net: network, Err: os.ErrDeadlineExceeded}
		}
	}
	if d.ok != nil {
		*d.ok = true
	}
	return c18Conn{}, nil
}

func c18Group(log *logrus.Logger, name string, ds []*componentdialer.Dialer) *outbound.DialerGroup {
	ann := make([]*componentdialer.Annotation, len(ds))
	for i := range ann {
		ann[i] = &componentdialer.Annotation{}
	}
	return outbound.NewDialerGroup(
		&componentdialer.GlobalOption{Log: log, CheckInterval: time.Second},
		name,
		ds,
		ann,
		outbound.DialerSelectionPolicy{Policy: consts.DialerSelectionPolicy_Random},
		func(bool, *componentdialer.NetworkType, bool) {},
	)
}

// ---------------------------------------------------------------- generators

var c18Names = []string{
	"a.test", "www.example.com", "re.test", "x.re.test", "direct.test", "blk.example", "cdn.blk.net",
	"xn--fiqs8s.test", "a-b_c.test", "localhost", "t", "very.long.sub.domain.name.example.org",
}

var c18V6 = []string{
	"::", "::1", "1::", "2001:db8::1", "2606:4700:4700::1111", "fe80::1", "1:2:3:4:5:6:7:8", "::ffff:1.2.3.4",
	"::1.2.3.4", "64:ff9b::192.0.2.33", "1:2:3:4:5:6:1.2.3.4", "2001:DB8::A", "0:0:0:0:0:0:0:0", "1::8",
	"ffff:ffff:ffff:ffff:ffff:ffff:ffff:ffff", "1:0:0:2::3", "fe80::1%eth0", "::1%1",
}

var c18V4 = []string{"1.2.3.4", "0.0.0.0", "255.255.255.255", "10.0.0.1", "192.0.2.33", "8.8.8.8"}

var c18Near = []string{
	"[::1", "::1]", "a:b:c", ":443", "host:", "[]", "[]:80", "[[::1]]", "1.2.3", "1.2.3.4.5", "01.2.3.4",
	"256.1.1.1", "1.2.3.4.", ".1.2.3.4", ":::", "::1::", "1:2:3:4:5:6:7:8:9", "12345::", "::g", "::1%", "%eth0",
	"::1%]", "a]b", "a[b", "x|y", "1.2.3.4:", "[1.2.3.4]", "[1.2.3.4]:80", "[a.test]", "[a.test]:80", "a.test:80:90",
	"[::1]:80:90", "[::1]x:80", "[::1]:", "::1:80", "1:2:3:4:5:6:7::", "::2:3:4:5:6:7:8", "1:2:3:4:5:6:7:8::",
	"1::2::3", "1:2:3:4:5:1.2.3.4", "1:2:3:4:5:6:7:1.2.3.4", "::1.2.3", "::1.2.3.4.5", "::01.2.3.4", "1.2.3.4%eth0",
	"a.test\\.", "a.test\\\\.", ".", "..", "-", "a.test..", " a.test", "a.test ", "A.TEST.", "[", "]", ":", "::ffff:1.2.3.4:80",
	"[::ffff:1.2.3.4]:80", "[fe80::1%eth0]:80", "[fe80::1%eth0]", "fe80::1%]x", "[::1]]", "[[::1]", "0x1.2.3.4", "1.2.3.04", "1.2.3.00",
	"1.2.3.0", "00.1.2.3", "1.2.3.256", "1.2.3.4444", "abcd:12345::", "::abcde", "1:2", "1:2:", ":1:2", "a.test:0", "a.test:65536",
	"a.test:http", "a.test:", "%", "1.2.3.4%", "::%", ":%x", "::%%", "1::%25eth0",
}

const c18Alphabet = ".:[]%0123456789abcdefABCDEFgzGZ-_ \\|xn"

type c18Gen struct {
	r     *VRand
	stats *VStats
	ascii bool // restrict to bytes < 0x80
}

func (g *c18Gen) port() string {
	switch g.r.Intn(6) {
	case 0:
		return "443"
	case 1:
		return "80"
	case 2:
		return "0"
	case 3:
		return "65535"
	case 4:
		return "http"
	default:
		return strconv.Itoa(g.r.Intn(70000))
	}
}

func (g *c18Gen) caseVariant(s string) string {
	switch g.r.Intn(6) {
	case 0:
		return strings.ToUpper(s)
	case 1:
		return s + "."
	case 2:
		return strings.ToUpper(s) + "."
	case 3:
		b := []byte(s)
		for i := range b {
			if g.r.Bool() && b[i] >= 'a' && b[i] <= 'z' {
				b[i] -= 32
			}
		}
		return string(b)
	}
	return s
}

// a sniffed / raw string and its class label.
func (g *c18Gen) domain(pool []string) (string, string) {
	r := g.r
	name := func() string {
		if len(pool) > 0 && r.Chance(0.8) {
			return pool[r.Intn(len(pool))]
		}
		return c18Names[r.Intn(len(c18Names))]
	}
	switch r.Intn(16) {
	case 0:
		return "", "empty"
	case 1, 2, 3:
		return name(), "name"
	case 4:
		return g.caseVariant(name()), "name-variant"
	case 5:
		return g.caseVariant(name()) + ":" + g.port(), "name:port"
	case 6:
		return c18V4[r.Intn(len(c18V4))], "v4"
	case 7:
		return c18V4[r.Intn(len(c18V4))] + ":" + g.port(), "v4:port"
	case 8:
		return c18V6[r.Intn(len(c18V6))], "v6"
	case 9:
		return "[" + c18V6[r.Intn(len(c18V6))] + "]", "[v6]"
	case 10:
		return "[" + c18V6[r.Intn(len(c18V6))] + "]:" + g.port(), "[v6]:port"
	case 11:
		// random well-formed-ish v6 built from groups
		n := 1 + r.Intn(8)
		parts := make([]string, 0, 9)
		for i := 0; i < n; i++ {
			parts = append(parts, strconv.FormatUint(uint64(r.Intn(0x10000)>>uint(4*r.Intn(4))), 16))
		}
		s := strings.Join(parts, ":")
		if r.Chance(0.6) {
			k := r.Intn(len(parts) + 1)
			s = strings.Join(parts[:k], ":") + "::" + strings.Join(parts[k:], ":")
		}
		if r.Chance(0.2) {
			s += ":" + c18V4[r.Intn(len(c18V4))]
		}
		if r.Chance(0.3) {
			s = strings.ToUpper(s)
		}
		switch r.Intn(4) {
		case 0:
			s = "[" + s + "]"
		case 1:
			s = "[" + s + "]:" + g.port()
		}
		return s, "v6-built"
	case 12:
		return c18Near[r.Intn(len(c18Near))], "near-miss"
	case 13, 14:
		// one or two point mutations of a structured value
		base, _ := g.domain(pool)
		for base == "" {
			base, _ = g.domain(pool)
		}
		b := []byte(base)
		for k := 1 + r.Intn(2); k > 0 && len(b) > 0; k-- {
			i := r.Intn(len(b) + 1)
			c := c18Alphabet[r.Intn(len(c18Alphabet))]
			switch r.Intn(3) {
			case 0:
				b = append(b[:i], append([]byte{c}, b[i:]...)...)
			case 1:
				if i < len(b) {
					b = append(b[:i], b[i+1:]...)
				}
			default:
				if i < len(b) {
					b[i] = c
				}
			}
		}
		return string(b), "mutated"
	default:
		n := 1 + r.Intn(6)
		b := make([]byte, n)
		for i := range b {
			if g.ascii || r.Chance(0.7) {
				b[i] = c18Alphabet[r.Intn(len(c18Alphabet))]
			} else {
				b[i] = byte(r.Intn(256))
			}
		}
		s := string(b)
		if strings.ContainsAny(s, "\n\r") {
			s = strings.NewReplacer("\n", "n", "\r", "r").Replace(s)
		}
		return s, "random"
	}
}

func (g *c18Gen) dst() netip.AddrPort {
	r := g.r
	ports := []uint16{443, 80, 0, 1, 53, 65535, 8443}
	p := ports[r.Intn(len(ports))]
	if r.Chance(0.2) {
		p = uint16(r.Intn(65536))
	}
	var b16 [16]byte
	switch r.Intn(10) {
	case 0, 1, 2, 3:
		var b [4]byte
		v := uint32(r.U64())
		switch r.Intn(5) {
		case 0:
			v = 0
		case 1:
			v = 0xffffffff
		case 2:
			v = 0xC6336405 // 198.51.100.5: matched by the dip rule
		}
		b[0], b[1], b[2], b[3] = byte(v>>24), byte(v>>16), byte(v>>8), byte(v)
		return netip.AddrPortFrom(netip.AddrFrom4(b), p)
	case 4: // IPv4-mapped, kept in 16-byte form
		b16[10], b16[11] = 0xff, 0xff
		b16[12], b16[13], b16[14], b16[15] = byte(r.Intn(256)), byte(r.Intn(256)), byte(r.Intn(256)), byte(r.Intn(256))
	case 5: // zero runs: compression boundary cases
		for i := 0; i < 8; i++ {
			if r.Chance(0.45) {
				v := r.Intn(0x10000) >> uint(4*r.Intn(4))
				b16[2*i], b16[2*i+1] = byte(v>>8), byte(v)
			}
		}
	case 6:
		// all zero / loopback / all ones
		switch r.Intn(3) {
		case 1:
			b16[15] = 1
		case 2:
			for i := range b16 {
				b16[i] = 0xff
			}
		}
	default:
		for i := range b16 {
			b16[i] = byte(r.Intn(256))
		}
		if r.Chance(0.5) {
			copy(b16[:4], []byte{0x20, 0x01, 0x0d, 0xb8})
			for i := 4; i < 4+2*r.Intn(6); i++ {
				b16[i] = 0
			}
		}
	}
	return netip.AddrPortFrom(netip.AddrFrom16(b16), p)
}

var c18Outbounds = []int{0, 1, 2, 2, 3, 3, 4, 4, 7, 100, 0xFB, 0xFC, 0xFD, 0xFE, 0xFF}

var c18AnsToks = []string{"1000", "0100", "1100", "0000", "0010", "0001", "0011", "1011", "0000", "1000", "1000", "0100"}

// ---------------------------------------------------------------- the world under test

type c18World struct {
	cp      *ControlPlane
	ctrl    *DnsController
	script  map[string][]string // probe answers per name, one token per resolver
	probed  map[string]bool     // names for which a POSITIVE probe completed in this episode
	calls   int
	perRes  map[int]int   // resolver index -> calls during the current op
	hold    chan struct{} // non-nil: the first resolver call of a probe blocks until it is closed
	allOuts []*outbound.DialerGroup
	matcher *RoutingMatcher
	log     *logrus.Logger
	// probes whose resolvers do not answer until released (per name), and when each started
	holdNames map[string]chan struct{}
	heldStart map[string]time.Time
	heldOrder []string
	// fault injection into the DNS store's hooks
	failNewCache, failAccessCb bool
	// the kernel's conn_state_map (nil: bpf(2) unavailable)
	connMap *ebpf.Map
	core    *controlPlaneCore
}

// the design capacity of the verified-name filter (control_plane.go realDomainSetCapacity, model realCap)
const c18RealCap = 2048

func (w *c18World) reset() {
	w.ctrl = w.newCtrl()
	w.cp = w.newCP(w.ctrl, consts.DialMode_Ip, []netip.AddrPort{netip.MustParseAddrPort("10.0.0.1:53")})
	w.script = map[string][]string{}
	w.probed = map[string]bool{}
	w.perRes = map[int]int{}
	w.hold = nil
	w.holdNames = map[string]chan struct{}{}
	w.heldStart = map[string]time.Time{}
	w.heldOrder = nil
	w.failNewCache, w.failAccessCb = false, false
}

// one ControlPlane generation (the fields the dial decision reads; control_plane.go newControlPlaneWithContextOptions)
func (w *c18World) newCP(ctrl *DnsController, mode consts.DialMode, boots []netip.AddrPort) *ControlPlane {
	ctx, cancel := context.WithCancel(context.Background())
	cp := &ControlPlane{
		// the production constructor's filter
		realDomainSet: bloom.NewWithEstimates(c18RealCap, 0.001),
		log:           w.log,
		ctx:           ctx,
		cancel:        cancel,
		soMarkFromDae: 0x100,
		core:          w.core,
		controlPlaneGenerationState: controlPlaneGenerationState{
			dialMode:           mode,
			bootstrapResolvers: boots,
			outbounds:          w.allOuts,
			routingMatcher:     w.matcher,
		},
	}
	cp.dnsController = ctrl
	return cp
}

func c18Boots(n int) []netip.AddrPort {
	rs := make([]netip.AddrPort, n)
	for i := range rs {
		rs[i] = netip.AddrPortFrom(netip.AddrFrom4([4]byte{10, 0, 0, byte(i + 1)}), 53)
	}
	return rs
}

func (w *c18World) newCtrl() *DnsController {
	store := newDnsControllerStore()
	// no janitor / evictor goroutine is started for this store: Close must not wait for them
	store.janitorDone, store.evictorDone = nil, nil
	ctrl := &DnsController{dnsControllerStore: store}
	_ = ctrl.TryUpdateRuntime(w.dnsOption(), nil)
	return ctrl
}

func (w *c18World) dnsOption() *DnsControllerOption {
	return &DnsControllerOption{
		Log: w.log,
		// a fixed cache TTL changes Deadline only; knowledge must follow the ORIGINAL deadline
		FixedDomainTtl: map[string]int{"a.test": 1, "www.example.com": 3600, "re.test": 0},
		NewCache: func(fqdn string, answers, ns, extra []dnsmessage.RR, deadline, originalDeadline time.Time) (*DnsCache, error) {
			if w.failNewCache {
				return nil, errors.New("c18: injected NewCache failure")
			}
			return &DnsCache{Answer: answers, NS: ns, Extra: extra, Deadline: deadline, OriginalDeadline: originalDeadline}, nil
		},
		// production: BatchUpdateDomainRouting (a kernel map batch update, which can fail)
		CacheAccessCallback: func(*DnsCache) error {
			if w.failAccessCb {
				return errors.New("c18: injected BatchUpdateDomainRouting failure")
			}
			return nil
		},
		CacheDeleteCallback: func(string, *DnsCache) error {
			if w.failAccessCb {
				return errors.New("c18: injected BatchRemoveDomainRouting failure")
			}
			return nil
		},
	}
}

func (w *c18World) peekKnowledge(d string, dst netip.AddrPort) bool {
	qtype := dnsmessage.TypeAAAA
	if dst.Addr().Is4() {
		qtype = dnsmessage.TypeA
	}
	v, ok := w.ctrl.dnsKnowledge.Load(w.ctrl.cacheKey(d, qtype))
	if !ok {
		return false
	}
	e, _ := v.(int64)
	return e > time.Now().UnixNano()
}

func (w *c18World) peekNeg(d string) bool {
	v, ok := w.cp.realDomainNegSet.Load(d)
	if !ok {
		return false
	}
	e, _ := v.(int64)
	return time.Now().UnixNano() < e
}

func c18BuildMatcher(t *testing.T, log *logrus.Logger) *RoutingMatcher {
	dom := func(key, val, out string) *config_parser.RoutingRule {
		return &config_parser.RoutingRule{
			AndFunctions: []*config_parser.Function{{Name: consts.Function_Domain, Params: []*config_parser.Param{{Key: key, Val: val}}}},
			Outbound:     config_parser.Function{Name: out},
		}
	}
	marked := func(rr *config_parser.RoutingRule, mark string) *config_parser.RoutingRule {
		rr.Outbound.Params = []*config_parser.Param{{Key: consts.OutboundParam_Mark, Val: mark}}
		return rr
	}
	rules := []*config_parser.RoutingRule{
		// the routing answer carries a socket mark: after a re-route by name the dial must use it
		marked(dom("suffix", "re.test", "g2"), "0x77"),
		dom("full", "direct.test", "direct"),
		dom("keyword", "blk", "block"),
		// rules on the packet metadata chooseProxyDialer has to hand to Route unchanged
		{
			AndFunctions: []*config_parser.Function{{Name: consts.Function_Dscp, Params: []*config_parser.Param{{Val: "7"}}}},
			Outbound:     config_parser.Function{Name: "g3"},
		},
		{
			AndFunctions: []*config_parser.Function{{Name: consts.Function_ProcessName, Params: []*config_parser.Param{{Val: "curl"}}}},
			Outbound:     config_parser.Function{Name: "g2"},
		},
		{
			AndFunctions: []*config_parser.Function{{Name: consts.Function_Mac, Params: []*config_parser.Param{{Val: "02:00:00:00:00:01"}}}},
			Outbound:     config_parser.Function{Name: "direct"},
		},
		// the transport protocol handed to Route (chooseProxyDialer: "udp" -> UDP, anything else TCP)
		{
			AndFunctions: []*config_parser.Function{
				{Name: consts.Function_L4Proto, Params: []*config_parser.Param{{Val: "udp"}}},
				{Name: consts.Function_Port, Params: []*config_parser.Param{{Val: "8443"}}},
			},
			Outbound: config_parser.Function{Name: "g2"},
		},
		marked(&config_parser.RoutingRule{
			AndFunctions: []*config_parser.Function{{Name: consts.Function_Ip, Params: []*config_parser.Param{{Val: "198.51.100.0/24"}}}},
			Outbound:     config_parser.Function{Name: "g3"},
		}, "9"),
	}
	b, err := NewRoutingMatcherBuilder(log, rules, map[string]uint8{"direct": 0, "block": 1, "g2": 2, "g3": 3, "g4": 4}, nil, config.FunctionOrString("g4"))
	if err != nil {
		t.Fatalf("matcher builder: %v", err)
	}
	m, err := b.BuildUserspace()
	if err != nil {
		t.Fatalf("BuildUserspace: %v", err)
	}
	return m
}

func c18Mode(m string) consts.DialMode {
	dm, err := consts.ParseDialMode(m)
	if err != nil {
		panic(err)
	}
	return dm
}

func c18WellFormed(target string) bool {
	_, _, err := net.SplitHostPort(target)
	return err == nil
}

// NewVRand(seed) starts the splitmix counter at seed*gamma+c, i.e. seed k+1 is seed k shifted by one
// draw and the two streams re-align after a few variable-length generator calls.  Scramble the
// seed so that different seeds start 2^40+ draws apart.
func c18MixSeed(seed uint64) uint64 {
	z := seed*0xD6E8FEB86659FD93 + 0xC18C18C18
	z = (z ^ (z >> 30)) * 0xBF58476D1CE4E5B9
	z = (z ^ (z >> 27)) * 0x94D049BB133111EB
	return z ^ (z >> 31)
}

// packet metadata the matcher has rules on
func c18GenMeta(r *VRand, meta *proxyDialParam) string {
	switch r.Intn(3) {
	case 0:
		meta.Dscp = 7
		return "m=dscp7"
	case 1:
		copy(meta.ProcessName[:], "curl")
		return "m=curl"
	default:
		meta.Mac = [6]uint8{2, 0, 0, 0, 0, 1}
		return "m=mac"
	}
}

// the sequence of (group, address) handed to node dialers, the socket mark of the last dial; an immediate
// repeat of the same dial without an injected failure (e.g. a dual-stack dial) is not a difference
func c18FmtDials(dialLog []string, injected bool, res *proxyDialResult, err error, probed bool) string {
	var parts []string
	for i, e := range dialLog {
		if i > 0 && !injected && e == dialLog[i-1] {
			continue
		}
		p := strings.SplitN(e, "|", 3)
		parts = append(parts, fmt.Sprintf("ob=%s t=%s", p[0], c18Hex(p[2])))
	}
	if err != nil {
		parts = append(parts, "err")
		return strings.Join(parts, " ; ") // whether a probe was started is not compared when the dial fails anyway
	}
	if len(dialLog) == 0 {
		return "no-dial-recorded"
	}
	last := strings.SplitN(dialLog[len(dialLog)-1], "|", 3)
	if res != nil {
		if last[2] != res.DialTarget {
			return "dialed-address-differs-from-DialTarget"
		}
		parts[len(parts)-1] += " ip=" + c18Bool(res.IsDialIp)
	}
	parts[len(parts)-1] += " mk=" + last[1]
	return strings.Join(parts, " ; ") + " probe=" + c18Bool(probed)
}

func TestVerifC18(t *testing.T) {
	r := NewVRand(c18MixSeed(VSeed()))
	stats := NewVStats()
	st := VOpenStream("c18")
	defer func() { st.Close(); stats.Write("c18") }()
	log := logrus.New()
	log.SetOutput(io.Discard)
	log.SetLevel(logrus.PanicLevel)
	gen := &c18Gen{r: r, stats: stats}
	genA := &c18Gen{r: r, stats: stats, ascii: true}

	// ------------------------------------------------ stateless functions
	for n := 0; n < 256; n++ {
		st.Emit(fmt.Sprintf("resv %d", n), c18Bool(consts.OutboundIndex(n).IsReserved()))
	}
	nPure := 20000
	if VThorough() {
		nPure = 400000
	}
	emitPure := func(s, class string) {
		stats.Inc("pure.class." + class)
		h := c18Hex(s)
		st.Emit("pa "+h, VRecover(func() string { _, err := netip.ParseAddr(s); return c18Bool(err == nil) }))
		st.Emit("shp "+h, VRecover(func() string {
			ho, po, err := net.SplitHostPort(s)
			if err != nil {
				return "none"
			}
			return "h=" + c18Hex(ho) + " p=" + c18Hex(po)
		}))
		st.Emit("iplike "+h, VRecover(func() string { return c18Bool(isIPLikeDomain(s)) }))
	}
	for _, s := range c18Near {
		emitPure(s, "near-miss")
	}
	for _, s := range c18V6 {
		emitPure(s, "v6")
		emitPure("["+s+"]", "[v6]")
		emitPure("["+s+"]:443", "[v6]:port")
	}
	for i := 0; i < nPure; i++ {
		s, class := gen.domain(nil)
		emitPure(s, class)
		if i%4 == 0 {
			a, classA := genA.domain(nil)
			if r.Chance(0.3) {
				a = []string{" ", "\t", "  ", "\r\n"}[r.Intn(4)] + a
			}
			if r.Chance(0.3) {
				a += []string{" ", "\t", "\n", " \v\f"}[r.Intn(4)]
			}
			stats.Inc("norm.class." + classA)
			st.Emit("norm "+c18Hex(a), VRecover(func() string { return c18Hex(sniffing.NormalizeDomain(a)) }))
			st.Emit("canon "+c18Hex(a), VRecover(func() string { return c18Hex(dnsmessage.CanonicalName(a)) }))
		}
		if i%8 == 0 {
			h, _ := gen.domain(nil)
			p := gen.port()
			st.Emit("jhp "+c18Hex(h)+" "+c18Hex(p), c18Hex(net.JoinHostPort(h, p)))
		}
		if i%2 == 0 {
			d := gen.dst()
			st.Emit("ap "+c18DstTok(d), c18Hex(d.String()))
		}
	}

	// ------------------------------------------------ stateful world (virtual time)
	w := &c18World{log: log}
	var dialLog []string
	var dialAt []time.Time
	dialOK := false
	failNext := 0
	// two interchangeable node dialers per group: after a forced-unavailable report the retry of
	// routeDial finds the other one.  Rebuilt after every injected failure (fresh health state).
	buildGroups := func() {
		w.allOuts = w.allOuts[:0]
		for i := 0; i < 5; i++ {
			var ds []*componentdialer.Dialer
			for j := 0; j < 2; j++ {
				ds = append(ds, componentdialer.NewDialer(&c18RecDialer{tag: i, log: &dialLog, failNext: &failNext, at: &dialAt, ok: &dialOK},
					&componentdialer.GlobalOption{Log: log, CheckInterval: time.Second},
					componentdialer.InstanceOption{DisableCheck: true}, &componentdialer.Property{}))
			}
			w.allOuts = append(w.allOuts, c18Group(log, fmt.Sprintf("g%d", i), ds))
		}
	}
	buildGroups()
	w.matcher = c18BuildMatcher(t, log)

	oldResolver := resolveIp46ForRealDomainProbe
	defer func() { resolveIp46ForRealDomainProbe = oldResolver }()
	resolveIp46ForRealDomainProbe = func(ctx context.Context, _ netproxy.Dialer, dns netip.AddrPort, host string, network string, race bool) (*netutils.Ip46, error, error) {
		w.calls++
		idx := int(dns.Addr().As4()[3]) - 1
		w.perRes[idx]++
		if h := w.hold; h != nil {
			<-h // the probe stays in flight until the harness releases it
		}
		if h := w.holdNames[host]; h != nil {
			// this name's resolvers do not answer until the harness releases them — or the probe's own
			// context (realDomainProbeTimeout, generation cancel) ends first, as a real lookup would
			select {
			case <-h:
			case <-ctx.Done():
				return &netutils.Ip46{}, ctx.Err(), ctx.Err()
			}
		}
		toks := w.script[host]
		tok := "0011"
		if idx >= 0 && idx < len(toks) {
			tok = toks[idx]
		}
		if tok == "T" {
			// the resolver does not answer: the REAL probe context (realDomainProbeTimeout) expires
			<-ctx.Done()
			return &netutils.Ip46{}, ctx.Err(), ctx.Err()
		}
		res := &netutils.Ip46{}
		if tok[0] == '1' {
			res.Ip4 = netip.MustParseAddr("93.184.216.34")
		}
		if tok[1] == '1' {
			res.Ip6 = netip.MustParseAddr("2606:2800:220:1::1")
		}
		var e4, e6 error
		if tok[2] == '1' {
			e4 = io.ErrUnexpectedEOF
		}
		if tok[3] == '1' {
			e6 = io.ErrUnexpectedEOF
		}
		if tok[0] == '1' || tok[1] == '1' {
			w.probed[host] = true // some resolver answered this exact string with an address
		}
		return res, e4, e6
	}

	nEpisodes := 1500
	if VThorough() {
		nEpisodes = 32000
	}
	modes := []string{"ip", "domain", "domain", "domain", "domain+", "domain++"}
	src := netip.MustParseAddrPort("192.0.2.10:12345")

	// tunables the property does not fix, read from the running code and handed to the driver
	var exPorts []int
	for p := range tcpSniffingExcludedPorts {
		exPorts = append(exPorts, int(p))
	}
	sort.Ints(exPorts)
	exToks := make([]string, len(exPorts))
	for i, p := range exPorts {
		exToks[i] = strconv.Itoa(p)
	}
	tunLine := fmt.Sprintf("tun %d %d %s %d %d", tcpSniffFailureThreshold, int64(tcpSniffNegativeCacheTTL), strings.Join(exToks, ","),
		0x100, int64(tcpRoutingLookupRetryAttempts-1)*int64(tcpRoutingLookupRetryDelay))
	// the kernel's conn_state_map as a real kernel hash map (handleConn reads the flow's routing tuple from it)
	if m := c18NewConnStateMap(); m != nil {
		defer m.Close()
		objs := &bpfObjects{}
		objs.ConnStateMap = m
		core := &controlPlaneCore{}
		core.bpf.Store(objs)
		w.connMap, w.core = m, core
		stats.Inc("conn.kernel-map-available")
	}

	synctest.Test(t, func(t *testing.T) {
		// ---- saturation episode: many names verified by positive probes (real probeAndUpdateRealDomain).
		// Deterministic oracle: the filter never holds more set bits than c18RealCap insertions can set
		// (a filter that is only ever added to ends up accepting every name, see known finding
		// c18-real-domain-bloom-saturates); the number of times it was cleared is compared with the model.
		{
			w.reset()
			w.cp.dialMode = consts.DialMode_Domain
			n := 3*c18RealCap + 100
			stats.Inc("op.sat")
			st.Emit(fmt.Sprintf("sat %d", n), VRecover(func() string {
				bounded, clears := true, 0
				limit := uint(c18RealCap) * w.cp.realDomainSet.K()
				prev := uint(0)
				for i := 0; i < n; i++ {
					name := fmt.Sprintf("sat-%d.test", i)
					w.script[name] = []string{"1000"}
					w.cp.probeAndUpdateRealDomain(name)
					cnt := w.cp.realDomainSet.BitSet().Count()
					if cnt > limit {
						bounded = false
					}
					if cnt < prev {
						clears++
					}
					prev = cnt
				}
				out := fmt.Sprintf("bounded=%s clears=%d", c18Bool(bounded), clears)
				if !bounded {
					out += " ORACLE:verified-name-filter-holds-more-than-its-design-capacity"
				}
				return out
			}))
			w.cp.cancel()
		}
		for ep := 0; ep < nEpisodes; ep++ {
			w.reset()
			// tunables the property does not fix are taken from the running code
			st.Emit(fmt.Sprintf("reset %d %d", int64(realDomainNegativeCacheTTL), minFirefoxCacheTtl), "ok")
			st.Emit(tunLine, "ok")
			mode := modes[r.Intn(len(modes))]
			setMode := func(m string) {
				mode = m
				w.cp.dialMode = c18Mode(m)
				st.Emit("mode "+m, "ok")
			}
			setMode(mode)
			nboot := []int{1, 1, 2, 3, 0}[r.Intn(5)]
			w.cp.bootstrapResolvers = c18Boots(nboot)
			st.Emit(fmt.Sprintf("boot %d", nboot), "ok")

			// the names this episode plays with
			pool := make([]string, 0, 5)
			for i := 0; i < 2+r.Intn(4); i++ {
				pool = append(pool, c18Names[r.Intn(len(c18Names))])
			}
			var keys []string
			answers := func(name string) []string {
				a := make([]string, nboot)
				for i := range a {
					a[i] = c18AnsToks[r.Intn(len(c18AnsToks))]
					if r.Chance(0.04) && len(w.heldOrder) == 0 {
						a[i] = "T" // (not while another probe is held: its context would expire as well)
					}
				}
				w.script[name] = a
				return a
			}
			if mode == "domain" || r.Chance(0.3) {
				for _, host := range pool {
					if !r.Chance(0.6) {
						continue
					}
					is4 := r.Chance(0.5)
					qtype, fam := dnsmessage.TypeAAAA, "28"
					if is4 {
						qtype, fam = dnsmessage.TypeA, "1"
					}
					ttl := []int{2, 5, 30, 600}[r.Intn(4)]
					fq := dnsmessage.CanonicalName(host)
					ans := []dnsmessage.RR{&dnsmessage.A{Hdr: dnsmessage.RR_Header{Name: fq, Rrtype: dnsmessage.TypeA, Class: dnsmessage.ClassINET, Ttl: 0}, A: net.IPv4(93, 184, 216, 34)}}
					stats.Inc("op.dns")
					st.Emit(fmt.Sprintf("dns %s %s %d -", c18Hex(host), fam, int64(ttl)*1e9), VRecover(func() string {
						if err := w.ctrl.UpdateDnsCacheTtl(host, qtype, ans, nil, nil, ttl); err != nil {
							return "err:" + err.Error()
						}
						keys = append(keys, w.ctrl.cacheKey(fq, qtype))
						return "ok"
					}))
				}
			}
			// wait for the asynchronous probe; a resolver scripted "T" only returns when the real probe
			// context (realDomainProbeTimeout) expires, so virtual time has to pass
			hasT := func(ans []string) bool {
				for _, a := range ans {
					if a == "T" {
						return true
					}
				}
				return false
			}
			settle := func(ans []string) {
				synctest.Wait()
				if hasT(ans) {
					time.Sleep(realDomainProbeTimeout + 100*time.Millisecond)
					synctest.Wait()
				}
			}
			afterT := func(ans []string) {
				if hasT(ans) {
					stats.Inc("probe.timeout-scripted")
					st.Emit(fmt.Sprintf("adv %d", int64(realDomainProbeTimeout+100*time.Millisecond)), "ok")
				}
			}
			// ---- probes held in their resolver call
			var heldBudget time.Duration // virtual time that may still pass before the oldest held probe's context expires
			dropHeld := func(name string) {
				delete(w.holdNames, name)
				delete(w.heldStart, name)
				for i, n := range w.heldOrder {
					if n == name {
						w.heldOrder = append(w.heldOrder[:i], w.heldOrder[i+1:]...)
						break
					}
				}
			}
			releaseHeld := func(name string) {
				ans := answers(name)
				stats.Inc("op.rel")
				if time.Since(w.heldStart[name]) > 0 {
					stats.Inc("op.rel.after-time-passed")
				}
				st.Emit(strings.TrimRight(fmt.Sprintf("rel %s %s", c18Hex(name), strings.Join(ans, " ")), " "), VRecover(func() string {
					ch := w.holdNames[name]
					dropHeld(name)
					close(ch)
					synctest.Wait()
					return "ok"
				}))
			}
			expireHeld := func() {
				// the probes' own context (realDomainProbeTimeout) expires: both lookups fail, nothing is cached
				stats.Inc("op.held-expired")
				time.Sleep(realDomainProbeTimeout)
				synctest.Wait()
				st.Emit(fmt.Sprintf("adv %d", int64(realDomainProbeTimeout)), "ok")
				for len(w.heldOrder) > 0 {
					name := w.heldOrder[0]
					dropHeld(name)
					st.Emit("relx "+c18Hex(name), "ok")
				}
			}
			// ---- whole connections (handleConn)
			connDsts := []netip.AddrPort{gen.dst(), gen.dst()}
			for i := range connDsts {
				if p := connDsts[i].Port(); p == 53 || tcpSniffingExcludedPorts[p] {
					connDsts[i] = netip.AddrPortFrom(connDsts[i].Addr(), 443)
				}
			}
			doConn := func(dst netip.AddrPort, kind string, kob int, metaTok string, meta proxyDialParam, fail int, sniffOn bool) {
				if w.connMap == nil {
					kob = -1
				}
				if kob < 0 {
					// no routing tuple: handleConn falls back to an all-zero routing result with OutboundControlPlaneRouting
					metaTok, meta = "m=-", proxyDialParam{}
				}
				ob := kob
				if kob < 0 {
					ob = int(consts.OutboundControlPlaneRouting)
				}
				// `dst` = the socket's local address as the kernel reports it (possibly IPv4-mapped); handleConn works
				// with the converged address
				local := dst
				dst = netip.AddrPortFrom(local.Addr().Unmap(), local.Port())
				raw, class := genA.domain(pool)
				if mode != "ip" && r.Chance(0.4) {
					raw, class = pool[r.Intn(len(pool))], "name"
				}
				raw = strings.NewReplacer("\r", "r", "\n", "n").Replace(raw)
				var payload []byte
				switch kind {
				case "http":
					if r.Chance(0.3) {
						raw = []string{" ", "\t", "  "}[r.Intn(3)] + raw
					}
					if r.Chance(0.3) {
						raw += []string{" ", "\t", " \t "}[r.Intn(3)]
					}
					payload = c18HTTPHead([]string{"GET", "POST", "HEAD"}[r.Intn(3)], true, raw)
				case "httpnohost":
					raw, payload = "", c18HTTPHead("GET", false, "")
				case "tls":
					if len(raw) > 250 {
						raw = raw[:250]
					}
					payload = c18ClientHello(true, raw, byte(r.Intn(256)))
				case "tlsnosni":
					raw, payload = "", c18ClientHello(false, "", byte(r.Intn(256)))
				case "opaque":
					raw, payload = "", []byte("SSH-2.0-OpenSSH_9.6 c18\r\n")
				default: // silent
					raw = ""
				}
				tmo := 100 * time.Millisecond
				if !sniffOn {
					tmo = 0 // sniffing disabled (what the constructor sets for dial_mode ip)
				}
				// the harness's prediction of the sniffed name (the REAL sniffer on the same bytes): only used to
				// ask the REAL Route for its answers with and without that name, and to script the probe
				sd, sniffable := c18SniffBytes(payload)
				mapped := local.Addr().Is4In6() || (local.Addr().Is4() && r.Chance(0.3))
				locTok := c18DstTok(local)
				if mapped {
					b := local.Addr().As16()
					locTok = fmt.Sprintf("6:%s:%d", hex.EncodeToString(b[:]), local.Port())
				}
				nOut := []int{5, 5, 5, 5, 5, 5, 4, 3}[r.Intn(8)]
				if mode == "domain" {
					nOut = 5
				}
				w.cp.outbounds = w.allOuts[:nOut]
				rr := &bpfRoutingResult{Outbound: uint8(ob), Mac: meta.Mac, Pname: meta.ProcessName, Dscp: meta.Dscp, Mark: meta.Mark}
				routeTok := func(name string) (string, uint32) {
					var mk uint32
					tok := VRecover(func() string {
						o, m, _, err := w.cp.Route(src, dst, name, consts.L4ProtoType_TCP, rr)
						if err != nil {
							return "err"
						}
						mk = m
						return strconv.Itoa(int(o))
					})
					if strings.HasPrefix(tok, "crash:") {
						tok = "err"
					}
					return tok, mk
				}
				rt0, rm0 := routeTok("")
				rt1, rm1 := routeTok(sd)
				ans := answers(sd)
				for i := range ans {
					if ans[i] == "T" {
						ans[i] = "0011"
					}
				}
				w.script[sd] = ans
				kobTok := "-"
				if kob >= 0 {
					kobTok = strconv.Itoa(kob)
				}
				failTok := strconv.Itoa(fail)
				stats.Inc("conn.kind." + kind)
				stats.Inc("conn.mode." + mode)
				stats.Inc("conn.class." + class)
				if kob < 0 {
					stats.Inc("conn.tuple-missing")
				} else {
					stats.Inc("conn.kernel-tuple")
				}
				if mapped {
					stats.Inc("conn.local-addr-ipv4-mapped")
				}
				// read-only look at the sniff negative cache: is sniffing suppressed for this flow signature?
				if e, ok := w.cp.tcpSniffNegSet[newTcpSniffNegKey(dst, rr)]; ok && e.failures >= tcpSniffFailureThreshold && e.expiresAtUnixNano > time.Now().UnixNano() {
					stats.Inc("conn.sniff-suppressed")
					if sniffable && sd != "" {
						stats.Inc("conn.sniff-suppressed.sniffable-payload")
					}
				}
				op := fmt.Sprintf("conn %s %s %s %s %d %s %s %d %d %d %s %s/%d/0 %s", kobTok, locTok, kind, c18Hex(raw), int64(tmo), rt0, rt1, rm0, rm1,
					nOut, failTok, metaTok, meta.Mark, strings.Join(ans, " "))
				var elapsed time.Duration
				st.Emit(strings.TrimRight(op, " "), VRecover(func() string {
					w.calls = 0
					dialLog, dialAt = dialLog[:0], dialAt[:0]
					dialOK = false
					failNext = fail
					w.cp.sniffingTimeout = tmo
					if kob >= 0 {
						if err := c18PutTuple(w.connMap, src, dst, c18Tuple{outbound: uint8(kob), mark: meta.Mark, dscp: meta.Dscp, mac: meta.Mac, pname: meta.ProcessName}); err != nil {
							return "harness:conn_state_map put: " + err.Error()
						}
						defer c18DelTuple(w.connMap, src, dst)
					}
					cl, srv := net.Pipe()
					lConn := &c18PipeConn{Conn: srv, local: c18TCPAddr(dst, mapped), remote: c18TCPAddr(src, false)}
					t0 := time.Now()
					go func() {
						if len(payload) > 0 {
							_, _ = cl.Write(payload)
						}
						time.Sleep(tmo + time.Second)
						_ = cl.Close()
					}()
					herr := w.cp.handleConn(context.Background(), lConn)
					if herr != nil && len(dialLog) == 0 && os.Getenv("C18X_DEBUG") != "" {
						fmt.Fprintln(os.Stderr, "C18X handleConn:", herr)
					}
					failNext = 0
					settle(ans)
					// let the client side finish (its linger is virtual time)
					time.Sleep(tmo + 2*time.Second)
					synctest.Wait()
					elapsed = time.Since(t0)
					if fail == 1 {
						buildGroups()
					}
					var derr error
					if !dialOK {
						derr = errors.New("no dial succeeded")
					}
					if len(dialLog) > 0 {
						p := strings.SplitN(dialLog[len(dialLog)-1], "|", 3)
						if p[2] != dst.String() {
							stats.Inc("conn.result.name-dialled")
						}
						if p[0] != kobTok {
							stats.Inc("conn.result.routed-in-userspace")
						}
					}
					out := c18FmtDials(dialLog, fail != 0, nil, derr, w.calls > 0)
					if len(dialAt) > 0 {
						out += fmt.Sprintf(" at=%d", int64(dialAt[0].Sub(t0)))
					}
					// implementation-side oracles (no model)
					if (mode == "ip" || !sniffOn || kob == 0 || kob == 1) && len(dialLog) > 0 {
						for _, e := range dialLog {
							if p := strings.SplitN(e, "|", 3); p[2] != dst.String() {
								out += " ORACLE:name-dialled-on-a-connection-that-must-use-the-ip"
								break
							}
						}
					}
					return out
				}))
				st.Emit(fmt.Sprintf("connend %d", int64(elapsed)), "ok")
			}
			if ep%8 == 0 {
				// directed scenario (known finding c18-pipe-in-qname-crosses-knowledge-family, fixed in 4e63a53): one
				// NOERROR response for "<victim>.1|x.attacker.example." must not make <victim> genuine
				victim := fmt.Sprintf("never-resolved-%d.invalid", ep) // never resolved, never probed positively
				setMode("domain")
				q := dnsmessage.Question{Name: victim + ".1|x.attacker.example.", Qtype: dnsmessage.TypeA, Qclass: dnsmessage.ClassINET}
				key := w.ctrl.responseCacheKey(w.ctrl.questionCacheKey(q), &udpRequest{realDst: netip.MustParseAddrPort("8.8.8.8:53")}, consts.DnsRequestOutboundIndex_AsIs, nil)
				msg := &dnsmessage.Msg{MsgHdr: dnsmessage.MsgHdr{Response: true, Rcode: dnsmessage.RcodeSuccess}, Question: []dnsmessage.Question{q},
					Answer: []dnsmessage.RR{&dnsmessage.A{Hdr: dnsmessage.RR_Header{Name: q.Name, Rrtype: dnsmessage.TypeA, Class: dnsmessage.ClassINET, Ttl: 600}, A: net.IPv4(198, 51, 100, 1)}}}
				stats.Inc("op.pipe-scenario")
				st.Emit(fmt.Sprintf("dnsresp 1 1 1 %s 1 600 %s", c18Hex(q.Name), c18Hex(key)), VRecover(func() string {
					if err := w.ctrl.NormalizeAndCacheDnsResp_(msg, key); err != nil {
						return "err:" + err.Error()
					}
					keys = append(keys, key)
					return "ok"
				}))
				dstV := netip.MustParseAddrPort("203.0.113.9:443")
				ansV := answers(victim)
				for i := range ansV {
					ansV[i] = "0011"
				}
				w.script[victim] = ansV
				st.Emit(strings.TrimRight(fmt.Sprintf("cdt 2 %s %s %s", c18DstTok(dstV), c18Hex(victim), strings.Join(ansV, " ")), " "), VRecover(func() string {
					w.calls = 0
					target, reroute, dialIp := w.cp.ChooseDialTarget(2, dstV, victim)
					settle(ansV)
					out := fmt.Sprintf("t=%s rr=%s ip=%s probe=%s", c18Hex(target), c18Bool(reroute), c18Bool(dialIp), c18Bool(w.calls > 0))
					if target != dstV.String() {
						out += " ORACLE:a-question-name-with-bar-made-another-name-genuine"
					}
					return out
				}))
			}
			if ep%8 == 3 && nboot > 0 {
				// directed scenario: a probe that takes a while. The negative entry is stamped from the probe's START
				// (probeAndUpdateRealDomain takes `now` before the lookups): it ends exactly realDomainNegativeCacheTTL after
				// the start, not after the completion.
				name := fmt.Sprintf("slow-probe-%d.invalid", ep)
				setMode("domain")
				dstS := netip.MustParseAddrPort("203.0.113.10:443")
				w.holdNames[name] = make(chan struct{})
				stats.Inc("op.slow-probe-scenario")
				st.Emit(fmt.Sprintf("cdth 2 %s %s", c18DstTok(dstS), c18Hex(name)), VRecover(func() string {
					w.calls = 0
					target, reroute, dialIp := w.cp.ChooseDialTarget(2, dstS, name)
					synctest.Wait()
					started := w.calls > 0
					if started {
						w.heldStart[name] = time.Now()
						w.heldOrder = append(w.heldOrder, name)
					} else {
						delete(w.holdNames, name)
					}
					return fmt.Sprintf("t=%s rr=%s ip=%s started=%s", c18Hex(target), c18Bool(reroute), c18Bool(dialIp), c18Bool(started))
				}))
				if len(w.heldOrder) == 1 {
					took := []time.Duration{time.Millisecond, 100 * time.Millisecond, realDomainProbeTimeout - time.Millisecond}[r.Intn(3)]
					time.Sleep(took)
					st.Emit(fmt.Sprintf("adv %d", int64(took)), "ok")
					ansS := make([]string, nboot)
					for i := range ansS {
						ansS[i] = "0000" // no address, no error: "no such name"
					}
					w.script[name] = ansS
					st.Emit(fmt.Sprintf("rel %s %s", c18Hex(name), strings.Join(ansS, " ")), VRecover(func() string {
						ch := w.holdNames[name]
						dropHeld(name)
						close(ch)
						synctest.Wait()
						return "ok"
					}))
					rest := realDomainNegativeCacheTTL - took
					for _, step := range []time.Duration{rest - 1, 1} {
						time.Sleep(step)
						st.Emit(fmt.Sprintf("adv %d", int64(step)), "ok")
						st.Emit("look "+c18Hex(name), VRecover(func() string {
							k, re := w.cp.lookupRealDomainCache(name)
							return "known=" + c18Bool(k) + " real=" + c18Bool(re)
						}))
					}
				}
			}
			nOps := 14 + r.Intn(34)
			for k := 0; k < nOps; k++ {
				// probes held in their resolver call: release one, or let their context expire
				if len(w.heldOrder) > 0 {
					switch {
					case r.Chance(0.3):
						releaseHeld(w.heldOrder[0])
					case r.Chance(0.06):
						expireHeld()
					}
				}
				switch c := r.Intn(31) - 4; {
				case c < -2: // a DNS response as it arrives from the upstream (gate of NormalizeAndCacheDnsResp_)
					host := pool[r.Intn(len(pool))]
					if r.Chance(0.2) {
						host = genA.caseVariant(host)
					}
					if r.Chance(0.15) { // '|' is a legal byte of a label: such a name must stay in its own key family
						host += []string{".1|x.zone.test", ".28|x.zone.test", "|b.test", ".1|"}[r.Intn(4)]
						stats.Inc("op.dnsresp.name-with-bar")
					}
					qname := dnsmessage.Fqdn(host)
					qtype := []uint16{dnsmessage.TypeA, dnsmessage.TypeA, dnsmessage.TypeAAAA, dnsmessage.TypeAAAA, dnsmessage.TypeHTTPS, dnsmessage.TypeTXT}[r.Intn(6)]
					isResp, hasQ := !r.Chance(0.08), !r.Chance(0.08)
					rcode := []int{dnsmessage.RcodeSuccess, dnsmessage.RcodeSuccess, dnsmessage.RcodeSuccess, dnsmessage.RcodeNameError, dnsmessage.RcodeServerFailure, dnsmessage.RcodeRefused}[r.Intn(6)]
					ttlTok := "-"
					msg := &dnsmessage.Msg{MsgHdr: dnsmessage.MsgHdr{Response: isResp, Rcode: rcode}}
					if hasQ {
						msg.Question = []dnsmessage.Question{{Name: qname, Qtype: qtype, Qclass: dnsmessage.ClassINET}}
					}
					if r.Chance(0.65) { // with answers; otherwise NODATA / NXDOMAIN shape
						ttl := []uint32{0, 1, 2, 30, 600, 31536000, 31536001, 4000000000}[r.Intn(8)]
						ttl2 := []uint32{7, 7, 0, 600, 4000000000, 31536001}[r.Intn(6)]
						// every answer TTL goes to the model: the entry lives as long as its shortest-lived record
						ttlTok = strconv.FormatUint(uint64(ttl), 10) + "," + strconv.FormatUint(uint64(ttl2), 10)
						if ttl2 < ttl {
							stats.Inc("op.dnsresp.later-record-shorter")
						}
						msg.Answer = []dnsmessage.RR{
							&dnsmessage.A{Hdr: dnsmessage.RR_Header{Name: qname, Rrtype: dnsmessage.TypeA, Class: dnsmessage.ClassINET, Ttl: ttl}, A: net.IPv4(93, 184, 216, 34)},
							&dnsmessage.A{Hdr: dnsmessage.RR_Header{Name: qname, Rrtype: dnsmessage.TypeA, Class: dnsmessage.ClassINET, Ttl: ttl2}, A: net.IPv4(93, 184, 216, 35)},
						}
					}
					key := ""
					if r.Chance(0.5) {
						// the key the production DNS path builds (questionCacheKey -> responseCacheKey)
						key = w.ctrl.responseCacheKey(w.ctrl.questionCacheKey(dnsmessage.Question{Name: qname, Qtype: qtype, Qclass: dnsmessage.ClassINET}),
							&udpRequest{realDst: netip.MustParseAddrPort([]string{"1.1.1.1:53", "8.8.8.8:53"}[r.Intn(2)])}, consts.DnsRequestOutboundIndex_AsIs, nil)
					}
					stats.Inc("op.dnsresp")
					if rcode == dnsmessage.RcodeSuccess && len(msg.Answer) == 0 && isResp && hasQ {
						stats.Inc("op.dnsresp.nodata")
					}
					if rcode != dnsmessage.RcodeSuccess {
						stats.Inc("op.dnsresp.error-rcode")
					}
					op := fmt.Sprintf("dnsresp %s %s %s %s %d %s %s", c18Bool(isResp), c18Bool(hasQ), c18Bool(rcode == dnsmessage.RcodeSuccess), c18Hex(qname), qtype, ttlTok, c18Hex(key))
					fault := 0
					if r.Chance(0.12) {
						fault = 1 + r.Intn(2)
						op += fmt.Sprintf(" f%d", fault)
						stats.Inc(fmt.Sprintf("op.dnsresp.fault%d", fault))
					}
					st.Emit(op, VRecover(func() string {
						n0 := 0
						w.ctrl.dnsCache.Range(func(_, _ any) bool { n0++; return true })
						_, had := w.ctrl.dnsCache.Load(key)
						if key == "" {
							_, had = w.ctrl.dnsCache.Load(w.ctrl.cacheKey(strings.ToLower(qname), qtype))
						}
						w.failNewCache, w.failAccessCb = fault == 1, fault == 2
						err := w.ctrl.NormalizeAndCacheDnsResp_(msg, key)
						w.failNewCache, w.failAccessCb = false, false
						gated := !isResp || !hasQ || rcode != dnsmessage.RcodeSuccess
						if err != nil && (fault == 0 || gated) {
							return "err:" + err.Error()
						}
						if fault != 0 && !gated {
							if err == nil {
								return "injected-fault-not-reported"
							}
							if fault == 2 {
								usedKey := key
								if usedKey == "" {
									usedKey = w.ctrl.cacheKey(strings.ToLower(qname), qtype)
								}
								keys = append(keys, usedKey)
							}
							return "err"
						}
						if !isResp || !hasQ || rcode != dnsmessage.RcodeSuccess {
							n1 := 0
							w.ctrl.dnsCache.Range(func(_, _ any) bool { n1++; return true })
							if n1 != n0 {
								return "skip-but-cache-changed"
							}
							return "skip"
						}
						_ = had
						usedKey := key
						if usedKey == "" {
							usedKey = w.ctrl.cacheKey(strings.ToLower(qname), qtype)
						}
						keys = append(keys, usedKey)
						// implementation-side oracle (no model): a response cached through the production key
						// shape is a resolution of ITS OWN (name, type): its knowledge entry exists right away
						if _, known := w.ctrl.dnsKnowledge.Load(w.ctrl.cacheKey(qname, qtype)); !known {
							return "ok ORACLE:a-cached-response-left-no-knowledge-for-its-own-name"
						}
						return "ok"
					}))
				case c < -1: // family removal (DNS answer rejected by response routing)
					if len(keys) == 0 {
						continue
					}
					bk := dnsCacheBaseKey(keys[r.Intn(len(keys))])
					stats.Inc("op.rmf")
					st.Emit("rmf "+c18Hex(bk), VRecover(func() string { w.ctrl.RemoveDnsRespCacheFamily(bk); return "ok" }))
				case c < 0:
					switch r.Intn(9) {
					case 6, 7: // one run of the cache janitor: time-based eviction, optimistic window, LRU
						cfgk := r.Intn(3)
						var evicted []string
						out := VRecover(func() string {
							before := map[string]bool{}
							w.ctrl.dnsCache.Range(func(k, _ any) bool { before[k.(string)] = true; return true })
							switch cfgk {
							case 1:
								w.ctrl.optimisticCacheEnabled.Store(true)
								w.ctrl.optimisticCacheTtl.Store(5)
							case 2:
								w.ctrl.maxCacheSize.Store(2)
								// evictLRUIfFull breaks lastAccess ties by sync.Map order: give every entry a
								// distinct access time (key order) so that the op stream is a function of the seed
								var ks []string
								w.ctrl.dnsCache.Range(func(k, _ any) bool { ks = append(ks, k.(string)); return true })
								sort.Strings(ks)
								for i, k := range ks {
									if v, ok := w.ctrl.dnsCache.Load(k); ok {
										v.(*DnsCache).lastAccessNano.Store(int64(i + 1))
									}
								}
							}
							w.ctrl.evictExpiredDnsCache(time.Now())
							w.ctrl.optimisticCacheEnabled.Store(false)
							w.ctrl.optimisticCacheTtl.Store(0)
							w.ctrl.maxCacheSize.Store(0)
							w.ctrl.dnsCache.Range(func(k, _ any) bool { delete(before, k.(string)); return true })
							for k := range before {
								evicted = append(evicted, k)
							}
							sort.Strings(evicted)
							return "ok"
						})
						stats.Inc("op.janitor")
						stats.Add("op.janitor.evicted", len(evicted))
						if cfgk == 2 && len(evicted) > 0 {
							stats.Inc("op.janitor.lru-evicted")
						}
						hx := make([]string, len(evicted))
						for i, k := range evicted {
							hx[i] = c18Hex(k)
						}
						st.Emit(strings.TrimRight("evicted "+strings.Join(hx, " "), " "), out)
					case 8: // dial_mode through the real config path: text -> config_parser.Parse -> config.New -> ParseDialMode
						val := []string{"ip", "domain", "domain+", "domain++", "", "Domain", "domain+++", "ip ", "domain-", "absent", "absent"}[r.Intn(11)]
						tok := "absent"
						line := ""
						if val != "absent" {
							tok = c18Hex(val)
							line = "dial_mode: '" + val + "'"
						}
						stats.Inc("op.cfg")
						st.Emit("cfg "+tok, VRecover(func() string {
							secs, err := config_parser.Parse("global {\n" + line + "\n}\nrouting {\nfallback: direct\n}\n")
							if err != nil {
								return "parse-err"
							}
							conf, err := config.New(secs)
							if err != nil {
								return "config-err:" + err.Error()
							}
							dm, err := consts.ParseDialMode(conf.Global.DialMode)
							if err != nil {
								return "err"
							}
							return "mode=" + string(dm)
						}))
					case 0: // reload: clone the cache, restore it into a fresh store
						stats.Inc("op.reload")
						rop, rfault := "reload", r.Chance(0.25)
						if rfault {
							// every domain-routing update of the restore fails (kernel map batch update error)
							rop = "reload f2"
							stats.Inc("op.reload.fault2")
						}
						st.Emit(rop, VRecover(func() string {
							entries := w.ctrl.CloneCacheForReload()
							fresh := w.newCtrl()
							w.failAccessCb = rfault
							n := fresh.RestoreReloadCache(entries, nil, time.Now())
							w.failAccessCb = false
							w.ctrl = fresh
							w.cp.dnsController = fresh
							return fmt.Sprintf("restored=%d", n)
						}))
					case 1: // store teardown
						stats.Inc("op.close")
						st.Emit("close", VRecover(func() string { _ = w.ctrl.Close(); return "ok" }))
						// a closed store is not used again by production: continue on a fresh one would
						// hide nothing, but keep the episode going on the emptied store for has/cdt
					default: // janitor / LRU eviction of one entry
						if len(keys) == 0 {
							continue
						}
						key := keys[r.Intn(len(keys))]
						stats.Inc("op.evict")
						st.Emit("evict "+c18Hex(key), VRecover(func() string {
							if v, ok := w.ctrl.dnsCache.Load(key); ok {
								w.ctrl.evictDnsRespCacheIfSame(key, v.(*DnsCache))
							}
							return "ok"
						}))
					}
				case c < 4: // resolution through dae
					host := pool[r.Intn(len(pool))]
					switch r.Intn(10) {
					case 0, 1:
						host = genA.caseVariant(host)
					case 2: // a question name that is an address literal: the "pure IP" bypass
						host = append(append([]string{}, c18V4...), "::1", "2001:db8::1", "1.2.3.4.")[r.Intn(len(c18V4)+3)]
					case 3:
						host += []string{".1|x.zone.test", ".28|x.zone.test", "|b.test"}[r.Intn(3)]
						stats.Inc("op.dns.name-with-bar")
					}
					is4 := r.Chance(0.6)
					qtype, fam := dnsmessage.TypeAAAA, "28"
					if is4 {
						qtype, fam = dnsmessage.TypeA, "1"
					}
					ttl := []int{0, 1, 2, 2, 5, 30, 600}[r.Intn(7)]
					key := ""
					if r.Chance(0.35) {
						key = w.ctrl.responseCacheKey(w.ctrl.cacheKey(host, qtype),
							&udpRequest{realDst: netip.MustParseAddrPort([]string{"1.1.1.1:53", "8.8.8.8:53"}[r.Intn(2)])}, consts.DnsRequestOutboundIndex_AsIs, nil)
					}
					fq := dnsmessage.CanonicalName(host)
					ans := []dnsmessage.RR{&dnsmessage.A{Hdr: dnsmessage.RR_Header{Name: fq, Rrtype: dnsmessage.TypeA, Class: dnsmessage.ClassINET, Ttl: 0}, A: net.IPv4(93, 184, 216, 34)}}
					op := fmt.Sprintf("dns %s %s %d %s", c18Hex(host), fam, int64(ttl)*1e9, c18Hex(key))
					// fault injection: 1 = the NewCache hook fails (nothing may be stored), 2 = the cache-access callback
					// (production: the kernel map batch update) fails after the entry was stored
					fault := 0
					if r.Chance(0.12) {
						fault = 1 + r.Intn(2)
						op += fmt.Sprintf(" f%d", fault)
						stats.Inc(fmt.Sprintf("op.dns.fault%d", fault))
					}
					stats.Inc("op.dns")
					st.Emit(op, VRecover(func() string {
						before := 0
						w.ctrl.dnsCache.Range(func(_, _ any) bool { before++; return true })
						var err error
						usedKey := key
						w.failNewCache, w.failAccessCb = fault == 1, fault == 2
						if key == "" {
							err = w.ctrl.UpdateDnsCacheTtl(host, qtype, ans, nil, nil, ttl)
						} else {
							err = w.ctrl.UpdateDnsCacheTtlWithKey(key, host, qtype, ans, nil, nil, ttl)
						}
						w.failNewCache, w.failAccessCb = false, false
						// "bypass" = pure IP: nothing stored
						h := strings.TrimSuffix(host, ".")
						_, eAddr := netip.ParseAddr(h)
						if err != nil && (fault == 0 || eAddr == nil) {
							return "err:" + err.Error()
						}
						if eAddr == nil {
							stats.Inc("op.dns.bypass")
							return "bypass"
						}
						if fault != 0 && err == nil {
							return "injected-fault-not-reported"
						}
						if fault == 1 {
							return "err"
						}
						if usedKey == "" {
							fqdn := dnsmessage.CanonicalName(host)
							if strings.HasSuffix(host, ".") {
								fqdn = strings.ToLower(host)
							}
							usedKey = w.ctrl.cacheKey(fqdn, qtype)
						}
						keys = append(keys, usedKey)
						if fault == 2 {
							return "err"
						}
						return "ok"
					}))
				case c < 5:
					if len(keys) == 0 {
						continue
					}
					key := keys[r.Intn(len(keys))]
					if r.Chance(0.1) {
						key += "x"
					}
					stats.Inc("op.rm")
					st.Emit("rm "+c18Hex(key), VRecover(func() string { w.ctrl.RemoveDnsRespCache(key); return "ok" }))
				case c < 8:
					ns := []int64{0, 1, 999999999, 1e9, 1e9 + 1, 2e9, 5e9, 1e10 - 1, 1e10, 11e9, 30e9, 600e9}[r.Intn(12)]
					if len(w.heldOrder) > 0 {
						// a probe is held: stay below its context deadline (expiry is a scenario of its own)
						ns = []int64{0, 1, 1e6, 5e7, 1e8}[r.Intn(5)]
						if time.Duration(ns) > heldBudget {
							continue
						}
						heldBudget -= time.Duration(ns)
						stats.Inc("op.adv.while-probe-held")
					}
					stats.Inc("op.adv")
					time.Sleep(time.Duration(ns))
					st.Emit(fmt.Sprintf("adv %d", ns), "ok")
				case c < 10:
					name := pool[r.Intn(len(pool))]
					if r.Chance(0.3) {
						name = genA.caseVariant(name)
					}
					is4 := r.Chance(0.6)
					qtype, fam := dnsmessage.TypeAAAA, "6"
					if is4 {
						qtype, fam = dnsmessage.TypeA, "4"
					}
					stats.Inc("op.has")
					st.Emit("has "+c18Hex(name)+" "+fam, VRecover(func() string {
						v := w.ctrl.HasDnsKnowledge(w.ctrl.cacheKey(name, qtype))
						if v {
							stats.Inc("op.has.true")
						}
						return c18Bool(v)
					}))
				case c < 11:
					name := pool[r.Intn(len(pool))]
					stats.Inc("op.look")
					st.Emit("look "+c18Hex(name), VRecover(func() string {
						k, re := w.cp.lookupRealDomainCache(name)
						return "known=" + c18Bool(k) + " real=" + c18Bool(re)
					}))
				case c < 12:
					setMode(modes[r.Intn(len(modes))])
				case c < 17: // ChooseDialTarget
					ob := c18Outbounds[r.Intn(len(c18Outbounds))]
					dst := gen.dst()
					d, class := gen.domain(pool)
					if mode == "domain" && r.Chance(0.55) {
						d, class = pool[r.Intn(len(pool))], "name"
						if r.Chance(0.15) {
							d, class = genA.caseVariant(d), "name-variant"
						}
						if r.Chance(0.7) {
							ob = 2 + r.Intn(3)
						}
					}
					if mode == "domain" && !consts.OutboundIndex(ob).IsReserved() && d != "" {
						// read-only peek at the three caches: which row of the domain-mode table is this?
						switch {
						case isIPLikeDomain(d):
							stats.Inc("cdt.domain-row.ip-like")
						case w.peekKnowledge(d, dst):
							stats.Inc("cdt.domain-row.knowledge")
						case w.cp.realDomainSet.TestString(d):
							stats.Inc("cdt.domain-row.verified")
						case w.peekNeg(d):
							stats.Inc("cdt.domain-row.negative-cached")
						default:
							stats.Inc("cdt.domain-row.unknown")
						}
					}
					ans := answers(d)
					op := fmt.Sprintf("cdt %d %s %s %s", ob, c18DstTok(dst), c18Hex(d), strings.Join(ans, " "))
					stats.Inc("cdt.mode." + mode)
					stats.Inc("cdt.class." + class)
					if consts.OutboundIndex(ob).IsReserved() {
						stats.Inc("cdt.outbound.reserved")
					} else {
						stats.Inc("cdt.outbound.user")
					}
					knewBefore := w.peekKnowledge(d, dst)
					st.Emit(strings.TrimRight(op, " "), VRecover(func() string {
						w.calls = 0
						target, reroute, dialIp := w.cp.ChooseDialTarget(consts.OutboundIndex(ob), dst, d)
						settle(ans) // let the asynchronous probe (if any) finish
						out := fmt.Sprintf("t=%s rr=%s ip=%s probe=%s", c18Hex(target), c18Bool(reroute), c18Bool(dialIp), c18Bool(w.calls > 0))
						// implementation-side oracle (no model): a name is used in domain mode only if it
						// has unexpired knowledge or a POSITIVE probe of this exact string happened
						if mode == "domain" && target != dst.String() && !knewBefore && !w.probed[d] {
							out += " ORACLE:unverified-name-used-in-domain-mode"
						}
						// property-level oracles on the implementation, independent of the model
						reserved := consts.OutboundIndex(ob).IsReserved()
						if mode == "ip" || d == "" || reserved {
							if target != dst.String() || !dialIp || reroute {
								out += " ORACLE:ip-row-violated"
							}
						}
						if target == dst.String() {
							stats.Inc("cdt.result.ip." + mode)
						} else {
							stats.Inc("cdt.result.name." + mode)
						}
						if reroute {
							stats.Inc("cdt.result.reroute." + mode)
						}
						if !reserved && d != "" {
							if mode == "domain+" && reroute {
								out += " ORACLE:domain+-rerouted"
							}
							if mode == "domain++" && !reroute {
								out += " ORACLE:domain++-not-rerouted"
							}
						}
						inner := d
						if strings.HasPrefix(inner, "[") && strings.HasSuffix(inner, "]") {
							inner = inner[1 : len(inner)-1]
						}
						if !strings.ContainsAny(inner, "[]") {
							if !c18WellFormed(target) {
								out += " ORACLE:malformed-target"
							}
						} else if !c18WellFormed(target) {
							stats.Inc("cdt.result.malformed-with-inner-brackets")
						}
						if w.calls > 0 {
							stats.Inc("cdt.probe")
						}
						return out
					}))
					afterT(ans)
					if r.Chance(0.12) { // a second call for the same flow while the probe is in flight
						d2, _ := gen.domain(pool)
						if mode == "domain" && r.Chance(0.7) {
							d2 = c18Names[r.Intn(len(c18Names))]
						}
						ob2 := 2 + r.Intn(3)
						dst2 := gen.dst()
						ans2 := answers(d2)
						for i := range ans2 {
							if ans2[i] == "T" {
								ans2[i] = "0011"
							}
						}
						stats.Inc("op.cdt2")
						st.Emit(strings.TrimRight(fmt.Sprintf("cdt2 %d %s %s %s", ob2, c18DstTok(dst2), c18Hex(d2), strings.Join(ans2, " ")), " "), VRecover(func() string {
							w.calls = 0
							w.perRes = map[int]int{}
							w.hold = make(chan struct{})
							t1, rr1, ip1 := w.cp.ChooseDialTarget(consts.OutboundIndex(ob2), dst2, d2)
							synctest.Wait() // the probe (if any) is now blocked inside the first resolver call
							inFlight := w.calls > 0
							t2, rr2, ip2 := w.cp.ChooseDialTarget(consts.OutboundIndex(ob2), dst2, d2)
							synctest.Wait()
							close(w.hold)
							w.hold = nil
							synctest.Wait()
							if inFlight {
								stats.Inc("op.cdt2.in-flight")
							}
							dup := false
							for _, n := range w.perRes {
								if n > 1 {
									dup = true
								}
							}
							if dup {
								stats.Inc("op.cdt2.resolver-asked-twice") // not compared: how often resolvers are asked is not the property
							}
							return fmt.Sprintf("t=%s rr=%s ip=%s ; t=%s rr=%s ip=%s probe=%s", c18Hex(t1), c18Bool(rr1), c18Bool(ip1),
								c18Hex(t2), c18Bool(rr2), c18Bool(ip2), c18Bool(w.calls > 0))
						}))
					}
				case c < 20: // routeDial: what is actually sent to the node dialer
					ob := []int{2, 3, 4, 2, 3, 4, 0, 1, 0xFD, 0xFD, 7, 0xFC}[r.Intn(12)]
					dst := gen.dst()
					d, class := gen.domain(pool)
					if (mode == "domain" || mode == "domain++") && r.Chance(0.5) {
						d, class = pool[r.Intn(len(pool))], "name"
					}
					ans := answers(d)
					nOut := []int{5, 5, 5, 5, 5, 5, 5, 5, 4, 3, 2}[r.Intn(11)]
					if mode == "domain" {
						// a re-route to a nonexistent outbound fails either way; whether the code still starts a
						// probe before noticing is not the property: keep that case to the modes without probes
						nOut = 5
					}
					fail := []int{0, 0, 0, 0, 0, 1, 1, 1, 2, 3}[r.Intn(10)]
					udp := fail == 0 && r.Chance(0.2)
					if fail != 0 {
						for i := range ans {
							if ans[i] == "T" {
								ans[i] = "0011"
							}
						}
						w.script[d] = ans
					}
					proto := consts.L4ProtoType_TCP
					// packet metadata the matcher has rules on: chooseProxyDialer must pass them to Route unchanged
					var meta proxyDialParam
					metaTok := "m=-"
					if r.Chance(0.35) {
						metaTok = c18GenMeta(r, &meta)
						stats.Inc("dial.with-metadata")
					}
					// the mark of the kernel's routing tuple; the routing answer has its own
					meta.Mark = []uint32{0, 0, 5, 0x100, 0xfffe}[r.Intn(5)]
					w.cp.outbounds = w.allOuts[:nOut]
					if udp {
						proto = consts.L4ProtoType_UDP
					}
					routeMark := uint32(0)
					rt := VRecover(func() string {
						o, mk, _, err := w.cp.Route(src, dst, d, proto, &bpfRoutingResult{Outbound: uint8(ob), Mac: meta.Mac, Pname: meta.ProcessName, Dscp: meta.Dscp, Mark: meta.Mark})
						if err != nil {
							return "err"
						}
						routeMark = mk
						return strconv.Itoa(int(o))
					})
					if !udp {
						metaTok += fmt.Sprintf("/%d/%d", meta.Mark, routeMark)
					}
					if strings.HasPrefix(rt, "crash:") {
						stats.Inc("dial.route-crash")
						stats.Sample("route-crash " + c18Hex(d) + " " + rt)
						rt = "err"
					}
					if udp {
						// UDP: the datagram target stays the IP (udp.go), but the outbound (re-route by name) and
						// the strict-family flag come from chooseProxyDialer(Network:"udp") — same table
						stats.Inc("pick.udp.mode." + mode)
						op := fmt.Sprintf("pick %d %s %s %s %d %s %s", ob, c18DstTok(dst), c18Hex(d), rt, nOut, metaTok, strings.Join(ans, " "))
						st.Emit(strings.TrimRight(op, " "), VRecover(func() string {
							w.calls = 0
							res, err := w.cp.chooseProxyDialer(context.Background(), &proxyDialParam{
								Outbound: consts.OutboundIndex(ob), Domain: d, Src: src, Dest: dst, Network: "udp",
								Mac: meta.Mac, Dscp: meta.Dscp, ProcessName: meta.ProcessName,
							})
							settle(ans)
							if err != nil {
								return "err"
							}
							if strconv.Itoa(ob) != strings.TrimPrefix(res.Outbound.Name, "g") {
								stats.Inc("pick.udp.rerouted")
							}
							return fmt.Sprintf("ob=%s t=%s ip=%s probe=%s", strings.TrimPrefix(res.Outbound.Name, "g"), c18Hex(res.DialTarget), c18Bool(res.IsDialIp), c18Bool(w.calls > 0))
						}))
						afterT(ans)
						continue
					}
					failTok := strconv.Itoa(fail)
					if fail > 2 {
						failTok = "2" // any error that does not force the dialer unavailable: one dial, no retry
					}
					op := fmt.Sprintf("dial %d %s %s %s %d %s %s %s", ob, c18DstTok(dst), c18Hex(d), rt, nOut, failTok, metaTok, strings.Join(ans, " "))
					stats.Inc("dial.mode." + mode)
					stats.Inc("dial.class." + class)
					if fail == 1 {
						stats.Inc("dial.first-attempt-fails")
					}
					if fail > 1 {
						stats.Inc("dial.refused-or-timeout")
					}
					st.Emit(strings.TrimRight(op, " "), VRecover(func() string {
						w.calls = 0
						dialLog = dialLog[:0]
						failNext = fail
						_, res, err := w.cp.routeDial(context.Background(), &proxyDialParam{
							Outbound: consts.OutboundIndex(ob), Domain: d, Src: src, Dest: dst, Network: "tcp",
							Mac: meta.Mac, Dscp: meta.Dscp, ProcessName: meta.ProcessName, Mark: meta.Mark,
						})
						failNext = 0
						settle(ans)
						if fail == 1 {
							buildGroups()
						}
						// the sequence of (group, address) handed to node dialers; an immediate repeat of the
						// same dial without an injected failure (e.g. a dual-stack dial) is not a difference
						if len(dialLog) > 1 {
							stats.Inc("dial.retried")
							if dialLog[0] != dialLog[1] {
								stats.Inc("dial.retried.different-decision")
							}
						}
						if err != nil {
							stats.Inc("dial.err")
						} else {
							last := strings.SplitN(dialLog[len(dialLog)-1], "|", 3)
							if last[0] != strconv.Itoa(ob) {
								stats.Inc("dial.rerouted")
								if last[1] != strconv.FormatUint(uint64(meta.Mark), 10) && meta.Mark != 0 {
									stats.Inc("dial.rerouted.mark-replaced")
								}
							}
						}
						return c18FmtDials(dialLog, fail != 0, res, err, w.calls > 0)
					}))
					afterT(ans)
				case c < 23: // a whole connection through the real handleConn
					if len(w.heldOrder) > 0 {
						continue // (time passes inside: a held probe's context would expire in the middle)
					}
					if r.Chance(0.15) {
						// a burst to one flow signature: failing sniffs until the negative cache suppresses
						// sniffing, then a perfectly sniffable connection
						dstB := connDsts[r.Intn(len(connDsts))]
						n := int(tcpSniffFailureThreshold) - 1 + r.Intn(3)
						for i := 0; i < n; i++ {
							doConn(dstB, []string{"silent", "opaque", "httpnohost", "tlsnosni"}[r.Intn(4)], 2+r.Intn(3), "m=-", proxyDialParam{}, 0, true)
						}
						stats.Inc("conn.burst")
						doConn(dstB, []string{"http", "tls"}[r.Intn(2)], 2+r.Intn(3), "m=-", proxyDialParam{}, 0, true)
						continue
					}
					dst := gen.dst()
					if r.Chance(0.6) {
						dst = connDsts[r.Intn(len(connDsts))]
					}
					if r.Chance(0.1) {
						dst = netip.AddrPortFrom(dst.Addr(), []uint16{22, 25, 3306, 6379, 27017}[r.Intn(5)])
					}
					if dst.Port() == 53 {
						dst = netip.AddrPortFrom(dst.Addr(), 853) // (port 53 is the DNS fast path: C09's)
					}
					kind := []string{"http", "http", "http", "http", "tls", "tls", "tls", "silent", "opaque", "opaque", "httpnohost", "tlsnosni"}[r.Intn(12)]
					kob := []int{-1, -1, 2, 3, 4, 2, 3, 4, 0, 1, 0xFD, 7}[r.Intn(12)]
					var meta proxyDialParam
					metaTok := "m=-"
					if r.Chance(0.3) {
						metaTok = c18GenMeta(r, &meta)
					}
					meta.Mark = []uint32{0, 0, 5, 0x100}[r.Intn(4)]
					doConn(dst, kind, kob, metaTok, meta, []int{0, 0, 0, 0, 1, 2}[r.Intn(6)], r.Chance(0.85))
				case c < 25: // ChooseDialTarget for a name whose resolvers do not answer yet: the probe stays in flight
					name := pool[r.Intn(len(pool))]
					if r.Chance(0.2) {
						name = c18Names[r.Intn(len(c18Names))]
					}
					if len(w.heldOrder) > 0 && r.Chance(0.5) {
						name = w.heldOrder[r.Intn(len(w.heldOrder))] // a second flow for a name whose probe is in flight
					}
					ob := 2 + r.Intn(3)
					dst := gen.dst()
					_, already := w.holdNames[name]
					if !already {
						if len(w.heldOrder) >= 2 {
							continue
						}
						w.holdNames[name] = make(chan struct{})
					}
					stats.Inc("op.cdth")
					st.Emit(fmt.Sprintf("cdth %d %s %s", ob, c18DstTok(dst), c18Hex(name)), VRecover(func() string {
						w.calls = 0
						target, reroute, dialIp := w.cp.ChooseDialTarget(consts.OutboundIndex(ob), dst, name)
						synctest.Wait() // the probe (if any) is now blocked inside its first resolver call
						started := w.calls > 0
						if !already {
							if started {
								w.heldStart[name] = time.Now()
								w.heldOrder = append(w.heldOrder, name)
								if len(w.heldOrder) == 1 {
									heldBudget = realDomainProbeTimeout - time.Millisecond
								}
								stats.Inc("op.cdth.probe-held")
							} else {
								delete(w.holdNames, name)
							}
						} else if started {
							return "second-probe-started-for-a-name-in-flight"
						} else {
							stats.Inc("op.cdth.joined-the-probe-in-flight")
						}
						return fmt.Sprintf("t=%s rr=%s ip=%s started=%s", c18Hex(target), c18Bool(reroute), c18Bool(dialIp), c18Bool(started))
					}))
				case c < 26: // the datapath janitor's negative-cache sweep / a look at the sniff negative cache
					if r.Chance(0.5) {
						stats.Inc("op.negclean")
						st.Emit("negclean", VRecover(func() string {
							live := 0
							now := time.Now().UnixNano()
							w.cp.realDomainNegSet.Range(func(_, v any) bool {
								if e, _ := v.(int64); now < e {
									live++
								}
								return true
							})
							w.cp.cleanupNegativeCaches(time.Now())
							n := 0
							w.cp.realDomainNegSet.Range(func(_, _ any) bool { n++; return true })
							if n < live {
								stats.Inc("op.negclean.dropped-live")
							}
							if n > 0 {
								stats.Inc("op.negclean.kept-live")
							}
							return fmt.Sprintf("neg=%d sn=%d", n, len(w.cp.tcpSniffNegSet))
						}))
					} else {
						dst := connDsts[r.Intn(len(connDsts))]
						var meta proxyDialParam
						metaTok := "m=-"
						if r.Chance(0.2) {
							metaTok = c18GenMeta(r, &meta)
						}
						stats.Inc("op.sneg")
						st.Emit(fmt.Sprintf("sneg %s %s", c18DstTok(dst), metaTok), VRecover(func() string {
							key := newTcpSniffNegKey(netip.AddrPortFrom(dst.Addr().Unmap(), dst.Port()), &bpfRoutingResult{Pname: meta.ProcessName, Mac: meta.Mac, Dscp: meta.Dscp})
							e, ok := w.cp.tcpSniffNegSet[key]
							if !ok || e.expiresAtUnixNano <= time.Now().UnixNano() {
								return "none"
							}
							stats.Inc("op.sneg.entry")
							return fmt.Sprintf("f=%d", e.failures)
						}))
					}
				default: // reload: a new ControlPlane generation (fresh verified-name filter, new dial_mode / resolvers)
					newMode := modes[r.Intn(len(modes))]
					newBoot := []int{1, 1, 2, 3, 0}[r.Intn(5)]
					how := []string{"reuse", "restore"}[r.Intn(2)]
					stats.Inc("op.gen." + how)
					if len(w.heldOrder) > 0 {
						stats.Inc("op.gen.with-probe-in-flight")
					}
					st.Emit(fmt.Sprintf("gen %s %d %s", newMode, newBoot, how), VRecover(func() string {
						oldCP, oldCtrl := w.cp, w.ctrl
						oldCP.cancel() // the old generation's context: probes in flight end with both lookups failed
						synctest.Wait()
						w.holdNames = map[string]chan struct{}{}
						w.heldStart = map[string]time.Time{}
						w.heldOrder = nil
						var ctrl *DnsController
						if how == "reuse" {
							c2, err := oldCtrl.ReuseForReload(w.dnsOption(), nil)
							if err != nil || c2 == nil {
								return fmt.Sprintf("reuse-failed:%v", err)
							}
							ctrl = c2
						} else {
							entries := oldCtrl.CloneCacheForReload()
							ctrl = w.newCtrl()
							ctrl.RestoreReloadCache(entries, nil, time.Now())
							_ = oldCtrl.Close()
						}
						w.ctrl = ctrl
						w.cp = w.newCP(ctrl, c18Mode(newMode), c18Boots(newBoot))
						w.cp.outbounds = w.allOuts
						return "ok"
					}))
					mode, nboot = newMode, newBoot
				}
			}
			for len(w.heldOrder) > 0 {
				releaseHeld(w.heldOrder[0])
			}
			w.cp.cancel()
		}
	})
	stats.Add("ops", st.N)
}
