package control

// C16 correspondence harness, kernel side: the REAL controlPlaneCore.outboundAliveChangeCallback
// closure writing into a REAL BPF array map (outbound_connectivity_map stand-in created with
// ebpf.NewMap; the sandbox allows the bpf syscall), driven (a) directly for every
// (outbound, network type, alive, isInit) combination and (b) end to end by real
// outbound.DialerGroup objects over real dialers through generated histories of forced / traffic /
// transactional reports, reload inherit and floor.  The model driver c16drv answers the same op
// lines; for (b) only the kernel bits are compared (field K[...]).

import (
	"context"
	"errors"
	"fmt"
	"io"
	"strings"
	"testing"
	"time"

	"github.com/cilium/ebpf"
	"github.com/daeuniverse/dae/common/consts"
	"github.com/daeuniverse/dae/component/outbound"
	"github.com/daeuniverse/dae/component/outbound/dialer"
	D "github.com/daeuniverse/outbound/dialer"
	"github.com/daeuniverse/outbound/netproxy"
	"github.com/sirupsen/logrus"
)

type c16kNoop struct{}

func (c16kNoop) DialContext(context.Context, string, string) (netproxy.Conn, error) {
	return nil, errors.New("not implemented")
}

func c16kNT(tok string) *dialer.NetworkType {
	nt := &dialer.NetworkType{IpVersion: consts.IpVersionStr_4}
	if tok[1] == '6' {
		nt.IpVersion = consts.IpVersionStr_6
	}
	switch tok[0] {
	case 't':
		nt.L4Proto = consts.L4ProtoStr_TCP
	case 'T':
		nt.L4Proto = consts.L4ProtoStr_TCP
		nt.IsDns = true
	case 'd':
		nt.L4Proto = consts.L4ProtoStr_UDP
		nt.IsDns = true
		nt.UdpHealthDomain = dialer.UdpHealthDomainDns
	case 'u':
		nt.L4Proto = consts.L4ProtoStr_UDP
		nt.UdpHealthDomain = dialer.UdpHealthDomainData
	case 'x':
		nt.L4Proto = consts.L4ProtoStr_UDP
	case 'y':
		nt.L4Proto = consts.L4ProtoStr_UDP
		nt.IsDns = true
	case 'z':
		nt.L4Proto = consts.L4ProtoStr_UDP
		nt.UdpHealthDomain = dialer.UdpHealthDomainDns
	}
	return nt
}

const c16kSentinel = uint32(7)
const c16kEntries = 256 * 6

func c16kCore(t *testing.T) (*controlPlaneCore, *ebpf.Map) {
	m, err := ebpf.NewMap(&ebpf.MapSpec{Type: ebpf.Array, KeySize: 4, ValueSize: 4, MaxEntries: c16kEntries})
	if err != nil {
		return nil, nil
	}
	log := logrus.New()
	log.SetOutput(io.Discard)
	core := &controlPlaneCore{log: log, outboundId2Name: map[uint8]string{}}
	core.closed, core.close = context.WithCancel(context.Background())
	core.bpf.Store(&bpfObjects{bpfMaps: bpfMaps{OutboundConnectivityMap: m}})
	return core, m
}

func c16kFill(m *ebpf.Map) {
	for k := uint32(0); k < c16kEntries; k++ {
		_ = m.Update(k, c16kSentinel, ebpf.UpdateAny)
	}
}

func c16kChanged(m *ebpf.Map) string {
	var out []string
	for k := uint32(0); k < c16kEntries; k++ {
		var v uint32
		if err := m.Lookup(k, &v); err == nil && v != c16kSentinel {
			out = append(out, fmt.Sprintf("key=%d val=%d", k, v))
		}
	}
	if len(out) == 0 {
		return "unchanged"
	}
	return strings.Join(out, " ")
}

func c16kBool(b bool) string {
	if b {
		return "1"
	}
	return "0"
}

func c16kIdx(tok string) int {
	b := 0
	if tok[1] == '6' {
		b = 1
	}
	switch tok[0] {
	case 't', 'T':
		return 4 + b
	case 'd', 'z':
		return 2 + b
	}
	return 6 + b
}

type c16kNode struct {
	id int
	d  *dialer.Dialer
}
type c16kGroup struct {
	id, ob  int
	pol     string
	g       *outbound.DialerGroup
	members []*c16kNode
}

var c16kStd = []string{"d4", "d6", "t4", "t6", "u4", "u6"}
var c16kAll = []string{"t4", "t6", "T4", "T6", "d4", "d6", "u4", "u6", "x4", "x6", "y4", "y6", "z4", "z6"}

func TestVerifC16Kernel(t *testing.T) {
	st := VOpenStream("c16k")
	defer st.Close()
	stats := NewVStats()
	core, m := c16kCore(t)
	if core == nil {
		st.Emit("nobpf", "nobpf")
		stats.Inc("nobpf")
		stats.Write("c16k")
		return
	}
	defer m.Close()
	r := NewVRand(VSeed())

	// (a) the closure itself: exactly one slot of the whole map changes, to the expected value
	c16kFill(m)
	for _, ob := range []int{0, 1, 2, 7, 41, 255} {
		for _, tok := range c16kAll {
			for _, alive := range []bool{false, true} {
				for _, init := range []bool{false, true} {
					core.outboundAliveChangeCallback(uint8(ob), false)(alive, c16kNT(tok), init)
					ch := c16kChanged(m)
					st.Emit(fmt.Sprintf("key %d %s %s", ob, tok, c16kBool(alive)), ch)
					var k, v uint32
					if n, _ := fmt.Sscanf(ch, "key=%d val=%d", &k, &v); n == 2 {
						_ = m.Update(k, c16kSentinel, ebpf.UpdateAny)
					} else {
						c16kFill(m)
					}
					stats.Inc("closure")
				}
			}
		}
	}

	// (b) end to end
	log := logrus.New()
	log.SetOutput(io.Discard)
	log.SetLevel(logrus.WarnLevel)
	opt := &dialer.GlobalOption{Log: log, CheckInterval: 30 * time.Second}
	pols := map[string]consts.DialerSelectionPolicy{
		"min_last":   consts.DialerSelectionPolicy_MinLastLatency,
		"min_moving": consts.DialerSelectionPolicy_MinMovingAverageLatencies,
		"min_avg":    consts.DialerSelectionPolicy_MinAverage10Latencies,
		"random":     consts.DialerSelectionPolicy_Random,
	}
	polNames := []string{"min_last", "min_moving", "min_avg", "random"}
	nScn := 40
	if VThorough() {
		nScn = 600
	}
	for sc := 0; sc < nScn; sc++ {
		dialer.ResetGlobalProxyStateForReload()
		c16kFill(m)
		st.Emit("scenario", "ok")
		var nodes []*c16kNode
		var groups []*c16kGroup
		nextG := 0
		kbits := func() string {
			var sb strings.Builder
			sb.WriteString("K[")
			for _, g := range groups {
				for _, tok := range c16kStd {
					var v uint32
					_ = m.Lookup(outboundConnectivityMapKey(uint8(g.ob), c16kNT(tok)), &v)
					switch v {
					case 0:
						sb.WriteByte('0')
					case 1:
						sb.WriteByte('1')
					default:
						sb.WriteByte('?')
					}
				}
			}
			sb.WriteString("]")
			return sb.String()
		}
		addNode := func(addr int) *c16kNode {
			n := &c16kNode{id: len(nodes)}
			a := ""
			if addr != 0 {
				a = fmt.Sprintf("addr%d", addr)
			}
			n.d = dialer.NewDialer(c16kNoop{}, opt, dialer.InstanceOption{DisableCheck: true},
				&dialer.Property{Property: D.Property{Name: fmt.Sprintf("n%d", n.id), Address: a}})
			nodes = append(nodes, n)
			st.Emit(fmt.Sprintf("node %d %d |", n.id, addr), kbits())
			return n
		}
		addGroup := func(members []*c16kNode) *c16kGroup {
			g := &c16kGroup{id: nextG, ob: 2 + nextG*3, pol: polNames[r.Intn(len(polNames))], members: members}
			nextG++
			ds := make([]*dialer.Dialer, len(members))
			ans := make([]*dialer.Annotation, len(members))
			var ms []string
			for i, mm := range members {
				ds[i] = mm.d
				ans[i] = &dialer.Annotation{}
				ms = append(ms, fmt.Sprintf("%d:0", mm.id))
			}
			g.g = outbound.NewDialerGroup(opt, fmt.Sprintf("g%d", g.id), ds, ans,
				outbound.DialerSelectionPolicy{Policy: pols[g.pol]}, core.outboundAliveChangeCallback(uint8(g.ob), false))
			groups = append(groups, g)
			mstr := "-"
			if len(ms) > 0 {
				mstr = strings.Join(ms, ",")
			}
			st.Emit(fmt.Sprintf("group %d %d %s 0 %s |", g.id, g.ob, g.pol, mstr), kbits())
			stats.Inc("group." + g.pol)
			return g
		}
		nn := 1 + r.Intn(3)
		for i := 0; i < nn; i++ {
			addNode([]int{0, 1, 1}[r.Intn(3)])
		}
		pick := func() []*c16kNode {
			var ms []*c16kNode
			for _, n := range nodes {
				if r.Chance(0.8) {
					ms = append(ms, n)
				}
			}
			return ms
		}
		for i := 1 + r.Intn(2); i > 0; i-- {
			addGroup(pick())
		}
		for ev := 0; ev < 60; ev++ {
			n := nodes[r.Intn(len(nodes))]
			tok := c16kAll[r.Intn(len(c16kAll))]
			switch r.Intn(10) {
			case 0, 1, 2:
				n.d.ReportUnavailableForced(c16kNT(tok), errors.New("x"))
				st.Emit(fmt.Sprintf("forced %d %s |", n.id, tok), kbits())
			case 3, 4, 5:
				n.d.ReportAvailableTraffic(c16kNT(tok))
				st.Emit(fmt.Sprintf("tok %d %s |", n.id, tok), kbits())
			case 6:
				n.d.ReportUnavailableTransactional(c16kNT(tok), errors.New("timeout"))
				st.Emit(fmt.Sprintf("txn %d %s 0 |", n.id, tok), kbits())
			case 7:
				// kill every member of one group in one domain
				if len(groups) > 0 {
					g := groups[r.Intn(len(groups))]
					for _, mm := range g.members {
						mm.d.ReportUnavailableForced(c16kNT(tok), nil)
						st.Emit(fmt.Sprintf("forced %d %s |", mm.id, tok), kbits())
					}
					stats.Inc("killall")
				}
			case 8:
				o := nodes[r.Intn(len(nodes))]
				n.d.RestoreHealthSnapshot(o.d.ReloadHealthSnapshot())
				st.Emit(fmt.Sprintf("inherit %d %d |", n.id, o.id), kbits())
			case 9:
				if len(groups) > 0 {
					g := groups[r.Intn(len(groups))]
					var fb outbound.ReloadSelectionFallback
					g.g.EnsureReloadSelectionFloor(fb)
					st.Emit(fmt.Sprintf("floor %d - |", g.id), kbits())
				}
			}
			stats.Inc("event")
		}
		k := kbits()
		stats.Add("bits.zero", strings.Count(k, "0"))
		stats.Add("bits.one", strings.Count(k, "1"))
		for _, g := range groups {
			_ = g.g.Close()
		}
		for _, n := range nodes {
			_ = n.d.Close()
		}
	}
	stats.Write("c16k")
}
