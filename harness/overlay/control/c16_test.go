package control

// C16 correspondence harness, kernel side: the REAL controlPlaneCore.outboundAliveChangeCallback
// closure writing into a REAL BPF array map (outbound_connectivity_map stand-in created with
// ebpf.NewMap; the sandbox allows the bpf syscall), driven (a) directly for every
// (outbound, network type, alive, isInit) combination and (b) end to end by real
// outbound.DialerGroup objects over real dialers through generated histories of forced / traffic /
// transactional reports, reload inherit and floor.  The model driver c16drv answers the same op
// lines; for (b) alive flags, set sizes, kernel bits and all map slots of every outbound are compared (A, L, K, M).

import (
	"context"
	"encoding/json"
	"errors"
	"fmt"
	"io"
	"os"
	"path/filepath"
	"strings"
	"testing"
	"time"

	"github.com/cilium/ebpf"
	"github.com/daeuniverse/dae/common/consts"
	"github.com/daeuniverse/dae/component/outbound"
	"github.com/daeuniverse/dae/component/outbound/dialer"
	"github.com/daeuniverse/dae/config"
	"github.com/daeuniverse/dae/pkg/config_parser"
	D "github.com/daeuniverse/outbound/dialer"
	"github.com/daeuniverse/outbound/netproxy"
	"github.com/sirupsen/logrus"
)

type c16kNoop struct{}

func (c16kNoop) DialContext(context.Context, string, string) (netproxy.Conn, error) {
	return nil, errors.New("not implemented")
}

func c16kNT(tok string) *dialer.NetworkType {
	nt := &dialer.NetworkType{IpVersion: consts.IpVersionStr_4}
	if tok[1] == '6' {
		nt.IpVersion = consts.IpVersionStr_6
	}
	switch tok[0] {
	case 't':
		nt.L4Proto = consts.L4ProtoStr_TCP
	case 'T':
		nt.L4Proto = consts.L4ProtoStr_TCP
		nt.IsDns = true
	case 'a':
		nt.L4Proto = consts.L4ProtoStr_TCP
		nt.IsDns = true
		nt.UdpHealthDomain = dialer.UdpHealthDomainDns
	case 'b':
		nt.L4Proto = consts.L4ProtoStr_TCP
		nt.UdpHealthDomain = dialer.UdpHealthDomainData
	case 'd':
		nt.L4Proto = consts.L4ProtoStr_UDP
		nt.IsDns = true
		nt.UdpHealthDomain = dialer.UdpHealthDomainDns
	case 'u':
		nt.L4Proto = consts.L4ProtoStr_UDP
		nt.UdpHealthDomain = dialer.UdpHealthDomainData
	case 'x':
		nt.L4Proto = consts.L4ProtoStr_UDP
	case 'y':
		nt.L4Proto = consts.L4ProtoStr_UDP
		nt.IsDns = true
	case 'z':
		nt.L4Proto = consts.L4ProtoStr_UDP
		nt.UdpHealthDomain = dialer.UdpHealthDomainDns
	}
	return nt
}

const c16kSentinel = uint32(7)
const c16kEntries = 256 * 6

func c16kCore(t *testing.T) (*controlPlaneCore, *ebpf.Map) {
	m, err := ebpf.NewMap(&ebpf.MapSpec{Type: ebpf.Array, KeySize: 4, ValueSize: 4, MaxEntries: c16kEntries})
	if err != nil {
		return nil, nil
	}
	return c16kCoreOn(m)
}

func c16kCoreOn(m *ebpf.Map) (*controlPlaneCore, *ebpf.Map) {
	log := logrus.New()
	log.SetOutput(io.Discard)
	core := &controlPlaneCore{log: log, outboundId2Name: map[uint8]string{}}
	core.closed, core.close = context.WithCancel(context.Background())
	core.bpf.Store(&bpfObjects{bpfMaps: bpfMaps{OutboundConnectivityMap: m}})
	return core, m
}

func c16kFill(m *ebpf.Map) {
	for k := uint32(0); k < c16kEntries; k++ {
		_ = m.Update(k, c16kSentinel, ebpf.UpdateAny)
	}
}

func c16kChanged(m *ebpf.Map) string {
	var out []string
	for k := uint32(0); k < c16kEntries; k++ {
		var v uint32
		if err := m.Lookup(k, &v); err == nil && v != c16kSentinel {
			out = append(out, fmt.Sprintf("key=%d val=%d", k, v))
		}
	}
	if len(out) == 0 {
		return "unchanged"
	}
	return strings.Join(out, " ")
}

func c16kSlots(m *ebpf.Map, ob int) string {
	var sb strings.Builder
	for j := 0; j < 6; j++ {
		var v uint32
		if err := m.Lookup(uint32(ob*6+j), &v); err != nil || v > 9 {
			sb.WriteByte('?')
		} else {
			sb.WriteByte(byte('0' + v))
		}
	}
	return sb.String()
}

func c16kBool(b bool) string {
	if b {
		return "1"
	}
	return "0"
}

func c16kIdx(tok string) int {
	b := 0
	if tok[1] == '6' {
		b = 1
	}
	switch tok[0] {
	case 't', 'T', 'a', 'b':
		return 4 + b
	case 'd', 'z':
		return 2 + b
	}
	return 6 + b
}

type c16kNode struct {
	id     int
	nameId int // the name InheritDialerHealthFrom matches on is "n<nameId>"; distinct objects may share it
	linkId int // Property.Link "link<linkId>": the node's identity; same-named nodes of one group differ in it
	d      *dialer.Dialer
}
type c16kGroup struct {
	id, ob  int
	nameId  int // group name "g<nameId>"
	pol     string
	g       *outbound.DialerGroup
	members []*c16kNode
}

var c16kStd = []string{"d4", "d6", "t4", "t6", "u4", "u6"}
var c16kAll = []string{"t4", "t6", "T4", "T6", "d4", "d6", "u4", "u6", "x4", "x6", "y4", "y6", "z4", "z6", "a4", "a6", "b4", "b6"}

func TestVerifC16Kernel(t *testing.T) {
	st := VOpenStream("c16k")
	defer st.Close()
	stats := NewVStats()
	core, m := c16kCore(t)
	if core == nil {
		st.Emit("nobpf", "nobpf")
		stats.Inc("nobpf")
		stats.Write("c16k")
		return
	}
	defer m.Close()
	r := NewVRand(VSeed())

	// (a) the closure itself: exactly one slot of the whole map changes, to the expected value; nothing
	// changes when the core is closed or retired, or for a non-init callback in dry-run mode
	c16kFill(m)
	for _, ob := range []int{0, 1, 2, 42, 43, 127, 128, 250, 251, 255} {
		for _, tok := range c16kAll {
			for _, alive := range []bool{false, true} {
				for _, init := range []bool{false, true} {
					for mode := 0; mode < 4; mode++ { // 0 plain, 1 dryrun, 2 retired, 3 closed
						cc := core
						if mode >= 2 {
							cc, _ = c16kCoreOn(m)
							if mode == 2 {
								cc.retired.Store(true)
							} else {
								cc.close()
							}
						}
						cc.outboundAliveChangeCallback(uint8(ob), mode == 1)(alive, c16kNT(tok), init)
						ch := c16kChanged(m)
						st.Emit(fmt.Sprintf("kcb %d %s %s %s %s %s %s", ob, tok, c16kBool(alive), c16kBool(init),
							c16kBool(mode == 1), c16kBool(mode == 2), c16kBool(mode == 3)), ch)
						var k, v uint32
						if n, _ := fmt.Sscanf(ch, "key=%d val=%d", &k, &v); n == 2 {
							_ = m.Update(k, c16kSentinel, ebpf.UpdateAny)
						} else if ch != "unchanged" {
							c16kFill(m)
						}
						stats.Inc(fmt.Sprintf("closure.mode%d", mode))
					}
				}
			}
		}
	}

	// (b) end to end: real groups wired to the real closure; reloads through the REAL
	// ControlPlane.InheritDialerHealthFrom
	log := logrus.New()
	log.SetOutput(io.Discard)
	log.SetLevel(logrus.WarnLevel)
	opt := &dialer.GlobalOption{Log: log, CheckInterval: 30 * time.Second}
	pols := map[string]consts.DialerSelectionPolicy{
		"min_last":   consts.DialerSelectionPolicy_MinLastLatency,
		"min_moving": consts.DialerSelectionPolicy_MinMovingAverageLatencies,
		"min_avg":    consts.DialerSelectionPolicy_MinAverage10Latencies,
		"random":     consts.DialerSelectionPolicy_Random,
		"fixed":      consts.DialerSelectionPolicy_Fixed,
	}
	polNames := []string{"min_last", "min_moving", "min_avg", "min_last", "random", "fixed"}
	nScn := 60
	if VThorough() {
		nScn = 800
	}
	for sc := 0; sc < nScn; sc++ {
		dialer.ResetGlobalProxyStateForReload()
		c16kFill(m)
		st.Emit("scenario", "ok")
		var nodes []*c16kNode   // every node ever created in this scenario (model ids = index)
		var groups []*c16kGroup // every group ever created
		var curNodes []*c16kNode
		var curGroups []*c16kGroup
		var drainNodes []*c16kNode // nodes of a previous generation: it keeps reporting while it drains
		// one core per generation on the SAME map; namesake groups of successive generations get the same
		// outbound id (production: the position in the config); dial_mode != ip = dry-run closures
		dryrun := r.Chance(0.25)
		genCores := []*controlPlaneCore{}
		newCore := func() int {
			cc, _ := c16kCoreOn(m)
			genCores = append(genCores, cc)
			return len(genCores) - 1
		}
		curCore := newCore()
		if dryrun {
			stats.Inc("scenario.dryrun")
		}
		// impl answer: alive flags of all nodes, Len() of every set, kernel bits
		state := func() string {
			var sb strings.Builder
			sb.WriteString("A[")
			for i, n := range nodes {
				if i > 0 {
					sb.WriteByte(';')
				}
				fmt.Fprintf(&sb, "%d:", n.id)
				for _, tok := range c16kStd {
					sb.WriteString(c16kBool(n.d.MustGetAlive(c16kNT(tok))))
				}
			}
			sb.WriteString("] L[")
			var kb strings.Builder
			first := true
			for _, g := range groups {
				if g.pol == "fixed" {
					continue
				}
				for _, tok := range c16kStd {
					if !first {
						sb.WriteByte(',')
					}
					first = false
					fmt.Fprint(&sb, g.g.MustGetAliveDialerSet(c16kNT(tok)).Len())
					var v uint32
					_ = m.Lookup(outboundConnectivityMapKey(uint8(g.ob), c16kNT(tok)), &v)
					switch v {
					case 0:
						kb.WriteByte('0')
					case 1:
						kb.WriteByte('1')
					default:
						kb.WriteByte('?')
					}
				}
			}
			fmt.Fprintf(&sb, "] K[%s] M[", kb.String())
			// the six slots of every group's outbound id in the REAL map (fixed-policy groups included)
			for i, g := range groups {
				if i > 0 {
					sb.WriteByte(';')
				}
				sb.WriteString(c16kSlots(m, g.ob))
			}
			sb.WriteString("]")
			return sb.String()
		}
		addNodeL := func(addr int, nameId int, linkId int) *c16kNode {
			n := &c16kNode{id: len(nodes), nameId: nameId, linkId: linkId}
			if nameId < 0 {
				n.nameId = n.id
			}
			if linkId < 0 {
				n.linkId = n.id
			}
			a := ""
			if addr != 0 {
				a = fmt.Sprintf("addr%d", addr)
			}
			n.d = dialer.NewDialer(c16kNoop{}, opt, dialer.InstanceOption{DisableCheck: true},
				&dialer.Property{Property: D.Property{Name: fmt.Sprintf("n%d", n.nameId), Address: a, Link: fmt.Sprintf("link%d", n.linkId)}})
			nodes = append(nodes, n)
			st.Emit(fmt.Sprintf("node %d %d |", n.id, addr), state())
			return n
		}
		addNode := func(addr int, nameId int) *c16kNode { return addNodeL(addr, nameId, -1) }
		addGroup := func(members []*c16kNode, pol string, nameId int) *c16kGroup {
			g := &c16kGroup{id: len(groups), pol: pol, nameId: nameId, members: members}
			// outbound ids over the whole uint8 range (the key base must not be computed in uint8)
			if nameId < 0 {
				g.nameId = g.id
			}
			g.ob = (2 + g.nameId*47) % 254 // by NAME: shared with the namesake of the other generation; whole uint8 range
			ds := make([]*dialer.Dialer, len(members))
			ans := make([]*dialer.Annotation, len(members))
			var ms []string
			for i, mm := range members {
				ds[i] = mm.d
				ans[i] = &dialer.Annotation{}
				ms = append(ms, fmt.Sprintf("%d:0", mm.id))
			}
			g.g = outbound.NewDialerGroup(opt, fmt.Sprintf("g%d", g.nameId), ds, ans,
				outbound.DialerSelectionPolicy{Policy: pols[g.pol]}, genCores[curCore].outboundAliveChangeCallback(uint8(g.ob), dryrun))
			groups = append(groups, g)
			mstr := "-"
			if len(ms) > 0 {
				mstr = strings.Join(ms, ",")
			}
			st.Emit(fmt.Sprintf("wire %d %d %d %s", g.id, curCore, g.ob, c16kBool(dryrun)), "ok")
			st.Emit(fmt.Sprintf("group %d %d %s 0 %s |", g.id, g.ob, g.pol, mstr), state())
			stats.Inc("group." + g.pol)
			return g
		}
		hasName := func(ms []*c16kNode, nameId int) bool {
			for _, x := range ms {
				if x.nameId == nameId {
					return true
				}
			}
			return false
		}
		pick := func(pool []*c16kNode, pol string) []*c16kNode {
			var ms []*c16kNode
			for _, n := range pool {
				if r.Chance(0.7) && !hasName(ms, n.nameId) {
					ms = append(ms, n)
				}
			}
			// the fallback a random-policy group captures inside InheritDialerHealthFrom is not
			// observable; with at most one member it is determined
			if pol == "random" && len(ms) > 1 {
				ms = ms[:1]
			}
			for i := len(ms) - 1; i > 0; i-- {
				j := r.Intn(i + 1)
				ms[i], ms[j] = ms[j], ms[i]
			}
			return ms
		}
		nn := 1 + r.Intn(4)
		for i := 0; i < nn; i++ {
			curNodes = append(curNodes, addNode([]int{0, 1, 1}[r.Intn(3)], -1))
		}
		for i := 1 + r.Intn(3); i > 0; i-- {
			pol := polNames[r.Intn(len(polNames))]
			ms := pick(curNodes, pol)
			// per-group clones (as NewControlPlane's check-option override loop creates them): a distinct
			// dialer object with the same name, member of this group only, with its own health
			for k := range ms {
				if r.Chance(0.3) && len(nodes) < 12 {
					cl := addNodeL(0, ms[k].nameId, ms[k].linkId)
					curNodes = append(curNodes, cl)
					ms[k] = cl
					stats.Inc("clone")
				}
			}
			// same node NAME twice in one group (two subscriptions / repeated "#name"): a twin with its own link
			if len(ms) > 0 && pol != "random" && r.Chance(0.35) && len(nodes) < 12 {
				tw := addNodeL(0, ms[r.Intn(len(ms))].nameId, -1)
				curNodes = append(curNodes, tw)
				ms = append(ms, tw)
				stats.Inc("twin_same_name")
			}
			curGroups = append(curGroups, addGroup(ms, pol, -1))
		}
		// the reload: a new generation built from the current one, then the real method
		reload := func() {
			oldNodes, oldGroups := curNodes, curGroups
			oldCore := curCore
			curCore = newCore()
			var newNodes []*c16kNode
			newOf := map[*c16kNode]*c16kNode{}
			for _, o := range oldNodes {
				if r.Chance(0.9) {
					nw := addNodeL(0, o.nameId, o.linkId) // same name and link (clones / twins stay distinct objects)
					newOf[o] = nw
					newNodes = append(newNodes, nw)
				}
			}
			if r.Chance(0.3) {
				newNodes = append(newNodes, addNode(0, -1)) // a node the old generation did not have
			}
			var newGroups []*c16kGroup
			for _, og := range oldGroups {
				if r.Chance(0.1) {
					continue // group removed by the new config
				}
				var ms []*c16kNode
				for _, mm := range og.members {
					if nw := newOf[mm]; nw != nil && r.Chance(0.9) {
						ms = append(ms, nw)
					}
				}
				if r.Chance(0.3) { // membership edited: add other new nodes (names new to this group)
					for _, nw := range newNodes {
						if !hasName(ms, nw.nameId) && r.Chance(0.4) {
							ms = append(ms, nw)
						}
					}
				}
				if r.Chance(0.35) && len(oldNodes) > 0 {
					// a FRESH dialer whose name exists in the old generation, possibly only in ANOTHER old group
					// (filter change / per-group clone): it must inherit from this group's namesake member or from nobody
					src := oldNodes[r.Intn(len(oldNodes))]
					if !hasName(ms, src.nameId) {
						cl := addNode(0, src.nameId)
						newNodes = append(newNodes, cl)
						ms = append(ms, cl)
						if !hasName(og.members, src.nameId) {
							stats.Inc("reload.name_only_in_other_group")
						}
					}
				}
				if og.pol == "random" && len(ms) > 1 {
					ms = ms[:1]
				}
				// member order is not stable across generations (Go map iteration over the subscriptions)
				for i := len(ms) - 1; i > 0; i-- {
					k := r.Intn(i + 1)
					ms[i], ms[k] = ms[k], ms[i]
				}
				dup := map[int]int{}
				for _, x := range ms {
					dup[x.nameId]++
					if dup[x.nameId] == 2 {
						stats.Inc("reload.group_with_duplicate_names")
					}
				}
				newGroups = append(newGroups, addGroup(ms, og.pol, og.nameId))
			}
			if r.Chance(0.4) { // a group without a namesake in the old generation
				pol := polNames[r.Intn(len(polNames))]
				newGroups = append(newGroups, addGroup(pick(newNodes, pol), pol, -1))
			}
			j := func(x []string) string {
				if len(x) == 0 {
					return "-"
				}
				return strings.Join(x, ",")
			}
			mem := func(ms []*c16kNode) string {
				var x []string
				for _, n := range ms {
					x = append(x, fmt.Sprintf("%d:%d:%d", n.id, n.nameId, n.linkId))
				}
				return j(x)
			}
			// both generations are handed to the model, which does the (group name, node name) matching itself;
			// the fallback is what the real method will capture first (all nodes of the new generation are
			// fresh; deterministic for min policies / single-member random groups / fixed)
			var toks []string
			for _, og := range oldGroups {
				toks = append(toks, fmt.Sprintf("o/%d/%s", og.nameId, mem(og.members)))
			}
			cnt := map[int]int{}
			for _, ng := range newGroups {
				fb := ng.g.CaptureReloadSelectionFallback()
				var fbs []string
				for i := 0; i < 8; i++ {
					if fb[i] != nil {
						for _, n := range nodes {
							if n.d == fb[i] {
								fbs = append(fbs, fmt.Sprintf("%d:%d", i, n.id))
							}
						}
					}
				}
				for _, n := range ng.members {
					cnt[n.id]++
				}
				toks = append(toks, fmt.Sprintf("n/%d/%d/%s/%s", ng.id, ng.nameId, j(fbs), mem(ng.members)))
			}
			for _, c := range cnt {
				if c > 1 {
					stats.Inc("reload.shared_node")
					break
				}
			}
			og := make([]*outbound.DialerGroup, len(oldGroups))
			for i, g := range oldGroups {
				og[i] = g.g
			}
			ng := make([]*outbound.DialerGroup, len(newGroups))
			for i, g := range newGroups {
				ng[i] = g.g
			}
			oldCP := &ControlPlane{log: log, core: genCores[oldCore], controlPlaneGenerationState: controlPlaneGenerationState{outbounds: og}}
			newCP := &ControlPlane{log: log, core: genCores[curCore], controlPlaneGenerationState: controlPlaneGenerationState{outbounds: ng}}
			overlap := newCP.InheritDialerHealthFrom(oldCP)
			st.Emit("handover "+strings.Join(toks, " ")+" |", state())
			stats.Inc("reload")
			if overlap {
				stats.Inc("reload.overlap")
			}
			curNodes, curGroups = newNodes, newGroups
			drainNodes = oldNodes
			// the old generation is still live for a moment (its reports reach the shared map) ...
			for k := r.Intn(3); k > 0 && len(oldNodes) > 0; k-- {
				o := oldNodes[r.Intn(len(oldNodes))]
				tok := c16kAll[r.Intn(len(c16kAll))]
				if r.Bool() {
					o.d.ReportUnavailableForced(c16kNT(tok), nil)
					st.Emit(fmt.Sprintf("forced %d %s |", o.id, tok), state())
				} else {
					o.d.ReportAvailableTraffic(c16kNT(tok))
					st.Emit(fmt.Sprintf("tok %d %s |", o.id, tok), state())
				}
				stats.Inc("old_gen_report_before_retire")
			}
			// ... until the real MarkRetired
			if r.Chance(0.85) {
				oldCP.MarkRetired()
				st.Emit(fmt.Sprintf("silence %d", oldCore), state())
				stats.Inc("retired")
			}
		}
		for ev := 0; ev < 70; ev++ {
			if len(curNodes) == 0 {
				break
			}
			n := curNodes[r.Intn(len(curNodes))]
			if len(drainNodes) > 0 && r.Chance(0.25) {
				n = drainNodes[r.Intn(len(drainNodes))] // a draining generation still probes / carries traffic
				stats.Inc("old_gen_report_while_draining")
			}
			tok := c16kAll[r.Intn(len(c16kAll))]
			switch r.Intn(12) {
			case 0, 1, 2:
				n.d.ReportUnavailableForced(c16kNT(tok), errors.New("x"))
				st.Emit(fmt.Sprintf("forced %d %s |", n.id, tok), state())
				stats.Inc("op.forced")
			case 3, 4, 5:
				n.d.ReportAvailableTraffic(c16kNT(tok))
				st.Emit(fmt.Sprintf("tok %d %s |", n.id, tok), state())
				stats.Inc("op.tok")
			case 6:
				n.d.ReportUnavailableTransactional(c16kNT(tok), errors.New("timeout"))
				st.Emit(fmt.Sprintf("txn %d %s 0 |", n.id, tok), state())
				stats.Inc("op.txn")
			case 7, 8:
				// kill every member of one group in one domain (both families sometimes)
				if len(curGroups) > 0 {
					g := curGroups[r.Intn(len(curGroups))]
					for _, mm := range g.members {
						if r.Chance(0.9) {
							mm.d.ReportUnavailableForced(c16kNT(tok), nil)
							st.Emit(fmt.Sprintf("forced %d %s |", mm.id, tok), state())
						}
					}
					stats.Inc("killall")
				}
			case 9:
				o := curNodes[r.Intn(len(curNodes))]
				n.d.RestoreHealthSnapshot(o.d.ReloadHealthSnapshot())
				st.Emit(fmt.Sprintf("inherit %d %d |", n.id, o.id), state())
				stats.Inc("op.inherit")
			case 10:
				if len(curGroups) > 0 {
					g := curGroups[r.Intn(len(curGroups))]
					var fb outbound.ReloadSelectionFallback
					g.g.EnsureReloadSelectionFloor(fb)
					st.Emit(fmt.Sprintf("floor %d - |", g.id), state())
					stats.Inc("op.floor")
				}
			case 11:
				if len(nodes) < 20 {
					reload()
				}
			}
			stats.Inc("event")
		}
		k := state()
		k = k[strings.Index(k, "K["):]
		stats.Add("bits.zero", strings.Count(k, "0"))
		stats.Add("bits.one", strings.Count(k, "1"))
		for _, g := range groups {
			_ = g.g.Close()
		}
		for _, n := range nodes {
			_ = n.d.Close()
		}
	}
	stats.Write("c16k")
}

// ---- (c) the wiring done by control.NewControlPlane: the region from `// Dial mode.` to the end of the
// group loop is executed VERBATIM (extracted from the current control_plane.go by checks/c16.py into
// c16RealWiring) with a real core on the real map: dial-mode parse, disableKernelAliveCallback, the
// direct/block groups, the pool, per-group override clones, outbound id = position.

func c16wPol(p consts.DialerSelectionPolicy) string {
	switch p {
	case consts.DialerSelectionPolicy_MinLastLatency:
		return "min_last"
	case consts.DialerSelectionPolicy_MinAverage10Latencies:
		return "min_avg"
	case consts.DialerSelectionPolicy_MinMovingAverageLatencies:
		return "min_moving"
	case consts.DialerSelectionPolicy_Random:
		return "random"
	}
	return "fixed"
}

func TestVerifC16Wiring(t *testing.T) {
	st := VOpenStream("c16w")
	defer st.Close()
	stats := NewVStats()
	core, m := c16kCore(t)
	if core == nil {
		st.Emit("nobpf", "nobpf")
		stats.Inc("nobpf")
		stats.Write("c16w")
		return
	}
	defer m.Close()
	r := NewVRand(VSeed() + 1600)
	log := logrus.New()
	log.SetOutput(io.Discard)
	log.SetLevel(logrus.ErrorLevel)
	nScn := 24
	if VThorough() {
		nScn = 160
	}
	cbBad, cbSeen, cbDetail := 0, 0, ""
	defer func() {
		b, _ := json.Marshal(map[string]any{"registration_executed": c16WiringHasRegistration, "dialers": cbSeen, "bad": cbBad, "detail": cbDetail})
		_ = os.WriteFile(filepath.Join(VOutDir(), "c16w.json"), b, 0o644)
	}()
	modes := []string{"ip", "ip", "domain", "domain+", "domain++"}
	policies := []any{"min", "min_avg10", "min_moving_avg", "random",
		[]*config_parser.Function{{Name: "fixed", Params: []*config_parser.Param{{Val: "0"}}}}}
	for sc := 0; sc < nScn; sc++ {
		c16kFill(m)
		st.Emit("scenario", "ok")
		mode := modes[r.Intn(len(modes))]
		stats.Inc("mode." + mode)
		names := []string{"a", "b", "c", "d"}[:1+r.Intn(4)]
		tagToNodeList := map[string][]string{}
		for i, nm := range names {
			tagToNodeList[""] = append(tagToNodeList[""], fmt.Sprintf("socks5://127.0.0.1:%d#%s", 2000+i, nm))
		}
		var groups []config.Group
		for gi := 1 + r.Intn(4); gi > 0; gi-- {
			g := config.Group{Name: fmt.Sprintf("g%d", len(groups)), Policy: policies[r.Intn(len(policies))]}
			if r.Chance(0.5) { // a filter: some of the names
				f := &config_parser.Function{Name: "name"}
				for _, nm := range names {
					if r.Chance(0.6) {
						f.Params = append(f.Params, &config_parser.Param{Val: nm})
					}
				}
				if len(f.Params) > 0 {
					g.Filter = [][]*config_parser.Function{{f}}
					g.FilterAnnotation = [][]*config_parser.Param{nil}
				}
			}
			if r.Chance(0.3) { // check-option override: the group gets its own clones of the nodes
				g.TcpCheckUrl = []string{"http://example.invalid/generate_204"}
				stats.Inc("group.override_clones")
			}
			groups = append(groups, g)
		}
		global := &config.Global{DialMode: mode, CheckInterval: 30 * time.Second,
			TcpCheckUrl: []string{"http://cp.cloudflare.com"}, UdpCheckDns: []string{"dns.google:53"}}
		option := &dialer.GlobalOption{Log: log, CheckInterval: 30 * time.Second}
		cc, _ := c16kCoreOn(m)
		res, err := func() (res *c16Wiring, err error) {
			defer func() {
				if rec := recover(); rec != nil {
					err = fmt.Errorf("crash:%v", rec)
				}
			}()
			return c16RealWiring(cc, option, global, tagToNodeList, groups, log)
		}()
		if err != nil || res == nil {
			st.Emit("crash", fmt.Sprintf("crash:wiring region failed: %v", err))
			continue
		}
		// what the documented intent says the wiring must be: outbound id = position, non-init callbacks
		// write only in dial_mode ip
		dry := mode != "ip"
		ids := map[*dialer.Dialer]int{}
		var nodes []*dialer.Dialer
		for _, og := range res.Outbounds {
			for _, d := range og.Dialers {
				if _, ok := ids[d]; !ok {
					ids[d] = len(nodes)
					nodes = append(nodes, d)
					st.Emit(fmt.Sprintf("quiet node %d 0 |", ids[d]), "SETUP")
				}
			}
		}
		type wg struct {
			pol string
			og  *outbound.DialerGroup
		}
		var wgs []wg
		for k, og := range res.Outbounds {
			pol := c16wPol(og.GetSelectionPolicy())
			var ms []string
			for _, d := range og.Dialers {
				ms = append(ms, fmt.Sprintf("%d:0", ids[d]))
			}
			mstr := "-"
			if len(ms) > 0 {
				mstr = strings.Join(ms, ",")
			}
			st.Emit(fmt.Sprintf("quiet wire %d 0 %d %s", k, k, c16kBool(dry)), "SETUP")
			st.Emit(fmt.Sprintf("quiet group %d %d %s 0 %s |", k, k, pol, mstr), "SETUP")
			wgs = append(wgs, wg{pol, og})
			stats.Inc("wired." + pol)
		}
		state := func() string {
			var sb strings.Builder
			sb.WriteString("A[")
			for i, d := range nodes {
				if i > 0 {
					sb.WriteByte(';')
				}
				fmt.Fprintf(&sb, "%d:", i)
				for _, tok := range c16kStd {
					sb.WriteString(c16kBool(d.MustGetAlive(c16kNT(tok))))
				}
			}
			sb.WriteString("] L[")
			var kb strings.Builder
			first := true
			for k, w := range wgs {
				if w.pol == "fixed" {
					continue
				}
				for _, tok := range c16kStd {
					if !first {
						sb.WriteByte(',')
					}
					first = false
					fmt.Fprint(&sb, w.og.MustGetAliveDialerSet(c16kNT(tok)).Len())
					var v uint32
					_ = m.Lookup(outboundConnectivityMapKey(uint8(k), c16kNT(tok)), &v)
					if v <= 1 {
						kb.WriteByte(byte('0' + v))
					} else {
						kb.WriteByte('?')
					}
				}
			}
			fmt.Fprintf(&sb, "] K[%s] M[", kb.String())
			for k := range wgs {
				if k > 0 {
					sb.WriteByte(';')
				}
				sb.WriteString(c16kSlots(m, k))
			}
			sb.WriteString("]")
			return sb.String()
		}
		st.Emit("tick 0", state())
		// the registration loop that follows the group loop: ONE alive-transition callback per dialer,
		// however many groups share it ("callbacks fire exactly once per actual transition")
		if c16WiringHasRegistration {
			for _, d := range nodes {
				if k := d.VerifC16TransitionCallbacks(); k != 1 {
					cbBad++
					if cbDetail == "" {
						cbDetail = fmt.Sprintf("scenario %d: dialer %q has %d alive-transition callbacks registered", sc, d.Property().Name, k)
					}
				}
				cbSeen++
			}
		}
		for ev := 0; ev < 14 && len(nodes) > 0; ev++ {
			tok := c16kAll[r.Intn(len(c16kAll))]
			switch r.Intn(4) {
			case 0, 1: // kill every member of one group
				w := wgs[r.Intn(len(wgs))]
				for _, d := range w.og.Dialers {
					d.ReportUnavailableForced(c16kNT(tok), nil)
					st.Emit(fmt.Sprintf("forced %d %s |", ids[d], tok), state())
				}
				stats.Inc("killall")
			case 2:
				d := nodes[r.Intn(len(nodes))]
				d.ReportAvailableTraffic(c16kNT(tok))
				st.Emit(fmt.Sprintf("tok %d %s |", ids[d], tok), state())
			case 3:
				d := nodes[r.Intn(len(nodes))]
				d.ReportUnavailableForced(c16kNT(tok), nil)
				st.Emit(fmt.Sprintf("forced %d %s |", ids[d], tok), state())
			}
			stats.Inc("event")
		}
		for _, og := range res.Outbounds {
			_ = og.Close()
		}
		for i := len(res.DeferFuncs) - 1; i >= 0; i-- {
			_ = res.DeferFuncs[i]()
		}
		for _, d := range nodes {
			_ = d.Close()
		}
	}
	stats.Write("c16w")
}


// ---- (d) directed witness of the OPEN finding c16-aborted-reload-leaves-init-bits: the live generation's
// latency-policy group is all-dead on tcp4 (bit 0); a staged generation on the SAME map builds the namesake
// group (NewDialerGroup's six init writes) and is then closed without ever going live (reload aborted after
// the group loop). The bit must still describe the live generation.

func TestVerifC16AbortedReload(t *testing.T) {
	res := map[string]any{"bpf": false}
	defer func() {
		b, _ := json.Marshal(res)
		_ = os.WriteFile(filepath.Join(VOutDir(), "c16g2.json"), b, 0o644)
	}()
	core, m := c16kCore(t)
	if core == nil {
		return
	}
	defer m.Close()
	res["bpf"] = true
	log := logrus.New()
	log.SetOutput(io.Discard)
	opt := &dialer.GlobalOption{Log: log, CheckInterval: 30 * time.Second}
	mk := func(name string) *dialer.Dialer {
		return dialer.NewDialer(c16kNoop{}, opt, dialer.InstanceOption{DisableCheck: true}, &dialer.Property{Property: D.Property{Name: name}})
	}
	tcp4 := c16kNT("t4")
	pol := outbound.DialerSelectionPolicy{Policy: consts.DialerSelectionPolicy_MinLastLatency}
	live := mk("a")
	liveG := outbound.NewDialerGroup(opt, "proxy", []*dialer.Dialer{live}, []*dialer.Annotation{{}}, pol, core.outboundAliveChangeCallback(2, false))
	live.ReportUnavailableForced(tcp4, nil)
	key := outboundConnectivityMapKey(2, tcp4)
	var v uint32
	_ = m.Lookup(key, &v)
	res["live_len"] = liveG.MustGetAliveDialerSet(tcp4).Len()
	res["bit_before"] = v
	staged, _ := c16kCoreOn(m)
	stagedD := mk("a")
	stagedG := outbound.NewDialerGroup(opt, "proxy", []*dialer.Dialer{stagedD}, []*dialer.Annotation{{}}, pol, staged.outboundAliveChangeCallback(2, false))
	_ = stagedG.Close()
	staged.close() // the deferred core.Close() of the failed NewControlPlane
	_ = stagedD.Close()
	_ = m.Lookup(key, &v)
	res["bit_after"] = v
	res["live_len_after"] = liveG.MustGetAliveDialerSet(tcp4).Len()
	_ = liveG.Close()
	_ = live.Close()
}
