package control

// C03 correspondence harness (Go side).
//
// TestVerifC03Gen writes the op streams that are afterwards fed to the native C driver
// (harness/c/c03_driver.c: the real TC programs of control/kern/tproxy.c) and to the Lean driver
// (c03drv): structured flow scenarios (c03a: roomy maps, c03b: tiny maps so that the overflow paths
// run), a parser section (c03p) and the replays of the known witnesses (c03f).  Ops that only the Go
// side can answer (connkey = the real outboundConnectivityMapKey, hoexp = the real
// routingHandoffExpired, const = unsafe.Offsetof/Sizeof of the bpf2go struct types and the Go
// constants) are answered here; everything else is answered by the C driver.
//
// TestVerifC03Retr is the second pass: for every `retr` op it loads the RAW key/value bytes the
// kernel program stored (dumped by the C driver) into real kernel hash maps (bpf(2) works in this
// sandbox) and calls the REAL controlPlaneCore.RetrieveRoutingResult with the real
// bpfTuplesKeyFromAddrPorts key construction; the hand-off timestamps are rebased from the harness
// clock to CLOCK_MONOTONIC.

import (
	"bufio"
	"bytes"
	"encoding/binary"
	"encoding/hex"
	stderrors "errors"
	"fmt"
	"sort"
	"io"
	"net"
	"net/netip"
	"os"
	"path/filepath"
	"strconv"
	"strings"
	"testing"
	"testing/synctest"
	"time"
	"unsafe"

	"github.com/cilium/ebpf"
	"github.com/daeuniverse/dae/common"
	"github.com/daeuniverse/dae/common/consts"
	"github.com/daeuniverse/dae/component/outbound/dialer"
	"github.com/sirupsen/logrus"
)

const (
	c03EthIP   = 0x0800
	c03EthIPv6 = 0x86DD
	c03FlagFIN = 1
	c03FlagSYN = 2
	c03FlagRST = 4
	c03FlagPSH = 8
	c03FlagACK = 16
)

// ------------------------------------------------------------------ frames

type c03Ext struct {
	typ  byte // 0 hop-by-hop, 43 routing, 60 dstopts, 44 fragment
	len8 byte // hdr_ext_len (units of 8 bytes beyond the first 8)
	frag uint16
}

type c03Flow struct {
	id     int
	v6     bool
	tcp    bool
	sip    [16]byte // ::ffff:a.b.c.d for IPv4
	dip    [16]byte
	sport  uint16
	dport  uint16
	kind   int // 0 LAN client -> remote, 1 local process -> remote, 2 remote -> local service, 3 remote -> LAN service
	l2lan  bool
	l2wan  bool
	cmac   [6]byte
	gmac   [6]byte
	tos    byte
	ext    []c03Ext
	cookie uint64
	step   int // progress of the natural TCP life cycle
}

func c03Mapped(a, b, c, d byte) [16]byte {
	return [16]byte{0, 0, 0, 0, 0, 0, 0, 0, 0, 0, 0xff, 0xff, a, b, c, d}
}

type c03Mut struct {
	fragOff  uint16 // IPv4 frag_off field (incl. MF) / applied to the first IPv6 fragment header
	ihl      byte   // 0 = default 5
	l4proto  byte   // 0 = flow's
	truncate int    // -1 = none, else cut the frame to this length
	ethProto uint16 // 0 = natural
	version  byte   // 0 = natural (IPv4 version nibble)
	doff     byte   // 0 = natural (5); TCP data offset in 32-bit words, options are zero bytes
	skbProto int    // 0 = natural; skb->protocol differing from the frame's ethertype
	icmpType byte
	extra    []c03Ext
}

// builds the frame of flow f in direction fwd (src->dst) or reverse, with TCP flags
func c03Frame(f *c03Flow, fwd bool, flags byte, l2 bool, m *c03Mut) []byte {
	sip, dip, sp, dp := f.sip, f.dip, f.sport, f.dport
	smac, dmac := f.cmac, f.gmac
	if !fwd {
		sip, dip, sp, dp = dip, sip, dp, sp
		smac, dmac = dmac, smac
	}
	var l4 []byte
	proto := byte(17)
	if f.tcp {
		proto = 6
	}
	if m != nil && m.l4proto != 0 {
		proto = m.l4proto
	}
	switch proto {
	case 6:
		l4 = make([]byte, 20, 32)
		binary.BigEndian.PutUint16(l4[0:], sp)
		binary.BigEndian.PutUint16(l4[2:], dp)
		binary.BigEndian.PutUint32(l4[4:], 0x01020304)
		binary.BigEndian.PutUint32(l4[8:], 0x05060708)
		l4[12] = 0x50
		l4[13] = flags
		binary.BigEndian.PutUint16(l4[14:], 65535)
		if m != nil && m.doff != 0 {
			l4[12] = m.doff << 4
			for i := 5; i < int(m.doff); i++ {
				l4 = append(l4, 1, 1, 1, 1) // NOP options
			}
		}
		l4 = append(l4, 'h', 'i')
	case 17:
		l4 = make([]byte, 8, 16)
		binary.BigEndian.PutUint16(l4[0:], sp)
		binary.BigEndian.PutUint16(l4[2:], dp)
		binary.BigEndian.PutUint16(l4[4:], 12)
		l4 = append(l4, 'd', 'a', 't', 'a')
	case 58:
		l4 = make([]byte, 8, 16)
		if m != nil {
			l4[0] = m.icmpType
		}
		l4 = append(l4, 0, 0, 0, 0)
	default:
		l4 = []byte{1, 2, 3, 4, 5, 6, 7, 8, 9, 10, 11, 12}
	}
	var ip []byte
	if !f.v6 {
		ihl := byte(5)
		if m != nil && m.ihl != 0 {
			ihl = m.ihl
		}
		hl := int(ihl) * 4
		if hl < 20 {
			hl = 20
		}
		ip = make([]byte, hl)
		ver := byte(4)
		if m != nil && m.version != 0 {
			ver = m.version
		}
		ip[0] = ver<<4 | ihl
		ip[1] = f.tos
		binary.BigEndian.PutUint16(ip[2:], uint16(hl+len(l4)))
		if m != nil {
			binary.BigEndian.PutUint16(ip[6:], m.fragOff)
		}
		ip[8] = 64
		ip[9] = proto
		copy(ip[12:16], sip[12:])
		copy(ip[16:20], dip[12:])
	} else {
		ip = make([]byte, 40)
		ip[0] = 0x60 | f.tos>>4
		ip[1] = f.tos << 4
		ip[7] = 64
		copy(ip[8:24], sip[:])
		copy(ip[24:40], dip[:])
		exts := f.ext
		if m != nil && m.extra != nil {
			exts = m.extra
		}
		next := &ip[6]
		for _, e := range exts {
			*next = e.typ
			var h []byte
			if e.typ == 44 {
				h = make([]byte, 8)
				fo := e.frag
				if m != nil && m.fragOff != 0 {
					fo = m.fragOff
				}
				binary.BigEndian.PutUint16(h[2:], fo)
				h[4] = 0xde
			} else {
				h = make([]byte, 8*(int(e.len8)+1))
				h[1] = e.len8
			}
			ip = append(ip, h...)
			next = &ip[len(ip)-len(h)]
		}
		*next = proto
		binary.BigEndian.PutUint16(ip[4:], uint16(len(ip)-40+len(l4)))
	}
	var fr []byte
	if l2 {
		et := uint16(c03EthIP)
		if f.v6 {
			et = c03EthIPv6
		}
		if m != nil && m.ethProto != 0 {
			et = m.ethProto
		}
		fr = append(fr, dmac[:]...)
		fr = append(fr, smac[:]...)
		fr = append(fr, byte(et>>8), byte(et))
	}
	fr = append(fr, ip...)
	fr = append(fr, l4...)
	if m != nil && m.truncate >= 0 && m.truncate < len(fr) {
		fr = fr[:m.truncate]
	}
	return fr
}

func (f *c03Flow) skbProto() int {
	if f.v6 {
		return c03EthIPv6
	}
	return c03EthIP
}

// struct tuples_key image of the flow's forward / reverse tuple (for conndel)
func c03KeyHex(f *c03Flow, fwd bool) string {
	b := make([]byte, 40)
	if fwd {
		copy(b[0:], f.sip[:])
		copy(b[16:], f.dip[:])
		binary.BigEndian.PutUint16(b[32:], f.sport)
		binary.BigEndian.PutUint16(b[34:], f.dport)
	} else {
		copy(b[0:], f.dip[:])
		copy(b[16:], f.sip[:])
		binary.BigEndian.PutUint16(b[32:], f.dport)
		binary.BigEndian.PutUint16(b[34:], f.sport)
	}
	b[36] = 17
	if f.tcp {
		b[36] = 6
	}
	return hex.EncodeToString(b)
}

// ------------------------------------------------------------------ rule programs (struct match_set images)

type c03Cond struct {
	typ  consts.MatchType
	not  bool
	alts [][16]byte // one value image per alternative
}

type c03Rule struct {
	conds    []c03Cond
	outbound uint8
	must     bool
	mark     uint32
}

func c03Image(ms *bpfMatchSet) string {
	return hex.EncodeToString(unsafe.Slice((*byte)(unsafe.Pointer(ms)), unsafe.Sizeof(*ms)))
}

func c03B2u(b bool) uint8 {
	if b {
		return 1
	}
	return 0
}

// lowers rules to the kernel array exactly like RoutingMatcherBuilder does: alternatives chained with
// LOGICAL_OR, conditions with LOGICAL_AND, the last entry carries the outbound
func c03Lower(rules []c03Rule) []string {
	var out []string
	for _, r := range rules {
		for ci, c := range r.conds {
			for ai, v := range c.alts {
				ms := bpfMatchSet{Value: v, Not: c03B2u(c.not), Type: uint8(c.typ), Mark: r.mark, Must: c03B2u(r.must)}
				switch {
				case ai < len(c.alts)-1:
					ms.Outbound = uint8(consts.OutboundLogicalOr)
				case ci < len(r.conds)-1:
					ms.Outbound = uint8(consts.OutboundLogicalAnd)
				default:
					ms.Outbound = r.outbound
				}
				out = append(out, c03Image(&ms))
			}
		}
	}
	return out
}

func c03PortVal(lo, hi uint16) (v [16]byte) {
	binary.LittleEndian.PutUint16(v[0:], lo)
	binary.LittleEndian.PutUint16(v[2:], hi)
	return
}

func c03U32Val(x uint32) (v [16]byte) {
	binary.LittleEndian.PutUint32(v[0:], x)
	return
}

func c03Pname(s string) (v [16]byte) {
	copy(v[:], s)
	return
}

var c03Pnames = []string{"curl", "firefox", "dae", "sshd", ""}

func c03RandOutbound(r *VRand, stats *VStats) (ob uint8, must bool, mark uint32) {
	switch x := r.Intn(20); {
	case x < 5:
		ob = uint8(consts.OutboundDirect)
	case x < 7:
		ob = uint8(consts.OutboundBlock)
	case x < 9:
		ob = uint8(consts.OutboundDirect)
		mark = uint32(1 + r.Intn(3))
		if r.Chance(0.2) {
			mark = 0xffffffff
		}
	default:
		ob = uint8(2 + r.Intn(4))
		if r.Chance(0.25) {
			mark = uint32(r.Intn(5)) << 4
		}
		if r.Chance(0.05) {
			ob = 251
		}
	}
	must = r.Chance(0.15)
	stats.Inc(fmt.Sprintf("rule.outbound.%s", map[bool]string{true: "direct", false: map[bool]string{true: "block", false: "group"}[ob == 1]}[ob == 0]))
	if mark != 0 {
		stats.Inc("rule.mark")
	}
	if must {
		stats.Inc("rule.must")
	}
	return
}

// a random program aimed at the flows of the scenario; returns the lowered images and the number of
// domain-set entries' array positions (for dom bitmaps)
type c03Prog struct {
	imgs    []string
	domIdx  []int
	lpmOps  []string // lpm <slot> <n> keys...
	metaLen int
}

func c03LpmKey(plen int, data [16]byte) string {
	return fmt.Sprintf("%d:%s", plen, hex.EncodeToString(data[:]))
}

func c03RandProgram(r *VRand, flows []*c03Flow, stats *VStats) (prog c03Prog) {
	var imgs []string
	var domIdx []int
	slotBase := uint32(r.Intn(1000))
	nslots := uint32(0)
	var rules []c03Rule
	n := r.Intn(5)
	if r.Chance(0.1) {
		n = 0
	}
	pos := 0
	for i := 0; i < n; i++ {
		var rule c03Rule
		nc := 1 + r.Intn(2)
		for c := 0; c < nc; c++ {
			f := flows[r.Intn(len(flows))]
			var cond c03Cond
			cond.not = r.Chance(0.15)
			switch r.Intn(11) {
			case 8, 9, 10:
				// address / MAC sets: an LPM trie per condition, aimed at the flow (both directions' addresses)
				slot := slotBase + nslots
				nslots++
				var keys []string
				switch r.Intn(3) {
				case 0:
					cond.typ = consts.MatchType_IpSet
					a := f.dip
					if r.Chance(0.3) {
						a = f.sip
					}
					keys = append(keys, c03LpmKey([]int{128, 128, 120, 104, 64, 0}[r.Intn(6)], a))
				case 1:
					cond.typ = consts.MatchType_SourceIpSet
					a := f.sip
					if r.Chance(0.3) {
						a = f.dip
					}
					keys = append(keys, c03LpmKey([]int{128, 128, 120, 104, 64}[r.Intn(5)], a))
				default:
					cond.typ = consts.MatchType_Mac
					var m16 [16]byte
					mac := f.cmac
					if r.Chance(0.25) {
						mac = f.gmac
					}
					copy(m16[10:], mac[:])
					keys = append(keys, c03LpmKey(128, m16))
					if r.Chance(0.2) {
						keys = append(keys, c03LpmKey(128, [16]byte{})) // the zero MAC of L3 links
					}
				}
				cond.alts = append(cond.alts, c03U32Val(slot))
				if r.Chance(0.92) {
					prog.lpmOps = append(prog.lpmOps, fmt.Sprintf("lpm %d %d %s", slot, len(keys), strings.Join(keys, " ")))
				} else {
					stats.Inc("rule.lpm-slot-missing") // route() fails with -EFAULT when it reaches this condition
				}
			case 0, 1:
				cond.typ = consts.MatchType_Port
				lo := f.dport
				hi := lo
				if r.Chance(0.3) {
					hi = lo + uint16(r.Intn(100))
					if hi < lo {
						hi = 65535
					}
				}
				if r.Chance(0.2) {
					lo, hi = 53, 53
				}
				cond.alts = append(cond.alts, c03PortVal(lo, hi))
				if r.Chance(0.3) {
					cond.alts = append(cond.alts, c03PortVal(443, 443))
				}
			case 2:
				cond.typ = consts.MatchType_SourcePort
				cond.alts = append(cond.alts, c03PortVal(f.sport, f.sport))
			case 3:
				cond.typ = consts.MatchType_L4Proto
				cond.alts = append(cond.alts, c03U32Val(uint32(1+r.Intn(3))))
			case 4:
				cond.typ = consts.MatchType_IpVersion
				cond.alts = append(cond.alts, c03U32Val(uint32(1+r.Intn(2))))
			case 5:
				cond.typ = consts.MatchType_Dscp
				var v [16]byte
				v[0] = f.tos >> 2
				cond.alts = append(cond.alts, v)
			case 6:
				cond.typ = consts.MatchType_ProcessName
				cond.alts = append(cond.alts, c03Pname(c03Pnames[r.Intn(len(c03Pnames))]))
			default:
				cond.typ = consts.MatchType_DomainSet
				cond.alts = append(cond.alts, [16]byte{})
				domIdx = append(domIdx, pos)
			}
			pos += len(cond.alts)
			stats.Inc("rule.cond." + strconv.Itoa(int(cond.typ)))
			rule.conds = append(rule.conds, cond)
		}
		rule.outbound, rule.must, rule.mark = c03RandOutbound(r, stats)
		if r.Chance(0.07) {
			rule.outbound = uint8(consts.OutboundMustRules)
			stats.Inc("rule.must_rules")
		}
		rules = append(rules, rule)
	}
	fb := c03Rule{conds: []c03Cond{{typ: consts.MatchType_Fallback, alts: [][16]byte{{}}}}}
	fb.outbound, fb.must, fb.mark = c03RandOutbound(r, stats)
	if r.Chance(0.92) || len(rules) == 0 && r.Chance(0.5) {
		rules = append(rules, fb)
	} else {
		stats.Inc("prog.no-fallback") // route() returns -EPERM when no rule hits
	}
	imgs = c03Lower(rules)
	prog.imgs, prog.domIdx, prog.metaLen = imgs, domIdx, len(imgs)
	switch x := r.Intn(40); {
	case x == 0:
		prog.metaLen = 0
		stats.Inc("prog.meta0")
	case x == 1 && len(imgs) > 1:
		prog.metaLen = len(imgs) - 1 // active length shorter than the program: the tail (fallback) is not consulted
		stats.Inc("prog.meta-short")
	}
	return
}

// ------------------------------------------------------------------ scenario generator

type c03Gen struct {
	st     *VStream
	stats  *VStats
	clock  uint64
	ctlPid uint32
	smark  uint32
	netns  uint32
	// steps left until the pending janitor round (jsnap emitted) reaches its delete phase (jdel); 0 = none pending
	pendingDel int
}

// PARAM := image of the control plane's own struct literal; the Go answer is what the programs must read from it
func (g *c03Gen) paramImage(in verifC03ParamIn) {
	img, err := verifC03ParamImage(in)
	if err != nil {
		g.st.Emit("paramimg 00", "error:"+err.Error())
		return
	}
	g.st.Emit("paramimg "+hex.EncodeToString(img), fmt.Sprintf("port=%d pid=%d dae0=%d netns=%d mac=%s peer=%d task=%d mark=%d size=%d",
		in.TproxyPort, os.Getpid(), in.Dae0Ifindex, in.NetnsID, hex.EncodeToString(in.PeerMac[:]), in.UseRedirectPeer,
		in.HasBpfGetCurrentTask, in.SoMarkFromDae, len(img)))
}

func c03HexOr(b []byte, fail bool) string {
	if fail {
		return "-"
	}
	if len(b) == 0 {
		return "="
	}
	return hex.EncodeToString(b)
}

// one of the cgroup programs runs for socket `cookie` in the context of process (tgid, name): the command line the
// kernel finds at mm->arg_start is a variation on the name (paths, arguments, spaces, over-long, unreadable)
func (g *c03Gen) cg(r *VRand, prog string, cookie uint64, tgid uint32, name string) {
	hasTask := 1
	if r.Chance(0.2) {
		hasTask = 0
		g.stats.Inc("cg.no-current-task-helper")
	}
	comm := []byte(name)
	if len(comm) > 15 {
		comm = comm[:15]
	}
	commFail := r.Chance(0.05)
	var args []byte
	argsFail := false
	kind := ""
	switch x := r.Intn(20); {
	case x < 4:
		args, kind = []byte(name), "bare"
	case x < 9:
		args, kind = []byte("/usr/bin/"+name), "path"
	case x < 12:
		args, kind = []byte("/usr/lib/"+name+"/"+name+" --socket /tmp/"+name+"-auth1"), "path-args"
	case x < 13:
		args, kind = []byte("./"+name+" -v"), "relative"
	case x < 14:
		args, kind = []byte("/opt/my apps/"+name), "space-in-path"
	case x < 15:
		args, kind = []byte("/usr/sbin/"+name+"/ x"), "trailing-slash"
	case x < 16:
		args, kind = []byte("/"+strings.Repeat("d/", 10+r.Intn(60))+name+" a"), "long-path" // crosses the 127-byte read limit now and then
	case x < 17:
		args, kind = []byte("/usr/bin/"+name+"-0123456789abcdefghij --x"), "name-ge-16"
	case x < 18:
		args, kind = nil, "empty"
	case x < 19:
		args, kind = []byte{0xc3, 0xa9, '/', 0xff, 0x80, 0x7f, '/', 0xe2, 0x82, 0xac, 'x'}, "non-ascii"
	default:
		argsFail, kind = true, "unreadable"
	}
	if len(args) > 127 {
		g.stats.Inc("cg.args.over-127")
	}
	g.c(fmt.Sprintf("cg %s %d %d %d %s %s", prog, cookie, tgid, hasTask, c03HexOr(comm, commFail), c03HexOr(args, argsFail)))
	g.stats.Inc("cg.prog." + prog)
	g.stats.Inc("cg.args." + kind)
}

func (g *c03Gen) c(op string) { g.st.Emit(op, "-") }

// tuning constants the property does not fix are model PARAMETERS: read from the code, handed to the model
func (g *c03Gen) cfg() {
	g.c(fmt.Sprintf("cfg %d %d %d %d %d %d %d", UdpRoutingResultCacheTtl.Nanoseconds(), tcpRoutingLookupRetryAttempts,
		tcpRoutingLookupRetryDelay.Nanoseconds(), connStateJanitorPressureEnterUsage, connStateJanitorPressureExitUsage,
		connStateJanitorPressureExitRounds, c03SoMarkFromDae))
}

func (g *c03Gen) emitProg(p c03Prog) {
	for _, op := range p.lpmOps {
		g.c(op)
	}
	if len(p.imgs) > 0 {
		g.c(fmt.Sprintf("rules %d %s", len(p.imgs), strings.Join(p.imgs, " ")))
	}
	g.c(fmt.Sprintf("meta %d", p.metaLen))
}

func (g *c03Gen) emitProgram(imgs []string) {
	g.c(fmt.Sprintf("rules %d %s", len(imgs), strings.Join(imgs, " ")))
	n := len(imgs)
	g.c(fmt.Sprintf("meta %d", n))
}

func (g *c03Gen) aliveKey(ob uint8, udp, v6 bool) uint32 {
	nt := &dialer.NetworkType{L4Proto: consts.L4ProtoStr_TCP, IpVersion: consts.IpVersionStr_4}
	if udp {
		nt.L4Proto = consts.L4ProtoStr_UDP
		nt.UdpHealthDomain = dialer.UdpHealthDomainData
	}
	if v6 {
		nt.IpVersion = consts.IpVersionStr_6
	}
	return outboundConnectivityMapKey(ob, nt)
}

var c03TimeSteps = []uint64{0, 1, 1000000, 500000000, 999999999, 1000000000, 1000000001, 1500000000, 9990000000,
	10000000000, 10000000001, 60000000000, 119990000000, 120000000000, 120000000001, 300000000000,
	1000000000000000}

func (g *c03Gen) advance(r *VRand) {
	dt := c03TimeSteps[r.Intn(len(c03TimeSteps))]
	if r.Chance(0.6) {
		dt = uint64(r.Intn(3)) * 400000000
	}
	g.clock += dt
	g.c(fmt.Sprintf("clock %d", g.clock))
	switch {
	case dt == 0:
		g.stats.Inc("dt.0")
	case dt <= 1000000000:
		g.stats.Inc("dt.le1s")
	case dt <= 10000000000:
		g.stats.Inc("dt.le10s")
	case dt <= 120000000000:
		g.stats.Inc("dt.le120s")
	default:
		g.stats.Inc("dt.gt120s")
		if dt >= 1000000000000000 {
			g.stats.Inc("dt.beyond-uptime")
		}
	}
}

func c03RandFlow(r *VRand, id int) *c03Flow {
	f := &c03Flow{id: id, v6: r.Chance(0.35), tcp: r.Chance(0.55), kind: r.Intn(4)}
	if r.Chance(0.4) {
		f.kind = r.Intn(2)
	}
	if f.v6 {
		f.sip = [16]byte{0xfd, 0, 0, 0, 0, 0, 0, 0, 0, 0, 0, 0, 0, 0, 0, byte(1 + r.Intn(3))}
		f.dip = [16]byte{0x20, 0x01, 0x0d, 0xb8, 0, 0, 0, 0, 0, 0, 0, 0, 0, 0, 0, byte(1 + r.Intn(3))}
		ne := 0
		if r.Chance(0.4) {
			ne = 1 + r.Intn(3)
		}
		for i := 0; i < ne; i++ {
			e := c03Ext{typ: []byte{0, 43, 60}[r.Intn(3)], len8: byte(r.Intn(2))}
			if r.Chance(0.15) {
				e = c03Ext{typ: 44, frag: 1} // first fragment (offset 0, MF)
			}
			f.ext = append(f.ext, e)
		}
	} else {
		f.sip = c03Mapped(192, 168, 1, byte(10+r.Intn(3)))
		f.dip = c03Mapped(1, 2, 3, byte(4+r.Intn(3)))
	}
	f.sport = uint16(40000 + r.Intn(4))
	f.dport = []uint16{80, 443, 53, 8080, 22}[r.Intn(5)]
	if r.Chance(0.08) {
		f.sport = 53
	}
	f.l2lan = r.Chance(0.85)
	f.l2wan = r.Chance(0.6)
	// six pairwise different bytes, so that any permutation inside a MAC packer changes the value
	f.cmac = [6]byte{0x02, 0xa1, 0xb2, 0xc3, 0xd4, byte(0xe0 + r.Intn(4))}
	f.gmac = [6]byte{0x06, 0x1a, 0x2b, 0x3c, 0x4d, 0x5e}
	f.tos = byte(r.Intn(4)) << 5
	if r.Chance(0.3) {
		f.tos = byte(r.Intn(256))
	}
	f.cookie = uint64(10 + r.Intn(4))
	return f
}

// (hook, interface is L2?, ingress_ifindex, ifindex) for the flow and direction; second hop optional
type c03Hop struct {
	hook string
	l2   bool
	iif  int
	ifx  int
}

func c03Hops(f *c03Flow, fwd bool) []c03Hop {
	const lanIf, wanIf = 3, 2
	switch f.kind {
	case 0:
		if fwd {
			return []c03Hop{{"li", f.l2lan, lanIf, lanIf}, {"we", f.l2wan, lanIf, wanIf}}
		}
		return []c03Hop{{"wi", f.l2wan, wanIf, wanIf}, {"le", f.l2lan, wanIf, lanIf}}
	case 1:
		if fwd {
			return []c03Hop{{"we", f.l2wan, 0, wanIf}}
		}
		return []c03Hop{{"wi", f.l2wan, wanIf, wanIf}}
	case 2: // the flow's src is the remote peer, dst the local service
		if fwd {
			return []c03Hop{{"wi", f.l2wan, wanIf, wanIf}}
		}
		return []c03Hop{{"we", f.l2wan, 0, wanIf}}
	default:
		if fwd {
			return []c03Hop{{"wi", f.l2wan, wanIf, wanIf}, {"le", f.l2lan, wanIf, lanIf}}
		}
		return []c03Hop{{"li", f.l2lan, lanIf, lanIf}, {"we", f.l2wan, lanIf, wanIf}}
	}
}

func (g *c03Gen) frameOp(hop c03Hop, proto int, fr []byte, lin int, pull int, mark uint32, cookie uint64, sk string) {
	hx := hex.EncodeToString(fr)
	if len(fr) == 0 {
		hx = "-"
	}
	g.c(fmt.Sprintf("frame %s %d %d %d %d %d %d %d %d %s %s", hop.hook, c03B2u(hop.l2), proto, lin, pull, hop.iif, hop.ifx, mark, cookie, sk, hx))
	g.stats.Inc("frame.hook." + hop.hook)
	if hop.l2 {
		g.stats.Inc("frame.l2")
	} else {
		g.stats.Inc("frame.l3")
	}
}

// path choice: rp == nil => fully linear, pull succeeds
func c03Path(rp *VRand, n int, stats *VStats) (lin, pull int) {
	if rp == nil {
		return n, 1
	}
	switch rp.Intn(6) {
	case 0:
		stats.Inc("path.pullfail")
		return rp.Intn(n + 1), 0
	case 1:
		stats.Inc("path.lin.short")
		return rp.Intn(n + 1), 1
	case 2:
		stats.Inc("path.lin.hdr")
		c := []int{0, 13, 14, 20, 33, 34, 40, 53, 54, 62, 74}[rp.Intn(11)]
		if c > n {
			c = n
		}
		return c, 1
	default:
		stats.Inc("path.linear")
		return n, 1
	}
}

func (g *c03Gen) retr(r *VRand, f *c03Flow, fwd bool) {
	sip, dip, sp, dp := f.sip, f.dip, f.sport, f.dport
	if !fwd {
		sip, dip, sp, dp = dip, sip, dp, sp
	}
	l4 := 17
	if f.tcp {
		l4 = 6
	}
	if r.Chance(0.03) {
		l4 = 1
	}
	age := []uint64{0, 0, 0, 3000000000, 7000000000, 12000000000, 25000000000}[r.Intn(7)]
	g.c(fmt.Sprintf("retr %d %s %d %s %d %d", l4, hex.EncodeToString(sip[:]), sp, hex.EncodeToString(dip[:]), dp, age))
	g.stats.Inc("retr")
}

// the control plane picks the flow's record up: TCP = head of handleConn, UDP = the ingress task with its per-endpoint
// routing cache (endpoints of the pool appear / disappear; control-plane time advances by dt ms before the lookup)
func (g *c03Gen) use(r *VRand, f *c03Flow, fwd bool) {
	sip, dip, sp, dp := f.sip, f.dip, f.sport, f.dport
	if !fwd {
		sip, dip, sp, dp = dip, sip, dp, sp
	}
	l4 := 17
	if f.tcp {
		l4 = 6
	}
	if !f.tcp {
		switch x := r.Intn(20); {
		case x < 6:
			g.c(fmt.Sprintf("ep add %s %d -", hex.EncodeToString(sip[:]), sp))
			g.stats.Inc("ep.add.fullcone")
		case x < 8:
			g.c(fmt.Sprintf("ep add %s %d %s:%d", hex.EncodeToString(sip[:]), sp, hex.EncodeToString(dip[:]), dp))
			g.stats.Inc("ep.add.symmetric")
		case x < 9:
			g.c(fmt.Sprintf("ep del %s %d -", hex.EncodeToString(sip[:]), sp))
			g.stats.Inc("ep.del")
		}
	}
	age := []uint64{0, 0, 0, 3000000000, 7000000000, 12000000000, 25000000000}[r.Intn(7)]
	n := 1
	if !f.tcp && r.Chance(0.5) {
		n = 2 + r.Intn(2) // a burst of datagrams: the later ones may be served from the cache
	}
	for i := 0; i < n; i++ {
		ttl := int(UdpRoutingResultCacheTtl.Milliseconds())
		dt := []int{0, 0, 1, ttl / 3, ttl / 2, ttl - 1, ttl, ttl + 1, ttl * 5 / 3, 2000}[r.Intn(10)]
		if dt < 0 {
			dt = 0
		}
		fault := ""
		if r.Chance(0.08) {
			// one of RetrieveRoutingResult's two map lookups fails (closed map: an error that is not ErrKeyNotExist)
			fault = []string{" conn", " ho"}[r.Intn(2)]
			g.stats.Inc("use.fault" + strings.Replace(fault, " ", ".", 1))
		}
		g.c(fmt.Sprintf("use %d %s %d %s %d %d %d%s", l4, hex.EncodeToString(sip[:]), sp, hex.EncodeToString(dip[:]), dp, age, dt, fault))
		g.stats.Inc(fmt.Sprintf("use.l4-%d", l4))
	}
	if !f.tcp && r.Chance(0.2) {
		// the flow's userspace endpoint is torn down (NAT timeout of the endpoint, dialer death): tracking ends here
		if r.Bool() {
			// the endpoint tracked the pair in the other orientation: the entry to go is the REVERSED key of the pair
			g.c(fmt.Sprintf("rel %s %d %s %d", hex.EncodeToString(dip[:]), dp, hex.EncodeToString(sip[:]), sp))
			g.stats.Inc("op.rel.reversed")
		} else {
			g.c(fmt.Sprintf("rel %s %d %s %d", hex.EncodeToString(sip[:]), sp, hex.EncodeToString(dip[:]), dp))
		}
		g.stats.Inc("op.rel")
	}
	if !f.tcp && r.Chance(0.35) {
		// the same client socket talks to ANOTHER destination right away: a full-cone endpoint (keyed by the source
		// only) must not serve the record it cached for the first destination
		d2 := dip
		d2[15] ^= byte(1 + r.Intn(3))
		p2 := dp
		if r.Bool() {
			p2 = []uint16{80, 443, 8080, 8443}[r.Intn(4)]
		}
		g.c(fmt.Sprintf("use %d %s %d %s %d %d %d", l4, hex.EncodeToString(sip[:]), sp, hex.EncodeToString(d2[:]), p2, age, []int{0, 1, 100}[r.Intn(3)]))
		g.stats.Inc("use.other-dst")
	}
}

// one janitor round (conn-state + hand-off), steady-state or under pressure, `age` ns from now
func (g *c03Gen) jan(r *VRand) {
	age := []uint64{0, 0, 2000000000, 30000000000, 61000000000, 90000000000, 130000000000}[r.Intn(7)]
	switch x := r.Intn(10); {
	case x < 4:
		g.c(fmt.Sprintf("jan %d %d", c03B2u(r.Chance(0.4)), age))
		g.stats.Inc("op.jan")
	case x < 7:
		// all four janitors (conn-state, hand-off, redirect_track, cookie_pid); with a retirement horizon this is the
		// reload pass RunReloadRetirementCleanup(staleBeforeNs)
		age = []uint64{0, 0, 2000000000, 61000000000, 130000000000, 299000000000, 301000000000, 400000000000}[r.Intn(8)]
		ago := []uint64{0, 0, 1, 500000000, 3000000000, 30000000000, 100000000000}[r.Intn(7)]
		g.c(fmt.Sprintf("jan4 %d %d %d", c03B2u(r.Chance(0.4)), age, ago))
		g.stats.Inc("op.jan4")
		if ago != 0 {
			g.stats.Inc("op.jan4.reload-retirement")
		}
	default:
		// a round whose two phases are separated by traffic: the BatchLookup walk now (often right after the flows went
		// idle for longer than a timeout), the deletes a few steps later
		if g.pendingDel > 0 {
			g.c("jdel")
			g.pendingDel = 0
			g.stats.Inc("op.jdel")
		}
		if r.Chance(0.6) {
			g.clock += []uint64{5100000000, 10100000000, 60100000000, 120100000000, 121000000000}[r.Intn(5)]
			g.c(fmt.Sprintf("clock %d", g.clock))
		}
		ago := []uint64{0, 0, 0, 1, 3000000000, 100000000000}[r.Intn(6)]
		g.c(fmt.Sprintf("jsnap %d 0 %d", c03B2u(r.Chance(0.4)), ago))
		g.pendingDel = 2 + r.Intn(3)
		g.stats.Inc("op.jsnap")
	}
}

// the delete phase of a pending two-phase round is due
func (g *c03Gen) janTick(force bool) {
	if g.pendingDel == 0 {
		return
	}
	g.pendingDel--
	if g.pendingDel == 0 || force {
		g.c("jdel")
		g.pendingDel = 0
		g.stats.Inc("op.jdel")
	}
}

func (g *c03Gen) scenario(r *VRand, rp *VRand, id int, tag string, steps int) {
	g.c(fmt.Sprintf("note scen %d %s", id, tag))
	g.c("reset")
	g.clock = 1000000000 + uint64(r.Intn(1000))*1000000
	g.c(fmt.Sprintf("clock %d", g.clock))
	g.ctlPid = 4242
	g.smark = 0
	if r.Chance(0.6) {
		g.smark = 0x8ae0
	}
	usePeer := r.Chance(0.3)
	g.netns = []uint32{0, 4026531999, 4026532100}[r.Intn(3)]
	g.c(fmt.Sprintf("param %d %d %d %d %s %d", g.ctlPid, g.smark, 9, c03B2u(usePeer), "0a0b0c0d0e0f", g.netns))
	if r.Chance(0.4) {
		// PARAM as the control plane builds it: the struct literal of fullLoadBpfObjects (regenerated from bpf_utils.go),
		// serialised as cilium/ebpf does, read back by the programs at the C offsets; control_plane_pid = this process
		g.ctlPid = uint32(os.Getpid())
		g.paramImage(verifC03ParamIn{TproxyPort: 0x3930, Dae0Ifindex: 9, NetnsID: g.netns, PeerMac: [6]byte{10, 11, 12, 13, 14, 15},
			UseRedirectPeer: c03B2u(usePeer), HasBpfGetCurrentTask: 1, SoMarkFromDae: g.smark})
		g.stats.Inc("scenario.param-from-control-plane-literal")
	} else if r.Chance(0.05) {
		g.c(fmt.Sprintf("param %d %d %d %d %s %d", 0, g.smark, 9, c03B2u(usePeer), "0a0b0c0d0e0f", g.netns))
		g.stats.Inc("param.ctlpid0")
	}
	nf := 2 + r.Intn(4)
	flows := make([]*c03Flow, nf)
	for i := range flows {
		flows[i] = c03RandFlow(r, i)
		g.stats.Inc(fmt.Sprintf("flow.kind%d", flows[i].kind))
		if flows[i].tcp {
			g.stats.Inc("flow.tcp")
		} else {
			g.stats.Inc("flow.udp")
		}
		if flows[i].v6 {
			g.stats.Inc("flow.v6")
			g.stats.Inc(fmt.Sprintf("flow.v6.ext%d", len(flows[i].ext)))
		} else {
			g.stats.Inc("flow.v4")
		}
		if flows[i].dport == 53 || flows[i].sport == 53 {
			g.stats.Inc("flow.port53")
		}
	}
	// two flows sharing a 5-tuple (reuse by another sender) now and then
	if nf >= 2 && r.Chance(0.25) {
		c := *flows[0]
		c.id = nf - 1
		c.cookie = 20 // dae's own socket
		c.kind = 1
		flows[0].kind = 1
		c.step = 0
		flows[nf-1] = &c
		g.stats.Inc("flow.tuple-reuse-by-dae")
	}
	// cookies: 10..13 applications, 20 = dae; registered by the cgroup programs (sock_create / connect / sendmsg in the
	// context of the owning process) or written directly
	viaCg := r.Chance(0.6)
	if viaCg {
		g.stats.Inc("scenario.cookies-via-cgroup-programs")
	}
	cgProgs := []string{"create", "create", "connect4", "connect6", "sendmsg4", "sendmsg6"}
	for ck := 10; ck <= 13; ck++ {
		if r.Chance(0.85) {
			name := c03Pnames[(ck-10)%len(c03Pnames)]
			if viaCg {
				g.cg(r, cgProgs[r.Intn(len(cgProgs))], uint64(ck), uint32(1000+ck), name)
			} else {
				g.c(fmt.Sprintf("cookie %d %d %s", ck, 1000+ck, hex.EncodeToString(func() []byte { v := c03Pname(name); return v[:] }())))
			}
		}
	}
	if viaCg {
		g.cg(r, "create", 20, g.ctlPid, "dae")
	} else {
		g.c(fmt.Sprintf("cookie 20 %d %s", g.ctlPid, hex.EncodeToString(func() []byte { v := c03Pname("dae"); return v[:] }())))
	}
	// connectivity bits through the REAL key function
	for ob := uint8(0); ob <= 5; ob++ {
		for _, udp := range []bool{false, true} {
			for _, v6 := range []bool{false, true} {
				v := 1
				if r.Chance(0.2) {
					v = 0
					g.stats.Inc("alive.dead")
				}
				if r.Chance(0.05) {
					continue // never written: ARRAY slot stays 0
				}
				g.c(fmt.Sprintf("alive %d %d", g.aliveKey(ob, udp, v6), v))
			}
		}
	}
	if r.Chance(0.12) {
		g.c("scope 1") // routing depends on packet metadata: the per-endpoint routing cache must not be consulted
		g.stats.Inc("scenario.scope-sensitive")
	}
	prog := c03RandProgram(r, flows, g.stats)
	domIdx := prog.domIdx
	g.emitProg(prog)
	setDom := func() {
		if len(domIdx) == 0 {
			return
		}
		f := flows[r.Intn(len(flows))]
		bm := make([]byte, 128)
		for _, i := range domIdx {
			if r.Bool() {
				bm[i/8] |= 1 << (i % 8)
			}
		}
		g.c(fmt.Sprintf("dom %s %s", hex.EncodeToString(f.dip[:]), hex.EncodeToString(bm)))
		g.stats.Inc("op.dom")
	}
	setDom()

	g.pendingDel = 0
	for s := 0; s < steps; s++ {
		g.janTick(false)
		switch x := r.Intn(100); {
		case x < 70:
			f := flows[r.Intn(len(flows))]
			fwd := true
			var flags byte
			if f.tcp {
				// natural life cycle most of the time
				if r.Chance(0.7) {
					switch f.step {
					case 0:
						fwd, flags = true, c03FlagSYN
					case 1:
						fwd, flags = false, c03FlagSYN|c03FlagACK
					case 2, 3, 4:
						fwd, flags = r.Chance(0.6), c03FlagACK
						if r.Chance(0.3) {
							flags |= c03FlagPSH
						}
					case 5:
						fwd, flags = r.Bool(), c03FlagFIN|c03FlagACK
					default:
						fwd, flags = r.Bool(), c03FlagACK
						if r.Chance(0.2) {
							f.step = -1
						}
					}
					f.step++
				} else {
					fwd = r.Chance(0.6)
					flags = []byte{c03FlagSYN, c03FlagSYN | c03FlagACK, c03FlagACK, c03FlagFIN | c03FlagACK, c03FlagRST, c03FlagRST | c03FlagACK,
						c03FlagSYN | c03FlagFIN, 0, c03FlagSYN | c03FlagRST, c03FlagPSH | c03FlagACK}[r.Intn(10)]
				}
				g.stats.Inc(fmt.Sprintf("tcp.flags.%02x", flags&0x17))
			} else {
				fwd = r.Chance(0.65)
			}
			var m *c03Mut
			if r.Chance(0.08) {
				m = &c03Mut{truncate: -1}
				switch r.Intn(10) {
				case 7:
					m.version = byte(r.Intn(16))
					g.stats.Inc("mut.ip-version-nibble")
				case 8:
					m.doff = byte(1 + r.Intn(15))
					g.stats.Inc("mut.tcp-doff")
				case 9:
					if tag == "S" {
						// skb->protocol that is not the frame's ethertype (never produced by eth_type_trans; VLAN / raw senders):
						// only where the two parse paths are not compared against each other
						m.skbProto = []int{c03EthIP, c03EthIPv6, 0x0806, 0x8100, 0}[r.Intn(5)]
						g.stats.Inc("mut.skb-protocol")
					}
				case 0:
					m.fragOff = 0x2000 // first fragment, MF
					g.stats.Inc("mut.frag.first")
				case 1:
					m.fragOff = uint16(1 + r.Intn(100))
					if f.v6 {
						m.fragOff <<= 3
						m.extra = append([]c03Ext{}, f.ext...)
						m.extra = append(m.extra, c03Ext{typ: 44})
					}
					g.stats.Inc("mut.frag.nonfirst")
				case 2:
					m.ihl = byte(r.Intn(16))
					g.stats.Inc("mut.ihl")
				case 3:
					m.truncate = []int{0, 10, 13, 14, 20, 33, 34, 40, 53, 54, 60}[r.Intn(11)]
					g.stats.Inc("mut.truncate")
				case 4:
					m.l4proto = []byte{58, 47, 1, 59}[r.Intn(4)]
					m.icmpType = []byte{137, 135, 128}[r.Intn(3)]
					g.stats.Inc("mut.l4proto")
				case 5:
					m.ethProto = 0x0806
					g.stats.Inc("mut.ethproto")
				default:
					m.extra = []c03Ext{{typ: 0}, {typ: 43}, {typ: 60, len8: 1}, {typ: 0}, {typ: 60}, {typ: 43}, {typ: 0}, {typ: 60}, {typ: 43}}[:r.Intn(10)]
					if r.Chance(0.3) {
						m.extra = append(m.extra, c03Ext{typ: 59})
					}
					g.stats.Inc("mut.v6ext")
				}
			}
			if r.Chance(0.5) {
				g.advance(r)
			}
			hops := c03Hops(f, fwd)
			for hi, hop := range hops {
				if hi == 1 && r.Chance(0.5) {
					break
				}
				if hop.hook == "le" && r.Chance(0.15) {
					hop.iif = 0 // locally generated frame leaving through the LAN (NDP redirect drop applies)
					g.stats.Inc("le.iif0")
				}
				fr := c03Frame(f, fwd, flags, hop.l2, m)
				lin, pull := c03Path(rp, len(fr), g.stats)
				mark := uint32(0)
				cookie := uint64(0)
				if hop.hook == "we" && hop.iif == 0 {
					cookie = f.cookie
					if f.cookie == 20 && g.smark != 0 && r.Chance(0.7) {
						mark = g.smark
					}
					if r.Chance(0.04) {
						cookie = 99 // unknown socket
						mark = []uint32{g.smark, 0x100, 0x300, 7, 0}[r.Intn(5)]
						g.stats.Inc("we.unknown-cookie")
					}
					if f.cookie == 20 {
						g.stats.Inc("we.dae-sender")
					}
				} else if r.Chance(0.05) {
					mark = uint32(r.Intn(4)) << 7
				}
				proto := f.skbProto()
				if m != nil && m.ethProto != 0 && r.Bool() {
					proto = int(m.ethProto)
				}
				if m != nil && m.skbProto != 0 {
					proto = m.skbProto
				}
				sk := "-"
				if (hop.hook == "li" && r.Chance(0.15)) || (hop.hook != "li" && r.Chance(0.01)) {
					// one socket of the host's table: found only under the exact struct bpf_sock_tuple the hook must
					// build (family by the frame's ethertype, saddr, daddr, sport, dport in network order) and netns
					sip, dip, sp, dp := f.sip, f.dip, f.sport, f.dport
					if !fwd {
						sip, dip, sp, dp = dip, sip, dp, sp
					}
					v6 := f.v6
					kind := "exact"
					switch r.Intn(10) {
					case 0:
						sip, dip = dip, sip
						kind = "addr-swapped"
					case 1:
						sp, dp = dp, sp
						kind = "port-swapped"
					case 2:
						v6 = !v6
						kind = "other-family"
					}
					var tu []byte
					if v6 {
						tu = append(append(tu, sip[:]...), dip[:]...)
					} else {
						tu = append(append(tu, sip[12:]...), dip[12:]...)
					}
					tu = append(tu, byte(sp>>8), byte(sp), byte(dp>>8), byte(dp))
					ns := g.netns
					if r.Chance(0.1) {
						ns++
						kind = "other-netns"
					}
					l4 := 17
					if f.tcp {
						l4 = 6
					}
					if r.Chance(0.08) {
						l4 = 23 - l4
						kind = "other-proto"
					}
					mk := []uint32{0, 0, g.smark, 5}[r.Intn(4)]
					state := []int{10, 10, 1, 7}[r.Intn(4)]
					sk = fmt.Sprintf("%d:%d:%d:%d:%s", l4, mk, state, ns, hex.EncodeToString(tu))
					g.stats.Inc("socket." + kind)
				}
				g.frameOp(hop, proto, fr, lin, pull, mark, cookie, sk)
				if (hop.hook == "li" || hop.hook == "we") && r.Chance(0.3) {
					// the skb as the hook left it arrives on dae0peer (meaningful after a redirect; otherwise it must be shot)
					g.c(fmt.Sprintf("peer %d", []int{7, 7, 7, 7, 5, 2, 0, 3, 6}[r.Intn(9)]))
					g.stats.Inc("op.peer")
				}
				if (hop.hook == "li" || hop.hook == "we") && r.Chance(0.35) {
					g.retr(r, f, fwd)
				}
				// (UDP to port 53 goes through the DNS ingress fast path; UDP FROM port 53 to another port is ordinary UDP)
				if (hop.hook == "li" || hop.hook == "we") && r.Chance(0.3) {
					g.use(r, f, fwd)
				}
			}
			if r.Chance(0.12) {
				// dae answers a captured client: the reply enters tproxy_dae0_ingress, which must find the
				// redirect_track entry of the address pair and send the frame back where the flow came from
				back := !fwd
				kind := "reply"
				if r.Chance(0.15) {
					back = fwd
					kind = "same-direction"
				}
				var dm *c03Mut
				switch r.Intn(12) {
				case 0:
					dm = &c03Mut{truncate: []int{0, 10, 14, 20, 33, 34, 40, 53, 54}[r.Intn(9)]}
					kind = "truncated"
				case 1:
					if tag == "S" {
						// Ethernet protocol field differing from skb->protocol: the direct-access path decides by the
						// former, the byte-load path by the latter, so only generated where paths are not compared
						dm = &c03Mut{truncate: -1, ethProto: 0x0806}
						kind = "ethproto"
					}
				}
				dfr := c03Frame(f, back, flags, true, dm)
				dproto := f.skbProto()
				if tag == "S" && r.Chance(0.05) {
					dproto = []int{c03EthIP, c03EthIPv6, 0x0806}[r.Intn(3)]
					kind = "skbproto-random"
				}
				dlin, dpull := c03Path(rp, len(dfr), g.stats)
				dhx := hex.EncodeToString(dfr)
				if len(dfr) == 0 {
					dhx = "-"
				}
				g.c(fmt.Sprintf("d0 %d %d %d %s", dproto, dlin, dpull, dhx))
				g.stats.Inc("d0." + kind)
			}
		case x < 76:
			g.advance(r)
		case x < 82:
			prog = c03RandProgram(r, flows, g.stats)
			domIdx = prog.domIdx
			g.emitProg(prog)
			g.stats.Inc("op.rule-swap")
		case x < 86:
			setDom()
		case x < 91:
			ob := uint8(r.Intn(6))
			g.c(fmt.Sprintf("alive %d %d", g.aliveKey(ob, r.Bool(), r.Bool()), r.Intn(2)))
			g.stats.Inc("op.alive-flip")
		case x < 93:
			f := flows[r.Intn(len(flows))]
			g.c("conndel " + c03KeyHex(f, r.Chance(0.7)))
			g.stats.Inc("op.conndel")
		case x < 95:
			ck := 10 + r.Intn(4)
			switch y := r.Intn(10); {
			case y < 2:
				g.c(fmt.Sprintf("cookiedel %d", ck))
			case y < 4:
				g.c(fmt.Sprintf("cookie %d %d %s", ck, 2000+r.Intn(3), hex.EncodeToString(func() []byte { v := c03Pname(c03Pnames[r.Intn(len(c03Pnames))]); return v[:] }())))
			case y < 6:
				// the socket is closed: sock_release forgets it; the next socket of the host may be given to any process
				g.cg(r, "release", uint64(ck), uint32(1000+ck), "x")
				if r.Bool() {
					g.cg(r, "create", uint64(ck), uint32(2000+r.Intn(3)), c03Pnames[r.Intn(len(c03Pnames))])
				}
			case y < 8:
				// another process (a child that inherited the descriptor, dae itself, ...) uses the socket: first owner stays
				g.cg(r, cgProgs[2+r.Intn(4)], uint64(ck), []uint32{uint32(3000 + r.Intn(3)), g.ctlPid}[r.Intn(2)], c03Pnames[r.Intn(len(c03Pnames))])
			case y < 9:
				// dae opens another socket of its own / a cookie 0 context (no socket)
				g.cg(r, "create", []uint64{20, 21, 0}[r.Intn(3)], g.ctlPid, "dae")
			default:
				g.cg(r, "create", uint64(14+r.Intn(3)), uint32(1000+r.Intn(20)), c03Pnames[r.Intn(len(c03Pnames))])
			}
			g.stats.Inc("op.cookie-change")
		default:
			if r.Chance(0.5) {
				g.retr(r, flows[r.Intn(len(flows))], r.Chance(0.8))
			} else {
				g.jan(r)
			}
		}
	}
	g.janTick(true)
	g.c(fmt.Sprintf("jan %d %d", c03B2u(r.Chance(0.4)), []uint64{0, 2000000000, 61000000000, 130000000000}[r.Intn(4)]))
	g.stats.Inc("op.jan")
	g.c("dump")
}

// ------------------------------------------------------------------ parser section

func (g *c03Gen) parseSection(r *VRand, n int) {
	emit := func(l2 bool, proto int, fr []byte) {
		cuts := []int{len(fr)}
		for _, c := range []int{0, 13, 14, 15, 33, 34, 35, 53, 54, 55, 61, 62, 73, 74, len(fr) - 1} {
			if c >= 0 && c < len(fr) {
				cuts = append(cuts, c)
			}
		}
		k := 1 + r.Intn(3)
		for i := 0; i < k; i++ {
			lin := cuts[r.Intn(len(cuts))]
			if i == 0 && r.Chance(0.6) {
				lin = len(fr)
			}
			pull := 1
			if r.Chance(0.15) {
				pull = 0
			}
			hx := hex.EncodeToString(fr)
			if len(fr) == 0 {
				hx = "-"
			}
			g.c(fmt.Sprintf("parse %d %d %d %d %s", c03B2u(l2), proto, lin, pull, hx))
			g.stats.Inc("parse.ops")
			if lin == len(fr) && pull == 1 {
				g.stats.Inc("parse.linear")
			}
		}
	}
	for i := 0; i < n; i++ {
		f := c03RandFlow(r, 0)
		f.tcp = r.Chance(0.6)
		l2 := r.Chance(0.7)
		flags := byte(r.Intn(256))
		if r.Chance(0.5) {
			flags = []byte{c03FlagSYN, c03FlagSYN | c03FlagACK, c03FlagACK, c03FlagFIN | c03FlagACK, c03FlagRST}[r.Intn(5)]
		}
		m := &c03Mut{truncate: -1}
		switch r.Intn(12) {
		case 0:
			m.fragOff = []uint16{0x2000, 1, 0x1fff, 0x4000, 0x8000, 8, 0xfff8, 7}[r.Intn(8)]
			if f.v6 {
				m.extra = append(append([]c03Ext{}, f.ext...), c03Ext{typ: 44})
			}
		case 1:
			m.ihl = byte(r.Intn(16))
		case 2:
			m.l4proto = []byte{58, 47, 1, 59, 0, 43, 44, 60, 51}[r.Intn(9)]
			m.icmpType = []byte{137, 135, 128, 0}[r.Intn(4)]
		case 3:
			m.ethProto = []uint16{0x0806, 0x8100, 0x0800, 0x86dd}[r.Intn(4)]
		case 4:
			pool := []c03Ext{{typ: 0}, {typ: 43}, {typ: 60, len8: 1}, {typ: 0, len8: 2}, {typ: 60}, {typ: 43}, {typ: 0}, {typ: 60}, {typ: 43}, {typ: 0}}
			m.extra = pool[:r.Intn(11)]
			switch r.Intn(4) {
			case 0:
				m.extra = append(append([]c03Ext{}, m.extra...), c03Ext{typ: 59})
			case 1:
				m.extra = append(append([]c03Ext{}, m.extra...), c03Ext{typ: 44, frag: uint16(r.Intn(3)) << 3})
			}
		case 5:
			m.version = byte(r.Intn(16))
		case 6:
			m.doff = byte(r.Intn(16))
			if m.doff == 0 {
				m.doff = 15
			}
		}
		fr := c03Frame(f, true, flags, l2, m)
		if r.Chance(0.25) {
			fr = fr[:r.Intn(len(fr)+1)]
		}
		proto := f.skbProto()
		if r.Chance(0.1) {
			proto = []int{c03EthIP, c03EthIPv6, 0x0806, 0}[r.Intn(4)]
		}
		emit(l2, proto, fr)
	}
}

// ------------------------------------------------------------------ RetrieveOriginalDest on generated control messages

func c03Cmsg(level, typ uint32, data []byte, lenDelta int) []byte {
	b := make([]byte, 16, 16+len(data)+8)
	binary.NativeEndian.PutUint64(b[0:], uint64(16+len(data)+lenDelta))
	binary.NativeEndian.PutUint32(b[8:], level)
	binary.NativeEndian.PutUint32(b[12:], typ)
	b = append(b, data...)
	for len(b)%8 != 0 {
		b = append(b, 0)
	}
	return b
}

func (g *c03Gen) origDstSection(r *VRand, n int) {
	ans := func(oob []byte) string {
		ap := RetrieveOriginalDest(oob)
		switch {
		case !ap.IsValid():
			return "od=-"
		case ap.Addr().Is4():
			a := ap.Addr().As4()
			return fmt.Sprintf("od=4:%s:%d", hex.EncodeToString(a[:]), ap.Port())
		default:
			a := ap.Addr().As16()
			return fmt.Sprintf("od=6:%s:%d", hex.EncodeToString(a[:]), ap.Port())
		}
	}
	emit := func(oob []byte) {
		hx := "="
		if len(oob) > 0 {
			hx = hex.EncodeToString(oob)
		}
		g.st.Emit("origdst "+hx, VRecover(func() string { return ans(oob) }))
		g.stats.Inc("origdst.ops")
	}
	sa4 := func() []byte {
		d := make([]byte, 16)
		binary.NativeEndian.PutUint16(d[0:], 2)
		binary.BigEndian.PutUint16(d[2:], uint16([]int{53, 443, 0, 65535, 8080}[r.Intn(5)]))
		copy(d[4:8], []byte{1, 2, 3, byte(4 + r.Intn(200))})
		return d
	}
	sa6 := func() []byte {
		d := make([]byte, 28)
		binary.NativeEndian.PutUint16(d[0:], 10)
		binary.BigEndian.PutUint16(d[2:], uint16([]int{53, 443, 0, 65535, 8080}[r.Intn(5)]))
		copy(d[8:24], []byte{0x20, 1, 0xd, 0xb8, 0, 0, 0, 0, 0, 0, 0, 0, 0, 0, 0, byte(1 + r.Intn(200))})
		if r.Chance(0.2) {
			copy(d[8:24], []byte{0, 0, 0, 0, 0, 0, 0, 0, 0, 0, 0xff, 0xff, 10, 0, 0, 1}) // a mapped IPv4 destination on the dual-stack listener
		}
		binary.NativeEndian.PutUint32(d[24:], uint32(r.Intn(3)))
		return d
	}
	other := func() []byte {
		switch r.Intn(6) {
		case 0:
			return c03Cmsg(0, 8, make([]byte, 12), 0) // IP_PKTINFO
		case 1:
			return c03Cmsg(41, 50, make([]byte, 20), 0) // IPV6_PKTINFO
		case 2:
			return c03Cmsg(1, 29, make([]byte, 16), 0) // SCM_TIMESTAMP
		case 3:
			return c03Cmsg(0, 1, []byte{0x28, 0, 0, 0}, 0) // IP_TOS, 4 bytes of data: length not a multiple of 8
		case 4:
			return c03Cmsg(0x80000000|uint32(r.Intn(2))*41, uint32(20+r.Intn(2)*54), sa4(), 0) // level with the sign bit set
		default:
			return c03Cmsg(uint32(r.Intn(3))*41, uint32(r.Intn(100)), make([]byte, r.Intn(40)), 0)
		}
	}
	for i := 0; i < n; i++ {
		var oob []byte
		for k := r.Intn(4); k > 0; k-- {
			oob = append(oob, other()...)
		}
		kind := "v4"
		switch x := r.Intn(20); {
		case x < 7:
			oob = append(oob, c03Cmsg(0, 20, sa4(), 0)...)
		case x < 13:
			oob = append(oob, c03Cmsg(41, 74, sa6(), 0)...)
			kind = "v6"
		case x < 14:
			// the right type with a short body first (skipped), then the real one
			oob = append(oob, c03Cmsg(0, 20, sa4()[:8+r.Intn(8)], 0)...)
			oob = append(oob, c03Cmsg(41, 74, sa6(), 0)...)
			kind = "short-then-real"
		case x < 15:
			oob = append(oob, c03Cmsg(0, 74, sa6(), 0)...) // level / type of different families
			oob = append(oob, c03Cmsg(41, 20, sa4(), 0)...)
			kind = "mixed-family"
		case x < 16:
			oob = append(oob, c03Cmsg(0, 20, sa4(), []int{-17, -1, 1, 8, 1000}[r.Intn(5)])...) // a lying length field
			kind = "bad-len"
		case x < 17:
			m := c03Cmsg(0, 20, sa4(), 0)
			binary.NativeEndian.PutUint64(m[0:], []uint64{1 << 63, ^uint64(0), 0, 15}[r.Intn(4)])
			oob = append(oob, m...)
			kind = "huge-len"
		case x < 18:
			kind = "none"
		default:
			oob = append(oob, c03Cmsg(0, 20, sa4(), 0)...)
			oob = oob[:r.Intn(len(oob)+1)]
			kind = "truncated"
		}
		if r.Chance(0.3) {
			oob = append(oob, other()...)
		}
		g.stats.Inc("origdst." + kind)
		emit(oob)
	}
	emit(nil)
	emit(make([]byte, 15))
	emit(make([]byte, 16))
}

// ------------------------------------------------------------------ constants the Go side knows

func c03GoConst(name string) string {
	var k bpfTuplesKey
	var cs bpfConnState
	var rr bpfRoutingResult
	var he bpfRoutingHandoffEntry
	v := map[string]uintptr{
		"sizeof_tuples_key":                       unsafe.Sizeof(k),
		"off_tuples_key_sip":                      unsafe.Offsetof(k.Sip),
		"off_tuples_key_dip":                      unsafe.Offsetof(k.Dip),
		"off_tuples_key_sport":                    unsafe.Offsetof(k.Sport),
		"off_tuples_key_dport":                    unsafe.Offsetof(k.Dport),
		"off_tuples_key_l4proto":                  unsafe.Offsetof(k.L4proto),
		"sizeof_conn_state":                       unsafe.Sizeof(cs),
		"off_conn_state_is_wan_ingress_direction": unsafe.Offsetof(cs.IsWanIngressDirection),
		"off_conn_state_state":                    unsafe.Offsetof(cs.State),
		"off_conn_state_last_seen_ns":             unsafe.Offsetof(cs.LastSeenNs),
		"off_conn_state_meta":                     unsafe.Offsetof(cs.Meta),
		"off_conn_state_mac":                      unsafe.Offsetof(cs.Mac),
		"off_conn_state_pname":                    unsafe.Offsetof(cs.Pname),
		"off_conn_state_pid":                      unsafe.Offsetof(cs.Pid),
		"off_meta_mark":                           unsafe.Offsetof(cs.Meta.Data.Mark),
		"off_meta_outbound":                       unsafe.Offsetof(cs.Meta.Data.Outbound),
		"off_meta_must":                           unsafe.Offsetof(cs.Meta.Data.Must),
		"off_meta_dscp":                           unsafe.Offsetof(cs.Meta.Data.Dscp),
		"off_meta_has_routing":                    unsafe.Offsetof(cs.Meta.Data.HasRouting),
		"sizeof_routing_result":                   unsafe.Sizeof(rr),
		"off_routing_result_mark":                 unsafe.Offsetof(rr.Mark),
		"off_routing_result_must":                 unsafe.Offsetof(rr.Must),
		"off_routing_result_mac":                  unsafe.Offsetof(rr.Mac),
		"off_routing_result_outbound":             unsafe.Offsetof(rr.Outbound),
		"off_routing_result_pname":                unsafe.Offsetof(rr.Pname),
		"off_routing_result_pid":                  unsafe.Offsetof(rr.Pid),
		"off_routing_result_dscp":                 unsafe.Offsetof(rr.Dscp),
		"sizeof_routing_handoff_entry":            unsafe.Sizeof(he),
		"off_routing_handoff_entry_last_seen_ns":  unsafe.Offsetof(he.LastSeenNs),
		"off_routing_handoff_entry_result":        unsafe.Offsetof(he.Result),
		"sizeof_redirect_tuple":                   unsafe.Sizeof(bpfRedirectTuple{}),
		"sizeof_redirect_entry":                   unsafe.Sizeof(bpfRedirectEntry{}),
		"sizeof_pid_pname":                        unsafe.Sizeof(bpfPidPname{}),
		"OUTBOUND_DIRECT":                         uintptr(consts.OutboundDirect),
		"OUTBOUND_BLOCK":                          uintptr(consts.OutboundBlock),
		"UdpRoutingResultCacheTtl":                uintptr(UdpRoutingResultCacheTtl.Nanoseconds()),
		"connStateJanitorPressureEnterUsage":      uintptr(connStateJanitorPressureEnterUsage),
		"connStateJanitorPressureExitUsage":       uintptr(connStateJanitorPressureExitUsage),
		"connStateJanitorPressureExitRounds":      uintptr(connStateJanitorPressureExitRounds),
		"tcpRoutingLookupRetryAttempts":           uintptr(tcpRoutingLookupRetryAttempts),
		"tcpRoutingLookupRetryDelay":              uintptr(tcpRoutingLookupRetryDelay.Nanoseconds()),
		"OutboundControlPlaneRouting":             uintptr(consts.OutboundControlPlaneRouting),
		"OUTBOUND_MUST_RULES":                     uintptr(consts.OutboundMustRules),
		"OUTBOUND_CONTROL_PLANE_ROUTING":          uintptr(consts.OutboundControlPlaneRouting),
		"routingHandoffTimeout":                   uintptr(routingHandoffTimeout.Nanoseconds()),
		"connectivity_max_entries":                uintptr(256 * outboundConnectivitySlotsPerOutbound),
		"L4ProtoType_TCP":                         uintptr(consts.L4ProtoType_TCP),
		"L4ProtoType_UDP":                         uintptr(consts.L4ProtoType_UDP),
		"IpVersionType_4":                         uintptr(consts.IpVersion_4),
		"IpVersionType_6":                         uintptr(consts.IpVersion_6),
	}
	if x, ok := v[name]; ok {
		return fmt.Sprintf("=%d", x)
	}
	return "=-"
}

var c03ConstNames = []string{
	"OUTBOUND_DIRECT", "OUTBOUND_BLOCK", "OUTBOUND_MUST_RULES", "OUTBOUND_CONTROL_PLANE_ROUTING", "TPROXY_MARK",
	"TC_ACT_OK", "TC_ACT_SHOT", "TC_ACT_PIPE", "TC_ACT_REDIRECT", "UDP_CONN_STATE_TIMEOUT_NS",
	"UDP_CONN_STATE_UPDATE_INTERVAL_NS", "TCP_CONN_STATE_ESTABLISHED_TIMEOUT_NS", "TCP_CONN_STATE_CLOSING_TIMEOUT_NS",
	"TCP_CONN_STATE_UPDATE_INTERVAL_NS", "IPV6_MAX_EXTENSIONS", "PARSE_FRAGMENT", "NDP_REDIRECT",
	"TCP_STATE_ACTIVE", "TCP_STATE_CLOSING", "BPF_TCP_LISTEN", "DAE_EVENT_BLOCKED", "DAE_EVENT_UDP_CONN_OVERFLOW",
	"DAE_EVENT_TCP_CONN_OVERFLOW",
	"sizeof_tuples_key", "off_tuples_key_sip", "off_tuples_key_dip", "off_tuples_key_sport", "off_tuples_key_dport",
	"off_tuples_key_l4proto", "sizeof_conn_state", "off_conn_state_is_wan_ingress_direction", "off_conn_state_state",
	"off_conn_state_last_seen_ns", "off_conn_state_meta", "off_conn_state_mac", "off_conn_state_pname", "off_conn_state_pid",
	"off_meta_mark", "off_meta_outbound", "off_meta_must", "off_meta_dscp", "off_meta_has_routing",
	"sizeof_routing_result", "off_routing_result_mark", "off_routing_result_must", "off_routing_result_mac",
	"off_routing_result_outbound", "off_routing_result_pname", "off_routing_result_pid", "off_routing_result_dscp",
	"sizeof_routing_handoff_entry", "off_routing_handoff_entry_last_seen_ns", "off_routing_handoff_entry_result",
	"connectivity_max_entries",
	"routingHandoffTimeout", "L4ProtoType_TCP", "L4ProtoType_UDP", "IpVersionType_4", "IpVersionType_6",
	"OutboundControlPlaneRouting",
}

// ------------------------------------------------------------------ known witnesses (replayed on every run)

func (g *c03Gen) witnesses() {
	app := &c03Flow{tcp: false, sip: c03Mapped(192, 168, 1, 10), dip: c03Mapped(1, 2, 3, 4), sport: 5000, dport: 443,
		cmac: [6]byte{2, 0, 0, 0, 0, 1}, gmac: [6]byte{2, 0, 0, 0, 0, 2}}
	direct := c03Lower([]c03Rule{{conds: []c03Cond{{typ: consts.MatchType_Fallback, alts: [][16]byte{{}}}}, outbound: 0}})
	group2 := c03Lower([]c03Rule{{conds: []c03Cond{{typ: consts.MatchType_Fallback, alts: [][16]byte{{}}}}, outbound: 2}})
	pn := c03Pname("curl")
	dn := c03Pname("dae")
	setup := func(tag string) {
		g.c("note witness " + tag)
		g.c("reset")
		g.c("param 777 0 9 0 0a0b0c0d0e0f")
		for k := 0; k < 36; k++ {
			g.c(fmt.Sprintf("alive %d 1", k))
		}
		g.c("cookie 5 1234 " + hex.EncodeToString(pn[:]))
		g.c("cookie 6 777 " + hex.EncodeToString(dn[:]))
	}
	we := c03Hop{"we", true, 0, 2}
	li := c03Hop{"li", true, 3, 3}
	// W1: WAN-egress UDP, first decision plain direct, rules change, same flow again
	setup("udp-wan-direct-sticky")
	g.emitProgram(direct)
	fr := c03Frame(app, true, 0, true, nil)
	g.frameOp(we, c03EthIP, fr, len(fr), 1, 0, 5, "-")
	g.emitProgram(group2)
	g.frameOp(we, c03EthIP, fr, len(fr), 1, 0, 5, "-")
	// W1': the same on LAN ingress
	setup("udp-lan-direct-sticky")
	g.emitProgram(direct)
	g.frameOp(li, c03EthIP, fr, len(fr), 1, 0, 0, "-")
	g.emitProgram(group2)
	g.frameOp(li, c03EthIP, fr, len(fr), 1, 0, 0, "-")
	// W2: dae reuses the 5-tuple of a proxied application flow whose conn state is still live
	setup("dae-tcp-tuple-reuse")
	g.emitProgram(group2)
	t := *app
	t.tcp = true
	t.sport = 40000
	syn := c03Frame(&t, true, c03FlagSYN, true, nil)
	ack := c03Frame(&t, true, c03FlagACK, true, nil)
	g.frameOp(we, c03EthIP, syn, len(syn), 1, 0, 5, "-")
	g.frameOp(we, c03EthIP, ack, len(ack), 1, 0, 5, "-")
	g.c("clock 31000000000")
	g.frameOp(we, c03EthIP, syn, len(syn), 1, 0, 6, "-")
	g.frameOp(we, c03EthIP, ack, len(ack), 1, 0, 6, "-")
	// W4 (observation, not a violation): a pure SYN in the REVERSE direction restarts tracking as a WAN-originated
	// connection; the tracked (proxied) flow's later packets then pass untouched
	setup("reverse-syn-restarts")
	g.emitProgram(group2)
	g.frameOp(li, c03EthIP, syn, len(syn), 1, 0, 0, "-")
	g.frameOp(li, c03EthIP, ack, len(ack), 1, 0, 0, "-")
	rsyn := c03Frame(&t, false, c03FlagSYN, true, nil)
	g.frameOp(c03Hop{"wi", true, 2, 2}, c03EthIP, rsyn, len(rsyn), 1, 0, 0, "-")
	g.frameOp(li, c03EthIP, ack, len(ack), 1, 0, 0, "-")
	// W5: the three MAC packers at the route() callers (LAN ingress, WAN-egress TCP, WAN-egress UDP).  One rule
	// "source MAC = M -> block", fallback direct; M has six different bytes.  A new flow from M must be dropped, a
	// new flow from any MAC that differs from M in exactly one byte must pass: stated on the real program's verdicts.
	setup("mac-packers")
	{
		base := [6]byte{0x02, 0xa1, 0xb2, 0xc3, 0xd4, 0xe5}
		var m16 [16]byte
		copy(m16[10:], base[:])
		macRule := c03Rule{conds: []c03Cond{{typ: consts.MatchType_Mac, alts: [][16]byte{c03U32Val(7)}}}, outbound: uint8(consts.OutboundBlock)}
		fbRule := c03Rule{conds: []c03Cond{{typ: consts.MatchType_Fallback, alts: [][16]byte{{}}}}, outbound: 0}
		g.c("lpm 7 1 " + c03LpmKey(128, m16))
		g.emitProgram(c03Lower([]c03Rule{macRule, fbRule}))
		sport := uint16(41000)
		for _, caller := range []struct {
			hop c03Hop
			tcp bool
		}{{li, true}, {we, true}, {we, false}} {
			for j := 0; j <= 6; j++ {
				mf := *app
				mf.tcp = caller.tcp
				mf.sport = sport
				sport++
				mf.cmac = base
				if j > 0 {
					mf.cmac[j-1] ^= 0x08
				}
				fl := byte(0)
				if caller.tcp {
					fl = c03FlagSYN
				}
				mfr := c03Frame(&mf, true, fl, true, nil)
				ck := uint64(0)
				if caller.hop.hook == "we" {
					ck = 5
				}
				g.frameOp(caller.hop, c03EthIP, mfr, len(mfr), 1, 0, ck, "-")
			}
		}
	}
	// W6 (OPEN finding c03-wan-opened-udp53-reply-captured): a WAN-side client queries a local / LAN service on UDP 53;
	// the service's reply must pass as the reply of a WAN-opened flow.  Control: the same pair on port 5353.
	setup("wan-opened-dns-service-reply")
	g.emitProgram(group2)
	for _, port := range []uint16{53, 5353} {
		svc := &c03Flow{tcp: false, sip: c03Mapped(1, 2, 3, 4), dip: c03Mapped(192, 168, 1, 10), sport: 40000, dport: port,
			cmac: [6]byte{2, 0, 0, 0, 0, 2}, gmac: [6]byte{2, 0, 0, 0, 0, 1}}
		qf := c03Frame(svc, true, 0, true, nil)  // remote client -> local service
		rf := c03Frame(svc, false, 0, true, nil) // the service's reply
		g.frameOp(c03Hop{"wi", true, 2, 2}, c03EthIP, qf, len(qf), 1, 0, 0, "-")
		g.frameOp(we, c03EthIP, rf, len(rf), 1, 0, 5, "-")
		lsvc := *svc
		lsvc.dip = c03Mapped(192, 168, 1, 20) // a LAN host's service: query leaves through lan egress, reply enters lan ingress
		lsvc.sport = 40001
		qf = c03Frame(&lsvc, true, 0, true, nil)
		rf = c03Frame(&lsvc, false, 0, true, nil)
		g.frameOp(c03Hop{"le", true, 2, 3}, c03EthIP, qf, len(qf), 1, 0, 0, "-")
		g.frameOp(li, c03EthIP, rf, len(rf), 1, 0, 0, "-")
	}
	// W8 (finding c03-janitor-delete-races-new-connection): a janitor round's BatchLookup walk collects the key of a closed
	// connection; before its deletes run the client opens a NEW connection on the same 5-tuple (handed to dae, decision
	// cached); the deletes are by key and remove the fresh entry; the connection's next segment passes untouched
	setup("janitor-walk-delete-race")
	g.emitProgram(group2)
	g.frameOp(li, c03EthIP, syn, len(syn), 1, 0, 0, "-")
	finack := c03Frame(&t, true, c03FlagFIN|c03FlagACK, true, nil)
	g.frameOp(li, c03EthIP, finack, len(finack), 1, 0, 0, "-")
	g.c("clock 13000000000") // 12 s later: the CLOSING entry is past its 10 s timeout
	g.c("jsnap 0 0 0")
	g.frameOp(li, c03EthIP, syn, len(syn), 1, 0, 0, "-")
	g.c("jdel")
	g.c("conndel " + c03KeyHex(&t, true)) // what the delete phase just did (checked against the jdel answer), applied to the programs' map
	g.frameOp(li, c03EthIP, ack, len(ack), 1, 0, 0, "-")
	// W7: PARAM images at the extremes of every field (each field with all bits set while its neighbours are 0)
	g.c("note witness param-image")
	for _, in := range []verifC03ParamIn{
		{},
		{TproxyPort: 0xffffffff}, {Dae0Ifindex: 0xffffffff}, {NetnsID: 0xffffffff}, {PeerMac: [6]byte{255, 255, 255, 255, 255, 255}},
		{UseRedirectPeer: 1}, {HasBpfGetCurrentTask: 1}, {SoMarkFromDae: 0xffffffff},
		{TproxyPort: 0x3930, Dae0Ifindex: 9, NetnsID: 4026532100, PeerMac: [6]byte{1, 2, 3, 4, 5, 6}, UseRedirectPeer: 1, HasBpfGetCurrentTask: 1, SoMarkFromDae: 0x8ae0},
	} {
		g.paramImage(in)
	}
	// W3 (fixed by e3060cb): SYN-ACK parsed by both paths; reply of a WAN-opened connection
	setup("synack-parse-paths")
	sa := c03Frame(&t, true, c03FlagSYN|c03FlagACK, true, nil)
	sa = sa[:54]
	g.c(fmt.Sprintf("parse 1 %d %d 1 %s", c03EthIP, len(sa), hex.EncodeToString(sa)))
	g.c(fmt.Sprintf("parse 1 %d %d 0 %s", c03EthIP, len(sa), hex.EncodeToString(sa)))
	g.emitProgram(group2)
	in := c03Frame(&t, false, c03FlagSYN, true, nil) // remote opens towards the local service
	g.frameOp(c03Hop{"wi", true, 2, 2}, c03EthIP, in, len(in), 1, 0, 0, "-")
	g.frameOp(we, c03EthIP, sa, len(sa), 1, 0, 5, "-") // the service's SYN-ACK, fast path
	g.frameOp(we, c03EthIP, sa, len(sa), 0, 0, 5, "-") // ... slow path
	g.c("dump")
}

// ------------------------------------------------------------------ entry points

func TestVerifC03Gen(t *testing.T) {
	stats := NewVStats()
	seed := VSeed()
	nScen, steps, nParse := 400, 50, 4000
	if VThorough() {
		nScen, steps, nParse = 5000, 80, 80000
	}
	nScen = VEnvInt("VERIF_C03_SCEN", nScen)

	// c03a: roomy maps.  Every third scenario is emitted twice (A: fully linear skb, B: random linear
	// lengths / pull failures) so that the check can compare the REAL program's answers across parse paths.
	{
		g := &c03Gen{st: VOpenStream("c03a"), stats: stats}
		g.c("caps 4096 4096 4096")
		g.cfg()
		for _, n := range c03ConstNames {
			g.st.Emit("const "+n, c03GoConst(n))
		}
		for ob := 0; ob < 256; ob += 1 + ob/8 {
			for _, udp := range []bool{false, true} {
				for _, v6 := range []bool{false, true} {
					l4 := 6
					if udp {
						l4 = 17
					}
					g.st.Emit(fmt.Sprintf("connkey %d %d %d", ob, l4, c03B2u(v6)), fmt.Sprintf("key=%d", g.aliveKey(uint8(ob), udp, v6)))
				}
			}
		}
		for _, now := range []uint64{0, 1, 5000000000, 10000000000, 10000000001, 20000000000, 1 << 63} {
			for _, last := range []uint64{0, 1, 4999999999, 5000000000, 10000000000, 1 << 62} {
				g.st.Emit(fmt.Sprintf("hoexp %d %d", now, last), fmt.Sprintf("expired=%d", c03B2u(routingHandoffExpired(now, last))))
			}
		}
		// the janitor's pressure state machine (pure function), on a grid around its thresholds
		for _, act := range []bool{false, true} {
			for _, below := range []int{0, 1, 2, 3, 5} {
				for _, ov := range []bool{false, true} {
					for _, usage := range []int{0, 49, 50, 51, 69, 70, 71, 100, 150} {
						r := updateConnStateJanitorPressure(connStateJanitorPressureState{active: act, belowThresholdRounds: below,
							lastUdpOverflow: 7, lastTcpOverflow: 9}, ov, usage)
						g.st.Emit(fmt.Sprintf("press %d %d %d %d", c03B2u(act), below, c03B2u(ov), usage),
							fmt.Sprintf("active=%d below=%d", c03B2u(r.active), r.belowThresholdRounds))
					}
				}
			}
		}
		root := NewVRand(seed)
		for i := 0; i < nScen; i++ {
			s1, s2 := root.U64(), root.U64()
			if i%3 == 0 {
				g.scenario(NewVRand(s1), nil, i, "A", steps)
				g.scenario(NewVRand(s1), NewVRand(s2), i, "B", steps)
				stats.Inc("scenario.twin")
			} else {
				g.scenario(NewVRand(s1), NewVRand(s2), i, "S", steps)
			}
			stats.Inc("scenario")
		}
		g.st.Close()
	}
	// c03b: tiny maps (conn_state 2, handoff 1, redirect_track 1)
	{
		g := &c03Gen{st: VOpenStream("c03b"), stats: stats}
		caps := [][3]int{{2, 1, 1}, {1, 4096, 4096}, {4096, 1, 4096}, {4096, 4096, 1}, {0, 0, 0}}
		root := NewVRand(seed ^ 0xb)
		_ = caps
		g.c("caps 2 1 1 3")
		g.cfg()
		for i := 0; i < nScen/4+1; i++ {
			g.scenario(NewVRand(root.U64()), NewVRand(root.U64()), i, "S", steps)
			stats.Inc("scenario.tinymaps")
		}
		g.st.Close()
	}
	for ci, caps := range []string{"caps 1 4096 4096", "caps 4096 1 4096 4", "caps 4096 4096 1", "caps 3 2 2 2"} {
		g := &c03Gen{st: VOpenStream(fmt.Sprintf("c03c%d", ci)), stats: stats}
		root := NewVRand(seed ^ uint64(0xc0+ci))
		g.c(caps)
		g.cfg()
		for i := 0; i < nScen/8+1; i++ {
			g.scenario(NewVRand(root.U64()), NewVRand(root.U64()), i, "S", steps)
			stats.Inc("scenario.smallmaps")
		}
		g.st.Close()
	}
	{
		g := &c03Gen{st: VOpenStream("c03p"), stats: stats}
		g.c("caps 16 16 16")
		g.cfg()
		g.parseSection(NewVRand(seed^0x9a), nParse)
		g.origDstSection(NewVRand(seed^0x0d), nParse/5)
		g.st.Close()
	}
	{
		g := &c03Gen{st: VOpenStream("c03f"), stats: stats}
		g.c("caps 4096 4096 4096")
		g.cfg()
		g.witnesses()
		g.st.Close()
	}
	stats.Write("c03")
}

// ---- second pass: the real RetrieveRoutingResult on the bytes the kernel program stored

func c03ParseDump(field string) (map[string][]byte, error) {
	// name=[k:v;k:v]
	i := strings.Index(field, "=[")
	if i < 0 || !strings.HasSuffix(field, "]") {
		return nil, fmt.Errorf("bad dump field %q", field)
	}
	res := map[string][]byte{}
	body := field[i+2 : len(field)-1]
	if body == "" {
		return res, nil
	}
	for _, e := range strings.Split(body, ";") {
		kv := strings.SplitN(e, ":", 2)
		if len(kv) != 2 {
			return nil, fmt.Errorf("bad entry %q", e)
		}
		v, err := hex.DecodeString(kv[1])
		if err != nil {
			return nil, err
		}
		res[kv[0]] = v
	}
	return res, nil
}

func c03RRString(rr *bpfRoutingResult, err error) string {
	if err != nil {
		if stderrors.Is(err, ebpf.ErrKeyNotExist) {
			return "rr=notfound"
		}
		return "rr=error:" + err.Error()
	}
	return fmt.Sprintf("rr=%d:%d:%d:%d:%s:%s:%d", rr.Outbound, rr.Mark, rr.Must, rr.Dscp, hex.EncodeToString(rr.Mac[:]),
		hex.EncodeToString(rr.Pname[:]), rr.Pid)
}

func TestVerifC03Retr(t *testing.T) {
	stats := NewVStats()
	c03WaitUptime()
	streams := strings.Split(os.Getenv("VERIF_C03_STREAMS"), ",")
	connMap, err1 := ebpf.NewMap(&ebpf.MapSpec{Type: ebpf.Hash, KeySize: uint32(unsafe.Sizeof(bpfTuplesKey{})),
		ValueSize: uint32(unsafe.Sizeof(bpfConnState{})), MaxEntries: 8192})
	hoMap, err2 := ebpf.NewMap(&ebpf.MapSpec{Type: ebpf.Hash, KeySize: uint32(unsafe.Sizeof(bpfTuplesKey{})),
		ValueSize: uint32(unsafe.Sizeof(bpfRoutingHandoffEntry{})), MaxEntries: 8192})
	rtMap, err3 := ebpf.NewMap(&ebpf.MapSpec{Type: ebpf.Hash, KeySize: uint32(unsafe.Sizeof(bpfRedirectTuple{})),
		ValueSize: uint32(unsafe.Sizeof(bpfRedirectEntry{})), MaxEntries: 8192})
	ckMap, err4 := ebpf.NewMap(&ebpf.MapSpec{Type: ebpf.Hash, KeySize: 8, ValueSize: uint32(unsafe.Sizeof(bpfPidPname{})), MaxEntries: 8192})
	kernel := err1 == nil && err2 == nil && err3 == nil && err4 == nil
	if kernel {
		defer rtMap.Close()
		defer ckMap.Close()
	}
	if !kernel {
		t.Logf("kernel maps unavailable (%v / %v): decoding through encoding/binary instead", err1, err2)
		stats.Inc("retr.mode.fallback")
	} else {
		stats.Inc("retr.mode.kernel-maps")
		defer connMap.Close()
		defer hoMap.Close()
	}
	// The whole pass runs in one synctest bubble: time.Now / time.Since / timers are virtual there (the per-endpoint
	// routing cache and handleConn's retry timers use them), CLOCK_MONOTONIC (hand-off expiry, janitors) stays real.
	synctest.Test(t, func(t *testing.T) {
	core := &controlPlaneCore{}
	if kernel {
		objs := &bpfObjects{}
		objs.ConnStateMap = connMap
		objs.RoutingHandoffMap = hoMap
		objs.RedirectTrack = rtMap
		objs.CookiePidMap = ckMap
		core.bpf.Store(objs)
	}
	cons := &c03Consumer{cp: &ControlPlane{core: core, log: logrus.New(), soMarkFromDae: c03SoMarkFromDae}, eps: map[UdpEndpointKey]bool{}}
	if kernel {
		cons.closedConn, _ = ebpf.NewMap(&ebpf.MapSpec{Type: ebpf.Hash, KeySize: uint32(unsafe.Sizeof(bpfTuplesKey{})),
			ValueSize: uint32(unsafe.Sizeof(bpfConnState{})), MaxEntries: 1})
		cons.closedHo, _ = ebpf.NewMap(&ebpf.MapSpec{Type: ebpf.Hash, KeySize: uint32(unsafe.Sizeof(bpfTuplesKey{})),
			ValueSize: uint32(unsafe.Sizeof(bpfRoutingHandoffEntry{})), MaxEntries: 1})
		if cons.closedConn != nil {
			cons.closedConn.Close()
		}
		if cons.closedHo != nil {
			cons.closedHo.Close()
		}
	}
	cons.cp.log.SetOutput(io.Discard)
	defer cons.reset()
	var loadedConn, loadedHo map[string][]byte
	j4 := &c03Jan4{core: core, maps: [4]*ebpf.Map{connMap, hoMap, rtMap, ckMap}, stats: stats}
	for _, name := range streams {
		if name == "" {
			continue
		}
		fo, err := os.Open(filepath.Join(VOutDir(), name+".ops"))
		if err != nil {
			t.Fatal(err)
		}
		fc, err := os.Open(filepath.Join(VOutDir(), name+".c"))
		if err != nil {
			t.Fatal(err)
		}
		out, err := os.Create(filepath.Join(VOutDir(), name+".retr"))
		if err != nil {
			t.Fatal(err)
		}
		w := bufio.NewWriterSize(out, 1<<20)
		so, sc := bufio.NewScanner(fo), bufio.NewScanner(fc)
		so.Buffer(make([]byte, 1<<20), 1<<26)
		sc.Buffer(make([]byte, 1<<20), 1<<26)
		for so.Scan() {
			op := so.Text()
			cl := ""
			if sc.Scan() {
				cl = sc.Text()
			}
			if strings.HasPrefix(op, "jan4 ") || strings.HasPrefix(op, "jsnap ") || op == "jdel" {
				if !kernel {
					w.WriteString("jan=unavailable\n")
					continue
				}
				j4.loaded[0], j4.loaded[1] = loadedConn, loadedHo
				ans := VRecover(func() string { return j4.op(op, cl) })
				// the four kernel maps were reloaded behind the back of the other ops' bookkeeping
				loadedConn, loadedHo = j4.loaded[0], j4.loaded[1]
				w.WriteString(ans + "\n")
				continue
			}
			if strings.HasPrefix(op, "jan ") {
				if !kernel {
					w.WriteString("jan=unavailable\n")
					continue
				}
				ans := VRecover(func() string { return c03Janitor(op, cl, core, connMap, hoMap, &loadedConn, &loadedHo, stats) })
				w.WriteString(ans + "\n")
				continue
			}
			switch {
			case op == "reset":
				cons.reset()
			case strings.HasPrefix(op, "scope "):
				cons.cp.udpRouteScopeSensitive = op != "scope 0"
			case strings.HasPrefix(op, "ep "):
				cons.ep(op)
			case strings.HasPrefix(op, "rel "):
				if !kernel {
					w.WriteString("rel=unavailable\n")
					continue
				}
				ans := VRecover(func() string { return cons.rel(op, cl, core, connMap, &loadedConn, stats) })
				w.WriteString(ans + "\n")
				continue
			case strings.HasPrefix(op, "use "):
				if !kernel {
					w.WriteString("use=unavailable\n")
					continue
				}
				ans := VRecover(func() string { return cons.use(op, cl, connMap, hoMap, &loadedConn, &loadedHo, stats) })
				w.WriteString(ans + "\n")
				continue
			}
			if !strings.HasPrefix(op, "retr ") {
				w.WriteString("-\n")
				continue
			}
			ans := VRecover(func() string {
				tk := strings.Fields(op)
				cf := strings.Fields(cl)
				if len(tk) != 7 || len(cf) != 3 {
					return "rr=bad-op"
				}
				l4, _ := strconv.Atoi(tk[1])
				sipb, _ := hex.DecodeString(tk[2])
				sport, _ := strconv.Atoi(tk[3])
				dipb, _ := hex.DecodeString(tk[4])
				dport, _ := strconv.Atoi(tk[5])
				age, _ := strconv.ParseUint(tk[6], 10, 64)
				conn, e1 := c03ParseDump(cf[0])
				ho, e2 := c03ParseDump(cf[1])
				if e1 != nil || e2 != nil || !strings.HasPrefix(cf[2], "now=") {
					return "rr=bad-dump"
				}
				shimNow, _ := strconv.ParseUint(cf[2][4:], 10, 64)
				var s16, d16 [16]byte
				copy(s16[:], sipb)
				copy(d16[:], dipb)
				// the addresses as the control plane sees them: netip values of the socket addresses
				src := netip.AddrPortFrom(netip.AddrFrom16(s16), uint16(sport))
				dst := netip.AddrPortFrom(netip.AddrFrom16(d16), uint16(dport))
				if src.Addr().Is4In6() && sport%2 == 0 { // both spellings of an IPv4 peer must give the same key
					src = netip.AddrPortFrom(src.Addr().Unmap(), uint16(sport))
				}
				key := bpfTuplesKeyFromAddrPorts(src, dst, uint8(l4))
				keyHex := hex.EncodeToString(unsafe.Slice((*byte)(unsafe.Pointer(&key)), unsafe.Sizeof(key)))
				// the hand-off entry of the looked-up key (if any) and its age on the harness clock at lookup time
				hoAge, hoPresent := int64(0), false
				if hv, ok := ho[keyHex]; ok && len(hv) >= 8 {
					hoAge, hoPresent = int64(shimNow+age-binary.NativeEndian.Uint64(hv)), true
				}
				if !kernel {
					return c03RetrFallback(conn, ho, keyHex, uint8(l4), shimNow+age)
				}
				realNow, err := monotonicNowNano()
				if err != nil {
					return "rr=error:clock"
				}
				// (re)load the kernel maps with exactly the dumped bytes
				sync := func(m *ebpf.Map, loaded *map[string][]byte, want map[string][]byte, rebase bool) error {
					for k := range *loaded {
						if _, ok := want[k]; !ok {
							kb, _ := hex.DecodeString(k)
							if err := m.Delete(kb); err != nil {
								return err
							}
						}
					}
					for k, v := range want {
						kb, _ := hex.DecodeString(k)
						vv := append([]byte{}, v...)
						if rebase && len(vv) >= 8 {
							last := binary.NativeEndian.Uint64(vv)
							if last != 0 {
								binary.NativeEndian.PutUint64(vv, c03Rebase(realNow, shimNow+age-last))
							}
						}
						if err := m.Put(kb, vv); err != nil {
							return err
						}
					}
					*loaded = want
					return nil
				}
				if loadedConn == nil {
					loadedConn, loadedHo = map[string][]byte{}, map[string][]byte{}
				}
				if err := sync(connMap, &loadedConn, conn, false); err != nil {
					return "rr=error:load-conn:" + err.Error()
				}
				if err := sync(hoMap, &loadedHo, ho, true); err != nil {
					return "rr=error:load-ho:" + err.Error()
				}
				rr, err := core.RetrieveRoutingResult(src, dst, uint8(l4))
				// Real time kept running between our clock sample and the one inside RetrieveRoutingResult: by `stall`.
				// The answer is decided by the host's scheduling (not by the code under test) exactly when the entry's
				// age is within that stall of the timeout; such lookups are not compared (exact boundaries: `hoexp`).
				if realNow2, e2 := monotonicNowNano(); e2 == nil && hoPresent {
					stall := int64(realNow2-realNow) + 20000000
					lim := routingHandoffTimeout.Nanoseconds()
					if hoAge > lim-stall && hoAge <= lim+20000000 {
						stats.Inc("retr.skipped-boundary")
						return "rr=skip-boundary"
					}
				}
				// an expired hand-off entry is deleted by the lookup: keep our bookkeeping in step
				if err != nil {
					if _, ok := loadedHo[keyHex]; ok {
						var probe bpfRoutingHandoffEntry
						kb, _ := hex.DecodeString(keyHex)
						if hoMap.Lookup(kb, &probe) != nil {
							delete(loadedHo, keyHex)
							stats.Inc("retr.expired-entry-deleted")
						}
					}
				}
				stats.Inc("retr.calls")
				return c03RRString(rr, err)
			})
			if strings.HasPrefix(ans, "rr=notfound") {
				stats.Inc("retr.notfound")
			} else if strings.HasPrefix(ans, "rr=") && !strings.HasPrefix(ans, "rr=skip") {
				stats.Inc("retr.found")
			}
			w.WriteString(ans + "\n")
		}
		w.Flush()
		out.Close()
		fo.Close()
		fc.Close()
	}
	})
	stats.Write("c03retr")
}

// ---- the userspace consumers of the record (regenerated glue: verifC03TcpRecord / verifC03UdpRecord)

// ControlPlane.soMarkFromDae in the second pass (the DNS fast path writes it into a record whose mark is 0)
const c03SoMarkFromDae = 0x8ae0

type c03Consumer struct {
	cp  *ControlPlane
	eps map[UdpEndpointKey]bool
	// maps whose fd is closed: every lookup fails with an error that is not ErrKeyNotExist
	closedConn, closedHo *ebpf.Map
}

func (c *c03Consumer) setEndpoint(k UdpEndpointKey, present bool) {
	shard := DefaultUdpEndpointPool.shardFor(k)
	shard.mu.Lock()
	if present {
		shard.pool[k] = &UdpEndpoint{}
		c.eps[k] = true
	} else {
		delete(shard.pool, k)
		delete(c.eps, k)
	}
	shard.mu.Unlock()
}

func (c *c03Consumer) reset() {
	for k := range c.eps {
		c.setEndpoint(k, false)
	}
	c.cp.udpRouteScopeSensitive = false
}

func c03AddrPort(hx string, port string) (netip.AddrPort, bool) {
	b, err := hex.DecodeString(hx)
	p, err2 := strconv.Atoi(port)
	if err != nil || err2 != nil || len(b) != 16 {
		return netip.AddrPort{}, false
	}
	var a [16]byte
	copy(a[:], b)
	return netip.AddrPortFrom(netip.AddrFrom16(a), uint16(p)), true
}

// ep add|del <sip> <sport> <-|dip:dport>: an endpoint under the flow's full-cone (source only) or symmetric key, built
// by the production key functions
func (c *c03Consumer) ep(op string) {
	tk := strings.Fields(op)
	if len(tk) != 5 {
		return
	}
	src, ok := c03AddrPort(tk[2], tk[3])
	if !ok {
		return
	}
	dst := netip.AddrPortFrom(netip.IPv4Unspecified(), 1)
	if tk[4] != "-" {
		parts := strings.Split(tk[4], ":")
		if len(parts) != 2 {
			return
		}
		if dst, ok = c03AddrPort(parts[0], parts[1]); !ok {
			return
		}
	}
	fd := ClassifyUdpFlow(common.ConvergeAddrPort(src), common.ConvergeAddrPort(dst), []byte("data"))
	k := fd.FullConeNatEndpointKey()
	if tk[4] != "-" {
		k = fd.SymmetricNatEndpointKey()
	}
	c.setEndpoint(k, tk[1] == "add")
}

// rel <sip> <sport> <dip> <dport>: the flow's userspace endpoint goes away.  The conn_state bytes the TC programs stored are
// loaded into the kernel map; a real UdpEndpoint registers the pair as handlePkt does (TrackUdpConnStateTuplePair) and is
// closed (Close -> releaseTrackedUdpConnState -> controlPlaneCore.ReleaseUdpConnStateTuples); answer = keys that are gone.
func (c *c03Consumer) rel(op, cl string, core *controlPlaneCore, connMap *ebpf.Map, loadedConn *map[string][]byte, stats *VStats) string {
	tk := strings.Fields(op)
	cf := strings.Fields(cl)
	if len(tk) != 5 || len(cf) != 3 {
		return "rel=bad-op"
	}
	src, ok1 := c03AddrPort(tk[1], tk[2])
	dst, ok2 := c03AddrPort(tk[3], tk[4])
	conn, e1 := c03ParseDump(cf[0])
	if !ok1 || !ok2 || e1 != nil {
		return "rel=bad-dump"
	}
	if *loadedConn == nil {
		*loadedConn = map[string][]byte{}
	}
	for k := range *loadedConn {
		if _, ok := conn[k]; !ok {
			kb, _ := hex.DecodeString(k)
			if err := connMap.Delete(kb); err != nil && !stderrors.Is(err, ebpf.ErrKeyNotExist) {
				return "rel=error:" + err.Error()
			}
		}
	}
	for k, v := range conn {
		kb, _ := hex.DecodeString(k)
		if err := connMap.Put(kb, v); err != nil {
			return "rel=error:" + err.Error()
		}
	}
	*loadedConn = conn
	if src.Addr().Is4In6() && src.Port()%2 == 0 { // both spellings of an IPv4 peer
		src = netip.AddrPortFrom(src.Addr().Unmap(), src.Port())
	}
	ue := &UdpEndpoint{udpConnStateOwner: core}
	ue.TrackUdpConnStateTuplePair(src, common.ConvergeAddrPort(dst))
	if err := ue.Close(); err != nil {
		return "rel=error:close:" + err.Error()
	}
	var gone []string
	for k := range conn {
		kb, _ := hex.DecodeString(k)
		var probe bpfConnState
		if connMap.Lookup(kb, &probe) != nil {
			gone = append(gone, k)
			delete(*loadedConn, k)
		}
	}
	sort.Strings(gone)
	stats.Inc("rel.calls")
	stats.Add("rel.entries-deleted", len(gone))
	return "rel=[" + strings.Join(gone, ";") + "]"
}

type c03FakeConn struct {
	net.Conn
	local, remote net.Addr
}

func (f *c03FakeConn) LocalAddr() net.Addr  { return f.local }
func (f *c03FakeConn) RemoteAddr() net.Addr { return f.remote }
func (f *c03FakeConn) Close() error         { return nil }

func c03RecString(rr *bpfRoutingResult) string {
	return fmt.Sprintf("%d:%d:%d:%d:%s:%s:%d", rr.Outbound, rr.Mark, rr.Must, rr.Dscp, hex.EncodeToString(rr.Mac[:]),
		hex.EncodeToString(rr.Pname[:]), rr.Pid)
}

// use <l4> <sip> <sport> <dip> <dport> <age> <dtms>: `dtms` ms of control-plane time pass, then the regenerated head of
// handleConn (TCP) / UDP ingress task runs against the bytes the TC programs stored (loaded into the kernel maps)
func (c *c03Consumer) use(op, cl string, connMap, hoMap *ebpf.Map, loadedConn, loadedHo *map[string][]byte, stats *VStats) string {
	tk := strings.Fields(op)
	cf := strings.Fields(cl)
	if (len(tk) != 8 && len(tk) != 9) || len(cf) != 3 || !strings.HasPrefix(cf[2], "now=") {
		return "use=bad-op"
	}
	fault := ""
	if len(tk) == 9 {
		fault = tk[8]
	}
	l4, _ := strconv.Atoi(tk[1])
	age, _ := strconv.ParseUint(tk[6], 10, 64)
	dtms, _ := strconv.Atoi(tk[7])
	src, ok1 := c03AddrPort(tk[2], tk[3])
	dst, ok2 := c03AddrPort(tk[4], tk[5])
	conn, e1 := c03ParseDump(cf[0])
	ho, e2 := c03ParseDump(cf[1])
	if !ok1 || !ok2 || e1 != nil || e2 != nil {
		return "use=bad-dump"
	}
	shimNow, _ := strconv.ParseUint(cf[2][4:], 10, 64)
	key := bpfTuplesKeyFromAddrPorts(src, dst, uint8(l4))
	keyHex := hex.EncodeToString(unsafe.Slice((*byte)(unsafe.Pointer(&key)), unsafe.Sizeof(key)))
	hoAge, hoPresent := int64(0), false
	if hv, ok := ho[keyHex]; ok && len(hv) >= 8 {
		hoAge, hoPresent = int64(shimNow+age-binary.NativeEndian.Uint64(hv)), true
	}
	time.Sleep(time.Duration(dtms) * time.Millisecond) // virtual
	realNow, err := monotonicNowNano()
	if err != nil {
		return "use=error:clock"
	}
	if *loadedConn == nil {
		*loadedConn, *loadedHo = map[string][]byte{}, map[string][]byte{}
	}
	load := func(m *ebpf.Map, loaded *map[string][]byte, want map[string][]byte, rebase bool) error {
		for k := range *loaded {
			if _, ok := want[k]; !ok {
				kb, _ := hex.DecodeString(k)
				if err := m.Delete(kb); err != nil && !stderrors.Is(err, ebpf.ErrKeyNotExist) {
					return err
				}
			}
		}
		for k, v := range want {
			kb, _ := hex.DecodeString(k)
			vv := append([]byte{}, v...)
			if rebase && len(vv) >= 8 {
				if last := binary.NativeEndian.Uint64(vv); last != 0 {
					binary.NativeEndian.PutUint64(vv, c03Rebase(realNow, shimNow+age-last))
				}
			}
			if err := m.Put(kb, vv); err != nil {
				return err
			}
		}
		*loaded = want
		return nil
	}
	if err := load(connMap, loadedConn, conn, false); err != nil {
		return "use=error:load-conn:" + err.Error()
	}
	if err := load(hoMap, loadedHo, ho, true); err != nil {
		return "use=error:load-ho:" + err.Error()
	}
	// both spellings of an IPv4 peer reach the consumers (the listener is dual-stack): mapped for odd source ports
	spell := func(ap netip.AddrPort) netip.AddrPort {
		if ap.Addr().Is4In6() && ap.Port()%2 == 0 {
			return netip.AddrPortFrom(ap.Addr().Unmap(), ap.Port())
		}
		return ap
	}
	if fault != "" {
		objs := c.cp.core.bpf.Load()
		if objs == nil || c.closedConn == nil || c.closedHo == nil {
			return "use=unavailable"
		}
		savedConn, savedHo := objs.ConnStateMap, objs.RoutingHandoffMap
		switch fault {
		case "conn":
			objs.ConnStateMap = c.closedConn
		case "ho":
			objs.RoutingHandoffMap = c.closedHo
		}
		defer func() { objs.ConnStateMap, objs.RoutingHandoffMap = savedConn, savedHo }()
		stats.Inc("use.fault-injected." + fault)
	}
	t0 := time.Now()
	var ans string
	if l4 == 6 {
		fc := &c03FakeConn{remote: net.TCPAddrFromAddrPort(spell(src)), local: net.TCPAddrFromAddrPort(spell(dst))}
		rr, err := c.cp.verifC03TcpRecord(nil, fc)
		if err != nil && fault != "" {
			ans = "use=error" // the head of handleConn returns the error: the connection is closed
			stats.Inc("use.tcp.closed-on-lookup-error")
		} else if err != nil || rr == nil {
			ans = fmt.Sprintf("use=error:%v", err)
		} else {
			ans = fmt.Sprintf("use=%s fresh=- el=%d", c03RecString(rr), time.Since(t0).Nanoseconds())
		}
		stats.Inc("use.tcp")
	} else if dst.Port() == 53 {
		// DNS ingress fast path (the datagram is assumed to carry a DNS message)
		rr := c.cp.verifC03DnsRecord(spell(src), common.ConvergeAddrPort(dst))
		ans = fmt.Sprintf("use=%s fresh=- el=%d", c03RecString(rr), time.Since(t0).Nanoseconds())
		stats.Inc("use.dns")
	} else {
		rr, fresh, delivered := c.cp.verifC03UdpRecord(spell(src), common.ConvergeAddrPort(dst), []byte("data"))
		switch {
		case !delivered || rr == nil:
			ans = "use=dropped"
			if fault != "" {
				stats.Inc("use.udp.dropped-on-lookup-error")
			}
		default:
			ans = fmt.Sprintf("use=%s fresh=%d el=%d", c03RecString(rr), c03B2u(fresh), time.Since(t0).Nanoseconds())
			if !fresh && rr.Outbound != uint8(consts.OutboundControlPlaneRouting) {
				stats.Inc("use.udp.cache-hit")
			}
		}
		stats.Inc("use.udp")
	}
	// the lookup(s) deleted an expired hand-off entry: keep the bookkeeping in step
	if _, ok := (*loadedHo)[keyHex]; ok {
		var probe bpfRoutingHandoffEntry
		kb, _ := hex.DecodeString(keyHex)
		if hoMap.Lookup(kb, &probe) != nil {
			delete(*loadedHo, keyHex)
		}
	}
	if realNow2, e2 := monotonicNowNano(); e2 == nil && hoPresent {
		stall := int64(realNow2-realNow) + 20000000
		lim := routingHandoffTimeout.Nanoseconds()
		if hoAge > lim-stall && hoAge <= lim+20000000 {
			stats.Inc("use.skipped-boundary")
			return "use=skip-boundary"
		}
	}
	return ans
}

// c03Janitor answers a `jan <aggressive> <age>` op: the raw conn_state / hand-off entries the kernel program stored
// (C dump) are loaded into the real kernel maps with their timestamps rebased age-preservingly to CLOCK_MONOTONIC,
// then the REAL cleanupConnStateMapBeforeLocked / cleanupRoutingHandoffMapBeforeLocked run; the answer lists the keys
// they deleted, plus the keys whose age is so close to a timeout that the host's scheduling decided (`unc`).
func c03Janitor(op, cl string, core *controlPlaneCore, connMap, hoMap *ebpf.Map, loadedConn, loadedHo *map[string][]byte, stats *VStats) string {
	tk := strings.Fields(op)
	cf := strings.Fields(cl)
	if len(tk) != 3 || len(cf) != 3 || !strings.HasPrefix(cf[2], "now=") {
		return "jan=bad-op"
	}
	aggressive := tk[1] != "0"
	age, _ := strconv.ParseUint(tk[2], 10, 64)
	conn, e1 := c03ParseDump(cf[0])
	ho, e2 := c03ParseDump(cf[1])
	if e1 != nil || e2 != nil {
		return "jan=bad-dump"
	}
	shimNow, _ := strconv.ParseUint(cf[2][4:], 10, 64)
	realNow, err := monotonicNowNano()
	if err != nil {
		return "jan=error:clock"
	}
	if *loadedConn == nil {
		*loadedConn, *loadedHo = map[string][]byte{}, map[string][]byte{}
	}
	ages := map[string]uint64{}
	load := func(m *ebpf.Map, loaded *map[string][]byte, want map[string][]byte, off int, tag string) error {
		for k := range *loaded {
			if _, ok := want[k]; !ok {
				kb, _ := hex.DecodeString(k)
				if err := m.Delete(kb); err != nil && !stderrors.Is(err, ebpf.ErrKeyNotExist) {
					return err
				}
			}
		}
		for k, v := range want {
			kb, _ := hex.DecodeString(k)
			vv := append([]byte{}, v...)
			last := binary.NativeEndian.Uint64(vv[off:])
			a := shimNow + age - last
			ages[tag+k] = a
			if last != 0 {
				binary.NativeEndian.PutUint64(vv[off:], c03Rebase(realNow, a))
			}
			if err := m.Put(kb, vv); err != nil {
				return err
			}
		}
		*loaded = want
		return nil
	}
	if err := load(connMap, loadedConn, conn, 8, "c"); err != nil {
		return "jan=error:load-conn:" + err.Error()
	}
	if err := load(hoMap, loadedHo, ho, 0, "h"); err != nil {
		return "jan=error:load-ho:" + err.Error()
	}
	cp := &ControlPlane{core: core, log: logrus.New(), controlPlaneDatapathJanitor: newControlPlaneDatapathJanitor()}
	cp.log.SetOutput(io.Discard)
	cp.cleanupConnStateMapBeforeLocked(aggressive, 0)
	cp.cleanupRoutingHandoffMapBeforeLocked(0)
	realNow2, _ := monotonicNowNano()
	stall := int64(realNow2-realNow) + 20000000
	var del, hdel, unc []string
	uncertain := func(a uint64, limits []int64) bool {
		if int64(a) >= 0 && a >= realNow && realNow <= 125000000000 {
			return true // older than the host's boot and the host is younger than the longest timeout
		}
		for _, lim := range limits {
			if int64(a) > lim-stall && int64(a) <= lim+20000000 {
				return true
			}
		}
		return false
	}
	sec := int64(1000000000)
	for k := range conn {
		kb, _ := hex.DecodeString(k)
		var probe bpfConnState
		gone := connMap.Lookup(kb, &probe) != nil
		if uncertain(ages["c"+k], []int64{5 * sec, 17 * sec / 2, 10 * sec, 17 * sec, 60 * sec, 120 * sec}) {
			unc = append(unc, k)
		}
		if gone {
			del = append(del, k)
			delete(*loadedConn, k)
		}
	}
	for k := range ho {
		kb, _ := hex.DecodeString(k)
		var probe bpfRoutingHandoffEntry
		gone := hoMap.Lookup(kb, &probe) != nil
		if uncertain(ages["h"+k], []int64{routingHandoffTimeout.Nanoseconds()}) {
			unc = append(unc, k)
		}
		if gone {
			hdel = append(hdel, k)
			delete(*loadedHo, k)
		}
	}
	sort.Strings(del)
	sort.Strings(hdel)
	sort.Strings(unc)
	stats.Inc("jan.rounds")
	if aggressive {
		stats.Inc("jan.aggressive")
	}
	stats.Add("jan.conn-entries", len(conn))
	stats.Add("jan.conn-deleted", len(del))
	stats.Add("jan.handoff-deleted", len(hdel))
	stats.Add("jan.uncertain", len(unc))
	return fmt.Sprintf("del=[%s] hdel=[%s] unc=[%s]", strings.Join(del, ";"), strings.Join(hdel, ";"), strings.Join(unc, ";"))
}

// c03Rebase gives the CLOCK_MONOTONIC timestamp whose age at realNow is `age` (computed modulo 2^64 on the
// harness's virtual clock): age-preserving whatever the host's uptime.
//   - a virtual timestamp in the future of the virtual lookup time (age "negative") stays that far in the future;
//   - an age the real clock cannot represent (older than the host's boot) becomes the oldest non-zero timestamp, 1 ns
//     after boot — still expired, because the second pass never starts before the host has been up longer than the
//     hand-off timeout (c03WaitUptime); 0 is never produced (it means "never written" to routingHandoffExpired).
func c03Rebase(realNow, age uint64) uint64 {
	if int64(age) < 0 {
		return realNow + uint64(-int64(age))
	}
	if age >= realNow {
		return 1
	}
	return realNow - age
}

// the "older than boot" clamp above needs an uptime beyond the timeout plus the boundary guard
func c03WaitUptime() {
	need := uint64(routingHandoffTimeout.Nanoseconds()) + 1000000000
	for {
		now, err := monotonicNowNano()
		if err != nil || now > need {
			return
		}
		time.Sleep(200 * time.Millisecond)
	}
}

// used only when bpf(2) is not permitted: the same decisions through the real struct types, the real
// routingResultFromConnState and the real routingHandoffExpired
func c03RetrFallback(conn, ho map[string][]byte, keyHex string, l4 uint8, now uint64) string {
	if l4 == 6 || l4 == 17 {
		if v, ok := conn[keyHex]; ok {
			var cs bpfConnState
			if err := binary.Read(bytes.NewReader(v), binary.NativeEndian, &cs); err != nil {
				return "rr=error:" + err.Error()
			}
			if cs.Meta.Data.HasRouting != 0 {
				rr := routingResultFromConnState(cs.Meta.Data.Mark, cs.Meta.Data.Must, cs.Meta.Data.Outbound, cs.Mac,
					cs.Meta.Data.Dscp, cs.Pname, cs.Pid)
				return c03RRString(&rr, nil)
			}
		}
	}
	if v, ok := ho[keyHex]; ok {
		var he bpfRoutingHandoffEntry
		if err := binary.Read(bytes.NewReader(v), binary.NativeEndian, &he); err != nil {
			return "rr=error:" + err.Error()
		}
		if routingHandoffExpired(now, he.LastSeenNs) {
			return "rr=notfound"
		}
		rr := routingResultFromConnState(he.Result.Mark, he.Result.Must, he.Result.Outbound, he.Result.Mac, he.Result.Dscp,
			he.Result.Pname, he.Result.Pid)
		return c03RRString(&rr, nil)
	}
	return "rr=notfound"
}

// ---- all four userspace janitors, the reload-retirement pass, and rounds whose two phases are separated by traffic

// Hook for rounds in two phases.  The janitors delete through BpfMapBatchDelete; with SimulateBatchDelete (the production
// path for kernels without batch operations) that is one Map.Delete per collected key, and cilium/ebpf marshals each key
// through encoding.BinaryMarshaler when the key type has the method.  The method below yields exactly the bytes the
// default path yields (the struct's memory image) and, when armed, first lets the harness put the kernel map into the
// state the TC programs produced between the BatchLookup walk and the deletes.  Unarmed it is a pure pass-through.
var c03KeyMarshalHook func()

func (k bpfTuplesKey) MarshalBinary() ([]byte, error) {
	if h := c03KeyMarshalHook; h != nil {
		c03KeyMarshalHook = nil
		h()
	}
	b := make([]byte, unsafe.Sizeof(k))
	copy(b, unsafe.Slice((*byte)(unsafe.Pointer(&k)), unsafe.Sizeof(k)))
	return b, nil
}

type c03Jan4 struct {
	core   *controlPlaneCore
	maps   [4]*ebpf.Map // conn_state_map, routing_handoff_map, redirect_track, cookie_pid_map
	loaded [4]map[string][]byte
	stats  *VStats
	// pending two-phase round
	snapOp   string
	snapDump [4]map[string][]byte
	snapNow  uint64
}

var c03J4Names = [4]string{"conn", "ho", "rt", "ck"}

// offset of last_seen_ns in the value of each map
var c03J4TsOff = [4]int{8, 0, 24, 0}

func c03ParseDump4(cl string) (d [4]map[string][]byte, now uint64, ok bool) {
	cf := strings.Fields(cl)
	if len(cf) != 5 || !strings.HasPrefix(cf[4], "now=") {
		return d, 0, false
	}
	for i := 0; i < 4; i++ {
		m, err := c03ParseDump(cf[i])
		if err != nil || !strings.HasPrefix(cf[i], c03J4Names[i]+"=") {
			return d, 0, false
		}
		d[i] = m
	}
	now, err := strconv.ParseUint(cf[4][4:], 10, 64)
	return d, now, err == nil
}

// put kernel map i into exactly the state `want`; timestamps rebased so that an entry's age at realNow is its age at
// virtual time vnow.  Returns the ages.
func (j *c03Jan4) load(i int, want map[string][]byte, realNow, vnow uint64, ages map[string]uint64) error {
	m := j.maps[i]
	if j.loaded[i] == nil {
		j.loaded[i] = map[string][]byte{}
	}
	for k := range j.loaded[i] {
		if _, ok := want[k]; !ok {
			kb, _ := hex.DecodeString(k)
			if err := m.Delete(kb); err != nil && !stderrors.Is(err, ebpf.ErrKeyNotExist) {
				return err
			}
		}
	}
	off := c03J4TsOff[i]
	for k, v := range want {
		kb, _ := hex.DecodeString(k)
		vv := append([]byte{}, v...)
		last := binary.NativeEndian.Uint64(vv[off:])
		a := vnow - last
		if ages != nil {
			ages[c03J4Names[i]+k] = a
		}
		if last != 0 {
			binary.NativeEndian.PutUint64(vv[off:], c03Rebase(realNow, a))
		}
		if err := m.Put(kb, vv); err != nil {
			return err
		}
	}
	cp := make(map[string][]byte, len(want))
	for k, v := range want {
		cp[k] = v
	}
	j.loaded[i] = cp
	return nil
}

func (j *c03Jan4) gone(i int, in map[string][]byte) []string {
	var out []string
	for k := range in {
		kb, _ := hex.DecodeString(k)
		if v, err := j.maps[i].LookupBytes(kb); err == nil && v == nil {
			out = append(out, k)
			delete(j.loaded[i], k)
		}
	}
	sort.Strings(out)
	return out
}

// the absolute staleBeforeNs on the real clock for "idle for more than ago"
func c03StaleReal(realNow, ago uint64) uint64 {
	if ago == 0 {
		return 0
	}
	if ago >= realNow {
		return 1
	}
	return realNow - ago
}

func (j *c03Jan4) cp() *ControlPlane {
	cp := &ControlPlane{core: j.core, log: logrus.New(), controlPlaneDatapathJanitor: newControlPlaneDatapathJanitor()}
	cp.log.SetOutput(io.Discard)
	return cp
}

// ages within the scheduling-noise band of a threshold: the host decided, not the code
func c03Uncertain(a, realNow uint64, stall int64, limits []int64, ago uint64) bool {
	maxLim := int64(0)
	for _, l := range limits {
		if l > maxLim {
			maxLim = l
		}
	}
	if int64(a) >= 0 && a >= realNow && int64(realNow) <= maxLim+5000000000 {
		return true // older than the host's boot, and the host is younger than the longest timeout
	}
	for _, lim := range limits {
		if int64(a) > lim-stall && int64(a) <= lim+20000000 {
			return true
		}
	}
	_ = ago // the retirement horizon is compared with timestamps rebased by the same clock sample: exact
	return false
}

var c03J4Limits = func() [4][]int64 {
	sec := int64(1000000000)
	return [4][]int64{
		{5 * sec, 17 * sec / 2, 10 * sec, 17 * sec, 60 * sec, 120 * sec},
		{10 * sec},
		{300 * sec},
		{300 * sec},
	}
}()

func (j *c03Jan4) op(op, cl string) string {
	tk := strings.Fields(op)
	dump, shimNow, ok := c03ParseDump4(cl)
	if !ok {
		return "jan=bad-dump"
	}
	switch tk[0] {
	case "jan4":
		if len(tk) != 4 {
			return "jan=bad-op"
		}
		aggressive := tk[1] != "0"
		age, _ := strconv.ParseUint(tk[2], 10, 64)
		ago, _ := strconv.ParseUint(tk[3], 10, 64)
		realNow, err := monotonicNowNano()
		if err != nil {
			return "jan=error:clock"
		}
		ages := map[string]uint64{}
		for i := 0; i < 4; i++ {
			if err := j.load(i, dump[i], realNow, shimNow+age, ages); err != nil {
				return "jan=error:load-" + c03J4Names[i] + ":" + err.Error()
			}
		}
		cp := j.cp()
		if ago != 0 {
			// the reload pass: the real entry point (always aggressive)
			cp.RunReloadRetirementCleanup(c03StaleReal(realNow, ago))
			j.stats.Inc("jan4.reload-retirement")
		} else {
			// the periodic janitors' entry points (they take the cleanup lock themselves)
			cp.cleanupRedirectTrackMap()
			cp.cleanupCookiePidMap()
			cp.cleanupRoutingHandoffMap()
			cp.cleanupConnStateMap(aggressive)
		}
		realNow2, _ := monotonicNowNano()
		stall := int64(realNow2-realNow) + 20000000
		var unc []string
		var lists [4][]string
		for i := 0; i < 4; i++ {
			for k := range dump[i] {
				if c03Uncertain(ages[c03J4Names[i]+k], realNow, stall, c03J4Limits[i], ago) {
					unc = append(unc, k)
				}
			}
			lists[i] = j.gone(i, dump[i])
			j.stats.Add("jan4.deleted."+c03J4Names[i], len(lists[i]))
		}
		sort.Strings(unc)
		j.stats.Inc("jan4.rounds")
		j.stats.Add("jan4.uncertain", len(unc))
		return fmt.Sprintf("del=[%s] hdel=[%s] rdel=[%s] cdel=[%s] unc=[%s]", strings.Join(lists[0], ";"), strings.Join(lists[1], ";"),
			strings.Join(lists[2], ";"), strings.Join(lists[3], ";"), strings.Join(unc, ";"))
	case "jsnap":
		if len(tk) != 4 {
			return "jan=bad-op"
		}
		j.snapOp, j.snapDump, j.snapNow = op, dump, shimNow
		return "-"
	case "jdel":
		if j.snapOp == "" {
			return "del=[] hdel=[] unc=[]"
		}
		st := strings.Fields(j.snapOp)
		j.snapOp = ""
		aggressive := st[1] != "0"
		age, _ := strconv.ParseUint(st[2], 10, 64)
		ago, _ := strconv.ParseUint(st[3], 10, 64)
		realNow, err := monotonicNowNano()
		if err != nil {
			return "jan=error:clock"
		}
		initBatchDeleteFeatureFlags()
		saved := SimulateBatchDelete
		SimulateBatchDelete = true
		defer func() { SimulateBatchDelete = saved; c03KeyMarshalHook = nil }()
		ages := map[string]uint64{}
		cp := j.cp()
		var lists [2][]string
		var stall int64
		for i := 0; i < 2; i++ {
			// phase 1 sees the snapshot ...
			if err := j.load(i, j.snapDump[i], realNow, j.snapNow+age, ages); err != nil {
				return "jan=error:load-" + c03J4Names[i] + ":" + err.Error()
			}
			// ... and right before the first delete the map is what the TC programs made of it meanwhile
			fired := false
			var hookErr error
			c03KeyMarshalHook = func() {
				fired = true
				hookErr = j.load(i, dump[i], realNow, shimNow+age, nil)
			}
			t0, _ := monotonicNowNano()
			if i == 0 {
				cp.cleanupConnStateMapBeforeLocked(aggressive, c03StaleReal(realNow, ago))
			} else {
				cp.cleanupRoutingHandoffMapBeforeLocked(c03StaleReal(realNow, ago))
			}
			t1, _ := monotonicNowNano()
			c03KeyMarshalHook = nil
			if s := int64(t1-realNow) + 20000000; s > stall {
				stall = s
			}
			_ = t0
			if hookErr != nil {
				return "jan=error:hook-load:" + hookErr.Error()
			}
			if !fired {
				// nothing was collected: nothing is deleted from the later state either
				if err := j.load(i, dump[i], realNow, shimNow+age, nil); err != nil {
					return "jan=error:load2:" + err.Error()
				}
			} else {
				j.stats.Inc("jdel.interleaved-delete-phase." + c03J4Names[i])
			}
			lists[i] = j.gone(i, dump[i])
			j.stats.Add("jdel.deleted."+c03J4Names[i], len(lists[i]))
			// an entry that is gone although the later state holds a value the walk did not see (re-created or refreshed
			// in between): the snapshot/delete race
			for _, k := range lists[i] {
				if old, ok := j.snapDump[i][k]; ok && !bytes.Equal(old, dump[i][k]) {
					j.stats.Inc("jdel.deleted-entry-changed-since-walk." + c03J4Names[i])
				}
			}
		}
		var unc []string
		for i := 0; i < 2; i++ {
			for k := range j.snapDump[i] {
				if c03Uncertain(ages[c03J4Names[i]+k], realNow, stall, c03J4Limits[i], ago) {
					unc = append(unc, k)
				}
			}
		}
		sort.Strings(unc)
		j.stats.Inc("jdel.rounds")
		j.stats.Add("jdel.uncertain", len(unc))
		return fmt.Sprintf("del=[%s] hdel=[%s] unc=[%s]", strings.Join(lists[0], ";"), strings.Join(lists[1], ";"), strings.Join(unc, ";"))
	}
	return "jan=bad-op"
}
