package control

// C13 correspondence harness — part 1: the per-flow UDP task queues (udp_task_pool.go).
//
// Schedule replay.  Every goroutine of the REAL UdpTaskPool (producers inside EmitTask, the convoy
// of every queue) is parked at the `verifYield` points of build tag `verif`; a seeded scheduler
// releases exactly one parked goroutine at a time and waits (testing/synctest) until everything is
// parked or blocked again.  Each release is written as one op line (`tq run p3 -`, `tq run c0 -`,
// `tq auto c0 recv`, …) together with the place the goroutine stopped at and the queue's
// observable state; the Lean driver (lean/DaeVerif/C13/Main.lean) executes the same schedule on the
// transition system the theorems are about and must stop at the same places with the same state
// and the same per-flow execution logs.
//
// Stream c13_tq.  Op grammar:
//   tq reset <cap> <gc> <pop>        new pool (model protocol switches; the real code is what it is)
//   tq spawn <k>                     a new EmitTask(key k, task = producer id) call, parked before it
//   tq run p<i> <chan|->             producer i runs to its next yield point / return; <chan> is the
//                                    channel sync.Pool handed out if the segment passes Get()
//   tq run c<q> -                    convoy of queue q runs to its next yield point / select / exit
//   tq auto c<q> recv|wake|timer     convoy q left its select by itself (task arrived / wake / idle timer)
//   tq q <q>                         refs, len(ch), len(overflow), overflowMode, still mapped
//   tq log <k>                       execution order and acceptance order of flow k
//   tq map                           the table key -> queue

import (
	"bytes"
	"fmt"
	"net/netip"
	"os"
	"runtime"
	"sort"
	"strconv"
	"strings"
	"sync"
	"testing"
	"testing/synctest"
	"time"
)

func c13Goid() int64 {
	var buf [64]byte
	n := runtime.Stack(buf[:], false)
	// "goroutine 123 [running]:"
	f := bytes.Fields(buf[:n])
	if len(f) < 2 {
		return -1
	}
	id, _ := strconv.ParseInt(string(f[1]), 10, 64)
	return id
}

func c13GoroutineAlive(gid int64) bool {
	buf := make([]byte, 1<<20)
	for {
		n := runtime.Stack(buf, true)
		if n < len(buf) {
			buf = buf[:n]
			break
		}
		buf = make([]byte, 2*len(buf))
	}
	return bytes.Contains(buf, []byte(fmt.Sprintf("goroutine %d [", gid)))
}

type c13Park struct {
	gid    int64
	name   string
	q      *UdpTaskQueue
	task   int // for task.running
	resume chan struct{}
}

type c13Thread struct {
	isProd bool
	id     int // producer id or queue id
	gid    int64
	park   *c13Park // where it is parked now (nil: running / blocked in select / finished)
	done   bool
	key    int // producer: flow key index
}

type c13Sched struct {
	mu          sync.Mutex
	passthrough bool
	arrivals    []*c13Park
	finished    []int64 // gids of producers that returned from EmitTask

	pool     *UdpTaskPool
	keys     []UdpFlowKey
	prods    []*c13Thread
	convs    []*c13Thread // index = queue id
	byGid    map[int64]*c13Thread
	qid      map[*UdpTaskQueue]int
	chid     map[chan UdpTask]int
	queues   []*UdpTaskQueue
	execLog  map[int][]int // key index -> tasks in completion order (by the key of the executing queue)
	accepted map[int][]int
	keyIdx   map[UdpFlowKey]int

	s     *VStream
	stats *VStats
	nops  int

	ovfSlack map[*UdpTaskQueue][2]int
}

func (sc *c13Sched) hook(name string, args ...any) {
	sc.mu.Lock()
	if sc.passthrough {
		sc.mu.Unlock()
		return
	}
	p := &c13Park{gid: c13Goid(), name: name, resume: make(chan struct{})}
	if len(args) > 0 {
		if q, ok := args[0].(*UdpTaskQueue); ok {
			p.q = q
		}
	}
	sc.arrivals = append(sc.arrivals, p)
	sc.mu.Unlock()
	<-p.resume
}

func (sc *c13Sched) taskFn(id int) UdpTask {
	return func() {
		gid := c13Goid()
		sc.mu.Lock()
		pass := sc.passthrough
		var p *c13Park
		if !pass {
			p = &c13Park{gid: gid, name: "task.running", task: id, resume: make(chan struct{})}
			sc.arrivals = append(sc.arrivals, p)
		}
		sc.mu.Unlock()
		if p != nil {
			<-p.resume
		}
		// completion: log under the key of the queue whose convoy runs us
		sc.mu.Lock()
		k := -1
		if th := sc.byGid[gid]; th != nil && !th.isProd {
			k = sc.keyIdx[sc.queues[th.id].key]
		}
		sc.execLog[k] = append(sc.execLog[k], id)
		sc.mu.Unlock()
	}
}

func (sc *c13Sched) spawn(k int) int {
	id := len(sc.prods)
	th := &c13Thread{isProd: true, id: id, key: k}
	sc.prods = append(sc.prods, th)
	started := make(chan struct{})
	go func() {
		gid := c13Goid()
		sc.mu.Lock()
		th.gid = gid
		sc.byGid[gid] = th
		sc.mu.Unlock()
		close(started)
		sc.hook("emit.start")
		sc.pool.EmitTask(sc.keys[k], sc.taskFn(id))
		sc.mu.Lock()
		sc.finished = append(sc.finished, gid)
		sc.mu.Unlock()
	}()
	<-started
	synctest.Wait()
	sc.collect(nil)
	sc.emit(fmt.Sprintf("tq spawn %d", k), fmt.Sprintf("p=%d", id))
	return id
}

func (sc *c13Sched) emit(op, out string) {
	sc.s.Emit(op, out)
	sc.nops++
}

func c13JoinInts(l []int) string {
	if len(l) == 0 {
		return "-"
	}
	ss := make([]string, len(l))
	for i, v := range l {
		ss[i] = strconv.Itoa(v)
	}
	return strings.Join(ss, ",")
}

func (sc *c13Sched) qDigest(q *UdpTaskQueue) string {
	v, ok := sc.pool.queues.Load(q.key)
	inmap := ok && v.(*UdpTaskQueue) == q
	q.enqueueMu.Lock()
	ovf, mode := len(q.overflow), q.overflowMode
	q.enqueueMu.Unlock()
	b := func(x bool) string {
		if x {
			return "1"
		}
		return "0"
	}
	switch {
	case ovf >= 2:
		sc.stats.Inc("tq.digest.overflow>=2")
	case ovf == 1:
		sc.stats.Inc("tq.digest.overflow=1")
	}
	// coverage of popOverflowTask's slice management (not compared: capacity is not observable behaviour)
	q.enqueueMu.Lock()
	capNow := cap(q.overflow)
	q.enqueueMu.Unlock()
	if ovf > UdpTaskQueueLength*2 {
		sc.stats.Inc("tq.digest.overflow>256")
	}
	// (a pop takes one slot off the front of the backing array; a compaction takes many at once)
	if prev, ok := sc.ovfSlack[q]; ok && ovf > 0 && prev[1] >= ovf && prev[0]-capNow > prev[1]-ovf+8 {
		sc.stats.Inc("tq.overflow.sliceShrunk")
	}
	if sc.ovfSlack == nil {
		sc.ovfSlack = map[*UdpTaskQueue][2]int{}
	}
	sc.ovfSlack[q] = [2]int{capNow, ovf}
	// the encoding of "claimed" (a negative sentinel today) is not part of the property
	refs := fmt.Sprint(q.refs.Load())
	if q.refs.Load() < 0 {
		sc.stats.Inc("tq.digest.claimed")
		refs = "claimed"
	}
	return fmt.Sprintf("refs=%s ch=%d ovf=%d mode=%s inmap=%s", refs, len(q.ch), ovf, b(mode), b(inmap))
}

func (sc *c13Sched) chanID(ch chan UdpTask) int {
	if id, ok := sc.chid[ch]; ok {
		return id
	}
	id := len(sc.chid)
	sc.chid[ch] = id
	return id
}

// collect processes the arrivals since the last call.  `released` is the thread that was released
// (nil for spawn/tick).  Returns the description of where `released` stopped and the list of
// self-woken convoys with the select branch they took.
type c13Auto struct {
	th  *c13Thread
	sel string
	at  string
}

func (sc *c13Sched) collect(released *c13Thread) (at string, chanTok string, autos []c13Auto, touched []int) {
	sc.mu.Lock()
	arr := sc.arrivals
	sc.arrivals = nil
	fin := sc.finished
	sc.finished = nil
	sc.mu.Unlock()
	chanTok = "-"
	seen := map[int]bool{}
	touch := func(q int) {
		if !seen[q] {
			seen[q] = true
			touched = append(touched, q)
		}
	}
	for _, gid := range fin {
		th := sc.byGid[gid]
		th.done = true
		th.park = nil
		if th == released {
			at = "at=emit.return"
		}
	}
	for _, p := range arr {
		th := sc.byGid[p.gid]
		if th == nil {
			// a convoy goroutine seen for the first time (started by `go q.convoy()`)
			if p.q == nil {
				panic("c13: unknown goroutine parked at " + p.name)
			}
			qi, ok := sc.qid[p.q]
			if !ok {
				panic("c13: convoy of an unregistered queue at " + p.name)
			}
			th = sc.convs[qi]
			th.gid = p.gid
			sc.mu.Lock()
			sc.byGid[p.gid] = th
			sc.mu.Unlock()
			th.park = p
			touch(qi)
			continue // the model's addRef step already put the convoy at loopTop
		}
		wasBlocked := th.park == nil && !th.isProd && th != released
		th.park = p
		name := p.name
		if name == "emit.start" {
			continue // a freshly spawned producer parked before its EmitTask call
		}
		if th.isProd {
			if p.q != nil {
				if name == "acquire.afterStoreBeforeAddRef" {
					// the queue has just been stored: give it its id (store order = model's nq order)
					if _, ok := sc.qid[p.q]; !ok {
						qi := len(sc.queues)
						sc.qid[p.q] = qi
						sc.queues = append(sc.queues, p.q)
						sc.convs = append(sc.convs, &c13Thread{isProd: false, id: qi})
					}
				}
				if qi, ok := sc.qid[p.q]; ok {
					touch(qi)
				}
			}
			if name == "acquire.beforeLoadOrStore" {
				chanTok = strconv.Itoa(sc.chanID(p.q.ch))
				name += " chan=" + chanTok
			}
		} else {
			touch(th.id)
			if name == "task.running" {
				name = fmt.Sprintf("task.running:%d", p.task)
			}
		}
		if th == released {
			at = "at=" + name
		} else if wasBlocked {
			sel := "wake"
			switch {
			case strings.HasPrefix(name, "task.running"):
				sel = "recv"
			case name == "convoy.timerFired":
				sel = "timer"
			}
			autos = append(autos, c13Auto{th: th, sel: sel, at: "at=" + name})
		} else {
			panic(fmt.Sprintf("c13: thread %v moved without being released (at %s)", th, name))
		}
	}
	if released != nil && at == "" {
		// no arrival: a convoy that went into its select, or exited
		if released.isProd {
			panic("c13: producer vanished")
		}
		released.park = nil
		touch(released.id)
		if c13GoroutineAlive(released.gid) {
			at = "at=convoy.select"
		} else {
			released.done = true
			at = "at=convoy.exit"
		}
	}
	return
}

func (sc *c13Sched) threadName(th *c13Thread) string {
	if th.isProd {
		return fmt.Sprintf("p%d", th.id)
	}
	return fmt.Sprintf("c%d", th.id)
}

func (sc *c13Sched) afterGroup(autos []c13Auto, touched []int) {
	for _, a := range autos {
		sc.emit(fmt.Sprintf("tq auto %s %s", sc.threadName(a.th), a.sel), a.at)
		sc.stats.Inc("tq.auto." + a.sel)
	}
	sort.Ints(touched)
	for _, qi := range touched {
		sc.emit(fmt.Sprintf("tq q %d", qi), sc.qDigest(sc.queues[qi]))
	}
}

// run releases one parked thread and records what happened.
func (sc *c13Sched) run(th *c13Thread) string {
	p := th.park
	if p == nil {
		panic("c13: run of a thread that is not parked")
	}
	wasEnq := th.isProd && p.name == "emit.beforeEnqueue"
	wasPopOvf := !th.isProd && p.name == "convoy.betweenChanPollAndOverflowPop"
	th.park = nil
	close(p.resume)
	synctest.Wait()
	at, chanTok, autos, touched := sc.collect(th)
	if wasEnq {
		sc.accepted[th.key] = append(sc.accepted[th.key], th.id)
	}
	if wasPopOvf && (at == "at=convoy.loopTop" || at == "at=convoy.timerFired") {
		// popOverflowTask found nothing, the convoy entered its select and left it at once through a
		// pending wake token / an already expired idle timer: two model steps.
		sel := "wake"
		if at == "at=convoy.timerFired" {
			sel = "timer"
		}
		sc.emit(fmt.Sprintf("tq run %s %s", sc.threadName(th), chanTok), "at=convoy.select")
		autos = append([]c13Auto{{th: th, sel: sel, at: at}}, autos...)
		at = ""
	}
	if at != "" {
		sc.emit(fmt.Sprintf("tq run %s %s", sc.threadName(th), chanTok), at)
	}
	if at != "" {
		sc.stats.Inc("tq.stop." + strings.FieldsFunc(strings.TrimPrefix(at, "at="), func(c rune) bool { return c == ':' || c == ' ' })[0])
	} else {
		sc.stats.Inc("tq.stop.convoy.select")
	}
	sc.afterGroup(autos, touched)
	return at
}

func (sc *c13Sched) tick() {
	time.Sleep(UdpTaskPoolAgingTime)
	synctest.Wait()
	_, _, autos, touched := sc.collect(nil)
	sc.afterGroup(autos, touched)
	sc.stats.Inc("tq.tick")
}

func (sc *c13Sched) parked() []*c13Thread {
	var l []*c13Thread
	for _, th := range sc.prods {
		if th.park != nil {
			l = append(l, th)
		}
	}
	for _, th := range sc.convs {
		if th.park != nil {
			l = append(l, th)
		}
	}
	return l
}

func (sc *c13Sched) runToEnd(th *c13Thread) {
	for i := 0; i < 64 && th.park != nil; i++ {
		sc.run(th)
	}
}

func (sc *c13Sched) logs() {
	for k := range sc.keys {
		sc.emit(fmt.Sprintf("tq log %d", k),
			fmt.Sprintf("done=%s accepted=%s", c13JoinInts(sc.execLog[k]), c13JoinInts(sc.accepted[k])))
	}
	if l := sc.execLog[-1]; len(l) > 0 {
		sc.emit("tq log 99", "done="+c13JoinInts(l)+" accepted=-") // executed by an unknown goroutine: never equals the model
	}
	var es []string
	sc.pool.queues.Range(func(k, v any) bool {
		es = append(es, fmt.Sprintf("%d:q%d", sc.keyIdx[k.(UdpFlowKey)], sc.qid[v.(*UdpTaskQueue)]))
		return true
	})
	sort.Strings(es)
	if len(es) == 0 {
		sc.emit("tq map", "map=-")
	} else {
		sc.emit("tq map", "map="+strings.Join(es, ","))
	}
}

// drain: run everything to quiescence, then let the idle GC collect every queue.
func (sc *c13Sched) drain(r *VRand) {
	for i := 0; i < 100000; i++ {
		l := sc.parked()
		if len(l) == 0 {
			break
		}
		sc.run(l[r.Intn(len(l))])
	}
	sc.logs()
	for round := 0; round < 6; round++ {
		n := 0
		sc.pool.queues.Range(func(_, _ any) bool { n++; return true })
		if n == 0 {
			break
		}
		sc.tick()
		for i := 0; i < 100000; i++ {
			l := sc.parked()
			if len(l) == 0 {
				break
			}
			sc.run(l[r.Intn(len(l))])
		}
	}
	sc.logs()
}

// flow keys 2j and 2j+1 share the client source and differ only in the destination: the table must
// be keyed by the whole flow key
func c13FlowKey(i int) UdpFlowKey {
	j := i / 2
	return UdpFlowKey{
		Src: netip.AddrPortFrom(netip.AddrFrom4([4]byte{10, 0, byte(j >> 8), byte(j)}), uint16(10000+j)),
		Dst: netip.AddrPortFrom(netip.AddrFrom4([4]byte{198, 51, 100, 7}), uint16(4433+i%2)),
	}
}

// one schedule inside its own synctest bubble
func c13TqSchedule(t *testing.T, s *VStream, stats *VStats, nkeys int, body func(sc *c13Sched)) {
	synctest.Test(t, func(t *testing.T) {
		sc := &c13Sched{
			pool: NewUdpTaskPool(), byGid: map[int64]*c13Thread{}, qid: map[*UdpTaskQueue]int{},
			chid: map[chan UdpTask]int{}, execLog: map[int][]int{}, accepted: map[int][]int{},
			keyIdx: map[UdpFlowKey]int{}, s: s, stats: stats,
		}
		for i := 0; i < nkeys; i++ {
			sc.keys = append(sc.keys, c13FlowKey(i))
			sc.keyIdx[sc.keys[i]] = i
		}
		verifYieldHook = sc.hook
		defer func() { verifYieldHook = nil }()
		sc.emit(fmt.Sprintf("tq reset %d 1 1", UdpTaskQueueLength), "ok")
		body(sc)
		// let every goroutine finish before the bubble ends
		sc.mu.Lock()
		sc.passthrough = true
		sc.mu.Unlock()
		for _, th := range sc.parked() {
			close(th.park.resume)
			th.park = nil
		}
		synctest.Wait()
		sc.pool.Close()
		// a convoy whose queue the table lost track of (only possible when the protocol is broken — the
		// stream has already recorded that) would stay blocked past the bubble's end: wake it explicitly
		for _, q := range sc.queues {
			q.close()
		}
		synctest.Wait()
	})
}

// ---- scripted schedules (also the revert tests of the two task-queue fixes) ----

func (sc *c13Sched) script(r *VRand, steps ...string) {
	for _, st := range steps {
		f := strings.Fields(st)
		switch f[0] {
		case "spawn":
			k, _ := strconv.Atoi(f[1])
			sc.spawn(k)
		case "tick":
			sc.tick()
		case "burst": // burst <k> <n>: n EmitTask calls for key k, each run to completion
			k, _ := strconv.Atoi(f[1])
			n, _ := strconv.Atoi(f[2])
			for i := 0; i < n; i++ {
				id := sc.spawn(k)
				sc.runToEnd(sc.prods[id])
			}
		default:
			star := strings.HasSuffix(f[0], "*")
			name := strings.TrimSuffix(f[0], "*")
			idx, _ := strconv.Atoi(name[1:])
			var th *c13Thread
			if name[0] == 'p' && idx < len(sc.prods) {
				th = sc.prods[idx]
			} else if name[0] == 'c' && idx < len(sc.convs) {
				th = sc.convs[idx]
			}
			if th == nil || th.park == nil {
				continue
			}
			if star {
				sc.runToEnd(th)
			} else {
				sc.run(th)
			}
		}
	}
	sc.drain(r)
}

// the idle-GC ABA schedule (finding F1): a complete EmitTask between the convoy's emptiness check
// and its claiming CAS.
var c13ScriptF1 = []string{"spawn 0", "p0*", "c0*", "tick", "c0", "spawn 0", "p1*", "c0*"}

// overflow overtakes channel (finding F2): the convoy parked between its lock-free channel poll
// and popOverflowTask while UdpTaskQueueLength+2 tasks arrive.
func c13ScriptF2() []string {
	return []string{"spawn 0", "p0*", "c0", "c0", "c0", fmt.Sprintf("burst 0 %d", UdpTaskQueueLength+1), "c0*"}
}

// a producer removes the claimed queue from the table before its convoy does (the convoy's
// CompareAndDelete fails, it re-loads the table and recycles), then creates the successor queue
var c13ScriptDelRace = []string{"spawn 0", "p0*", "c0*", "tick", "c0", "c0", "spawn 0",
	"p1", "p1", "p1", "p1", "p1", "p1", "c0*", "p1*", "c1*"}

// two producers race to create the queue of one flow: the loser puts its channel back and
// acquires the winner's queue through the slow loop; a third one takes the recycled channel later
var c13ScriptCreateRace = []string{"spawn 0", "spawn 0", "p0", "p1", "p0", "p1", "p1", "p0", "p1", "p0*", "p1*",
	"c0*", "spawn 1", "p2*", "c1*"}

// ---- random schedules ----

func (sc *c13Sched) random(r *VRand, nprod int, mode int, freezeUntil int) {
	nkeys := len(sc.keys)
	spawned := 0
	for step := 0; step < 20000; step++ {
		l := sc.parked()
		if freezeUntil > 0 {
			// overflow-sized schedules: convoys stay parked until enough tasks are queued
			acc := 0
			for _, a := range sc.accepted {
				acc += len(a)
			}
			if acc >= freezeUntil {
				freezeUntil = 0
			} else {
				var pl []*c13Thread
				for _, th := range l {
					if th.isProd {
						pl = append(pl, th)
					}
				}
				l = pl
			}
		}
		canSpawn := spawned < nprod
		if len(l) == 0 && !canSpawn {
			break
		}
		// weights
		wSpawn, wTick := 0, 0
		if canSpawn {
			wSpawn = 2
		}
		anyWaiting := false
		for _, c := range sc.convs {
			if c.park == nil && !c.done && c.gid != 0 {
				anyWaiting = true
			}
		}
		if anyWaiting {
			wTick = 1
			if mode == 1 {
				wTick = 4
			}
		}
		// GC hunter: when a convoy is inside the GC window prefer producers (and spawning)
		inWindow := false
		for _, c := range sc.convs {
			if c.park != nil && (c.park.name == "convoy.afterEmptyCheck" || c.park.name == "convoy.afterClaimCAS" ||
				c.park.name == "convoy.beforeRecycle" || c.park.name == "convoy.timerFired") {
				inWindow = true
			}
		}
		var cand []*c13Thread
		for _, th := range l {
			w := 2
			if mode == 1 && inWindow {
				if th.isProd {
					w = 6
				} else {
					w = 1
				}
			}
			if mode == 2 { // starve convoys: queues fill up
				if th.isProd {
					w = 8
				} else {
					w = 1
				}
			}
			for i := 0; i < w; i++ {
				cand = append(cand, th)
			}
		}
		if mode == 1 && inWindow && canSpawn {
			wSpawn = 6
		}
		total := len(cand) + wSpawn + wTick
		if total == 0 {
			break
		}
		x := r.Intn(total)
		switch {
		case x < len(cand):
			sc.run(cand[x])
		case x < len(cand)+wSpawn:
			sc.spawn(r.Intn(nkeys))
			spawned++
		default:
			sc.tick()
		}
	}
	sc.drain(r)
}

// volume schedule: almost all tasks go to key 0 (a few to the other keys), convoys frozen until
// `freeze` tasks are queued; then convoys and the remaining producers interleave
func (sc *c13Sched) volume(r *VRand, nprod int, freeze int) {
	nkeys := len(sc.keys)
	spawned := 0
	frozen := true
	for step := 0; step < 60000; step++ {
		acc := 0
		for _, a := range sc.accepted {
			acc += len(a)
		}
		if frozen && acc >= freeze {
			frozen = false
		}
		var cand []*c13Thread
		for _, th := range sc.parked() {
			if th.isProd {
				cand = append(cand, th)
				if frozen {
					cand = append(cand, th, th)
				}
			} else if !frozen {
				cand = append(cand, th, th, th) // draining dominates, refills keep arriving
			}
		}
		canSpawn := spawned < nprod
		if len(cand) == 0 && !canSpawn {
			break
		}
		if canSpawn && (len(cand) == 0 || r.Intn(len(cand)+2) < 2) {
			k := 0
			if nkeys > 1 && r.Chance(0.35) {
				k = 1 + r.Intn(nkeys-1)
				if frozen && len(sc.accepted[1]) < UdpTaskQueueLength+6 {
					k = 1 // the sibling flow (same source, other destination) overflows too
				}
			}
			sc.spawn(k)
			spawned++
			continue
		}
		sc.run(cand[r.Intn(len(cand))])
	}
	sc.drain(r)
}

// compacting: producers keep arriving behind a frozen convoy until the overflow list holds at least
// `minSpill` tasks AND its backing array has more than 160 free slots (i.e. right after an append growth
// step, whatever the runtime's growth rule is); then the list is drained with no refill.  A pop takes one
// slot off the front, so `len < cap/4` becomes true while the array still has more than
// UdpTaskQueueLength slots and dozens of tasks are in the list: popOverflowTask's compaction copy runs on
// live tasks in every run, whatever the seed.
func (sc *c13Sched) compacting(r *VRand, minSpill int) {
	var q *UdpTaskQueue
	for n := 0; n < 4000; n++ {
		sc.spawn(0)
		for {
			var prods []*c13Thread
			for _, th := range sc.parked() {
				if th.isProd {
					prods = append(prods, th)
				}
			}
			if len(prods) == 0 {
				break
			}
			sc.run(prods[r.Intn(len(prods))])
		}
		if q == nil {
			if v, ok := sc.pool.queues.Load(sc.keys[0]); ok {
				q = v.(*UdpTaskQueue)
			}
		}
		if q != nil {
			q.enqueueMu.Lock()
			l, c := len(q.overflow), cap(q.overflow)
			q.enqueueMu.Unlock()
			if l >= minSpill && c-l > 160 {
				sc.stats.Inc("tq.schedules.compacting.armed")
				break
			}
		}
	}
	sc.drain(r)
}

func c13RunTq(t *testing.T, stats *VStats) {
	s := VOpenStream("c13_tq")
	defer s.Close()
	oldAging := UdpTaskPoolAgingTime
	UdpTaskPoolAgingTime = 100 * time.Millisecond
	defer func() { UdpTaskPoolAgingTime = oldAging }()
	r := NewVRand(VSeed())

	// scripted: the two revert tests first
	c13TqSchedule(t, s, stats, 1, func(sc *c13Sched) { sc.script(r.Fork(), c13ScriptF1...) })
	c13TqSchedule(t, s, stats, 1, func(sc *c13Sched) { sc.script(r.Fork(), c13ScriptF2()...) })
	c13TqSchedule(t, s, stats, 1, func(sc *c13Sched) { sc.script(r.Fork(), c13ScriptDelRace...) })
	c13TqSchedule(t, s, stats, 2, func(sc *c13Sched) { sc.script(r.Fork(), c13ScriptCreateRace...) })
	stats.Add("tq.schedules.scripted", 4)

	// volume: several hundred tasks queued behind a frozen convoy (the overflow list grows past 256
	// entries, its backing array past 512), then drained while more arrive: popOverflowTask's slice
	// compaction runs with tasks still in the list; the second key overflows at the same time
	nvol := 2
	if VThorough() {
		nvol = 16
	}
	nvol = VEnvInt("VERIF_C13_TQ_VOLUME", nvol)
	for i := 0; i < nvol; i++ {
		rr := r.Fork()
		freeze := UdpTaskQueueLength + 2*UdpTaskQueueLength + 1 + rr.Intn(60)
		nprod := freeze + 10 + rr.Intn(40)
		nkeys := 1 + i%2*2 // 1 or 3 keys (keys 0 and 1 share the client source)
		stats.Inc("tq.schedules.volume")
		c13TqSchedule(t, s, stats, nkeys, func(sc *c13Sched) { sc.volume(rr, nprod, freeze) })
	}

	for _, minSpill := range []int{140, 300} {
		rr := r.Fork()
		stats.Inc("tq.schedules.compacting")
		c13TqSchedule(t, s, stats, 1, func(sc *c13Sched) { sc.compacting(rr, minSpill) })
	}

	n := 400
	if VThorough() {
		n = 8000
	}
	n = VEnvInt("VERIF_C13_TQ_SCHEDULES", n)
	for i := 0; i < n; i++ {
		rr := r.Fork()
		nkeys := 1 + rr.Intn(3)
		mode := rr.Intn(3)
		nprod := 1 + rr.Intn(10)
		freeze := 0
		if rr.Chance(0.05) { // overflow-sized: the channel fills up and several tasks spill into the overflow list
			freeze = UdpTaskQueueLength + 1 + rr.Intn(12)
			nprod = freeze + rr.Intn(12)
			nkeys = 1
			mode = rr.Intn(2) * 2
			stats.Inc("tq.schedules.overflowSized")
		}
		stats.Inc(fmt.Sprintf("tq.schedules.mode%d", mode))
		stats.Inc(fmt.Sprintf("tq.schedules.keys%d", nkeys))
		c13TqSchedule(t, s, stats, nkeys, func(sc *c13Sched) { sc.random(rr, nprod, mode, freeze) })
	}
	stats.Add("tq.ops", s.N)
}

func TestVerifC13(t *testing.T) {
	stats := NewVStats()
	only := os.Getenv("VERIF_C13_ONLY")
	if only == "" || only == "tq" {
		c13RunTq(t, stats)
	}
	if only == "" || only == "ep" {
		c13RunEp(t, stats)
		c13RunEpConcurrent(t, stats)
		c13RunEpLock(t, stats)
	}
	if only == "" || only == "hp" {
		c13RunHp(t, stats)
	}
	if only == "" || only == "ing" {
		c13RunIng(t, stats)
	}
	if only == "" || only == "seq" {
		c13RunTrk(t, stats)
		c13RunKrn(t, stats)
		c13RunIb(t, stats)
		c13RunDrn(t, stats)
		c13RunKey(t, stats)
	}
	stats.Write("c13")
}
