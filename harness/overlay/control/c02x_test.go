package control

// C02 harness, part 2 (extension): production-shaped rollback histories with faults injected at every reachable
// stage of buildRoutingKernspace, the decoder compileRoutingMatch on the images read back from the kernel, the
// domain-map key encoder, the batch helpers' "old kernel" paths and the single-worker path.
//
// Stream c02roll.  Two generations share ONE set of real kernel maps, each with a controlPlaneCore of its own built by
// the production constructor newControlPlaneCore(.., isReload=true), like a staged hot reload:
//
//   A serves.  B is staged: its commit (snapshot.BuildKernspace on B's core, lpmTrieIndices, clear, replay — the steps of
//   CommitPreparedDatapath) runs against a bpfObjects in which ONE map is replaced by an incompatible one, so that the
//   production code fails exactly there, after having written everything before it into the REAL maps:
//     fault lpm   : lpm_array_map replaced      -> nothing written, ring slots consumed           (stage lpm:)
//     fault rules : routing_map replaced        -> every LPM slot written, no rule image           (stage rules:0)
//     fault meta  : routing_meta_map replaced   -> LPM slots and rule images written, old length   (stage nolen)
//     fault none  : the commit succeeds; the failure comes later (listener publication)           (stage done)
//   then, as the reload handler does (cmd/run.go: rollbackStagedReloadHandoff, RebuildReloadDatapath):
//     B's core.Close()  (production: deletes the LPM slots B owns — it owns some only when BuildKernspace returned)
//     A.RebuildReloadDatapath()  (production, on the OLD plane, after a foreign generation modified the maps)
//   followed by a successful reload to C:  commit C; C.InheritLpmIndices(A.EjectLpmIndices()); A's core.Close().
//
// After the fault and after every step the kernel maps are read back; the Lean driver (a) predicts the map state with
// the model's transition system (Sys.step / commitUpTo) and compares what route() can observe (`syscmp`, obsEqB —
// theorem route_depends_only_on_observables), (b) evaluates `Installed` for the serving generation (`instcheck`);
// packets go three-way.  While only LPM slots of B have been written (stages lpm:, rules:0) and the two generations
// fit the ring together, the kernel must still decide like A's matcher (theorem hot_reload_lpm_phase_keeps_old_generation):
// instcheck + packets are verdicts in that partial state too.  Sizes: small random programs and the overlapping pair
// of 600-trie generations (B overwrites 176 slots A's rules name; Close(B) deletes them; A is rebuilt onto slots that
// overlap both).

import (
	"encoding/hex"
	"fmt"
	"net/netip"
	"runtime"
	"strings"
	"unsafe"

	"github.com/cilium/ebpf"
	"github.com/daeuniverse/dae/common"
	"github.com/daeuniverse/dae/common/consts"
	"github.com/sirupsen/logrus"
)

// decodeOps: compileRoutingMatch (the control plane's own decoder) on the images READ BACK from routing_map, against
// the model's decodeGo; every distinct image once.
func (k *c02Kern) decodeOps(n int) {
	if k.seenImg == nil {
		k.seenImg = map[[24]byte]struct{}{}
	}
	for i := 0; i < n && i < len(k.shRules); i++ {
		img := k.shRules[i]
		if _, ok := k.seenImg[img]; ok {
			continue
		}
		if len(k.seenImg) >= 6000 {
			return
		}
		k.seenImg[img] = struct{}{}
		ms := *(*bpfMatchSet)(unsafe.Pointer(&img))
		out := VRecover(func() string {
			c, err := compileRoutingMatch(ms)
			if err != nil {
				return "err"
			}
			return c02EntryTok(c)
		})
		k.st.Emit("decode "+hex.EncodeToString(img[:]), out)
		k.stats.Inc("decode.images")
	}
}

// dkeyOp: common.Ipv6ByteSliceToUint32Array on an address (the key of domain_routing_map and the LPM key data)
func (k *c02Kern) dkeyOp(a [16]byte) {
	if k.seenKey == nil {
		k.seenKey = map[[16]byte]struct{}{}
	}
	if _, ok := k.seenKey[a]; ok || len(k.seenKey) >= 1500 {
		return
	}
	k.seenKey[a] = struct{}{}
	w := common.Ipv6ByteSliceToUint32Array(a[:])
	k.st.Emit("dkey "+hex.EncodeToString(a[:]), fmt.Sprintf("w=%d,%d,%d,%d", w[0], w[1], w[2], w[3]))
	k.stats.Inc("dkey.addresses")
}

// bulkFillDomain puts n entries of addresses no packet goes to into domain_routing_map (production batch update),
// so that the next reload's clearReloadDomainRoutingMap has to page through several lookup batches / delete chunks.
func (k *c02Kern) bulkFillDomain(n int, salt uint32) {
	keys := make([][4]uint32, n)
	vals := make([]bpfDomainRouting, n)
	for i := range keys {
		var a [16]byte
		a[0], a[1] = 0xfd, 0x5a
		a[8], a[9], a[10], a[11] = byte(salt>>24), byte(salt>>16), byte(salt>>8), byte(salt)
		a[12], a[13], a[14], a[15] = byte(i>>24), byte(i>>16), byte(i>>8), byte(i)
		keys[i] = common.Ipv6ByteSliceToUint32Array(a[:])
		vals[i].Bitmap[i%len(vals[i].Bitmap)] = 1 << (uint(i) % 32)
	}
	if _, err := BpfMapBatchUpdate(k.bpf.DomainRoutingMap, keys, vals, &ebpf.BatchOptions{ElemFlags: uint64(ebpf.UpdateAny)}); err != nil {
		k.envFail = append(k.envFail, "harness bulk fill of domain_routing_map: "+err.Error())
		return
	}
	k.stats.Add("dom.bulk_fill_entries", n)
	k.stats.Inc("dom.bulk_fills")
}

// the "old kernel" code paths of the batch helpers and the single-worker path of buildRoutingKernspace /
// BuildUserspace: package-level switches that production sets from the kernel version / GOMAXPROCS
type c02Opts struct {
	simUpdate, simLpm, simDelete bool
	procs1                       bool
}

var c02KernelOpts *c02Opts // what the feature probes chose on this kernel

func c02ProbeOpts() {
	if c02KernelOpts != nil {
		return
	}
	// run the probes once, through a production call (the probe of the update path lives inside BpfMapBatchUpdate)
	if m, err := ebpf.NewMap(&ebpf.MapSpec{Type: ebpf.Array, KeySize: 4, ValueSize: 4, MaxEntries: 1}); err == nil {
		_, _ = BpfMapBatchUpdate(m, []uint32{0}, []uint32{0}, &ebpf.BatchOptions{ElemFlags: uint64(ebpf.UpdateAny)})
		_ = m.Close()
	}
	initBatchDeleteFeatureFlags()
	c02KernelOpts = &c02Opts{simUpdate: SimulateBatchUpdate, simLpm: SimulateBatchUpdateLpmTrie, simDelete: SimulateBatchDelete}
}

func (o c02Opts) apply() (restore func()) {
	c02ProbeOpts()
	SimulateBatchUpdate, SimulateBatchUpdateLpmTrie, SimulateBatchDelete = o.simUpdate, o.simLpm, o.simDelete
	prev := 0
	if o.procs1 {
		prev = runtime.GOMAXPROCS(1)
	}
	return func() {
		SimulateBatchUpdate, SimulateBatchUpdateLpmTrie, SimulateBatchDelete = c02KernelOpts.simUpdate, c02KernelOpts.simLpm, c02KernelOpts.simDelete
		if o.procs1 {
			runtime.GOMAXPROCS(prev)
		}
	}
}

func c02RandOpts(r *VRand, stats *VStats) c02Opts {
	c02ProbeOpts()
	o := *c02KernelOpts
	switch r.Intn(6) {
	case 0:
		o.simUpdate, o.simLpm = true, true
		stats.Inc("opt.simulated_batch_update")
	case 1:
		o.simDelete = true
		stats.Inc("opt.simulated_batch_delete")
	case 2:
		o.simUpdate, o.simLpm, o.simDelete = true, true, true
		stats.Inc("opt.simulated_batch_update")
		stats.Inc("opt.simulated_batch_delete")
	case 3:
		o.procs1 = true
		stats.Inc("opt.gomaxprocs1")
	default:
		stats.Inc("opt.kernel_defaults")
	}
	return o
}

// ---------------------------------------------------------------------------------------------- rollback histories

type c02RollGen struct {
	plane    *ControlPlane
	matcher  *RoutingMatcher
	rules    []bpfMatchSet
	compiled []compiledRoutingMatch
	tries    [][]netip.Prefix
	prog     *c01Prog     // small programs: packets are generated from it
	addrs    []netip.Addr // big programs: the sip() addresses
}

type c02Roll struct {
	k       *c02Kern
	r       *VRand
	log     *logrus.Logger
	name2id map[string]uint8
	alt     map[string]*ebpf.Map
	note    []string
}

func c02TypedToks(compiled []compiledRoutingMatch) string {
	toks := make([]string, len(compiled))
	for i := range compiled {
		toks[i] = c02EntryTok(compiled[i])
	}
	return fmt.Sprintf("%d %s", len(compiled), strings.Join(toks, " "))
}

func c02TriesToks(tries [][]netip.Prefix) string {
	var tb strings.Builder
	fmt.Fprintf(&tb, "%d", len(tries))
	for _, t := range tries {
		fmt.Fprintf(&tb, " %d", len(t))
		for _, p := range t {
			tb.WriteString(" " + c12Tok(p))
		}
	}
	return tb.String()
}

// build: text -> builder -> (snapshot, userspace matcher) in the production order of a staged reload
func (x *c02Roll) build(text string, prog *c01Prog, addrs []netip.Addr) *c02RollGen {
	b, res := c02Build(x.log, text, x.name2id)
	if b == nil {
		x.note = append(x.note, "build: "+res)
		return nil
	}
	g := &c02RollGen{prog: prog, addrs: addrs}
	g.rules = append([]bpfMatchSet(nil), b.rules...)
	g.compiled = append([]compiledRoutingMatch(nil), b.compiledRules...)
	g.tries = make([][]netip.Prefix, len(b.simulatedLpmTries))
	for i := range g.tries {
		g.tries[i] = append([]netip.Prefix(nil), b.simulatedLpmTries[i]...)
	}
	snap := b.KernspaceSnapshot()
	m, err := b.BuildUserspace()
	if err != nil {
		x.note = append(x.note, "BuildUserspace: "+err.Error())
		return nil
	}
	g.matcher = m
	g.plane = &ControlPlane{log: x.log, routingKernspaceSnapshot: snap, sharedBpfReload: true}
	g.plane.routingMatcher = m
	g.plane.connStateJanitorStarted.Store(true)
	return g
}

// commit: the routing steps of CommitPreparedDatapath on a core of the generation's own (production constructor),
// against `bpf` (the real maps, or the real maps with one of them replaced). Returns the error of BuildKernspace.
func (x *c02Roll) commit(g *c02RollGen, bpf *bpfObjects) error {
	g.plane.core = newControlPlaneCore(x.log, bpf, nil, nil, true)
	idx, err := g.plane.routingKernspaceSnapshot.BuildKernspace(x.log, g.plane.core.bpf.Load())
	if err != nil {
		return err
	}
	g.plane.core.lpmTrieIndices = idx
	if err := clearReloadDomainRoutingMap(g.plane.core.bpf.Load()); err != nil {
		x.k.envFail = append(x.k.envFail, "clearReloadDomainRoutingMap: "+err.Error())
	}
	g.plane.replayDnsReloadCache()
	return nil
}

func (x *c02Roll) packets(g *c02RollGen, n int) {
	k := x.k
	if g.prog != nil {
		for q := 0; q < n; q++ {
			pk := c01GenPkt(x.r, g.prog, k.stats)
			for _, v := range c02Variants(x.r, pk) {
				k.packet(g.matcher, pk, v, c02IpVer(pk.dst))
				k.stats.Inc("roll.packets")
			}
		}
		return
	}
	for _, i := range []int{0, 1, 100, 175, 176, 177, 300, 423, 424, 425, 598, 599} {
		if i >= len(g.addrs) {
			continue
		}
		pk := c01Pkt{src: g.addrs[i], dst: netip.MustParseAddr("93.184.216.34"), sport: 40000 + uint16(i), dport: 443, l4: consts.L4ProtoType_TCP}
		k.packet(g.matcher, pk, c02Variant{l4: pk.l4, wan: false, dport: 443, hasMac: true}, consts.IpVersion_4)
		k.stats.Inc("roll.packets")
	}
	pk := c01Pkt{src: netip.MustParseAddr("172.99.0.1"), dst: netip.MustParseAddr("93.184.216.34"), sport: 40000, dport: 53, l4: consts.L4ProtoType_UDP}
	k.packet(g.matcher, pk, c02Variant{l4: pk.l4, wan: true, dport: 53, hasPn: true}, consts.IpVersion_4)
}

// serve: emits the serving generation's typed program, `reserve`, `instcheck`
func (x *c02Roll) checkServing(g *c02RollGen, emitProg bool, dflt uint32) uint32 {
	k := x.k
	if emitProg {
		k.emitTyped(g.compiled, g.tries)
	}
	start := k.observedStart(g.rules, dflt)
	// (this stream ties the ring counter through `sysop`; the per-reload ring prediction of `reserve` is given its start)
	k.st.Emit(fmt.Sprintf("ringset %d", start), "ok")
	k.st.Emit(fmt.Sprintf("reserve %d %d", len(g.tries), start), "ok")
	k.st.Emit("instcheck", "ok")
	k.decodeOps(len(g.rules))
	return start
}

func c02RollStream(r *VRand, stats *VStats, log *logrus.Logger, name2id map[string]uint8) (viol, env, note []string) {
	k := c02NewKern("c02roll", stats, log)
	defer k.close()
	x := &c02Roll{k: k, r: r, log: log, name2id: name2id, alt: map[string]*ebpf.Map{}}
	mk := func(name string, spec *ebpf.MapSpec) {
		m, err := ebpf.NewMap(spec)
		if err != nil {
			k.envFail = append(k.envFail, "cannot create the substitute map for fault "+name+": "+err.Error())
			return
		}
		x.alt[name] = m
	}
	// incompatible stand-ins: the production call on them fails before anything reaches them
	mk("meta", &ebpf.MapSpec{Type: ebpf.Array, KeySize: 4, ValueSize: 8, MaxEntries: 1})
	mk("rules", &ebpf.MapSpec{Type: ebpf.Array, KeySize: 4, ValueSize: uint32(unsafe.Sizeof(bpfMatchSet{})) + 4, MaxEntries: uint32(consts.MaxMatchSetLen)})
	mk("lpm", &ebpf.MapSpec{Type: ebpf.ArrayOfMaps, KeySize: 4, ValueSize: 4, MaxEntries: c02MaxLpmNum,
		InnerMap: &ebpf.MapSpec{Type: ebpf.LPMTrie, KeySize: uint32(unsafe.Sizeof(_bpfLpmKey{})) + 4, ValueSize: 4, MaxEntries: 16, Flags: 1}})
	defer func() {
		for _, m := range x.alt {
			_ = m.Close()
		}
	}()
	if len(k.envFail) > 0 {
		return nil, k.envFail, nil
	}
	faulty := func(kind string) *bpfObjects {
		fb := *k.bpf
		switch kind {
		case "meta":
			fb.RoutingMetaMap = x.alt["meta"]
		case "rules":
			fb.RoutingMap = x.alt["rules"]
		case "lpm":
			fb.LpmArrayMap = x.alt["lpm"]
		}
		return &fb
	}
	k.st.Emit(fmt.Sprintf("ringset %d", globalNextLpmIndex.Load()), "ok")
	k.trustIds = true

	smallGenT := func(minTries int) *c02RollGen {
		for try := 0; try < 12; try++ {
			p := c01GenProg(r, stats, 2+r.Intn(7))
			if g := x.build(p.text, p, nil); g != nil && len(g.tries) >= minTries {
				return g
			}
		}
		return nil
	}
	smallGen := func() *c02RollGen { return smallGenT(0) }
	bigGen := func(n int, salt byte) *c02RollGen {
		text, addrs := c02SipProgram(n, salt, "")
		return x.build(text, nil, addrs)
	}

	type scenario struct {
		fault string
		big   bool
	}
	var scen []scenario
	rounds := 3
	if VThorough() {
		rounds = 6
	}
	for i := 0; i < rounds; i++ {
		for _, f := range []string{"lpm", "rules", "meta", "none"} {
			scen = append(scen, scenario{fault: f})
		}
	}
	bigFaults := []string{"none"}
	if VSeed()%2 == 0 {
		bigFaults = []string{"meta"}
	}
	if VThorough() {
		bigFaults = []string{"none", "meta"}
	}
	for _, f := range bigFaults {
		scen = append(scen, scenario{fault: f, big: true})
	}

	var a *c02RollGen // the serving generation
	install := func(g *c02RollGen, how string) bool {
		// a reload that cuts over: commit, inherit the retiring generation's slots, close its core
		before := globalNextLpmIndex.Load()
		restore := c02RandOpts(r, stats).apply()
		err := x.commit(g, k.bpf)
		restore()
		if err != nil {
			k.goViol = append(k.goViol, "c02roll: commit on the real maps failed: "+err.Error())
			return false
		}
		if a != nil {
			g.plane.InheritLpmIndices(a.plane.EjectLpmIndices())
			if err := a.plane.core.Close(); err != nil {
				x.note = append(x.note, "close of the retired core: "+err.Error())
			}
		}
		k.sync()
		start := x.checkServing(g, true, before)
		if a == nil {
			k.st.Emit(fmt.Sprintf("sysboot %d", globalNextLpmIndex.Load()), "ok")
		} else {
			k.st.Emit(fmt.Sprintf("sysop reload %d %d", start, globalNextLpmIndex.Load()), "ok")
			k.st.Emit("syscmp", "ok")
		}
		a = g
		k.matcher = g.matcher
		stats.Inc("roll.cutover." + how)
		return true
	}

	for si, sc := range scen {
		var b *c02RollGen
		if sc.big {
			// serving generation of 600 tries first (the staged one of 600 then overlaps it on the ring)
			ga := bigGen(600, byte(32+2*si))
			if ga == nil || !install(ga, "big") {
				continue
			}
			x.packets(a, 0)
			b = bigGen(600, byte(33+2*si))
		} else {
			if a == nil || a.prog == nil || r.Chance(0.3) {
				ga := smallGen()
				if ga == nil || !install(ga, "small") {
					continue
				}
				x.packets(a, 4)
			}
			if sc.fault == "lpm" {
				b = smallGenT(1) // without an LPM set there is no LPM phase to fail in
			} else {
				b = smallGen()
			}
		}
		if b == nil {
			continue
		}
		// ---- staged B, fault injected
		startB := globalNextLpmIndex.Load()
		k.st.Emit("sprog "+c02TypedToks(b.compiled), "ok")
		k.st.Emit("stries "+c02TriesToks(b.tries), "ok")
		restore := c02RandOpts(r, stats).apply()
		err := x.commit(b, faulty(sc.fault))
		restore()
		stage := "done"
		if err != nil {
			switch sc.fault {
			case "lpm":
				stage = "lpm:"
			case "rules":
				stage = "rules:0"
			case "meta":
				stage = "nolen"
			default:
				k.goViol = append(k.goViol, "c02roll: commit without an injected fault failed: "+err.Error())
				continue
			}
		}
		stats.Inc("roll.stage." + stage)
		disjoint := len(a.tries)+len(b.tries) <= consts.MaxMatchSetLen
		k.st.Emit(fmt.Sprintf("sysop stage %s %d", stage, startB), "ok")
		k.sync()
		k.st.Emit("syscmp pend", "ok")
		if (stage == "lpm:" || stage == "rules:0") && disjoint {
			// only LPM slots of B were written and the ring keeps the generations apart: A must still be Installed and the
			// kernel must still decide like A's matcher (hot_reload_lpm_phase_keeps_old_generation)
			k.st.Emit("instcheck", "ok")
			x.packets(a, 3)
			stats.Inc("roll.window_checked")
		}
		// ---- the reload handler's rollback: close the staged generation, rebuild the serving one
		if err := b.plane.core.Close(); err != nil {
			x.note = append(x.note, "close of the staged core: "+err.Error())
		}
		beforeRebuild := globalNextLpmIndex.Load()
		restore = c02RandOpts(r, stats).apply()
		rerr := a.plane.RebuildReloadDatapath()
		restore()
		if rerr != nil {
			k.goViol = append(k.goViol, "c02roll: RebuildReloadDatapath of the serving generation failed: "+rerr.Error())
			a = nil
			continue
		}
		k.sync()
		if len(k.shDom) != 0 {
			k.goViol = append(k.goViol, fmt.Sprintf("c02roll: domain_routing_map still holds %d addresses after RebuildReloadDatapath", len(k.shDom)))
		}
		startA2 := k.observedStart(a.rules, beforeRebuild)
		k.st.Emit(fmt.Sprintf("sysop failed %s %d %d %d", stage, startB, startA2, globalNextLpmIndex.Load()), "ok")
		x.checkServing(a, false, beforeRebuild)
		k.st.Emit("syscmp", "ok")
		np := 5
		if sc.big {
			np = 0
			stats.Inc("roll.big_rollbacks")
		}
		x.packets(a, np)
		stats.Inc("roll.rollbacks")
		// ---- and life goes on: a reload that cuts over
		if !sc.big || VThorough() {
			if c := smallGen(); c != nil && install(c, "after_rollback") {
				x.packets(a, 4)
			}
		} else if c := smallGen(); c != nil && install(c, "after_big_rollback") {
			x.packets(a, 4)
		}
	}
	if a != nil && a.plane.core != nil {
		_ = a.plane.core.Close()
	}
	return k.goViol, k.envFail, x.note
}
