package control

// C02 correspondence harness (real-build variant: no dae_stub_ebpf tag, synthetic bpf2go file).
//
// Generated routing sections (C01's generator, c01_test.go) go through the real parser, config.New,
// the production optimizer chain and the real RoutingMatcherBuilder.  The kernel side of every reload
// is produced by the PRODUCTION code on REAL kernel maps (bpf(2) is available in the sandbox):
// routing_map / routing_meta_map (ARRAY), lpm_array_map (ARRAY_OF_MAPS of LPM_TRIE), domain_routing_map
// (HASH) are created with ebpf.NewMap, and one reload is
//
//   even generations: snapshot := b.KernspaceSnapshot(); b.BuildUserspace(); snapshot.BuildKernspace(log, bpf)
//                     (= buildRoutingKernspace: reserveLpmRingSlots, cidrToBpfLpmKey, newLpmMap,
//                     LpmArrayMap.Update, rewriteKernRulesWithRingLpmIndex, BpfMapBatchUpdate, meta);
//                     core.lpmTrieIndices = …; clearReloadDomainRoutingMap(bpf);
//                     newPlane.InheritLpmIndices(oldPlane.EjectLpmIndices())   — the order of
//                     CommitPreparedDatapath + the reload handler (CommitPreparedDatapath itself needs a netns)
//   odd generations:  ControlPlane.RebuildReloadDatapath()  (BuildKernspace, ReplaceLpmIndices, clear)
//
// After each reload the kernel maps are READ BACK (array lookups, NewMapFromID + iteration of every
// changed inner trie, iteration of the domain map) and the difference to what the drivers hold is
// written to the op stream as raw memory images; `instcheck` then asks the Lean driver whether the
// dumped maps satisfy the theorems' hypothesis `Installed`.  Domain bitmaps are written per packet with
// the production BpfMapBatchUpdate / BpfMapBatchDelete.  Every packet is evaluated by the real
// RoutingMatcher.Match; the same op file is afterwards fed to the native C driver (real route()) and
// to the Lean driver.
//
// Streams: c02 (main), c02f6 (empty-process-name replay), c02big (overlapping generations of 600 tries,
// programs of exactly 1024 / 1025 match sets), c02err (kernel error paths, hand-written maps).

import (
	"encoding/hex"
	"fmt"
	"net"
	"net/netip"
	"os"
	"path/filepath"
	"sort"
	"strings"
	"syscall"
	"testing"
	"time"
	"unsafe"

	"github.com/cilium/ebpf"
	"github.com/daeuniverse/dae/common"
	"github.com/daeuniverse/dae/common/assets"
	"github.com/daeuniverse/dae/common/consts"
	"github.com/daeuniverse/dae/component/routing"
	"github.com/daeuniverse/dae/config"
	"github.com/daeuniverse/dae/pkg/config_parser"
	dnsmessage "github.com/miekg/dns"
	"github.com/sirupsen/logrus"
)

func c02Bool(b bool) int {
	if b {
		return 1
	}
	return 0
}

// typed token of one compiledRoutingMatch: <type>:<not>:<outbound>:<must>:<mark>:<payload>
func c02EntryTok(c compiledRoutingMatch) string {
	pl := "-"
	switch c.matchType {
	case consts.MatchType_IpSet, consts.MatchType_SourceIpSet, consts.MatchType_Mac:
		pl = fmt.Sprint(c.lpmIndex)
	case consts.MatchType_Port, consts.MatchType_SourcePort:
		pl = fmt.Sprintf("%d-%d", c.portStart, c.portEnd)
	case consts.MatchType_IpVersion, consts.MatchType_L4Proto:
		pl = fmt.Sprint(c.mask)
	case consts.MatchType_ProcessName:
		pl = hex.EncodeToString(c.pname[:])
	case consts.MatchType_Dscp:
		pl = fmt.Sprint(c.dscp)
	}
	return fmt.Sprintf("%d:%d:%d:%d:%d:%s", uint8(c.matchType), c02Bool(c.not), uint8(c.outbound), c02Bool(c.must), c.mark, pl)
}

func c02MatchSetImage(ms *bpfMatchSet) string {
	b := unsafe.Slice((*byte)(unsafe.Pointer(ms)), unsafe.Sizeof(*ms))
	return hex.EncodeToString(b)
}

func c02LpmKeyTok(k *_bpfLpmKey) string {
	data := unsafe.Slice((*byte)(unsafe.Pointer(&k.Data[0])), 16)
	return fmt.Sprintf("%d:%s", k.PrefixLen, hex.EncodeToString(data))
}

const c02MaxLpmNum = 1024 + 8 // MAX_LPM_NUM (compared with the C constant on every run)

type c02Kern struct {
	st    *VStream
	stats *VStats
	log   *logrus.Logger
	bpf   *bpfObjects
	plane *ControlPlane // the live generation
	gen   int
	// what the drivers hold (= last dump of the kernel maps)
	shRules   [][24]byte
	shMeta    int64
	shSlots   map[uint32]uint32 // slot -> inner map id
	shSlotKeys map[uint32]string
	shDom     map[[16]byte]string
	goViol    []string
	envFail   []string // the sandbox refused a bpf(2) operation the harness itself needs (privilege / kernel feature): exit 2, never a verdict
	maxSets   int
	maxTries  int
	lastSlots map[uint32]struct{}
	// DNS-aware stream (c02dom): the planes carry a real DnsController wired by dnsControllerOption() to the
	// real domain-routing tracker; hosts = what the harness has answered so far (name -> addresses)
	withDns bool
	hosts   map[string][]netip.Addr
	matcher *RoutingMatcher
	seenImg map[[24]byte]struct{} // rule images already given to compileRoutingMatch / decodeGo
	seenKey map[[16]byte]struct{} // addresses already given to Ipv6ByteSliceToUint32Array / keyWords
	opts    func() c02Opts        // option combination for the next reload (nil: what the kernel probes chose)
	trustIds bool                 // sync: an unchanged inner-map id is unchanged content (every install creates new inner maps)
}

func c02NewKern(name string, stats *VStats, log *logrus.Logger) *c02Kern {
	k := &c02Kern{st: VOpenStream(name), stats: stats, log: log, shMeta: -1,
		shSlots: map[uint32]uint32{}, shSlotKeys: map[uint32]string{}, shDom: map[[16]byte]string{}, lastSlots: map[uint32]struct{}{}}
	k.shRules = make([][24]byte, consts.MaxMatchSetLen)
	must := func(m *ebpf.Map, err error) *ebpf.Map {
		if err != nil {
			panic(fmt.Sprintf("c02: cannot create a kernel BPF map (bpf(2) unavailable?): %v", err))
		}
		return m
	}
	// specs as declared in control/kern/tproxy.c (sizes are cross-checked through the const ops)
	inner := &ebpf.MapSpec{Type: ebpf.LPMTrie, KeySize: uint32(unsafe.Sizeof(_bpfLpmKey{})), ValueSize: 4, MaxEntries: 2048000, Flags: 1 /* BPF_F_NO_PREALLOC */}
	k.bpf = &bpfObjects{}
	k.bpf.UnusedLpmType = must(ebpf.NewMap(inner))
	k.bpf.LpmArrayMap = must(ebpf.NewMap(&ebpf.MapSpec{Type: ebpf.ArrayOfMaps, KeySize: 4, ValueSize: 4, MaxEntries: c02MaxLpmNum, InnerMap: inner}))
	k.bpf.RoutingMap = must(ebpf.NewMap(&ebpf.MapSpec{Type: ebpf.Array, KeySize: 4, ValueSize: uint32(unsafe.Sizeof(bpfMatchSet{})), MaxEntries: uint32(consts.MaxMatchSetLen)}))
	k.bpf.RoutingMetaMap = must(ebpf.NewMap(&ebpf.MapSpec{Type: ebpf.Array, KeySize: 4, ValueSize: 4, MaxEntries: 1}))
	k.bpf.DomainRoutingMap = must(ebpf.NewMap(&ebpf.MapSpec{Type: ebpf.Hash, KeySize: 16, ValueSize: uint32(unsafe.Sizeof(bpfDomainRouting{})), MaxEntries: 65536, Flags: 1}))
	return k
}

func (k *c02Kern) close() {
	k.st.Close()
	for _, m := range []*ebpf.Map{k.bpf.UnusedLpmType, k.bpf.LpmArrayMap, k.bpf.RoutingMap, k.bpf.RoutingMetaMap, k.bpf.DomainRoutingMap} {
		_ = m.Close()
	}
}

// sync reads the real kernel maps back and emits the difference to what the drivers hold.
func (k *c02Kern) sync() {
	// lpm_array_map: slot -> inner trie
	for s := uint32(0); s < c02MaxLpmNum; s++ {
		var id uint32
		if err := k.bpf.LpmArrayMap.Lookup(s, &id); err != nil {
			if _, had := k.shSlots[s]; had {
				k.st.Emit(fmt.Sprintf("lpmdel %d", s), "ok")
				delete(k.shSlots, s)
				delete(k.shSlotKeys, s)
			}
			continue
		}
		if old, had := k.shSlots[s]; had && old == id && (VThorough() || k.trustIds) {
			// thorough tier: an unchanged inner-map id is taken as unchanged content (every reload creates new
			// inner maps); the quick tier re-reads every occupied slot, so an in-place update would be seen there
			continue
		}
		im, err := ebpf.NewMapFromID(ebpf.MapID(id))
		if err != nil {
			k.envFail = append(k.envFail, fmt.Sprintf("BPF_MAP_GET_FD_BY_ID (needs CAP_SYS_ADMIN) on the inner LPM map of slot %d: %v", s, err))
			continue
		}
		var keys []string
		var key _bpfLpmKey
		var val uint32
		it := im.Iterate()
		for it.Next(&key, &val) {
			kk := key
			keys = append(keys, c02LpmKeyTok(&kk))
		}
		if it.Err() != nil {
			k.envFail = append(k.envFail, fmt.Sprintf("iterating inner LPM map of slot %d: %v", s, it.Err()))
		}
		_ = im.Close()
		sort.Strings(keys)
		content := strings.Join(keys, " ")
		if old, had := k.shSlotKeys[s]; had && old == content && k.shSlots[s] == id {
			continue
		}
		k.shSlotKeys[s] = content
		k.st.Emit(fmt.Sprintf("lpm %d %d %s", s, len(keys), content), "ok")
		k.shSlots[s] = id
	}
	// routing_map
	var upd []string
	for i := 0; i < consts.MaxMatchSetLen; i++ {
		var ms bpfMatchSet
		if err := k.bpf.RoutingMap.Lookup(uint32(i), &ms); err != nil {
			k.envFail = append(k.envFail, fmt.Sprintf("lookup routing_map[%d]: %v", i, err))
			break
		}
		img := *(*[24]byte)(unsafe.Pointer(&ms))
		if img != k.shRules[i] {
			k.shRules[i] = img
			upd = append(upd, fmt.Sprintf("%d:%s", i, hex.EncodeToString(img[:])))
		}
	}
	if len(upd) > 0 {
		k.st.Emit(fmt.Sprintf("rset %d %s", len(upd), strings.Join(upd, " ")), "ok")
	}
	var n uint32
	if err := k.bpf.RoutingMetaMap.Lookup(uint32(0), &n); err == nil && int64(n) != k.shMeta {
		k.shMeta = int64(n)
		k.st.Emit(fmt.Sprintf("meta %d", n), "ok")
	}
	// domain_routing_map
	cur := map[[16]byte]string{}
	var dk [16]byte
	var dv bpfDomainRouting
	it := k.bpf.DomainRoutingMap.Iterate()
	for it.Next(&dk, &dv) {
		cur[dk] = hex.EncodeToString(unsafe.Slice((*byte)(unsafe.Pointer(&dv.Bitmap[0])), unsafe.Sizeof(dv.Bitmap)))
	}
	var ks []string
	for a := range k.shDom {
		if _, ok := cur[a]; !ok {
			ks = append(ks, hex.EncodeToString(a[:]))
		}
	}
	sort.Strings(ks)
	for _, a := range ks {
		k.st.Emit("domdel "+a, "ok")
	}
	ks = ks[:0]
	for a, img := range cur {
		if k.shDom[a] != img {
			ks = append(ks, hex.EncodeToString(a[:])+" "+img)
		}
	}
	sort.Strings(ks)
	for _, l := range ks {
		k.st.Emit("dom "+l, "ok")
	}
	k.shDom = cur
}

// observedStart: (set index in the dumped kernel image − set index the builder wrote) mod MAX_MATCH_SET_LEN of
// the first address-set rule; dflt when the program has no address set.
func (k *c02Kern) observedStart(rules []bpfMatchSet, dflt uint32) uint32 {
	n := uint32(consts.MaxMatchSetLen)
	for i, r := range rules {
		switch consts.MatchType(r.Type) {
		case consts.MatchType_IpSet, consts.MatchType_SourceIpSet, consts.MatchType_Mac:
			if i < len(k.shRules) {
				old := *(*uint32)(unsafe.Pointer(&r.Value[0]))
				img := k.shRules[i]
				kern := *(*uint32)(unsafe.Pointer(&img[0]))
				return (kern%n + n - old%n) % n
			}
		}
	}
	return dflt
}

func (k *c02Kern) emitTyped(compiled []compiledRoutingMatch, tries [][]netip.Prefix) {
	toks := make([]string, len(compiled))
	for i := range compiled {
		toks[i] = c02EntryTok(compiled[i])
	}
	k.st.Emit(fmt.Sprintf("prog %d %s", len(compiled), strings.Join(toks, " ")), "ok")
	var tb strings.Builder
	fmt.Fprintf(&tb, "tries %d", len(tries))
	for _, t := range tries {
		fmt.Fprintf(&tb, " %d", len(t))
		for _, p := range t {
			tb.WriteString(" " + c12Tok(p))
		}
	}
	k.st.Emit(tb.String(), "ok")
}

type c02Gen struct {
	plane    *ControlPlane
	rules    []bpfMatchSet
	compiled []compiledRoutingMatch
	tries    [][]netip.Prefix
	start    uint32
}

// reload runs one production reload of builder b on the real kernel maps. It returns the userspace
// matcher, or nil when the control plane rejected the program (the previous generation is then
// restored with its own RebuildReloadDatapath, as the reload handler does).
func (k *c02Kern) reload(b *RoutingMatcherBuilder, cur **c02Gen) (*RoutingMatcher, string) {
	rules := append([]bpfMatchSet(nil), b.rules...)
	if len(rules) > consts.MaxMatchSetLen {
		// fix 51cbe59: such a program must be a build error before any map is touched
		k.goViol = append(k.goViol, fmt.Sprintf("the builder accepted a program of %d > %d match sets: BuildUserspace builds a matcher for it while "+
			"buildRoutingKernspace fails in BpfMapBatchUpdate after overwriting routing_map and the LPM slots (old active length stays)", len(rules), consts.MaxMatchSetLen))
	}
	compiled := append([]compiledRoutingMatch(nil), b.compiledRules...)
	tries := make([][]netip.Prefix, len(b.simulatedLpmTries))
	for i := range tries {
		tries[i] = append([]netip.Prefix(nil), b.simulatedLpmTries[i]...)
	}
	// the builder's typed array must be what compileRoutingMatch decodes from its byte image
	// (only the fields Match reads are compared)
	if dec, err := compileRoutingMatches(rules); err != nil {
		k.goViol = append(k.goViol, "compileRoutingMatches(b.rules): "+err.Error())
	} else if len(dec) != len(compiled) {
		k.goViol = append(k.goViol, "len(compiledRules) != len(rules)")
	} else {
		for i := range dec {
			if c02EntryTok(dec[i]) != c02EntryTok(compiled[i]) {
				k.goViol = append(k.goViol, fmt.Sprintf("compiledRules[%d] != compileRoutingMatch(rules[%d]): %s vs %s", i, i, c02EntryTok(compiled[i]), c02EntryTok(dec[i])))
				break
			}
		}
	}
	// production order of a staged reload: snapshot, userspace matcher, (later) kernel commit
	snap := b.KernspaceSnapshot()
	var matcher *RoutingMatcher
	bres := VRecover(func() string {
		m, err := b.BuildUserspace()
		if err != nil {
			return "err:build:" + err.Error()
		}
		matcher = m
		return "ok"
	})
	if matcher == nil {
		return nil, bres
	}
	k.emitTyped(compiled, tries)
	predicted := globalNextLpmIndex.Load()
	plane := &ControlPlane{log: k.log, routingKernspaceSnapshot: snap, sharedBpfReload: true}
	plane.connStateJanitorStarted.Store(true)
	if k.withDns {
		plane.routingMatcher = matcher
		if k.plane != nil {
			// the reload handler hands the old generation's DNS cache to the new one
			plane.pendingDnsReloadCache = k.plane.CloneDnsCache()
		}
	}
	var err error
	mode := "commit+inherit"
	restoreOpts := func() {}
	if k.opts != nil {
		restoreOpts = k.opts().apply()
	}
	res := VRecover(func() string {
		if k.plane == nil || k.gen%2 == 0 || k.withDns {
			core := &controlPlaneCore{log: k.log, domainRouting: newDomainRoutingTracker()}
			core.bpf.Store(k.bpf)
			plane.core = core
			if k.withDns {
				plane.dnsController = c02NewDnsController(plane)
			}
			var idx []uint32
			if idx, err = snap.BuildKernspace(k.log, core.bpf.Load()); err != nil {
				return "err"
			}
			core.lpmTrieIndices = idx
			if err = clearReloadDomainRoutingMap(core.bpf.Load()); err != nil {
				return "err"
			}
			plane.replayDnsReloadCache() // CommitPreparedDatapath: clear, then replay the handed-over DNS cache
			if k.plane != nil {
				plane.InheritLpmIndices(k.plane.EjectLpmIndices())
			}
		} else {
			mode = "rebuild"
			plane.core = k.plane.core
			if err = plane.RebuildReloadDatapath(); err != nil {
				return "err"
			}
		}
		return "ok"
	})
	restoreOpts()
	k.gen++
	if res != "ok" {
		k.stats.Inc("reload.rejected_by_kernel_path")
		k.stats.Sample(fmt.Sprintf("kernel install rejected (%d match sets, %d tries): %v %s", len(rules), len(tries), err, res))
		k.sync()
		// restore the previous generation like the reload handler does
		if k.plane != nil && *cur != nil {
			g := *cur
			k.emitTyped(g.compiled, g.tries)
			if e := k.plane.RebuildReloadDatapath(); e != nil {
				k.goViol = append(k.goViol, "RebuildReloadDatapath of the previous generation failed: "+e.Error())
			} else {
				k.sync()
				k.st.Emit(fmt.Sprintf("reserve %d %d", len(g.tries), k.observedStart(g.rules, globalNextLpmIndex.Load())), "ok")
				k.st.Emit("instcheck", "ok")
				k.stats.Inc("reload.previous_generation_restored")
			}
		}
		return nil, "err:kernel:" + fmt.Sprint(err) + res
	}
	k.stats.Inc("reload." + mode)
	if uint32(len(tries)) > 0 && (predicted+uint32(len(tries))) >= uint32(consts.MaxMatchSetLen) {
		k.stats.Inc("ring.wraps") // this generation reaches or crosses the end of the ring
	}
	// slots shared by consecutive generations (possible only when their sizes add up to > 1024)
	newSlots := map[uint32]struct{}{}
	for _, s := range plane.core.lpmTrieIndices {
		newSlots[s] = struct{}{}
	}
	reused := 0
	for s := range newSlots {
		if _, ok := k.lastSlots[s]; ok {
			reused++
		}
	}
	if reused > 0 {
		k.stats.Add("ring.slot_reused_across_generations", reused)
	}
	k.lastSlots = newSlots
	k.sync()
	k.matcher = matcher
	if !k.withDns {
		if len(k.shDom) != 0 {
			k.goViol = append(k.goViol, fmt.Sprintf("domain_routing_map still holds %d addresses of the previous generation after the reload (mode %s)", len(k.shDom), mode))
		}
	} else {
		k.checkDomainTable("after reload (" + mode + ")")
	}
	// the ring start is READ BACK from what was installed (kernel image index − typed index of the first
	// address-set rule), not predicted from the allocator: the allocation policy is not part of the property
	start := k.observedStart(rules, predicted)
	if start != predicted {
		k.stats.Inc("ring.start_differs_from_counter_before_build")
	}
	k.st.Emit(fmt.Sprintf("reserve %d %d", len(tries), start), "ok")
	k.st.Emit("instcheck", "ok")
	k.decodeOps(len(rules))
	k.plane = plane
	*cur = &c02Gen{plane: plane, compiled: compiled, tries: tries, start: start, rules: rules}
	if len(rules) > k.maxSets {
		k.maxSets = len(rules)
	}
	if len(tries) > k.maxTries {
		k.maxTries = len(tries)
	}
	k.stats.Add("matchsets", len(rules))
	k.stats.Add("lpm_tries", len(tries))
	return matcher, "ok"
}

// a DnsController without its background goroutines, wired by the production dnsControllerOption()
// (CacheAccessCallback -> core.BatchUpdateDomainRouting -> domainRoutingTracker.syncOwner -> BpfMapBatchUpdate
// on the real domain_routing_map; NewCache -> routingMatcher.domainMatcher.MatchDomainBitmap).
func c02NewDnsController(plane *ControlPlane) *DnsController {
	ctrl := &DnsController{dnsControllerStore: newDnsControllerStore(), log: plane.log, dnsForwarderIdleTTL: dnsForwarderIdleTTL}
	if err := ctrl.TryUpdateRuntime(plane.dnsControllerOption(), nil); err != nil {
		panic(err)
	}
	ctrl.bpfUpdateOnce.Do(func() {
		ctrl.bpfUpdateCh = make(chan *bpfUpdateTask, 1024)
		ctrl.bpfUpdateStop = make(chan struct{})
	})
	return ctrl
}

// every address in the real domain_routing_map must carry the OR of the CURRENT generation's
// MatchDomainBitmap of the names answered with it (a bitmap of an earlier generation points at other
// match sets), and every address of a cached name with a non-zero bitmap must be there.
func (k *c02Kern) checkDomainTable(when string) {
	want := map[[16]byte][32]uint32{}
	for name, addrs := range k.hosts {
		bm := k.matcher.domainMatcher.MatchDomainBitmap(name)
		for _, a := range addrs {
			key := a.As16()
			cur := want[key]
			for i := range cur {
				if i < len(bm) {
					cur[i] |= bm[i]
				}
			}
			want[key] = cur
		}
	}
	for key, w := range want {
		img := hex.EncodeToString(unsafe.Slice((*byte)(unsafe.Pointer(&w[0])), unsafe.Sizeof(w)))
		got, ok := k.shDom[key]
		if !ok {
			if w != [32]uint32{} {
				// installed-state precondition of H2 (fix 8e387ec: the tracker is reset with the cleared table)
				k.stats.Inc("dom.cached_name_missing_in_kernel_map")
				k.goViol = append(k.goViol, fmt.Sprintf("domain_routing_map has no entry for %s %s although a cached name with a non-zero bitmap resolves to it: "+
					"the kernel routes that address without the domain while userspace matches the domain rules", netip.AddrFrom16(key).Unmap(), when))
			}
			continue
		}
		k.stats.Inc("dom.entries_verified")
		if got != img {
			k.goViol = append(k.goViol, fmt.Sprintf("domain_routing_map[%s] %s holds a bitmap that is not the current generation's MatchDomainBitmap of the names resolved to it: kernel %s want %s",
				netip.AddrFrom16(key).Unmap(), when, strings.TrimRight(got, "0"), strings.TrimRight(img, "0")))
		}
	}
	for key := range k.shDom {
		if _, ok := want[key]; !ok {
			k.goViol = append(k.goViol, fmt.Sprintf("domain_routing_map[%s] %s: address of no cached name", netip.AddrFrom16(key).Unmap(), when))
		}
	}
}

// a DNS answer reaches the real controller: cache entry, tracker, kernel map
func (k *c02Kern) answer(name string, addrs ...netip.Addr) {
	var a4, a6 []dnsmessage.RR
	for _, a := range addrs {
		if a.Is4() {
			b := a.As4()
			a4 = append(a4, &dnsmessage.A{Hdr: dnsmessage.RR_Header{Name: name + ".", Rrtype: dnsmessage.TypeA, Class: dnsmessage.ClassINET, Ttl: 86400}, A: net.IP(b[:])})
		} else {
			b := a.As16()
			a6 = append(a6, &dnsmessage.AAAA{Hdr: dnsmessage.RR_Header{Name: name + ".", Rrtype: dnsmessage.TypeAAAA, Class: dnsmessage.ClassINET, Ttl: 86400}, AAAA: net.IP(b[:])})
		}
	}
	ctrl := k.plane.dnsController
	if len(a4) > 0 {
		if err := ctrl.UpdateDnsCacheTtl(name+".", dnsmessage.TypeA, a4, nil, nil, 86400); err != nil {
			k.goViol = append(k.goViol, "UpdateDnsCacheTtl: "+err.Error())
		}
	}
	if len(a6) > 0 {
		if err := ctrl.UpdateDnsCacheTtl(name+".", dnsmessage.TypeAAAA, a6, nil, nil, 86400); err != nil {
			k.goViol = append(k.goViol, "UpdateDnsCacheTtl: "+err.Error())
		}
	}
	k.hosts[name] = append(k.hosts[name], addrs...)
	k.sync()
	k.checkDomainTable("after the answer for " + name)
}

// packets of a flow to every cached name's addresses, the name sniffed by userspace; the kernel uses
// whatever domain_routing_map holds (NOT written by the harness in this stream)
func (k *c02Kern) domPackets() {
	names := make([]string, 0, len(k.hosts))
	for n := range k.hosts {
		names = append(names, n)
	}
	sort.Strings(names)
	for _, name := range names {
		for _, a := range k.hosts[name] {
			if _, ok := k.shDom[a.As16()]; !ok {
				nz := false
				for _, w := range k.matcher.domainMatcher.MatchDomainBitmap(name) {
					nz = nz || w != 0
				}
				if nz {
					continue // counted by checkDomainTable; without an entry H2 does not hold
				}
			}
			for _, v := range []c02Variant{{l4: consts.L4ProtoType_TCP, dport: 443, hasMac: true}, {l4: consts.L4ProtoType_UDP, wan: true, dport: 53, hasPn: true}} {
				k.rawPacket(c01Pkt{src: netip.MustParseAddr("10.0.0.9"), dst: a, sport: 50000, dport: v.dport, l4: v.l4, domain: name}, v)
			}
		}
	}
}

type c02Variant struct {
	l4     consts.L4ProtoType
	wan    bool
	dport  uint16
	hasPn  bool
	hasMac bool
}

// one packet: installs / removes the destination's domain bitmap like the DNS controller would,
// then asks the real Match.
func (k *c02Kern) packet(m *RoutingMatcher, pk c01Pkt, v c02Variant, ipver consts.IpVersionType) {
	k.packetX(m, pk, v, ipver, true)
}

// rawPacket: the kernel sees whatever the control plane put into domain_routing_map
func (k *c02Kern) rawPacket(pk c01Pkt, v c02Variant) {
	k.packetX(k.matcher, pk, v, c02IpVer(pk.dst), false)
}

func (k *c02Kern) packetX(m *RoutingMatcher, pk c01Pkt, v c02Variant, ipver consts.IpVersionType, writeDom bool) {
	src16, dst16 := pk.src.As16(), pk.dst.As16()
	var mac16 [16]byte
	if v.hasMac {
		copy(mac16[10:], pk.mac[:])
	}
	var pname [16]byte
	if v.wan && v.hasPn {
		pname = pk.pname
		pname[15] = 0 // bpf_get_current_comm NUL-terminates within TASK_COMM_LEN
	}
	pk.dscp &= 0x3f // the hooks deliver tos >> 2
	k.dkeyOp(dst16)
	// domain bitmap
	ubm := "-"
	if !writeDom {
		if pk.domain != "" {
			bm := m.domainMatcher.MatchDomainBitmap(pk.domain)
			var dr bpfDomainRouting
			copy(dr.Bitmap[:], bm)
			ubm = hex.EncodeToString(unsafe.Slice((*byte)(unsafe.Pointer(&dr.Bitmap[0])), unsafe.Sizeof(dr.Bitmap)))
		}
		k.stats.Inc("pkt.domain_table_written_by_control_plane")
	} else if pk.domain != "" {
		bm := m.domainMatcher.MatchDomainBitmap(pk.domain)
		var dr bpfDomainRouting
		if len(bm) != len(dr.Bitmap) {
			k.goViol = append(k.goViol, fmt.Sprintf("MatchDomainBitmap length %d != %d", len(bm), len(dr.Bitmap)))
			return
		}
		copy(dr.Bitmap[:], bm)
		img := hex.EncodeToString(unsafe.Slice((*byte)(unsafe.Pointer(&dr.Bitmap[0])), unsafe.Sizeof(dr.Bitmap)))
		if k.shDom[dst16] != img {
			// the writer of domain_routing_tracker.syncOwner: native-word key, production batch update
			if _, err := BpfMapBatchUpdate(k.bpf.DomainRoutingMap, [][4]uint32{common.Ipv6ByteSliceToUint32Array(dst16[:])},
				[]bpfDomainRouting{dr}, &ebpf.BatchOptions{ElemFlags: uint64(ebpf.UpdateAny)}); err != nil {
				k.envFail = append(k.envFail, "harness write to domain_routing_map (BpfMapBatchUpdate): "+err.Error())
				return
			}
			var back bpfDomainRouting
			if err := k.bpf.DomainRoutingMap.Lookup(dst16, &back); err != nil || back != dr {
				k.goViol = append(k.goViol, fmt.Sprintf("domain_routing_map does not hold the bitmap under the destination's 16 bytes: %v", err))
				return
			}
			k.st.Emit("dom "+hex.EncodeToString(dst16[:])+" "+img, "ok")
			k.shDom[dst16] = img
		}
		ubm = img
		nz := false
		for _, w := range bm {
			if w != 0 {
				nz = true
			}
		}
		if nz {
			k.stats.Inc("pkt.domain_bitmap_nonzero")
		} else {
			k.stats.Inc("pkt.domain_bitmap_zero")
		}
	} else {
		if _, ok := k.shDom[dst16]; ok {
			// the DNS cache entry expired: the tracker deletes the address
			if _, err := BpfMapBatchDelete(k.bpf.DomainRoutingMap, [][4]uint32{common.Ipv6ByteSliceToUint32Array(dst16[:])}); err != nil {
				k.envFail = append(k.envFail, "harness delete from domain_routing_map (BpfMapBatchDelete): "+err.Error())
				return
			}
			k.st.Emit("domdel "+hex.EncodeToString(dst16[:]), "ok")
			delete(k.shDom, dst16)
		}
		k.stats.Inc("pkt.no_domain")
	}
	// flag[8] as the callers of route() fill it
	var flag [8]uint32
	flag[0] = uint32(v.l4)
	flag[1] = uint32(ipver)
	copy(unsafe.Slice((*byte)(unsafe.Pointer(&flag[2])), 16), pname[:])
	flag[6] = uint32(pk.dscp)
	if v.wan {
		flag[7] = 1
	}
	flagImg := hex.EncodeToString(unsafe.Slice((*byte)(unsafe.Pointer(&flag[0])), 32))
	op := fmt.Sprintf("pkt %s %d %d %s %s %s %s", flagImg, pk.sport, v.dport,
		hex.EncodeToString(src16[:]), hex.EncodeToString(dst16[:]), hex.EncodeToString(mac16[:]), ubm)
	out := VRecover(func() string {
		ob, mark, must, err := m.Match(src16, dst16, pk.sport, v.dport, ipver, v.l4, pk.domain, pname, pk.dscp, mac16)
		if err != nil {
			return "u=err"
		}
		k.stats.Inc(fmt.Sprintf("result.out%d", ob))
		if must {
			k.stats.Inc("result.must")
		}
		if mark != 0 {
			k.stats.Inc("result.marked")
		}
		return fmt.Sprintf("u=%d,%d,%d", ob, mark, c02Bool(must))
	})
	k.st.Emit(op, out)
	cls := "lan"
	if v.wan {
		cls = "wan"
		if v.hasPn && pname[0] != 0 {
			k.stats.Inc("pkt.wan_pname_known")
		} else {
			k.stats.Inc("pkt.wan_pname_unknown")
		}
	}
	k.stats.Inc("pkt." + cls)
	k.stats.Inc(fmt.Sprintf("pkt.l4_%d", v.l4))
	k.stats.Inc(fmt.Sprintf("pkt.ipver_%d", ipver))
	if v.dport == 53 {
		k.stats.Inc("pkt.dport53")
	}
	if mac16 == [16]byte{} {
		k.stats.Inc("pkt.zero_mac")
	}
}

var c02ConstNames = []struct {
	name string
	v    int64
}{
	{"MatchType_DomainSet", int64(consts.MatchType_DomainSet)}, {"MatchType_IpSet", int64(consts.MatchType_IpSet)},
	{"MatchType_SourceIpSet", int64(consts.MatchType_SourceIpSet)}, {"MatchType_Port", int64(consts.MatchType_Port)},
	{"MatchType_SourcePort", int64(consts.MatchType_SourcePort)}, {"MatchType_L4Proto", int64(consts.MatchType_L4Proto)},
	{"MatchType_IpVersion", int64(consts.MatchType_IpVersion)}, {"MatchType_Mac", int64(consts.MatchType_Mac)},
	{"MatchType_ProcessName", int64(consts.MatchType_ProcessName)}, {"MatchType_Dscp", int64(consts.MatchType_Dscp)},
	{"MatchType_Fallback", int64(consts.MatchType_Fallback)}, {"MatchType_MustRules", int64(consts.MatchType_MustRules)},
	{"MatchType_Upstream", int64(consts.MatchType_Upstream)}, {"MatchType_QType", int64(consts.MatchType_QType)},
	{"OUTBOUND_DIRECT", int64(consts.OutboundDirect)}, {"OUTBOUND_BLOCK", int64(consts.OutboundBlock)},
	{"OUTBOUND_MUST_RULES", int64(consts.OutboundMustRules)}, {"OUTBOUND_CONTROL_PLANE_ROUTING", int64(consts.OutboundControlPlaneRouting)},
	{"OUTBOUND_LOGICAL_OR", int64(consts.OutboundLogicalOr)}, {"OUTBOUND_LOGICAL_AND", int64(consts.OutboundLogicalAnd)},
	{"OUTBOUND_LOGICAL_MASK", int64(consts.OutboundLogicalMask)},
	{"L4ProtoType_TCP", int64(consts.L4ProtoType_TCP)}, {"L4ProtoType_UDP", int64(consts.L4ProtoType_UDP)}, {"L4ProtoType_X", int64(consts.L4ProtoType_X)},
	{"IpVersionType_4", int64(consts.IpVersion_4)}, {"IpVersionType_6", int64(consts.IpVersion_6)}, {"IpVersionType_X", int64(consts.IpVersion_X)},
	{"MAX_MATCH_SET_LEN", int64(consts.MaxMatchSetLen)}, {"TASK_COMM_LEN", int64(consts.TaskCommLen)},
	{"sizeof_match_set", int64(unsafe.Sizeof(bpfMatchSet{}))},
	{"off_match_set_not", int64(unsafe.Offsetof(bpfMatchSet{}.Not))}, {"off_match_set_type", int64(unsafe.Offsetof(bpfMatchSet{}.Type))},
	{"off_match_set_outbound", int64(unsafe.Offsetof(bpfMatchSet{}.Outbound))}, {"off_match_set_must", int64(unsafe.Offsetof(bpfMatchSet{}.Must))},
	{"off_match_set_mark", int64(unsafe.Offsetof(bpfMatchSet{}.Mark))},
	{"sizeof_port_range", int64(unsafe.Sizeof(bpfPortRange{}))}, {"off_port_range_end", int64(unsafe.Offsetof(bpfPortRange{}.PortEnd))},
	{"sizeof_lpm_key", int64(unsafe.Sizeof(_bpfLpmKey{}))}, {"off_lpm_key_data", int64(unsafe.Offsetof(_bpfLpmKey{}.Data))},
	{"sizeof_domain_routing", int64(unsafe.Sizeof(bpfDomainRouting{}))},
	// names only the C side / the model know (Go answer "-")
	{"MAX_LPM_NUM", -1}, {"IPV6_BYTE_LENGTH", -1}, {"sizeof_match_type", -1}, {"sizeof_l4proto_type", -1},
	{"ENOEXEC", -1}, {"EFAULT", -1}, {"EINVAL", -1}, {"EPERM", -1},
}

func c02Build(log *logrus.Logger, text string, name2id map[string]uint8) (b *RoutingMatcherBuilder, res string) {
	res = VRecover(func() string {
		sections, err := config_parser.Parse(text)
		if err != nil {
			return "err:parse:" + err.Error()
		}
		conf, err := config.New(sections)
		if err != nil {
			return "err:config:" + err.Error()
		}
		// NewControlPlane's optimizer chain, regenerated from control_plane.go (translators/optchain)
		program, err := routing.NewNormalizedProgram(conf.Routing.Rules, conf.Routing.Fallback,
			c01ProductionOptimizers(log, assets.NewLocationFinder(nil))...)
		if err != nil {
			return "err:optimizers:" + err.Error()
		}
		bb, err := NewRoutingMatcherBuilderFromProgram(log, program, name2id, nil)
		if err != nil {
			return "err:builder:" + err.Error()
		}
		b = bb
		return "ok"
	})
	return b, res
}

func c02Variants(r *VRand, pk c01Pkt) []c02Variant {
	base := c02Variant{l4: pk.l4, wan: r.Bool(), dport: pk.dport, hasPn: r.Chance(0.85), hasMac: r.Chance(0.9)}
	vs := []c02Variant{base}
	v := base
	v.dport = 53
	vs = append(vs, v)
	v = base
	v.wan = !base.wan
	vs = append(vs, v)
	if r.Chance(0.5) {
		v = base
		v.l4 = 3 - base.l4
		if r.Bool() {
			v.dport = 53
		}
		vs = append(vs, v)
	}
	return vs
}

func c02Stat(stats *VStats, compiled []compiledRoutingMatch) {
	for _, c := range compiled {
		stats.Inc(fmt.Sprintf("set.type%d", c.matchType))
		if c.not {
			stats.Inc("set.not")
		}
		switch c.outbound {
		case consts.OutboundLogicalOr:
			stats.Inc("set.tail_or")
		case consts.OutboundLogicalAnd:
			stats.Inc("set.tail_and")
		case consts.OutboundMustRules:
			stats.Inc("set.tail_must_rules")
		default:
			stats.Inc("set.tail_final")
		}
	}
}

func c02IpVer(a netip.Addr) consts.IpVersionType {
	if a.Is4() {
		return consts.IpVersion_4
	}
	return consts.IpVersion_6
}

// handwritten program text: n single-set rules `sip(172.x.y.z) -> gA|gB` (outbounds alternate so that
// the rule merger keeps them apart: one LPM trie each), optional domain rule, fallback.
func c02SipProgram(n int, salt byte, tail string) (string, []netip.Addr) {
	var sb strings.Builder
	var addrs []netip.Addr
	sb.WriteString("global {}\nrouting {\n")
	for i := 0; i < n; i++ {
		a := netip.AddrFrom4([4]byte{172, salt, byte(i >> 8), byte(i)})
		addrs = append(addrs, a)
		fmt.Fprintf(&sb, "  sip(%s) -> %s\n", a, c01Outs[2+i%2])
	}
	sb.WriteString(tail)
	sb.WriteString("  fallback: " + c01Outs[7] + "\n}\n")
	return sb.String(), addrs
}

func c02PortProgram(n int, tail string) string {
	var sb strings.Builder
	sb.WriteString("global {}\nrouting {\n")
	for i := 0; i < n; i++ {
		fmt.Fprintf(&sb, "  dport(%d) -> %s\n", 2000+i, c01Outs[2+i%2])
	}
	sb.WriteString(tail)
	sb.WriteString("  fallback: " + c01Outs[7] + "\n}\n")
	return sb.String()
}

func TestVerifC02(t *testing.T) {
	r := NewVRand(VSeed())
	stats := NewVStats()
	log := logrus.New()
	log.SetLevel(logrus.PanicLevel)
	name2id := map[string]uint8{}
	for i, n := range c01Outs {
		name2id[n] = uint8(i)
	}
	var allViol, allEnv []string
	t0 := time.Now()
	var timing []string
	cpu := func() float64 {
		var ru syscall.Rusage
		_ = syscall.Getrusage(syscall.RUSAGE_SELF, &ru)
		return float64(ru.Utime.Sec+ru.Stime.Sec) + float64(ru.Utime.Usec+ru.Stime.Usec)/1e6
	}
	c0 := cpu()
	lap := func(name string) {
		timing = append(timing, fmt.Sprintf("%s wall=%.1fs cpu=%.1fs", name, time.Since(t0).Seconds(), cpu()-c0))
		t0, c0 = time.Now(), cpu()
	}

	// ---------------------------------------------------------------- main stream
	k := c02NewKern("c02", stats, log)
	for _, c := range c02ConstNames {
		ans := "-"
		if c.v >= 0 {
			ans = fmt.Sprint(c.v)
		}
		k.st.Emit("const "+c.name, "="+ans)
	}
	ring0 := uint32(1000 + r.Intn(20)) // close to the wrap-around
	globalNextLpmIndex.Store(ring0)
	k.st.Emit(fmt.Sprintf("ringset %d", ring0), "ok")

	nProg, nPkt, maxRules := 300, 30, 12
	if VThorough() {
		nProg, nPkt, maxRules = 2000, 50, 40
	}
	var cur *c02Gen
	for pi := 0; pi < nProg; pi++ {
		if pi == 1 {
			k.opts = func() c02Opts { return c02RandOpts(r, stats) }
		}
		if pi%9 == 4 && cur != nil {
			// a large domain table before the reload: the clear has to page through it (257 / 1100 / 2600 entries)
			k.bulkFillDomain([]int{257, 1100, 2600}[(pi/9)%3], uint32(pi))
		}
		mr := maxRules
		switch {
		case pi%10 == 0:
			mr = 2
		case pi%25 == 7:
			mr = 160 // long programs: match-set indices beyond the first bitmap words
		}
		giant := pi%100 == 50 // around MAX_MATCH_SET_LEN: high bitmap words, long scans, sometimes too long
		if giant {
			mr = 340
		}
		p := c01GenProg(r, stats, mr)
		if pi < 2 {
			stats.Sample(p.text)
		}
		var matcher *RoutingMatcher
		res := ""
		for try := 0; ; try++ {
			var b *RoutingMatcherBuilder
			b, res = c02Build(log, p.text, name2id)
			if b != nil {
				if len(b.rules) > consts.MaxMatchSetLen {
					stats.Inc("prog.longer_than_max_accepted_by_builder")
				}
				matcher, res = k.reload(b, &cur)
			}
			if matcher != nil || !giant || mr <= 100 {
				break
			}
			// a program that does not fit is rejected (by the builder, by BuildUserspace or by the kernel
			// install): shrink until it fits
			stats.Inc("prog.giant_rejected_as_too_long")
			mr -= 40
			p = c01GenProg(r, stats, mr)
		}
		if matcher == nil {
			stats.Inc("prog.build_failed")
			stats.Sample("build failed: " + res)
			continue
		}
		if giant {
			stats.Inc("prog.giant")
		}
		stats.Inc("prog.installed")
		c02Stat(stats, cur.compiled)
		np := nPkt
		if len(cur.compiled) > 300 {
			np = nPkt / 2
		}
		for q := 0; q < np; q++ {
			pk := c01GenPkt(r, p, stats)
			for _, v := range c02Variants(r, pk) {
				k.packet(matcher, pk, v, c02IpVer(pk.dst))
			}
		}
	}
	stats.Add("ops", k.st.N)
	stats.Add("max_matchsets_in_a_program", k.maxSets)
	stats.Add("max_lpm_tries_in_a_program", k.maxTries)
	allViol = append(allViol, k.goViol...)
	allEnv = append(allEnv, k.envFail...)
	k.close()

	lap("main")
	// ---------------------------------------------------------------- empty-process-name replay (former finding #6, fix C02.fix1)
	f := c02NewKern("c02f6", NewVStats(), log)
	f.st.Emit(fmt.Sprintf("ringset %d", globalNextLpmIndex.Load()), "ok")
	f6text := "global {}\nrouting {\n  pname('') -> block\n  fallback: direct\n}\n"
	b, res := c02Build(log, f6text, name2id)
	f6note := res
	if b != nil {
		var fcur *c02Gen
		m, res2 := f.reload(b, &fcur)
		f6note = res2
		if m != nil {
			pk := c01Pkt{src: netip.MustParseAddr("192.168.1.2"), dst: netip.MustParseAddr("1.2.3.4"), sport: 40000, dport: 443, l4: consts.L4ProtoType_TCP}
			copy(pk.pname[:], "curl")
			// WAN, process unknown (the witness); WAN, process known; LAN
			f.packet(m, pk, c02Variant{l4: pk.l4, wan: true, dport: 443, hasPn: false, hasMac: false}, consts.IpVersion_4)
			f.packet(m, pk, c02Variant{l4: pk.l4, wan: true, dport: 443, hasPn: true, hasMac: false}, consts.IpVersion_4)
			f.packet(m, pk, c02Variant{l4: pk.l4, wan: false, dport: 443, hasPn: false, hasMac: true}, consts.IpVersion_4)
		}
	}
	allViol = append(allViol, f.goViol...)
	allEnv = append(allEnv, f.envFail...)
	f.close()
	_ = os.WriteFile(filepath.Join(VOutDir(), "c02f6.note"), []byte(f6note+"\n"), 0o644)

	// ---------------------------------------------------------------- boundary stream
	// overlapping generations (600 + 600 LPM tries > 1024: the second generation reuses ring slots of the
	// first, InheritLpmIndices must skip them), a small one after, exactly MAX_MATCH_SET_LEN match sets
	// with a domain set at the last non-fallback index, and MAX_MATCH_SET_LEN + 1 (must be rejected).
	g := c02NewKern("c02big", stats, log)
	g.st.Emit(fmt.Sprintf("ringset %d", globalNextLpmIndex.Load()), "ok")
	var gcur *c02Gen
	bigNote := []string{}
	sendSip := func(m *RoutingMatcher, addrs []netip.Addr, domain string) {
		for _, i := range []int{0, 1, len(addrs) / 2, len(addrs) - 2, len(addrs) - 1} {
			if i < 0 || i >= len(addrs) {
				continue
			}
			pk := c01Pkt{src: addrs[i], dst: netip.MustParseAddr("93.184.216.34"), sport: 40000 + uint16(i), dport: 443, l4: consts.L4ProtoType_TCP, domain: domain}
			g.packet(m, pk, c02Variant{l4: pk.l4, wan: false, dport: 443, hasMac: true}, consts.IpVersion_4)
			pk.src = netip.MustParseAddr("172.99.0.1") // in no set: fallback
			g.packet(m, pk, c02Variant{l4: consts.L4ProtoType_UDP, wan: true, dport: 53, hasPn: true}, consts.IpVersion_4)
		}
	}
	for round, salt := range []byte{16, 17, 18} {
		n := 600
		if round == 2 {
			n = 3
		}
		text, addrs := c02SipProgram(n, salt, "")
		bb, res := c02Build(log, text, name2id)
		if bb == nil {
			bigNote = append(bigNote, fmt.Sprintf("overlap round %d: %s", round, res))
			continue
		}
		nt := len(bb.simulatedLpmTries)
		m, res := g.reload(bb, &gcur)
		bigNote = append(bigNote, fmt.Sprintf("overlap round %d: tries=%d %s", round, nt, res))
		if m != nil {
			stats.Inc("big.overlap_generation_installed")
			sendSip(m, addrs, "")
		}
	}
	// exactly 1024 match sets: 1022 port sets, one domain set (index 1022), fallback (index 1023)
	for _, total := range []int{consts.MaxMatchSetLen, consts.MaxMatchSetLen + 1} {
		text := c02PortProgram(total-2, "  domain(full: last.example.test) -> block\n")
		bb, res := c02Build(log, text, name2id)
		if bb == nil {
			bigNote = append(bigNote, fmt.Sprintf("program of %d match sets: builder: %s", total, res))
			if total > consts.MaxMatchSetLen {
				stats.Inc("big.over_limit_rejected")
			}
			continue
		}
		nsets := len(bb.rules)
		m, res := g.reload(bb, &gcur)
		bigNote = append(bigNote, fmt.Sprintf("program of %d match sets (builder emitted %d): %s", total, nsets, res))
		if m == nil {
			if nsets > consts.MaxMatchSetLen {
				stats.Inc("big.over_limit_rejected")
			}
			continue
		}
		if nsets > consts.MaxMatchSetLen {
			g.goViol = append(g.goViol, fmt.Sprintf("a program of %d > %d match sets was installed", nsets, consts.MaxMatchSetLen))
			continue
		}
		if nsets == consts.MaxMatchSetLen {
			stats.Inc("big.exactly_max_installed")
		}
		for _, dom := range []string{"last.example.test", "other.example.test", ""} {
			for _, dport := range []uint16{443, 2000, uint16(2000 + total - 3), 53} {
				pk := c01Pkt{src: netip.MustParseAddr("10.0.0.1"), dst: netip.MustParseAddr("93.184.216.34"), sport: 1234, dport: dport, l4: consts.L4ProtoType_TCP, domain: dom}
				g.packet(m, pk, c02Variant{l4: pk.l4, wan: false, dport: dport, hasMac: true}, consts.IpVersion_4)
			}
		}
	}
	allViol = append(allViol, g.goViol...)
	allEnv = append(allEnv, g.envFail...)
	g.close()
	_ = os.WriteFile(filepath.Join(VOutDir(), "c02big.note"), []byte(strings.Join(bigNote, "\n")+"\n"), 0o644)

	lap("f6+big")
	// ---------------------------------------------------------------- domain table across reloads (stale-bitmap stream)
	// DNS answers go through the real DnsController -> tracker -> domain_routing_map; reloads re-number the
	// domain match sets (rules inserted in front, a domain rule removed, order changed); the DNS cache is handed
	// over and replayed (replayDnsReloadCache -> RestoreReloadCache -> tracker) as CommitPreparedDatapath does.
	d := c02NewKern("c02dom", stats, log)
	d.withDns, d.hosts = true, map[string][]netip.Addr{}
	d.st.Emit(fmt.Sprintf("ringset %d", globalNextLpmIndex.Load()), "ok")
	var dcur *c02Gen
	domRules := []string{
		"  domain(full: a.example.test) -> " + c01Outs[2] + "\n",
		"  domain(suffix: b.example.test) && dport(443) -> " + c01Outs[3] + "\n",
		"  domain(keyword: ccc) -> must_rules\n",
		"  domain(suffix: example.test, full: other.test) -> " + c01Outs[4] + "(mark: 0x77)\n",
	}
	domProg := func(front int, order []int) string {
		var sb strings.Builder
		sb.WriteString("global {}\nrouting {\n")
		for i := 0; i < front; i++ {
			fmt.Fprintf(&sb, "  dport(%d) -> %s\n", 3000+i, c01Outs[5+i%2])
		}
		for _, i := range order {
			sb.WriteString(domRules[i])
		}
		sb.WriteString("  fallback: " + c01Outs[7] + "\n}\n")
		return sb.String()
	}
	domNote := []string{}
	domReload := func(front int, order []int) bool {
		bb, res := c02Build(log, domProg(front, order), name2id)
		if bb == nil {
			domNote = append(domNote, "build: "+res)
			return false
		}
		m, res := d.reload(bb, &dcur)
		domNote = append(domNote, fmt.Sprintf("front=%d order=%v: %s", front, order, res))
		if m != nil {
			stats.Inc("dom.generations")
		}
		return m != nil
	}
	ip := netip.MustParseAddr
	if domReload(0, []int{0, 1, 2, 3}) {
		d.answer("a.example.test", ip("93.184.216.1"), ip("2001:db8::1"))
		d.answer("www.b.example.test", ip("93.184.216.2"))
		d.answer("xcccx.example.test", ip("93.184.216.3"), ip("93.184.216.33"))
		d.answer("nomatch.invalid", ip("93.184.216.4"))
		d.domPackets()
		// re-numbered: 40 rules in front (the domain sets move into the second bitmap word), first rule gone
		if domReload(40, []int{1, 2, 3}) {
			d.domPackets()
			d.answer("other.test", ip("93.184.216.5"))
			d.domPackets()
			// the running generation restores its own datapath (what the reload handler does after a failed staged reload)
			d.emitTyped(dcur.compiled, dcur.tries)
			if err := d.plane.RebuildReloadDatapath(); err != nil {
				d.goViol = append(d.goViol, "RebuildReloadDatapath: "+err.Error())
			} else {
				stats.Inc("dom.self_rebuild")
				d.sync()
				d.st.Emit(fmt.Sprintf("reserve %d %d", len(dcur.tries), d.observedStart(dcur.rules, globalNextLpmIndex.Load())), "ok")
				d.st.Emit("instcheck", "ok")
				d.checkDomainTable("after RebuildReloadDatapath of the running generation")
				d.domPackets()
			}
			// order changed, nothing in front
			if domReload(3, []int{3, 0, 2, 1}) {
				d.domPackets()
			}
			// every domain set beyond index 96: the names' bitmaps live in word 3 only
			if domReload(100, []int{2, 0, 3, 1}) {
				stats.Inc("dom.generation_with_high_index_domain_sets")
				d.domPackets()
			}
		}
	}
	allViol = append(allViol, d.goViol...)
	allEnv = append(allEnv, d.envFail...)
	d.close()
	_ = os.WriteFile(filepath.Join(VOutDir(), "c02dom.note"), []byte(strings.Join(domNote, "\n")+"\n"), 0o644)

	lap("dom")
	// ---------------------------------------------------------------- rollback histories with injected faults (c02x_test.go)
	{
		rv, re, rn := c02RollStream(r, stats, log, name2id)
		allViol = append(allViol, rv...)
		allEnv = append(allEnv, re...)
		_ = os.WriteFile(filepath.Join(VOutDir(), "c02roll.note"), []byte(strings.Join(rn, "\n")+"\n"), 0o644)
	}

	lap("roll")
	// ---------------------------------------------------------------- kernel error paths (hand-written maps, kernel vs model only)
	e := VOpenStream("c02err")
	img := func(ms bpfMatchSet) string { return c02MatchSetImage(&ms) }
	flagOf := func(l4, ipv uint32) string {
		var flag [8]uint32
		flag[0], flag[1] = l4, ipv
		return hex.EncodeToString(unsafe.Slice((*byte)(unsafe.Pointer(&flag[0])), 32))
	}
	a1, a2 := netip.MustParseAddr("10.0.0.1").As16(), netip.MustParseAddr("10.0.0.2").As16()
	kp := func(dport int) {
		e.Emit(fmt.Sprintf("kpkt %s 1000 %d %s %s %s", flagOf(1, 1), dport, hex.EncodeToString(a1[:]), hex.EncodeToString(a2[:]), strings.Repeat("00", 16)), "-")
	}
	port80 := bpfMatchSet{Type: uint8(consts.MatchType_Port), Outbound: 1, Value: bpfPortRange{PortStart: 80, PortEnd: 80}.Encode()}
	fb := bpfMatchSet{Type: uint8(consts.MatchType_Fallback), Outbound: 2}
	ipset := func(idx uint32) bpfMatchSet {
		ms := bpfMatchSet{Type: uint8(consts.MatchType_IpSet), Outbound: 1}
		*(*uint32)(unsafe.Pointer(&ms.Value[0])) = idx
		return ms
	}
	// nothing installed: active length 0
	kp(80)
	// no fallback, no hit: -EPERM ("no match set hit")
	e.Emit("rset 1 0:"+img(port80), "ok")
	e.Emit("meta 1", "ok")
	kp(80)
	kp(81)
	// unknown match type (Upstream = 12 is a DNS-routing type): -EINVAL inside, error outside
	e.Emit("rset 2 0:"+img(bpfMatchSet{Type: uint8(consts.MatchType_Upstream), Outbound: 1})+" 1:"+img(fb), "ok")
	e.Emit("meta 2", "ok")
	kp(80)
	// LPM slot never installed / outside lpm_array_map
	e.Emit("rset 2 0:"+img(ipset(5))+" 1:"+img(fb), "ok")
	kp(80)
	e.Emit("rset 1 0:"+img(ipset(c02MaxLpmNum)), "ok")
	kp(80)
	e.Emit("rset 1 0:"+img(ipset(0xffffffff)), "ok")
	kp(80)
	// active length above MAX_MATCH_SET_LEN is clamped; a fallback at the last index is still reached
	e.Emit(fmt.Sprintf("rset 2 0:%s %d:%s", img(port80), consts.MaxMatchSetLen-1, img(fb)), "ok")
	e.Emit("meta 5000", "ok")
	kp(80)
	kp(81)
	e.Emit(fmt.Sprintf("meta %d", consts.MaxMatchSetLen), "ok")
	kp(81)
	e.Emit(fmt.Sprintf("meta %d", consts.MaxMatchSetLen-1), "ok")
	kp(81)
	e.Close()

	_ = os.WriteFile(filepath.Join(VOutDir(), "c02.goviol"), []byte(strings.Join(allViol, "\n")), 0o644)
	_ = os.WriteFile(filepath.Join(VOutDir(), "c02.envfail"), []byte(strings.Join(allEnv, "\n")), 0o644)
	_ = os.WriteFile(filepath.Join(VOutDir(), "c02.timing"), []byte(strings.Join(timing, "\n")+"\n"), 0o644)
	stats.Write("c02")
}
