package control

// C02 correspondence harness (real-build variant: no dae_stub_ebpf tag, synthetic bpf2go file).
//
// Generated routing sections (C01's generator, c01_test.go) go through the real parser, config.New,
// the optimizer chain and the real RoutingMatcherBuilder.  Before BuildUserspace releases them, the
// typed array (b.compiledRules), the LPM sets (b.simulatedLpmTries) and the byte image (b.rules) are
// captured.  The kernel side of one reload is then produced by the PRODUCTION functions
// reserveLpmRingSlots, cidrToBpfLpmKey, rewriteKernRulesWithRingLpmIndex (the map updates themselves
// need a kernel: their order is mirrored from buildRoutingKernspace / ReplaceLpmIndices) and written
// to the op stream as raw memory images.  Every packet is evaluated by the real RoutingMatcher.Match;
// the same op file is afterwards fed to the native C driver (real route()) and to the Lean driver.
//
// Streams: c02 (main), c02f6 (replay of the pname('') / unknown-process witness).

import (
	"github.com/daeuniverse/dae/common/assets"
	"encoding/hex"
	"fmt"
	"net/netip"
	"os"
	"path/filepath"
	"sort"
	"strings"
	"testing"
	"unsafe"

	"github.com/daeuniverse/dae/common/consts"
	"github.com/daeuniverse/dae/component/routing"
	"github.com/daeuniverse/dae/config"
	"github.com/daeuniverse/dae/pkg/config_parser"
	"github.com/sirupsen/logrus"
)

func c02Bool(b bool) int {
	if b {
		return 1
	}
	return 0
}

// typed token of one compiledRoutingMatch: <type>:<not>:<outbound>:<must>:<mark>:<payload>
func c02EntryTok(c compiledRoutingMatch) string {
	pl := "-"
	switch c.matchType {
	case consts.MatchType_IpSet, consts.MatchType_SourceIpSet, consts.MatchType_Mac:
		pl = fmt.Sprint(c.lpmIndex)
	case consts.MatchType_Port, consts.MatchType_SourcePort:
		pl = fmt.Sprintf("%d-%d", c.portStart, c.portEnd)
	case consts.MatchType_IpVersion, consts.MatchType_L4Proto:
		pl = fmt.Sprint(c.mask)
	case consts.MatchType_ProcessName:
		pl = hex.EncodeToString(c.pname[:])
	case consts.MatchType_Dscp:
		pl = fmt.Sprint(c.dscp)
	}
	return fmt.Sprintf("%d:%d:%d:%d:%d:%s", uint8(c.matchType), c02Bool(c.not), uint8(c.outbound), c02Bool(c.must), c.mark, pl)
}

func c02MatchSetImage(ms *bpfMatchSet) string {
	b := unsafe.Slice((*byte)(unsafe.Pointer(ms)), unsafe.Sizeof(*ms))
	return hex.EncodeToString(b)
}

func c02LpmKeyTok(k *_bpfLpmKey) string {
	data := unsafe.Slice((*byte)(unsafe.Pointer(&k.Data[0])), 16)
	return fmt.Sprintf("%d:%s", k.PrefixLen, hex.EncodeToString(data))
}

type c02Kern struct {
	st        *VStream
	stats     *VStats
	curSlots  map[uint32]struct{} // lpm_array_map slots of the active generation (core.lpmTrieIndices)
	domKeys   map[[16]byte]struct{}
	goViol    []string
	maxSets   int
	maxTries  int
	ringWraps int
}

// one reload: mirrors buildRoutingKernspace (LPM slots, then rules, then meta), then
// ReplaceLpmIndices (delete superseded slots) and clearReloadDomainRoutingMap.
func (k *c02Kern) install(rules []bpfMatchSet, compiled []compiledRoutingMatch, tries [][]netip.Prefix) bool {
	toks := make([]string, len(compiled))
	for i := range compiled {
		toks[i] = c02EntryTok(compiled[i])
	}
	k.st.Emit(fmt.Sprintf("prog %d %s", len(compiled), strings.Join(toks, " ")), "ok")
	var tb strings.Builder
	fmt.Fprintf(&tb, "tries %d", len(tries))
	for _, t := range tries {
		fmt.Fprintf(&tb, " %d", len(t))
		for _, p := range t {
			tb.WriteString(" " + c12Tok(p))
		}
	}
	k.st.Emit(tb.String(), "ok")

	// the builder's typed array must be what compileRoutingMatch decodes from its byte image
	if dec, err := compileRoutingMatches(rules); err != nil {
		k.goViol = append(k.goViol, "compileRoutingMatches(b.rules): "+err.Error())
	} else {
		for i := range dec {
			if i >= len(compiled) || dec[i] != compiled[i] {
				k.goViol = append(k.goViol, fmt.Sprintf("compiledRules[%d] != compileRoutingMatch(rules[%d]): %+v vs %+v", i, i, compiled, dec[i]))
				break
			}
		}
		if len(dec) != len(compiled) {
			k.goViol = append(k.goViol, "len(compiledRules) != len(rules)")
		}
	}

	lpmCount := uint32(len(tries))
	before := globalNextLpmIndex.Load()
	start, err := reserveLpmRingSlots(lpmCount)
	if err != nil {
		k.stats.Inc("ring.reserve_error")
		return false
	}
	k.st.Emit(fmt.Sprintf("reserve %d %d", lpmCount, start), "ok")
	if globalNextLpmIndex.Load() < before {
		k.ringWraps++
		k.stats.Inc("ring.wraps")
	}
	newSlots := map[uint32]struct{}{}
	for i, cidrs := range tries {
		slot := (start + uint32(i)) % uint32(consts.MaxMatchSetLen)
		var sb strings.Builder
		fmt.Fprintf(&sb, "lpm %d %d %d", i, slot, len(cidrs))
		for _, c := range cidrs {
			key := cidrToBpfLpmKey(c)
			sb.WriteString(" " + c02LpmKeyTok(&key))
		}
		k.st.Emit(sb.String(), "ok")
		newSlots[slot] = struct{}{}
	}
	kernRules, err := rewriteKernRulesWithRingLpmIndex(rules, start, lpmCount)
	if err != nil {
		k.goViol = append(k.goViol, "rewriteKernRulesWithRingLpmIndex: "+err.Error())
		return false
	}
	var rb strings.Builder
	fmt.Fprintf(&rb, "rules %d", len(kernRules))
	for i := range kernRules {
		rb.WriteString(" " + c02MatchSetImage(&kernRules[i]))
	}
	k.st.Emit(rb.String(), "ok")
	k.st.Emit(fmt.Sprintf("meta %d", len(kernRules)), "ok")
	// ReplaceLpmIndices → InheritLpmIndices(old): superseded slots not reused are deleted
	var old []uint32
	for s := range k.curSlots {
		if _, reused := newSlots[s]; !reused {
			old = append(old, s)
		} else {
			k.stats.Inc("ring.slot_reused_across_generations")
		}
	}
	sort.Slice(old, func(i, j int) bool { return old[i] < old[j] })
	for _, s := range old {
		k.st.Emit(fmt.Sprintf("lpmdel %d", s), "ok")
	}
	k.curSlots = newSlots
	// clearReloadDomainRoutingMap
	var dk []string
	for a := range k.domKeys {
		dk = append(dk, hex.EncodeToString(a[:]))
	}
	sort.Strings(dk)
	for _, a := range dk {
		k.st.Emit("domdel "+a, "ok")
	}
	k.domKeys = map[[16]byte]struct{}{}
	if len(rules) > k.maxSets {
		k.maxSets = len(rules)
	}
	if len(tries) > k.maxTries {
		k.maxTries = len(tries)
	}
	k.stats.Add("matchsets", len(rules))
	k.stats.Add("lpm_tries", len(tries))
	return true
}

type c02Variant struct {
	l4     consts.L4ProtoType
	wan    bool
	dport  uint16
	hasPn  bool
	hasMac bool
}

// one packet: installs / removes the destination's domain bitmap like the DNS controller would,
// then asks the real Match.
func (k *c02Kern) packet(m *RoutingMatcher, pk c01Pkt, v c02Variant, ipver consts.IpVersionType) {
	src16, dst16 := pk.src.As16(), pk.dst.As16()
	var mac16 [16]byte
	if v.hasMac {
		copy(mac16[10:], pk.mac[:])
	}
	var pname [16]byte
	if v.wan && v.hasPn {
		pname = pk.pname
	}
	// domain bitmap
	ubm := "-"
	if pk.domain != "" {
		bm := m.domainMatcher.MatchDomainBitmap(pk.domain)
		var dr bpfDomainRouting
		if len(bm) != len(dr.Bitmap) {
			k.goViol = append(k.goViol, fmt.Sprintf("MatchDomainBitmap length %d != %d", len(bm), len(dr.Bitmap)))
			return
		}
		copy(dr.Bitmap[:], bm)
		img := hex.EncodeToString(unsafe.Slice((*byte)(unsafe.Pointer(&dr.Bitmap[0])), unsafe.Sizeof(dr.Bitmap)))
		k.st.Emit("dom "+hex.EncodeToString(dst16[:])+" "+img, "ok")
		k.domKeys[dst16] = struct{}{}
		ubm = img
		nz := false
		for _, w := range bm {
			if w != 0 {
				nz = true
			}
		}
		if nz {
			k.stats.Inc("pkt.domain_bitmap_nonzero")
		} else {
			k.stats.Inc("pkt.domain_bitmap_zero")
		}
	} else {
		if _, ok := k.domKeys[dst16]; ok {
			k.st.Emit("domdel "+hex.EncodeToString(dst16[:]), "ok")
			delete(k.domKeys, dst16)
		}
		k.stats.Inc("pkt.no_domain")
	}
	// flag[8] as the callers of route() fill it
	var flag [8]uint32
	flag[0] = uint32(v.l4)
	flag[1] = uint32(ipver)
	copy(unsafe.Slice((*byte)(unsafe.Pointer(&flag[2])), 16), pname[:])
	flag[6] = uint32(pk.dscp)
	if v.wan {
		flag[7] = 1
	}
	flagImg := hex.EncodeToString(unsafe.Slice((*byte)(unsafe.Pointer(&flag[0])), 32))
	op := fmt.Sprintf("pkt %s %d %d %s %s %s %s", flagImg, pk.sport, v.dport,
		hex.EncodeToString(src16[:]), hex.EncodeToString(dst16[:]), hex.EncodeToString(mac16[:]), ubm)
	out := VRecover(func() string {
		ob, mark, must, err := m.Match(src16, dst16, pk.sport, v.dport, ipver, v.l4, pk.domain, pname, pk.dscp, mac16)
		if err != nil {
			return "u=err"
		}
		k.stats.Inc(fmt.Sprintf("result.out%d", ob))
		if must {
			k.stats.Inc("result.must")
		}
		if mark != 0 {
			k.stats.Inc("result.marked")
		}
		return fmt.Sprintf("u=%d,%d,%d", ob, mark, c02Bool(must))
	})
	k.st.Emit(op, out)
	cls := "lan"
	if v.wan {
		cls = "wan"
		if v.hasPn && pname[0] != 0 {
			k.stats.Inc("pkt.wan_pname_known")
		} else {
			k.stats.Inc("pkt.wan_pname_unknown")
		}
	}
	k.stats.Inc("pkt." + cls)
	k.stats.Inc(fmt.Sprintf("pkt.l4_%d", v.l4))
	k.stats.Inc(fmt.Sprintf("pkt.ipver_%d", ipver))
	if v.dport == 53 {
		k.stats.Inc("pkt.dport53")
	}
	if mac16 == [16]byte{} {
		k.stats.Inc("pkt.zero_mac")
	}
}

var c02ConstNames = []struct {
	name string
	v    int64
}{
	{"MatchType_DomainSet", int64(consts.MatchType_DomainSet)}, {"MatchType_IpSet", int64(consts.MatchType_IpSet)},
	{"MatchType_SourceIpSet", int64(consts.MatchType_SourceIpSet)}, {"MatchType_Port", int64(consts.MatchType_Port)},
	{"MatchType_SourcePort", int64(consts.MatchType_SourcePort)}, {"MatchType_L4Proto", int64(consts.MatchType_L4Proto)},
	{"MatchType_IpVersion", int64(consts.MatchType_IpVersion)}, {"MatchType_Mac", int64(consts.MatchType_Mac)},
	{"MatchType_ProcessName", int64(consts.MatchType_ProcessName)}, {"MatchType_Dscp", int64(consts.MatchType_Dscp)},
	{"MatchType_Fallback", int64(consts.MatchType_Fallback)}, {"MatchType_MustRules", int64(consts.MatchType_MustRules)},
	{"MatchType_Upstream", int64(consts.MatchType_Upstream)}, {"MatchType_QType", int64(consts.MatchType_QType)},
	{"OUTBOUND_DIRECT", int64(consts.OutboundDirect)}, {"OUTBOUND_BLOCK", int64(consts.OutboundBlock)},
	{"OUTBOUND_MUST_RULES", int64(consts.OutboundMustRules)}, {"OUTBOUND_CONTROL_PLANE_ROUTING", int64(consts.OutboundControlPlaneRouting)},
	{"OUTBOUND_LOGICAL_OR", int64(consts.OutboundLogicalOr)}, {"OUTBOUND_LOGICAL_AND", int64(consts.OutboundLogicalAnd)},
	{"OUTBOUND_LOGICAL_MASK", int64(consts.OutboundLogicalMask)},
	{"L4ProtoType_TCP", int64(consts.L4ProtoType_TCP)}, {"L4ProtoType_UDP", int64(consts.L4ProtoType_UDP)}, {"L4ProtoType_X", int64(consts.L4ProtoType_X)},
	{"IpVersionType_4", int64(consts.IpVersion_4)}, {"IpVersionType_6", int64(consts.IpVersion_6)}, {"IpVersionType_X", int64(consts.IpVersion_X)},
	{"MAX_MATCH_SET_LEN", int64(consts.MaxMatchSetLen)}, {"TASK_COMM_LEN", int64(consts.TaskCommLen)},
	{"sizeof_match_set", int64(unsafe.Sizeof(bpfMatchSet{}))},
	{"off_match_set_not", int64(unsafe.Offsetof(bpfMatchSet{}.Not))}, {"off_match_set_type", int64(unsafe.Offsetof(bpfMatchSet{}.Type))},
	{"off_match_set_outbound", int64(unsafe.Offsetof(bpfMatchSet{}.Outbound))}, {"off_match_set_must", int64(unsafe.Offsetof(bpfMatchSet{}.Must))},
	{"off_match_set_mark", int64(unsafe.Offsetof(bpfMatchSet{}.Mark))},
	{"sizeof_port_range", int64(unsafe.Sizeof(bpfPortRange{}))}, {"off_port_range_end", int64(unsafe.Offsetof(bpfPortRange{}.PortEnd))},
	{"sizeof_lpm_key", int64(unsafe.Sizeof(_bpfLpmKey{}))}, {"off_lpm_key_data", int64(unsafe.Offsetof(_bpfLpmKey{}.Data))},
	{"sizeof_domain_routing", int64(unsafe.Sizeof(bpfDomainRouting{}))},
	// names only the C side / the model know (Go answer "-")
	{"MAX_LPM_NUM", -1}, {"IPV6_BYTE_LENGTH", -1}, {"sizeof_match_type", -1}, {"sizeof_l4proto_type", -1},
	{"ENOEXEC", -1}, {"EFAULT", -1}, {"EINVAL", -1}, {"EPERM", -1},
}

func c02Build(log *logrus.Logger, text string, name2id map[string]uint8) (b *RoutingMatcherBuilder, res string) {
	res = VRecover(func() string {
		sections, err := config_parser.Parse(text)
		if err != nil {
			return "err:parse:" + err.Error()
		}
		conf, err := config.New(sections)
		if err != nil {
			return "err:config:" + err.Error()
		}
		// NewControlPlane's optimizer chain, regenerated from control_plane.go (translators/optchain)
		program, err := routing.NewNormalizedProgram(conf.Routing.Rules, conf.Routing.Fallback,
			c01ProductionOptimizers(log, assets.NewLocationFinder(nil))...)
		if err != nil {
			return "err:optimizers:" + err.Error()
		}
		bb, err := NewRoutingMatcherBuilderFromProgram(log, program, name2id, nil)
		if err != nil {
			return "err:builder:" + err.Error()
		}
		b = bb
		return "ok"
	})
	return b, res
}

func c02Variants(r *VRand, pk c01Pkt) []c02Variant {
	base := c02Variant{l4: pk.l4, wan: r.Bool(), dport: pk.dport, hasPn: r.Chance(0.85), hasMac: r.Chance(0.9)}
	vs := []c02Variant{base}
	v := base
	v.dport = 53
	vs = append(vs, v)
	v = base
	v.wan = !base.wan
	vs = append(vs, v)
	if r.Chance(0.5) {
		v = base
		v.l4 = 3 - base.l4
		if r.Bool() {
			v.dport = 53
		}
		vs = append(vs, v)
	}
	return vs
}

func TestVerifC02(t *testing.T) {
	r := NewVRand(VSeed())
	stats := NewVStats()
	log := logrus.New()
	log.SetLevel(logrus.PanicLevel)
	name2id := map[string]uint8{}
	for i, n := range c01Outs {
		name2id[n] = uint8(i)
	}
	// more outbound ids: up to 251 (user-defined maximum)
	c01OutsSaved := c01Outs
	defer func() { c01Outs = c01OutsSaved }()
	c01Outs = append(append([]string{}, c01Outs...), "g100", "g200", "g251")
	name2id["g100"], name2id["g200"], name2id["g251"] = 100, 200, 251

	// ---------------------------------------------------------------- main stream
	k := &c02Kern{st: VOpenStream("c02"), stats: stats, curSlots: map[uint32]struct{}{}, domKeys: map[[16]byte]struct{}{}}
	for _, c := range c02ConstNames {
		ans := "-"
		if c.v >= 0 {
			ans = fmt.Sprint(c.v)
		}
		k.st.Emit("const "+c.name, "="+ans)
	}
	ring0 := uint32(1000 + r.Intn(20)) // close to the wrap-around
	globalNextLpmIndex.Store(ring0)
	k.st.Emit(fmt.Sprintf("ringset %d", ring0), "ok")

	nProg, nPkt, maxRules := 300, 30, 12
	if VThorough() {
		nProg, nPkt, maxRules = 2500, 50, 40
	}
	for pi := 0; pi < nProg; pi++ {
		mr := maxRules
		switch {
		case pi%10 == 0:
			mr = 2
		case pi%25 == 7:
			mr = 160 // long programs: match-set indices beyond the first bitmap words
		}
		giant := pi%100 == 50 // close to MAX_MATCH_SET_LEN: high bitmap words, long scans
		if giant {
			mr = 340
		}
		p := c01GenProg(r, stats, mr)
		if pi < 2 {
			stats.Sample(p.text)
		}
		b, res := c02Build(log, p.text, name2id)
		for giant && b == nil && mr > 100 { // too many match sets is a build error: shrink until it fits
			stats.Inc("prog.giant_rejected_as_too_long")
			mr -= 40
			p = c01GenProg(r, stats, mr)
			b, res = c02Build(log, p.text, name2id)
		}
		if giant && b != nil {
			stats.Inc("prog.giant")
		}
		if b == nil {
			stats.Inc("prog.build_failed")
			stats.Sample("build failed: " + res)
			continue
		}
		rules := append([]bpfMatchSet(nil), b.rules...)
		compiled := append([]compiledRoutingMatch(nil), b.compiledRules...)
		tries := make([][]netip.Prefix, len(b.simulatedLpmTries))
		for i := range tries {
			tries[i] = append([]netip.Prefix(nil), b.simulatedLpmTries[i]...)
		}
		var matcher *RoutingMatcher
		bres := VRecover(func() string {
			m, err := b.BuildUserspace()
			if err != nil {
				return "err:build:" + err.Error()
			}
			matcher = m
			return "ok"
		})
		if matcher == nil {
			stats.Inc("prog.build_failed")
			stats.Sample("build failed: " + bres)
			continue
		}
		if !k.install(rules, compiled, tries) {
			stats.Inc("prog.install_failed")
			continue
		}
		stats.Inc("prog.installed")
		for _, c := range compiled {
			stats.Inc(fmt.Sprintf("set.type%d", c.matchType))
			if c.not {
				stats.Inc("set.not")
			}
			switch c.outbound {
			case consts.OutboundLogicalOr:
				stats.Inc("set.tail_or")
			case consts.OutboundLogicalAnd:
				stats.Inc("set.tail_and")
			case consts.OutboundMustRules:
				stats.Inc("set.tail_must_rules")
			default:
				stats.Inc("set.tail_final")
			}
		}
		np := nPkt
		if len(rules) > 300 {
			np = nPkt / 2
		}
		for q := 0; q < np; q++ {
			pk := c01GenPkt(r, p, stats)
			ipver := consts.IpVersion_6
			if pk.dst.Is4() {
				ipver = consts.IpVersion_4
			}
			for _, v := range c02Variants(r, pk) {
				k.packet(matcher, pk, v, ipver)
			}
		}
	}
	stats.Add("ops", k.st.N)
	stats.Add("max_matchsets_in_a_program", k.maxSets)
	stats.Add("max_lpm_tries_in_a_program", k.maxTries)
	k.st.Close()

	// ---------------------------------------------------------------- empty-process-name replay (former finding #6, fix C02.fix1)
	f := &c02Kern{st: VOpenStream("c02f6"), stats: NewVStats(), curSlots: map[uint32]struct{}{}, domKeys: map[[16]byte]struct{}{}}
	f.st.Emit(fmt.Sprintf("ringset %d", globalNextLpmIndex.Load()), "ok")
	f6text := "global {}\nrouting {\n  pname('') -> block\n  fallback: direct\n}\n"
	b, res := c02Build(log, f6text, name2id)
	f6note := res
	if b != nil {
		rules := append([]bpfMatchSet(nil), b.rules...)
		compiled := append([]compiledRoutingMatch(nil), b.compiledRules...)
		m, err := b.BuildUserspace()
		if err != nil {
			f6note = "err:build:" + err.Error()
		} else if f.install(rules, compiled, nil) {
			pk := c01Pkt{src: netip.MustParseAddr("192.168.1.2"), dst: netip.MustParseAddr("1.2.3.4"), sport: 40000, dport: 443, l4: consts.L4ProtoType_TCP}
			copy(pk.pname[:], "curl")
			// WAN, process unknown (the witness); WAN, process known; LAN
			f.packet(m, pk, c02Variant{l4: pk.l4, wan: true, dport: 443, hasPn: false, hasMac: false}, consts.IpVersion_4)
			f.packet(m, pk, c02Variant{l4: pk.l4, wan: true, dport: 443, hasPn: true, hasMac: false}, consts.IpVersion_4)
			f.packet(m, pk, c02Variant{l4: pk.l4, wan: false, dport: 443, hasPn: false, hasMac: true}, consts.IpVersion_4)
		}
	}
	f.st.Close()
	_ = os.WriteFile(filepath.Join(VOutDir(), "c02f6.note"), []byte(f6note+"\n"), 0o644)

	viol := append(k.goViol, f.goViol...)
	_ = os.WriteFile(filepath.Join(VOutDir(), "c02.goviol"), []byte(strings.Join(viol, "\n")), 0o644)
	stats.Write("c02")
}
