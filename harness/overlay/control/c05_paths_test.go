package control

// C05 deadline-path extractor.  Parses the anchor files of property C05 from the repository under
// check (go/parser, no type information needed), finds every call X.SetReadDeadline(<non-zero>),
// enumerates the structured control-flow paths of the enclosing function (or function literal) from
// that call to each exit, and records for each path whether the deadline is reset to the zero time
// on the same receiver expression (later on the path, or by a defer registered on the path) or the
// receiver is closed.  The table is written as a Lean file (Gen/DeadlinePaths.lean); Props.lean
// closes `∀ row, row.good` by `decide`.
//
// Structured enumeration: if/else, switch, type switch and select branch; a loop body runs zero
// times or once; break/continue/goto end the innermost loop or switch body; go statements are
// ignored; a function literal that is not deferred is analysed as a unit of its own under the name
// of the enclosing declaration.

import (
	"fmt"
	"go/ast"
	"go/parser"
	"go/token"
	"go/types"
	"os"
	"path/filepath"
	"sort"
	"strings"
	"testing"
)

var c05AnchorFiles = []string{
	"control/tcp.go", "control/tcp_sniff_policy.go", "control/tcp_relay_core.go",
	"control/tcp_copy_engine.go", "control/tcp_copy_gather_linux.go", "control/tcp_copy_linux.go",
	"control/tcp_relay_capabilities.go",
	"component/sniffing/conn_sniffer.go", "component/sniffing/sniffer.go",
}

// the detection probes and the functions around them, by name (file-independent)
var c05ProbeFuncs = map[string]bool{
	"readDnsMsgFromBufio": true, "handleTCPDnsFastPath": true, "prefetchForTcpSniff": true,
	"readStreamOnceWithReadDeadline": true, "readStreamOnceAsync": true, "handleConn": true,
}

type c05PEv struct {
	kind      string // arm | clear | close | dclear | dclose
	arg       string // the deadline expression of an arming call
	recv      string
	line      int
	armFailed bool
}

type c05Path struct {
	evs    []c05PEv
	done   bool // returned
	broken bool // break/continue/goto pending
}

func (p c05Path) with(e ...c05PEv) c05Path {
	n := c05Path{evs: append(append([]c05PEv(nil), p.evs...), e...), done: p.done, broken: p.broken}
	return n
}

// c05Forwarder describes a helper `func f(…, c, …, t, …)` (or method) whose body calls
// c.SetReadDeadline(t) / c.SetDeadline(t) with its own parameters: a call f(…) arms at the call site.
type c05Forwarder struct {
	connParam int // index of the conn parameter, -1: the method receiver (or its field connField)
	connField string
	timeParam int
}

type c05Extractor struct {
	zeroLocals map[string]bool   // `var x time.Time` inside the current declaration, never assigned
	assigned   map[string]bool   // names assigned anywhere in the current declaration
	clearers   map[string]int    // helper name -> index of the conn parameter it resets the deadline of
	locals     map[string]string // single-assignment locals of the current declaration: name -> printed expression
	forwarders map[string]c05Forwarder
	zeroVars   map[string]bool // `var x time.Time` without initialiser: x is the zero time
	params     map[string]bool // parameters of the enclosing declaration: X.SetReadDeadline(param) is pure forwarding
	fset       *token.FileSet
	units      []c05Unit // function literals found while walking, to analyse separately
	limit      int
}
type c05Unit struct {
	name string
	body *ast.BlockStmt
}

func (x *c05Extractor) isZeroTime(e ast.Expr) bool {
	if id, ok := e.(*ast.Ident); ok {
		if x.zeroLocals[id.Name] {
			return true
		}
		_, shadowed := x.locals[id.Name]
		return x.zeroVars[id.Name] && !shadowed && !x.assigned[id.Name]
	}
	cl, ok := e.(*ast.CompositeLit)
	if !ok || len(cl.Elts) != 0 {
		return false
	}
	se, ok := cl.Type.(*ast.SelectorExpr)
	if !ok {
		return false
	}
	id, ok := se.X.(*ast.Ident)
	return ok && id.Name == "time" && se.Sel.Name == "Time"
}

// canon prints a receiver / deadline expression with single-assignment locals replaced by what they were
// assigned (`tcp := conn.(*net.TCPConn)` → conn, `dl := time.Now().Add(c.halfCloseTimeout)` → that call).
func (x *c05Extractor) canon(e ast.Expr) string {
	s := types.ExprString(e)
	for i := 0; i < 4; i++ {
		v, ok := x.locals[s]
		if !ok || v == s {
			break
		}
		s = v
	}
	return s
}

// callEvent classifies one call expression.
func (x *c05Extractor) callEvent(c *ast.CallExpr) (c05PEv, bool) {
	line := x.fset.Position(c.Pos()).Line
	// a helper whose only job is to reset a deadline: `clearReadDeadline(conn)`
	if id, ok := c.Fun.(*ast.Ident); ok {
		if pi, ok := x.clearers[id.Name]; ok && pi < len(c.Args) {
			return c05PEv{kind: "clear", recv: x.canon(c.Args[pi]), line: line}, true
		}
	}
	// a helper forwarding a deadline parameter: the call site is the arming site
	var fname string
	var recvExpr ast.Expr
	switch f := c.Fun.(type) {
	case *ast.Ident:
		fname = f.Name
	case *ast.SelectorExpr:
		fname = f.Sel.Name
		recvExpr = f.X
	}
	if fw, ok := x.forwarders[fname]; ok && fname != "SetReadDeadline" && fname != "SetDeadline" && fw.timeParam < len(c.Args) {
		recv := ""
		switch {
		case fw.connParam >= 0 && fw.connParam < len(c.Args):
			recv = x.canon(c.Args[fw.connParam])
		case fw.connParam < 0 && recvExpr != nil:
			recv = x.canon(recvExpr)
			if fw.connField != "" {
				recv += "." + fw.connField
			}
		}
		targ := c.Args[fw.timeParam]
		if recv != "" {
			if x.isZeroTime(targ) {
				return c05PEv{kind: "clear", recv: recv, line: line}, true
			}
			if id, ok := targ.(*ast.Ident); !ok || !x.params[id.Name] {
				return c05PEv{kind: "arm", recv: recv, line: line, arg: x.canon(targ)}, true
			}
		}
	}
	se, ok := c.Fun.(*ast.SelectorExpr)
	if !ok {
		return c05PEv{}, false
	}
	recv := x.canon(se.X)
	switch se.Sel.Name {
	case "SetReadDeadline", "SetDeadline":
		if len(c.Args) != 1 {
			return c05PEv{}, false
		}
		if x.isZeroTime(c.Args[0]) {
			return c05PEv{kind: "clear", recv: recv, line: line}, true
		}
		if id, ok := c.Args[0].(*ast.Ident); ok && x.params[id.Name] {
			return c05PEv{}, false // a wrapper/helper forwarding its own parameter: armed at ITS call sites
		}
		return c05PEv{kind: "arm", recv: recv, line: line, arg: x.canon(c.Args[0])}, true
	case "Close":
		if len(c.Args) == 0 {
			return c05PEv{kind: "close", recv: recv, line: line}, true
		}
	}
	return c05PEv{}, false
}

// c05CollectFile finds the zero-time variables and the forwarding helpers of one file.
func c05CollectFile(f *ast.File, zero map[string]bool, fw map[string]c05Forwarder, clearers map[string]int) {
	// package-level `var x time.Time` without initialiser (locals are handled per declaration, c05ZeroLocals)
	for _, d := range f.Decls {
		gd, ok := d.(*ast.GenDecl)
		if !ok || gd.Tok != token.VAR {
			continue
		}
		for _, sp := range gd.Specs {
			vs, ok := sp.(*ast.ValueSpec)
			if ok && len(vs.Values) == 0 && vs.Type != nil && types.ExprString(vs.Type) == "time.Time" {
				for _, nm := range vs.Names {
					zero[nm.Name] = true
				}
			}
		}
	}
	for _, d := range f.Decls {
		fd, ok := d.(*ast.FuncDecl)
		if !ok || fd.Body == nil || fd.Type.Params == nil {
			continue
		}
		var pnames []string
		for _, fl := range fd.Type.Params.List {
			for _, nm := range fl.Names {
				pnames = append(pnames, nm.Name)
			}
		}
		idx := func(name string) int {
			for i, p := range pnames {
				if p == name {
					return i
				}
			}
			return -1
		}
		recvName := ""
		if fd.Recv != nil && len(fd.Recv.List) == 1 && len(fd.Recv.List[0].Names) == 1 {
			recvName = fd.Recv.List[0].Names[0].Name
		}
		ast.Inspect(fd.Body, func(n ast.Node) bool {
			c, ok := n.(*ast.CallExpr)
			if !ok || len(c.Args) != 1 {
				return true
			}
			se, ok := c.Fun.(*ast.SelectorExpr)
			if !ok || (se.Sel.Name != "SetReadDeadline" && se.Sel.Name != "SetDeadline") {
				return true
			}
			// a plain function that resets the deadline of one of its parameters
			if cl, ok := c.Args[0].(*ast.CompositeLit); ok && len(cl.Elts) == 0 && types.ExprString(cl.Type) == "time.Time" && fd.Recv == nil {
				if cx, ok := se.X.(*ast.Ident); ok && idx(cx.Name) >= 0 {
					clearers[fd.Name.Name] = idx(cx.Name)
				}
				return true
			}
			tid, ok := c.Args[0].(*ast.Ident)
			if !ok || idx(tid.Name) < 0 {
				return true
			}
			switch cx := se.X.(type) {
			case *ast.Ident:
				if i := idx(cx.Name); i >= 0 {
					fw[fd.Name.Name] = c05Forwarder{connParam: i, timeParam: idx(tid.Name)}
				} else if cx.Name == recvName {
					fw[fd.Name.Name] = c05Forwarder{connParam: -1, timeParam: idx(tid.Name)}
				}
			case *ast.SelectorExpr:
				if id, ok := cx.X.(*ast.Ident); ok && id.Name == recvName {
					fw[fd.Name.Name] = c05Forwarder{connParam: -1, connField: cx.Sel.Name, timeParam: idx(tid.Name)}
				}
			}
			return true
		})
	}
}

// exprEvents lists the events of the calls inside n in source order; function literals are queued
// as units and not entered.
func (x *c05Extractor) exprEvents(unit string, n ast.Node) []c05PEv {
	var out []c05PEv
	if n == nil {
		return nil
	}
	ast.Inspect(n, func(m ast.Node) bool {
		switch v := m.(type) {
		case *ast.FuncLit:
			x.units = append(x.units, c05Unit{unit, v.Body})
			return false
		case *ast.CallExpr:
			// arguments first (they are evaluated before the call)
			for _, a := range v.Args {
				out = append(out, x.exprEvents(unit, a)...)
			}
			out = append(out, x.exprEvents(unit, v.Fun)...)
			if e, ok := x.callEvent(v); ok {
				out = append(out, e)
			}
			return false
		}
		return true
	})
	return out
}

func (x *c05Extractor) deferEvents(unit string, d *ast.DeferStmt) []c05PEv {
	var evs []c05PEv
	if fl, ok := d.Call.Fun.(*ast.FuncLit); ok {
		ast.Inspect(fl.Body, func(m ast.Node) bool {
			if c, ok := m.(*ast.CallExpr); ok {
				if e, ok := x.callEvent(c); ok {
					evs = append(evs, e)
				}
			}
			return true
		})
	} else if e, ok := x.callEvent(d.Call); ok {
		evs = append(evs, e)
	}
	var out []c05PEv
	for _, e := range evs {
		switch e.kind {
		case "clear":
			e.kind = "dclear"
			out = append(out, e)
		case "close":
			e.kind = "dclose"
			out = append(out, e)
		}
	}
	return out
}

func (x *c05Extractor) block(unit string, stmts []ast.Stmt, in []c05Path) []c05Path {
	cur := in
	for _, s := range stmts {
		var next []c05Path
		var open []c05Path
		for _, p := range cur {
			if p.done || p.broken {
				next = append(next, p)
			} else {
				open = append(open, p)
			}
		}
		if len(open) > 0 {
			next = append(next, x.stmt(unit, s, open)...)
		}
		cur = next
		if len(cur) > x.limit {
			cur = cur[:x.limit]
		}
	}
	return cur
}

func c05Each(ps []c05Path, evs []c05PEv) []c05Path {
	out := make([]c05Path, len(ps))
	for i, p := range ps {
		out[i] = p.with(evs...)
	}
	return out
}

func c05Unbreak(ps []c05Path) []c05Path {
	out := make([]c05Path, len(ps))
	for i, p := range ps {
		p.broken = false
		out[i] = p
	}
	return out
}

// armFailedIf recognises `if err := X.SetReadDeadline(<non-zero>); err != nil { … }`.
func (x *c05Extractor) armFailedIf(s *ast.IfStmt) (c05PEv, bool) {
	as, ok := s.Init.(*ast.AssignStmt)
	if !ok || len(as.Lhs) != 1 || len(as.Rhs) != 1 {
		return c05PEv{}, false
	}
	lhs, ok := as.Lhs[0].(*ast.Ident)
	if !ok {
		return c05PEv{}, false
	}
	call, ok := as.Rhs[0].(*ast.CallExpr)
	if !ok {
		return c05PEv{}, false
	}
	ev, ok := x.callEvent(call)
	if !ok || ev.kind != "arm" {
		return c05PEv{}, false
	}
	be, ok := s.Cond.(*ast.BinaryExpr)
	if !ok || be.Op != token.NEQ {
		return c05PEv{}, false
	}
	l, ok1 := be.X.(*ast.Ident)
	r, ok2 := be.Y.(*ast.Ident)
	if !ok1 || !ok2 || l.Name != lhs.Name || r.Name != "nil" {
		return c05PEv{}, false
	}
	return ev, true
}

func (x *c05Extractor) stmt(unit string, s ast.Stmt, in []c05Path) []c05Path {
	switch v := s.(type) {
	case *ast.BlockStmt:
		return x.block(unit, v.List, in)
	case *ast.LabeledStmt:
		return x.stmt(unit, v.Stmt, in)
	case *ast.ReturnStmt:
		out := c05Each(in, x.exprEvents(unit, v))
		for i := range out {
			out[i].done = true
		}
		return out
	case *ast.BranchStmt:
		out := c05Each(in, nil)
		for i := range out {
			out[i].broken = true
		}
		return out
	case *ast.DeferStmt:
		return c05Each(in, x.deferEvents(unit, v))
	case *ast.GoStmt:
		return in
	case *ast.IfStmt:
		if ev, ok := x.armFailedIf(v); ok {
			failed := ev
			failed.armFailed = true
			thenP := x.block(unit, v.Body.List, c05Each(in, []c05PEv{failed}))
			elseIn := c05Each(in, []c05PEv{ev})
			if v.Else != nil {
				return append(thenP, x.stmt(unit, v.Else, elseIn)...)
			}
			return append(thenP, elseIn...)
		}
		pre := c05Each(in, append(x.exprEvents(unit, v.Init), x.exprEvents(unit, v.Cond)...))
		thenP := x.block(unit, v.Body.List, pre)
		if v.Else != nil {
			return append(thenP, x.stmt(unit, v.Else, pre)...)
		}
		return append(thenP, pre...)
	case *ast.ForStmt:
		pre := c05Each(in, append(x.exprEvents(unit, v.Init), x.exprEvents(unit, v.Cond)...))
		once := c05Unbreak(x.block(unit, v.Body.List, pre))
		if v.Cond == nil {
			return once
		}
		return append(once, pre...)
	case *ast.RangeStmt:
		pre := c05Each(in, x.exprEvents(unit, v.X))
		once := c05Unbreak(x.block(unit, v.Body.List, pre))
		return append(once, pre...)
	case *ast.SwitchStmt:
		pre := c05Each(in, append(x.exprEvents(unit, v.Init), x.exprEvents(unit, v.Tag)...))
		return x.clauses(unit, v.Body, pre, true)
	case *ast.TypeSwitchStmt:
		pre := c05Each(in, append(x.exprEvents(unit, v.Init), x.exprEvents(unit, v.Assign)...))
		return x.clauses(unit, v.Body, pre, true)
	case *ast.SelectStmt:
		return x.clauses(unit, v.Body, in, false)
	default:
		return c05Each(in, x.exprEvents(unit, s))
	}
}

func (x *c05Extractor) clauses(unit string, body *ast.BlockStmt, pre []c05Path, implicitSkip bool) []c05Path {
	var out []c05Path
	hasDefault := false
	for _, c := range body.List {
		switch cc := c.(type) {
		case *ast.CaseClause:
			if cc.List == nil {
				hasDefault = true
			}
			var evs []c05PEv
			for _, e := range cc.List {
				evs = append(evs, x.exprEvents(unit, e)...)
			}
			out = append(out, c05Unbreak(x.block(unit, cc.Body, c05Each(pre, evs)))...)
		case *ast.CommClause:
			if cc.Comm == nil {
				hasDefault = true
			}
			var evs []c05PEv
			if cc.Comm != nil {
				evs = x.exprEvents(unit, cc.Comm)
			}
			out = append(out, c05Unbreak(x.block(unit, cc.Body, c05Each(pre, evs)))...)
		}
	}
	if implicitSkip && !hasDefault {
		out = append(out, pre...)
	}
	return out
}

type c05Row struct {
	file, fn, recv, arg string
	line                int
	cleared             bool
	armFailed           bool
	sig                 string
}

func c05FuncName(fd *ast.FuncDecl) string {
	if fd.Recv != nil && len(fd.Recv.List) == 1 {
		t := fd.Recv.List[0].Type
		if st, ok := t.(*ast.StarExpr); ok {
			t = st.X
		}
		return types.ExprString(t) + "." + fd.Name.Name
	}
	return fd.Name.Name
}

func c05ContainsArm(x *c05Extractor, n ast.Node) bool {
	found := false
	ast.Inspect(n, func(m ast.Node) bool {
		if c, ok := m.(*ast.CallExpr); ok {
			if e, ok := x.callEvent(c); ok && e.kind == "arm" {
				found = true
			}
		}
		return !found
	})
	return found
}

func c05ExtractRows(repo string) ([]c05Row, error) {
	var rows []c05Row
	zero := map[string]bool{}
	forwarders := map[string]c05Forwarder{}
	clearers := map[string]int{}
	// zero-time variables, forwarding and clearing helpers may live in any file of the two packages; a probe
	// that was moved to another file of its package is still a probe
	files := append([]string(nil), c05AnchorFiles...)
	inList := map[string]bool{}
	for _, f := range files {
		inList[f] = true
	}
	for _, dir := range []string{"control", "component/sniffing"} {
		ents, err := os.ReadDir(filepath.Join(repo, dir))
		if err != nil {
			return nil, err
		}
		for _, e := range ents {
			name := e.Name()
			if e.IsDir() || !strings.HasSuffix(name, ".go") || strings.HasSuffix(name, "_test.go") {
				continue
			}
			rel := dir + "/" + name
			f, err := parser.ParseFile(token.NewFileSet(), filepath.Join(repo, rel), nil, 0)
			if err != nil {
				continue // build-tagged variants that do not parse are not ours
			}
			c05CollectFile(f, zero, forwarders, clearers)
			if !inList[rel] {
				for _, d := range f.Decls {
					if fd, ok := d.(*ast.FuncDecl); ok && c05ProbeFuncs[fd.Name.Name] {
						files = append(files, rel)
						inList[rel] = true
						break
					}
				}
			}
		}
	}
	for _, rel := range files {
		if _, err := os.Stat(filepath.Join(repo, rel)); err != nil {
			continue // an anchor file that was merged into another one
		}
		fset := token.NewFileSet()
		f, err := parser.ParseFile(fset, filepath.Join(repo, rel), nil, 0)
		if err != nil {
			return nil, err
		}
		for _, d := range f.Decls {
			fd, ok := d.(*ast.FuncDecl)
			if !ok || fd.Body == nil {
				continue
			}
			x := &c05Extractor{fset: fset, limit: 4096, params: map[string]bool{}, forwarders: forwarders, zeroVars: zero,
				clearers: clearers, locals: c05Locals(fd)}
			x.zeroLocals, x.assigned = c05ZeroLocals(fd)
			if fd.Type.Params != nil {
				for _, fl := range fd.Type.Params.List {
					for _, n := range fl.Names {
						x.params[n.Name] = true
					}
				}
			}
			if !c05ContainsArm(x, fd.Body) {
				continue
			}
			name := c05FuncName(fd)
			x.units = []c05Unit{{name, fd.Body}}
			for i := 0; i < len(x.units); i++ { // units grow while walking
				u := x.units[i]
				paths := x.block(u.name, u.body.List, []c05Path{{}})
				seen := map[string]bool{}
				for _, p := range paths {
					for ai, a := range p.evs {
						if a.kind != "arm" {
							continue
						}
						cleared := false
						sig := []string{}
						for j, e := range p.evs {
							if e.recv != a.recv {
								continue
							}
							if (e.kind == "dclear" || e.kind == "dclose") || (j > ai && (e.kind == "clear" || e.kind == "close")) {
								cleared = true
							}
							if j > ai || e.kind == "dclear" || e.kind == "dclose" {
								sig = append(sig, fmt.Sprintf("%s@%d", e.kind, e.line))
							}
						}
						exit := "end"
						if p.done {
							exit = "return"
						}
						r := c05Row{file: rel, fn: u.name, recv: a.recv, arg: a.arg, line: a.line, cleared: cleared, armFailed: a.armFailed,
							sig: strings.Join(sig, ",") + ";" + exit}
						key := fmt.Sprintf("%s|%s|%d|%s|%v|%s", r.file, r.fn, r.line, r.recv, r.armFailed, r.sig)
						if !seen[key] {
							seen[key] = true
							rows = append(rows, r)
						}
					}
				}
			}
		}
	}
	sort.SliceStable(rows, func(i, j int) bool {
		a, b := rows[i], rows[j]
		if a.file != b.file {
			return a.file < b.file
		}
		if a.line != b.line {
			return a.line < b.line
		}
		return a.sig < b.sig
	})
	return rows, nil
}

func c05LeanBool(b bool) string {
	if b {
		return "true"
	}
	return "false"
}

func TestVerifC05Paths(t *testing.T) {
	repo := os.Getenv("VERIF_REPO")
	if repo == "" {
		repo = "/repo"
	}
	rows, err := c05ExtractRows(repo)
	if err != nil {
		t.Fatal(err)
	}
	var sb strings.Builder
	sb.WriteString("import DaeVerif.C05.Model\n")
	sb.WriteString("/-! GENERATED by harness/overlay/control/c05_paths_test.go from the repository under check — do not edit.\n")
	sb.WriteString("One row per (arming call, distinct continuation) : file, function, line of the arming call, receiver, deadline expression,\n")
	sb.WriteString("path number, cleared-or-closed on this path, arming call itself failed. -/\n")
	sb.WriteString("namespace DaeVerif.C05.Gen\nopen DaeVerif.C05\n")
	sb.WriteString("def deadlinePaths : List PathRow := [\n")
	var sum strings.Builder
	for i, r := range rows {
		sep := ","
		if i == len(rows)-1 {
			sep = ""
		}
		fmt.Fprintf(&sb, "  ⟨%q, %q, %d, %q, %q, %s, %s, %d, %s, %s⟩%s\n", r.file, r.fn, r.line, r.recv, r.arg,
			c05LeanBool(strings.HasPrefix(r.fn, "relayCore.")), c05LeanBool(strings.Contains(r.arg, "halfCloseTimeout")),
			i, c05LeanBool(r.cleared), c05LeanBool(r.armFailed), sep)
		fmt.Fprintf(&sum, "%s %s:%d recv=%s arg=%s cleared=%v armFailed=%v path=[%s]\n", r.fn, r.file, r.line, r.recv, r.arg, r.cleared, r.armFailed, r.sig)
	}
	sb.WriteString("]\nend DaeVerif.C05.Gen\n")
	if err := os.WriteFile(filepath.Join(VOutDir(), "c05_paths.lean"), []byte(sb.String()), 0o644); err != nil {
		t.Fatal(err)
	}
	_ = os.WriteFile(filepath.Join(VOutDir(), "c05_paths.txt"), []byte(sum.String()), 0o644)
}

// c05Locals: locals of one declaration that are assigned exactly once with `:=` from a type assertion, a
// parenthesised expression or (for deadline expressions) any call — name -> printed right-hand side.
func c05Locals(fd *ast.FuncDecl) map[string]string {
	count := map[string]int{}
	val := map[string]string{}
	ast.Inspect(fd.Body, func(n ast.Node) bool {
		as, ok := n.(*ast.AssignStmt)
		if !ok {
			return true
		}
		for i, l := range as.Lhs {
			id, ok := l.(*ast.Ident)
			if !ok || id.Name == "_" {
				continue
			}
			count[id.Name]++
			if as.Tok == token.DEFINE && len(as.Lhs) == len(as.Rhs) {
				switch r := as.Rhs[i].(type) {
				case *ast.TypeAssertExpr:
					val[id.Name] = types.ExprString(r.X)
				case *ast.ParenExpr:
					val[id.Name] = types.ExprString(r.X)
				case *ast.CallExpr:
					val[id.Name] = types.ExprString(r)
				}
			} else if as.Tok == token.DEFINE && len(as.Rhs) == 1 && i == 0 {
				// tcp, ok := conn.(*net.TCPConn)
				if ta, isTA := as.Rhs[0].(*ast.TypeAssertExpr); isTA {
					val[id.Name] = types.ExprString(ta.X)
				}
			}
		}
		return true
	})
	out := map[string]string{}
	for k, v := range val {
		if count[k] == 1 {
			out[k] = v
		}
	}
	return out
}

// c05ZeroLocals: `var x time.Time` declared inside fd and never assigned afterwards; and every assigned name.
func c05ZeroLocals(fd *ast.FuncDecl) (map[string]bool, map[string]bool) {
	decl := map[string]bool{}
	assigned := map[string]bool{}
	ast.Inspect(fd.Body, func(n ast.Node) bool {
		switch v := n.(type) {
		case *ast.ValueSpec:
			if len(v.Values) == 0 && v.Type != nil && types.ExprString(v.Type) == "time.Time" {
				for _, nm := range v.Names {
					decl[nm.Name] = true
				}
			}
		case *ast.AssignStmt:
			for _, l := range v.Lhs {
				if id, ok := l.(*ast.Ident); ok {
					assigned[id.Name] = true
				}
			}
		}
		return true
	})
	for k := range decl {
		if assigned[k] {
			delete(decl, k)
		}
	}
	return decl, assigned
}
