package control

// C05 correspondence harness, part 6: the two kernel-facing loops under SCRIPTED syscall results.
//
//   - c05wv: relayBuildWriteSegments + relayWritevAll (+ relayNonEmptySegments, relayAdvanceSegments) — the
//     production functions themselves, with relayWritevFunc (the package's own hook variable) replaced by a
//     scripted writev and a syscall.RawConn whose Write re-invokes the closure as internal/poll does after a wait:
//     partial counts (0, 1, first segment ± 1, all - 1, all, more than offered), EINTR, EAGAIN with a
//     succeeding / failing wait, hard errors, at every call.  Also relayAdvanceSegments alone at its boundaries.
//   - c05sp: relaySpliceCopyExact, regenerated from the source under check by translators/c05splice with the two
//     splice helpers replaced by hooks (everything else — accounting, pipe pool, returns — is production text):
//     partial counts on both legs, EOF / errors at any call (also together with data), the context cancelled
//     during any call; after every run the real pipe pool is inspected (a pipe must be pooled only when empty).
//
// Both are compared line by line with the Lean model (`wv`, `adv`, `sp` ops), and — independently of the model —
// the destination must hold a prefix of the source, all of it on success (LOSS-OR-DUP otherwise).

import (
	"bytes"
	"context"
	"errors"
	"fmt"
	"io"
	"net"
	"strings"
	"syscall"
	"testing"
)

// ------------------------------------------------------------------ c05wv

var errC05Wait = errors.New("c05: wait for writability failed (conn closed)")

// c05FakeRaw: Write calls the closure again after every "wait" (closure returned false), as poll.FD.RawWrite does.
type c05FakeRaw struct {
	waitFails *bool
}

func (r *c05FakeRaw) Control(f func(fd uintptr)) error { f(^uintptr(0)); return nil }
func (r *c05FakeRaw) Read(f func(fd uintptr) bool) error {
	for !f(^uintptr(0)) {
	}
	return nil
}
func (r *c05FakeRaw) Write(f func(fd uintptr) bool) error {
	for {
		if f(^uintptr(0)) {
			return nil
		}
		if *r.waitFails {
			return errC05Wait
		}
	}
}

func c05ChunkToks(cs []c05Chunk) string {
	if len(cs) == 0 {
		return "-"
	}
	t := make([]string, len(cs))
	for i, c := range cs {
		t[i] = c.tok()
	}
	return strings.Join(t, ",")
}

func c05Lens(segs [][]byte) string {
	if len(segs) == 0 {
		return "-"
	}
	t := make([]string, len(segs))
	for i, s := range segs {
		t[i] = fmt.Sprint(len(s))
	}
	return strings.Join(t, ",")
}

func c05GenSeg(r *VRand) c05Chunk {
	switch r.Intn(8) {
	case 0:
		return c05Lit(nil) // an empty segment
	case 1:
		return c05Chunk{gen: true, seed: r.Intn(256), len: 1}
	case 2:
		return c05Chunk{gen: true, seed: r.Intn(256), len: 16}
	case 3:
		return c05Chunk{gen: true, seed: r.Intn(256), len: r.Range(4000, 4100)}
	default:
		return c05Chunk{gen: true, seed: r.Intn(256), len: r.Range(2, 300)}
	}
}

func c05RunWv(r *VRand, stats *VStats) (op, impl string) {
	// segments: what TakeRelaySegments may return (production wrappers: one; the function supports many — more than
	// the inline scratch of 8 takes the allocating branch), body: what the pending read returned
	nseg := []int{0, 1, 1, 1, 2, 3, 7, 8, 9, 12}[r.Intn(10)]
	var segC []c05Chunk
	for i := 0; i < nseg; i++ {
		segC = append(segC, c05GenSeg(r))
	}
	var bodyC *c05Chunk
	if r.Chance(0.6) {
		c := c05Chunk{gen: true, seed: r.Intn(256), len: []int{1, 2, 1460, 32768, r.Range(1, 40000)}[r.Intn(5)]}
		bodyC = &c
	}
	segs := make([][]byte, len(segC))
	var all []byte
	for i, c := range segC {
		segs[i] = c.bytes()
		all = append(all, segs[i]...)
	}
	var body []byte
	bodyTok := "-"
	if bodyC != nil {
		body = bodyC.bytes()
		bodyTok = bodyC.tok()
		all = append(all, body...)
	}
	if nseg > relayGatherInlineSegmentCap {
		stats.Inc("wv.more-segments-than-inline-scratch")
	}
	var scratch [relayGatherInlineSegmentCap + 1][]byte
	ws := relayBuildWriteSegments(segs, body, &scratch)
	built := c05Lens(ws)

	var sink []byte
	var sched []string
	waitFails := false
	calls := 0
	orig := relayWritevFunc
	defer func() { relayWritevFunc = orig }()
	relayWritevFunc = func(_ int, iovs [][]byte) (int, error) {
		calls++
		total := 0
		for _, v := range iovs {
			total += len(v)
		}
		first := 0
		if len(iovs) > 0 {
			first = len(iovs[0])
		}
		n := total
		code := byte('o')
		if calls <= 40 {
			switch r.Intn(12) {
			case 0:
				n = 0
			case 1:
				n = 1
			case 2:
				n = first
			case 3:
				n = first + 1
			case 4:
				n = max(first-1, 0)
			case 5:
				n = max(total-1, 0)
			case 6:
				n = total + r.Range(1, 9) // more than offered: clamped (a kernel never does it; the model clamps too)
			case 7, 8:
				n = r.Intn(total + 1)
			}
			switch x := r.Intn(100); {
			case x < 12:
				code = 'i'
			case x < 24:
				code = 'a'
			case x < 28:
				code = 'A'
			case x < 34:
				code = 'x'
			}
			if code != 'o' && r.Bool() {
				n = 0 // errors usually come without data
			}
		}
		sched = append(sched, fmt.Sprintf("%d%c", n, code))
		stats.Inc("wv.step." + string(code))
		k := min(n, total)
		if k < total && k > 0 {
			stats.Inc("wv.step.partial")
		}
		left := k
		for _, v := range iovs {
			if left == 0 {
				break
			}
			m := min(left, len(v))
			sink = append(sink, v[:m]...)
			left -= m
		}
		switch code {
		case 'i':
			return k, syscall.EINTR
		case 'a':
			return k, syscall.EAGAIN
		case 'A':
			waitFails = true
			return k, syscall.EWOULDBLOCK
		case 'x':
			return k, syscall.EPIPE
		}
		return k, nil
	}
	var written int
	var err error
	crash := VRecover(func() string {
		written, err = relayWritevAll(&c05FakeRaw{waitFails: &waitFails}, ws)
		return ""
	})
	st := "-"
	if len(sched) > 0 {
		st = strings.Join(sched, ",")
	}
	op = fmt.Sprintf("wv segs=%s body=%s sched=%s", c05ChunkToks(segC), bodyTok, st)
	if crash != "" {
		return op, crash
	}
	end := "err"
	switch {
	case err == nil:
		end = "ok"
	case errors.Is(err, io.ErrShortWrite):
		end = "short"
	case errors.Is(err, errC05Wait):
		end = "wait"
	}
	stats.Inc("wv.end." + end)
	impl = fmt.Sprintf("built=%s sink=%s n=%d end=%s", built, c05Digest(sink), written, end)
	// property-level oracle, independent of the model
	if !bytes.HasPrefix(all, sink) || (err == nil && len(sink) != len(all)) || written != len(sink) {
		impl += fmt.Sprintf(" LOSS-OR-DUP(gather-write: the socket received %d bytes, written=%d, offered %d; prefix=%v)", len(sink), written, len(all), bytes.HasPrefix(all, sink))
	}
	return op, impl
}

func c05RunAdv(r *VRand, stats *VStats) (op, impl string) {
	nseg := r.Range(0, 6)
	var segC []c05Chunk
	total := 0
	for i := 0; i < nseg; i++ {
		c := c05GenSeg(r)
		if c.gen && c.len > 400 {
			c.len = r.Range(1, 400)
		}
		segC = append(segC, c)
		total += len(c.bytes())
	}
	first := 0
	if nseg > 0 {
		first = len(segC[0].bytes())
	}
	n := []int{0, 1, first, first + 1, max(first-1, 0), total, total + 1, max(total-1, 0), r.Intn(total + 2)}[r.Intn(9)]
	segs := make([][]byte, len(segC))
	for i, c := range segC {
		segs[i] = append([]byte(nil), c.bytes()...)
	}
	op = fmt.Sprintf("adv segs=%s n=%d", c05ChunkToks(segC), n)
	var out [][]byte
	if crash := VRecover(func() string { out = relayAdvanceSegments(segs, n); return "" }); crash != "" {
		return op, crash
	}
	stats.Inc("adv.case")
	return op, fmt.Sprintf("lens=%s d=%s", c05Lens(out), c05Digest(bytes.Join(out, nil)))
}

func TestVerifC05Wv(t *testing.T) {
	r := NewVRand(VSeed() + 313)
	st := VOpenStream("c05wv")
	defer st.Close()
	stats := NewVStats()
	n := 2500
	if VThorough() {
		n = 40000
	}
	for i := 0; i < n; i++ {
		op, impl := c05RunWv(r, stats)
		st.Emit(op, impl)
		if i < 3 {
			stats.Sample(op + " => " + impl)
		}
		if i%3 == 0 {
			op, impl := c05RunAdv(r, stats)
			st.Emit(op, impl)
		}
	}
	stats.Write("c05wv")
}

// ------------------------------------------------------------------ c05sp

var c05SpIn, c05SpOut func(maxBytes int) (int, error)

func c05SpliceInHook(_ syscall.RawConn, _ int, maxBytes int) (int, error)  { return c05SpIn(maxBytes) }
func c05SpliceOutHook(_ syscall.RawConn, _ int, maxBytes int) (int, error) { return c05SpOut(maxBytes) }

var errC05Splice = errors.New("c05: splice failed (scripted)")

func c05DrainPipePool() (n int) {
	for {
		select {
		case p := <-relaySplicePipePool:
			p.close()
			n++
		default:
			return n
		}
	}
}

func c05RunSplice(r *VRand, stats *VStats, a, b *net.TCPConn) (op, impl string) {
	srcC := c05Chunk{gen: true, seed: r.Intn(256), len: []int{0, 1, 2, 100, 5000, 70000, r.Range(1, 3000), r.Range(1, 150000), r.Range(1, 150000)}[r.Intn(9)]}
	if r.Chance(0.04) {
		srcC.len = r.Range(262143, 262146) // around production's splice step (the hook clamps to the max it is given)
	}
	src := srcC.bytes()
	src0 := src
	var pipe, dst []byte
	var sched []string
	ctx, cancel := context.WithCancel(context.Background())
	defer cancel()
	calls := 0
	mark := func(n int, code byte) {
		s := fmt.Sprintf("%d%c", n, code)
		if r.Chance(0.03) {
			cancel() // shutdown / reload while this call is in progress
			s += "!"
			stats.Inc("sp.step.cancelled-during-call")
		}
		sched = append(sched, s)
	}
	c05SpIn = func(maxBytes int) (int, error) {
		calls++
		n := min(len(src), maxBytes)
		code := byte('o')
		if calls <= 80 {
			switch r.Intn(8) {
			case 0:
				n = min(n, 1)
			case 1:
				n = min(n, r.Range(1, 70000))
			case 2:
				n = r.Intn(n + 1)
			case 3:
				if r.Chance(0.2) {
					n = 0 // (0, nil): treated as a clean end by the loop
				}
			}
			if len(src) == 0 {
				code = 'e'
			}
			switch x := r.Intn(100); {
			case x < 5:
				code = 'x'
				if r.Bool() {
					n = 0
				}
			case x < 8:
				code = 'e' // EOF reported together with data / before the source is drained
			}
		} else if len(src) == 0 {
			code = 'e'
		}
		// the EFFECTIVE count is recorded: production's step limit (relaySpliceMaxStep) may change freely
		pipe = append(pipe, src[:n]...)
		src = src[n:]
		mark(n, code)
		stats.Inc("sp.in." + string(code))
		switch code {
		case 'e':
			return n, io.EOF
		case 'x':
			return n, errC05Splice
		}
		return n, nil
	}
	c05SpOut = func(maxBytes int) (int, error) {
		calls++
		n := maxBytes
		code := byte('o')
		if calls <= 80 {
			switch r.Intn(9) {
			case 0:
				n = 1
			case 1:
				n = max(maxBytes-1, 0)
			case 2:
				n = maxBytes + r.Range(1, 5) // clamped by the pipe content (and by the model: min n inPipe)
			case 3, 4:
				n = r.Intn(maxBytes + 1)
			case 5:
				if r.Chance(0.15) {
					n = 0 // a successful splice of zero bytes: io.ErrShortWrite
				}
			}
			switch x := r.Intn(100); {
			case x < 6:
				code = 'x'
				if r.Bool() {
					n = 0
				}
			case x < 8:
				code = 'e'
			}
		}
		k := min(n, maxBytes, len(pipe))
		if k < maxBytes && k > 0 {
			stats.Inc("sp.out.partial")
		}
		dst = append(dst, pipe[:k]...)
		pipe = pipe[k:]
		mark(n, code)
		stats.Inc("sp.out." + string(code))
		switch code {
		case 'e':
			return k, io.EOF
		case 'x':
			return k, errC05Splice
		}
		return k, nil
	}
	c05DrainPipePool()
	var written, recorded int64
	var err error
	crash := VRecover(func() string {
		written, err = c05GenSpliceCopyExact(ctx, a, b, func(n int64) { recorded += n })
		return ""
	})
	pooled := c05DrainPipePool()
	st := "-"
	if len(sched) > 0 {
		st = strings.Join(sched, ",")
	}
	op = fmt.Sprintf("sp src=%s sched=%s", srcC.tok(), st)
	if srcC.len == 0 {
		op = fmt.Sprintf("sp src=- sched=%s", st)
	}
	if crash != "" {
		return op, crash
	}
	end := "err"
	switch {
	case err == nil:
		end = "ok"
	case errors.Is(err, io.ErrShortWrite):
		end = "short"
	}
	stats.Inc("sp.end." + end)
	if len(pipe) > 0 {
		stats.Inc("sp.ended-with-bytes-in-the-pipe")
	}
	impl = fmt.Sprintf("dst=%s n=%d end=%s pooled=%s inpipe=%d", c05Digest(dst), written, end, c05B(pooled > 0), len(pipe))
	if recorded != written {
		impl += fmt.Sprintf(" recorded=%d-but-written=%d", recorded, written)
	}
	if !bytes.HasPrefix(src0, dst) || int(written) != len(dst) || (err == nil && len(pipe) != 0) {
		impl += fmt.Sprintf(" LOSS-OR-DUP(splice-loop: destination got %d bytes, written=%d, %d left in the pipe, err=%v)", len(dst), written, len(pipe), err)
	}
	if pooled > 0 && len(pipe) > 0 {
		impl += fmt.Sprintf(" LOSS-OR-DUP(a splice pipe still holding %d bytes went back to the shared pool: the next connection starts with them)", len(pipe))
	}
	return op, impl
}

func TestVerifC05Splice(t *testing.T) {
	st := VOpenStream("c05sp")
	defer st.Close()
	stats := NewVStats()
	if !c05SpliceGenAvailable {
		stats.Inc("sp.generated-loop-unavailable")
		stats.Write("c05sp")
		return
	}
	r := NewVRand(VSeed() + 517)
	a, b := c05TCPPair(t) // only so that SyscallConn() succeeds; no byte ever crosses them
	defer a.Close()
	defer b.Close()
	n := 1500
	if VThorough() {
		n = 30000
	}
	for i := 0; i < n; i++ {
		op, impl := c05RunSplice(r, stats, a, b)
		st.Emit(op, impl)
		if i < 3 {
			stats.Sample(op + " => " + impl)
		}
	}
	stats.Write("c05sp")
}
