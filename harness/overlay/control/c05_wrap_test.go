package control

// C05 correspondence harness, part 3: the wrappers themselves.  For prefixedConn (built by the REAL
// prefetchForTcpSniff, and white-box with longer prefixes / offsets), bufioConn (real bufio fill +
// Discard), ConnSniffer (built by the REAL prefetch + SniffTcp; also with a latched RST) and the bare
// conn, over a scripted in-memory inner conn, drive arbitrary interleavings of
//
//	r<n>  Read with a buffer of n bytes, n ∈ {0, 1, 2, L-1, L, L+1, 512, 32 KiB, random} (L = bytes held)
//	t/p   TakeRelaySegments / TakeRelayPrefix
//	c     the wrapper's own CopyRelayRemainder        (ends the sequence)
//	w     WriteTo (ConnSniffer) / io.Copy             (ends the sequence)
//	d     drain with 32 KiB reads                     (ends the sequence)
//
// and compare every returned chunk with the Lean model's Stack.read / Stack.take / Stack.copyRemainder /
// Stack.writeTo (`wrap` ops) — the functions read_conserves, take_then_remainder and
// interleaving_conserves are about.  Independently of the model: when the sequence ran to a clean end
// of stream and CopyRelayRemainder was only used as the engine uses it (nothing left in the wrapper),
// the concatenation of everything handed out must equal the bytes fed in (LOSS/DUP otherwise).

import (
	"bufio"
	"bytes"
	"fmt"
	"io"
	"net"
	"strings"
	"testing"
	"time"

	"github.com/daeuniverse/dae/component/sniffing"
)

type c05WrapCase struct {
	stack   string // plain | pre | buf | snf
	held    []byte // what the wrapper holds before the first action
	poison  bool
	chunks  []c05Chunk // what the inner conn still delivers
	eof     bool
	acts    []string
	realPre bool // prefixedConn built by prefetchForTcpSniff (else white-box)
	skipped int
	lwt     bool // the inner conn returns its last segment together with EOF / the error
	noDl    bool // the inner conn has no deadline support: the sniffer takes readStreamOnceAsync
}

func (c *c05WrapCase) op() string {
	st := "plain"
	switch c.stack {
	case "pre":
		st = "pre:" + c05Lit(c.held).tok()
	case "buf":
		st = "buf:" + c05Lit(c.held).tok()
	case "snf":
		st = "snf:" + c05Lit(c.held).tok() + ":" + c05B(c.poison)
	}
	toks := make([]string, len(c.chunks))
	for i, ch := range c.chunks {
		toks[i] = ch.tok()
	}
	cs := "-"
	if len(toks) > 0 {
		cs = strings.Join(toks, ",")
	}
	term := "err"
	if c.eof {
		term = "eof"
	}
	if c.lwt {
		term += "+"
	}
	return fmt.Sprintf("wrap %s %s %s %s", st, term, cs, strings.Join(c.acts, ","))
}

type c05Sink struct{ bytes.Buffer }

func c05ErrTok(err error) string {
	switch {
	case err == nil:
		return "-"
	case err == io.EOF:
		return "E"
	default:
		return "X"
	}
}

func c05RunWrap(c *c05WrapCase) string {
	w := &c05World{t0: time.Now()}
	peer, side := c05Pair(w, "peer", "src")
	side.local = &net.TCPAddr{IP: net.IPv4(127, 0, 0, 1), Port: 1}
	side.remote = &net.TCPAddr{IP: net.IPv4(127, 0, 0, 1), Port: 2}
	side.rd.lastWithTerm = c.lwt
	side.noDeadline = c.noDl
	var fed []byte
	// ---- feed: everything is queued up front, so no read ever blocks
	queue := func(b []byte) {
		if len(b) > 0 {
			_, _ = peer.Write(b)
		}
	}
	finish := func() {
		if c.eof {
			_ = peer.CloseWrite()
		} else {
			peer.Reset()
		}
	}
	var src net.Conn
	switch c.stack {
	case "plain":
		src = side
	case "pre":
		if c.realPre {
			// the real prefetch takes min(16, first segment): a full-size prefix may share its segment
			// with the first chunk, a shorter one is a segment of its own
			first := append([]byte(nil), c.held...)
			if len(c.held) == tcpSniffPrefetchBytes && len(c.chunks) > 0 {
				first = append(first, c.chunks[0].bytes()...)
			}
			queue(first)
		} else {
			src = &prefixedConn{Conn: side, prefix: append(c05GenBytes(77, c.skipped), c.held...), off: c.skipped}
		}
	case "buf", "snf":
		queue(append(c05GenBytes(77, c.skipped), c.held...))
	}
	rest := c.chunks
	if c.stack == "pre" && c.realPre && len(c.held) == tcpSniffPrefetchBytes && len(rest) > 0 {
		rest = rest[1:]
	}
	if !(c.stack == "snf" && c.poison) {
		for _, ch := range rest {
			queue(ch.bytes())
		}
	}
	finish()
	fed = append(fed, c.held...)
	for _, ch := range c.chunks {
		fed = append(fed, ch.bytes()...)
	}
	switch c.stack {
	case "pre":
		if c.realPre {
			probe, pre, ready, err := prefetchForTcpSniff(side, 60*time.Second, tcpSniffPrefetchBytes)
			if err != nil || !ready || !bytes.Equal(pre, c.held) {
				return fmt.Sprintf("harness:prefetch ready=%v err=%v got=%d want=%d", ready, err, len(pre), len(c.held))
			}
			src = probe
		}
	case "buf":
		br := bufio.NewReader(side)
		if n := c.skipped + len(c.held); n > 0 {
			if _, err := br.Peek(n); err != nil {
				return "harness:peek:" + err.Error()
			}
			_, _ = br.Discard(c.skipped)
		}
		if br.Buffered() != len(c.held) {
			return fmt.Sprintf("harness:buffered=%d want %d", br.Buffered(), len(c.held))
		}
		src = &bufioConn{Conn: side, reader: br}
	case "snf":
		probe, _, ready, err := prefetchForTcpSniff(side, 60*time.Second, tcpSniffPrefetchBytes)
		if err != nil || !ready {
			return "harness:prefetch"
		}
		// generous wall-clock window: everything is queued, no read waits; a loaded machine must not turn
		// this into the sniffer's timeout path
		sn := sniffing.NewConnSniffer(probe, 60*time.Second)
		defer func() { _ = sn.Close() }()
		_, serr := sn.SniffTcp()
		if c.poison == (serr == nil) {
			return fmt.Sprintf("harness:sniff poison=%v err=%v", c.poison, serr)
		}
		src = sn
	}

	var outs []string
	var handed []byte
	inContract := true
	took := false
	cleanEnd := false
	for _, a := range c.acts {
		switch a[0] {
		case 'r':
			var n int
			fmt.Sscanf(a[1:], "%d", &n)
			buf := make([]byte, n)
			k, err := src.Read(buf)
			handed = append(handed, buf[:k]...)
			outs = append(outs, c05Digest(buf[:k])+"/"+c05ErrTok(err))
			if err == io.EOF {
				cleanEnd = true
			}
		case 't', 'p':
			var got []byte
			if a == "t" {
				if ss, ok := src.(relaySegmentSource); ok {
					for _, s := range ss.TakeRelaySegments() {
						got = append(got, s...)
					}
				}
			} else if ps, ok := src.(relayPrefixSource); ok {
				got = append(got, ps.TakeRelayPrefix()...)
			}
			took = true
			handed = append(handed, got...)
			outs = append(outs, c05Digest(got))
		case 'c', 'w', 'd':
			var sink c05Sink
			var err error
			buf := make([]byte, relayCopyBufferSize)
			switch {
			case a == "c" && c.stack == "pre":
				pc := src.(*prefixedConn)
				if pc.off < len(pc.prefix) {
					inContract = false // the engine only calls it after TakeRelaySegments
				}
				_, err = pc.CopyRelayRemainder(&sink, buf, nil)
			case a == "c" && c.stack == "buf":
				_, err = src.(*bufioConn).CopyRelayRemainder(&sink, buf, nil)
			case a == "c" && c.stack == "snf":
				if !took && len(handed) < len(c.held) {
					inContract = false
				}
				_, err = src.(*sniffing.ConnSniffer).CopyRelayRemainder(&sink, buf)
			case a == "w" && c.stack == "snf":
				_, err = src.(*sniffing.ConnSniffer).WriteTo(&sink)
			default:
				_, err = relayCopyDirect(&sink, src, buf, nil)
			}
			handed = append(handed, sink.Bytes()...)
			outs = append(outs, c05Digest(sink.Bytes())+"/"+c05B(err == nil))
			if err == nil {
				cleanEnd = true
			}
		}
	}
	line := strings.Join(outs, ";")
	// implementation-side oracle, independent of the model
	if inContract && !c.poison {
		if cleanEnd && !bytes.Equal(handed, fed) {
			line += fmt.Sprintf(" LOSS-OR-DUP(handed=%s fed=%s)", c05Digest(handed), c05Digest(fed))
		} else if !bytes.HasPrefix(fed, handed) {
			line += fmt.Sprintf(" NOT-A-PREFIX(handed=%s fed=%s)", c05Digest(handed), c05Digest(fed))
		}
	}
	return line
}

func c05GenWrapCase(r *VRand, stats *VStats) *c05WrapCase {
	c := &c05WrapCase{eof: !r.Chance(0.15)}
	c.stack = []string{"plain", "pre", "pre", "pre", "buf", "buf", "snf", "snf"}[r.Intn(8)]
	nch := r.Intn(4)
	for i := 0; i < nch; i++ {
		l := r.Range(1, 700)
		switch r.Intn(8) {
		case 0:
			l = r.Range(32760, 32776)
		case 1:
			l = r.Range(4090, 4100)
		case 2:
			l = 1
		}
		c.chunks = append(c.chunks, c05Chunk{gen: true, seed: r.Intn(256), len: l})
	}
	switch c.stack {
	case "pre":
		if r.Bool() {
			c.realPre = true
			// held = what the real prefetch will take: min(16, first segment)
			c.held = c05GenBytes(r.Intn(256), []int{1, 2, 5, 15, 16, 16, 16}[r.Intn(7)])
		} else {
			c.held = c05GenBytes(r.Intn(256), []int{0, 1, 2, 16, 40, 513, 600}[r.Intn(7)])
			if r.Chance(0.4) {
				c.skipped = r.Range(1, 20)
			}
		}
	case "buf":
		c.held = c05GenBytes(r.Intn(256), []int{0, 1, 2, 16, 40, 513, 4000}[r.Intn(7)])
		if len(c.held) > 0 && r.Chance(0.4) {
			c.skipped = r.Range(1, 20)
		}
	case "snf":
		if r.Chance(0.2) {
			// a hello that needs more, then RST: the stream error is latched
			h := c05ClientHello(r, "tls.example.com", 300)
			c.held = h[:r.Range(17, len(h)-1)]
			c.poison, c.eof, c.chunks = true, false, nil
		} else if r.Bool() {
			c.held = []byte("GET /index.html HTTP/1.1\r\nHost: www.example.com\r\nUser-Agent: x\r\n\r\n")
		} else {
			c.held = c05ClientHello(r, "tls.example.com", 300)
		}
	}
	// (not for bufioConn: a zero-length Read of a bufio.Reader reports — once — an error it has stored with
	// the last fill; the model has no such latch, and the client conn under a bufioConn is always TCP)
	if len(c.chunks) > 0 && c.stack != "buf" && r.Chance(0.4) {
		c.lwt = true
		stats.Inc("wrap.last-segment-with-end")
	}
	if c.stack == "snf" && r.Chance(0.3) {
		c.noDl = true
		stats.Inc("wrap.sniffer-async-path")
	}
	L := len(c.held)
	sizes := []int{0, 1, 2, L - 1, L, L + 1, 512, 32768}
	nact := r.Range(1, 7)
	for i := 0; i < nact; i++ {
		switch r.Intn(10) {
		case 0, 1:
			c.acts = append(c.acts, []string{"t", "p"}[r.Intn(2)])
		default:
			n := sizes[r.Intn(len(sizes))]
			if r.Chance(0.2) {
				n = r.Range(3, 900)
			}
			if n < 0 {
				n = 0
			}
			c.acts = append(c.acts, fmt.Sprintf("r%d", n))
		}
	}
	c.acts = append(c.acts, []string{"c", "c", "w", "d", "d"}[r.Intn(5)])
	stats.Inc("wrap.stack." + c.stack)
	stats.Inc("wrap.end." + c.acts[len(c.acts)-1])
	for _, a := range c.acts[:len(c.acts)-1] {
		switch {
		case a == "t" || a == "p":
			stats.Inc("wrap.act.take")
		case a == "r0":
			stats.Inc("wrap.act.read0")
		case a[0] == 'r':
			var n int
			fmt.Sscanf(a[1:], "%d", &n)
			switch {
			case L > 0 && n < L:
				stats.Inc("wrap.act.read-shorter-than-held")
			case n == L:
				stats.Inc("wrap.act.read-exactly-held")
			default:
				stats.Inc("wrap.act.read-longer-than-held")
			}
		}
	}
	if c.poison {
		stats.Inc("wrap.latched-error")
	}
	return c
}

func TestVerifC05Wrap(t *testing.T) {
	r := NewVRand(VSeed() + 4242)
	st := VOpenStream("c05wrap")
	defer st.Close()
	stats := NewVStats()
	n := 4000
	if VThorough() {
		n = 60000
	}
	// directed: the three positions of a take / remainder copy relative to a short read
	directed := []*c05WrapCase{
		{stack: "pre", realPre: true, held: []byte("GET / HTTP/1.1\r\n"), eof: true, chunks: []c05Chunk{c05Lit([]byte("Host: x\r\n\r\n"))},
			acts: []string{"r1", "r0", "r14", "r1", "r512", "d"}},
		{stack: "pre", realPre: true, held: []byte("GET / HTTP/1.1\r\n"), eof: true, chunks: []c05Chunk{c05Lit([]byte("Host: x\r\n\r\n"))},
			acts: []string{"r5", "t", "c"}},
		{stack: "pre", realPre: true, held: []byte("GET / HTTP/1.1\r\n"), eof: true, chunks: []c05Chunk{c05Lit([]byte("Host: x\r\n\r\n"))},
			acts: []string{"r0", "t", "r512", "c"}},
		{stack: "pre", held: c05GenBytes(1, 40), eof: true, chunks: []c05Chunk{c05Lit([]byte("tail"))}, acts: []string{"r39", "r2", "d"}},
		{stack: "buf", held: c05GenBytes(1, 40), eof: true, chunks: []c05Chunk{c05Lit([]byte("tail"))}, acts: []string{"r0", "r39", "p", "r0", "c"}},
		{stack: "snf", held: []byte("GET /index.html HTTP/1.1\r\nHost: www.example.com\r\nUser-Agent: x\r\n\r\n"), eof: true,
			chunks: []c05Chunk{c05Lit([]byte("tail"))}, acts: []string{"r1", "r0", "t", "r512", "w"}},
	}
	for i := 0; i < n+len(directed); i++ {
		var c *c05WrapCase
		if i < len(directed) {
			c = directed[i]
		} else {
			c = c05GenWrapCase(r, stats)
		}
		impl := VRecover(func() string { return c05RunWrap(c) })
		if strings.HasPrefix(impl, "harness:") {
			stats.Inc("discard." + strings.SplitN(impl, " ", 2)[0])
			continue
		}
		st.Emit(c.op(), impl)
		if i < len(directed) {
			stats.Sample(c.op() + " => " + impl)
		}
	}
	stats.Write("c05wrap")
}
