package C07PKG

// C07 generators shared by the two correspondence harnesses (component/dns and control).
// This file is a template: checks/c07.py substitutes the package clause and injects it next to
// the per-package harness file.  It only GENERATES inputs (rule lists as dae text + op-line text,
// question names, answers); it never decides anything about them.

import (
	"encoding/hex"
	"fmt"
	"io"
	"net/netip"
	"regexp"
	"strings"

	"github.com/daeuniverse/dae/config"
	"github.com/daeuniverse/dae/pkg/config_parser"
	"github.com/sirupsen/logrus"
)

// ---------------------------------------------------------------- generated rule structure

type c07Param struct {
	key string // dae key ("" = none)
	val string // dae text of the value (unquoted)
	op  string // value token of the op line
}

type c07Func struct {
	name   string
	not    bool
	params []c07Param
}

type c07Rule struct {
	funcs []c07Func
	out   string
	must  bool
}

var c07RegexMenu = []string{`^www\.`, `\.cn$`, `[0-9]`, `^$`, `exa.*le`, `^[a-z]+\.[a-z]+$`}
var c07RegexCompiled = func() []*regexp.Regexp {
	var l []*regexp.Regexp
	for _, s := range c07RegexMenu {
		l = append(l, regexp.MustCompile(s))
	}
	return l
}()

var c07QtypeNames = []struct {
	text string
	val  int
}{
	{"a", 1}, {"aaaa", 28}, {"cname", 5}, {"mx", 15}, {"txt", 16}, {"https", 65}, {"any", 255}, {"ns", 2},
	{"A", 1}, {"AAAA", 28}, {"28", 28}, {"0x1c", 28}, {"1", 1}, {"65535", 65535}, {"0", 0}, {"64", 64},
}

var c07Qtypes = []uint16{1, 28, 5, 15, 16, 65, 255, 2, 0, 65535, 64, 12}

var c07Tlds = []string{"com", "cn", "org", "test"}
var c07Slds = []string{"example", "google", "x", "a-b", "foo_bar", "1", "ample", "jquery", "zhihu", "vk", "9gag", "d5678"}
var c07Subs = []string{"www", "a", "mail", "xn--0", "b.c", "hjkquvyz", "49"}

func c07Domain(r *VRand) string {
	switch r.Intn(10) {
	case 0:
		return c07Tlds[r.Intn(len(c07Tlds))]
	case 1, 2, 3:
		return c07Subs[r.Intn(len(c07Subs))] + "." + c07Slds[r.Intn(len(c07Slds))] + "." + c07Tlds[r.Intn(len(c07Tlds))]
	default:
		return c07Slds[r.Intn(len(c07Slds))] + "." + c07Tlds[r.Intn(len(c07Tlds))]
	}
}

func c07Pattern(r *VRand, stats *VStats) (key, val, op string) {
	switch r.Intn(12) {
	case 0, 1, 2:
		d := c07Domain(r)
		if r.Chance(0.15) {
			d = "." + d
			stats.Inc("pattern.suffix.leading-dot")
		}
		return "suffix", d, d
	case 3, 4:
		return "full", c07Domain(r), ""
	case 5, 6:
		kws := []string{"goo", "ample", "^www", "com$", ".", "x", "-", "oo", "www", ".cn", "e.c", "Goo", "9g", "vk", "test", "a.", "Mail"}
		k := kws[r.Intn(len(kws))]
		return "keyword", k, k
	case 7:
		i := r.Intn(len(c07RegexMenu))
		return "regex", c07RegexMenu[i], fmt.Sprintf("R%d", i)
	case 8:
		// a pattern with a character outside ValidDomainChars: AddSet skips it (never matches)
		d := c07Domain(r)
		d = strings.ToUpper(d[:1]) + d[1:]
		stats.Inc("pattern.invalid-char")
		switch r.Intn(3) {
		case 0:
			return "suffix", d, d
		case 1:
			k := []string{"Goo", "amPle", "x*", "OO"}[r.Intn(4)] // skipped keyword (outside the AC alphabet)
			return "keyword", k, k
		}
		return "full", d, d
	case 9:
		return "suffix", c07Tlds[r.Intn(len(c07Tlds))], ""
	default:
		return "suffix", c07Domain(r), ""
	}
}

var c07Prefixes = []string{
	"10.0.0.0/8", "10.1.0.0/16", "10.1.2.3/32", "10.1.2.3", "0.0.0.0/0", "192.168.0.0/16", "10.1.2.3/8",
	"2001:db8::/32", "::/0", "::ffff:10.0.0.0/104", "fe80::/10", "2001:db8::1/128", "2001:db8::1",
	"128.0.0.0/1", "0.0.0.0/1", "8000::/1", "255.255.255.255/32", "::/128", "::ffff:0:0/96",
}

var c07Addrs = []string{
	"10.0.0.1", "10.255.255.255", "11.0.0.0", "9.255.255.255", "10.1.2.3", "10.1.2.4", "10.1.255.255", "10.2.0.0",
	"192.168.1.1", "192.169.0.0", "2001:db8::1", "2001:db8::2", "2001:db9::1", "fe80::1", "fec0::1",
	"::ffff:10.0.0.1", "::", "0.0.0.0", "127.255.255.255", "128.0.0.0", "255.255.255.255", "8000::", "7fff::1",
	"::ffff:11.0.0.1", "::1",
}

func c07PfxOp(s string) string {
	t := s
	if !strings.Contains(t, "/") {
		if strings.Contains(t, ":") {
			t += "/128"
		} else {
			t += "/32"
		}
	}
	p := netip.MustParsePrefix(t)
	if p.Addr().Is4() {
		b := p.Addr().As4()
		return fmt.Sprintf("4:%s/%d", hex.EncodeToString(b[:]), p.Bits())
	}
	b := p.Addr().As16()
	return fmt.Sprintf("6:%s/%d", hex.EncodeToString(b[:]), p.Bits())
}

func c07AddrOp(a netip.Addr) string {
	if a.Is4() {
		b := a.As4()
		return "4:" + hex.EncodeToString(b[:])
	}
	b := a.As16()
	return "6:" + hex.EncodeToString(b[:])
}

func c07Out(r *VRand, nUp int, resp bool) string {
	x := r.Intn(100)
	if resp {
		switch {
		case x < 35 || nUp == 0 && x < 70:
			return "accept"
		case x < 50 || nUp == 0:
			return "reject"
		}
	} else {
		switch {
		case x < 22 || nUp == 0 && x < 60:
			return "asis"
		case x < 40 || nUp == 0:
			return "reject"
		}
	}
	return fmt.Sprintf("u%d", r.Intn(nUp))
}

func c07GenFunc(r *VRand, nUp int, resp bool, stats *VStats) c07Func {
	f := c07Func{not: r.Chance(0.3)}
	if f.not {
		stats.Inc("func.negated")
	}
	kinds := 2
	if resp {
		kinds = 4
	} else if r.Chance(0.004) {
		kinds = 4 // ip()/upstream() in a request rule: the request builder must refuse the rule list
		stats.Inc("func.response-only-function-in-request-rule")
	}
	nParams := 1
	switch r.Intn(6) {
	case 0, 1:
		nParams = 2
	case 2:
		nParams = 3
	case 3:
		nParams = r.Range(1, 6)
	}
	switch r.Intn(kinds) {
	case 0:
		f.name = "qname"
		keys := map[string]bool{}
		for i := 0; i < nParams; i++ {
			k, v, op := c07Pattern(r, stats)
			if op == "" {
				op = v
			}
			keys[k] = true
			f.params = append(f.params, c07Param{k, v, op})
		}
		if len(keys) > 1 {
			stats.Inc("func.qname.multi-key")
		}
		stats.Inc("func.qname")
	case 1:
		f.name = "qtype"
		for i := 0; i < nParams; i++ {
			q := c07QtypeNames[r.Intn(len(c07QtypeNames))]
			key := ""
			if r.Chance(0.05) {
				key = []string{"foo", "bar"}[r.Intn(2)] // key is ignored by TypeParserFactory but groups values
				stats.Inc("func.qtype.keyed")
			}
			f.params = append(f.params, c07Param{key, q.text, fmt.Sprint(q.val)})
		}
		stats.Inc("func.qtype")
	case 2:
		f.name = "ip"
		for i := 0; i < nParams; i++ {
			p := c07Prefixes[r.Intn(len(c07Prefixes))]
			f.params = append(f.params, c07Param{"", p, c07PfxOp(p)})
		}
		stats.Inc("func.ip")
	default:
		f.name = "upstream"
		if nUp == 0 || r.Chance(0.08) {
			// `upstream(reject)` / `upstream(accept)`: resolved in the RESPONSE id space (0xFD / 0xFC);
			// 0xFD is the REQUEST-space index of as-is, so upstream(reject) matches as-is answers.
			v := []string{"reject", "accept"}[r.Intn(2)]
			f.params = append(f.params, c07Param{"", v, v})
			stats.Inc("func.upstream.reserved-name")
		} else {
			for i := 0; i < nParams && i < 3; i++ {
				v := fmt.Sprintf("u%d", r.Intn(nUp))
				f.params = append(f.params, c07Param{"", v, v})
			}
		}
		stats.Inc("func.upstream")
	}
	return f
}

func c07GenRules(r *VRand, nUp int, resp bool, maxRules int, stats *VStats) []c07Rule {
	n := 0
	switch r.Intn(8) {
	case 0:
		n = 0
	case 1:
		n = 1
	case 2:
		n = maxRules
	default:
		n = r.Range(1, maxRules)
	}
	var rules []c07Rule
	for i := 0; i < n; i++ {
		var rule c07Rule
		if !resp && nUp > 0 && r.Chance(0.06) {
			// internal dae selector rule: split away by SplitRequestRules (daedns compiles it for dae's own
			// look-ups: it must name a configured upstream and use a key all three selectors accept)
			name := []string{"sub", "node", "subnode"}[r.Intn(3)]
			rule.funcs = []c07Func{{name: name, params: []c07Param{{"", "t1", "t1"}}}}
			rule.out = fmt.Sprintf("u%d", r.Intn(nUp))
			stats.Inc("rule.internal-selector")
			rules = append(rules, rule)
			continue
		}
		nf := 1
		switch r.Intn(5) {
		case 0, 1:
			nf = 2
		case 2:
			nf = 3
		}
		for j := 0; j < nf; j++ {
			rule.funcs = append(rule.funcs, c07GenFunc(r, nUp, resp, stats))
		}
		rule.out = c07Out(r, nUp, resp)
		rule.must = r.Chance(0.05)
		stats.Inc(fmt.Sprintf("rule.funcs.%d", nf))
		rules = append(rules, rule)
	}
	return rules
}

func c07Quote(v string) string {
	plain := v != ""
	for _, c := range v {
		if !(c >= 'a' && c <= 'z' || c >= 'A' && c <= 'Z' || c == '.' || c == '-' || c == '_') {
			plain = false
		}
	}
	if plain && !(v[0] >= '0' && v[0] <= '9') && v[0] != '.' && v[0] != '-' {
		return v
	}
	return "'" + v + "'"
}

func c07RenderDae(rules []c07Rule) string {
	var sb strings.Builder
	for _, rule := range rules {
		var fs []string
		for _, f := range rule.funcs {
			var ps []string
			for _, p := range f.params {
				if p.key != "" {
					ps = append(ps, p.key+": "+c07Quote(p.val))
				} else {
					ps = append(ps, c07Quote(p.val))
				}
			}
			s := f.name + "(" + strings.Join(ps, ", ") + ")"
			if f.not {
				s = "!" + s
			}
			fs = append(fs, s)
		}
		out := rule.out
		if rule.must {
			out += "(must)"
		}
		sb.WriteString("      " + strings.Join(fs, " && ") + " -> " + out + "\n")
	}
	return sb.String()
}

func c07RenderOp(rules []c07Rule) string {
	if len(rules) == 0 {
		return "-"
	}
	var rs []string
	for _, rule := range rules {
		var fs []string
		for _, f := range rule.funcs {
			var ps []string
			for _, p := range f.params {
				ps = append(ps, p.key+"="+p.op)
			}
			s := f.name + "(" + strings.Join(ps, ",") + ")"
			if f.not {
				s = "!" + s
			}
			fs = append(fs, s)
		}
		rs = append(rs, strings.Join(fs, "&")+">"+rule.out)
	}
	return strings.Join(rs, ";")
}

// urls == nil: upstream k is 'udp://10.0.0.<k+1>:53'.
func c07ConfigText(nUp int, urls []string, reqRules []c07Rule, reqFb string, respRules []c07Rule, respFb string) string {
	var sb strings.Builder
	sb.WriteString("global {}\ndns {\n")
	if nUp > 0 {
		sb.WriteString("  upstream {\n")
		for i := 0; i < nUp; i++ {
			if urls != nil {
				fmt.Fprintf(&sb, "    u%d: '%s'\n", i, urls[i])
			} else {
				fmt.Fprintf(&sb, "    u%d: 'udp://10.0.0.%d:53'\n", i, i+1)
			}
		}
		sb.WriteString("  }\n")
	}
	sb.WriteString("  routing {\n    request {\n")
	sb.WriteString(c07RenderDae(reqRules))
	sb.WriteString("      fallback: " + reqFb + "\n    }\n    response {\n")
	sb.WriteString(c07RenderDae(respRules))
	sb.WriteString("      fallback: " + respFb + "\n    }\n  }\n}\nrouting { fallback: direct }\n")
	return sb.String()
}

func c07ParseConfig(text string) (*config.Dns, error) {
	sections, err := config_parser.Parse(text)
	if err != nil {
		return nil, err
	}
	conf, err := config.New(sections)
	if err != nil {
		return nil, err
	}
	return &conf.Dns, nil
}

// ---------------------------------------------------------------- questions / answers

func c07RandCase(r *VRand, s string) string {
	b := []byte(s)
	for i := range b {
		if b[i] >= 'a' && b[i] <= 'z' && r.Bool() {
			b[i] -= 32
		}
	}
	return string(b)
}

// names derived from the patterns of the rule list (equal, sub-domain, glued prefix/suffix) plus
// random ones; then case / trailing-dot variants.
func c07Names(r *VRand, rules []c07Rule, n int, stats *VStats) []string {
	var pats []string
	for _, rule := range rules {
		for _, f := range rule.funcs {
			if f.name == "qname" {
				for _, p := range f.params {
					if p.key == "suffix" || p.key == "full" {
						pats = append(pats, strings.ToLower(strings.TrimPrefix(p.val, ".")))
					}
				}
			}
		}
	}
	var out []string
	for i := 0; i < n; i++ {
		var base string
		if len(pats) > 0 && r.Chance(0.6) {
			p := pats[r.Intn(len(pats))]
			switch r.Intn(6) {
			case 0:
				base = p
				stats.Inc("name.equals-pattern")
			case 1:
				base = c07Subs[r.Intn(len(c07Subs))] + "." + p
				stats.Inc("name.subdomain-of-pattern")
			case 2:
				base = "abc" + p // must not match suffix / full
				stats.Inc("name.glued-prefix")
			case 3:
				base = p + "x"
				stats.Inc("name.glued-suffix")
			case 4:
				base = p + "." + c07Tlds[r.Intn(len(c07Tlds))]
				stats.Inc("name.pattern-as-prefix")
			default:
				base = "." + p
				stats.Inc("name.leading-dot")
			}
		} else {
			switch r.Intn(12) {
			case 0:
				base = ""
				stats.Inc("name.empty")
			case 1:
				base = "www.123.cn"
			default:
				base = c07Domain(r)
			}
		}
		// bytes outside the domain alphabet that are legal on the wire: | * $ ^ @ (the cache key uses `|`,
		// the matchers use `^` and `$` as markers, the automaton reads unknown bytes as `a`)
		if base != "" && r.Chance(0.06) {
			sp := string("|*$^@"[r.Intn(5)])
			switch r.Intn(4) {
			case 0:
				base = "x" + sp + "y." + base
			case 1:
				i := r.Intn(len(base) + 1)
				base = base[:i] + sp + base[i:]
			case 2:
				base = base + sp
			default:
				base = sp + base
			}
			stats.Inc("name.special-byte")
		}
		// names that are IP literals: the controller never caches answers for them
		if r.Chance(0.02) {
			base = []string{"1.2.3.4", "10.0.0.1", "::1", "1.2.3.4.5", "0.0.0.0", "fe80::1"}[r.Intn(6)]
			stats.Inc("name.ip-literal-like")
		}
		switch r.Intn(8) {
		case 0, 1:
			base = c07RandCase(r, base)
			stats.Inc("name.mixed-case")
		case 2:
			base = strings.ToUpper(base)
			stats.Inc("name.upper-case")
		}
		switch r.Intn(8) {
		case 0, 1, 2, 3, 4:
			base += "."
			stats.Inc("name.trailing-dot")
		case 5:
			base += ".."
			stats.Inc("name.two-trailing-dots")
		default:
			stats.Inc("name.no-trailing-dot")
		}
		out = append(out, base)
	}
	return out
}

func c07Rx(name string) string {
	norm := strings.ToLower(strings.TrimSuffix(name, "."))
	var ids []string
	for i, re := range c07RegexCompiled {
		if re.MatchString(norm) {
			ids = append(ids, fmt.Sprintf("R%d", i))
		}
	}
	return "rx:" + strings.Join(ids, ",")
}

func c07Qtype(r *VRand, rules []c07Rule) uint16 {
	var vals []uint16
	for _, rule := range rules {
		for _, f := range rule.funcs {
			if f.name == "qtype" {
				for _, p := range f.params {
					var v int
					fmt.Sscan(p.op, &v)
					vals = append(vals, uint16(v))
				}
			}
		}
	}
	if len(vals) > 0 && r.Chance(0.6) {
		return vals[r.Intn(len(vals))]
	}
	return c07Qtypes[r.Intn(len(c07Qtypes))]
}

func c07Ips(r *VRand, stats *VStats) []netip.Addr {
	n := 0
	switch r.Intn(6) {
	case 0:
		n = 0
		stats.Inc("answer.no-address")
	case 1, 2:
		n = 1
	case 3:
		n = 2
	default:
		n = r.Range(1, 5)
	}
	var l []netip.Addr
	v4, v6 := false, false
	for i := 0; i < n; i++ {
		a := netip.MustParseAddr(c07Addrs[r.Intn(len(c07Addrs))])
		if a.Is4() {
			v4 = true
		} else {
			v6 = true
		}
		l = append(l, a)
	}
	if v4 && v6 {
		stats.Inc("answer.mixed-families")
	}
	return l
}

func c07Quiet() *logrus.Logger {
	l := logrus.New()
	l.SetOutput(io.Discard)
	return l
}

