package trie

// C11 correspondence harness, layer 2: the real NewTrie / HasPrefix (LOUDS bitmaps, rank/select
// caches, packed labels) against the bit-exact Lean model (driver c11drv, op `trie`).
// Compared: the HasPrefix answers.  The private arrays of the built trie are dumped after ` | ` as a
// layout DIAGNOSTIC only (long dumps as FNV-1a 64 of the same text).

import (
	"encoding/hex"
	"fmt"
	"reflect"
	"strconv"
	"strings"
	"testing"

	"github.com/daeuniverse/dae/common/bitlist"
)

func c11Words64(ws []uint64) string {
	p := make([]string, len(ws))
	for i, w := range ws {
		p[i] = strconv.FormatUint(w, 16)
	}
	return strings.Join(p, ".")
}

func c11BlDump(bl *bitlist.CompactBitList) string {
	v := reflect.ValueOf(bl).Elem()
	buf := v.FieldByName("b").Elem().FieldByName("buf")
	p := make([]string, buf.Len())
	for i := 0; i < buf.Len(); i++ {
		p[i] = strconv.FormatUint(buf.Index(i).Uint(), 16)
	}
	return fmt.Sprintf("%d/%d/%s", v.FieldByName("unitBitSize").Int(), v.FieldByName("unitNum").Int(), strings.Join(p, "."))
}

func c11Fnv(s string) uint64 {
	h := uint64(14695981039346656037)
	for i := 0; i < len(s); i++ {
		h ^= uint64(s[i])
		h *= 1099511628211
	}
	return h
}

// layout dump: DIAGNOSTIC only (the check compares the HasPrefix answers; a different but equivalent
// layout — other select stride, plain []int32 caches, other label width — is not a violation)
func c11Dump(t *Trie) (out string) {
	defer func() {
		if recover() != nil {
			out = "dump:unavailable"
		}
	}()
	v := reflect.ValueOf(t).Elem()
	words := func(name string) string {
		f := v.FieldByName(name)
		p := make([]string, f.Len())
		for i := 0; i < f.Len(); i++ {
			p[i] = strconv.FormatUint(f.Index(i).Uint(), 16)
		}
		return strings.Join(p, ".")
	}
	bl := func(name string) string {
		return c11BlDump((*bitlist.CompactBitList)(v.FieldByName(name).UnsafePointer()))
	}
	d := fmt.Sprintf("L=%s B=%s lab=%s rk=%s sl=%s", words("leaves"), words("labelBitmap"), bl("labels"), bl("ranksBL"), bl("selectsBL"))
	if len(d) <= 400 {
		return "dump:" + d
	}
	return "fnv:" + strconv.FormatUint(c11Fnv(d), 16)
}

func c11Hex(s string) string {
	if s == "" {
		return "-"
	}
	return hex.EncodeToString([]byte(s))
}

func c11HexList(l []string) string {
	if len(l) == 0 {
		return "_"
	}
	p := make([]string, len(l))
	for i, s := range l {
		p[i] = c11Hex(s)
	}
	return strings.Join(p, ",")
}

const c11DomAlpha = "0123456789abcdefghijklmnopqrstuvwxyz-.^_"

var c11Labels = []string{"moc", "gro", "ten", "nc", "oi", "elpmaxe", "elgoog", "a", "b", "ab", "ba", "www", "ndc", "ipa", "1", "01", "x-y", "_pct", "liam", "s3", "aa", "aaa", "tset", "vt", "ur", "cbci"}

func c11RandLabel(r *VRand) string {
	if r.Chance(0.7) {
		return c11Labels[r.Intn(len(c11Labels))]
	}
	n := r.Range(1, 6)
	b := make([]byte, n)
	for i := range b {
		b[i] = c11DomAlpha[r.Intn(38)] // no '.' '^'... index 37 is '.', keep a few
		if b[i] == '.' || b[i] == '^' {
			b[i] = 'z'
		}
	}
	return string(b)
}

// reversed-domain style key: labels joined with '.', terminated by '.' or '^' like the matcher's keys.
func c11DomKey(r *VRand, pool []string) string {
	if len(pool) > 0 && r.Chance(0.35) {
		// extend / truncate an existing key: prefixes of one another
		k := pool[r.Intn(len(pool))]
		switch r.Intn(3) {
		case 0:
			return k[:r.Intn(len(k)+1)]
		case 1:
			return strings.TrimRight(k, ".^") + "." + c11RandLabel(r) + []string{".", "^"}[r.Intn(2)]
		default:
			return strings.TrimRight(k, ".^") + []string{".", "^"}[r.Intn(2)]
		}
	}
	n := r.Range(1, 4)
	parts := make([]string, n)
	for i := range parts {
		parts[i] = c11RandLabel(r)
	}
	return strings.Join(parts, ".") + []string{".", "^", ""}[r.Intn(3)]
}

func c11BinKey(r *VRand, pool []string) string {
	if len(pool) > 0 && r.Chance(0.4) {
		k := pool[r.Intn(len(pool))]
		if r.Bool() {
			return k[:r.Intn(len(k)+1)]
		}
		return k + []string{"0", "1", "01", "10"}[r.Intn(4)]
	}
	n := []int{0, 1, 8, 24, 32, 64, 96, 104, 128}[r.Intn(9)]
	if r.Chance(0.5) {
		n = r.Intn(129)
	}
	b := make([]byte, n)
	x := r.U64()
	for i := range b {
		if i%64 == 0 {
			x = r.U64()
		}
		b[i] = '0' + byte(x>>(uint(i)%64)&1)
		if r.Chance(0.6) && i < 96 { // clustered high bits
			b[i] = '0'
		}
	}
	return string(b)
}

func c11Probes(r *VRand, keys []string, alpha string, n int, stats *VStats) []string {
	ws := make([]string, 0, n)
	for len(ws) < n {
		var w string
		if len(keys) == 0 {
			w = c11RandLabel(r)
		} else {
			k := keys[r.Intn(len(keys))]
			switch r.Intn(9) {
			case 0:
				w = k
				stats.Inc("trie.probe.exact")
			case 1:
				w = k + string(alpha[r.Intn(len(alpha))])
				stats.Inc("trie.probe.key_plus_char")
			case 2:
				w = k + c11RandLabel(r) + "^"
				stats.Inc("trie.probe.key_plus_tail")
			case 3:
				if len(k) > 0 {
					w = k[:len(k)-1]
				}
				stats.Inc("trie.probe.key_minus_last")
			case 4:
				if len(k) > 0 {
					b := []byte(k)
					i := r.Intn(len(b))
					if r.Bool() {
						i = len(b) - 1
					}
					b[i] = alpha[r.Intn(len(alpha))]
					w = string(b)
				}
				stats.Inc("trie.probe.one_char_changed")
			case 5:
				w = k[:r.Intn(len(k)+1)]
				stats.Inc("trie.probe.proper_prefix")
			case 6:
				b := []byte(k + "x")
				b[r.Intn(len(b))] = []byte{'$', 'A', '/', 0, 0xff, ' '}[r.Intn(6)]
				w = string(b)
				stats.Inc("trie.probe.invalid_char")
			case 7:
				w = ""
				stats.Inc("trie.probe.empty")
			default:
				n := r.Intn(12)
				b := make([]byte, n)
				for i := range b {
					b[i] = alpha[r.Intn(len(alpha))]
				}
				w = string(b)
				stats.Inc("trie.probe.random")
			}
		}
		ws = append(ws, w)
	}
	return ws
}

func c11Naive(keys []string, w string) bool {
	for _, k := range keys {
		if strings.HasPrefix(w, k) {
			return true
		}
	}
	return false
}

func c11RunCase(st *VStream, stats *VStats, alphaTag string, keys, words []string) {
	chars := domainCharsForC11
	if alphaTag == "c" {
		chars = ValidCidrChars
	}
	op := fmt.Sprintf("trie %s %s %s", alphaTag, c11HexList(keys), c11HexList(words))
	kc := append([]string(nil), keys...)
	res := VRecover(func() string {
		t, err := NewTrie(kc, chars)
		if err != nil {
			msg := err.Error()
			if strings.HasPrefix(msg, "char out of range: ") {
				stats.Inc("trie.build.char_error")
				return fmt.Sprintf("err:char:%d", c11FirstByteOfRune(msg[len("char out of range: "):]))
			}
			return "err:" + msg
		}
		var sb strings.Builder
		sb.WriteString("r=")
		hits := 0
		for _, w := range words {
			r := VRecover(func() string {
				if t.HasPrefix(w) {
					return "1"
				}
				return "0"
			})
			if strings.HasPrefix(r, "crash:") {
				r = "P"
			}
			if r != "P" && (r == "1") != c11Naive(keys, w) {
				r += "!spec"
			}
			if r == "1" {
				hits++
			}
			sb.WriteString(r)
		}
		stats.Add("trie.probe.hit", hits)
		stats.Add("trie.probe.total", len(words))
		sb.WriteString(" | ")
		sb.WriteString(c11Dump(t))
		return sb.String()
	})
	if strings.HasPrefix(res, "crash:") {
		stats.Inc("trie.build.panic")
		res = "panic"
	}
	st.Emit(op, res)
	if len(op) < 300 {
		stats.Sample(op)
	}
}

var domainCharsForC11 = NewValidChars([]byte(c11DomAlpha))

func TestVerifC11Trie(t *testing.T) {
	r := NewVRand(VSeed() + 11)
	stats := NewVStats()
	st := VOpenStream("c11trie")
	defer st.Close()

	// fixed boundary shapes ------------------------------------------------------------------
	c11RunCase(st, stats, "d", []string{"ab", "abc", "abcd", "axy", "buv"}, []string{"ab", "a", "abx", "axyz", "bu", "buv", "c", ""})
	c11RunCase(st, stats, "d", []string{""}, []string{"", "a", "^"})
	c11RunCase(st, stats, "c", []string{""}, []string{"", "0", "1"})
	c11RunCase(st, stats, "d", []string{}, []string{"a"}) // NewTrie panics on an empty key list
	c11RunCase(st, stats, "d", []string{"a", "a", "a"}, []string{"a", "aa", ""})
	// chains: the label bitmap is (01)^L 1, so 2L+1 bits — lengths around the 64-bit word boundaries
	for _, L := range []int{1, 2, 30, 31, 32, 33, 62, 63, 64, 65, 95, 96, 127, 128, 129, 200} {
		k := strings.Repeat("a", L)
		c11RunCase(st, stats, "d", []string{k}, []string{k, k + "a", k[:L-1], "", k[:L/2] + "b"})
		k2 := strings.Repeat("01", L)[:L]
		c11RunCase(st, stats, "c", []string{k2, k2[:L/2]}, []string{k2, k2 + "1", k2[:L-1], k2[:L/2], ""})
		stats.Inc("trie.shape.chain")
	}
	// stars: the root carries every letter of the alphabet (40 labels), children are leaves or chains
	for _, depth := range []int{1, 2, 3} {
		keys := []string{}
		for i := 0; i < len(c11DomAlpha); i++ {
			keys = append(keys, strings.Repeat(string(c11DomAlpha[i]), depth))
		}
		c11RunCase(st, stats, "d", keys, c11Probes(r, keys, c11DomAlpha, 60, stats))
		stats.Inc("trie.shape.star")
	}
	// complete binary tries of depth d: 2^d keys, bitmap length 3*2^d-ish crossing many words
	for _, d := range []int{1, 2, 5, 6, 7, 10} {
		keys := []string{}
		for x := 0; x < 1<<d; x++ {
			keys = append(keys, fmt.Sprintf("%0*b", d, x))
		}
		c11RunCase(st, stats, "c", keys, c11Probes(r, keys, "01", 80, stats))
		stats.Inc("trie.shape.complete_binary")
	}

	// generated key sets ---------------------------------------------------------------------
	cases := 260
	maxBig := 3000
	bigEvery := 40
	if VThorough() {
		cases = 900
		maxBig = 60000 // a geosite-scale suffix set is ~50 000 patterns = ~100 000 keys; five such tries
		bigEvery = 320
	}
	for n := 0; n < cases; n++ {
		alphaTag, alpha := "d", c11DomAlpha
		if r.Chance(0.3) {
			alphaTag, alpha = "c", "01"
		}
		var size int
		switch {
		case n%10 < 5:
			size = r.Range(1, 8)
			stats.Inc("trie.size.1-8")
		case n%10 < 8:
			size = r.Range(9, 120)
			stats.Inc("trie.size.9-120")
		case n%10 < 9 || n%bigEvery != 9:
			size = r.Range(121, 1500)
			stats.Inc("trie.size.121-1500")
		default:
			size = r.Range(maxBig/2, maxBig)
			stats.Inc("trie.size.big")
		}
		keys := make([]string, 0, size)
		for len(keys) < size {
			if alphaTag == "d" {
				keys = append(keys, c11DomKey(r, keys))
			} else {
				keys = append(keys, c11BinKey(r, keys))
			}
		}
		if r.Chance(0.04) {
			b := []byte(keys[r.Intn(len(keys))] + "q")
			b[r.Intn(len(b))] = []byte{'$', 'A', '2', 0x80}[r.Intn(4)]
			keys[r.Intn(len(keys))] = string(b)
			stats.Inc("trie.keys.with_invalid_char")
		}
		if r.Chance(0.3) {
			for i := len(keys) - 1; i > 0; i-- { // arbitrary input order
				j := r.Intn(i + 1)
				keys[i], keys[j] = keys[j], keys[i]
			}
		}
		if size > stats.C["trie.keys.max"] {
			stats.C["trie.keys.max"] = size
		}
		nw := 40
		if size > 1000 {
			nw = 400
		}
		c11RunCase(st, stats, alphaTag, keys, c11Probes(r, keys, alpha, nw, stats))
	}
	// geosite scale: every key is probed (exact, minus its last byte, plus one byte); the answer is
	// a count and a hash of the answer string, so a single dropped or merged key shows
	allCase := func(n int) {
		keys := make([]string, 0, n)
		for len(keys) < n {
			var k string
			switch {
			case len(keys) > 10 && r.Chance(0.05):
				k = keys[r.Intn(len(keys))] // duplicate: common.Deduplicate has work
			case len(keys) > 10 && r.Chance(0.3):
				k = strings.TrimRight(keys[r.Intn(len(keys))], ".^") + "." + c11RandLabel(r) + []string{".", "^"}[r.Intn(2)]
			default:
				k = c11RandLabel(r) + "." + c11RandLabel(r) + strconv.Itoa(r.Intn(1000000)) + []string{".", "^"}[r.Intn(2)]
			}
			keys = append(keys, k)
		}
		op := fmt.Sprintf("trieall d %s", c11HexList(keys))
		res := VRecover(func() string {
			t, err := NewTrie(append([]string(nil), keys...), domainCharsForC11)
			if err != nil {
				return "err:" + err.Error()
			}
			var sb strings.Builder
			hits := 0
			one := func(w string) {
				if t.HasPrefix(w) {
					sb.WriteByte('1')
					hits++
				} else {
					sb.WriteByte('0')
				}
			}
			for _, k := range keys {
				one(k)
				if len(k) > 0 {
					one(k[:len(k)-1])
				} else {
					one(k)
				}
				one(k + "0")
			}
			return fmt.Sprintf("n=%d hits=%d h=%x", 3*len(keys), hits, c11Fnv(sb.String()))
		})
		if strings.HasPrefix(res, "crash:") {
			res = "panic"
		}
		st.Emit(op, res)
		if n > stats.C["trie.keys.max"] {
			stats.C["trie.keys.max"] = n
		}
		{ // number of trie nodes = distinct prefixes of the keys + root (64-bit hashes)
			seen := map[uint64]struct{}{}
			for _, k := range keys {
				h := uint64(14695981039346656037)
				for i := 0; i < len(k); i++ {
					h = (h ^ uint64(k[i])) * 1099511628211
					seen[h] = struct{}{}
				}
			}
			if len(seen)+1 > stats.C["trie.nodes.max"] {
				stats.C["trie.nodes.max"] = len(seen) + 1
			}
		}
		stats.Add("trie.probe.all_keys", 3*n)
	}
	if VThorough() {
		allCase(200000)
	} else {
		allCase(20000)
	}
	stats.Write("c11trie")
}

// NewTrie formats the offending byte with %c, i.e. as the rune of that value (UTF-8 encoded).
func c11FirstByteOfRune(s string) int {
	for _, ru := range s {
		return int(ru)
	}
	return -1
}
