package config_parser

// C17 correspondence harness, part 1: config_parser.Parse (ANTLR lexer + parser + Walker) against
// the Lean lexer/parser/walker model (driver c17drv).
//
//   classes <idHead> <nonIdHead> <inter> <ws>     character-class table PROBED from the real lexer
//                                                 (128-bit bitmaps, hex); impl answers "classes ok"
//   p <hex of the UTF-8 text>                     impl: "ok <canonical AST>" | "err" | "crash:…"
//
// Three input streams (see C17 in DESIGN.md): grammar-generated texts, token-level near-misses,
// arbitrary bytes.  Run sharded: VERIF_SHARD=i, VERIF_SHARDS=n (every shard writes c17p<i>.*).

import (
	"fmt"
	"strings"
	"testing"

)

func c17ParseOut(in string) string {
	return VRecover(func() string {
		ss, err := Parse(in)
		if err != nil {
			if ss != nil {
				return "err-with-sections"
			}
			return "err"
		}
		return "ok " + C17Sections(ss)
	})
}


// ---------------------------------------------------------------- grammar-directed generator

// A generated text is a list of lexical pieces (token texts); trivia is added when rendering.
type c17Gen struct {
	r     *VRand
	stats *VStats
}

var c17Names = []string{"global", "routing", "dns", "group", "node", "subscription", "include", "upstream", "request", "response", "my_group", "x", "a1", "Z_", "fallback", "filter", "policy", "tproxy_port", "log_level", "lan_interface", "tcp_check_url", "pname", "domain", "dip", "port", "l4proto", "mac", "sip", "ipversion", "qname", "qtype", "must_direct", "proxy", "direct", "block"}
var c17Keys = []string{"geosite", "geoip", "suffix", "full", "keyword", "regex", "mark", "name", "k"}

const c17IdHead = "ABCXYZ_abcxyz"
const c17SafeTail = "abcXYZ_019*+-./\\^!#$%=@"
const c17NonIdHead = "*+-./0123456789\\^"

func (g *c17Gen) id() string {
	if g.r.Chance(0.7) {
		return c17Names[g.r.Intn(len(c17Names))]
	}
	n := g.r.Intn(6)
	b := []byte{c17IdHead[g.r.Intn(len(c17IdHead))]}
	for i := 0; i < n; i++ {
		b = append(b, c17SafeTail[g.r.Intn(len(c17SafeTail))])
	}
	g.stats.Inc("gen.id.random")
	return string(b)
}

func (g *c17Gen) nonId() string {
	switch g.r.Intn(12) {
	case 0:
		g.stats.Inc("gen.nonid.commentlike")
		return []string{"/*a*/b", "/*", "/**", "/*/", "/*x*/*/", "/*a*/-"}[g.r.Intn(6)]
	case 1:
		return []string{"-", "--", "-.", "->"[:1], "1.1.1.1", "2606:4700::1111"[:4], "0x1f", "10.0.0.0/8", "53", "443", "30s", "0", "1"}[g.r.Intn(13)]
	case 2:
		return []string{"10.0.0.0/8", "192.168.0.0/16", "80", "1-1023", "8.8.8.8"}[g.r.Intn(5)]
	}
	n := g.r.Intn(6)
	b := []byte{c17NonIdHead[g.r.Intn(len(c17NonIdHead))]}
	for i := 0; i < n; i++ {
		b = append(b, c17SafeTail[g.r.Intn(len(c17SafeTail))])
	}
	return string(b)
}

var c17QuoteBodies = []string{"", " ", "a b", "https://example.com/x?y=1&z=2", "tcp+udp://dns.google:53", "#not a comment", "/* not a comment */", "{}[]():,!->&&", "é漢字\U0001F600", "line1\nline2", "tab\there", "\x00", "geosite:cn", "a,b,c"}

func (g *c17Gen) quote() string {
	q := byte('"')
	other := byte('\'')
	if g.r.Bool() {
		q, other = other, q
	}
	var body string
	switch g.r.Intn(10) {
	case 0: // escaped quote inside
		body = "a\\" + string(q) + "b"
		g.stats.Inc("gen.quote.escaped")
	case 1: // ends with an escaped quote: `"a\"` + `"`
		body = "a\\" + string(q)
		g.stats.Inc("gen.quote.escaped-at-end")
	case 2: // the other quote character inside
		body = "it" + string(other) + "s"
		g.stats.Inc("gen.quote.other-inside")
	case 3: // body ends with a backslash: the closing quote is only a fallback end
		if g.r.Chance(0.15) {
			body = "a\\"
			g.stats.Inc("gen.quote.trailing-backslash")
		} else {
			body = "a\\b"
		}
	case 4:
		body = "\\\\"
		g.stats.Inc("gen.quote.double-backslash")
	default:
		body = c17QuoteBodies[g.r.Intn(len(c17QuoteBodies))]
	}
	if q == '"' {
		g.stats.Inc("gen.quote.double")
	} else {
		g.stats.Inc("gen.quote.single")
	}
	return string(q) + body + string(q)
}

func (g *c17Gen) lit() string {
	switch g.r.Intn(3) {
	case 0:
		return g.id()
	case 1:
		return g.nonId()
	}
	return g.quote()
}

func (g *c17Gen) params(out *[]string) {
	n := 1 + g.r.Intn(3)
	switch g.r.Intn(90) {
	case 0:
		n = 0 // walker error: empty parameter list
		g.stats.Inc("gen.params.empty")
	case 1:
		n = 6 + g.r.Intn(4)
	}
	for i := 0; i < n; i++ {
		if i > 0 {
			*out = append(*out, ",")
		}
		if g.r.Chance(0.4) {
			k := c17Keys[g.r.Intn(len(c17Keys))]
			if g.r.Chance(0.2) {
				k = g.id()
			}
			*out = append(*out, k, ":")
			g.stats.Inc("gen.param.keyed")
		} else {
			g.stats.Inc("gen.param.bare")
		}
		*out = append(*out, g.lit())
	}
}

func (g *c17Gen) fn(out *[]string) {
	if g.r.Chance(0.25) {
		*out = append(*out, "!")
		g.stats.Inc("gen.fn.negated")
	}
	*out = append(*out, g.id(), "(")
	g.params(out)
	*out = append(*out, ")")
}

func (g *c17Gen) fns(out *[]string) {
	g.fn(out)
	for g.r.Chance(0.35) {
		*out = append(*out, "&&")
		g.fn(out)
		g.stats.Inc("gen.andchain")
	}
}

func (g *c17Gen) ann(out *[]string) {
	if g.r.Chance(0.25) {
		*out = append(*out, "[")
		g.params(out)
		*out = append(*out, "]")
		g.stats.Inc("gen.annotation")
	}
}

func (g *c17Gen) items(out *[]string, depth int) {
	n := g.r.Intn(5)
	if g.r.Chance(0.05) {
		n = 8 + g.r.Intn(20)
	}
	for i := 0; i < n; i++ {
		switch k := g.r.Intn(10); {
		case k < 3: // routing rule
			g.fns(out)
			*out = append(*out, "->")
			switch g.r.Intn(6) {
			case 0:
				g.fn(out)
				g.stats.Inc("gen.outbound.fn")
			case 1:
				*out = append(*out, g.nonId())
				g.stats.Inc("gen.outbound.nonid")
			default:
				*out = append(*out, g.id())
				g.stats.Inc("gen.outbound.id")
			}
			g.stats.Inc("gen.item.rule")
		case k < 6: // declaration
			*out = append(*out, g.id(), ":")
			if g.r.Chance(0.35) {
				g.fns(out)
				g.stats.Inc("gen.decl.fns")
			} else {
				*out = append(*out, g.lit())
				for g.r.Chance(0.3) {
					*out = append(*out, ",", g.lit())
					g.stats.Inc("gen.decl.litlist")
				}
				g.stats.Inc("gen.decl.lits")
			}
			g.ann(out)
			g.stats.Inc("gen.item.decl")
		case k < 8: // literal
			*out = append(*out, g.lit())
			g.stats.Inc("gen.item.literal")
		default:
			if depth < 4 {
				*out = append(*out, g.id(), "{")
				g.items(out, depth+1)
				*out = append(*out, "}")
				g.stats.Inc(fmt.Sprintf("gen.item.section.depth%d", depth+1))
			}
		}
	}
}

func (g *c17Gen) prog() []string {
	var out []string
	n := g.r.Intn(4)
	if g.r.Chance(0.1) {
		n = 5 + g.r.Intn(5)
	}
	for i := 0; i < n; i++ {
		out = append(out, g.id(), "{")
		g.items(&out, 0)
		out = append(out, "}")
	}
	return out
}

func c17SafeByte(c byte) bool {
	return strings.IndexByte(c17SafeTail+c17IdHead+c17NonIdHead, c) >= 0
}

// render pieces with whitespace / comments between them; `sloppy` sometimes omits a separator
// that is needed (a lexical near-miss), otherwise separators are omitted only where harmless.
func (g *c17Gen) render(pieces []string, sloppy bool) string {
	var b strings.Builder
	trivia := func(force bool) {
		n := g.r.Intn(3)
		if force && n == 0 {
			n = 1
		}
		for i := 0; i < n; i++ {
			switch g.r.Intn(14) {
			case 0:
				b.WriteString("\n")
			case 1:
				b.WriteString("\t")
			case 2:
				b.WriteString("\r\n")
			case 3:
				b.WriteString(" # comment { } \" ' /* \n")
				g.stats.Inc("gen.trivia.linecomment")
			case 4:
				b.WriteString(" /* block \n # ' \" * / */ ")
				g.stats.Inc("gen.trivia.blockcomment")
			case 5:
				b.WriteString(" /**/ ")
			case 6:
				b.WriteString(" # comment ended by a lone CR\r")
				g.stats.Inc("gen.trivia.linecomment-cr")
			case 7:
				b.WriteString("\r")
			default:
				b.WriteString(" ")
			}
		}
	}
	if g.r.Chance(0.3) {
		trivia(false)
	}
	for i, p := range pieces {
		b.WriteString(p)
		need := false
		if i+1 < len(pieces) {
			nx := pieces[i+1]
			// a separator is needed when this piece ends a bare word and the next starts with a SAFE_CHAR
			need = len(p) > 0 && len(nx) > 0 && c17SafeByte(p[len(p)-1]) && c17SafeByte(nx[0]) && p != "!" && p != "->"
		} else if g.r.Chance(0.1) {
			b.WriteString("# trailing comment without newline")
			g.stats.Inc("gen.trivia.comment-at-eof")
			break
		}
		if need {
			if sloppy && g.r.Chance(0.05) {
				g.stats.Inc("gen.render.missing-separator")
				continue
			}
			trivia(true)
		} else if g.r.Chance(0.6) {
			trivia(false)
		} else {
			g.stats.Inc("gen.render.compact")
		}
	}
	return b.String()
}

func (g *c17Gen) mutate(pieces []string) []string {
	out := append([]string(nil), pieces...)
	n := 1 + g.r.Intn(2)
	for k := 0; k < n && len(out) > 0; k++ {
		i := g.r.Intn(len(out))
		switch g.r.Intn(5) {
		case 0: // delete
			out = append(out[:i], out[i+1:]...)
			g.stats.Inc("mut.delete")
		case 1: // duplicate
			out = append(out[:i+1], out[i:]...)
			g.stats.Inc("mut.duplicate")
		case 2: // swap with neighbour
			if i+1 < len(out) {
				out[i], out[i+1] = out[i+1], out[i]
			}
			g.stats.Inc("mut.swap")
		case 3: // replace by a random structural token
			out[i] = []string{",", "{", "}", ":", "[", "]", "!", "(", ")", "->", "&&", "a", "'", "\"", "&", ">", "#", "/*"}[g.r.Intn(18)]
			g.stats.Inc("mut.replace")
		default: // insert
			tok := []string{",", "{", "}", ":", "[", "]", "!", "(", ")", "->", "&&", "a", "1", "'q'"}[g.r.Intn(14)]
			out = append(out[:i], append([]string{tok}, out[i:]...)...)
			g.stats.Inc("mut.insert")
		}
	}
	return out
}

func (g *c17Gen) bytes() string {
	n := g.r.Intn(40)
	if g.r.Chance(0.1) {
		n = 100 + g.r.Intn(400)
	}
	b := make([]byte, n)
	switch g.r.Intn(3) {
	case 0: // uniform bytes
		for i := range b {
			b[i] = byte(g.r.Intn(256))
		}
		g.stats.Inc("bytes.uniform")
	case 1: // the lexer's special characters
		const alpha = "a1 \n\r\t{}[]():,!->&&#/*\\\"'-."
		for i := range b {
			b[i] = alpha[g.r.Intn(len(alpha))]
		}
		g.stats.Inc("bytes.special")
	default: // ASCII printable
		for i := range b {
			b[i] = byte(32 + g.r.Intn(95))
		}
		g.stats.Inc("bytes.printable")
	}
	return string(b)
}

var c17Fixed = []string{
	"", " ", "a", "a{", "a{}", "a{}}", "a{} a", "a {} b {}", "{}", "a{b}", "a{b:}", "a{b:c}", "a{b:c,}", "a{b:c,d}", "a{:c}",
	"a{f()->b}", "a{f(x)->b}", "a{f(x)->}", "a{f(x)->'b'}", "a{f(x)->b(c)}", "a{f(x)->b()}", "a{f(x)->!b(c)}", "a{!f(x)->b}", "a{!!f(x)->b}",
	"a{f(x)&&g(y)->b}", "a{f(x)&&->b}", "a{f(x)&g(y)->b}", "a{f(x:)->b}", "a{f(x:y)->b}", "a{f(x:y:z)->b}", "a{f(1:y)->b}", "a{f('x':y)->b}",
	"a{b:c[d]}", "a{b:c[]}", "a{b:c[d:e,f]}", "a{b:f(x)[d]}", "a{b:f(x)&&g(y)}", "a{b:f(x),g(y)}", "a{b:f(x) c}", "a{b: c d: e}", "a{b:[d]}",
	"a{b{c{d{}}}}", "a{b{c{d{}}}", "a{b", "a{b:c}a", "a{b:c} a ", "a{b->c}", "a{'b'->c}", "a{b:c->d}", "a{1}", "a{1:2}", "1{}", "'a'{}",
	"a{f(x,)->b}", "a{f(,x)->b}", "a{f(x y)->b}", "a{f(x)(y)->b}", "a{f(x)->b c}", "a{f(x)->b\ng(y)->c}", "a{b:c\n[d]}", "a{b:c,\nd}",
	"a{\"x\\\"}", "a{\"x\\\"}\"}", "a{'}", "a{\"}", "a{/*}", "a{/**/}", "a{/*b*/c}", "a{/*b*/ c}", "a{#}", "a{#\n}", "a{b:c#d}", "a{b:c #d}",
	"a{b:c}\x00", "\xff", "a{b:\xffc}", "a{b:'\xff'}", "a{é}", "a{'é'}", "a\u00a0{}", "a{b:c}\f", "a{b:c}\v",
}

func TestVerifC17Parse(t *testing.T) {
	shard, shards := VEnvInt("VERIF_SHARD", 0), VEnvInt("VERIF_SHARDS", 1)
	r := NewVRand(VSeed()*1000003 + uint64(shard))
	stats := NewVStats()
	name := fmt.Sprintf("c17p%d", shard)
	st := VOpenStream(name)
	defer func() { st.Close(); stats.Write(name) }()
	g := &c17Gen{r: r, stats: stats}

	st.Emit(c17ProbeClasses(t, stats), "classes ok")

	total := VEnvInt("VERIF_C17_PARSE_N", 32000)
	if VThorough() {
		total = VEnvInt("VERIF_C17_PARSE_N", 400000)
	}
	n := total / shards
	emit := func(kind, in string) {
		out := c17ParseOut(in)
		switch {
		case strings.HasPrefix(out, "ok"):
			stats.Inc(kind + ".accepted")
		case out == "err":
			stats.Inc(kind + ".rejected")
		default:
			stats.Inc(kind + ".CRASH")
		}
		st.Emit("p "+c17Hex(in), out)
	}
	if shard == 0 {
		for _, s := range c17Fixed {
			emit("fixed", s)
		}
	}
	for i := 0; i < n; i++ {
		switch k := i % 10; {
		case k < 4: // grammar-generated, well-formed rendering
			pieces := g.prog()
			in := g.render(pieces, false)
			if i < 40 && shard == 0 && len(in) < 300 {
				stats.Sample("grammar: " + in)
			}
			stats.Add("grammar.pieces", len(pieces))
			emit("grammar", in)
		case k < 8: // token-level near misses
			pieces := g.mutate(g.prog())
			in := g.render(pieces, true)
			if i < 40 && shard == 0 && len(in) < 200 {
				stats.Sample("nearmiss: " + in)
			}
			emit("nearmiss", in)
		default:
			emit("bytes", g.bytes())
		}
	}
}
