package daedns

// C04 correspondence harness, part 2: the DNS *request* pipeline as daedns.NewWithOption runs it
// (dat -> merge-and-sort -> dedup -> SplitRequestRules) on rule lists that mix ordinary qname/qtype
// rules with dae's internal selectors sub()/node()/subnode().  The three selector categories are
// compiled by the REAL compileMatcher and evaluated on generated subscription / node descriptions;
// the ordinary category by the REAL RequestMatcher.  Protocol: lean/DaeVerif/C04/Main.lean.

import (
	"context"
	"encoding/json"
	"errors"
	"fmt"
	"go/ast"
	"go/parser"
	"go/token"
	"os"
	"path/filepath"
	"reflect"
	"strings"
	"testing"
	"unsafe"

	"github.com/daeuniverse/dae/common/assets"
	"github.com/daeuniverse/dae/common/consts"
	componentdns "github.com/daeuniverse/dae/component/dns"
	"github.com/daeuniverse/dae/component/routing"
	"github.com/daeuniverse/dae/config"
	"github.com/daeuniverse/dae/pkg/config_parser"
	"github.com/daeuniverse/dae/pkg/geodata"
	"github.com/daeuniverse/outbound/protocol/direct"
	"github.com/sirupsen/logrus"
	"google.golang.org/protobuf/proto"
)

type s04Rule = config_parser.RoutingRule
type s04Func = config_parser.Function
type s04Param = config_parser.Param

func s04Tok(s string) string {
	if s == "" {
		return "~"
	}
	return s
}

func s04SerFunc(sb *strings.Builder, f *s04Func) {
	neg := "0"
	if f.Not {
		neg = "1"
	}
	fmt.Fprintf(sb, "%s %s %d", s04Tok(f.Name), neg, len(f.Params))
	for _, p := range f.Params {
		sb.WriteString(" " + s04Tok(p.Key) + " " + s04Tok(p.Val))
	}
}

func s04SerProg(rules []*s04Rule) string {
	var sb strings.Builder
	fmt.Fprintf(&sb, "%d", len(rules))
	for _, r := range rules {
		fmt.Fprintf(&sb, " %d", len(r.AndFunctions))
		for _, f := range r.AndFunctions {
			sb.WriteString(" ")
			s04SerFunc(&sb, f)
		}
		sb.WriteString(" ")
		s04SerFunc(&sb, &r.Outbound)
	}
	return sb.String()
}

func s04Text(rules []*s04Rule) []string {
	out := make([]string, len(rules))
	for i, r := range rules {
		out[i] = r.String(false, false, true)
	}
	return out
}

type s04Input struct {
	tag, link, name string // subscription tag / link, node name
	qname           string
	qtype           uint16
}

func (in *s04Input) String(cat string) string {
	switch cat {
	case "sub":
		return fmt.Sprintf("subscription tag=%q link=%q", in.tag, in.link)
	case "dns":
		return fmt.Sprintf("qname=%q qtype=%d", in.qname, in.qtype)
	default:
		return fmt.Sprintf("node name=%q link=%q subscription_tag=%q", in.name, in.link, in.tag)
	}
}

type s04Atom struct{ name, key, val string }

type s04Env struct {
	log    *logrus.Logger
	ups    map[string]uint8
	r      *Router
	atomM  map[s04Atom]any
	stats  *VStats
	stages []string
	lf     *assets.LocationFinder
	hr     *VRand // history mode: the same config.Dns object is consumed by several constructors in a row
	dnsNew bool   // componentdns.New is usable as the third consumer
}

// ---------------------------------------------------------------- geodata fixture (ground truth kept in memory)

var s04Sites = map[string][]s04Param{
	"ONE":   {{Key: "full", Val: "a.com"}},
	"TWO":   {{Key: "suffix", Val: "x.org"}, {Key: "keyword", Val: "a.c"}},
	"EMPTY": {},
}

func s04WriteGeo(dir string) error {
	l := &geodata.GeoSiteList{}
	for _, code := range []string{"ONE", "TWO", "EMPTY"} {
		e := &geodata.GeoSite{CountryCode: code}
		for _, p := range s04Sites[code] {
			t := map[string]geodata.Domain_Type{"full": geodata.Domain_Full, "suffix": geodata.Domain_RootDomain, "keyword": geodata.Domain_Plain}[p.Key]
			d := &geodata.Domain{Type: t, Value: p.Val}
			if code == "TWO" && p.Key == "suffix" {
				d.Attribute = []*geodata.Domain_Attribute{{Key: "x"}}
			}
			e.Domain = append(e.Domain, d)
		}
		l.Entry = append(l.Entry, e)
	}
	b, err := proto.Marshal(l)
	if err != nil {
		return err
	}
	return os.WriteFile(filepath.Join(dir, "geosite.dat"), b, 0o644)
}

// documented expansion of `geosite:code[@attr]` for this fixture.
func s04Expected(val string) ([]s04Param, bool) {
	code, attr, _ := strings.Cut(val, "@")
	ps, ok := s04Sites[strings.ToUpper(code)]
	if !ok {
		return nil, false
	}
	if attr == "" {
		return ps, true
	}
	out := []s04Param{}
	if strings.ToUpper(code) == "TWO" && strings.EqualFold(attr, "x") {
		out = append(out, ps[0])
	}
	return out, true
}

// the stages the harness can run: the list found in the source if made of known optimizers, else the
// documented one.
func s04Usable(found []string) []string {
	def := []string{"DatReaderOptimizer", "MergeAndSortRulesOptimizer", "DeduplicateParamsOptimizer"}
	if len(found) == 0 {
		return def
	}
	for _, n := range found {
		switch n {
		case "AliasOptimizer", "DatReaderOptimizer", "MergeAndSortRulesOptimizer", "DeduplicateParamsOptimizer":
		default:
			return def
		}
	}
	return found
}

// The four matchers as production builds them: the REAL NewWithOption on a config.Dns holding the
// rule list (upstream initialisation, optimizer chain, SplitRequestRules, RequestMatcher builder,
// the three compileMatcher calls).
func (e *s04Env) production(rules []*s04Rule, fb string) (map[string]*s04Matcher, bool) {
	cfg := &config.Dns{Upstream: []config.KeyableString{"alidns:udp://223.5.5.5:53", "googledns:udp://8.8.8.8:53", "cf:udp://1.1.1.1:53"}}
	cfg.Routing.Request.Rules = rules
	cfg.Routing.Request.Fallback = fb
	cfg.Routing.Response.Fallback = "accept"
	r, err := NewWithOption(e.log, &config.Global{}, cfg, &NewOption{LocationFinder: e.lf})
	if err != nil {
		return nil, false
	}
	// History as production has it: cmd/run.go builds a router from conf.Dns for the subscription fetches, then
	// NewControlPlane builds ANOTHER router from the same config.Dns object and, further down, hands that very
	// object to dns.New.  The matchers that decide in this mode are the ones of the LATER consumers; they must
	// decide like those of a first and only consumer (which is what the model is compared with).
	var rq3 *componentdns.RequestMatcher
	if e.hr.Chance(0.4) {
		before := s04SerProg(rules)
		r2, err2 := NewWithOption(e.log, &config.Global{}, cfg, &NewOption{LocationFinder: e.lf})
		if err2 != nil || (r2 == nil) != (r == nil) {
			e.stats.Inc("history.second_consumer_DISAGREES_on_acceptance")
			return nil, false
		}
		r = r2
		e.stats.Inc("history.programs_decided_by_second_router")
		if e.dnsNew {
			d, err3 := componentdns.New(cfg, &componentdns.NewOption{Logger: e.log, LocationFinder: e.lf})
			if err3 == nil && d != nil {
				v := reflect.ValueOf(d).Elem().FieldByName("reqMatcher")
				if v.IsValid() && v.Type() == reflect.TypeOf((*componentdns.RequestMatcher)(nil)) {
					rq3 = *(**componentdns.RequestMatcher)(unsafe.Pointer(v.UnsafeAddr()))
					e.stats.Inc("history.request_matcher_of_third_consumer_dns.New")
				} else {
					e.dnsNew = false
					e.stats.Inc("history.dns.New_NOT_usable")
				}
			} else {
				e.stats.Inc("history.dns.New_rejected_what_NewWithOption_accepted")
			}
		}
		if s04SerProg(rules) != before {
			e.stats.Inc("history.written_rules_mutated_by_a_consumer")
		}
	}
	if r == nil { // no rule at all: production uses no router
		return map[string]*s04Matcher{}, true
	}
	m := map[string]*s04Matcher{
		"nodeall": {cat: "nodeall", router: r},
		"own":     {cat: "own", router: r},
		"ownsub":  {cat: "ownsub", router: r},
		"sub":     {cat: "sub", sub: r.subMatcher},
		"node":    {cat: "node", nd: r.nodeMatcher},
		"subnode": {cat: "subnode", nd: r.subNodeMatcher},
		"dns":     {cat: "dns", rq: r.requestMatcher},
	}
	if rq3 != nil {
		m["dns"] = &s04Matcher{cat: "dns", rq: rq3}
	}
	return m, true
}

// the upstream a lookup ends at, canonical: index of the upstream whose address it is; the pass-through
// actions asis / reject (both hand dae's own lookup to the base resolver) -> the asis index.
var s04UpHosts = map[string]uint8{"223.5.5.5": 0, "8.8.8.8": 1, "1.1.1.1": 2}

func s04Pass() string { return fmt.Sprintf("%d.0.0", consts.DnsRequestOutboundIndex_AsIs) }

// dae's own lookup, the production path: the dialer wrapper picks the upstream NAME by the internal selectors,
// Router.selectUpstream (called by LookupIPAddr once per question type) takes that upstream or asks the request
// matcher about the question.
func (m *s04Matcher) own(in *s04Input) string {
	var d any
	var err error
	if m.cat == "own" {
		d, err = m.router.WrapNodeDialer(direct.SymmetricDirect, NodeMeta{SubscriptionTag: in.tag, Name: in.name, Link: in.link, AddressHost: "node.example"})
	} else {
		raw := in.link
		if in.tag != "" {
			raw = in.tag + ":" + in.link
		}
		d, err = m.router.WrapSubscriptionDialer(direct.SymmetricDirect, raw)
	}
	if err != nil {
		return "wraperr"
	}
	rd, ok := d.(*resolvingDialer)
	if !ok {
		return s04Pass() // the base dialer: the base resolver answers
	}
	if rd.router != m.router || rd.controlUpstreamName != rd.upstreamName {
		return "wrapped-with-other-router-or-control-upstream"
	}
	up, err := m.router.selectUpstream(context.Background(), rd.upstreamName, in.qname, in.qtype)
	if err != nil {
		if errors.Is(err, errPassthroughToBaseResolver) {
			return s04Pass()
		}
		return "selecterr"
	}
	id, ok := s04UpHosts[up.Hostname]
	if !ok {
		return "unknown-upstream-" + up.Hostname
	}
	return fmt.Sprintf("%d.0.0", id)
}

var s04UpNames = []string{"alidns", "googledns", "cf"}

// NewWithOption's normalising call, read from the source of the repo under test: optimizer types in
// order, fields set on an optimizer literal other than Logger / LocationFinder, and whether the
// arguments have the expected shape (<x>.Rules, <x>.Fallback, inline literals).  The decisions of this
// stream come from the REAL NewWithOption, so the rest of its glue is executed, not read.
func s04ExprStr(e ast.Expr) string {
	switch x := e.(type) {
	case *ast.Ident:
		return x.Name
	case *ast.SelectorExpr:
		return s04ExprStr(x.X) + "." + x.Sel.Name
	}
	return "?"
}

func s04ReadSite() (names []string, line string) {
	repo := os.Getenv("VERIF_REPO")
	if repo == "" {
		repo = "/repo"
	}
	glue := "ok"
	var fields []string
	f, err := parser.ParseFile(token.NewFileSet(), filepath.Join(repo, "component/daedns/router.go"), nil, 0)
	if err != nil {
		return nil, "pipeline= fields=none glue=source-not-parsed"
	}
	var call *ast.CallExpr
	ast.Inspect(f, func(n ast.Node) bool {
		if c, ok := n.(*ast.CallExpr); ok && call == nil {
			if sel, ok := c.Fun.(*ast.SelectorExpr); ok && sel.Sel.Name == "NewNormalizedRequestRoutingProgram" && len(c.Args) > 2 {
				call = c
			}
		}
		return true
	})
	if call == nil {
		return nil, "pipeline= fields=none glue=call-not-found"
	}
	a0, ok0 := call.Args[0].(*ast.SelectorExpr)
	a1, ok1 := call.Args[1].(*ast.SelectorExpr)
	if !ok0 || !ok1 || a0.Sel.Name != "Rules" || a1.Sel.Name != "Fallback" || s04ExprStr(a0.X) != s04ExprStr(a1.X) {
		glue = "rules-and-fallback-not-of-one-value"
	}
	for _, a := range call.Args[2:] {
		u, ok := a.(*ast.UnaryExpr)
		var cl *ast.CompositeLit
		if ok {
			cl, ok = u.X.(*ast.CompositeLit)
		}
		if !ok {
			glue = "optimizer-not-an-inline-literal"
			continue
		}
		name := s04ExprStr(cl.Type)
		if i := strings.LastIndex(name, "."); i >= 0 {
			name = name[i+1:]
		}
		names = append(names, name)
		for _, el := range cl.Elts {
			if kv, ok := el.(*ast.KeyValueExpr); ok {
				if k := s04ExprStr(kv.Key); k != "Logger" && k != "LocationFinder" {
					fields = append(fields, name+"."+k)
				}
			} else {
				fields = append(fields, name+".<positional>")
			}
		}
	}
	fs := "none"
	if len(fields) > 0 {
		fs = strings.Join(fields, ",")
	}
	return names, "pipeline=" + strings.Join(names, ",") + " fields=" + fs + " glue=" + glue
}

func (e *s04Env) optimizers() []routing.RulesOptimizer {
	var out []routing.RulesOptimizer
	for _, n := range e.stages {
		switch n {
		case "AliasOptimizer":
			out = append(out, &routing.AliasOptimizer{})
		case "DatReaderOptimizer":
			out = append(out, &routing.DatReaderOptimizer{Logger: e.log, LocationFinder: e.lf})
		case "MergeAndSortRulesOptimizer":
			out = append(out, &routing.MergeAndSortRulesOptimizer{})
		case "DeduplicateParamsOptimizer":
			out = append(out, &routing.DeduplicateParamsOptimizer{})
		}
	}
	return out
}

// one category of one normalised program, compiled by the real code.
type s04Matcher struct {
	router *Router // cat "nodeall": the exported MatchNodeUpstream (subnode rules first, then node rules)
	cat    string
	sub    *compiledMatcher[subscriptionMeta]
	nd     *compiledMatcher[NodeMeta]
	rq     *componentdns.RequestMatcher
}

func (e *s04Env) compileCat(cat string, prog *componentdns.NormalizedRequestRoutingProgram) (*s04Matcher, bool) {
	var err error
	m := &s04Matcher{cat: cat}
	switch cat {
	case "sub":
		m.sub, err = e.r.compileSubscriptionMatcher(prog.SubscriptionRules)
	case "node":
		m.nd, err = e.r.compileNodeMatcher(prog.NodeRules)
	case "subnode":
		m.nd, err = e.r.compileSubNodeMatcher(prog.SubNodeRules)
	default:
		var b *componentdns.RequestMatcherBuilder
		b, err = componentdns.NewRequestMatcherBuilderFromProgram(e.log, prog, e.ups)
		if err == nil {
			m.rq, err = b.Build()
		}
	}
	return m, err == nil
}

func (e *s04Env) upId(name string, ok bool) string {
	if !ok {
		return "9999.0.0"
	}
	return fmt.Sprintf("%d.0.0", e.ups[name])
}

func (m *s04Matcher) decide(e *s04Env, in *s04Input) string {
	return VRecover(func() string {
		switch m.cat {
		case "sub":
			up, ok := m.sub.Match(subscriptionMeta{Tag: in.tag, Link: in.link})
			return e.upId(up, ok)
		case "node", "subnode":
			up, ok := m.nd.Match(NodeMeta{SubscriptionTag: in.tag, Name: in.name, Link: in.link})
			return e.upId(up, ok)
		case "nodeall":
			up, ok := m.router.MatchNodeUpstream(NodeMeta{SubscriptionTag: in.tag, Name: in.name, Link: in.link})
			return e.upId(up, ok)
		case "own", "ownsub":
			return m.own(in)
		default:
			up, err := m.rq.Match(in.qname, in.qtype)
			if err != nil {
				return "matcherr"
			}
			return fmt.Sprintf("%d.0.0", up)
		}
	})
}

func s04One(name, key, val, out string) []*s04Rule {
	return []*s04Rule{{
		AndFunctions: []*s04Func{{Name: name, Params: []*s04Param{{Key: key, Val: val}}}},
		Outbound:     s04Func{Name: out},
	}}
}

func s04CatOf(name string) string {
	switch name {
	case "sub", "node", "subnode":
		return name
	}
	return "dns"
}

// truth of one value through the real code on a one-value program.
func (e *s04Env) truth(a s04Atom, in *s04Input) (bool, bool) {
	mv, seen := e.atomM[a]
	if !seen {
		prog, err := componentdns.NewNormalizedRequestRoutingProgram(s04One(a.name, a.key, a.val, "alidns"), "asis")
		if err != nil {
			e.atomM[a] = nil
			return false, false
		}
		m, ok := e.compileCat(s04CatOf(a.name), prog)
		if !ok {
			e.atomM[a] = nil
			return false, false
		}
		e.atomM[a] = m
		mv = m
	}
	if mv == nil {
		return false, false
	}
	return mv.(*s04Matcher).decide(e, in) == "0.0.0", true
}

// ---------------------------------------------------------------- generators

var (
	s04Tags   = []string{"my_sub", "other", "s1"}
	s04Names  = []string{"hk-1", "jp-2", "us-3", "hk-2"}
	s04Kw     = []string{"hk", "jp", "-", "1"}
	s04Re     = []string{"^hk", "\\d$", "^(jp|us)-", "sub"}
	s04LinkKw = []string{"example", "special", "ss://"}
	s04LinkRe = []string{"^https://", "special-\\w+"}
	s04Links  = []string{"https://a.example/sub", "https://special-provider.example/s", "ss://abc@1.2.3.4:8388", ""}
	s04Suffix = []string{"a.com", "x.org", "b.a.com"}
	s04Qtypes = []string{"a", "aaaa", "28", "cname"}
	s04Qnames = []string{"a.com", "www.a.com", "x.org", "zzz.net", "b.a.com"}
)

func s04Pick(r *VRand, s []string) string { return s[r.Intn(len(s))] }

func s04GenParam(r *VRand, name string) *s04Param {
	switch name {
	case "sub":
		switch r.Intn(6) {
		case 0:
			return &s04Param{Key: "", Val: s04Pick(r, s04Tags)}
		case 1:
			return &s04Param{Key: "tag", Val: s04Pick(r, s04Tags)}
		case 2:
			return &s04Param{Key: s04Pick(r, []string{"tag_regex", "regex"}), Val: s04Pick(r, s04Re)}
		case 3:
			return &s04Param{Key: "link_keyword", Val: s04Pick(r, s04LinkKw)}
		case 4:
			return &s04Param{Key: "link_regex", Val: s04Pick(r, s04LinkRe)}
		default:
			return &s04Param{Key: "", Val: s04Pick(r, s04Tags)}
		}
	case "node":
		switch r.Intn(6) {
		case 0:
			return &s04Param{Key: "", Val: s04Pick(r, s04Names)}
		case 1:
			return &s04Param{Key: "name", Val: s04Pick(r, s04Names)}
		case 2:
			return &s04Param{Key: "name_keyword", Val: s04Pick(r, s04Kw)}
		case 3:
			return &s04Param{Key: "name_regex", Val: s04Pick(r, s04Re)}
		case 4:
			return &s04Param{Key: "link_keyword", Val: s04Pick(r, s04LinkKw)}
		default:
			return &s04Param{Key: "link_regex", Val: s04Pick(r, s04LinkRe)}
		}
	case "subnode":
		switch r.Intn(7) {
		case 0:
			return &s04Param{Key: "", Val: s04Pick(r, s04Tags)}
		case 1:
			return &s04Param{Key: "subtag", Val: s04Pick(r, s04Tags)}
		case 2:
			return &s04Param{Key: s04Pick(r, []string{"subtag_regex", "regex"}), Val: s04Pick(r, s04Re)}
		case 3:
			return &s04Param{Key: "name", Val: s04Pick(r, s04Names)}
		case 4:
			return &s04Param{Key: "name_keyword", Val: s04Pick(r, s04Kw)}
		case 5:
			return &s04Param{Key: "name_regex", Val: s04Pick(r, s04Re)}
		default:
			return &s04Param{Key: "link_keyword", Val: s04Pick(r, s04LinkKw)}
		}
	case "qname":
		if r.Chance(0.25) {
			return &s04Param{Key: "geosite", Val: s04Pick(r, []string{"one", "two", "two@x", "two@nosuch", "empty", "ONE"})}
		}
		if r.Bool() {
			return &s04Param{Key: "suffix", Val: s04Pick(r, s04Suffix)}
		}
		return &s04Param{Key: s04Pick(r, []string{"full", "keyword"}), Val: s04Pick(r, s04Suffix)}
	default:
		return &s04Param{Val: s04Pick(r, s04Qtypes)}
	}
}

func s04GenFunc(r *VRand, name string, neg bool) *s04Func {
	f := &s04Func{Name: name, Not: neg}
	n := 1 + r.Intn(3)
	for i := 0; i < n; i++ {
		p := s04GenParam(r, name)
		if name != "qname" && name != "qtype" && r.Chance(0.04) {
			// a geodata reference inside an internal selector: only an EMPTY expansion gets past the
			// selector compiler's key check, and it must not turn the selector into the catch-all
			p = &s04Param{Key: "geosite", Val: s04Pick(r, []string{"empty", "two@nosuch", "one"})}
		}
		f.Params = append(f.Params, p)
		if r.Chance(0.2) {
			f.Params = append(f.Params, &s04Param{Key: p.Key, Val: p.Val})
		}
	}
	return f
}

// runs of rules sharing selector, negation and upstream, interleaved with ordinary DNS rules.
func s04GenProg(r *VRand, st *VStats) []*s04Rule {
	var rules []*s04Rule
	names := []string{"sub", "node", "subnode", "node", "subnode", "qname", "qtype"}
	nRuns := 1 + r.Intn(5)
	for run := 0; run < nRuns; run++ {
		name := s04Pick(r, names)
		neg := r.Chance(0.15)
		up := s04Pick(r, s04UpNames)
		if (name == "qname" || name == "qtype") && r.Chance(0.2) { // the pass-through actions (only ordinary rules may name them)
			up = s04Pick(r, []string{"asis", "reject"})
		}
		runLen := 1 + r.Intn(4)
		for i := 0; i < runLen; i++ {
			ng := neg
			if r.Chance(0.1) {
				ng = !ng
			}
			rule := &s04Rule{AndFunctions: []*s04Func{s04GenFunc(r, name, ng)}}
			if r.Chance(0.2) { // second condition of the same category (a rule may not mix categories)
				other := name
				if name == "qname" {
					other = "qtype"
				} else if name == "qtype" {
					other = "qname"
				}
				rule.AndFunctions = append(rule.AndFunctions, s04GenFunc(r, other, r.Chance(0.3)))
				if r.Bool() {
					rule.AndFunctions[0], rule.AndFunctions[1] = rule.AndFunctions[1], rule.AndFunctions[0]
				}
			}
			if r.Chance(0.02) { // a rule mixing categories: the split must refuse the whole list
				rule.AndFunctions = append(rule.AndFunctions, s04GenFunc(r, s04Pick(r, []string{"qname", "node", "sub"}), false))
				st.Inc("gen.maybe_mixed_rule")
			}
			u := up
			if r.Chance(0.15) {
				u = s04Pick(r, s04UpNames)
			}
			ordinary := true
			for _, f := range rule.AndFunctions {
				if f.Name != "qname" && f.Name != "qtype" {
					ordinary = false
				}
			}
			if u == "asis" || u == "reject" {
				if ordinary {
					st.Inc("gen.ordinary_rule_with_asis_or_reject")
				} else {
					u = s04Pick(r, s04UpNames)
				}
			}
			rule.Outbound = s04Func{Name: u}
			rules = append(rules, rule)
		}
	}
	return rules
}

func s04GenInput(r *VRand) *s04Input {
	in := &s04Input{link: s04Pick(r, s04Links), name: s04Pick(r, append(s04Names, "manual", "sub-node")), qname: s04Pick(r, s04Qnames)}
	in.tag = s04Pick(r, append(s04Tags, "", "", "hk-sub"))
	in.qtype = []uint16{1, 28, 5}[r.Intn(3)]
	return in
}

type s04Descr struct {
	Kind    string   `json:"kind"`
	Backend string   `json:"backend,omitempty"`
	Tag     string   `json:"tag,omitempty"`
	Text    []string `json:"text,omitempty"`
	Fb      string   `json:"fallback,omitempty"`
	Changed bool     `json:"changed,omitempty"`
	Pkt     string   `json:"pkt,omitempty"`
}

type s04Out struct {
	st    *VStream
	descr *os.File
}

func (o *s04Out) emit(op, impl string, d s04Descr) {
	o.st.Emit(op, impl)
	b, _ := json.Marshal(d)
	o.descr.Write(append(b, '\n'))
}

func s04SpecCat(cat string, rules []*s04Rule, truth map[s04Atom]bool, guardSubnode bool, ups map[string]uint8, fb string) string {
	for _, r := range rules {
		all := true
		for _, f := range r.AndFunctions {
			if s04CatOf(f.Name) != cat {
				all = false
				break
			}
			any := false
			for _, p := range f.Params {
				if truth[s04Atom{f.Name, p.Key, p.Val}] {
					any = true
				}
			}
			hold := any != f.Not
			if f.Name == "subnode" && !guardSubnode {
				hold = false
			}
			if !hold {
				all = false
				break
			}
		}
		if all {
			switch r.Outbound.Name {
			case "asis":
				return fmt.Sprintf("%d.0.0", consts.DnsRequestOutboundIndex_AsIs)
			case "reject":
				return fmt.Sprintf("%d.0.0", consts.DnsRequestOutboundIndex_Reject)
			}
			return fmt.Sprintf("%d.0.0", ups[r.Outbound.Name])
		}
	}
	return fb
}

func (e *s04Env) fbIndex(fb string) int {
	switch fb {
	case "asis":
		return int(consts.DnsRequestOutboundIndex_AsIs)
	case "reject":
		return int(consts.DnsRequestOutboundIndex_Reject)
	}
	return int(e.ups[fb])
}

func (e *s04Env) runProgram(o *s04Out, r *VRand, tag string, rules []*s04Rule, fb string, nInputs int, fixed []*s04Input) {
	st := e.stats
	st.Inc("fallback." + fb)
	if len(rules) == 0 {
		st.Inc("programs_with_empty_rule_list")
	}
	// what an outbound decides: upstream index / the asis and reject actions; for dae's own lookups
	// (own, ownsub) both actions mean "the base resolver" and are reported as the asis index
	outId := func(name string, own bool) int {
		switch name {
		case "asis":
			return int(consts.DnsRequestOutboundIndex_AsIs)
		case "reject":
			if own {
				return int(consts.DnsRequestOutboundIndex_AsIs)
			}
			return int(consts.DnsRequestOutboundIndex_Reject)
		}
		return int(e.ups[name])
	}
	labels := func(own bool) []string {
		var labelToks []string
		seenOut := map[string]bool{}
		for _, rule := range rules {
			var sb strings.Builder
			s04SerFunc(&sb, &rule.Outbound)
			if !seenOut[sb.String()] {
				seenOut[sb.String()] = true
				labelToks = append(labelToks, fmt.Sprintf("%s F %d 0 0", sb.String(), outId(rule.Outbound.Name, own)))
			}
		}
		return labelToks
	}
	// geodata references -> documented expansion (from the fixture's ground truth)
	var geoToks []string
	seenGeo := map[string]bool{}
	for _, rule := range rules {
		for _, f := range rule.AndFunctions {
			for _, p := range f.Params {
				if p.Key != "geosite" || seenGeo[p.Val] {
					continue
				}
				seenGeo[p.Val] = true
				ps, ok := s04Expected(p.Val)
				if !ok {
					geoToks = append(geoToks, "site geosite "+s04Tok(p.Val)+" !")
					continue
				}
				if len(ps) == 0 {
					st.Inc("gen.geodata_empty_expansion")
				}
				var sb strings.Builder
				fmt.Fprintf(&sb, "site geosite %s %d", s04Tok(p.Val), len(ps))
				for _, q := range ps {
					sb.WriteString(" " + s04Tok(q.Key) + " " + s04Tok(q.Val))
				}
				geoToks = append(geoToks, sb.String())
			}
		}
	}
	datOnly := func() []routing.RulesOptimizer {
		return []routing.RulesOptimizer{&routing.DatReaderOptimizer{Logger: e.log, LocationFinder: e.lf}}
	}
	// the rules as expanded by the real dat stage: atoms, brute-force spec
	E, errE := routing.ApplyRulesOptimizers(rules, datOnly()...)
	var atoms []s04Atom
	if errE == nil {
		seen := map[s04Atom]bool{}
		for _, rule := range E {
			for _, f := range rule.AndFunctions {
				for _, p := range f.Params {
					a := s04Atom{f.Name, p.Key, p.Val}
					if !seen[a] {
						seen[a] = true
						atoms = append(atoms, a)
					}
				}
			}
		}
	}
	var atomToks []string
	for _, a := range atoms {
		atomToks = append(atomToks, s04Tok(a.name)+" "+s04Tok(a.key)+" "+s04Tok(a.val))
	}
	normalised, err := routing.ApplyRulesOptimizers(rules, e.optimizers()...)
	opt := "err"
	if err == nil {
		opt = s04SerProg(normalised)
	}
	prog, perr := componentdns.NewNormalizedRequestRoutingProgram(rules, config.FunctionOrString(fb), e.optimizers()...)
	progRaw, rerr := componentdns.NewNormalizedRequestRoutingProgram(rules, config.FunctionOrString(fb), datOnly()...)
	prod, pok := e.production(rules, fb)
	if pok {
		st.Inc("programs_built_by_real_NewWithOption")
	} else {
		st.Inc("programs_rejected_by_real_NewWithOption")
	}
	inputs := append([]*s04Input(nil), fixed...)
	for i := 0; i < nInputs; i++ {
		inputs = append(inputs, s04GenInput(r))
	}
	changed := err == nil && errE == nil && opt != s04SerProg(E)
	for _, cat := range []string{"sub", "node", "subnode", "dns", "nodeall", "own", "ownsub"} {
		own := cat == "own" || cat == "ownsub"
		labelToks := labels(own)
		split := "err"
		if perr == nil {
			switch cat {
			case "sub", "ownsub":
				split = fmt.Sprint(len(prog.SubscriptionRules))
			case "node":
				split = fmt.Sprint(len(prog.NodeRules))
			case "subnode", "nodeall", "own":
				split = fmt.Sprint(len(prog.SubNodeRules))
			default:
				split = fmt.Sprint(len(prog.Rules))
			}
		} else {
			st.Inc(cat + ".split_or_opt_error")
		}
		var mRaw, mRaw2, mRaw3 *s04Matcher
		if rerr == nil {
			if cat == "nodeall" || cat == "own" {
				a, ok1 := e.compileCat("subnode", progRaw)
				b, ok2 := e.compileCat("node", progRaw)
				c, ok3 := e.compileCat("dns", progRaw)
				if ok1 && ok2 && (cat == "nodeall" || ok3) {
					mRaw, mRaw2, mRaw3 = a, b, c
				}
			} else if cat == "ownsub" {
				a, ok1 := e.compileCat("sub", progRaw)
				c, ok3 := e.compileCat("dns", progRaw)
				if ok1 && ok3 {
					mRaw, mRaw3 = a, c
				}
			} else if mm, ok := e.compileCat(cat, progRaw); ok {
				mRaw = mm
			}
		}
		backend, fbTok, fbDec, gn := "sel", "9999 0 0", "9999.0.0", "GN 0"
		// what "no router" means for this category: selectors have no match; ordinary questions are left to the
		// base resolver, which is what the pass-through fallbacks asis / reject decide as well
		noRouter := fbDec
		if cat == "dns" {
			backend = "scansplit"
			fbTok = fmt.Sprintf("%d 0 0", e.fbIndex(fb))
			fbDec = fmt.Sprintf("%d.0.0", e.fbIndex(fb))
			noRouter = fbDec
			if fb != "asis" && fb != "reject" {
				noRouter = fmt.Sprintf("%d.0.0", consts.DnsRequestOutboundIndex_AsIs)
			}
		}
		if own { // the request fallback decides when neither a selector nor an ordinary rule matches
			fbTok = fmt.Sprintf("%d 0 0", outId(fb, true))
			fbDec = fmt.Sprintf("%d.0.0", outId(fb, true))
			noRouter = s04Pass()
		}
		if cat == "subnode" || cat == "nodeall" || cat == "own" {
			gn = "GN 1 subnode"
		}
		mcat := cat
		switch cat {
		case "nodeall":
			backend, mcat = "selnode", "node"
		case "own":
			backend, mcat = "own", "node"
		case "ownsub":
			backend, mcat = "ownsub", "sub"
		}
		op := fmt.Sprintf("P %s %s 0 G %d %s L %d %s FB %s FBW %s 0 0 MX %d A %d %s %s %s", backend, mcat, len(geoToks), strings.Join(geoToks, " "),
			len(labelToks), strings.Join(labelToks, " "), fbTok, fb, consts.MaxMatchSetLen, len(atoms), strings.Join(atomToks, " "), gn, s04SerProg(rules))
		op = strings.Join(strings.Fields(op), " ")
		o.emit(op, "opt="+opt+" split="+split+" fb="+fbDec, s04Descr{Kind: "P", Backend: "daedns/" + cat, Tag: tag, Text: s04Text(rules), Fb: fb, Changed: changed})
		st.Inc(cat + ".programs")
		if changed {
			st.Inc(cat + ".programs_changed_by_normalisation")
		}
		if errE != nil {
			continue
		}
		for _, in := range inputs {
			truth := map[s04Atom]bool{}
			bits := make([]byte, len(atoms))
			bad := false
			for i, a := range atoms {
				t, ok := e.truth(a, in)
				if !ok {
					bad = true
					break
				}
				truth[a] = t
				bits[i] = '0'
				if t {
					bits[i] = '1'
				}
			}
			if bad {
				st.Inc(cat + ".skipped_atom_error")
				break
			}
			bs := string(bits)
			if bs == "" {
				bs = "-"
			}
			gb := "-"
			if cat == "subnode" || cat == "nodeall" || cat == "own" {
				gb = "0"
				if in.tag != "" {
					gb = "1"
				}
			}
			dec := "err"
			if pok {
				if m := prod[cat]; m != nil {
					dec = m.decide(e, in)
				} else {
					dec = noRouter // production built no router at all
				}
			}
			raw := "err"
			if mRaw != nil {
				none := "9999.0.0"
				switch cat {
				case "nodeall":
					raw = mRaw.decide(e, in)
					if in.tag == "" || raw == fbDec {
						raw = mRaw2.decide(e, in)
					}
				case "own", "ownsub":
					// the un-normalised program, category by category, in the documented precedence
					raw = none
					if cat == "ownsub" || in.tag != "" {
						raw = mRaw.decide(e, in)
					}
					if raw == none && cat == "own" {
						raw = mRaw2.decide(e, in)
					}
					if raw == none {
						raw = mRaw3.decide(e, in)
						if raw == fmt.Sprintf("%d.0.0", consts.DnsRequestOutboundIndex_Reject) {
							raw = s04Pass()
						}
					}
				default:
					raw = mRaw.decide(e, in)
				}
			}
			spec := s04SpecCat(cat, E, truth, in.tag != "", e.ups, fbDec)
			if cat == "nodeall" { // documented precedence on the written list: subnode rules first, then node rules
				spec = fbDec
				if in.tag != "" {
					spec = s04SpecCat("subnode", E, truth, true, e.ups, fbDec)
				}
				if spec == fbDec {
					spec = s04SpecCat("node", E, truth, in.tag != "", e.ups, fbDec)
					if spec != fbDec && in.tag != "" {
						st.Inc("nodeall.decision.node_rule_after_subnode_miss")
					}
				} else {
					st.Inc("nodeall.decision.subnode_rule")
				}
			}
			if own { // selectors of the written list first (own: subnode before node), then the ordinary rules, then the fallback
				none := "9999.0.0"
				spec = none
				if cat == "ownsub" {
					spec = s04SpecCat("sub", E, truth, false, e.ups, none)
				} else {
					if in.tag != "" {
						spec = s04SpecCat("subnode", E, truth, true, e.ups, none)
					}
					if spec == none {
						spec = s04SpecCat("node", E, truth, in.tag != "", e.ups, none)
					}
				}
				if spec != none {
					st.Inc(cat + ".decision.by_selector_rule")
				} else {
					spec = s04SpecCat("dns", E, truth, false, e.ups, none)
					if spec == fmt.Sprintf("%d.0.0", consts.DnsRequestOutboundIndex_Reject) {
						spec = s04Pass()
					}
					if spec != none {
						st.Inc(cat + ".decision.by_ordinary_rule_on_the_question")
						if spec == s04Pass() {
							st.Inc(cat + ".decision.by_ordinary_rule_passthrough")
						}
					} else {
						spec = fbDec
						st.Inc(cat + ".decision.by_request_fallback")
					}
				}
			}
			o.emit("q "+bs+" "+gb, "dec="+dec+" spec="+spec+" raw="+raw, s04Descr{Kind: "q", Pkt: in.String(cat)})
			st.Inc(cat + ".evaluations")
			if dec == fbDec {
				st.Inc(cat + ".decision.none_or_fallback")
			} else if dec != "err" {
				st.Inc(cat + ".decision.rule")
			} else {
				st.Inc(cat + ".decision.build_error")
			}
		}
	}
}

func s04Parse(t *testing.T, body string) []*s04Rule {
	secs, err := config_parser.Parse("routing {\n" + body + "\n}\n")
	if err != nil {
		t.Fatalf("witness does not parse: %q: %v", body, err)
	}
	var rules []*s04Rule
	for _, s := range secs {
		for _, it := range s.Items {
			if r, ok := it.Value.(*s04Rule); ok {
				rules = append(rules, r)
			}
		}
	}
	return rules
}

func TestVerifC04Sel(t *testing.T) {
	r := NewVRand(VSeed() + 7)
	stats := NewVStats()
	st := VOpenStream("c04sel")
	descr, err := os.Create(filepath.Join(VOutDir(), "c04sel.descr"))
	if err != nil {
		t.Fatal(err)
	}
	out := &s04Out{st: st, descr: descr}
	defer func() { st.Close(); descr.Close(); stats.Write("c04sel") }()
	log := logrus.New()
	log.SetLevel(logrus.PanicLevel)
	env := &s04Env{log: log, ups: map[string]uint8{"alidns": 0, "googledns": 1, "cf": 2}, atomM: map[s04Atom]any{}, stats: stats,
		hr: NewVRand(VSeed() + 1009), dnsNew: true}
	env.r = &Router{log: log, upstreams: map[string]*componentdns.UpstreamResolver{"alidns": {}, "googledns": {}, "cf": {}}}

	geoDir := filepath.Join(VOutDir(), "c04selgeo")
	if err := os.MkdirAll(geoDir, 0o755); err != nil {
		t.Fatal(err)
	}
	if err := s04WriteGeo(geoDir); err != nil {
		t.Fatal(err)
	}
	os.Unsetenv("DAE_LOCATION_ASSET")
	env.lf = assets.NewLocationFinder([]string{geoDir})
	found, siteLine := s04ReadSite()
	env.stages = s04Usable(found)
	out.emit("pipeline daedns "+s04Tok(strings.Join(found, ",")), siteLine, s04Descr{Kind: "pipeline", Backend: "daedns", Text: found})

	// The model's input assumption for this pipeline: a selector without parameters (the catch-all forms the
	// documentation advertises) cannot be written -- the parser rejects every such form, also inside the dns
	// request section, negated, or next to a selector that has parameters.
	if _, err := config_parser.Parse("global {}\ndns {\n upstream { alidns: 'udp://223.5.5.5:53' }\n routing { request {\n  sub(my_sub) -> alidns\n  fallback: asis\n } }\n}\n"); err != nil {
		t.Fatalf("control form does not parse: %v", err)
	}
	for _, bad := range []string{"sub() -> alidns", "node() -> alidns", "subnode() -> alidns", "!sub() -> alidns",
		"sub() && sub(my_sub) -> alidns", "qname() -> alidns", "sub(my_sub) -> alidns()"} {
		text := "global {}\ndns {\n upstream { alidns: 'udp://223.5.5.5:53' }\n routing { request {\n  " + bad + "\n  fallback: asis\n } }\n}\n"
		if _, err := config_parser.Parse(text); err == nil {
			out.emit("parser-accepts "+strings.ReplaceAll(bad, " ", "_"), "unexpected", s04Descr{Kind: "x", Text: []string{bad}})
		} else {
			stats.Inc("parser.rejects_parameterless_forms")
		}
	}
	// Latent, NOT reachable from a configuration (only an AST built by hand has a parameterless selector):
	// MergeAndSortRulesOptimizer's merge condition does not look at the number of parameters, so
	// `sub() -> alidns ; sub(my_sub) -> alidns` is merged into `sub(my_sub) -> alidns` and the catch-all is lost.
	// Recorded as a counter only (design note C04, goal 0).
	{
		rules := []*s04Rule{
			{AndFunctions: []*s04Func{{Name: "sub"}}, Outbound: s04Func{Name: "alidns"}},
			{AndFunctions: []*s04Func{{Name: "sub", Params: []*s04Param{{Val: "my_sub"}}}}, Outbound: s04Func{Name: "alidns"}},
		}
		cfg := &config.Dns{Upstream: []config.KeyableString{"alidns:udp://223.5.5.5:53"}}
		cfg.Routing.Request.Rules, cfg.Routing.Request.Fallback, cfg.Routing.Response.Fallback = rules, "asis", "accept"
		if r, err := NewWithOption(log, &config.Global{}, cfg, &NewOption{LocationFinder: env.lf}); err == nil && r != nil {
			if _, ok := r.MatchSubscriptionUpstream("other:https://a.example/sub"); ok {
				stats.Inc("latent.hand_built_ast.paramless_selector_keeps_catch_all")
			} else {
				stats.Inc("latent.hand_built_ast.paramless_selector_MERGED_AWAY")
			}
		} else {
			stats.Inc("latent.hand_built_ast.rejected")
		}
	}

	fixed := []*s04Input{
		{tag: "my_sub", link: "https://a.example/sub", name: "hk-1", qname: "a.com", qtype: 1},
		{tag: "", link: "ss://abc@1.2.3.4:8388", name: "jp-2", qname: "x.org", qtype: 28},
		{tag: "other", link: "", name: "us-3", qname: "zzz.net", qtype: 1},
	}
	for _, w := range []struct{ tag, body, fb string }{
		// fix: an empty rule list keeps its fallback (no router only for the pass-through fallbacks)
		{"c04-daedns-empty-list-ignores-fallback", "", "alidns"},
		{"c04-daedns-empty-list-ignores-fallback", "", "googledns"},
		{"c04-daedns-empty-list-ignores-fallback", "qname(full: never.invalid) -> googledns", "alidns"},
		{"keep-no-router-for-passthrough-fallback", "", "asis"},
		{"keep-no-router-for-passthrough-fallback", "", "reject"},
		{"c04-merge-negated", "!node(hk-1) -> alidns\n!node(jp-2) -> alidns\nnode(hk-1) -> googledns", ""},
		{"c04-merge-negated", "!subnode(subtag: my_sub) -> alidns\n!subnode(subtag: other) -> alidns\nsubnode(my_sub) -> cf", ""},
		{"c04-selector-empty-expansion-catchall", "node(geosite: two@nosuch) -> alidns\nnode(hk-1) -> cf", ""},
		{"c04-selector-empty-expansion-catchall", "sub(geosite: empty) -> googledns", ""},
		{"c04-selector-empty-expansion-catchall", "qtype(a) && qname(geosite: empty) -> alidns\nsubnode(my_sub) -> cf", ""},
		{"keep-merge", "node(hk-1) -> alidns\nnode(name_keyword: jp) -> alidns\nqname(suffix: a.com) -> alidns\nsub(my_sub) -> alidns\nsub(tag: other, my_sub) -> alidns", ""},
		{"keep-split-order", "subnode(subtag: my_sub) && subnode(name_keyword: hk) -> alidns\nnode(hk-1) -> cf\nsubnode(name: hk-1) -> googledns\nqtype(aaaa) -> cf", ""},
	} {
		fb := w.fb
		if fb == "" {
			fb = "asis"
		}
		env.runProgram(out, r, w.tag, s04Parse(t, w.body), fb, 3, fixed)
	}
	n, k := 250, 6
	if VThorough() {
		n, k = 3000, 10
	}
	for i := 0; i < n; i++ {
		rules := s04GenProg(r, stats)
		if r.Chance(0.03) {
			rules = nil // the empty rule list: only the fallback is left
		}
		env.runProgram(out, r, "gen", rules, s04Pick(r, []string{"asis", "asis", "alidns", "reject", "googledns", "cf"}), k, nil)
		if i < 2 {
			stats.Sample("daedns: " + strings.Join(s04Text(rules), " ; "))
		}
	}
	stats.Add("ops", st.N)
}
