package daedns

// C07 correspondence harness, dae's OWN look-ups (node / subscription hosts): the second consumer of
// the DNS request rules.  The REAL daedns.NewWithOption builds the router from the generated dae
// config text (same request-rule normalisation, split and matcher builder as dns.New); the REAL
// Router.LookupIPAddr is driven for generated hosts; the HTTPS transport seam (sendHTTPDNSFunc) is
// replaced by a fake that records WHICH upstream received WHICH question.
//
// Compared with the Lean model (`dq` lines): per query type of the look-up, the upstream the first
// matching request rule names — or `pass` when the rule says asis or reject (daedns hands both to the
// base resolver: code as it is, see design note) .

import (
	"context"
	"fmt"
	"net"
	"net/http"
	"net/netip"
	"strings"
	"sync"
	"testing"

	componentdns "github.com/daeuniverse/dae/component/dns"
	"github.com/daeuniverse/dae/config"
	"github.com/daeuniverse/dae/pkg/config_parser"
	dnsmessage "github.com/miekg/dns"
)

// presentation form of a name after one trip over the wire (`@` comes back as `\@`)
func c07WireName(n string) string {
	m := new(dnsmessage.Msg)
	m.SetQuestion(n, dnsmessage.TypeA)
	var w dnsmessage.Msg
	if b, err := m.Pack(); err != nil || w.Unpack(b) != nil || len(w.Question) != 1 {
		return "unpackable:" + n
	}
	return w.Question[0].Name
}

type c07DaeAsked struct {
	up    string
	name  string
	qtype uint16
}

func TestVerifC07Daedns(t *testing.T) {
	r := NewVRand(VSeed() + 13)
	stats := NewVStats()
	st := VOpenStream("c07d")
	defer st.Close()

	var mu sync.Mutex
	var asked []c07DaeAsked
	var urls []string
	origT, origS := newHTTPTransportFunc, sendHTTPDNSFunc
	defer func() { newHTTPTransportFunc, sendHTTPDNSFunc = origT, origS }()
	newHTTPTransportFunc = func(_ *Router, _ *componentdns.Upstream, _ netip.AddrPort, _ bool) http.RoundTripper { return nil }
	sendHTTPDNSFunc = func(ctx context.Context, client *http.Client, target string, upstream *componentdns.Upstream, data []byte) (*dnsmessage.Msg, error) {
		var q dnsmessage.Msg
		if err := q.Unpack(data); err != nil || len(q.Question) != 1 {
			return nil, fmt.Errorf("c07 fake doh: bad query")
		}
		id := "?" + upstream.String()
		for k := range urls {
			if upstream.String() == fmt.Sprintf("https://192.0.2.%d:443/dns-query", k+1) {
				id = fmt.Sprintf("u%d", k)
			}
		}
		mu.Lock()
		asked = append(asked, c07DaeAsked{id, q.Question[0].Name, q.Question[0].Qtype})
		mu.Unlock()
		m := new(dnsmessage.Msg)
		m.SetReply(&q)
		hdr := dnsmessage.RR_Header{Name: q.Question[0].Name, Rrtype: q.Question[0].Qtype, Class: dnsmessage.ClassINET, Ttl: 60}
		switch q.Question[0].Qtype {
		case dnsmessage.TypeA:
			m.Answer = []dnsmessage.RR{&dnsmessage.A{Hdr: hdr, A: net.IPv4(192, 0, 2, 99).To4()}}
		case dnsmessage.TypeAAAA:
			m.Answer = []dnsmessage.RR{&dnsmessage.AAAA{Hdr: hdr, AAAA: net.ParseIP("2001:db8::99")}}
		}
		return m, nil
	}

	nCfg, perCfg, maxRules := 150, 10, 5
	if VThorough() {
		nCfg, perCfg, maxRules = 1500, 14, 8
	}
	for ci := 0; ci < nCfg; ci++ {
		nUp := []int{0, 1, 2, 3, 3, 5}[r.Intn(6)]
		reqRules := c07GenRules(r, nUp, false, maxRules, stats)
		reqFb := c07Out(r, nUp, false)
		urls = nil
		for k := 0; k < nUp; k++ {
			urls = append(urls, fmt.Sprintf("https://192.0.2.%d/dns-query", k+1))
		}
		text := c07ConfigText(nUp, urls, reqRules, reqFb, nil, "accept")
		sections, err := config_parser.Parse(text)
		if err != nil {
			t.Fatalf("generated config does not parse: %v\n%s", err, text)
		}
		conf, err := config.New(sections)
		if err != nil {
			t.Fatalf("generated config rejected: %v\n%s", err, text)
		}
		cfgOp := fmt.Sprintf("cfg %d %s %s accept - urls:%s", nUp, reqFb, c07RenderOp(reqRules), strings.Join(urls, ","))
		router, err := NewWithOption(c07Quiet(), &conf.Global, &conf.Dns, nil)
		if err != nil {
			st.Emit(cfgOp, "builderr")
			continue
		}
		st.Emit(cfgOp, "ok")
		stats.Inc("cfg")
		if ci < 2 {
			stats.Sample(cfgOp)
		}
		for _, name := range c07Names(r, reqRules, perCfg, stats) {
			host := strings.TrimRight(name, ".")
			if strings.Contains(host, "..") || strings.HasPrefix(host, ".") || host == "" {
				host = c07RandCase(r, c07Domain(r))
			}
			if _, err := netip.ParseAddr(host); err == nil {
				host = "h" + host // IP literals are answered without any look-up
			}
			if r.Chance(0.3) {
				host += "." // a fully-qualified host
			}
			network := []string{"udp", "udp", "udp4", "tcp6", "tcp"}[r.Intn(5)]
			ver := map[string]string{"udp": "46", "tcp": "46", "udp4": "4", "tcp6": "6"}[network]
			op := fmt.Sprintf("dq n:%s %s %s", host, ver, c07Rx(dnsmessage.CanonicalName(host)))
			out := VRecover(func() string {
				if router == nil {
					return "norouter"
				}
				mu.Lock()
				asked = nil
				mu.Unlock()
				_, lerr := router.LookupIPAddr(context.Background(), "", network, host)
				mu.Lock()
				defer mu.Unlock()
				res := map[uint16]string{}
				bad := ""
				for _, a := range asked {
					if _, dup := res[a.qtype]; dup {
						bad = " asked-twice"
					}
					res[a.qtype] = a.up
					if c07WireName(a.name) != c07WireName(dnsmessage.CanonicalName(host)) {
						bad += " other-question:" + a.name
					}
				}
				var parts []string
				for _, qt := range []uint16{dnsmessage.TypeA, dnsmessage.TypeAAAA} {
					if (qt == dnsmessage.TypeA && ver == "6") || (qt == dnsmessage.TypeAAAA && ver == "4") {
						if up, ok := res[qt]; ok {
							bad += " unexpected-type-asked:" + up
						}
						continue
					}
					up, ok := res[qt]
					if !ok {
						up = "pass"
					}
					parts = append(parts, fmt.Sprintf("%d=%s", qt, up))
					stats.Inc("dq.decision." + map[bool]string{true: "upstream", false: "passthrough"}[ok])
				}
				_ = lerr
				return strings.Join(parts, " ") + bad
			})
			st.Emit(op, out)
			stats.Inc("op.dq")
		}
	}
	stats.Write("c07d")
}
