package dns

// C07 correspondence harness, matcher level: the REAL dae config parser, the REAL request /
// response matcher builders (same construction path as dns.New: normalised program →
// SplitRequestRules → builder → Build) and the REAL RequestMatcher.Match / ResponseMatcher.Match,
// against the Lean model driver c07drv (lean/DaeVerif/C07/Main.lean documents the op grammar).
//
// Per generated rule list: one `req`/`resp` line whose answer is a dump of the compiled program
// (matches array + domain-set table, white-box) and a batch of `rq`/`rs` lines (one question or
// one answer each).  Every decision is also taken by a second matcher built with the production
// optimizer chain of dns.New (MergeAndSort + Deduplicate); a disagreement is made visible in the
// answer line.

import (
	"fmt"
	"net/netip"
	"strings"
	"testing"

	"github.com/daeuniverse/dae/common/assets"
	"github.com/daeuniverse/dae/common/consts"
	"github.com/daeuniverse/dae/component/routing"
	"github.com/daeuniverse/dae/config"
)

// ---------------------------------------------------------------- dumps of the real program

func c07TypeName(t consts.MatchType) string {
	switch t {
	case consts.MatchType_DomainSet:
		return "dom"
	case consts.MatchType_IpSet:
		return "ip"
	case consts.MatchType_QType:
		return "qtype"
	case consts.MatchType_Upstream:
		return "up"
	case consts.MatchType_Fallback:
		return "fb"
	}
	return fmt.Sprintf("type%d", t)
}

func c07B(b bool) string {
	if b {
		return "1"
	}
	return "0"
}

func c07DumpDoms(sets []routing.DomainSet) string {
	var l []string
	for _, d := range sets {
		doms := d.Domains
		if d.Key == consts.RoutingDomainKey_Regex {
			// the op line names regex patterns by their menu id
			doms = nil
			for _, p := range d.Domains {
				tok := p
				for i, m := range c07RegexMenu {
					if m == p {
						tok = fmt.Sprintf("R%d", i)
					}
				}
				doms = append(doms, tok)
			}
		}
		l = append(l, fmt.Sprintf("%d:%s:%s", d.RuleIndex, d.Key, strings.Join(doms, "|")))
	}
	return strings.Join(l, ",")
}

func c07DumpReq(b *RequestMatcherBuilder, m *RequestMatcher) string {
	var l []string
	for _, s := range m.matches {
		l = append(l, fmt.Sprintf("%s:%d:%s:%d", c07TypeName(s.Type), s.Value, c07B(s.Not), s.Upstream))
	}
	return "ms=" + strings.Join(l, ",") + " doms=" + c07DumpDoms(b.simulatedDomainSet) + " ips=0"
}

func c07DumpResp(b *ResponseMatcherBuilder, m *ResponseMatcher) string {
	var l []string
	for _, s := range m.matches {
		l = append(l, fmt.Sprintf("%s:%d:%s:%d", c07TypeName(s.Type), s.Value, c07B(s.Not), s.Upstream))
	}
	return "ms=" + strings.Join(l, ",") + " doms=" + c07DumpDoms(b.simulatedDomainSet) + fmt.Sprintf(" ips=%d", len(m.ipSet))
}

type c07ReqPair struct {
	plainB *RequestMatcherBuilder
	plain  *RequestMatcher
	opt    *RequestMatcher
}

func c07BuildReq(dns *config.Dns, name2id map[string]uint8) (*c07ReqPair, error) {
	log := c07Quiet()
	prog, err := NewNormalizedRequestRoutingProgram(dns.Routing.Request.Rules, dns.Routing.Request.Fallback)
	if err != nil {
		return nil, err
	}
	b, err := NewRequestMatcherBuilderFromProgram(log, prog, name2id)
	if err != nil {
		return nil, err
	}
	m, err := b.Build()
	if err != nil {
		return nil, err
	}
	// production chain of dns.New
	progO, err := NewNormalizedRequestRoutingProgram(dns.Routing.Request.Rules, dns.Routing.Request.Fallback,
		&routing.DatReaderOptimizer{Logger: log, LocationFinder: assets.NewLocationFinder(nil)},
		&routing.MergeAndSortRulesOptimizer{},
		&routing.DeduplicateParamsOptimizer{},
	)
	if err != nil {
		return nil, err
	}
	bo, err := NewRequestMatcherBuilderFromProgram(log, progO, name2id)
	if err != nil {
		return nil, err
	}
	mo, err := bo.Build()
	if err != nil {
		return nil, err
	}
	return &c07ReqPair{b, m, mo}, nil
}

type c07RespPair struct {
	plainB *ResponseMatcherBuilder
	plain  *ResponseMatcher
	opt    *ResponseMatcher
}

func c07BuildResp(dns *config.Dns, name2id map[string]uint8) (*c07RespPair, error) {
	log := c07Quiet()
	prog, err := routing.NewNormalizedProgram(dns.Routing.Response.Rules, dns.Routing.Response.Fallback)
	if err != nil {
		return nil, err
	}
	b, err := NewResponseMatcherBuilderFromProgram(log, prog, name2id)
	if err != nil {
		return nil, err
	}
	m, err := b.Build()
	if err != nil {
		return nil, err
	}
	progO, err := routing.NewNormalizedProgram(dns.Routing.Response.Rules, dns.Routing.Response.Fallback,
		&routing.DatReaderOptimizer{Logger: log, LocationFinder: assets.NewLocationFinder(nil)},
		&routing.MergeAndSortRulesOptimizer{},
		&routing.DeduplicateParamsOptimizer{},
	)
	if err != nil {
		return nil, err
	}
	bo, err := NewResponseMatcherBuilderFromProgram(log, progO, name2id)
	if err != nil {
		return nil, err
	}
	mo, err := bo.Build()
	if err != nil {
		return nil, err
	}
	return &c07RespPair{b, m, mo}, nil
}

func c07ReqAnswer(m *RequestMatcher, name string, qt uint16) string {
	return VRecover(func() string {
		u, err := m.Match(name, qt)
		if err != nil {
			return "nohit"
		}
		return fmt.Sprintf("hit:%d", int(u))
	})
}

func c07RespAnswer(m *ResponseMatcher, name string, qt uint16, ips []netip.Addr, from consts.DnsRequestOutboundIndex) string {
	return VRecover(func() string {
		u, err := m.Match(name, qt, ips, from)
		if err != nil {
			if strings.Contains(err.Error(), "qName cannot be empty") {
				return "emptyname"
			}
			return "nohit"
		}
		return fmt.Sprintf("hit:%d", int(u))
	})
}

// an upper bound of the number of match sets a rule list compiles to (one per parameter at most, plus the fallback)
func c07SetsUpperBound(rules []c07Rule) int {
	n := 1
	for _, rule := range rules {
		for _, f := range rule.funcs {
			n += len(f.params)
		}
	}
	return n
}

func TestVerifC07Matchers(t *testing.T) {
	r := NewVRand(VSeed())
	stats := NewVStats()
	st := VOpenStream("c07m")
	defer st.Close()

	nCfg, perCfg, maxRules := 400, 24, 7
	if VThorough() {
		nCfg, perCfg, maxRules = 5000, 40, 12
	}
	nCfg = VEnvInt("C07_NCFG", nCfg)
	for ci := 0; ci < nCfg; ci++ {
		nUp := []int{0, 1, 2, 2, 3, 3, 5, 8}[r.Intn(8)]
		mr := maxRules
		if r.Chance(0.04) {
			mr = maxRules * 6 // a long list now and then
			stats.Inc("cfg.long-rule-list")
		}
		reqRules := c07GenRules(r, nUp, false, mr, stats)
		respRules := c07GenRules(r, nUp, true, mr, stats)
		reqFb := c07Out(r, nUp, false)
		respFb := c07Out(r, nUp, true)
		text := c07ConfigText(nUp, nil, reqRules, reqFb, respRules, respFb)
		dnsCfg, err := c07ParseConfig(text)
		if err != nil {
			t.Fatalf("generated config does not parse: %v\n%s", err, text)
		}
		name2id := map[string]uint8{}
		for i := 0; i < nUp; i++ {
			name2id[fmt.Sprintf("u%d", i)] = uint8(i)
		}
		stats.Inc("cfg")
		stats.Add("cfg.request-rules", len(reqRules))
		stats.Add("cfg.response-rules", len(respRules))

		// ---- request side
		reqOp := fmt.Sprintf("req %d %s %s", nUp, reqFb, c07RenderOp(reqRules))
		rp, err := c07BuildReq(dnsCfg, name2id)
		if c07SetsUpperBound(reqRules) >= consts.MaxMatchSetLen || c07SetsUpperBound(respRules) >= consts.MaxMatchSetLen {
			// possibly more than MaxMatchSetLen match sets: the size limit is C17's subject, not modelled here
			stats.Inc("cfg.skipped-over-size-limit")
			continue
		}
		if err != nil {
			st.Emit(reqOp, "builderr")
		} else {
			st.Emit(reqOp, c07DumpReq(rp.plainB, rp.plain))
			if ci < 3 {
				stats.Sample(reqOp)
			}
			for _, name := range c07Names(r, reqRules, perCfg, stats) {
				qt := c07Qtype(r, reqRules)
				op := fmt.Sprintf("rq n:%s %d %s", name, qt, c07Rx(name))
				a := c07ReqAnswer(rp.plain, name, qt)
				if o := c07ReqAnswer(rp.opt, name, qt); o != a {
					a += " optimized-chain:" + o
				}
				st.Emit(op, a)
				stats.Inc("op.rq")
			}
		}
		// ---- response side
		respOp := fmt.Sprintf("resp %d %s %s", nUp, respFb, c07RenderOp(respRules))
		sp, err := c07BuildResp(dnsCfg, name2id)
		if err != nil {
			st.Emit(respOp, "builderr")
			continue
		}
		st.Emit(respOp, c07DumpResp(sp.plainB, sp.plain))
		if ci < 3 {
			stats.Sample(respOp)
		}
		for _, name := range c07Names(r, respRules, perCfg, stats) {
			qt := c07Qtype(r, respRules)
			ips := c07Ips(r, stats)
			from := consts.DnsRequestOutboundIndex_AsIs
			fromTok := "asis"
			if nUp > 0 && r.Chance(0.8) {
				k := r.Intn(nUp)
				from = consts.DnsRequestOutboundIndex(k)
				fromTok = fmt.Sprintf("u%d", k)
			} else {
				stats.Inc("answer.from-asis")
			}
			var toks []string
			for _, a := range ips {
				toks = append(toks, c07AddrOp(a))
			}
			op := fmt.Sprintf("rs n:%s %d %s ips:%s %s", name, qt, fromTok, strings.Join(toks, ","), c07Rx(name))
			a := c07RespAnswer(sp.plain, name, qt, ips, from)
			if o := c07RespAnswer(sp.opt, name, qt, ips, from); o != a {
				a += " optimized-chain:" + o
			}
			st.Emit(op, a)
			stats.Inc("op.rs")
		}
	}
	stats.Write("c07m")
}
